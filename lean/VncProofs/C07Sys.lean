import VncProofs.EndToEnd
import VncProofs.C06
/-!
# C07 / C06 on whole sessions of the whole client

`C07_one_request_per_commit`, `C07_never_early`, `C06_saved_is_screen` are about ONE call of `onCommit`.  Here the waiting
application sits inside the whole client (`sysMachine`) and the server sends whole FramebufferUpdates of any encodings:

* during an update the application does nothing at all; when the update is complete it reacts exactly once, with the screen
  that update produced (`sys_update_app`);
* a wait for an image that does not match after any of `n` updates (n arbitrary) writes exactly `n` requests, one per update,
  stays armed, and the script does not move (`C07_sys_polls`);
* the first update after which the screen matches completes the wait, without a further request (`C07_sys_completes`).
-/
namespace Vnc
open Vnc.Spec

/-! ## helpers: callbacks the application does not react to -/

/-- the application reacts to `made` and `commit` only -/
def noReact : Out → Bool
  | .made => false
  | .commit _ => false
  | _ => true

theorem evActs_append (a b : List Ev) : evActs (a ++ b) = evActs a ++ evActs b := by
  simp [evActs, List.filterMap_append]

theorem evActs_acts (l : List Act) : evActs (l.map Ev.act) = l := by
  induction l with
  | nil => rfl
  | cons a l ih =>
    simp only [evActs, List.map_cons, List.filterMap_cons] at ih ⊢
    rw [ih]

theorem evActs_out (o : Out) : evActs [Ev.out o] = [] := rfl

theorem appReact_noReact (core : Core) (screen : Option Img) (a : App) (o : Out) (h : noReact o = true) :
    appReact core screen a o = (a, []) := by
  cases o <;> first | rfl | cases h

theorem reactOne_noReact (core : Core) (acc : Canvas × App × List Ev) (o : Out) (h : noReact o = true) :
    (reactOne core acc o).2.1 = acc.2.1 ∧ evActs (reactOne core acc o).2.2 = evActs acc.2.2 := by
  simp [reactOne, appReact_noReact _ _ _ _ h, evActs_append, evActs_out]

theorem reactFold_noReact (core : Core) (outs : List Out) : ∀ (acc : Canvas × App × List Ev),
    (∀ o ∈ outs, noReact o = true) →
    (outs.foldl (reactOne core) acc).2.1 = acc.2.1 ∧
    evActs (outs.foldl (reactOne core) acc).2.2 = evActs acc.2.2 := by
  induction outs with
  | nil => intro acc _; exact ⟨rfl, rfl⟩
  | cons o outs ih =>
    intro acc h
    rw [List.foldl_cons]
    obtain ⟨h1, h2⟩ := ih (reactOne core acc o) (fun x hx => h x (List.mem_cons_of_mem _ hx))
    obtain ⟨k1, k2⟩ := reactOne_noReact core acc o (h o (List.mem_cons_self ..))
    exact ⟨h1.trans k1, h2.trans k2⟩

/-- a handler invocation none of whose callbacks is `made` / `commit`: the application is not involved -/
theorem sysStep_noReact (s : SysSt) (b : Bytes) (h : ∀ o ∈ (step s.rfb b).2, noReact o = true) :
    (sysStep s b).1.app = s.app ∧ evActs (sysStep s b).2 = [] := by
  simp only [sysStep]
  exact reactFold_noReact _ _ (s.cv, s.app, []) h

/-- a handler invocation whose last callback is the only one the application reacts to, and it is a commit: the
    application reacts once, with the geometry and the screen this invocation leaves behind -/
theorem sysStep_commit_last (s : SysSt) (b : Bytes) (pre : List Out) (rs : List Rect)
    (h : (step s.rfb b).2 = pre ++ [.commit rs]) (hpre : ∀ o ∈ pre, noReact o = true) :
    (sysStep s b).1.app = (onCommit (sysStep s b).1.rfb.core (sysStep s b).1.cv.screen s.app).1 ∧
    evActs (sysStep s b).2 = (onCommit (sysStep s b).1.rfb.core (sysStep s b).1.cv.screen s.app).2 := by
  simp only [sysStep, h, List.foldl_append, List.foldl_cons, List.foldl_nil]
  obtain ⟨k1, k2⟩ := reactFold_noReact (step s.rfb b).1.core pre (s.cv, s.app, []) hpre
  generalize pre.foldl (reactOne (step s.rfb b).1.core) (s.cv, s.app, []) = acc at k1 k2
  obtain ⟨cv, a, evs⟩ := acc
  dsimp only at k1 k2
  subst k1
  have k2' : evActs evs = [] := k2
  simp only [reactOne, evActs_append, evActs_out, evActs_acts, k2', List.nil_append, List.append_nil]
  exact ⟨rfl, rfl⟩

/-! ## helpers: after the commit the dispatch loop stops -/

/-- the phases from which the machine cannot come back to "waiting for a message type" without a callback -/
def QuietPh : Phase → Prop
  | .fbUpdate | .colourMap | .colourMapVals _ _ | .cutText | .cutTextVal _ | .dead => True
  | _ => False

theorem quiet_of_core (s : RSt) (b : Bytes) (h : (stepCore s b).2 ≠ [] ∨ QuietPh (stepCore s b).1.ph) :
    (step s b).2 ≠ [] ∨ QuietPh (step s b).1.ph := by
  rcases step_split s b with he | ⟨hd, _⟩
  · rw [he]; exact h
  · right; rw [hd]; trivial

theorem quiet_step (s : RSt) (b : Bytes) (h : QuietPh s.ph) : (step s b).2 ≠ [] ∨ QuietPh (step s b).1.ph := by
  apply quiet_of_core
  obtain ⟨c, ph⟩ := s
  cases ph <;> first | exact h.elim | skip
  case fbUpdate =>
    left
    simp only [stepCore, doConnection]
    split <;> (try split) <;> simp [go]
  all_goals simp [stepCore, go, dead, QuietPh]

theorem conn_step (s : RSt) (b : Bytes) (h : s.ph = .connection) : (step s b).2 ≠ [] ∨ QuietPh (step s b).1.ph := by
  apply quiet_of_core
  obtain ⟨c, ph⟩ := s
  dsimp only at h
  subst h
  simp only [stepCore]
  split <;> (try split) <;> (try split) <;> (try split) <;> simp [go, dead, QuietPh]

theorem quiet_drain : ∀ (fuel : Nat) (s : RSt) (buf : Bytes), QuietPh s.ph →
    (drain rfbMachine fuel s buf).out = [] → QuietPh (drain rfbMachine fuel s buf).s.ph := by
  intro fuel
  induction fuel with
  | zero => intro s buf h _; exact h
  | succ f ih =>
    intro s buf h ho
    by_cases hb : rfbMachine.blocked s buf = true
    · rw [drain_blocked_eq _ _ _ _ hb]; exact h
    · have hb' : rfbMachine.blocked s buf = false := by simpa using hb
      simp only [drain, hb', Bool.false_eq_true, ↓reduceIte] at ho ⊢
      obtain ⟨ho1, ho2⟩ := List.append_eq_nil_iff.1 ho
      rcases quiet_step s (buf.take (rfbMachine.need s)) h with hne | hq
      · exact absurd ho1 hne
      · exact ih _ _ hq ho2

theorem conn_drain (fuel : Nat) (s : RSt) (buf : Bytes) (h : s.ph = .connection) (hbuf : buf ≠ [])
    (hok : (drain rfbMachine fuel s buf).ok = true) (ho : (drain rfbMachine fuel s buf).out = []) :
    QuietPh (drain rfbMachine fuel s buf).s.ph := by
  have hb' : rfbMachine.blocked s buf = false := by
    cases buf with
    | nil => exact absurd rfl hbuf
    | cons x xs => simp [Machine.blocked, rfbMachine, halted, need, h]
  cases fuel with
  | zero => simp [drain, hb'] at hok
  | succ f =>
    simp only [drain, hb', Bool.false_eq_true, ↓reduceIte] at ho ⊢
    obtain ⟨ho1, ho2⟩ := List.append_eq_nil_iff.1 ho
    rcases conn_step s (buf.take (rfbMachine.need s)) h with hne | hq
    · exact absurd ho1 hne
    · exact quiet_drain _ _ _ hq ho2

/-- in the whole client: from "waiting for a message type" (or closed), a run that emits no callback and ends waiting
    for a message type did nothing at all -/
theorem sys_drain_idle (fuel : Nat) (s : SysSt) (buf : Bytes) (h : s.rfb.ph = .connection ∨ s.rfb.ph = .dead)
    (hok : (drain sysMachine fuel s buf).ok = true) (ho : evOuts (drain sysMachine fuel s buf).out = [])
    (hph : (drain sysMachine fuel s buf).s.rfb.ph = .connection) :
    drain sysMachine fuel s buf = ⟨s, buf, [], true⟩ := by
  by_cases hb : sysMachine.blocked s buf = true
  · exact drain_blocked_eq _ _ _ _ hb
  · exfalso
    have hb' : (halted s.rfb || decide (buf.length < need s.rfb)) = false := by
      have : sysMachine.blocked s buf = false := by simpa using hb
      exact this
    rcases h with h | h
    · have hbuf : buf ≠ [] := by
        intro he
        subst he
        simp [halted, need, h] at hb'
      obtain ⟨e1, _, e3, e4⟩ := sys_drain_rfb fuel s buf
      rw [e1] at hph
      have := conn_drain fuel s.rfb buf h hbuf (e4 ▸ hok) (e3 ▸ ho)
      rw [hph] at this
      exact this
    · simp [halted, h] at hb'

/-! ## helpers: the application along a whole run of the dispatch loop -/

/-- a run none of whose callbacks is `made` / `commit` leaves the application alone -/
theorem sys_drain_noReact : ∀ (fuel : Nat) (s : SysSt) (buf : Bytes),
    (∀ o ∈ evOuts (drain sysMachine fuel s buf).out, noReact o = true) →
    (drain sysMachine fuel s buf).s.app = s.app ∧ evActs (drain sysMachine fuel s buf).out = [] := by
  intro fuel
  induction fuel with
  | zero => intro s buf _; exact ⟨rfl, rfl⟩
  | succ f ih =>
    intro s buf h
    by_cases hb : sysMachine.blocked s buf = true
    · rw [drain_blocked_eq _ _ _ _ hb]; exact ⟨rfl, rfl⟩
    · have hb' : sysMachine.blocked s buf = false := by simpa using hb
      simp only [drain, hb', Bool.false_eq_true, ↓reduceIte] at h ⊢
      have hs : sysMachine.step s (buf.take (sysMachine.need s)) = sysStep s (buf.take (sysMachine.need s)) := rfl
      rw [hs] at h ⊢
      rw [evOuts_append, (sysStep_rfb s _).2] at h
      obtain ⟨j1, j2⟩ := sysStep_noReact s (buf.take (sysMachine.need s))
        (fun o ho => h o (List.mem_append_left _ ho))
      obtain ⟨i1, i2⟩ := ih (sysStep s (buf.take (sysMachine.need s))).1 (buf.drop (sysMachine.need s))
        (fun o ho => h o (List.mem_append_right _ ho))
      exact ⟨i1.trans j1, by rw [evActs_append, j2, i2]; rfl⟩

theorem append_eq_snoc {α : Type} (a b pre : List α) (c : α) (h : a ++ b = pre ++ [c]) :
    (b = [] ∧ a = pre ++ [c]) ∨ ∃ b', b = b' ++ [c] ∧ pre = a ++ b' := by
  rcases List.eq_nil_or_concat b with hb | ⟨b', x, hb⟩
  · left; subst hb; exact ⟨rfl, by simpa using h⟩
  · right
    subst hb
    rw [List.concat_eq_append, ← List.append_assoc] at h
    have hl := List.append_inj' h rfl
    obtain ⟨h1, h2⟩ := hl
    refine ⟨b', ?_, h1.symm⟩
    rw [List.concat_eq_append, h2]

/-- a run that ends waiting for a message type and whose only callback the application reacts to is a commit at the very
    end: the application reacts exactly once, with the geometry and the screen the run leaves behind -/
theorem sys_drain_commit : ∀ (fuel : Nat) (s : SysSt) (buf : Bytes) (pre : List Out) (rs : List Rect),
    (drain sysMachine fuel s buf).ok = true → (drain sysMachine fuel s buf).s.rfb.ph = .connection →
    evOuts (drain sysMachine fuel s buf).out = pre ++ [.commit rs] → (∀ o ∈ pre, noReact o = true) →
    (drain sysMachine fuel s buf).s.app =
      (onCommit (drain sysMachine fuel s buf).s.rfb.core (drain sysMachine fuel s buf).s.cv.screen s.app).1 ∧
    evActs (drain sysMachine fuel s buf).out =
      (onCommit (drain sysMachine fuel s buf).s.rfb.core (drain sysMachine fuel s buf).s.cv.screen s.app).2 := by
  intro fuel
  induction fuel with
  | zero => intro s buf pre rs _ _ ho _; simp [drain, evOuts] at ho
  | succ f ih =>
    intro s buf pre rs hok hph ho hpre
    by_cases hb : sysMachine.blocked s buf = true
    · rw [drain_blocked_eq _ _ _ _ hb] at ho; simp [evOuts] at ho
    · have hb' : sysMachine.blocked s buf = false := by simpa using hb
      simp only [drain, hb', Bool.false_eq_true, ↓reduceIte] at hok hph ho ⊢
      have hs : sysMachine.step s (buf.take (sysMachine.need s)) = sysStep s (buf.take (sysMachine.need s)) := rfl
      rw [hs] at hok hph ho ⊢
      generalize buf.take (sysMachine.need s) = b at hok hph ho ⊢
      generalize buf.drop (sysMachine.need s) = rest at hok hph ho ⊢
      rw [evOuts_append, (sysStep_rfb s b).2] at ho
      rcases append_eq_snoc _ _ _ _ ho with ⟨e1, e2⟩ | ⟨o2, e1, e2⟩
      · -- the commit is in this handler invocation: the loop stops after it
        have hcm : Out.commit rs ∈ (step s.rfb b).2 := by rw [e2]; simp
        have hend := C06_commit_ends_update s.rfb b rs hcm
        rw [← (sysStep_rfb s b).1] at hend
        have hidle := sys_drain_idle f (sysStep s b).1 rest hend hok e1 hph
        rw [hidle]
        dsimp only
        rw [List.append_nil]
        exact sysStep_commit_last s b pre rs e2 hpre
      · -- the commit comes later: this invocation does not involve the application
        subst e2
        obtain ⟨j1, j2⟩ := sysStep_noReact s b (fun o ho => hpre o (List.mem_append_left _ ho))
        obtain ⟨i1, i2⟩ := ih (sysStep s b).1 rest o2 rs hok hph e1 (fun o ho => hpre o (List.mem_append_right _ ho))
        rw [j1] at i1 i2
        exact ⟨i1, by rw [evActs_append, j2, i2]; rfl⟩

/-! ## helpers: the paint instructions of a rectangle are not `made` / `commit` -/

theorem nr_body (r : Rct) (b : Body) : ∀ o ∈ b.paint r, noReact o = true := by
  intro o ho
  cases b <;> simp only [Body.paint, List.mem_cons, List.mem_map, List.not_mem_nil, or_false] at ho
  case rre bg subs => rcases ho with rfl | ⟨s, _, rfl⟩ <;> rfl
  case corre bg subs => rcases ho with rfl | ⟨s, _, rfl⟩ <;> rfl
  all_goals first | (subst ho; rfl) | exact ho.elim

theorem nr_hexTile (tx ty tw th : Nat) (k : HexCarry) (t : HexTile) : ∀ o ∈ (t.paint tx ty tw th k).1, noReact o = true := by
  intro o ho
  cases t <;> simp only [HexTile.paint, List.mem_cons, List.mem_map, List.not_mem_nil, or_false] at ho
  case subs bg fg col rects => rcases ho with rfl | ⟨s, _, rfl⟩ <;> rfl
  all_goals (subst ho; rfl)

theorem nr_rowPaint (x w ty th : Nat) (ts : List HexTile) : ∀ (c : Nat) (k : HexCarry),
    ∀ o ∈ (rowPaint x w ty th c k ts).1, noReact o = true := by
  induction ts with
  | nil => intro c k o ho; simp [rowPaint] at ho
  | cons t ts ih =>
    intro c k o ho
    simp only [rowPaint, List.mem_append] at ho
    rcases ho with ho | ho
    · exact nr_hexTile _ _ _ _ _ _ o ho
    · exact ih _ _ o ho

theorem nr_rowsPaint (x y w h : Nat) (rows : List (List HexTile)) : ∀ (r : Nat) (k : HexCarry),
    ∀ o ∈ (rowsPaint x y w h r k rows).1, noReact o = true := by
  induction rows with
  | nil => intro r k o ho; simp [rowsPaint] at ho
  | cons row rows ih =>
    intro r k o ho
    simp only [rowsPaint, List.mem_append] at ho
    rcases ho with ho | ho
    · exact nr_rowPaint _ _ _ _ _ _ _ o ho
    · exact ih _ _ o ho

theorem nr_zTile (pad : Bool) (tx ty tw th : Nat) (t : ZTile) : noReact (t.paint pad tx ty tw th) = true := by
  cases t <;> rfl

theorem nr_zRowPaint (pad : Bool) (x w ty th : Nat) (ts : List ZTile) : ∀ (c : Nat),
    ∀ o ∈ zRowPaint pad x w ty th c ts, noReact o = true := by
  induction ts with
  | nil => intro c o ho; simp [zRowPaint] at ho
  | cons t ts ih =>
    intro c o ho
    simp only [zRowPaint, List.mem_cons] at ho
    rcases ho with rfl | ho
    · exact nr_zTile _ _ _ _ _ _
    · exact ih _ o ho

theorem nr_zRowsPaint (pad : Bool) (x y w h : Nat) (rows : List (List ZTile)) : ∀ (r : Nat),
    ∀ o ∈ zRowsPaint pad x y w h r rows, noReact o = true := by
  induction rows with
  | nil => intro r o ho; simp [zRowsPaint] at ho
  | cons row rows ih =>
    intro r o ho
    simp only [zRowsPaint, List.mem_append] at ho
    rcases ho with ho | ho
    · exact nr_zRowPaint _ _ _ _ _ _ _ o ho
    · exact ih _ o ho

theorem nr_anyBody (pf : PF) (r : Rct) (b : AnyBody) : ∀ o ∈ b.paint pf r, noReact o = true := by
  cases b with
  | plain b => exact nr_body r b
  | hextile rows => exact nr_rowsPaint _ _ _ _ _ _ _
  | zrle rows comp => exact nr_zRowsPaint _ _ _ _ _ _ _

/-- everything of an update before its commit -/
def paintBody (pf : PF) (rects : List (Rct × AnyBody)) : List Out :=
  [.begin] ++ rects.flatMap (fun rb => rb.2.paint pf rb.1)

theorem nr_paintBody (pf : PF) (rects : List (Rct × AnyBody)) : ∀ o ∈ paintBody pf rects, noReact o = true := by
  intro o ho
  simp only [paintBody, List.mem_append, List.mem_singleton, List.mem_flatMap] at ho
  rcases ho with rfl | ⟨rb, _, ho⟩
  · rfl
  · exact nr_anyBody pf rb.1 rb.2 o ho

theorem paintUpdateAny_commit (pf : PF) (rects : List (Rct × AnyBody)) (h : updatedAreasAny rects ≠ []) :
    paintUpdateAny pf rects = paintBody pf rects ++ [.commit (updatedAreasAny rects)] := by
  simp only [paintUpdateAny, paintBody, if_neg h]

theorem paintUpdateAny_nocommit (pf : PF) (rects : List (Rct × AnyBody)) (h : updatedAreasAny rects = []) :
    paintUpdateAny pf rects = paintBody pf rects := by
  simp only [paintUpdateAny, paintBody, if_pos h, List.append_nil]

/-- the state of the whole client after a sequence of whole updates, one `feed` per update -/
def afterUpdates (s : SysSt) : List (List (Rct × AnyBody)) → SysSt
  | [] => s
  | u :: us => afterUpdates (feed sysMachine ⟨s, []⟩ (wireUpdateAny u)).1.s us

/-! ## helpers: the protocol object after a whole update; one feed per update -/

theorem coreAfterAny_geo (c : Core) (r : Rct) (b : AnyBody) (hr : r.WF)
    (h : c.width < 65536 ∧ c.height < 65536) :
    (coreAfterAny c r b).width < 65536 ∧ (coreAfterAny c r b).height < 65536 := by
  cases b with
  | plain b =>
    cases b
    case desktopSize => exact ⟨hr.2.2.1, hr.2.2.2⟩
    all_goals exact h
  | hextile _ => exact h
  | zrle _ _ => exact h

theorem coreAfterAnys_geo (rects : List (Rct × AnyBody)) : ∀ (c : Core), (∀ rb ∈ rects, rb.1.WF) →
    c.width < 65536 ∧ c.height < 65536 →
    (coreAfterAnys c rects).width < 65536 ∧ (coreAfterAnys c rects).height < 65536 := by
  induction rects with
  | nil => intro c _ h; exact h
  | cons rb rects ih =>
    intro c hwf h
    exact ih _ (fun x hx => hwf x (List.mem_cons_of_mem _ hx))
      (coreAfterAny_geo c rb.1 rb.2 (hwf rb (List.mem_cons_self ..)) h)

/-- the frame of one whole update through the whole client: nothing left over, waiting for the next message, pixel format
    and inflate queue as expected, and the announced geometry stays within 16 bits -/
theorem sys_update_frame (s : SysSt) (hph : s.rfb.ph = .connection) (hbypp : s.rfb.core.pf.bypp ≠ 0)
    (rects : List (Rct × AnyBody)) (hn : rects.length < 65536)
    (hwf : ∀ rb ∈ rects, rb.1.WF ∧ rb.2.WF s.rfb.core.pf rb.1)
    (zq : List (Option Bytes)) (hz : s.rfb.core.zq = inflates rects ++ zq) :
    let r := feed sysMachine ⟨s, []⟩ (wireUpdateAny rects)
    r.1 = ⟨r.1.s, []⟩ ∧ r.1.s.rfb.ph = .connection ∧ r.1.s.rfb.core.pf = s.rfb.core.pf ∧ r.1.s.rfb.core.zq = zq ∧
    (s.rfb.core.width < 65536 ∧ s.rfb.core.height < 65536 →
      r.1.s.rfb.core.width < 65536 ∧ r.1.s.rfb.core.height < 65536) := by
  obtain ⟨_, e2, e3, e4, e5, _, _⟩ := E2E_update s hph hbypp rects hn hwf zq hz
  intro r
  refine ⟨?_, e3, e5, e4, ?_⟩
  · show r.1 = ⟨r.1.s, []⟩
    have : r.1.buf = [] := e2
    rw [← this]
  · intro hgeo
    obtain ⟨rfb, cv, app⟩ := s
    obtain ⟨c, ph⟩ := rfb
    dsimp only at hph hbypp hwf hz hgeo
    subst hph
    have hrun := C02_update_any c hbypp rects hn hwf zq hz [] [] _ [] (Runs.done (conn_blocked_nil _))
    rw [List.append_nil, List.append_nil] at hrun
    obtain ⟨_, _, k3, _, _⟩ := sys_feed_of_runs ⟨⟨c, .connection⟩, cv, app⟩ trivial _ _ _ _ hrun
    show (feed sysMachine ⟨⟨⟨c, .connection⟩, cv, app⟩, []⟩ (wireUpdateAny rects)).1.s.rfb.core.width < 65536 ∧
      (feed sysMachine ⟨⟨⟨c, .connection⟩, cv, app⟩, []⟩ (wireUpdateAny rects)).1.s.rfb.core.height < 65536
    rw [k3]
    exact coreAfterAnys_geo rects _ (fun rb hrb => (hwf rb hrb).1) hgeo

theorem sys_conn_blocked (s : SysSt) (hph : s.rfb.ph = .connection) : St.Blocked sysMachine ⟨s, []⟩ := by
  simp [St.Blocked, Machine.blocked, sysMachine, halted, need, hph]

/-- a session of updates = the first update, then the rest from the state it leaves -/
theorem feed_updates_cons (s : SysSt) (hph : s.rfb.ph = .connection) (hbypp : s.rfb.core.pf.bypp ≠ 0)
    (u : List (Rct × AnyBody)) (us : List (List (Rct × AnyBody))) (hn : u.length < 65536)
    (hwf : ∀ rb ∈ u, rb.1.WF ∧ rb.2.WF s.rfb.core.pf rb.1)
    (zq : List (Option Bytes)) (hz : s.rfb.core.zq = inflates u ++ zq) :
    feed sysMachine ⟨s, []⟩ (wireUpdates (u :: us)) =
      ((feed sysMachine ⟨(feed sysMachine ⟨s, []⟩ (wireUpdateAny u)).1.s, []⟩ (wireUpdates us)).1,
       (feed sysMachine ⟨s, []⟩ (wireUpdateAny u)).2.1 ++
         (feed sysMachine ⟨(feed sysMachine ⟨s, []⟩ (wireUpdateAny u)).1.s, []⟩ (wireUpdates us)).2.1, true) := by
  have hfr := (sys_update_frame s hph hbypp u hn hwf zq hz).1
  have := feed_feed sysMachine sys_progress ⟨s, []⟩ (wireUpdateAny u) (wireUpdates us)
  dsimp only at this hfr
  rw [← hfr]
  exact this

/-- the application's view of one update: nothing until the update is complete; then - if the update named any area -
    exactly one `onCommit`, with the screen and geometry as the update left them -/
theorem sys_update_app (s : SysSt) (hph : s.rfb.ph = .connection) (hbypp : s.rfb.core.pf.bypp ≠ 0)
    (rects : List (Rct × AnyBody)) (hn : rects.length < 65536)
    (hwf : ∀ rb ∈ rects, rb.1.WF ∧ rb.2.WF s.rfb.core.pf rb.1)
    (zq : List (Option Bytes)) (hz : s.rfb.core.zq = inflates rects ++ zq) :
    let r := feed sysMachine ⟨s, []⟩ (wireUpdateAny rects)
    (updatedAreasAny rects ≠ [] →
      r.1.s.app = (onCommit r.1.s.rfb.core r.1.s.cv.screen s.app).1 ∧
      evActs r.2.1 = (onCommit r.1.s.rfb.core r.1.s.cv.screen s.app).2) ∧
    (updatedAreasAny rects = [] → r.1.s.app = s.app ∧ evActs r.2.1 = []) := by
  obtain ⟨e1, _, e3, _, _, e6, _⟩ := E2E_update s hph hbypp rects hn hwf zq hz
  intro r
  refine ⟨fun hc => ?_, fun hc => ?_⟩
  · rw [paintUpdateAny_commit _ _ hc] at e6
    exact sys_drain_commit _ s ([] ++ wireUpdateAny rects) _ _ e1 e3 e6 (nr_paintBody _ _)
  · rw [paintUpdateAny_nocommit _ _ hc] at e6
    exact sys_drain_noReact _ s ([] ++ wireUpdateAny rects) (by
      have e6' : evOuts (drain sysMachine (feedFuel ⟨s, []⟩ (wireUpdateAny rects)) s ([] ++ wireUpdateAny rects)).out =
        paintBody s.rfb.core.pf rects := e6
      rw [e6']; exact nr_paintBody _ _)

/-- one feed per update = one feed of the whole stream -/
theorem feed_updates_split (s : SysSt) (hph : s.rfb.ph = .connection) (hbypp : s.rfb.core.pf.bypp ≠ 0)
    (us : List (List (Rct × AnyBody))) (hn : ∀ u ∈ us, u.length < 65536)
    (hwf : ∀ u ∈ us, ∀ rb ∈ u, rb.1.WF ∧ rb.2.WF s.rfb.core.pf rb.1)
    (zq : List (Option Bytes)) (hz : s.rfb.core.zq = (us.flatMap inflates) ++ zq) :
    (feed sysMachine ⟨s, []⟩ (wireUpdates us)).1.s = afterUpdates s us := by
  induction us generalizing s with
  | nil =>
    show (feed sysMachine ⟨s, []⟩ []).1.s = s
    rw [feed_nil sysMachine _ (sys_conn_blocked s hph)]
  | cons u us ih =>
    rw [List.flatMap_cons, List.append_assoc] at hz
    have hu := hwf u (List.mem_cons_self ..)
    have hnu := hn u (List.mem_cons_self ..)
    obtain ⟨_, f2, f3, f4, _⟩ := sys_update_frame s hph hbypp u hnu hu _ hz
    rw [feed_updates_cons s hph hbypp u us hnu hu _ hz]
    dsimp only at f2 f3 f4 ⊢
    simp only [afterUpdates]
    exact ih _ f2 (by rw [f3]; exact hbypp) (fun v hv => hn v (List.mem_cons_of_mem _ hv))
      (fun v hv => by rw [f3]; exact hwf v (List.mem_cons_of_mem _ hv)) f4

/-! ## helpers: one commit seen by a waiting application -/

theorem matchedB_of_flag (a : App) (core : Core) (screen : Option Img) (box : Int × Int × Int × Int) (rms : Word)
    (expected : List Nat) (b : Bool) (h : (expectCompare a core screen box rms expected).2.2 = b) :
    matchedB a screen box rms expected = b := by
  cases hm : matchedB a screen box rms expected
  · rw [expectCompare_false _ _ _ _ _ _ hm] at h; exact h
  · rw [expectCompare_true _ _ _ _ _ _ hm] at h; exact h

theorem app_rearm (a : App) (w : Waiter) (h : a.waiter = some w) :
    { { a with waiter := none } with waiter := some w } = a := by
  cases a
  dsimp only at h ⊢
  subst h
  rfl

/-- a commit that does not complete the wait: exactly one request, the application is as it was -/
theorem onCommit_poll (a : App) (core : Core) (screen : Option Img) (box : Int × Int × Int × Int)
    (rms : Word) (expected : List Nat) (hwt : a.waiter = some (.expect box rms expected))
    (hno : (expectCompare { a with waiter := none } core screen box rms expected).2.2 = false)
    (hw : core.width < 65536) (hh : core.height < 65536) :
    onCommit core screen a =
      (a, [.write ([3, if screen.isSome then 1 else 0, 0, 0, 0, 0] ++ enc16 core.width ++ enc16 core.height)]) := by
  have hm := matchedB_of_flag _ _ _ _ _ _ _ hno
  unfold onCommit
  rw [hwt]
  dsimp only
  rw [expectCompare_false _ _ _ _ _ _ hm, if_neg Bool.false_ne_true]
  dsimp only
  rw [requestAll_eq core _ hw hh, app_rearm a _ hwt]

/-- a commit that completes the wait -/
theorem onCommit_complete (a : App) (core : Core) (screen : Option Img) (box : Int × Int × Int × Int)
    (rms : Word) (expected : List Nat) (hwt : a.waiter = some (.expect box rms expected))
    (hyes : (expectCompare { a with waiter := none } core screen box rms expected).2.2 = true) :
    (a.chain = .waitCommit → onCommit core screen a =
      ((resume core screen { a with waiter := none }).1, (resume core screen { a with waiter := none }).2)) ∧
    (a.chain ≠ .waitCommit → onCommit core screen a = ({ a with waiter := none }, [])) := by
  have hm := matchedB_of_flag _ _ _ _ _ _ _ hyes
  unfold onCommit
  rw [hwt]
  dsimp only
  rw [expectCompare_true _ _ _ _ _ _ hm, if_pos rfl]
  dsimp only
  constructor
  · intro hc
    rw [hc]
    rfl
  · intro hc
    split
    · rename_i heq; exact absurd heq hc
    · rfl

/-- a commit seen by a pending whole-screen capture of a script that is not waiting for it -/
theorem onCommit_capture (a : App) (core : Core) (img : Img) (f : Word) (hwt : a.waiter = some (.capture f none))
    (hc : a.chain ≠ .waitCommit) :
    onCommit core (some img) a = ({ a with waiter := none }, [Act.save f img.w img.h img.pixels]) := by
  unfold onCommit
  rw [hwt]
  dsimp only
  split
  · rename_i heq; exact absurd heq hc
  · rfl

theorem afterUpdates_cons (s : SysSt) (u : List (Rct × AnyBody)) (us : List (List (Rct × AnyBody))) :
    afterUpdates s (u :: us) = afterUpdates (feed sysMachine ⟨s, []⟩ (wireUpdateAny u)).1.s us := rfl

/-- `C07_sys_polls`, with the state quantified inside (for the induction over the updates) -/
theorem sys_polls_aux (zq : List (Option Bytes)) (box : Int × Int × Int × Int) (rms : Word) (expected : List Nat)
    (us : List (List (Rct × AnyBody))) : ∀ (s : SysSt), s.rfb.ph = .connection → s.rfb.core.pf.bypp ≠ 0 →
    (∀ u ∈ us, u.length < 65536) → (∀ u ∈ us, ∀ rb ∈ u, rb.1.WF ∧ rb.2.WF s.rfb.core.pf rb.1) →
    s.rfb.core.zq = (us.flatMap inflates) ++ zq →
    s.rfb.core.width < 65536 ∧ s.rfb.core.height < 65536 →
    s.app.waiter = some (.expect box rms expected) →
    (∀ u ∈ us, updatedAreasAny u ≠ []) →
    (∀ k, k < us.length →
      (expectCompare { s.app with waiter := none } (afterUpdates s (us.take (k + 1))).rfb.core
        (afterUpdates s (us.take (k + 1))).cv.screen box rms expected).2.2 = false) →
    (evActs (feed sysMachine ⟨s, []⟩ (wireUpdates us)).2.1).length = us.length ∧
    (∀ a ∈ evActs (feed sysMachine ⟨s, []⟩ (wireUpdates us)).2.1, ∃ (inc w h : Nat), w < 65536 ∧ h < 65536 ∧
      a = Act.write ([3, UInt8.ofNat inc, 0, 0, 0, 0] ++ enc16 w ++ enc16 h)) ∧
    (feed sysMachine ⟨s, []⟩ (wireUpdates us)).1.s.app = s.app := by
  induction us with
  | nil =>
    intro s hph _ _ _ _ _ _ _ _
    have : feed sysMachine ⟨s, []⟩ (wireUpdates []) = (⟨s, []⟩, [], true) := feed_nil sysMachine _ (sys_conn_blocked s hph)
    rw [this]
    exact ⟨rfl, fun a ha => (by cases ha), rfl⟩
  | cons u us ih =>
    intro s hph hbypp hn hwf hz hgeo hwait hcommit hno
    rw [List.flatMap_cons, List.append_assoc] at hz
    have hu := hwf u (List.mem_cons_self ..)
    have hnu := hn u (List.mem_cons_self ..)
    obtain ⟨_, f2, f3, f4, f5⟩ := sys_update_frame s hph hbypp u hnu hu _ hz
    obtain ⟨a1, a2⟩ := (sys_update_app s hph hbypp u hnu hu _ hz).1 (hcommit u (List.mem_cons_self ..))
    have hno0 := hno 0 (by simp)
    rw [feed_updates_cons s hph hbypp u us hnu hu _ hz]
    dsimp only at f2 f3 f4 f5 a1 a2 ⊢
    generalize hr1 : feed sysMachine ⟨s, []⟩ (wireUpdateAny u) = r1 at f2 f3 f4 f5 a1 a2 ⊢
    have hs1 : afterUpdates s (List.take (0 + 1) (u :: us)) = r1.1.s := by
      simp only [Nat.zero_add, List.take_succ_cons, List.take_zero, afterUpdates_cons, hr1]
      rfl
    rw [hs1] at hno0
    obtain ⟨g1, g2⟩ := f5 hgeo
    have hoc := onCommit_poll s.app r1.1.s.rfb.core r1.1.s.cv.screen box rms expected hwait hno0 g1 g2
    rw [hoc] at a1 a2
    dsimp only at a1 a2
    obtain ⟨i1, i2, i3⟩ := ih r1.1.s f2 (by rw [f3]; exact hbypp) (fun v hv => hn v (List.mem_cons_of_mem _ hv))
      (fun v hv => by rw [f3]; exact hwf v (List.mem_cons_of_mem _ hv)) f4 ⟨g1, g2⟩ (by rw [a1]; exact hwait)
      (fun v hv => hcommit v (List.mem_cons_of_mem _ hv))
      (fun k hk => by
        have := hno (k + 1) (by simp only [List.length_cons]; omega)
        rw [List.take_succ_cons, afterUpdates_cons, hr1] at this
        rw [a1]
        exact this)
    refine ⟨?_, ?_, ?_⟩
    · rw [evActs_append, List.length_append, a2, i1]
      simp only [List.length_cons, List.length_nil]
      omega
    · intro a ha
      rw [evActs_append, a2] at ha
      rcases List.mem_append.1 ha with ha | ha
      · rw [List.mem_singleton] at ha
        subst ha
        refine ⟨if r1.1.s.cv.screen.isSome then 1 else 0, _, _, g1, g2, ?_⟩
        cases r1.1.s.cv.screen.isSome <;> rfl
      · exact i2 a ha
    · rw [i3, a1]

/-- **polling**: a wait whose image matches after none of the updates writes exactly one request per update - each a
    FramebufferUpdateRequest for the whole desktop as it is then - stays armed with the same box, tolerance and histogram,
    and leaves the script where it was.  Any number of updates, any encodings, any chunking (`Sys_seg_indep`). -/
theorem C07_sys_polls (s : SysSt) (hph : s.rfb.ph = .connection) (hbypp : s.rfb.core.pf.bypp ≠ 0)
    (us : List (List (Rct × AnyBody))) (hn : ∀ u ∈ us, u.length < 65536)
    (hwf : ∀ u ∈ us, ∀ rb ∈ u, rb.1.WF ∧ rb.2.WF s.rfb.core.pf rb.1)
    (zq : List (Option Bytes)) (hz : s.rfb.core.zq = (us.flatMap inflates) ++ zq)
    (hgeo : s.rfb.core.width < 65536 ∧ s.rfb.core.height < 65536)
    (box : Int × Int × Int × Int) (rms : Word) (expected : List Nat)
    (hwait : s.app.waiter = some (.expect box rms expected))
    (hcommit : ∀ u ∈ us, updatedAreasAny u ≠ [])
    (hno : ∀ k, k < us.length →
      let st := afterUpdates s (us.take (k + 1))
      (expectCompare { s.app with waiter := none } st.rfb.core st.cv.screen box rms expected).2.2 = false) :
    let r := feed sysMachine ⟨s, []⟩ (wireUpdates us)
    (evActs r.2.1).length = us.length ∧
    (∀ a ∈ evActs r.2.1, ∃ (inc w h : Nat), w < 65536 ∧ h < 65536 ∧ a = Act.write ([3, UInt8.ofNat inc, 0, 0, 0, 0] ++ enc16 w ++ enc16 h)) ∧
    r.1.s.app = s.app := by
  exact sys_polls_aux zq box rms expected us s hph hbypp hn hwf hz hgeo hwait hcommit hno

/-- **completion**: the update after which the screen matches ends the wait: no further request, the waiter is gone, and
    a script that was waiting for it goes on (`resume`) -/
theorem C07_sys_completes (s : SysSt) (hph : s.rfb.ph = .connection) (hbypp : s.rfb.core.pf.bypp ≠ 0)
    (rects : List (Rct × AnyBody)) (hn : rects.length < 65536)
    (hwf : ∀ rb ∈ rects, rb.1.WF ∧ rb.2.WF s.rfb.core.pf rb.1)
    (zq : List (Option Bytes)) (hz : s.rfb.core.zq = inflates rects ++ zq)
    (box : Int × Int × Int × Int) (rms : Word) (expected : List Nat)
    (hwait : s.app.waiter = some (.expect box rms expected))
    (hcommit : updatedAreasAny rects ≠ []) :
    let r := feed sysMachine ⟨s, []⟩ (wireUpdateAny rects)
    (expectCompare { s.app with waiter := none } r.1.s.rfb.core r.1.s.cv.screen box rms expected).2.2 = true →
      (s.app.chain = .waitCommit →
        r.1.s.app = (resume r.1.s.rfb.core r.1.s.cv.screen { s.app with waiter := none }).1 ∧
        evActs r.2.1 = (resume r.1.s.rfb.core r.1.s.cv.screen { s.app with waiter := none }).2) ∧
      (s.app.chain ≠ .waitCommit → r.1.s.app = { s.app with waiter := none } ∧ evActs r.2.1 = []) := by
  obtain ⟨a1, a2⟩ := (sys_update_app s hph hbypp rects hn hwf zq hz).1 hcommit
  intro r hyes
  obtain ⟨k1, k2⟩ := onCommit_complete s.app r.1.s.rfb.core r.1.s.cv.screen box rms expected hwait hyes
  refine ⟨fun hc => ?_, fun hc => ?_⟩
  · have := k1 hc
    exact ⟨a1.trans (by rw [this]), a2.trans (by rw [this])⟩
  · have := k2 hc
    exact ⟨a1.trans (by rw [this]), a2.trans (by rw [this])⟩

/-- C06 on a whole update: a pending whole-screen capture is saved exactly when the update is complete, and what is saved
    is the screen that update produced -/
theorem C06_sys_capture_update (s : SysSt) (hph : s.rfb.ph = .connection) (hbypp : s.rfb.core.pf.bypp ≠ 0)
    (rects : List (Rct × AnyBody)) (hn : rects.length < 65536)
    (hwf : ∀ rb ∈ rects, rb.1.WF ∧ rb.2.WF s.rfb.core.pf rb.1)
    (zq : List (Option Bytes)) (hz : s.rfb.core.zq = inflates rects ++ zq)
    (f : Word) (hwait : s.app.waiter = some (.capture f none)) (hchain : s.app.chain ≠ .waitCommit)
    (hcommit : updatedAreasAny rects ≠ []) (img : Img) :
    let r := feed sysMachine ⟨s, []⟩ (wireUpdateAny rects)
    r.1.s.cv.screen = some img →
      evActs r.2.1 = [Act.save f img.w img.h img.pixels] ∧ r.1.s.app = { s.app with waiter := none } := by
  obtain ⟨a1, a2⟩ := (sys_update_app s hph hbypp rects hn hwf zq hz).1 hcommit
  intro r hscr
  have a1' : r.1.s.app = (onCommit r.1.s.rfb.core r.1.s.cv.screen s.app).1 := a1
  have a2' : evActs r.2.1 = (onCommit r.1.s.rfb.core r.1.s.cv.screen s.app).2 := a2
  rw [hscr, onCommit_capture s.app _ img f hwait hchain] at a1' a2'
  exact ⟨a2', a1'⟩

/-! non-vacuity: the whole-client state of `e2eExSys` with a pending `expect` whose tolerance test never holds
    (`env.within` constantly false), and the one-update session `[e2eExRects]` (Raw, CopyRect, DesktopSize), meet every
    hypothesis of `C07_sys_polls`; so its conclusion holds for them: exactly one request, the application as it was -/
def c07ExSys : SysSt :=
  { e2eExSys with app := { e2eExSys.app with waiter := some (.expect (0, 0, 1, 1) [] []) } }

theorem c07Ex_never (core : Core) (screen : Option Img) :
    (expectCompare { c07ExSys.app with waiter := none } core screen (0, 0, 1, 1) [] []).2.2 = false := by
  have hm : matchedB { c07ExSys.app with waiter := none } screen (0, 0, 1, 1) [] [] = false := by
    cases screen with
    | none => rfl
    | some s => simp [matchedB, c07ExSys, e2eExSys]
  rw [expectCompare_false _ _ _ _ _ _ hm]

example :
    c07ExSys.rfb.ph = .connection ∧ c07ExSys.rfb.core.pf.bypp ≠ 0 ∧ (∀ u ∈ [e2eExRects], u.length < 65536) ∧
    (∀ u ∈ [e2eExRects], ∀ rb ∈ u, rb.1.WF ∧ rb.2.WF c07ExSys.rfb.core.pf rb.1) ∧
    c07ExSys.rfb.core.zq = ([e2eExRects].flatMap inflates) ++ [] ∧
    (c07ExSys.rfb.core.width < 65536 ∧ c07ExSys.rfb.core.height < 65536) ∧
    c07ExSys.app.waiter = some (.expect (0, 0, 1, 1) [] []) ∧
    (∀ u ∈ [e2eExRects], updatedAreasAny u ≠ []) ∧
    (evActs (feed sysMachine ⟨c07ExSys, []⟩ (wireUpdates [e2eExRects])).2.1).length = 1 ∧
    (feed sysMachine ⟨c07ExSys, []⟩ (wireUpdates [e2eExRects])).1.s.app = c07ExSys.app := by
  have hwf1 : ∀ rb ∈ e2eExRects, rb.1.WF ∧ rb.2.WF c07ExSys.rfb.core.pf rb.1 := by
    intro rb h
    simp only [e2eExRects, List.mem_cons, List.mem_nil_iff, or_false] at h
    rcases h with rfl | rfl | rfl <;> simp [Rct.WF, AnyBody.WF, Body.WF, c07ExSys, e2eExSys, Tables.RGB32, PF.bypp]
  have hb : c07ExSys.rfb.core.pf.bypp ≠ 0 := by simp [c07ExSys, e2eExSys, Tables.RGB32, PF.bypp]
  have hn : ∀ u ∈ [e2eExRects], u.length < 65536 := by
    intro u hu; rw [List.mem_singleton] at hu; subst hu; simp [e2eExRects]
  have hwf : ∀ u ∈ [e2eExRects], ∀ rb ∈ u, rb.1.WF ∧ rb.2.WF c07ExSys.rfb.core.pf rb.1 := by
    intro u hu; rw [List.mem_singleton] at hu; subst hu; exact hwf1
  have hz : c07ExSys.rfb.core.zq = ([e2eExRects].flatMap inflates) ++ [] := by
    simp [c07ExSys, e2eExSys, e2eExRects, inflates]
  have hgeo : c07ExSys.rfb.core.width < 65536 ∧ c07ExSys.rfb.core.height < 65536 := by
    simp [c07ExSys, e2eExSys]
  have hcommit : ∀ u ∈ [e2eExRects], updatedAreasAny u ≠ [] := by
    intro u hu; rw [List.mem_singleton] at hu; subst hu
    simp [updatedAreasAny, e2eExRects, AnyBody.positional, Body.positional]
  have h := C07_sys_polls c07ExSys rfl hb [e2eExRects] hn hwf [] hz hgeo (0, 0, 1, 1) [] [] rfl hcommit
    (fun k _ => c07Ex_never _ _)
  exact ⟨rfl, hb, hn, hwf, hz, hgeo, rfl, hcommit, h.1, h.2.2⟩

end Vnc
