import VncModel.System
import VncProofs.Expect
import VncProofs.C01
import VncProofs.C06
/-!
# The whole client (protocol machine + screen + application) as one machine: chunking independence of EVERYTHING,
# and the capture guarantees (C06) stated on complete runs

`sysMachine` has the protocol machine's `need` and `halted`, so its progress property is `rfb_progress`; the generic
theorem `feedAll_flatten` then says that the complete event history - callbacks, bytes written by the protocol layer and
by the script, images saved, in order - and the complete final state (screen, application) do not depend on how the
server's stream is cut into chunks, also when timers fire in between.
-/
namespace Vnc

/-! ## the whole client is a machine with progress -/

theorem sys_progress : Progress sysMachine := by
  intro s hh hz
  exact rfb_progress s.rfb hh hz

/-- **chunking independence of the whole client** from any state reached between two `dataReceived` calls -/
theorem Sys_seg_indep (st : St SysSt) (hb : st.Blocked sysMachine) (cs : List Bytes) :
    feedAll sysMachine st cs = feed sysMachine st cs.flatten := 
  feedAll_flatten sysMachine sys_progress cs st hb


theorem Sys_chunkings (st : St SysSt) (hb : st.Blocked sysMachine) (cs ds : List Bytes) (h : cs.flatten = ds.flatten) :
    feedAll sysMachine st cs = feedAll sysMachine st ds :=
  chunkings_agree sysMachine sys_progress st hb cs ds h

/-! ## the protocol layer inside the whole client is the protocol machine (so C01-C03, C13, C15 transfer) -/

theorem evOuts_append (a b : List Ev) : evOuts (a ++ b) = evOuts a ++ evOuts b := by
  simp [evOuts, List.filterMap_append]

theorem evOuts_acts (l : List Act) : evOuts (l.map Ev.act) = [] := by
  induction l with
  | nil => rfl
  | cons a l ih => simp [evOuts]

/-- the reaction fold only appends events, and its callbacks are exactly the callbacks reacted to -/
theorem reactFold_outs (core : Core) (outs : List Out) : ∀ (acc : Canvas × App × List Ev),
    evOuts (outs.foldl (reactOne core) acc).2.2 = evOuts acc.2.2 ++ outs := by
  induction outs with
  | nil => intro acc; simp
  | cons o outs ih =>
    intro acc
    rw [List.foldl_cons, ih]
    simp only [reactOne, evOuts_append, evOuts_acts, List.append_nil, List.append_assoc]
    rfl

theorem sysStep_rfb (s : SysSt) (b : Bytes) :
    (sysStep s b).1.rfb = (step s.rfb b).1 ∧ evOuts (sysStep s b).2 = (step s.rfb b).2 := by
  refine ⟨rfl, ?_⟩
  simp only [sysStep]
  rw [reactFold_outs]
  rfl

/-- running the whole client and forgetting screen and application is running the protocol machine -/
theorem sys_drain_rfb : ∀ (fuel : Nat) (s : SysSt) (buf : Bytes),
    (drain sysMachine fuel s buf).s.rfb = (drain rfbMachine fuel s.rfb buf).s ∧
    (drain sysMachine fuel s buf).buf = (drain rfbMachine fuel s.rfb buf).buf ∧
    evOuts (drain sysMachine fuel s buf).out = (drain rfbMachine fuel s.rfb buf).out ∧
    (drain sysMachine fuel s buf).ok = (drain rfbMachine fuel s.rfb buf).ok := by
  intro fuel
  induction fuel with
  | zero => intro s buf; exact ⟨rfl, rfl, rfl, rfl⟩
  | succ f ih =>
    intro s buf
    have hbl : sysMachine.blocked s buf = rfbMachine.blocked s.rfb buf := rfl
    by_cases hb : rfbMachine.blocked s.rfb buf = true
    · rw [drain_blocked_eq _ _ _ _ hb, drain_blocked_eq _ _ _ _ (hbl.trans hb)]
      exact ⟨rfl, rfl, rfl, rfl⟩
    · have hb' : rfbMachine.blocked s.rfb buf = false := by simpa using hb
      have hb2 : sysMachine.blocked s buf = false := hbl.trans hb'
      simp only [drain, hb', hb2, Bool.false_eq_true, ↓reduceIte]
      have hn : sysMachine.need s = rfbMachine.need s.rfb := rfl
      have hs : sysMachine.step s (buf.take (sysMachine.need s)) = sysStep s (buf.take (need s.rfb)) := rfl
      have hr : rfbMachine.step s.rfb (buf.take (rfbMachine.need s.rfb)) = step s.rfb (buf.take (need s.rfb)) := rfl
      rw [hs, hr, hn]
      obtain ⟨h1, h2⟩ := sysStep_rfb s (buf.take (need s.rfb))
      obtain ⟨i1, i2, i3, i4⟩ := ih (sysStep s (buf.take (need s.rfb))).1 (buf.drop (rfbMachine.need s.rfb))
      rw [h1] at i1 i2 i3 i4
      refine ⟨i1, i2, ?_, i4⟩
      rw [evOuts_append, h2, i3]

theorem sys_feed_rfb (st : St SysSt) (c : Bytes) :
    (feed sysMachine st c).1.s.rfb = (feed rfbMachine ⟨st.s.rfb, st.buf⟩ c).1.s ∧
    (feed sysMachine st c).1.buf = (feed rfbMachine ⟨st.s.rfb, st.buf⟩ c).1.buf ∧
    evOuts (feed sysMachine st c).2.1 = (feed rfbMachine ⟨st.s.rfb, st.buf⟩ c).2.1 ∧
    (feed sysMachine st c).2.2 = (feed rfbMachine ⟨st.s.rfb, st.buf⟩ c).2.2 := by
  exact sys_drain_rfb (feedFuel st c) st.s (st.buf ++ c)

/-! ## sessions with timers: consecutive chunks may be merged or split anywhere -/

theorem sysFire_blocked (st : St SysSt) (hb : st.Blocked sysMachine) : (sysFire st).1.Blocked sysMachine := by
  unfold sysFire
  split
  · exact hb
  · exact hb

theorem sysIn_blocked (st : St SysSt) (hb : st.Blocked sysMachine) (i : SysIn) : (sysIn st i).1.Blocked sysMachine := by
  cases i with
  | recv c => exact feed_blocked sysMachine sys_progress st c
  | fire => exact sysFire_blocked st hb

theorem sysRun_blocked (st : St SysSt) (hb : st.Blocked sysMachine) (is : List SysIn) :
    (sysRun st is).1.Blocked sysMachine := by
  induction is generalizing st with
  | nil => exact hb
  | cons i is ih => exact ih _ (sysIn_blocked st hb i)

theorem sysRun_append (st : St SysSt) (is js : List SysIn) :
    sysRun st (is ++ js) = ((sysRun (sysRun st is).1 js).1, (sysRun st is).2 ++ (sysRun (sysRun st is).1 js).2) := by
  induction is generalizing st with
  | nil => simp [sysRun]
  | cons i is ih =>
    simp only [List.cons_append, sysRun, ih, List.append_assoc]

theorem sysRun_recvs (cs : List Bytes) : ∀ (st : St SysSt),
    sysRun st (cs.map SysIn.recv) = ((feedAll sysMachine st cs).1, (feedAll sysMachine st cs).2.1) := by
  induction cs with
  | nil => intro st; rfl
  | cons c cs ih =>
    intro st
    simp only [List.map_cons, sysRun, sysIn, feedAll, ih]

/-- **C06 / C01 for complete sessions**: in any session - data, timers, data ... - a run of consecutive chunks can be
    replaced by its concatenation (or any other chunking of it) without changing the final state or the event history -/
theorem Sys_rechunk (st : St SysSt) (hb : st.Blocked sysMachine) (pre post : List SysIn) (cs : List Bytes) :
    sysRun st (pre ++ cs.map SysIn.recv ++ post) = sysRun st (pre ++ [SysIn.recv cs.flatten] ++ post) := by
  have hb1 := sysRun_blocked st hb pre
  have key : sysRun (sysRun st pre).1 (cs.map SysIn.recv) = sysRun (sysRun st pre).1 [SysIn.recv cs.flatten] := by
    rw [sysRun_recvs, Sys_seg_indep _ hb1]
    simp [sysRun, sysIn]
  rw [List.append_assoc, List.append_assoc, sysRun_append st pre, sysRun_append st pre,
    sysRun_append _ (cs.map SysIn.recv), sysRun_append _ [SysIn.recv cs.flatten], key]

/-! ## captures on complete runs -/

theorem savesFollowCommit_mono (evs : List Ev) : savesFollowCommit false evs = true → savesFollowCommit true evs = true := by
  induction evs with
  | nil => intro _; rfl
  | cons e evs ih =>
    intro h
    cases e with
    | out o => cases o <;> simpa [savesFollowCommit] using h
    | act a => cases a <;> simp_all [savesFollowCommit]

/-- state of the scan after a list of events -/
def scanEnd : Bool → List Ev → Bool
  | b, [] => b
  | _, .out (.commit _) :: rest => scanEnd true rest
  | _, .out _ :: rest => scanEnd false rest
  | b, .act _ :: rest => scanEnd b rest

theorem savesFollowCommit_append (b : Bool) (xs ys : List Ev) :
    savesFollowCommit b (xs ++ ys) = (savesFollowCommit b xs && savesFollowCommit (scanEnd b xs) ys) := by
  induction xs generalizing b with
  | nil => simp [savesFollowCommit, scanEnd]
  | cons e xs ih =>
    cases e with
    | out o => cases o <;> simp [savesFollowCommit, scanEnd, ih]
    | act a => cases a <;> simp [savesFollowCommit, scanEnd, ih, Bool.and_assoc]

theorem acts_nosave_scan (b : Bool) (l : List Act) (h : l.filter Act.isSave = []) :
    savesFollowCommit b (l.map Ev.act) = true ∧ scanEnd b (l.map Ev.act) = b := by
  induction l with
  | nil => exact ⟨rfl, rfl⟩
  | cons a l ih =>
    cases a <;> simp_all [savesFollowCommit, scanEnd, Act.isSave]

theorem acts_scan_true (l : List Act) : savesFollowCommit true (l.map Ev.act) = true := by
  induction l with
  | nil => rfl
  | cons a l ih => cases a <;> simp_all [savesFollowCommit]

/-- the application never saves an image except in reaction to `commitUpdate` -/
theorem appReact_nosave (core : Core) (screen : Option Img) (a : App) (o : Out) (h : ∀ rs, o ≠ .commit rs) :
    (appReact core screen a o).2.filter Act.isSave = [] := by
  cases o with
  | commit rs => exact absurd rfl (h rs)
  | made =>
    show (onConnected core screen a).2.filter Act.isSave = []
    unfold onConnected
    split
    · exact advance_nosave _ _ _ _
    · rfl
  | _ => rfl

theorem onTimer_nosave (core : Core) (screen : Option Img) (a : App) (id : Nat) :
    (onTimer core screen a id).2.filter Act.isSave = [] := by
  unfold onTimer
  dsimp only
  split
  · split
    · exact resume_nosave _ _ _
    · rfl
  · split
    · rfl
    · split
      · split
        · rfl
        · rename_i a' w hw
          exact (nosave_iff _).1 (ptrActs_write _ _ _ _ hw)
      · split
        · rfl
        · rename_i a' w hw
          dsimp only
          rw [List.filter_append, resume_nosave, (nosave_iff _).1 (ptrActs_write _ _ _ _ hw)]
          rfl
  · rfl

theorem reactOne_evs (core : Core) (acc : Canvas × App × List Ev) (o : Out) (b : Bool) :
    savesFollowCommit b ([Ev.out o] ++ (appReact core (applyOut core.imageMode acc.1 o).screen acc.2.1 o).2.map Ev.act) = true := by
  by_cases hc : ∃ rs, o = .commit rs
  · obtain ⟨rs, rfl⟩ := hc
    simp only [List.singleton_append, savesFollowCommit]
    exact acts_scan_true _
  · have hn : ∀ rs, o ≠ .commit rs := fun rs h => hc ⟨rs, h⟩
    have := (acts_nosave_scan false _ (appReact_nosave core (applyOut core.imageMode acc.1 o).screen acc.2.1 o hn)).1
    cases o <;> first | exact absurd rfl (hn _) | simpa [savesFollowCommit] using this

theorem reactFold_saves (core : Core) (outs : List Out) : ∀ (acc : Canvas × App × List Ev),
    (∀ b, savesFollowCommit b acc.2.2 = true) → ∀ b, savesFollowCommit b (outs.foldl (reactOne core) acc).2.2 = true := by
  induction outs with
  | nil => intro acc h; exact h
  | cons o outs ih =>
    intro acc h
    rw [List.foldl_cons]
    apply ih
    intro b
    simp only [reactOne, List.append_assoc]
    rw [savesFollowCommit_append, h b, reactOne_evs]
    rfl

/-- one handler invocation: whatever the scan state was before, saves inside it follow a commit inside it -/
theorem sysStep_saves (s : SysSt) (b : Bytes) (inR : Bool) : savesFollowCommit inR (sysStep s b).2 = true := by
  simp only [sysStep]
  exact reactFold_saves _ _ _ (fun _ => rfl) inR

theorem sys_drain_saves : ∀ (fuel : Nat) (s : SysSt) (buf : Bytes) (inR : Bool),
    savesFollowCommit inR (drain sysMachine fuel s buf).out = true := by
  intro fuel
  induction fuel with
  | zero => intro s buf inR; rfl
  | succ f ih =>
    intro s buf inR
    simp only [drain]
    split
    · rfl
    · dsimp only
      rw [savesFollowCommit_append, ih]
      have : savesFollowCommit inR (sysMachine.step s (buf.take (sysMachine.need s))).2 = true := sysStep_saves _ _ _
      rw [this]; rfl

theorem sysIn_saves (st : St SysSt) (i : SysIn) (inR : Bool) : savesFollowCommit inR (sysIn st i).2 = true := by
  cases i with
  | recv c => exact sys_drain_saves _ _ _ _
  | fire =>
    show savesFollowCommit inR (sysFire st).2 = true
    unfold sysFire
    split
    · rfl
    · exact (acts_nosave_scan _ _ (onTimer_nosave _ _ _ _)).1

/-- **C06 (never a half-applied update, never without an update) on complete sessions**: in the event history of any
    session from any state - any chunking, timers firing anywhere - every saved image directly follows a `commitUpdate`,
    i.e. it is written in reaction to a completely applied framebuffer update and to nothing else -/
theorem C06_sys_saves_follow_commit (st : St SysSt) (is : List SysIn) (inR : Bool) :
    savesFollowCommit inR (sysRun st is).2 = true := by
  induction is generalizing st inR with
  | nil => rfl
  | cons i is ih =>
    simp only [sysRun]
    rw [savesFollowCommit_append, sysIn_saves, ih]
    rfl


theorem mem_nosave {l : List Act} (h : l.filter Act.isSave = []) {f w hh px} : Act.save f w hh px ∉ l := by
  intro hm
  have := (nosave_iff l).2 h _ hm
  cases this

/-- **C06 (the image is the screen at that moment)**: the reaction to a commit saves at most one image, and it is the
    screen as painted by every callback before that commit (the accumulator's canvas; `commitUpdate` itself paints
    nothing), or the requested region of it -/
theorem C06_sys_save_is_screen (core : Core) (acc : Canvas × App × List Ev) (rs : List Rect) (s : Img)
    (hs : acc.1.screen = some s) :
    applyOut core.imageMode acc.1 (.commit rs) = acc.1 ∧
    (∀ f w h px, Act.save f w h px ∈ (appReact core acc.1.screen acc.2.1 (.commit rs)).2 →
      ∃ box, acc.2.1.waiter = some (.capture f box) ∧
        (match box with
          | none => w = s.w ∧ h = s.h ∧ px = s.pixels
          | some (x0, y0, x1, y1) =>
            w = (s.crop x0 y0 x1 y1).w ∧ h = (s.crop x0 y0 x1 y1).h ∧ px = (s.crop x0 y0 x1 y1).pixels)) ∧
    ((appReact core acc.1.screen acc.2.1 (.commit rs)).2.filter Act.isSave).length ≤ 1 := by
  refine ⟨rfl, ?_⟩
  rw [hs]
  show (∀ f w h px, Act.save f w h px ∈ (onCommit core (some s) acc.2.1).2 → _) ∧
    ((onCommit core (some s) acc.2.1).2.filter Act.isSave).length ≤ 1
  generalize acc.2.1 = a
  cases hw : a.waiter with
  | none =>
    rw [C06_commit_without_waiter a core _ hw]
    exact ⟨fun f w h px hm => (by cases hm), Nat.zero_le _⟩
  | some wt =>
    cases wt with
    | plain =>
      have : onCommit core (some s) a = ({ a with waiter := none }, []) := by
        unfold onCommit; rw [hw]
      rw [this]
      exact ⟨fun f w h px hm => (by cases hm), Nat.zero_le _⟩
    | capture f0 box =>
      obtain ⟨h1, h2⟩ := C06_saved_is_screen a core s f0 box hw
      refine ⟨?_, by omega⟩
      intro f w h px hm
      -- the list is save :: rest with rest save-free
      have hsplit : ∃ rest, (onCommit core (some s) a).2 =
          Act.save f0 (match box with | none => s | some (x0, y0, x1, y1) => s.crop x0 y0 x1 y1).w
            (match box with | none => s | some (x0, y0, x1, y1) => s.crop x0 y0 x1 y1).h
            (match box with | none => s | some (x0, y0, x1, y1) => s.crop x0 y0 x1 y1).pixels :: rest := by
        cases hl : (onCommit core (some s) a).2 with
        | nil => rw [hl] at h1; cases h1
        | cons x rest => rw [hl] at h1; simp at h1; exact ⟨rest, by subst h1; rfl⟩
      obtain ⟨rest, hrest⟩ := hsplit
      rw [hrest] at hm h2
      have hr : rest.filter Act.isSave = [] := by
        simp only [List.filter_cons, Act.isSave, ↓reduceIte, List.length_cons] at h2
        exact List.eq_nil_of_length_eq_zero (by omega)
      rcases List.mem_cons.1 hm with he | hm'
      · injection he with e1 e2 e3 e4
        subst e1 e2 e3 e4
        refine ⟨box, rfl, ?_⟩
        cases box with
        | none => exact ⟨rfl, rfl, rfl⟩
        | some b => obtain ⟨x0, y0, x1, y1⟩ := b; exact ⟨rfl, rfl, rfl⟩
      · exact absurd hm' (mem_nosave hr)
    | expect box rms expected =>
      have hns : (onCommit core (some s) a).2.filter Act.isSave = [] := by
        unfold onCommit
        rw [hw]
        dsimp only
        have he := (nosave_iff _).1 (expectCompare_nosave { a with waiter := none } core (some s) box rms expected)
        split
        · split
          · dsimp only
            rw [List.filter_append, he, resume_nosave]; rfl
          · exact he
        · exact he
      rw [hns]
      exact ⟨fun f w h px hm => absurd hm (mem_nosave hns), Nat.zero_le _⟩


/-- two canvases with the same screen, no cursor stored and the no-cursor option (pointer position may differ) -/
def CvSim (a b : Canvas) : Prop :=
  a.screen = b.screen ∧ a.cursor = none ∧ a.nocursor = true ∧ b.cursor = none ∧ b.nocursor = true

theorem drawCursor_none (cv : Canvas) (h : cv.cursor = none) : drawCursor cv = cv := by
  unfold drawCursor
  rw [h]

theorem updateRect_sim (a b : Canvas) (m : String) (x y w h : Nat) (d : Bytes) (hs : CvSim a b) :
    CvSim (updateRect a m x y w h d) (updateRect b m x y w h d) := by
  obtain ⟨h1, h2, h3, h4, h5⟩ := hs
  unfold updateRect
  split
  · exact ⟨h1, h2, h3, h4, h5⟩
  · dsimp only
    rw [drawCursor_none _ (by exact h2), drawCursor_none _ (by exact h4), h1]
    exact ⟨rfl, h2, h3, h4, h5⟩

theorem applyOut_sim (m : String) (a b : Canvas) (o : Out) (hs : CvSim a b) :
    CvSim (applyOut m a o) (applyOut m b o) := by
  cases o with
  | update x y w h d => exact updateRect_sim _ _ _ _ _ _ _ _ hs
  | fill x y w h c =>
    cases c with
    | none => exact hs
    | some col => exact updateRect_sim _ _ _ _ _ _ _ _ hs
  | cursor x y w h im mk =>
    obtain ⟨h1, h2, h3, h4, h5⟩ := hs
    simp only [applyOut, updateCursor, h3, h5, ↓reduceIte]
    exact ⟨h1, h2, h3, h4, h5⟩
  | desktop w h =>
    obtain ⟨h1, h2, h3, h4, h5⟩ := hs
    simp only [applyOut, resizeDesktop, h1]
    exact ⟨rfl, h2, h3, h4, h5⟩
  | _ => exact hs

theorem reactFold_sim (core : Core) (outs : List Out) : ∀ (acc : Canvas × App × List Ev) (cv : Canvas),
    CvSim acc.1 cv → CvSim (outs.foldl (reactOne core) acc).1 (applyOuts core.imageMode cv outs) := by
  induction outs with
  | nil => intro acc cv h; exact h
  | cons o outs ih =>
    intro acc cv h
    rw [List.foldl_cons]
    unfold applyOuts
    rw [List.foldl_cons]
    apply ih
    exact applyOut_sim core.imageMode acc.1 cv o h

/-- the screen component of the whole client is the screen painter folded over the callbacks (C12's object): with the
    no-cursor option and no cursor stored, pointer movement by the script cannot influence it -/
theorem sys_screen_is_painter (core : Core) (outs : List Out) : ∀ (acc : Canvas × App × List Ev),
    acc.1.nocursor = true → acc.1.cursor = none →
    (outs.foldl (reactOne core) acc).1.screen = (applyOuts core.imageMode acc.1 outs).screen ∧
    (outs.foldl (reactOne core) acc).1.cursor = none ∧ (outs.foldl (reactOne core) acc).1.nocursor = true := by
  intro acc h1 h2
  obtain ⟨a, b, c, _, _⟩ := reactFold_sim core outs acc acc.1 ⟨rfl, h2, h1, h2, h1⟩
  exact ⟨a, b, c⟩


/-! non-vacuity: a state with a pending capture and a commit -/
example : ∃ (a : App), a.waiter = some (.capture [] none) :=
  ⟨{ env := ⟨fun _ => none, fun _ => 0, 0, fun _ _ _ => false, fun _ => false, false, false⟩, waiter := some (.capture [] none) }, rfl⟩

end Vnc
