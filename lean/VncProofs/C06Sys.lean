import VncProofs.C19Sys
import VncProofs.C07Sys
import VncSpec.Requests
/-!
# C06 on every run: every update request asks for the whole desktop as most recently announced

`C06_request_geometry` is about one capture on one state.  Here the complete event history of ANY run of the whole client
(`sysRun`: callbacks of the protocol layer and actions of the application, in the order they happen) is checked: every
FramebufferUpdateRequest the application writes - for a capture, a region capture, a wait that polls - is a request for
(0, 0, W, H) where W x H is the size the server announced last before it (the DesktopSize pseudo-rectangle), or the size of
ServerInit if it never announced another.  A size announced in the same update that completes a capture is already in force
for the request that capture's successor sends (the defect D-06 of the pinned tree, and seeded C06y).
-/
namespace Vnc


/-! ## byte level: which writes are update requests -/

theorem reqOfWrite_head (b : Bytes) (h : b.head? ≠ some 3) : reqOfWrite b = none := by
  unfold reqOfWrite
  split
  · simp at h
  · rfl

theorem req_wUpdateRequest (inc : Bool) (W H : Nat) (b : Bytes) (hb : wUpdateRequest inc 0 0 W H = some b) :
    reqOfWrite b = some (0, 0, W, H) := by
  rw [wUpdateRequest_unf] at hb
  cases hx : packH 0 with
  | none => rw [hx] at hb; cases hb
  | some x' =>
  cases hw : packH (W : Int) with
  | none => rw [hx, hw] at hb; cases hb
  | some w' =>
  cases hh : packH (H : Int) with
  | none => rw [hx, hw, hh] at hb; cases hb
  | some h' =>
    rw [hx, hw, hh] at hb
    simp only [Option.bind_some] at hb
    obtain rfl := Option.some.inj hb
    obtain ⟨_, _, rfl⟩ := packH_some _ _ hx
    obtain ⟨_, w1, rfl⟩ := packH_some _ _ hw
    obtain ⟨_, h1, rfl⟩ := packH_some _ _ hh
    have e1 : (W : Int).toNat = W := Int.toNat_natCast W
    have e2 : (H : Int).toNat = H := Int.toNat_natCast H
    rw [e1, e2]
    have w2 : W < 65536 := by omega
    have h2 : H < 65536 := by omega
    simp only [enc16, List.cons_append, List.nil_append, reqOfWrite, byteOf_toNat, Int.toNat_zero]
    simp only [Option.some.injEq, Prod.mk.injEq]
    refine ⟨trivial, trivial, by omega, by omega⟩

/-! ## the application layer: every request it writes, from ANY state, is for the whole desktop of the `core` it is given -/

def ReqAct (W H : Nat) : Act → Prop
  | .write b => ∀ q, reqOfWrite b = some q → q = (0, 0, W, H)
  | _ => True

def ReqActs (W H : Nat) (l : List Act) : Prop := ∀ x ∈ l, ReqAct W H x

theorem ReqActs_nil {W H : Nat} : ReqActs W H [] := by intro x hx; cases hx

theorem ReqActs_append {W H : Nat} {a b : List Act} (ha : ReqActs W H a) (hb : ReqActs W H b) : ReqActs W H (a ++ b) := by
  intro x hx
  rcases List.mem_append.1 hx with h | h
  · exact ha x h
  · exact hb x h

theorem ReqActs_one {W H : Nat} {x : Act} (h : ReqAct W H x) : ReqActs W H [x] := by
  intro y hy
  rw [List.mem_singleton] at hy
  subst hy
  exact h

theorem ReqAct_head {W H : Nat} {b : Bytes} (h : b.head? ≠ some 3) : ReqAct W H (.write b) := by
  intro q hq
  rw [reqOfWrite_head b h] at hq
  cases hq

theorem ReqActs_map {W H : Nat} {ws : List Bytes} (h : ∀ w ∈ ws, w.head? ≠ some 3) : ReqActs W H (ws.map Act.write) := by
  intro x hx
  rcases List.mem_map.1 hx with ⟨b, hb, rfl⟩
  exact ReqAct_head (h b hb)

theorem wKeyEvent_head (k : Int) (d : Bool) (b : Bytes) (h : wKeyEvent k d = some b) : b.head? ≠ some 3 := by
  rw [wKeyEvent_unf] at h
  cases hk : packI k with
  | none => rw [hk] at h; cases h
  | some k' =>
    rw [hk, Option.bind_some] at h
    obtain rfl := Option.some.inj h
    simp

theorem wPointerEvent_head (x y m : Int) (b : Bytes) (h : wPointerEvent x y m = some b) : b.head? ≠ some 3 := by
  rw [wPointerEvent_unf] at h
  cases hm : packB m with
  | none => rw [hm] at h; cases h
  | some m' =>
  cases hx : packH x with
  | none => rw [hm, hx] at h; cases h
  | some x' =>
  cases hy : packH y with
  | none => rw [hm, hx, hy] at h; cases h
  | some y' =>
    rw [hm, hx, hy] at h
    simp only [Option.bind_some] at h
    obtain rfl := Option.some.inj h
    simp

theorem wClientCutText_head (t : List Char) (b : Bytes) (hb : wClientCutText t = some b) : b.head? ≠ some 3 := by
  rw [wClientCutText_unf] at hb
  cases hl : latin1 t with
  | none => rw [hl] at hb; cases hb
  | some d =>
    rw [hl, Option.bind_some] at hb
    cases hn : packI d.length with
    | none => rw [hn] at hb; cases hb
    | some n =>
      rw [hn, Option.bind_some] at hb
      obtain rfl := Option.some.inj hb
      simp

theorem keyActs_req {W H : Nat} {a : App} {op : KeyOp} {k : Word} {w : List Act} (h : keyActs a op k = some w) :
    ReqActs W H w := by
  unfold keyActs at h
  rcases Option.map_eq_some_iff.1 h with ⟨ws, hws, rfl⟩
  apply ReqActs_map
  rw [keyOpWrites_unf] at hws
  cases hd : decodeKey a.env.forceCaps (a.env.isUpper k) k with
  | none => rw [hd] at hws; cases hws
  | some ks =>
    rw [hd, Option.bind_some] at hws
    intro b hb
    obtain ⟨e, _, he⟩ := c19_mapM_mem _ _ _ hws b hb
    exact wKeyEvent_head _ _ _ he

theorem ptrActs_req {W H : Nat} {a a' : App} {op : PtrOp} {w : List Act} (h : ptrActs a op = some (a', w)) :
    ReqActs W H w := by
  unfold ptrActs at h
  rcases Option.map_eq_some_iff.1 h with ⟨ws, hws, h2⟩
  simp only [Prod.mk.injEq] at h2
  rcases h2 with ⟨_, rfl⟩
  apply ReqActs_map
  intro b hb
  obtain ⟨e, _, he⟩ := c19_mapM_mem _ _ _ hws b hb
  unfold ptrEvBytes at he
  exact wPointerEvent_head _ _ _ _ he

theorem requestAll_req (core : Core) (inc : Bool) : ReqActs core.width core.height (requestAll core inc) := by
  rw [requestAll_fun]
  dsimp only
  cases h : wUpdateRequest inc 0 0 core.width core.height with
  | none => exact ReqActs_nil
  | some b =>
    apply ReqActs_one
    intro q hq
    rw [req_wUpdateRequest inc _ _ b h] at hq
    exact (Option.some.inj hq).symm

theorem expectCompare_req (a : App) (core : Core) (screen : Option Img) (box : Int × Int × Int × Int) (rms : Word)
    (expected : List Nat) : ReqActs core.width core.height (expectCompare a core screen box rms expected).2.1 := by
  have key : ∀ (m : Bool) (x : App × List Act × Bool),
      x = (if m = true then (a, [], true)
        else ({ a with waiter := some (.expect box rms expected) }, requestAll core screen.isSome, false)) →
      ReqActs core.width core.height x.2.1 := by
    intro m x hx
    cases m
    · simp only [Bool.false_eq_true, if_false] at hx
      subst hx
      dsimp only
      exact requestAll_req core screen.isSome
    · simp only [if_true] at hx
      subst hx
      exact ReqActs_nil
  exact key _ _ rfl

/-- the requests of a started command -/
def RF (W H : Nat) (x : App × List Act × Susp) : Prop := ReqActs W H x.2.1

theorem RF_nil {W H : Nat} (a : App) (s : Susp) : RF W H (a, [], s) := ReqActs_nil
theorem RF_key {W H : Nat} {a a' : App} {op : KeyOp} {k : Word} {w : List Act} (s : Susp) (h : keyActs a op k = some w) :
    RF W H (a', w, s) := keyActs_req h
theorem RF_ptr {W H : Nat} {a a' a'' : App} {op : PtrOp} {w : List Act} (s : Susp) (h : ptrActs a op = some (a', w)) :
    RF W H (a'', w, s) := ptrActs_req h
theorem RF_req (a' : App) (core : Core) (inc : Bool) (s : Susp) :
    RF core.width core.height (a', requestAll core inc, s) := by
  have h4 := requestAll_req core inc
  generalize requestAll core inc = l at h4 ⊢
  exact h4

theorem ReqActs_req_snd (a' : App) (core : Core) (inc : Bool) :
    ReqActs core.width core.height (a', requestAll core inc).2 := by
  have h4 := requestAll_req core inc
  generalize requestAll core inc = l at h4 ⊢
  exact h4

theorem startCmd_req (a : App) (core : Core) (scr : Option Img) (c : Cmd) :
    RF core.width core.height (startCmd a core scr c) := by
  cases c <;> delta startCmd <;> dsimp only
  case keyPress =>
    split
    · next w h => exact RF_key _ h
    · exact RF_nil _ _
  case keyDown =>
    split
    · next w h => exact RF_key _ h
    · exact RF_nil _ _
  case keyUp =>
    split
    · next w h => exact RF_key _ h
    · exact RF_nil _ _
  case mouseMove =>
    split
    · next a' w h => exact RF_ptr _ h
    · exact RF_nil _ _
  case mousePress =>
    split
    · exact RF_nil _ _
    · split
      · next a' w h => exact RF_ptr _ h
      · exact RF_nil _ _
  case mouseDown =>
    split
    · exact RF_nil _ _
    · split
      · next a' w h => exact RF_ptr _ h
      · exact RF_nil _ _
  case mouseUp =>
    split
    · exact RF_nil _ _
    · split
      · next a' w h => exact RF_ptr _ h
      · exact RF_nil _ _
  case mouseDrag x y =>
    split
    · split
      · next a' w h => exact RF_ptr _ h
      · exact RF_nil _ _
    · split
      · exact RF_nil _ _
      · next a' w h => exact ptrActs_req h
  case pauseArg => exact ReqActs_nil
  case pauseDelay => exact ReqActs_nil
  case paste =>
    split
    · next b h => exact ReqActs_one (ReqAct_head (wClientCutText_head _ _ h))
    · exact RF_nil _ _
  case captureScreen => exact RF_req _ _ _ _
  case captureRegion => exact RF_req _ _ _ _
  case expectScreen =>
    split
    · exact RF_nil _ _
    · exact expectCompare_req _ _ _ _ _ _
  case expectRegion =>
    split
    · exact RF_nil _ _
    · exact expectCompare_req _ _ _ _ _ _

theorem advance_req (core : Core) (screen : Option Img) :
    ∀ (fuel : Nat) (a : App), ReqActs core.width core.height (advance core screen fuel a).2 := by
  intro fuel
  induction fuel with
  | zero => intro a; exact ReqActs_nil
  | succ n ih =>
    intro a
    rw [advance.eq_2]
    split
    · exact ReqActs_one trivial
    · rename_i c rest hc
      dsimp only
      have hs : ReqActs core.width core.height (startCmd { a with cmds := rest } core screen c).2.1 :=
        startCmd_req _ core screen c
      split
      · exact ReqActs_append (ReqActs_append (ReqActs_append (ReqActs_one trivial) hs) (ReqActs_one trivial)) (ih _)
      · exact ReqActs_append (ReqActs_one trivial) hs
      · exact ReqActs_append (ReqActs_one trivial) hs
      · exact ReqActs_append (ReqActs_one trivial) hs
      · exact ReqActs_append (ReqActs_append (ReqActs_one trivial) hs) (ReqActs_one trivial)

theorem resume_req (core : Core) (screen : Option Img) (a : App) :
    ReqActs core.width core.height (resume core screen a).2 := by
  unfold resume
  dsimp only
  exact ReqActs_append (ReqActs_one trivial) (advance_req _ _ _ _)

theorem onConnected_req (core : Core) (screen : Option Img) (a : App) :
    ReqActs core.width core.height (onConnected core screen a).2 := by
  unfold onConnected
  split
  · exact advance_req _ _ _ _
  · exact ReqActs_nil

theorem onCommit_req (core : Core) (screen : Option Img) (a : App) :
    ReqActs core.width core.height (onCommit core screen a).2 := by
  unfold onCommit
  split
  · exact ReqActs_nil
  · dsimp only
    split
    · exact ReqActs_nil
    · split
      · exact ReqActs_req_snd _ _ _
      · split
        · exact ReqActs_append (ReqActs_one trivial) (resume_req _ _ _)
        · exact ReqActs_one trivial
    · have he := expectCompare_req { a with waiter := none } core screen ‹_› ‹_› ‹_›
      split
      · split
        · exact ReqActs_append he (resume_req _ _ _)
        · exact he
      · exact he

theorem onTimer_req (core : Core) (screen : Option Img) (a : App) (id : Nat) :
    ReqActs core.width core.height (onTimer core screen a id).2 := by
  unfold onTimer
  dsimp only
  split
  · split
    · exact resume_req _ _ _
    · exact ReqActs_nil
  · split
    · exact ReqActs_nil
    · split
      · split
        · exact ReqActs_one trivial
        · rename_i a' w hw
          exact ptrActs_req hw
      · split
        · exact ReqActs_one trivial
        · rename_i a' w hw
          exact ReqActs_append (ptrActs_req hw) (resume_req _ _ _)
  · exact ReqActs_nil

theorem appReact_req (core : Core) (screen : Option Img) (a : App) (o : Out) :
    ReqActs core.width core.height (appReact core screen a o).2 := by
  cases o with
  | made => exact onConnected_req _ _ _
  | commit rs => exact onCommit_req _ _ _
  | _ => exact ReqActs_nil

/-! ## the checker on segments of the history -/

/-- the size in force after a list of events -/
def rcEnd : Nat × Nat → List Ev → Nat × Nat
  | sz, [] => sz
  | _, .out (.desktop w h) :: r => rcEnd (w, h) r
  | sz, _ :: r => rcEnd sz r

/-- a segment that is accepted from size `sz` and leaves size `sz'` in force -/
def RSeg (sz sz' : Nat × Nat) (l : List Ev) : Prop := requestsCurrent sz l = true ∧ rcEnd sz l = sz'

theorem RSeg_nil (sz : Nat × Nat) : RSeg sz sz [] := ⟨rfl, rfl⟩

theorem RSeg_append {sz sz' sz'' : Nat × Nat} {a b : List Ev} (ha : RSeg sz sz' a) (hb : RSeg sz' sz'' b) :
    RSeg sz sz'' (a ++ b) := by
  induction a generalizing sz with
  | nil =>
    obtain ⟨_, h2⟩ := ha
    simp only [rcEnd] at h2
    subst h2
    exact hb
  | cons e a ih =>
    obtain ⟨h1, h2⟩ := ha
    cases e with
    | out o =>
      cases o
      case desktop w h =>
        simp only [requestsCurrent, rcEnd] at h1 h2
        have := ih ⟨h1, h2⟩
        exact ⟨by simpa only [List.cons_append, requestsCurrent] using this.1,
          by simpa only [List.cons_append, rcEnd] using this.2⟩
      all_goals
        simp only [requestsCurrent, rcEnd] at h1 h2
        have := ih ⟨h1, h2⟩
        exact ⟨by simpa only [List.cons_append, requestsCurrent] using this.1,
          by simpa only [List.cons_append, rcEnd] using this.2⟩
    | act x =>
      cases x
      case write b =>
        simp only [requestsCurrent, rcEnd, Bool.and_eq_true] at h1 h2
        have := ih ⟨h1.2, h2⟩
        exact ⟨by simp only [List.cons_append, requestsCurrent, Bool.and_eq_true]; exact ⟨h1.1, this.1⟩,
          by simpa only [List.cons_append, rcEnd] using this.2⟩
      all_goals
        simp only [requestsCurrent, rcEnd] at h1 h2
        have := ih ⟨h1, h2⟩
        exact ⟨by simpa only [List.cons_append, requestsCurrent] using this.1,
          by simpa only [List.cons_append, rcEnd] using this.2⟩

theorem RSeg_acts (sz : Nat × Nat) (l : List Act) (h : ReqActs sz.1 sz.2 l) : RSeg sz sz (l.map Ev.act) := by
  induction l with
  | nil => exact RSeg_nil sz
  | cons x l ih =>
    have hx := h x (List.mem_cons_self ..)
    have := ih (fun y hy => h y (List.mem_cons_of_mem _ hy))
    cases x
    case write b =>
      refine ⟨?_, by simpa only [List.map_cons, rcEnd] using this.2⟩
      simp only [List.map_cons, requestsCurrent, Bool.and_eq_true]
      refine ⟨?_, this.1⟩
      cases hq : reqOfWrite b with
      | none => rfl
      | some q =>
        have := hx q hq
        subst this
        simp
    all_goals
      exact ⟨by simpa only [List.map_cons, requestsCurrent] using this.1,
        by simpa only [List.map_cons, rcEnd] using this.2⟩

/-- no element announces a desktop size -/
def notDesk : Out → Bool
  | .desktop .. => false
  | _ => true

def NoDesk (l : List Out) : Prop := ∀ o ∈ l, notDesk o = true

theorem RSeg_out (sz : Nat × Nat) (o : Out) (h : notDesk o = true) : RSeg sz sz [Ev.out o] := by
  cases o <;> first | exact ⟨rfl, rfl⟩ | cases h

theorem RSeg_desktop (sz : Nat × Nat) (w h : Nat) : RSeg sz (w, h) [Ev.out (.desktop w h)] := ⟨rfl, rfl⟩

/-- the events of one callback and the reaction to it -/
theorem reactOne_rseg (core : Core) (acc : Canvas × App × List Ev) (o : Out) (sz : Nat × Nat) (h : notDesk o = true)
    (hacc : RSeg sz (core.width, core.height) acc.2.2) :
    RSeg sz (core.width, core.height) (reactOne core acc o).2.2 := by
  simp only [reactOne]
  exact RSeg_append (RSeg_append hacc (RSeg_out _ o h)) (RSeg_acts (core.width, core.height) _ (appReact_req core _ _ o))

theorem reactFold_rseg (core : Core) (outs : List Out) (sz : Nat × Nat) : ∀ (acc : Canvas × App × List Ev),
    NoDesk outs → RSeg sz (core.width, core.height) acc.2.2 →
    RSeg sz (core.width, core.height) (outs.foldl (reactOne core) acc).2.2 := by
  induction outs with
  | nil => intro acc _ h; exact h
  | cons o outs ih =>
    intro acc hn h
    rw [List.foldl_cons]
    exact ih _ (fun x hx => hn x (List.mem_cons_of_mem _ hx)) (reactOne_rseg core acc o sz (hn o (List.mem_cons_self ..)) h)

/-! ## the protocol layer: where `width` / `height` change, and what is called back around it -/

theorem nd_hexColoured_aux (bypp tx ty : Nat) (l : List Bytes) : ∀ (acc : List Out × Option Bytes),
    (∀ o ∈ acc.1, notDesk o = true) →
    ∀ o ∈ (l.foldl (fun (acc : List Out × Option Bytes) r =>
      let col := r.take bypp
      let xy := (r.getD bypp 0).toNat
      let wh := (r.getD (bypp + 1) 0).toNat
      (acc.1 ++ [Out.fill (tx + xy / 16) (ty + xy % 16) (wh / 16 + 1) (wh % 16 + 1) (some col)], some col)) acc).1,
      notDesk o = true := by
  induction l with
  | nil => intro acc h; simpa using h
  | cons r l ih =>
    intro acc h
    rw [List.foldl_cons]
    apply ih
    intro o ho
    simp only [List.mem_append, List.mem_singleton] at ho
    rcases ho with ho | rfl
    · exact h o ho
    · rfl

theorem nd_hexColoured (bypp tx ty : Nat) (b : Bytes) (fg : Option Bytes) : NoDesk (hexColoured bypp tx ty b fg).1 := by
  unfold hexColoured
  exact nd_hexColoured_aux bypp tx ty _ _ (by simp)

theorem nd_zTiles (cp : Nat) (pad : Bool) (x y w h : Nat) : ∀ (fuel : Nat) (tx ty : Int) (d : Bytes) (outs : List Out),
    (∀ o ∈ outs, notDesk o = true) → ∀ o ∈ (zTiles cp pad x y w h fuel tx ty d outs).1, notDesk o = true := by
  intro fuel
  induction fuel with
  | zero => intro tx ty d outs hall; simpa [zTiles] using hall
  | succ fuel ih =>
    intro tx ty d outs hall
    cases d with
    | nil => simpa [zTiles] using hall
    | cons sub d0 =>
      simp only [zTiles]
      split
      · exact hall
      · rename_i o d' heq
        apply ih
        intro p hp
        rcases List.mem_append.1 hp with hp | hp
        · exact hall p hp
        · generalize (if (x : Int) + w - tx < 64 then (x : Int) + w - tx else 64) = tw at heq
          generalize (if (y : Int) + h - ty < 64 then (y : Int) + h - ty else 64) = th at heq
          repeat' split at heq
          all_goals try simp only [bind, Except.bind, pure, Except.pure] at heq
          all_goals repeat' split at heq
          all_goals first
            | (cases heq; done)
            | (cases heq; simp only [List.mem_singleton] at hp; subst hp; rfl)

theorem nd_zTiles_eq {cp : Nat} {pad : Bool} {x y w h fuel : Nat} {tx ty : Int} {d : Bytes} {outs : List Out}
    {e : Option String} (heq : zTiles cp pad x y w h fuel tx ty d [] = (outs, e)) : NoDesk outs := by
  have := nd_zTiles cp pad x y w h fuel tx ty d [] (by simp)
  rw [heq] at this
  exact this

theorem nd_rreFills (bypp x y : Nat) (b : Bytes) : NoDesk (rreFills bypp x y b) := by
  intro o ho
  simp only [rreFills, List.mem_map] at ho
  obtain ⟨r, _, rfl⟩ := ho
  rfl

theorem nd_correFills (bypp x y : Nat) (b : Bytes) : NoDesk (correFills bypp x y b) := by
  intro o ho
  simp only [correFills, List.mem_map] at ho
  obtain ⟨r, _, rfl⟩ := ho
  rfl

theorem nd_hexFG (x y : Nat) (b : Bytes) (fg : Option Bytes) : NoDesk (hexFG x y b fg) := by
  intro o ho
  simp only [hexFG, List.mem_map] at ho
  obtain ⟨r, _, rfl⟩ := ho
  rfl

theorem nd_nil : NoDesk [] := by intro o ho; cases ho

theorem nd_one {o : Out} (h : notDesk o = true) : NoDesk [o] := by
  intro x hx
  rw [List.mem_singleton] at hx
  subst hx
  exact h

theorem nd_append {a b : List Out} (ha : NoDesk a) (hb : NoDesk b) : NoDesk (a ++ b) := by
  intro x hx
  rcases List.mem_append.1 hx with h | h
  · exact ha x h
  · exact hb x h

/-- one handler result: either no size is announced and `width` / `height` are what they were, or the size is announced
    FIRST - before any callback the application reacts to - and `width` / `height` are that size -/
def Shape (c : Core) (r : RSt × List Out) : Prop :=
  (NoDesk r.2 ∧ r.1.core.width = c.width ∧ r.1.core.height = c.height) ∨
  (∃ tail, r.2 = .desktop r.1.core.width r.1.core.height :: tail ∧ NoDesk tail ∧
    r.1.core.width < 65536 ∧ r.1.core.height < 65536)

/-- a geometry that fits the 16-bit fields of the wire stays one -/
theorem shape_fits {c : Core} {r : RSt × List Out} (hs : Shape c r) (hw : c.width < 65536) (hh : c.height < 65536) :
    r.1.core.width < 65536 ∧ r.1.core.height < 65536 := by
  rcases hs with ⟨_, h2, h3⟩ | ⟨_, _, _, h2, h3⟩
  · rw [h2, h3]; exact ⟨hw, hh⟩
  · exact ⟨h2, h3⟩

theorem beNat_take2_lt (l : Bytes) : beNat (l.take 2) < 65536 := by
  match l with
  | [] => simp [beNat]
  | [a] => have := a.toNat_lt; simp [beNat]; omega
  | a :: b :: _ => have := a.toNat_lt; have := b.toNat_lt; simp [beNat]; omega

theorem shape_go (c c' : Core) (ph : Phase) (o : List Out) (ho : NoDesk o) (h1 : c'.width = c.width)
    (h2 : c'.height = c.height) : Shape c (go c' ph o) := Or.inl ⟨ho, h1, h2⟩

theorem shape_dead (c c' : Core) (o : List Out) (ho : NoDesk o) (h1 : c'.width = c.width)
    (h2 : c'.height = c.height) : Shape c (dead c' o) := Or.inl ⟨ho, h1, h2⟩

theorem shape_doConnection (c c' : Core) (o : List Out) (ho : NoDesk o) (h1 : c'.width = c.width)
    (h2 : c'.height = c.height) : Shape c (doConnection c' o) := by
  unfold doConnection
  split
  · exact Or.inl ⟨ho, h1, h2⟩
  · split
    · exact Or.inl ⟨nd_append ho (nd_one rfl), h1, h2⟩
    · exact Or.inl ⟨ho, h1, h2⟩

/-- the DesktopSize pseudo-rectangle -/
theorem shape_desktop (c c' : Core) (w h : Nat) (hw : c'.width = w) (hh : c'.height = h) (bw : w < 65536)
    (bh : h < 65536) : Shape c (doConnection c' [.desktop w h]) := by
  subst hw hh
  unfold doConnection
  split
  · exact Or.inr ⟨[], rfl, nd_nil, bw, bh⟩
  · split
    · exact Or.inr ⟨[.commit c'.rectPos], rfl, nd_one rfl, bw, bh⟩
    · exact Or.inr ⟨[], rfl, nd_nil, bw, bh⟩

theorem shape_hex_aux (c c' : Core) bg fg (x y w h : Nat) (p : Nat × Nat) (o : List Out) (ho : NoDesk o)
    (h1 : c'.width = c.width) (h2 : c'.height = c.height) :
    Shape c (if p.2 ≥ y + h then doConnection c' o else go c' (.hextile bg fg x y w h p.1 p.2) o) := by
  split
  · exact shape_doConnection c c' o ho h1 h2
  · exact Or.inl ⟨ho, h1, h2⟩

theorem shape_nextHextile (c c' : Core) bg fg x y w h t (o : List Out) (ho : NoDesk o) (h1 : c'.width = c.width)
    (h2 : c'.height = c.height) : Shape c (nextHextile c' bg fg x y w h t o) := by
  unfold nextHextile
  split
  rename_i tx ty _
  exact shape_hex_aux c c' bg fg x y w h (tx, ty) o ho h1 h2

macro "nd_auto" : tactic => `(tactic|
    first
      | rfl
      | exact nd_nil
      | exact nd_one rfl
      | exact nd_rreFills _ _ _ _
      | exact nd_correFills _ _ _ _
      | exact nd_hexFG _ _ _ _
      | exact nd_hexColoured _ _ _ _ _)

macro "shape_auto" : tactic => `(tactic|
    repeat (first
      | (with_reducible apply shape_desktop) <;> first | rfl | exact beNat_take2_lt _
      | (with_reducible apply shape_go) <;> nd_auto
      | (with_reducible apply shape_dead) <;> nd_auto
      | (with_reducible apply shape_doConnection) <;> nd_auto
      | (with_reducible apply shape_nextHextile) <;> nd_auto
      | split))

theorem stepCore_shape (s : RSt) (b : Bytes) (h : InSession s.ph) : Shape s.core (stepCore s b) := by
  obtain ⟨c, ph⟩ := s
  cases ph <;> first | exact h.elim | skip
  case rectangle =>
    by_cases he : (s32 (beNat (List.drop 8 b)) == Tables.ENC_PSEUDO_LAST_RECT) = true
    · simp only [stepCore, he, ↓reduceIte, ne_eq, not_true_eq_false]
      shape_auto
    · simp only [stepCore, he, Bool.false_eq_true, ↓reduceIte]
      by_cases hk : c.rectangles ≠ 0
      · rw [if_pos hk]
        shape_auto
      · rw [if_neg hk]
        shape_auto
  case zrleData n x y w h =>
    simp only [stepCore]
    split
    · apply shape_dead <;> first | rfl | exact nd_one rfl
    · apply shape_dead <;> first | rfl | exact nd_one rfl
    · split
      · rename_i outs e heq
        apply shape_dead <;> first | rfl | skip
        exact nd_append (nd_zTiles_eq heq) (nd_one rfl)
      · rename_i outs heq
        apply shape_doConnection <;> first | rfl | skip
        exact nd_zTiles_eq heq
  all_goals simp only [stepCore]
  all_goals shape_auto

theorem cut_desktop (w h : Nat) (rest : List Out) :
    cutAtNoneFill (.desktop w h :: rest) = (cutAtNoneFill rest).map (.desktop w h :: ·) := rfl

theorem nd_cut (l o : List Out) (hc : cutAtNoneFill l = some o) (h : NoDesk l) : NoDesk o := by
  intro x hx
  rcases cut_mem l o hc x hx with h1 | h1
  · exact h x h1
  · subst h1; rfl

/-- the same for `step`: a handler that crashes inside `fillRectangle` keeps the attributes it had assigned -/
theorem step_shape (s : RSt) (b : Bytes) (h : InSession s.ph) : Shape s.core (step s b) := by
  have hk := stepCore_shape s b h
  simp only [step]
  split
  · rename_i outs hc
    rcases hk with ⟨h1, h2, h3⟩ | ⟨tail, h1, h2, b1, b2⟩
    · exact Or.inl ⟨nd_cut _ _ hc h1, h2, h3⟩
    · rw [h1, cut_desktop] at hc
      cases ht : cutAtNoneFill tail with
      | none => rw [ht] at hc; cases hc
      | some t' =>
        rw [ht] at hc
        simp only [Option.map_some] at hc
        obtain rfl := Option.some.inj hc
        exact Or.inr ⟨t', rfl, nd_cut _ _ ht h2, b1, b2⟩
  · exact hk

/-! ## lifting through the whole client -/

def geo (s : SysSt) : Nat × Nat := (s.rfb.core.width, s.rfb.core.height)

/-- the invariant of a run: inside the session, with a geometry that fits the 16-bit fields of the wire -/
def Geo (s : SysSt) : Prop := InSession s.rfb.ph ∧ s.rfb.core.width < 65536 ∧ s.rfb.core.height < 65536

theorem fold_shape_rseg (c : Core) (r : RSt × List Out) (cv : Canvas) (app : App) (hs : Shape c r) :
    RSeg (c.width, c.height) (r.1.core.width, r.1.core.height) (r.2.foldl (reactOne r.1.core) (cv, app, [])).2.2 := by
  rcases hs with ⟨h1, h2, h3⟩ | ⟨tail, h1, h2, _, _⟩
  · apply reactFold_rseg _ _ _ _ h1
    rw [h2, h3]
    exact RSeg_nil _
  · obtain ⟨r1, outs⟩ := r
    dsimp only at h1 h2 ⊢
    subst h1
    rw [List.foldl_cons]
    apply reactFold_rseg _ _ _ _ h2
    exact RSeg_desktop _ _ _

/-- one handler invocation of the whole client inside a session -/
theorem sysStep_rseg (s : SysSt) (b : Bytes) (h : Geo s) :
    RSeg (geo s) (geo (sysStep s b).1) (sysStep s b).2 ∧ Geo (sysStep s b).1 :=
  ⟨fold_shape_rseg s.rfb.core (step s.rfb b) s.cv s.app (step_shape s.rfb b h.1),
    (step_inSession s.rfb b h.1).1, shape_fits (step_shape s.rfb b h.1) h.2.1 h.2.2⟩

theorem sys_drain_rseg : ∀ (fuel : Nat) (s : SysSt) (buf : Bytes), Geo s →
    RSeg (geo s) (geo (drain sysMachine fuel s buf).s) (drain sysMachine fuel s buf).out ∧
    Geo (drain sysMachine fuel s buf).s := by
  intro fuel
  induction fuel with
  | zero => intro s buf h; exact ⟨RSeg_nil _, h⟩
  | succ f ih =>
    intro s buf h
    by_cases hb : sysMachine.blocked s buf = true
    · rw [drain_blocked_eq _ _ _ _ hb]
      exact ⟨RSeg_nil _, h⟩
    · have hb' : sysMachine.blocked s buf = false := by simpa using hb
      simp only [drain, hb', Bool.false_eq_true, ↓reduceIte]
      have hs : sysMachine.step s (buf.take (sysMachine.need s)) = sysStep s (buf.take (sysMachine.need s)) := rfl
      rw [hs]
      obtain ⟨j1, j2⟩ := sysStep_rseg s (buf.take (sysMachine.need s)) h
      obtain ⟨i1, i2⟩ := ih (sysStep s (buf.take (sysMachine.need s))).1 (buf.drop (sysMachine.need s)) j2
      exact ⟨RSeg_append j1 i1, i2⟩

theorem sysFire_rseg (st : St SysSt) (h : Geo st.s) :
    RSeg (geo st.s) (geo (sysFire st).1.s) (sysFire st).2 ∧ Geo (sysFire st).1.s := by
  unfold sysFire
  split
  · exact ⟨RSeg_nil _, h⟩
  · dsimp only
    exact ⟨RSeg_acts (st.s.rfb.core.width, st.s.rfb.core.height) _ (onTimer_req _ _ _ _), h⟩

theorem sysIn_rseg (st : St SysSt) (i : SysIn) (h : Geo st.s) :
    RSeg (geo st.s) (geo (sysIn st i).1.s) (sysIn st i).2 ∧ Geo (sysIn st i).1.s := by
  cases i with
  | recv c => exact sys_drain_rseg (feedFuel st c) st.s (st.buf ++ c) h
  | fire => exact sysFire_rseg st h

theorem sysRun_rseg (ins : List SysIn) : ∀ (st : St SysSt), Geo st.s →
    RSeg (geo st.s) (geo (sysRun st ins).1.s) (sysRun st ins).2 ∧ Geo (sysRun st ins).1.s := by
  induction ins with
  | nil => intro st h; exact ⟨RSeg_nil _, h⟩
  | cons i is ih =>
    intro st h
    simp only [sysRun]
    obtain ⟨j1, j2⟩ := sysIn_rseg st i h
    obtain ⟨i1, i2⟩ := ih _ j2
    exact ⟨RSeg_append j1 i1, i2⟩

/-- **every run** from an established session whose geometry fits 16 bits (as every geometry on the wire does) -/
theorem C06_sys_requests_current (st : St SysSt) (hin : InSession st.s.rfb.ph)
    (hw : st.s.rfb.core.width < 65536) (hh : st.s.rfb.core.height < 65536) (ins : List SysIn) :
    requestsCurrent (st.s.rfb.core.width, st.s.rfb.core.height) (sysRun st ins).2 = true :=
  (sysRun_rseg ins st ⟨hin, hw, hh⟩).1.1

/-- ... and the run ends inside the session, with a geometry that still fits 16 bits and is the one the history
    leaves in force (so the theorem applies again to any continuation) -/
theorem C06_sys_geometry_invariant (st : St SysSt) (hin : InSession st.s.rfb.ph)
    (hw : st.s.rfb.core.width < 65536) (hh : st.s.rfb.core.height < 65536) (ins : List SysIn) :
    InSession (sysRun st ins).1.s.rfb.ph ∧
    (sysRun st ins).1.s.rfb.core.width < 65536 ∧ (sysRun st ins).1.s.rfb.core.height < 65536 ∧
    rcEnd (st.s.rfb.core.width, st.s.rfb.core.height) (sysRun st ins).2 =
      ((sysRun st ins).1.s.rfb.core.width, (sysRun st ins).1.s.rfb.core.height) :=
  have h := sysRun_rseg ins st ⟨hin, hw, hh⟩
  ⟨h.2.1, h.2.2.1, h.2.2.2, h.1.2⟩

example : requestsCurrent (8, 6) [.act (.write [3, 0, 0, 0, 0, 0, 0, 8, 0, 6]), .out (.desktop 10 7), .out (.commit []),
    .act (.write [3, 1, 0, 0, 0, 0, 0, 10, 0, 7])] = true := by decide
example : requestsCurrent (8, 6) [.out (.desktop 10 7), .act (.write [3, 1, 0, 0, 0, 0, 0, 8, 0, 6])] = false := by decide

end Vnc
