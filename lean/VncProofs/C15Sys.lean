import VncProofs.System
/-!
# C15 for the whole client

`C15_no_spin` / `C15_steps_linear` are about the protocol machine.  The application layer (waiter, script chain) runs inside
the same handler invocations: `sysMachine` has the same `need` and `halted`, so the generic progress argument covers the whole
client - no server input makes `dataReceived` of a client WITH a running script spin either.
-/
namespace Vnc

/-- any chunk, any state of protocol machine + screen + application: the dispatch loop ends within its linear fuel -/
theorem C15_sys_no_spin (st : St SysSt) (chunk : Bytes) : (feed sysMachine st chunk).2.2 = true :=
  feed_ok sysMachine sys_progress st chunk

theorem C15_sys_no_spin_all (st : St SysSt) (cs : List Bytes) : (feedAll sysMachine st cs).2.2 = true := by
  induction cs generalizing st with
  | nil => rfl
  | cons c cs ih => simp [feedAll, C15_sys_no_spin, ih]

/-- at most `2·bytes + 1` handler invocations per `dataReceived`, script or no script -/
theorem C15_sys_steps_linear (st : St SysSt) (chunk : Bytes) :
    drainSteps sysMachine (feedFuel st chunk) st.s (st.buf ++ chunk) ≤ 2 * (st.buf.length + chunk.length) + 1 := by
  have := drainSteps_le sysMachine sys_progress (feedFuel st chunk) st.s (st.buf ++ chunk)
  simp only [List.length_append] at this
  split at this <;> omega

end Vnc
