import VncProofs.C18
import VncProofs.C18PtrLemmas
import VncModel.Pointer
/-!
# C18, second part: whole recorded sessions - key AND pointer events - replay to the same input events

`C18_replay` (C18.lean) covers sessions of key events.  Here the session is any sequence of key and pointer events as
the recorder sees them (`PEvent.key`, `PEvent.pointer`, each with the time at which it arrived); the script is what
`recStep` really writes for them, line after line.  The theorems say that this text tokenises and compiles to the
commands `recCmds`, that replaying those commands sends the recorded keys and visits the recorded pointer positions in
order, that a pointer event with buttons is replayed as one click per pressed button, and that every pause argument
denotes exactly the recorded gap.
-/
namespace Vnc

/-- the events of a session: only keys and pointer movements are recorded -/
def isInputEv : PEvent → Bool
  | .key .. => true
  | .pointer .. => true
  | _ => false

/-- the script text vnclog writes for a session (events with their arrival times, ticks of 1/10000 s) -/
def recordAll (r : RecSt) : List (Nat × PEvent) → List Char
  | [] => []
  | (now, ev) :: rest => ((recStep r now ev).2.getD []) ++ recordAll (recStep r now ev).1 rest

/-- one click command per pressed button, lowest button first -/
def clickCmds (mask : Nat) : List Cmd :=
  (List.range 8).filterMap fun i => if mask.testBit i then some (Cmd.mousePress ((i : Int) + 1)) else none

/-- the commands the recorded session stands for -/
def recCmds (mouse : Option (Nat × Nat)) (last : Nat) : List (Nat × PEvent) → List Cmd
  | [] => []
  | (now, .key k down) :: rest =>
    [Cmd.pauseArg (fmtTicks (now - last)), if down then Cmd.keyDown (keyWord k) else Cmd.keyUp (keyWord k)] ++
      recCmds mouse now rest
  | (now, .pointer x y mask) :: rest =>
    [Cmd.pauseArg (fmtTicks (now - last))] ++
      (if mouse != some (x, y) then [Cmd.mouseMove (x : Int) (y : Int)] else []) ++ clickCmds mask ++
      recCmds (some (x, y)) now rest
  | _ :: rest => recCmds mouse last rest

/-- all keys of the session can be written (`keysym ≤ 0x10FFFF` or named) -/
def sessionOK (evs : List (Nat × PEvent)) : Prop :=
  ∀ e ∈ evs, isInputEv e.2 = true ∧
    ∀ k d, e.2 = .key k d → keyRecordable k = true ∧ (reverseMapGet k = none → k.isValidChar)


/-! ### helper lemmas: what the recorder writes, as words -/

/-- the tokens of the click words of `l` -/
def clickToksL (mask : Nat) (l : List Nat) : List Word :=
  l.flatMap fun i => if mask.testBit i then ["click".toList, (toString (i + 1)).toList] else []

/-- the tokens of the move word -/
def mvToks (mouse : Option (Nat × Nat)) (x y : Nat) : List Word :=
  if mouse != some (x, y) then ["move".toList, (toString x).toList, (toString y).toList] else []

/-- the tokens of a recorded pointer line -/
def ptrToks (mouse : Option (Nat × Nat)) (gap x y mask : Nat) : List Word :=
  ["pause".toList, fmtTicks gap] ++ mvToks mouse x y ++ clickToksL mask (List.range 8)

/-- the words of a recorded session -/
def sessionWords (mouse : Option (Nat × Nat)) (last : Nat) : List (Nat × PEvent) → List Word
  | [] => []
  | (now, .key k down) :: rest =>
    "pause".toList :: fmtTicks (now - last) :: (if down then "keydown" else "keyup").toList :: keyWord k ::
      sessionWords mouse now rest
  | (now, .pointer x y mask) :: rest => ptrToks mouse (now - last) x y mask ++ sessionWords (some (x, y)) now rest
  | _ :: rest => sessionWords mouse last rest

theorem click_text (mask : Nat) (l : List Nat) :
    ((l.filterMap fun i => if mask.testBit i then some ("click ".toList ++ (toString (i + 1)).toList) else none).map
        (· ++ [' '])).flatten = ((clickToksL mask l).map (· ++ [' '])).flatten := by
  induction l with
  | nil => rfl
  | cons i l ih =>
    by_cases h : mask.testBit i
    · simp only [List.filterMap_cons, h, clickToksL, List.flatMap_cons] at ih ⊢
      simpa using ih
    · simp only [List.filterMap_cons, h, clickToksL, List.flatMap_cons] at ih ⊢
      simpa using ih

theorem mv_text (mouse : Option (Nat × Nat)) (x y : Nat) :
    ((if mouse != some (x, y) then ["move ".toList ++ (toString x).toList ++ [' '] ++ (toString y).toList] else []).map
        (· ++ [' '])).flatten = ((mvToks mouse x y).map (· ++ [' '])).flatten := by
  have h1 : "move ".toList = "move".toList ++ [' '] := by decide
  unfold mvToks
  split <;> simp [h1]

/-- the text of a recorded pointer event -/
theorem rec_ptr (r : RecSt) (now x y mask : Nat) :
    recStep r now (.pointer x y mask) = ({ r with last := now, mouse := some (x, y) },
      some (((ptrToks r.mouse (now - r.last) x y mask).map (· ++ [' '])).flatten ++ ['\n'])) := by
  simp only [recStep, joinSp_snoc, clickWords, ptrToks, List.map_append, List.flatten_append, click_text, mv_text]

theorem rec_key (r : RecSt) (now k : Nat) (down : Bool) (h : keyRecordable k = true) :
    recStep r now (.key k down) = ({ r with last := now }, some (keyLine (now - r.last) k down)) := by
  have h2 := C18_recorder_line r now k down h
  have h1 : (recStep r now (.key k down)).1 = { r with last := now } := by
    simp only [recStep, C18_token_is_quoted_word k h]
  exact Prod.ext h1 h2

theorem ptrToks_safe (mouse : Option (Nat × Nat)) (gap x y mask : Nat) :
    ∀ wd ∈ ptrToks mouse gap x y mask, wd ≠ [] ∧ wd.all isSafeChar = true := by
  have hnum : ∀ n : Nat, (toString n).toList ≠ [] ∧ (toString n).toList.all isSafeChar = true :=
    fun n => ⟨(toString_digits n).2, toString_safe n⟩
  intro wd hwd
  simp only [ptrToks, List.mem_append, List.mem_cons, List.mem_nil_iff, or_false] at hwd
  rcases hwd with ((rfl | rfl) | hmv) | hcl
  · exact ⟨by decide, by decide⟩
  · exact ⟨(C18_fmt_safe gap).2, (C18_fmt_safe gap).1⟩
  · unfold mvToks at hmv
    split at hmv
    · simp only [List.mem_cons, List.mem_nil_iff, or_false] at hmv
      rcases hmv with rfl | rfl | rfl
      · exact ⟨by decide, by decide⟩
      · exact hnum x
      · exact hnum y
    · simp at hmv
  · simp only [clickToksL, List.mem_flatMap] at hcl
    obtain ⟨i, _, hi⟩ := hcl
    split at hi
    · simp only [List.mem_cons, List.mem_nil_iff, or_false] at hi
      rcases hi with rfl | rfl
      · exact ⟨by decide, by decide⟩
      · exact hnum (i + 1)
    · simp at hi

/-- a recorded pointer line tokenises to its words: `pause <t> [move <x> <y>] [click <b>]*` -/
theorem ptr_line_tokens (mouse : Option (Nat × Nat)) (gap x y mask : Nat) (rest : List Char) :
    shGo .ws [] false ((((ptrToks mouse gap x y mask).map (· ++ [' '])).flatten ++ ['\n']) ++ rest) =
      (ptrToks mouse gap x y mask ++ ·) <$> shGo .ws [] false rest := by
  rw [List.append_assoc, shGo_safe_words _ (ptrToks_safe mouse gap x y mask)]
  simp only [List.cons_append, List.nil_append, shGo_newline]

theorem not_input_absurd {now : Nat} {ev : PEvent} {rest : List (Nat × PEvent)} (hok : sessionOK ((now, ev) :: rest))
    (h : isInputEv ev = false) : False := by
  have := (hok (now, ev) (by simp)).1
  simp [h] at this

theorem sessionOK_tail {e : Nat × PEvent} {rest : List (Nat × PEvent)} (hok : sessionOK (e :: rest)) : sessionOK rest :=
  fun x hx => hok x (by simp [hx])

theorem session_split (evs : List (Nat × PEvent)) (hok : sessionOK evs) (r : RecSt) :
    shGo .ws [] false (recordAll r evs) = .ok (sessionWords r.mouse r.last evs) := by
  induction evs generalizing r with
  | nil => rfl
  | cons e rest ih =>
    obtain ⟨now, ev⟩ := e
    have ih' := ih (sessionOK_tail hok)
    cases ev with
    | key k down =>
      have hk := ((hok (now, .key k down) (by simp)).2 k down rfl).1
      rw [recordAll, rec_key r now k down hk]
      simp only [Option.getD_some, sessionWords]
      rw [C18_line_tokens, ih']
      rfl
    | pointer x y mask =>
      rw [recordAll, rec_ptr]
      simp only [Option.getD_some, sessionWords]
      rw [ptr_line_tokens, ih']
      rfl
    | _ => exact (not_input_absurd hok rfl).elim

theorem click_compile (fs : FS) (mask : Nat) (l : List Nat) (rest : List Word) (cs : List Cmd) (fuel : Nat)
    (hc : compile fs false fuel rest = .ok cs) :
    ∃ fuel', compile fs false fuel' (clickToksL mask l ++ rest) =
      .ok ((l.filterMap fun i => if mask.testBit i then some (Cmd.mousePress ((i : Int) + 1)) else none) ++ cs) := by
  induction l with
  | nil => exact ⟨fuel, hc⟩
  | cons i l ih =>
    obtain ⟨f, hf⟩ := ih
    by_cases h : mask.testBit i
    · refine ⟨f + 1, ?_⟩
      have hi : pyInt (toString (i + 1)).toList = some ((i : Int) + 1) := by
        rw [pyInt_toString]; exact congrArg some (by omega)
      have := compile_click fs _ _ _ f _ hi hf
      simpa [clickToksL, h] using this
    · refine ⟨f, ?_⟩
      simpa [clickToksL, h] using hf

theorem session_compile (fs : FS) (hfl : ∀ gap, fs.isFloat (fmtTicks gap) = true) (evs : List (Nat × PEvent))
    (hok : sessionOK evs) (mouse : Option (Nat × Nat)) (last : Nat) :
    ∃ fuel, compile fs false fuel (sessionWords mouse last evs) = .ok (recCmds mouse last evs) := by
  induction evs generalizing mouse last with
  | nil => exact ⟨0, rfl⟩
  | cons e rest ih =>
    obtain ⟨now, ev⟩ := e
    have ih' := ih (sessionOK_tail hok)
    cases ev with
    | key k down =>
      obtain ⟨f, hf⟩ := ih' mouse now
      exact ⟨f + 2, by simpa only [sessionWords, recCmds] using compile_key fs _ k down _ f _ (hfl _) hf⟩
    | pointer x y mask =>
      obtain ⟨f, hf⟩ := ih' (some (x, y)) now
      obtain ⟨f1, hf1⟩ := click_compile fs mask (List.range 8) _ _ f hf
      simp only [sessionWords, recCmds, ptrToks, clickCmds, List.append_assoc, List.cons_append, List.nil_append]
      by_cases hmv : mouse = some (x, y)
      · refine ⟨f1 + 1, ?_⟩
        have := compile_pause fs (fmtTicks (now - last)) _ f1 _ (hfl _) hf1
        simpa [mvToks, hmv] using this
      · refine ⟨f1 + 1 + 1, ?_⟩
        have h1 := compile_move fs _ _ _ _ _ f1 _ (pyInt_toString x) (pyInt_toString y) hf1
        have := compile_pause fs (fmtTicks (now - last)) _ (f1 + 1) _ (hfl _) h1
        simpa [mvToks, hmv] using this
    | _ => exact (not_input_absurd hok rfl).elim

/-- **a recorded session is a valid script**: whatever keys and pointer events were recorded, the text tokenises
    (shlex, posix, comments on) and compiles to exactly `recCmds` -/
theorem C18_session_compiles (fs : FS) (r : RecSt) (evs : List (Nat × PEvent)) (hok : sessionOK evs)
    (hfl : ∀ gap, fs.isFloat (fmtTicks gap) = true) :
    ∃ words, shlexSplit (recordAll r evs) = .ok words ∧
      ∃ fuel, compile fs false fuel words = .ok (recCmds r.mouse r.last evs) :=
  ⟨_, session_split evs hok r, session_compile fs hfl evs hok r.mouse r.last⟩

/-! ## replaying the commands -/

/-- the pointer events a command list sends when replayed (keys and pauses send none) -/
def replayPtr (st : PtrSt) : List Cmd → PtrSt × List PtrEv
  | [] => (st, [])
  | .mouseMove x y :: rest =>
    let r := ptrStep st (.move x y); let r' := replayPtr r.1 rest; (r'.1, r.2 ++ r'.2)
  | .mousePress b :: rest =>
    let r := ptrStep st (.click b.toNat); let r' := replayPtr r.1 rest; (r'.1, r.2 ++ r'.2)
  | _ :: rest => replayPtr st rest

/-- the recorded keys of a session, in order -/
def sessionKeys : List (Nat × PEvent) → List KeyEv
  | [] => []
  | (_, .key k down) :: rest => (k, down) :: sessionKeys rest
  | _ :: rest => sessionKeys rest

/-- the recorded pointer positions of a session, in order -/
def sessionPositions : List (Nat × PEvent) → List (Int × Int)
  | [] => []
  | (_, .pointer x y _) :: rest => ((x : Int), (y : Int)) :: sessionPositions rest
  | _ :: rest => sessionPositions rest

/-- remove every element equal to its predecessor (`prev` is the predecessor of the head) -/
def dedupAdj {α : Type} [DecidableEq α] : Option α → List α → List α
  | _, [] => []
  | prev, x :: xs => if prev = some x then dedupAdj prev xs else x :: dedupAdj (some x) xs


/-! ### helper lemmas: the pointer commands of a line send no keys and carry no pause -/

/-- the commands a pointer line adds after its pause -/
def isPtrCmd : Cmd → Bool
  | .mouseMove .. => true
  | .mousePress .. => true
  | _ => false

theorem ptrCmds_all (mouse : Option (Nat × Nat)) (x y mask : Nat) :
    ∀ c ∈ (if mouse != some (x, y) then [Cmd.mouseMove (x : Int) (y : Int)] else []) ++ clickCmds mask,
      isPtrCmd c = true := by
  intro c hc
  simp only [List.mem_append, clickCmds, List.mem_filterMap] at hc
  rcases hc with hc | ⟨i, _, hi⟩
  · split at hc
    · simp only [List.mem_cons, List.mem_nil_iff, or_false] at hc
      subst hc; rfl
    · simp at hc
  · split at hi
    · simp only [Option.some.injEq] at hi
      subst hi; rfl
    · simp at hi

theorem replayKeys_skip (up : Bool) (l : List Cmd) (h : ∀ c ∈ l, isPtrCmd c = true) (rest : List Cmd) :
    replayKeys up (l ++ rest) = replayKeys up rest := by
  induction l with
  | nil => rfl
  | cons c cs ih =>
    have hc := h c (by simp)
    have ih' := ih (fun x hx => h x (by simp [hx]))
    cases c <;> first | (simpa [replayKeys] using ih') | (simp [isPtrCmd] at hc)

theorem replayKeys_pause (up : Bool) (d : Word) (rest : List Cmd) :
    replayKeys up (Cmd.pauseArg d :: rest) = replayKeys up rest := by
  simp [replayKeys]

/-- **same keys, same order** for sessions that also contain pointer events -/
theorem C18_session_keys (evs : List (Nat × PEvent)) (hok : sessionOK evs) (up : Bool) (mouse : Option (Nat × Nat))
    (last : Nat) : replayKeys up (recCmds mouse last evs) = some (sessionKeys evs) := by
  induction evs generalizing mouse last with
  | nil => rfl
  | cons e rest ih =>
    obtain ⟨now, ev⟩ := e
    have ih' := ih (sessionOK_tail hok)
    cases ev with
    | key k down =>
      have hk := (hok (now, .key k down) (by simp)).2 k down rfl
      have hd := C18_word_decodes k up hk.1 hk.2
      cases down <;> simp [recCmds, replayKeys, hd, ih', sessionKeys, keyDownEvs, keyUpEvs]
    | pointer x y mask =>
      simp only [recCmds, sessionKeys, List.append_assoc, List.cons_append, List.nil_append]
      rw [replayKeys_pause, ← List.append_assoc, replayKeys_skip up _ (ptrCmds_all mouse x y mask), ih']
    | _ => exact (not_input_absurd hok rfl).elim


theorem replayPtr_append (st : PtrSt) (a b : List Cmd) :
    replayPtr st (a ++ b) = ((replayPtr (replayPtr st a).1 b).1, (replayPtr st a).2 ++ (replayPtr (replayPtr st a).1 b).2) := by
  induction a generalizing st with
  | nil => simp [replayPtr]
  | cons c cs ih =>
    cases c <;> simp [replayPtr, ih]

theorem replayPtr_clicks (mask : Nat) (l : List Nat) (st : PtrSt) (hb : st.buttons = 0) :
    replayPtr st (l.filterMap fun i => if mask.testBit i then some (Cmd.mousePress ((i : Int) + 1)) else none) =
      (st, (l.filter fun i => mask.testBit i).flatMap fun i => [(st.x, st.y, 2 ^ i), (st.x, st.y, 0)]) := by
  obtain ⟨sx, sy, sb⟩ := st
  simp only at hb
  subst hb
  induction l with
  | nil => rfl
  | cons i l ih =>
    by_cases h : mask.testBit i
    · have ht : ((i : Int) + 1).toNat = i + 1 := by omega
      simp [h, replayPtr, ptrStep, ht, setBtn_zero, clearBtn_pow, ih]
    · simpa [h] using ih

/-- one recorded pointer event, replayed with no button held: a move if the position is new, then press and release of
    every recorded button at that position; afterwards the pointer is there and no button is held -/
theorem C18_pointer_event_replay (st : PtrSt) (hb : st.buttons = 0) (mouse : Option (Nat × Nat)) (x y mask : Nat) :
    replayPtr st ((if mouse != some (x, y) then [Cmd.mouseMove (x : Int) (y : Int)] else []) ++ clickCmds mask) =
      (let st1 : PtrSt := if mouse != some (x, y) then { st with x := x, y := y } else st
       (st1, (if mouse != some (x, y) then [((x : Int), (y : Int), 0)] else []) ++
          ((List.range 8).filter fun i => mask.testBit i).flatMap fun i => [(st1.x, st1.y, 2 ^ i), (st1.x, st1.y, 0)])) := by
  by_cases hmv : mouse = some (x, y)
  · simp only [hmv, bne_self_eq_false, Bool.false_eq_true, if_false, List.nil_append, clickCmds]
    exact replayPtr_clicks mask _ st hb
  · have hne : (mouse != some (x, y)) = true := by simpa using hmv
    simp only [hne, if_true, List.cons_append, List.nil_append, clickCmds, replayPtr, ptrStep, moveTo]
    rw [replayPtr_clicks mask _ ⟨x, y, st.buttons⟩ hb, hb]

/-- positions of pointer events -/
def evPositions (evs : List PtrEv) : List (Int × Int) := evs.map fun e => (e.1, e.2.1)


theorem dedupAdj_same {α : Type} [DecidableEq α] (p : α) (l tail : List α) (h : ∀ q ∈ l, q = p) :
    dedupAdj (some p) (l ++ tail) = dedupAdj (some p) tail := by
  induction l with
  | nil => rfl
  | cons q l ih =>
    have hq := h q (by simp)
    subst hq
    rw [List.cons_append, dedupAdj, if_pos rfl]
    exact ih (fun x hx => h x (by simp [hx]))

/-- what replaying one recorded pointer event does, in the form used for whole sessions -/
theorem ptr_event_summary (st : PtrSt) (hb : st.buttons = 0) (mouse : Option (Nat × Nat)) (x y mask : Nat)
    (hm : ∀ p, mouse = some p → st.x = (p.1 : Int) ∧ st.y = (p.2 : Int)) :
    ∃ st1 evs1 ps, replayPtr st ((if mouse != some (x, y) then [Cmd.mouseMove (x : Int) (y : Int)] else []) ++
        clickCmds mask) = (st1, evs1) ∧ st1.buttons = 0 ∧ st1.x = (x : Int) ∧ st1.y = (y : Int) ∧
      evPositions evs1 = (if mouse != some (x, y) then [((x : Int), (y : Int))] else []) ++ ps ∧
      ∀ q ∈ ps, q = ((x : Int), (y : Int)) := by
  rw [C18_pointer_event_replay st hb]
  by_cases hmv : mouse = some (x, y)
  · obtain ⟨h1, h2⟩ := hm _ hmv
    simp only [hmv, bne_self_eq_false, Bool.false_eq_true, if_false, List.nil_append]
    refine ⟨_, _, _, rfl, hb, h1, h2, rfl, ?_⟩
    intro q hq
    simp only [evPositions, List.mem_map, List.mem_flatMap] at hq
    obtain ⟨e, ⟨i, _, hi⟩, rfl⟩ := hq
    simp only [List.mem_cons, List.mem_nil_iff, or_false] at hi
    rcases hi with rfl | rfl <;> simp [h1, h2]
  · have hne : (mouse != some (x, y)) = true := by simpa using hmv
    simp only [hne, if_true]
    refine ⟨_, _, evPositions (((List.range 8).filter fun i => mask.testBit i).flatMap fun i =>
      [((x : Int), (y : Int), 2 ^ i), ((x : Int), (y : Int), 0)]), rfl, hb, rfl, rfl, ?_, ?_⟩
    · simp only [evPositions, List.map_append, List.map_cons, List.map_nil]
    · intro q hq
      simp only [evPositions, List.mem_map, List.mem_flatMap] at hq
      obtain ⟨e, ⟨i, _, hi⟩, rfl⟩ := hq
      simp only [List.mem_cons, List.mem_nil_iff, or_false] at hi
      rcases hi with rfl | rfl <;> rfl

theorem replayPtr_pause (st : PtrSt) (d : Word) (rest : List Cmd) :
    replayPtr st (Cmd.pauseArg d :: rest) = replayPtr st rest := by
  simp [replayPtr]

/-- **same pointer positions, same order**: replaying the recorded script from the state the recording started in
    (pointer where the recorder last saw it, no button held) visits exactly the recorded positions in the recorded
    order - a position recorded twice in a row is visited once or more, never skipped, and no other position occurs -/
theorem C18_session_positions (evs : List (Nat × PEvent)) (st : PtrSt) (hb : st.buttons = 0)
    (mouse : Option (Nat × Nat)) (last : Nat)
    (hm : ∀ p, mouse = some p → st.x = (p.1 : Int) ∧ st.y = (p.2 : Int)) :
    dedupAdj (mouse.map fun p => ((p.1 : Int), (p.2 : Int))) (evPositions (replayPtr st (recCmds mouse last evs)).2) =
      dedupAdj (mouse.map fun p => ((p.1 : Int), (p.2 : Int))) (sessionPositions evs) ∧
    (replayPtr st (recCmds mouse last evs)).1.buttons = 0 := by
  induction evs generalizing st mouse last with
  | nil => exact ⟨rfl, hb⟩
  | cons e rest ih =>
    obtain ⟨now, ev⟩ := e
    cases ev with
    | pointer x y mask =>
      obtain ⟨st1, evs1, ps, hrep, hb1, hx1, hy1, hpos, hps⟩ := ptr_event_summary st hb mouse x y mask hm
      have ih' := ih st1 hb1 (some (x, y)) now (by intro p hp; cases hp; exact ⟨hx1, hy1⟩)
      simp only [recCmds, sessionPositions, List.append_assoc, List.cons_append, List.nil_append]
      rw [replayPtr_pause, ← List.append_assoc, replayPtr_append, hrep]
      refine ⟨?_, ih'.2⟩
      have ih1 := ih'.1
      simp only [Option.map_some] at ih1
      simp only [evPositions, List.map_append] at hpos ih1 ⊢
      rw [hpos]
      by_cases hmv : mouse = some (x, y)
      · subst hmv
        simp only [bne_self_eq_false, Bool.false_eq_true, if_false, List.nil_append, Option.map_some]
        rw [dedupAdj_same _ _ _ hps, ih1, dedupAdj, if_pos rfl]
      · have hne : (mouse != some (x, y)) = true := by simpa using hmv
        have hprev : ¬ (mouse.map fun p => ((p.1 : Int), (p.2 : Int))) = some ((x : Int), (y : Int)) := by
          intro h
          cases mouse with
          | none => simp at h
          | some p =>
            obtain ⟨a, b⟩ := p
            simp only [Option.map_some, Option.some.injEq, Prod.mk.injEq] at h
            exact hmv (by rw [Int.ofNat_inj.1 h.1, Int.ofNat_inj.1 h.2])
        simp only [hne, if_true, List.cons_append, List.nil_append]
        rw [dedupAdj, if_neg hprev, dedupAdj_same _ _ _ hps, ih1]
        conv => rhs; rw [dedupAdj, if_neg hprev]
    | key k down =>
      have ih' := ih st hb mouse now hm
      cases down <;> simpa [recCmds, replayPtr, sessionPositions] using ih'
    | _ => simpa [recCmds, sessionPositions] using ih st hb mouse last hm

/-! ## pauses -/

/-- the text of the pause arguments of a command list, in order -/
def pauseArgs : List Cmd → List Word
  | [] => []
  | .pauseArg d :: rest => d :: pauseArgs rest
  | _ :: rest => pauseArgs rest

/-- the gaps of a session: time since the previous recorded event -/
def sessionGaps (last : Nat) : List (Nat × PEvent) → List Nat
  | [] => []
  | (now, ev) :: rest => if isInputEv ev then (now - last) :: sessionGaps now rest else sessionGaps last rest


theorem pauseArgs_skip (l : List Cmd) (h : ∀ c ∈ l, isPtrCmd c = true) (rest : List Cmd) :
    pauseArgs (l ++ rest) = pauseArgs rest := by
  induction l with
  | nil => rfl
  | cons c cs ih =>
    have hc := h c (by simp)
    have ih' := ih (fun x hx => h x (by simp [hx]))
    cases c <;> first | (simpa [pauseArgs] using ih') | (simp [isPtrCmd] at hc)

theorem pauseArgs_pause (d : Word) (rest : List Cmd) : pauseArgs (Cmd.pauseArg d :: rest) = d :: pauseArgs rest := by
  simp [pauseArgs]

/-- **one pause per recorded event, carrying its gap** -/
theorem C18_session_pauses (evs : List (Nat × PEvent)) (mouse : Option (Nat × Nat)) (last : Nat) :
    pauseArgs (recCmds mouse last evs) = (sessionGaps last evs).map fmtTicks := by
  induction evs generalizing mouse last with
  | nil => rfl
  | cons e rest ih =>
    obtain ⟨now, ev⟩ := e
    cases ev with
    | key k down =>
      cases down <;> simp [recCmds, pauseArgs, sessionGaps, isInputEv, ih]
    | pointer x y mask =>
      simp only [recCmds, sessionGaps, isInputEv, if_true, List.append_assoc, List.cons_append, List.nil_append,
        List.map_cons]
      rw [pauseArgs_pause, ← List.append_assoc, pauseArgs_skip _ (ptrCmds_all mouse x y mask), ih]
    | _ => simpa [recCmds, sessionGaps, isInputEv] using ih mouse last

/-- the value of a decimal `"<digits>.<4 digits>"` in ticks of 1/10000 (what `float(text)` denotes, exactly) -/
def decTicks (s : List Char) : Option Nat :=
  match splitOnC '.' s with
  | [a, b] =>
    if b.length = 4 then
      match pyInt a, pyInt b with
      | some x, some y => if 0 ≤ x ∧ 0 ≤ y then some (x.toNat * 10000 + y.toNat) else none
      | _, _ => none
    else none
  | _ => none

/-- **the pause argument denotes exactly the recorded gap** (no rounding: `"%.4f"` of a multiple of 1/10000) -/
theorem C18_pause_value (gap : Nat) : decTicks (fmtTicks gap) = some gap := by
  have hr : gap % 10000 < 10000 := Nat.mod_lt _ (by decide)
  have hsplit : splitOnC '.' (fmtTicks gap) = [(toString (gap / 10000)).toList, pad4 (gap % 10000)] := by
    have : fmtTicks gap = (toString (gap / 10000)).toList ++ '.' :: pad4 (gap % 10000) := by simp [fmtTicks]
    rw [this, splitOnC_append _ _ _ (dot_notin_digits _ (toString_digits _).1),
      splitOnC_notin _ _ (dot_notin_digits _ (pad4_digits _).1)]
  unfold decTicks
  rw [hsplit]
  simp only [pad4_length _ hr, if_true, pyInt_toString, pyInt_pad4]
  simp only [Int.natCast_nonneg, and_self, if_true, Int.toNat_natCast, Option.some.injEq]
  omega

/-! non-vacuity -/
example : sessionOK [(5, .key 65 true), (9, .pointer 3 4 5), (12, .key 0x27 false)] := by
  intro e he
  simp only [List.mem_cons, List.mem_nil_iff, or_false] at he
  rcases he with rfl | rfl | rfl <;> refine ⟨rfl, ?_⟩ <;> intro k d h <;> cases h <;> exact ⟨by decide, fun _ => by decide⟩

end Vnc
