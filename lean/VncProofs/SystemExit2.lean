import VncProofs.SystemExit
/-!
# More about complete runs of the vncdo process (added after the seeded campaigns)

* status 0 means EVERY command was carried out: the script chain is `finished`, no command is left, and a chain that failed
  (a command raised) can never lead to status 0;
* a client that has aborted (the protocol machine is halted) does not interpret any further server data: no callback, no
  screen change, no application reaction - whatever arrives.
-/
namespace Vnc

/-- the chain is `finished` exactly when the script has been marked completed (from a start where neither holds) -/
def ChainOK (a : App) : Prop :=
  (a.completed = true → a.chain = .finished ∧ a.cmds = []) ∧ (∀ cls, a.chain = .failed cls → a.completed = false)


theorem ChainOK_of_false {a : App} (h : a.completed = false) : ChainOK a :=
  ⟨fun h1 => (by rw [h] at h1; cases h1), fun _ _ => h⟩

theorem ChainOK_same {a a' : App} (h : ChainOK a) (h1 : a'.chain = a.chain) (h2 : a'.cmds = a.cmds)
    (h3 : a'.completed = a.completed) : ChainOK a' := by
  unfold ChainOK
  rw [h1, h2, h3]
  exact h

theorem ChainOK.false_of_ne {a : App} (h : ChainOK a) (hn : a.chain ≠ .finished) : a.completed = false := by
  cases hc : a.completed with
  | false => rfl
  | true => exact absurd (h.1 hc).1 hn

theorem expectCompare_chain (a : App) (core : Core) (screen : Option Img) (box : Int × Int × Int × Int) (rms : Word)
    (expected : List Nat) : (expectCompare a core screen box rms expected).1.chain = a.chain := by
  have key : ∀ (m : Bool) (x : App × List Act × Bool),
      x = (if m = true then (a, [], true)
        else ({ a with waiter := some (.expect box rms expected) }, requestAll core screen.isSome, false)) →
      x.1.chain = a.chain := by
    intro m x hx
    cases m
    · simp only [Bool.false_eq_true, if_false] at hx
      subst hx
      rfl
    · simp only [if_true] at hx
      subst hx
      rfl
  exact key _ _ rfl

theorem ptrActs_chain {a a' : App} {op : PtrOp} {w : List Act} (h : ptrActs a op = some (a', w)) :
    a'.chain = a.chain := by
  unfold ptrActs at h
  rcases Option.map_eq_some_iff.1 h with ⟨ws, _, h2⟩
  simp only [Prod.mk.injEq] at h2
  rcases h2 with ⟨rfl, rfl⟩
  rfl

theorem advance_chainOK (core : Core) (screen : Option Img) : ∀ (fuel : Nat) (a : App), a.completed = false →
    ChainOK (advance core screen fuel a).1 := by
  intro fuel
  induction fuel with
  | zero => intro a h0; exact ChainOK_of_false (by simpa [advance] using h0)
  | succ fuel ih =>
    intro a h0
    rw [advance]
    split
    · next hc => exact ⟨fun _ => ⟨rfl, hc⟩, fun cls h => by cases h⟩
    · next c rest hc =>
      have hfr := startCmd_frame { a with cmds := rest } core screen c
      generalize startCmd { a with cmds := rest } core screen c = r at hfr ⊢
      obtain ⟨a1, ws, s⟩ := r
      obtain ⟨h1, h2, h3, h4⟩ := hfr
      dsimp only at h3 ⊢
      cases s <;> dsimp only
      case cont => exact ih _ (by dsimp only; rw [h3, h0])
      all_goals exact ChainOK_of_false (by dsimp only; rw [h3, h0])

theorem resume_chainOK (core : Core) (screen : Option Img) (a : App) (h : a.completed = false) :
    ChainOK (resume core screen a).1 := by
  unfold resume
  exact advance_chainOK _ _ _ _ h

theorem onConnected_chainOK (core : Core) (screen : Option Img) (a : App) (h : ChainOK a) :
    ChainOK (onConnected core screen a).1 := by
  unfold onConnected
  split
  · next hch => exact advance_chainOK _ _ _ _ (h.false_of_ne (by rw [hch]; intro e; cases e))
  · exact h

theorem onCommit_chainOK (core : Core) (screen : Option Img) (a : App) (h : ChainOK a) :
    ChainOK (onCommit core screen a).1 := by
  unfold onCommit
  split
  · exact h
  · next w hw =>
    dsimp only
    split
    · exact ChainOK_same h rfl rfl rfl
    · split
      · exact ChainOK_same h rfl rfl rfl
      · split
        · next hch =>
          exact resume_chainOK _ _ _ (h.false_of_ne (by rw [show a.chain = _ from hch]; intro e; cases e))
        · exact ChainOK_same h rfl rfl rfl
    · next box rms expected =>
      have hf := expectCompare_frame { a with waiter := none } core screen box rms expected
      have hg := expectCompare_chain { a with waiter := none } core screen box rms expected
      generalize expectCompare { a with waiter := none } core screen box rms expected = r at hf hg ⊢
      obtain ⟨a1, ws, m⟩ := r
      obtain ⟨h1, -, h3, -⟩ := hf
      dsimp only at h1 h3 hg ⊢
      split
      · split
        · next hch =>
          exact resume_chainOK _ _ _ (h3.trans
            (h.false_of_ne (by rw [show a.chain = _ from hch]; intro e; cases e)))
        · exact ChainOK_same h hg h1 h3
      · exact ChainOK_same h hg h1 h3

theorem onTimer_chainOK (core : Core) (screen : Option Img) (a : App) (id : Nat) (h : ChainOK a) :
    ChainOK (onTimer core screen a id).1 := by
  unfold onTimer
  dsimp only
  split
  · next hch =>
    have hc : a.completed = false := h.false_of_ne (by rw [show a.chain = _ from hch]; intro e; cases e)
    split
    · exact resume_chainOK _ _ _ hc
    · exact ChainOK_of_false hc
  · next hch =>
    have hc : a.completed = false := h.false_of_ne (by rw [show a.chain = _ from hch]; intro e; cases e)
    split
    · exact ChainOK_of_false hc
    · split
      · split
        · exact ChainOK_of_false hc
        · next a' w hw =>
          have := (ptrActs_frame hw).2.2.1
          exact ChainOK_of_false (this.trans hc)
      · split
        · exact ChainOK_of_false hc
        · next a' w hw =>
          have := (ptrActs_frame hw).2.2.1
          exact resume_chainOK _ _ _ (this.trans hc)
  · exact ChainOK_same h rfl rfl rfl

theorem appReact_chainOK (core : Core) (screen : Option Img) (a : App) (o : Out) (h : ChainOK a) :
    ChainOK (appReact core screen a o).1 := by
  cases o with
  | made => exact onConnected_chainOK core screen a h
  | commit rs => exact onCommit_chainOK core screen a h
  | _ => exact h

theorem reactFold_chainOK (core : Core) (outs : List Out) : ∀ (acc : Canvas × App × List Ev),
    ChainOK acc.2.1 → ChainOK (outs.foldl (reactOne core) acc).2.1 := by
  induction outs with
  | nil => intro acc h; exact h
  | cons o outs ih =>
    intro acc h
    rw [List.foldl_cons]
    apply ih
    simp only [reactOne]
    exact appReact_chainOK _ _ _ _ h

theorem sysStep_chainOK (s : SysSt) (b : Bytes) (h : ChainOK s.app) : ChainOK (sysStep s b).1.app := by
  simp only [sysStep]
  exact reactFold_chainOK _ _ (s.cv, s.app, []) h

theorem sys_drain_chainOK : ∀ (fuel : Nat) (s : SysSt) (buf : Bytes), ChainOK s.app →
    ChainOK (drain sysMachine fuel s buf).s.app := by
  intro fuel
  induction fuel with
  | zero => intro s buf h; exact h
  | succ f ih =>
    intro s buf h
    simp only [drain]
    split
    · exact h
    · dsimp only
      exact ih _ _ (sysStep_chainOK _ _ h)

theorem sys_feed_chainOK (st : St SysSt) (c : Bytes) (h : ChainOK st.s.app) :
    ChainOK (feed sysMachine st c).1.s.app :=
  sys_drain_chainOK _ _ _ h

theorem sysFire_chainOK (st : St SysSt) (h : ChainOK st.s.app) : ChainOK (sysFire st).1.s.app := by
  unfold sysFire
  split
  · exact h
  · next id due _ =>
    dsimp only
    exact onTimer_chainOK _ _ _ _
      (ChainOK_same (a' := { st.s.app with now := max st.s.app.now due }) h rfl rfl rfl)

theorem procStep_chainOK (p : Proc) (i : ProcIn) (h : ChainOK p.st.s.app) : ChainOK (procStep p i).1.st.s.app := by
  cases i with
  | recv c =>
    simp only [procStep]
    split
    · exact sys_feed_chainOK _ _ h
    · exact h
  | fire => exact sysFire_chainOK _ h
  | lost clean =>
    simp only [procStep]
    split <;> exact h
  | timeout => exact h

theorem procRun_chainOK' (p : Proc) (ins : List ProcIn) (h : ChainOK p.st.s.app) :
    ChainOK (procRun p ins).1.st.s.app := by
  induction ins generalizing p with
  | nil => exact h
  | cons i is ih =>
    simp only [procRun]
    exact ih _ (procStep_chainOK p i h)

/-- invariant of every run of the process -/
theorem procRun_chainOK (p : Proc) (ins : List ProcIn) (h0 : p.st.s.app.completed = false) :
    ChainOK (procRun p ins).1.st.s.app :=
  procRun_chainOK' p ins (ChainOK_of_false h0)

/-- **status 0 means every command was carried out** -/
theorem C09_proc_zero_all_commands (p : Proc) (ins : List ProcIn) (h0 : p.st.s.app.completed = false) (hs : p.exit.status ≠ 0)
    (hup : p.up = true) (h : (procRun p ins).1.exit.status = 0) :
    (procRun p ins).1.st.s.app.chain = .finished ∧ (procRun p ins).1.st.s.app.cmds = [] :=
  (procRun_chainOK p ins h0).1 (C09_proc_zero p ins h0 hs hup h).1

/-- **a failed script never reports success** -/
theorem C09_proc_failed_nonzero (p : Proc) (ins : List ProcIn) (h0 : p.st.s.app.completed = false) (hs : p.exit.status ≠ 0)
    (hup : p.up = true) (cls : String) (hf : (procRun p ins).1.st.s.app.chain = .failed cls) :
    (procRun p ins).1.exit.status ≠ 0 := by
  intro h
  have hc := (C09_proc_zero p ins h0 hs hup h).1
  rw [(procRun_chainOK p ins h0).2 cls hf] at hc
  cases hc

theorem drain_halted {σ Out : Type} (m : Machine σ Out) (fuel : Nat) (s : σ) (buf : Bytes) (h : m.halted s = true) :
    drain m fuel s buf = ⟨s, buf, [], true⟩ := by
  have hb : m.blocked s buf = true := by simp [Machine.blocked, h]
  cases fuel with
  | zero => simp [drain, hb]
  | succ f => simp [drain, hb]

/-- **no interpretation of server data after an abort**: once the protocol machine is halted, received data changes
    nothing (state, screen, application) and produces no event - it is only buffered -/
theorem sys_dead_no_progress (st : St SysSt) (h : halted st.s.rfb = true) (chunk : Bytes) :
    (feed sysMachine st chunk).1.s = st.s ∧ (feed sysMachine st chunk).2.1 = [] ∧
    (feed sysMachine st chunk).1.buf = st.buf ++ chunk := by
  have e := drain_halted sysMachine (feedFuel st chunk) st.s (st.buf ++ chunk) h
  simp only [feed, e, and_self]

theorem sys_dead_stays (st : St SysSt) (h : halted st.s.rfb = true) (chunks : List Bytes) :
    (feedAll sysMachine st chunks).1.s = st.s ∧ (feedAll sysMachine st chunks).2.1 = [] := by
  induction chunks generalizing st with
  | nil => exact ⟨rfl, rfl⟩
  | cons c cs ih =>
    obtain ⟨e1, e2, _⟩ := sys_dead_no_progress st h c
    simp only [feedAll]
    obtain ⟨i1, i2⟩ := ih (feed sysMachine st c).1 (by rw [e1]; exact h)
    exact ⟨i1.trans e1, by rw [e2, i2]; rfl⟩

end Vnc
