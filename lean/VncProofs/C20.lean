import VncSpec.Address
import VncProofs.PyStrLemmas
/-!
# C20 — Server addresses parse according to the documented grammar

`parseServer` (the model of `command.parse_server`) accepts exactly the strings of `AddrGrammar` and returns
exactly the result the grammar assigns; everything else is rejected (`none` = `ValueError`).
For all strings and all values of the two outside predicates (IPv6 validity, path existence).
-/
namespace Vnc

/-! ## helper lemmas -/

theorem span_loop_eq {α} (p : α → Bool) : ∀ (l acc : List α),
    List.span.loop p l acc = (acc.reverse ++ l.takeWhile p, l.dropWhile p) := by
  intro l
  induction l with
  | nil => intro acc; simp [List.span.loop]
  | cons a as ih =>
    intro acc
    unfold List.span.loop
    cases h : p a with
    | true => simp [ih, h]
    | false => simp [h]

theorem span_eq {α} (p : α → Bool) (l : List α) : l.span p = (l.takeWhile p, l.dropWhile p) := by
  simp [List.span, span_loop_eq]

theorem span_append_rb (a suf : List Char) (h : ']' ∉ a) :
    (a ++ ']' :: suf).span (· ≠ ']') = (a, ']' :: suf) := by
  rw [span_eq]
  have hp : ∀ x ∈ a, (decide (x ≠ ']')) = true := by
    intro x hx; simp; rintro rfl; exact h hx
  rw [List.takeWhile_append_of_pos hp, List.dropWhile_append_of_pos hp]
  simp 

theorem span_notin_rb (a : List Char) (h : ']' ∉ a) :
    (a.span (· ≠ ']')).2 = [] := by
  rw [span_eq]
  induction a with
  | nil => rfl
  | cons x xs ih =>
    simp at h
    simp [Ne.symm h.1]
    simpa using ih h.2

theorem span_inv_rb (l host srv : List Char) (x : Char) (h : l.span (· ≠ ']') = (host, x :: srv)) :
    x = ']' ∧ ']' ∉ host ∧ l = host ++ ']' :: srv := by
  rw [span_eq] at h
  induction l generalizing host with
  | nil => simp at h
  | cons y ys ih =>
    by_cases hy : y = ']'
    · subst hy
      simp  at h
      obtain ⟨rfl, rfl, rfl⟩ := h
      simp
    · simp [hy] at h
      obtain ⟨rfl, h2⟩ := h
      have := ih (List.takeWhile (fun x => decide (x ≠ ']')) ys) (by simp [h2])
      obtain ⟨h1, h3, h4⟩ := this
      refine ⟨h1, ?_, ?_⟩
      · simp; exact ⟨Ne.symm hy, by simpa using h3⟩
      · simp; simpa using h4

theorem parseServer_plain (env : AddrEnv) (s : List Char) (hs : s.head? ≠ some '[') :
    parseServer env s =
      (portOf (splitOnC ':' s)).map fun p =>
        (famOf env (hostOf ((splitOnC ':' s).headD [])), hostOf ((splitOnC ':' s).headD []), p) := by
  unfold parseServer
  split
  · simp at hs
  · rfl

theorem splitOnC_suffix (h suf : List Char) (p : Int) (hc : ':' ∉ h) (hsuf : AddrSuffix suf p) :
    ∃ t, splitOnC ':' (h ++ suf) = h :: t ∧ portOf (h :: t) = some p := by
  cases hsuf with
  | default => exact ⟨[], by simp [splitOnC_notin _ _ hc], rfl⟩
  | display n N hn hN =>
    refine ⟨[n], by rw [splitOnC_append _ _ _ hc, splitOnC_notin _ _ hn], ?_⟩
    simp [portOf, hN, Int.add_comm]
  | port q P hq hP =>
    refine ⟨[[], q], ?_, ?_⟩
    · rw [splitOnC_append _ _ _ hc]
      have : splitOnC ':' (':' :: q) = [] :: splitOnC ':' q := splitOnC_append ':' [] q (by simp)
      rw [this, splitOnC_notin _ _ hq]
    · simp [portOf, hP]

theorem suffix_of_split (h : List Char) (t : List (List Char)) (s : List Char) (p : Int)
    (hs : splitOnC ':' s = h :: t) (hp : portOf (h :: t) = some p) :
    ':' ∉ h ∧ ∃ suf, s = h ++ suf ∧ AddrSuffix suf p := by
  obtain ⟨h1, h2⟩ := splitOnC_inv ':' s h t hs
  refine ⟨h1, ?_⟩
  rcases h2 with ⟨rfl, rfl⟩ | ⟨rest, rfl, h3⟩
  · simp [portOf] at hp; subst hp; exact ⟨[], by simp, .default⟩
  · subst h3
    cases hr : splitOnC ':' rest with
    | nil => exact absurd hr (splitOnC_ne_nil _ _)
    | cons a t2 =>
      obtain ⟨ha, h4⟩ := splitOnC_inv ':' rest a t2 hr
      rw [hr] at hp
      rcases h4 with ⟨rfl, rfl⟩ | ⟨rest2, rfl, h5⟩
      · simp [portOf] at hp
        obtain ⟨N, hN, rfl⟩ := hp
        refine ⟨':' :: rest, rfl, ?_⟩
        rw [Int.add_comm]
        exact .display rest N ha hN
      · subst h5
        cases hr2 : splitOnC ':' rest2 with
        | nil => exact absurd hr2 (splitOnC_ne_nil _ _)
        | cons b t3 =>
          obtain ⟨hb, h6⟩ := splitOnC_inv ':' rest2 b t3 hr2
          rw [hr2] at hp
          rcases h6 with ⟨rfl, rfl⟩ | ⟨rest3, rfl, h7⟩
          · simp [portOf] at hp
            obtain ⟨rfl, hP⟩ := hp
            exact ⟨':' :: ':' :: rest2, by simp, .port rest2 p hb hP⟩
          · subst h7
            cases hr3 : splitOnC ':' rest3 with
            | nil => exact absurd hr3 (splitOnC_ne_nil _ _)
            | cons d t4 => rw [hr3] at hp; simp [portOf] at hp


/-! ## the property -/

/-- every string of the grammar is accepted with the documented host, port and family -/
theorem C20_accepts (env : AddrEnv) (s : List Char) (r : AddrResult) :
    AddrGrammar env s r → parseServer env s = some r := by
  intro hg
  cases hg with
  | plain h suf p hb hc he hsuf =>
    have hhd : (h ++ suf).head? ≠ some '[' := by
      cases h with
      | nil => simpa using he rfl
      | cons x xs => simpa using hb
    obtain ⟨t, ht, hp⟩ := splitOnC_suffix h suf p hc hsuf
    rw [parseServer_plain env _ hhd, ht, hp]
    simp
  | v6 a suf p ha hv hsuf =>
    obtain ⟨t, ht, hp⟩ := splitOnC_suffix [] suf p (by simp) hsuf
    simp only [List.nil_append] at ht
    show parseServer env ('[' :: (a ++ ']' :: suf)) = _
    unfold parseServer
    simp only [span_append_rb a suf ha, hv, ht, hp]
    simp

/-- nothing else is accepted: an accepted string is in the grammar, with that result -/
theorem C20_sound (env : AddrEnv) (s : List Char) (r : AddrResult) :
    parseServer env s = some r → AddrGrammar env s r := by
  intro hp
  by_cases hb : s.head? = some '['
  · obtain ⟨rest, rfl⟩ : ∃ rest, s = '[' :: rest := by
      cases s with
      | nil => simp at hb
      | cons x xs => simp at hb; exact ⟨xs, by rw [hb]⟩
    unfold parseServer at hp
    simp only at hp
    split at hp
    · simp at hp
    · rename_i host x srv hspan
      obtain ⟨rfl, hh, rfl⟩ := span_inv_rb _ _ _ _ hspan
      split at hp
      · simp at hp
      · rename_i hv
        split at hp
        · simp at hp
        · rename_i hhd
          cases hsp : splitOnC ':' srv with
          | nil => exact absurd hsp (splitOnC_ne_nil _ _)
          | cons a t =>
            rw [hsp] at hp hhd
            simp at hhd
            subst hhd
            simp at hp
            obtain ⟨p, hp1, rfl⟩ := hp
            obtain ⟨_, suf, hs, hsuf⟩ := suffix_of_split [] t srv p hsp hp1
            simp only [List.nil_append] at hs
            subst hs
            simp at hv
            exact .v6 host _ p hh hv hsuf
  · rw [parseServer_plain env s hb] at hp
    cases hsp : splitOnC ':' s with
    | nil => exact absurd hsp (splitOnC_ne_nil _ _)
    | cons a t =>
      rw [hsp] at hp
      simp at hp
      obtain ⟨p, hp1, rfl⟩ := hp
      obtain ⟨hc, suf, rfl, hsuf⟩ := suffix_of_split a t s p hsp hp1
      refine .plain a suf p ?_ hc ?_ hsuf
      · intro h; apply hb; cases a with
        | nil => simp at h
        | cons x xs => simpa using h
      · rintro rfl; simpa using hb

/-- input outside the grammar is rejected with an error instead of a guessed address -/
theorem C20_rejects (env : AddrEnv) (s : List Char) :
    (∀ r, ¬ AddrGrammar env s r) → parseServer env s = none := by
  intro h
  cases hp : parseServer env s with
  | none => rfl
  | some r => exact absurd (C20_sound env s r hp) (h r)

/-- the grammar is unambiguous -/
theorem C20_unique (env : AddrEnv) (s : List Char) (r r' : AddrResult) :
    AddrGrammar env s r → AddrGrammar env s r' → r = r' := by
  intro h h'
  have := C20_accepts env s r h
  have := C20_accepts env s r' h'
  simp_all

/-- the property's own words, as corollaries: `host` means 5900 -/
theorem C20_default_port (env : AddrEnv) (h : List Char) (h0 : h ≠ []) (hb : h.head? ≠ some '[') (hc : ':' ∉ h) :
    parseServer env h = some (famOf env h, h, 5900) := by
  have := C20_accepts env _ _ (AddrGrammar.plain (env := env) h [] 5900 hb hc (fun e => absurd e h0) .default)
  simpa [hostOf, h0] using this

/-- `host:N` means port 5900+N -/
theorem C20_display (env : AddrEnv) (h n : List Char) (N : Int) (h0 : h ≠ []) (hb : h.head? ≠ some '[')
    (hc : ':' ∉ h) (hn : ':' ∉ n) (hN : pyInt n = some N) :
    parseServer env (h ++ ':' :: n) = some (famOf env h, h, 5900 + N) := by
  have := C20_accepts env _ _ (AddrGrammar.plain (env := env) h _ _ hb hc (fun e => absurd e h0) (.display n N hn hN))
  simpa [hostOf, h0] using this

/-- `host::P` means port P -/
theorem C20_port (env : AddrEnv) (h p : List Char) (P : Int) (h0 : h ≠ []) (hb : h.head? ≠ some '[')
    (hc : ':' ∉ h) (hp : ':' ∉ p) (hP : pyInt p = some P) :
    parseServer env (h ++ ':' :: ':' :: p) = some (famOf env h, h, P) := by
  have := C20_accepts env _ _ (AddrGrammar.plain (env := env) h _ _ hb hc (fun e => absurd e h0) (.port p P hp hP))
  simpa [hostOf, h0] using this

/-- an empty host means 127.0.0.1 -/
theorem C20_empty_host (env : AddrEnv) (n : List Char) (N : Int) (hn : ':' ∉ n) (hN : pyInt n = some N) :
    parseServer env (':' :: n) = some (famOf env defaultHost, defaultHost, 5900 + N) := by
  have := C20_accepts env _ _ (AddrGrammar.plain (env := env) [] _ _ (by simp) (by simp) (fun _ => by simp) (.display n N hn hN))
  simpa [hostOf] using this

theorem portOf_long (l : List (List Char)) (h : 4 ≤ l.length) : portOf l = none := by
  match l, h with
  | _ :: _ :: _ :: _ :: _, _ => rfl

/-- more than two colons is rejected -/
theorem C20_three_colons (env : AddrEnv) (a b c d : List Char) (ha : a.head? ≠ some '[')
    (h1 : ':' ∉ a) :
    parseServer env (a ++ ':' :: b ++ ':' :: c ++ ':' :: d) = none := by
  have hhd : (a ++ ':' :: b ++ ':' :: c ++ ':' :: d).head? ≠ some '[' := by
    cases a with
    | nil => simp
    | cons x xs => simpa using ha
  rw [parseServer_plain env _ hhd]
  have hlen := splitOnC_length ':' (a ++ ':' :: b ++ ':' :: c ++ ':' :: d)
  simp only [List.count_append, List.count_cons_self] at hlen
  rw [portOf_long _ (by omega)]
  rfl

/-- an unterminated bracket is rejected -/
theorem C20_unterminated (env : AddrEnv) (a : List Char) (h : ']' ∉ a) :
    parseServer env ('[' :: a) = none := by
  have hs := span_notin_rb a h
  unfold parseServer
  simp only
  split
  · rfl
  · rename_i heq
    rw [heq] at hs
    simp at hs

/-- non-vacuity: concrete members of the grammar -/
def envNone : AddrEnv := { isV6 := fun s => s == "::1".toList, pathExists := fun _ => false }
example : parseServer envNone "10.11.12.13:10".toList = some (.inet, "10.11.12.13".toList, 5910) := by decide
example : parseServer envNone "[::1]::4444".toList = some (.inet6, "::1".toList, 4444) := by decide
example : parseServer envNone "localhost".toList = some (.unspec, "localhost".toList, 5900) := by decide
example : parseServer envNone "a:1:2".toList = none := by decide
example : parseServer envNone "[::1]junk:3".toList = none := by decide

end Vnc
