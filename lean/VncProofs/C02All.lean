import VncSpec.Update
import VncProofs.C02
import VncProofs.C02Hextile
import VncProofs.C02Zrle
/-!
# C02 at full strength: a whole FramebufferUpdate with ANY mix of encodings

`C02_update` (C02.lean) covers updates made of Raw / CopyRect / RRE / CoRRE / pseudo rectangles, `C02_hextile` and
`C02_zrle` one rectangle each.  `C02_update_any` composes them: for every update whose rectangles use any of the
supported encodings, in any order and number, the client consumes exactly the message, emits `begin`, the paint
instructions the RFC assigns to each rectangle in order, `commit` with the updated areas, and then reads the next message.
zlib is a parameter: the inflate results are `inflates rects` (what a conforming inflater returns for the blocks sent).
-/
namespace Vnc
open Vnc.Spec

/-- the protocol object after one rectangle of any encoding: ZRLE consumes one inflate result -/
def coreAfterAny (c : Core) (r : Rct) : AnyBody → Core
  | .plain b => coreAfterRect c r b
  | .hextile _ => coreAfterPlain c r
  | .zrle .. => { coreAfterPlain c r with zq := c.zq.tail }

def coreAfterAnys (c : Core) : List (Rct × AnyBody) → Core
  | [] => c
  | rb :: rest => coreAfterAnys (coreAfterAny c rb.1 rb.2) rest

theorem inflates_cons (rb : Rct × AnyBody) (rest : List (Rct × AnyBody)) :
    inflates (rb :: rest) = inflates [rb] ++ inflates rest := by
  obtain ⟨r, b⟩ := rb
  cases b <;> simp [inflates]

theorem coreAfterAny_zrle_eq (c : Core) (r : Rct) (rows : List (List ZTile)) (comp : Bytes) (zq : List (Option Bytes))
    (hz : c.zq = some (zRowsWire r.w r.h 0 rows) :: zq) :
    coreAfterAny c r (.zrle rows comp) = { coreAfterPlain c r with zq := zq } := by
  simp only [coreAfterAny, hz, List.tail_cons]

/-- one rectangle of any encoding (the three rectangle-level theorems under one statement) -/
theorem C02_rect_any (c : Core) (hbypp : c.pf.bypp ≠ 0) (r : Rct) (body : AnyBody) (hr : r.WF) (hwf : body.WF c.pf r)
    (hk : c.rectangles ≠ 0) (zq : List (Option Bytes)) (hz : c.zq = inflates [(r, body)] ++ zq)
    (rest : Bytes) (o : List Out) (s' : RSt) (b' : Bytes)
    (hcont : Runs rfbMachine (doConnection (coreAfterAny c r body) []).1 rest o s' b') :
    Runs rfbMachine ⟨c, .rectangle⟩ (rectHeader r body.enc ++ body.wire ++ rest)
      (body.paint c.pf r ++ (doConnection (coreAfterAny c r body) []).2 ++ o) s' b' := by
  cases body with
  | plain b => exact C02_rect c r b hr hwf hk rest o s' b' hcont
  | hextile rows => exact C02_hextile c hbypp r rows hr hwf.1 hwf.2 hk rest o s' b' hcont
  | zrle rows comp =>
    obtain ⟨ht, hw, hcl⟩ := hwf
    have hz' : c.zq = some (zRowsWire r.w r.h 0 rows) :: zq := by
      rw [hz]; simp only [inflates, List.cons_append, List.nil_append]
    rw [coreAfterAny_zrle_eq c r rows comp zq hz'] at hcont ⊢
    have h := C02_zrle c hbypp r rows hr ht hw hk comp hcl zq hz' rest o s' b' hcont
    simp only [AnyBody.enc, AnyBody.wire, AnyBody.paint]
    rw [← List.append_assoc (rectHeader r 16)]
    exact h

/-! ### whole updates -/

theorem coreAfterAny_pf (c : Core) (r : Rct) (b : AnyBody) : (coreAfterAny c r b).pf = c.pf := by
  cases b with
  | plain b => exact coreAfterRect_pf c r b
  | hextile _ => rfl
  | zrle _ _ => rfl

theorem coreAfterAny_cfg (c : Core) (r : Rct) (b : AnyBody) : (coreAfterAny c r b).cfg = c.cfg := by
  cases b with
  | plain b => cases b <;> rfl
  | hextile _ => rfl
  | zrle _ _ => rfl

theorem coreAfterAny_rectangles (c : Core) (r : Rct) (b : AnyBody) :
    (coreAfterAny c r b).rectangles = c.rectangles - 1 := by
  cases b with
  | plain b => exact coreAfterRect_rectangles c r b
  | hextile _ => rfl
  | zrle _ _ => rfl

theorem coreAfterAny_rectPos (c : Core) (r : Rct) (b : AnyBody) :
    (coreAfterAny c r b).rectPos = c.rectPos ++ (if b.positional then [(r.x, r.y, r.w, r.h)] else []) := by
  cases b with
  | plain b => exact coreAfterRect_rectPos c r b
  | hextile _ => simp [coreAfterAny, coreAfterPlain, AnyBody.positional]
  | zrle _ _ => simp [coreAfterAny, coreAfterPlain, AnyBody.positional]

theorem coreAfterAny_zq (c : Core) (r : Rct) (b : AnyBody) (zq : List (Option Bytes))
    (hz : c.zq = inflates [(r, b)] ++ zq) : (coreAfterAny c r b).zq = zq := by
  cases b with
  | plain b =>
    have : (coreAfterRect c r b).zq = c.zq := by cases b <;> rfl
    simp only [coreAfterAny, this, hz, inflates, List.nil_append]
  | hextile _ => simp only [coreAfterAny, coreAfterPlain, hz, inflates, List.nil_append]
  | zrle _ _ => simp only [coreAfterAny, hz, inflates, List.cons_append, List.nil_append, List.tail_cons]

theorem coreAfterAnys_rectangles (rects : List (Rct × AnyBody)) : ∀ c : Core,
    (coreAfterAnys c rects).rectangles = c.rectangles - rects.length := by
  induction rects with
  | nil => intro c; rfl
  | cons rb rects ih =>
    intro c
    simp only [coreAfterAnys, ih, coreAfterAny_rectangles, List.length_cons]
    omega

theorem coreAfterAnys_rectPos (rects : List (Rct × AnyBody)) : ∀ c : Core,
    (coreAfterAnys c rects).rectPos = c.rectPos ++ updatedAreasAny rects := by
  induction rects with
  | nil => intro c; simp [coreAfterAnys, updatedAreasAny]
  | cons rb rects ih =>
    intro c
    simp only [coreAfterAnys, ih, coreAfterAny_rectPos]
    cases hp : rb.2.positional <;> simp [updatedAreasAny, hp]

/-- what the decoder emits for a sequence of rectangles (with the `_doConnection` outputs in between) -/
def outAnys (c : Core) : List (Rct × AnyBody) → List Out
  | [] => []
  | rb :: rest => rb.2.paint c.pf rb.1 ++ (doConnection (coreAfterAny c rb.1 rb.2) []).2 ++
      outAnys (coreAfterAny c rb.1 rb.2) rest

theorem runs_anys (rects : List (Rct × AnyBody)) : ∀ (c : Core), c.pf.bypp ≠ 0 → rects.length ≤ c.rectangles →
    (∀ rb ∈ rects, rb.1.WF ∧ rb.2.WF c.pf rb.1) → ∀ (zq : List (Option Bytes)), c.zq = inflates rects ++ zq →
    ∀ (rest : Bytes) (o : List Out) (s' : RSt) (b' : Bytes),
    Runs rfbMachine (doConnection (coreAfterAnys c rects) []).1 rest o s' b' →
    Runs rfbMachine (doConnection c []).1 ((rects.flatMap fun rb => rectHeader rb.1 rb.2.enc ++ rb.2.wire) ++ rest)
      (outAnys c rects ++ o) s' b' := by
  induction rects with
  | nil => intro c _ _ _ _ _ rest o s' b' h; simpa [outAnys, coreAfterAnys] using h
  | cons rb rects ih =>
    intro c hbypp hlen hwf zq hz rest o s' b' h
    have hk : c.rectangles ≠ 0 := by simp only [List.length_cons] at hlen; omega
    have h1 := hwf rb (by simp)
    rw [inflates_cons, List.append_assoc] at hz
    rw [doConnection_rect c hk, List.flatMap_cons, List.append_assoc]
    have := C02_rect_any c hbypp rb.1 rb.2 h1.1 h1.2 hk _ hz _ _ s' b'
      (ih (coreAfterAny c rb.1 rb.2) (by rw [coreAfterAny_pf]; exact hbypp)
        (by rw [coreAfterAny_rectangles]; simp only [List.length_cons] at hlen; omega)
        (fun x hx => by rw [coreAfterAny_pf]; exact hwf x (by simp [hx])) zq
        (coreAfterAny_zq c rb.1 rb.2 _ hz) rest o s' b' h)
    simpa only [outAnys, List.append_assoc] using this

theorem outAnys_eq (rects : List (Rct × AnyBody)) : ∀ (c : Core), rects.length ≤ c.rectangles →
    (doConnection c []).2 ++ outAnys c rects =
      rects.flatMap (fun rb => rb.2.paint c.pf rb.1) ++ (doConnection (coreAfterAnys c rects) []).2 := by
  induction rects with
  | nil => intro c _; simp [outAnys, coreAfterAnys]
  | cons rb rects ih =>
    intro c hlen
    have hk : c.rectangles ≠ 0 := by simp only [List.length_cons] at hlen; omega
    have := ih (coreAfterAny c rb.1 rb.2)
      (by rw [coreAfterAny_rectangles]; simp only [List.length_cons] at hlen; omega)
    rw [coreAfterAny_pf] at this
    rw [doConnection_rect c hk]
    simp only [outAnys, List.nil_append, List.flatMap_cons, List.append_assoc, coreAfterAnys, this]

/-- **a whole FramebufferUpdate, any mix of encodings** -/
theorem C02_update_any (c : Core) (hbypp : c.pf.bypp ≠ 0) (rects : List (Rct × AnyBody)) (hn : rects.length < 65536)
    (hwf : ∀ rb ∈ rects, rb.1.WF ∧ rb.2.WF c.pf rb.1)
    (zq : List (Option Bytes)) (hz : c.zq = inflates rects ++ zq)
    (rest : Bytes) (o : List Out) (s' : RSt) (b' : Bytes)
    (hcont : Runs rfbMachine
      ⟨{ coreAfterAnys { c with rectangles := rects.length, rectPos := [] } rects with rectangles := 0 }, .connection⟩
      rest o s' b') :
    Runs rfbMachine ⟨c, .connection⟩ (wireUpdateAny rects ++ rest) (paintUpdateAny c.pf rects ++ o) s' b' := by
  let c0 : Core := { c with rectangles := rects.length, rectPos := [] }
  have hz0 : (coreAfterAnys c0 rects).rectangles = 0 := by
    rw [coreAfterAnys_rectangles]; simp [c0]
  have hpos : (coreAfterAnys c0 rects).rectPos = updatedAreasAny rects := by
    rw [coreAfterAnys_rectPos]; simp [c0]
  have hdc := doConnection_conn _ hz0
  rw [hpos] at hdc
  have hcont' : Runs rfbMachine (doConnection (coreAfterAnys c0 rects) []).1 rest o s' b' := by
    rw [hdc]; rw [struct_rect0 _ hz0] at hcont; exact hcont
  have h1 := runs_anys rects c0 hbypp (Nat.le_refl _) hwf zq hz rest o s' b' hcont'
  have h2 := runs_update_start c rects.length hn _ _ s' b' h1
  have h3 := outAnys_eq rects c0 (Nat.le_refl _)
  rw [hdc] at h3
  have hout : [Out.begin] ++ (doConnection c0 []).2 ++ (outAnys c0 rects ++ o) = paintUpdateAny c.pf rects ++ o := by
    rw [List.append_assoc, ← List.append_assoc (doConnection c0 []).2, h3]
    simp [paintUpdateAny, c0]
  rw [hout] at h2
  simpa [wireUpdateAny, List.append_assoc] using h2

/-- after the update the inflate queue holds exactly what was not consumed, geometry follows the last DesktopSize, and
    the pixel format is untouched -/
theorem coreAfterAnys_frame (c : Core) (rects : List (Rct × AnyBody)) (zq : List (Option Bytes))
    (hz : c.zq = inflates rects ++ zq) :
    (coreAfterAnys c rects).zq = zq ∧ (coreAfterAnys c rects).pf = c.pf ∧ (coreAfterAnys c rects).cfg = c.cfg := by
  induction rects generalizing c with
  | nil => exact ⟨by simpa [inflates, coreAfterAnys] using hz, rfl, rfl⟩
  | cons rb rects ih =>
    rw [inflates_cons, List.append_assoc] at hz
    have := ih (coreAfterAny c rb.1 rb.2) (coreAfterAny_zq c rb.1 rb.2 _ hz)
    simpa only [coreAfterAnys, coreAfterAny_pf, coreAfterAny_cfg] using this

/-! non-vacuity: a 1x1 update with one rectangle of each family is well formed (RGB32, 4 bytes per pixel) -/
example : ∃ rects : List (Rct × AnyBody), rects.length = 3 ∧
    ∀ rb ∈ rects, rb.1.WF ∧ rb.2.WF Tables.RGB32 rb.1 := by
  refine ⟨[(⟨0, 0, 1, 1⟩, .plain (.raw [1, 2, 3, 4])), (⟨0, 0, 1, 1⟩, .plain (.copyRect 0 0)),
           (⟨0, 0, 0, 0⟩, .plain .desktopSize)], rfl, ?_⟩
  intro rb h
  simp only [List.mem_cons, List.mem_nil_iff, or_false] at h
  rcases h with rfl | rfl | rfl <;> simp [Rct.WF, AnyBody.WF, Body.WF, Tables.RGB32, PF.bypp]

end Vnc
