import VncProofs.Runs
/-!
# The generic theorems of VncProofs/Expect.lean and VncProofs/Runs.lean, relative to an invariant

`Progress m` quantifies over *every* state of the machine, including states no run can reach.  For machines whose
unreachable states violate it (the proxy: `.body t 0`), `ProgressOn m Inv` asks for progress only on the states
satisfying an invariant `Inv` that every handler preserves.  All results of Expect.lean / Runs.lean that needed
`Progress` are re-proved here from `ProgressOn` for states satisfying the invariant.  (`Progress m` is
`ProgressOn m (fun _ => True)`.)
-/
namespace Vnc
variable {σ Out : Type}

structure ProgressOn (m : Machine σ Out) (Inv : σ → Prop) : Prop where
  /-- every handler preserves the invariant -/
  step : ∀ s b, Inv s → Inv (m.step s b).1
  /-- on the invariant, a zero-length expectation is never followed by another one -/
  prog : ∀ s, Inv s → m.halted s = false → m.need s = 0 →
    m.halted (m.step s []).1 = true ∨ 0 < m.need (m.step s []).1

theorem progressOn_of_progress (m : Machine σ Out) (hp : Progress m) : ProgressOn m (fun _ => True) :=
  ⟨fun _ _ _ => trivial, fun s _ hh hz => hp s hh hz⟩

variable {Inv : σ → Prop}

theorem drain_inv (m : Machine σ Out) (hp : ProgressOn m Inv) : ∀ f s buf, Inv s → Inv (drain m f s buf).s := by
  intro f
  induction f with
  | zero => intro s buf h; simpa [drain] using h
  | succ f ih =>
    intro s buf h
    by_cases hb : m.blocked s buf = true
    · simpa [drain, hb] using h
    · simp only [drain, hb, Bool.false_eq_true, ↓reduceIte]
      exact ih _ _ (hp.step _ _ h)

/-- sharper than `drain_enough`: `≤` instead of `<` -/
theorem drain_enough_on (m : Machine σ Out) (hp : ProgressOn m Inv) : ∀ f s buf, Inv s →
    2 * buf.length + (if m.need s = 0 then 1 else 0) ≤ f → (drain m f s buf).ok = true := by
  intro f
  induction f with
  | zero =>
    intro s buf _ h
    have h0 : ¬ (m.need s = 0) := by
      intro h0; simp [h0] at h
    simp only [h0, ↓reduceIte] at h
    have hl : buf.length = 0 := by omega
    simp only [drain, Machine.blocked, hl]
    simp; right; omega
  | succ f ih =>
    intro s buf hi h
    by_cases hb : m.blocked s buf = true
    · simp [drain, hb]
    · have hb' : m.blocked s buf = false := by simpa using hb
      have hh : m.halted s = false ∧ m.need s ≤ buf.length := by
        simp [Machine.blocked] at hb'; exact hb'
      simp only [drain, hb', Bool.false_eq_true, ↓reduceIte]
      by_cases hz : m.need s = 0
      · simp only [hz, List.take_zero, List.drop_zero]
        rcases hp.prog s hi hh.1 hz with hh' | hpos
        · rw [drain_blocked_eq m f _ buf (by simp [Machine.blocked, hh'])]
        · apply ih
          · exact hp.step _ _ hi
          · have : ¬ (m.need (m.step s []).1 = 0) := by omega
            simp [hz] at h
            simp [this]; omega
      · apply ih
        · exact hp.step _ _ hi
        · simp [hz] at h
          simp only [List.length_drop]
          split <;> omega

theorem feed_ok_on (m : Machine σ Out) (hp : ProgressOn m Inv) (st : St σ) (hi : Inv st.s) (c : Bytes) :
    (feed m st c).2.2 = true := by
  simp only [feed, feedFuel]
  apply drain_enough_on m hp _ _ _ hi
  simp only [List.length_append]
  split <;> omega

theorem feed_inv (m : Machine σ Out) (hp : ProgressOn m Inv) (st : St σ) (hi : Inv st.s) (c : Bytes) :
    Inv (feed m st c).1.s := by
  simp only [feed]
  exact drain_inv m hp _ _ _ hi

theorem drainSteps_le_on (m : Machine σ Out) (hp : ProgressOn m Inv) : ∀ f s buf, Inv s →
    drainSteps m f s buf ≤ 2 * buf.length + (if m.need s = 0 then 1 else 0) := by
  intro f
  induction f with
  | zero => intro s buf _; simp [drainSteps]
  | succ f ih =>
    intro s buf hi
    by_cases hb : m.blocked s buf = true
    · simp [drainSteps, hb]
    · have hb' : m.blocked s buf = false := by simpa using hb
      have hh : m.halted s = false ∧ m.need s ≤ buf.length := by
        simp [Machine.blocked] at hb'; exact hb'
      simp only [drainSteps, hb', Bool.false_eq_true, ↓reduceIte]
      by_cases hz : m.need s = 0
      · simp only [hz, List.take_zero, List.drop_zero, ↓reduceIte]
        rcases hp.prog s hi hh.1 hz with hh' | hpos
        · cases f with
          | zero => simp [drainSteps]
          | succ f => simp [drainSteps, Machine.blocked, hh']
        · have := ih (m.step s []).1 buf (hp.step _ _ hi)
          have h0 : ¬ (m.need (m.step s []).1 = 0) := by omega
          simp [h0] at this
          omega
      · have := ih (m.step s (buf.take (m.need s))).1 (buf.drop (m.need s)) (hp.step _ _ hi)
        simp only [List.length_drop] at this
        simp only [hz, ↓reduceIte]
        split at this <;> omega

theorem feed_feed_on (m : Machine σ Out) (hp : ProgressOn m Inv) (st : St σ) (hi : Inv st.s) (a b : Bytes) :
    let r1 := feed m st a
    let r2 := feed m r1.1 b
    feed m st (a ++ b) = (r2.1, r1.2.1 ++ r2.2.1, true) := by
  intro r1 r2
  have h1 : r1.2.2 = true := feed_ok_on m hp st hi a
  have h2 : r2.2.2 = true := feed_ok_on m hp r1.1 (feed_inv m hp st hi a) b
  have h3 : (feed m st (a ++ b)).2.2 = true := feed_ok_on m hp st hi (a ++ b)
  simp only [feed, r1, r2] at h1 h2 h3 ⊢
  have key := drain_append m (feedFuel st a) st.s (st.buf ++ a) b
      (feedFuel ⟨(drain m (feedFuel st a) st.s (st.buf ++ a)).s,
                 (drain m (feedFuel st a) st.s (st.buf ++ a)).buf⟩ b) h1 h2
  simp only [List.append_assoc] at key h3 ⊢
  have hle : feedFuel st (a ++ b) ≤ feedFuel st a +
      feedFuel ⟨(drain m (feedFuel st a) st.s (st.buf ++ a)).s,
                 (drain m (feedFuel st a) st.s (st.buf ++ a)).buf⟩ b := by
    simp only [feedFuel, List.length_append]; omega
  have := drain_mono m _ _ _ h3 _ hle
  rw [this] at key
  rw [key]
  simp [h2]

theorem feed_blocked_on (m : Machine σ Out) (hp : ProgressOn m Inv) (st : St σ) (hi : Inv st.s) (c : Bytes) :
    (feed m st c).1.Blocked m := by
  have := drain_result_blocked m (feedFuel st c) st.s (st.buf ++ c) (feed_ok_on m hp st hi c)
  simpa [St.Blocked, feed] using this

theorem feedAll_flatten_on (m : Machine σ Out) (hp : ProgressOn m Inv) : ∀ (cs : List Bytes) (st : St σ),
    Inv st.s → st.Blocked m → feedAll m st cs = feed m st cs.flatten := by
  intro cs
  induction cs with
  | nil =>
    intro st _ hb
    simp [feedAll, feed_nil m st hb]
  | cons c cs ih =>
    intro st hi hb
    have h1 := feed_blocked_on m hp st hi c
    have hih := ih (feed m st c).1 (feed_inv m hp st hi c) h1
    have hff := feed_feed_on m hp st hi c cs.flatten
    simp only at hff
    simp only [feedAll, List.flatten_cons, hih, hff]
    have ok1 := feed_ok_on m hp st hi c
    have ok2 := feed_ok_on m hp (feed m st c).1 (feed_inv m hp st hi c) cs.flatten
    simp [ok1, ok2]

theorem chunkings_agree_on (m : Machine σ Out) (hp : ProgressOn m Inv) (st : St σ) (hi : Inv st.s)
    (hb : st.Blocked m) (cs ds : List Bytes) (h : cs.flatten = ds.flatten) : feedAll m st cs = feedAll m st ds := by
  rw [feedAll_flatten_on m hp cs st hi hb, feedAll_flatten_on m hp ds st hi hb, h]

theorem runs_feed_buf_on (m : Machine σ Out) (hp : ProgressOn m Inv) {st : St σ} (hi : Inv st.s) {chunk : Bytes}
    {o : List Out} {s' : σ} {b' : Bytes} (h : Runs m st.s (st.buf ++ chunk) o s' b') :
    feed m st chunk = (⟨s', b'⟩, o, true) := by
  obtain ⟨f, hf⟩ := runs_drain m h
  have hok := feed_ok_on m hp st hi chunk
  simp only [feed] at hok ⊢
  have hfok : (drain m f st.s (st.buf ++ chunk)).ok = true := by rw [hf]
  rw [drain_ok_unique m _ f _ _ hok hfok, hf]

theorem runs_feed_on (m : Machine σ Out) (hp : ProgressOn m Inv) {s : σ} (hi : Inv s) {buf : Bytes} {o : List Out}
    {s' : σ} {b' : Bytes} (h : Runs m s buf o s' b') : feed m ⟨s, []⟩ buf = (⟨s', b'⟩, o, true) :=
  runs_feed_buf_on m hp (st := ⟨s, []⟩) hi (by simpa using h)

theorem runsOut_feed_on (m : Machine σ Out) (hp : ProgressOn m Inv) {s : σ} (hi : Inv s) {buf : Bytes}
    {o : List Out} (h : RunsOut m s buf o) : (feed m ⟨s, []⟩ buf).2.1 = o := by
  obtain ⟨s', b', h⟩ := h
  rw [runs_feed_on m hp hi h]

/-- one unfolding of the dispatch loop -/
theorem drain_ok_succ (m : Machine σ Out) (f : Nat) (s : σ) (buf : Bytes) (hb : m.blocked s buf = false) :
    (drain m (f + 1) s buf).ok = (drain m f (m.step s (buf.take (m.need s))).1 (buf.drop (m.need s))).ok := by
  simp only [drain, hb, Bool.false_eq_true, ↓reduceIte]

theorem drainSteps_succ (m : Machine σ Out) (f : Nat) (s : σ) (buf : Bytes) (hb : m.blocked s buf = false) :
    drainSteps m (f + 1) s buf = 1 + drainSteps m f (m.step s (buf.take (m.need s))).1 (buf.drop (m.need s)) := by
  simp only [drainSteps, hb, Bool.false_eq_true, ↓reduceIte]

end Vnc
