import VncSpec.Pointer
import VncSpec.C2S
import VncModel.Pointer
/-!
# C05 — Pointer events always carry the true position and button state

Model: `ptrStep` / `ptrRun` (VncModel/Pointer.lean = client.py mouse operations, integer bit arithmetic on
`self.buttons`, floor division in `mouseDrag`).  Spec: VncSpec/Pointer.lean (position + *set* of held buttons).
-/
namespace Vnc
open Vnc.Spec

/-- the spec's meaning of each operation (events as (x, y, mask)); the drag path is the model's `dragPoints`,
    whose geometry is characterised separately below -/
def specPtrStep (p : Spec.Ptr) : PtrOp → Spec.Ptr × List PtrEv
  | .move x y => ({ p with pos := (x, y) }, [(x, y, Spec.mask p.held)])
  | .down b => let h := Spec.press p.held b; ({ p with held := h }, [(p.pos.1, p.pos.2, Spec.mask h)])
  | .up b => let h := Spec.release p.held b; ({ p with held := h }, [(p.pos.1, p.pos.2, Spec.mask h)])
  | .click b =>
    let h1 := Spec.press p.held b
    let h2 := Spec.release h1 b
    ({ p with held := h2 }, [(p.pos.1, p.pos.2, Spec.mask h1), (p.pos.1, p.pos.2, Spec.mask h2)])
  | .drag x y step =>
    ({ p with pos := (x, y) },
      ((dragPoints p.pos.1 p.pos.2 x y step).map fun q => (q.1, q.2, Spec.mask p.held)) ++ [(x, y, Spec.mask p.held)])

def specPtrRun (p : Spec.Ptr) : List PtrOp → Spec.Ptr × List PtrEv
  | [] => (p, [])
  | op :: ops =>
    let r := specPtrStep p op
    let r' := specPtrRun r.1 ops
    (r'.1, r.2 ++ r'.2)

/-- buttons are 1..8 -/
def PtrOp.Valid : PtrOp → Prop
  | .move _ _ => True
  | .down b => 1 ≤ b ∧ b ≤ 8
  | .up b => 1 ≤ b ∧ b ≤ 8
  | .click b => 1 ≤ b ∧ b ≤ 8
  | .drag _ _ step => 1 ≤ step

/-- the model state represents the abstract state -/
def PtrRel (st : PtrSt) (p : Spec.Ptr) : Prop :=
  p.pos = (st.x, st.y) ∧ st.buttons < 256 ∧ ∀ b, 1 ≤ b → b ≤ 8 → p.held b = st.buttons.testBit (b - 1)

theorem maskUpTo_congr (f g : Nat → Bool) (n : Nat) (h : ∀ b, 1 ≤ b → b ≤ n → f b = g b) :
    maskUpTo f n = maskUpTo g n := by
  induction n with
  | zero => rfl
  | succ n ih =>
    simp only [maskUpTo]
    rw [ih (fun b h1 h2 => h b h1 (by omega)), h (n+1) (by omega) (by omega)]

theorem mask_bits_all : ∀ m, m < 256 → maskUpTo (fun b => m.testBit (b - 1)) 8 = m := by
  decide +kernel

theorem setBtn_testBit (m b i : Nat) :
    (setBtn m b).testBit i = (decide (i = b - 1) || m.testBit i) := by
  simp only [setBtn, Nat.testBit_or, Nat.one_shiftLeft, Nat.testBit_two_pow]
  rw [Bool.or_comm]
  congr 1
  simp [eq_comm]

theorem clearBtn_testBit (m b i : Nat) :
    (clearBtn m b).testBit i = (!decide (i = b - 1) && m.testBit i) := by
  simp only [clearBtn, Nat.testBit_or, Nat.testBit_xor, Nat.one_shiftLeft, Nat.testBit_two_pow]
  by_cases h : b - 1 = i
  · simp [h]
  · have h' : ¬ i = b - 1 := fun e => h e.symm
    simp [h, h']

theorem setBtn_lt (m b : Nat) (hm : m < 256) (hb : b ≤ 8) : setBtn m b < 256 := by
  unfold setBtn
  apply Nat.or_lt_two_pow (n := 8) hm
  rw [Nat.one_shiftLeft]
  exact Nat.pow_lt_pow_right (by omega) (by omega)

theorem clearBtn_lt (m b : Nat) (hm : m < 256) (hb : b ≤ 8) : clearBtn m b < 256 := by
  unfold clearBtn
  have h1 : 1 <<< (b - 1) < 2 ^ 8 := by
    rw [Nat.one_shiftLeft]
    exact Nat.pow_lt_pow_right (by omega) (by omega)
  exact Nat.xor_lt_two_pow (n := 8) (Nat.or_lt_two_pow (n := 8) hm h1) h1


theorem C05_init : PtrRel PtrSt.init Spec.Ptr.init := by
  simp [PtrRel, PtrSt.init, Spec.Ptr.init]

theorem C05_mask_eq (m : Nat) (h : m < 256) (held : Nat → Bool)
    (hh : ∀ b, 1 ≤ b → b ≤ 8 → held b = m.testBit (b - 1)) : Spec.mask held = m := by
  unfold Spec.mask
  rw [maskUpTo_congr held (fun b => m.testBit (b - 1)) 8 hh]
  exact mask_bits_all m h

theorem C05_setBtn_testBit (m b i : Nat) (hb : 1 ≤ b) :
    (setBtn m b).testBit i = (decide (i = b - 1) || m.testBit i) := by
  have _ := hb
  exact setBtn_testBit m b i

theorem C05_clearBtn_testBit (m b i : Nat) (hb : 1 ≤ b) :
    (clearBtn m b).testBit i = (!decide (i = b - 1) && m.testBit i) := by
  have _ := hb
  exact clearBtn_testBit m b i

theorem rel_press (m : Nat) (held : Nat → Bool) (b : Nat) (hb1 : 1 ≤ b)
    (hh : ∀ i, 1 ≤ i → i ≤ 8 → held i = m.testBit (i - 1)) :
    ∀ i, 1 ≤ i → i ≤ 8 → Spec.press held b i = (setBtn m b).testBit (i - 1) := by
  intro i h1 h8
  rw [setBtn_testBit, Spec.press]
  by_cases e : i = b
  · subst e; simp
  · have : ¬ (i - 1 = b - 1) := by omega
    simp [e, this, hh i h1 h8]

theorem rel_release (m : Nat) (held : Nat → Bool) (b : Nat) (hb1 : 1 ≤ b)
    (hh : ∀ i, 1 ≤ i → i ≤ 8 → held i = m.testBit (i - 1)) :
    ∀ i, 1 ≤ i → i ≤ 8 → Spec.release held b i = (clearBtn m b).testBit (i - 1) := by
  intro i h1 h8
  rw [clearBtn_testBit, Spec.release]
  by_cases e : i = b
  · subst e; simp
  · have : ¬ (i - 1 = b - 1) := by omega
    simp [e, this, hh i h1 h8]

theorem C05_step (st : PtrSt) (p : Spec.Ptr) (op : PtrOp) (hr : PtrRel st p) (hv : op.Valid) :
    (ptrStep st op).2 = (specPtrStep p op).2 ∧ PtrRel (ptrStep st op).1 (specPtrStep p op).1 := by
  obtain ⟨hpos, hlt, hh⟩ := hr
  have hmask : Spec.mask p.held = st.buttons := C05_mask_eq _ hlt _ hh
  have hp1 : p.pos.1 = st.x := by rw [hpos]
  have hp2 : p.pos.2 = st.y := by rw [hpos]
  cases op with
  | move x y =>
    simp only [ptrStep, moveTo, specPtrStep, hmask]
    exact ⟨trivial, rfl, hlt, hh⟩
  | down b =>
    obtain ⟨hb1, hb8⟩ := hv
    have hr' := rel_press st.buttons p.held b hb1 hh
    have hlt' := setBtn_lt st.buttons b hlt hb8
    simp only [ptrStep, specPtrStep, hp1, hp2, C05_mask_eq _ hlt' _ hr']
    exact ⟨trivial, hpos, hlt', hr'⟩
  | up b =>
    obtain ⟨hb1, hb8⟩ := hv
    have hr' := rel_release st.buttons p.held b hb1 hh
    have hlt' := clearBtn_lt st.buttons b hlt hb8
    simp only [ptrStep, specPtrStep, hp1, hp2, C05_mask_eq _ hlt' _ hr']
    exact ⟨trivial, hpos, hlt', hr'⟩
  | click b =>
    obtain ⟨hb1, hb8⟩ := hv
    have hr1 := rel_press st.buttons p.held b hb1 hh
    have hlt1 := setBtn_lt st.buttons b hlt hb8
    have hr2 := rel_release (setBtn st.buttons b) (Spec.press p.held b) b hb1 hr1
    have hlt2 := clearBtn_lt (setBtn st.buttons b) b hlt1 hb8
    simp only [ptrStep, specPtrStep, hp1, hp2, C05_mask_eq _ hlt1 _ hr1, C05_mask_eq _ hlt2 _ hr2]
    exact ⟨trivial, hpos, hlt2, hr2⟩
  | drag x y step =>
    simp only [ptrStep, specPtrStep, hp1, hp2, hmask]
    exact ⟨trivial, rfl, hlt, hh⟩

theorem C05_invariant (ops : List PtrOp) (st : PtrSt) (p : Spec.Ptr) (hr : PtrRel st p) (hv : ∀ op ∈ ops, op.Valid) :
    (ptrRun st ops).2 = (specPtrRun p ops).2 ∧ PtrRel (ptrRun st ops).1 (specPtrRun p ops).1 := by
  induction ops generalizing st p with
  | nil => exact ⟨rfl, hr⟩
  | cons op ops ih =>
    have hs := C05_step st p op hr (hv op (by simp))
    have hi := ih (ptrStep st op).1 (specPtrStep p op).1 hs.2 (fun o ho => hv o (by simp [ho]))
    simp only [ptrRun, specPtrRun]
    exact ⟨by rw [hs.1, hi.1], hi.2⟩

theorem C05_click (st : PtrSt) (b : Nat) :
    (ptrStep st (.click b)).2 = [(st.x, st.y, setBtn st.buttons b), (st.x, st.y, clearBtn (setBtn st.buttons b) b)] := rfl

theorem dragPoints_self (x y : Int) (step : Nat) : dragPoints x y x y step = [] := by
  simp [dragPoints, pyRange]
  omega

theorem C05_drag_zero (st : PtrSt) (step : Nat) :
    (ptrStep st (.drag st.x st.y step)).2 = [(st.x, st.y, st.buttons)] := by
  simp [ptrStep, dragPoints_self]

theorem C05_drag_last (st : PtrSt) (x y : Int) (step : Nat) :
    (ptrStep st (.drag x y step)).2.getLast? = some (x, y, st.buttons) ∧
    (ptrStep st (.drag x y step)).1 = { st with x := x, y := y } := by
  simp [ptrStep]

theorem C05_drag_mask (st : PtrSt) (x y : Int) (step : Nat) :
    ∀ e ∈ (ptrStep st (.drag x y step)).2, e.2.2 = st.buttons := by
  intro e he
  simp only [ptrStep, List.mem_append, List.mem_map, List.mem_singleton] at he
  rcases he with ⟨q, _, rfl⟩ | rfl <;> rfl

theorem C05_drag_points (ox oy x y : Int) (step : Nat) (hs : 1 ≤ step) :
    dragPoints ox oy x y step =
      (pyRange (max (x - ox).natAbs (y - oy).natAbs) step).map fun (s : Nat) =>
        (ox + (x - ox) * (s : Int) / ((max (x - ox).natAbs (y - oy).natAbs : Nat) : Int),
         oy + (y - oy) * (s : Int) / ((max (x - ox).natAbs (y - oy).natAbs : Nat) : Int)) := by
  have _ := hs
  rfl

theorem ediv_bounds (a : Int) (d : Int) (hd : 0 < d) : d * (a / d) ≤ a ∧ a < d * (a / d) + d := by
  have h1 := Int.mul_ediv_add_emod a d
  have h2 := Int.emod_nonneg a (Int.ne_of_gt hd)
  have h3 := Int.emod_lt_of_pos a hd
  omega

theorem C05_drag_on_segment (o d : Int) (s dmax : Nat) (hd : 0 < dmax) :
    (dmax : Int) * ((o + d * (s : Int) / (dmax : Int)) - o) ≤ d * s ∧
    d * s < (dmax : Int) * ((o + d * (s : Int) / (dmax : Int)) - o) + dmax := by
  have hd' : (0 : Int) < dmax := by exact_mod_cast hd
  have := ediv_bounds (d * s) dmax hd'
  have e : o + d * (s : Int) / (dmax : Int) - o = d * (s : Int) / (dmax : Int) := by omega
  rw [e]; exact this

theorem C05_drag_monotone (o t : Int) (s s' dmax : Nat) (hss : s ≤ s') (hd : 0 < dmax) :
    (o ≤ t → o + (t - o) * (s : Int) / (dmax : Int) ≤ o + (t - o) * (s' : Int) / (dmax : Int)) ∧
    (t ≤ o → o + (t - o) * (s' : Int) / (dmax : Int) ≤ o + (t - o) * (s : Int) / (dmax : Int)) := by
  have hd' : (0 : Int) < dmax := by exact_mod_cast hd
  have hss' : (s : Int) ≤ s' := by exact_mod_cast hss
  constructor
  · intro h
    have : (t - o) * (s : Int) ≤ (t - o) * (s' : Int) := Int.mul_le_mul_of_nonneg_left hss' (by omega)
    have := Int.ediv_le_ediv hd' this
    omega
  · intro h
    have : (t - o) * (s' : Int) ≤ (t - o) * (s : Int) := Int.mul_le_mul_of_nonpos_left (by omega) hss'
    have := Int.ediv_le_ediv hd' this
    omega

theorem C05_drag_in_box (o t : Int) (s dmax : Nat) (hs : s < dmax) (hd : (t - o).natAbs ≤ dmax) :
    min o t ≤ o + (t - o) * (s : Int) / (dmax : Int) ∧ o + (t - o) * (s : Int) / (dmax : Int) ≤ max o t := by
  have _ := hd
  have hd' : (0 : Int) < dmax := by omega
  have hs' : (s : Int) ≤ dmax := by omega
  have hs0 : (0 : Int) ≤ s := by omega
  by_cases h : o ≤ t
  · have h1 : 0 ≤ (t - o) * (s : Int) := Int.mul_nonneg (by omega) hs0
    have h2 : (t - o) * (s : Int) ≤ (t - o) * (dmax : Int) := Int.mul_le_mul_of_nonneg_left hs' (by omega)
    have h3 := Int.ediv_nonneg h1 (Int.le_of_lt hd')
    have h4 := Int.ediv_le_ediv hd' h2
    rw [Int.mul_ediv_cancel _ (Int.ne_of_gt hd')] at h4
    omega
  · have h1 : (t - o) * (s : Int) ≤ 0 := Int.mul_nonpos_of_nonpos_of_nonneg (by omega) hs0
    have h2 : (t - o) * (dmax : Int) ≤ (t - o) * (s : Int) := Int.mul_le_mul_of_nonpos_left (by omega) hs'
    have h3 := Int.ediv_le_ediv hd' h1
    have h4 := Int.ediv_le_ediv hd' h2
    rw [Int.mul_ediv_cancel _ (Int.ne_of_gt hd')] at h4
    simp at h3
    omega

theorem C05_in_range (o t : Int) (s dmax : Nat) (hs : s < dmax) (hd : (t - o).natAbs ≤ dmax)
    (ho : 0 ≤ o ∧ o < 65536) (ht : 0 ≤ t ∧ t < 65536) :
    0 ≤ o + (t - o) * (s : Int) / (dmax : Int) ∧ o + (t - o) * (s : Int) / (dmax : Int) < 65536 := by
  have := C05_drag_in_box o t s dmax hs hd
  omega

theorem C05_range (dmax step : Nat) (hs : 1 ≤ step) :
    (∀ s ∈ pyRange dmax step, s < dmax ∧ step ∣ s) ∧ (pyRange dmax step).Pairwise (· < ·) ∧
    (0 < dmax → (pyRange dmax step).head? = some 0) := by
  refine ⟨?_, ?_, ?_⟩
  · intro s hsm
    simp only [pyRange, List.mem_map, List.mem_range] at hsm
    obtain ⟨k, hk, rfl⟩ := hsm
    refine ⟨?_, Nat.dvd_mul_left _ _⟩
    have h1 : (k + 1) * step ≤ (dmax + step - 1) / step * step := Nat.mul_le_mul_right _ hk
    have h2 := Nat.div_mul_le_self (dmax + step - 1) step
    rw [Nat.add_mul] at h1
    omega
  · simp only [pyRange, List.pairwise_map]
    refine List.Pairwise.imp ?_ List.pairwise_lt_range
    intro a b hab
    exact Nat.mul_lt_mul_of_pos_right hab (by omega)
  · intro h0
    have : 0 < (dmax + step - 1) / step := Nat.div_pos (by omega) (by omega)
    obtain ⟨n, hn⟩ : ∃ n, (dmax + step - 1) / step = n + 1 := ⟨_, (Nat.succ_pred_eq_of_pos this).symm⟩
    simp [pyRange, hn, List.range_succ_eq_map]

theorem C05_wire (x y m : Nat) (rest : Bytes) (hx : x < 65536) (hy : y < 65536) (hm : m < 256) :
    ptrEvBytes ((x : Int), (y : Int), m) = some (Spec.pointerEventBytes x y m) ∧
    parseOne (Spec.pointerEventBytes x y m ++ rest) = some (.pointerEvent m x y, rest) := by
  constructor
  · have h1 : ((m : Nat) : Int) < 256 := by omega
    have h2 : ((x : Nat) : Int) < 65536 := by omega
    have h3 : ((y : Nat) : Int) < 65536 := by omega
    simp [ptrEvBytes, wPointerEvent, packB, packH, Spec.pointerEventBytes, enc8, h1, h2, h3]
  · simp only [Spec.pointerEventBytes, enc16, List.cons_append, List.nil_append, parseOne]
    simp only [be16, byteOf_toNat]
    congr 3 <;> omega


/-- non-vacuity / examples -/
example : (ptrRun PtrSt.init [.move 10 20, .down 1, .down 3, .up 1, .click 2]).2 =
    [(10, 20, 0), (10, 20, 1), (10, 20, 5), (10, 20, 4), (10, 20, 6), (10, 20, 4)] := by decide
example : dragPoints 0 0 4 (-2) 1 = [(0, 0), (1, -1), (2, -1), (3, -2)] := by decide
example : dragPoints 5 5 5 5 1 = [] := by decide
example : pyRange 10 3 = [0, 3, 6, 9] := by decide

end Vnc
