import VncProofs.C19Sys
import VncProofs.C05
import VncSpec.PtrOrder
/-!
# C05 on every run of the whole client

`C05_invariant` is about histories of pointer operations on the client object.  The command-line client performs them from
inside the callback chain, a drag spread over many timer callbacks, other commands and server data in between.  Here, for
EVERY run of the whole client (`sysRun`), the PointerEvent messages that actually reach the wire are read back from the
write history and shown to be *consistent*: each event either keeps the button mask of its predecessor (a move - or no
change at all), or stays at the predecessor's position and changes exactly one button bit.  So the button state never changes
as a side effect of a move, a position never changes as a side effect of a press or release, and what the server last saw
is always what the client remembers - whatever happened in between.
-/
namespace Vnc

/-- a PointerEvent message (RFC 6143 7.5.5): type 5, button mask, x, y - six bytes.  No other client message is six
    bytes long, so this picks exactly the pointer events out of the writes. -/
def ptrOfWrite : Bytes → Option (Nat × Nat × Nat)
  | [5, m, x1, x0, y1, y0] => some (x1.toNat * 256 + x0.toNat, y1.toNat * 256 + y0.toNat, m.toNat)
  | _ => none

def histPtrEvents (l : List Act) : List (Nat × Nat × Nat) := (actWrites l).filterMap ptrOfWrite


/-! ## reading the wire back -/

theorem ptrOfWrite_ne (h : UInt8) (r : Bytes) (hh : h ≠ 5) : ptrOfWrite (h :: r) = none := by
  unfold ptrOfWrite
  split
  · rename_i heq
    simp at heq
    exact absurd heq.1 hh
  · rfl

theorem ptrOfWrite_len (b : Bytes) (hh : b.length ≠ 6) : ptrOfWrite b = none := by
  unfold ptrOfWrite
  split
  · simp at hh
  · rfl

theorem c05_be16 (n : Nat) (h : n < 65536) : (byteOf (n / 256)).toNat * 256 + (byteOf n).toNat = n := by
  rw [byteOf_toNat, byteOf_toNat]; omega

/-- a pointer event that IS written is in range, and reads back as itself -/
theorem ptrEv_read (e : PtrEv) (b : Bytes) (h : ptrEvBytes e = some b) :
    ptrOfWrite b = some (e.1.toNat, e.2.1.toNat, e.2.2) ∧
    (0 ≤ e.1 ∧ e.1 < 65536) ∧ (0 ≤ e.2.1 ∧ e.2.1 < 65536) ∧ e.2.2 < 256 := by
  obtain ⟨x, y, m⟩ := e
  simp only [ptrEvBytes] at h
  rw [wPointerEvent_unf] at h
  cases hm : packB (m : Int) with
  | none => rw [hm] at h; cases h
  | some m' =>
  cases hx : packH x with
  | none => rw [hm, hx] at h; cases h
  | some x' =>
  cases hy : packH y with
  | none => rw [hm, hx, hy] at h; cases h
  | some y' =>
    rw [hm, hx, hy] at h
    simp only [Option.bind_some] at h
    obtain rfl := Option.some.inj h
    obtain ⟨m0, m1, rfl⟩ := c19_packB_rng _ _ hm
    obtain ⟨x0, x1, rfl⟩ := packH_some _ _ hx
    obtain ⟨y0, y1, rfl⟩ := packH_some _ _ hy
    have m2 : m < 256 := by omega
    refine ⟨?_, ⟨x0, x1⟩, ⟨y0, y1⟩, m2⟩
    show ptrOfWrite ([5] ++ enc8 (m : Int).toNat ++ enc16 x.toNat ++ enc16 y.toNat) = some (x.toNat, y.toNat, m)
    have e1 := c05_be16 x.toNat (by omega)
    have e2 := c05_be16 y.toNat (by omega)
    have e3 : (byteOf (m : Int).toNat).toNat = m := by
      rw [byteOf_toNat, Int.toNat_natCast]; omega
    show some (_, _, _) = _
    rw [e1, e2, e3]

/-! ## event lists -/

/-- the last point of `p :: l` -/
def lastPt (p : Nat × Nat × Nat) : List (Nat × Nat × Nat) → Nat × Nat × Nat
  | [] => p
  | q :: r => lastPt q r

theorem consistentFrom_append (l1 l2 : List (Nat × Nat × Nat)) : ∀ p,
    consistentFrom p (l1 ++ l2) = (consistentFrom p l1 && consistentFrom (lastPt p l1) l2) := by
  induction l1 with
  | nil => intro p; simp [consistentFrom, lastPt]
  | cons q r ih => intro p; simp [consistentFrom, lastPt, ih, Bool.and_assoc]

theorem lastPt_append (l1 l2 : List (Nat × Nat × Nat)) : ∀ p, lastPt p (l1 ++ l2) = lastPt (lastPt p l1) l2 := by
  induction l1 with
  | nil => intro p; rfl
  | cons q r ih => intro p; simp [lastPt, ih]

theorem lastPt_getLast (l : List (Nat × Nat × Nat)) : ∀ p e, l.getLast? = some e → lastPt p l = e := by
  induction l with
  | nil => intro p e h; simp at h
  | cons q r ih =>
    intro p e h
    cases r with
    | nil => simp at h; simpa [lastPt] using h
    | cons q' r' =>
      rw [List.getLast?_cons_cons] at h
      exact ih q e h

theorem histPtrEvents_append (a b : List Act) : histPtrEvents (a ++ b) = histPtrEvents a ++ histPtrEvents b := by
  have : ∀ a b : List Act, actWrites (a ++ b) = actWrites a ++ actWrites b := by
    intro a b
    induction a with
    | nil => rfl
    | cons x a ih => cases x <;> simp [actWrites, ih]
  simp [histPtrEvents, this]

theorem histPtrEvents_nil : histPtrEvents [] = [] := rfl
theorem histPtrEvents_start (i : Nat) (l : List Act) : histPtrEvents (Act.start i :: l) = histPtrEvents l := rfl
theorem histPtrEvents_finish (i : Nat) (l : List Act) : histPtrEvents (Act.finish i :: l) = histPtrEvents l := rfl
theorem histPtrEvents_close (l : List Act) : histPtrEvents (Act.close :: l) = histPtrEvents l := rfl
theorem histPtrEvents_failed (c : String) (l : List Act) : histPtrEvents (Act.chainFailed c :: l) = histPtrEvents l := rfl
theorem histPtrEvents_save (f : Word) (w h : Nat) (px : List RGB) (l : List Act) :
    histPtrEvents (Act.save f w h px :: l) = histPtrEvents l := rfl
theorem histPtrEvents_write (b : Bytes) (l : List Act) :
    histPtrEvents (Act.write b :: l) = (ptrOfWrite b).toList ++ histPtrEvents l := by
  simp only [histPtrEvents, actWrites, List.filterMap_cons]
  cases ptrOfWrite b <;> rfl

/-- writes none of which is a pointer event -/
theorem histPtrEvents_map_none (ws : List Bytes) (h : ∀ b ∈ ws, ptrOfWrite b = none) :
    histPtrEvents (ws.map Act.write) = [] := by
  induction ws with
  | nil => rfl
  | cons b ws ih =>
    rw [List.map_cons, histPtrEvents_write, h b (by simp), ih (fun x hx => h x (by simp [hx]))]
    rfl

theorem keyActs_noptr {a : App} {op : KeyOp} {k : Word} {w : List Act} (h : keyActs a op k = some w) :
    histPtrEvents w = [] := by
  unfold keyActs at h
  rcases Option.map_eq_some_iff.1 h with ⟨ws, hws, rfl⟩
  apply histPtrEvents_map_none
  intro b hb
  rw [keyOpWrites_unf] at hws
  cases hd : decodeKey a.env.forceCaps (a.env.isUpper k) k with
  | none => rw [hd] at hws; cases hws
  | some ks =>
    rw [hd, Option.bind_some] at hws
    obtain ⟨e, _, he⟩ := c19_mapM_mem _ _ _ hws b hb
    exact ptrOfWrite_len b (by rw [C19_sizes.2.2.1 _ _ _ he]; decide)

theorem requestAll_noptr (core : Core) (inc : Bool) : histPtrEvents (requestAll core inc) = [] := by
  rw [requestAll_fun]
  dsimp only
  cases h : wUpdateRequest inc 0 0 core.width core.height with
  | none => rfl
  | some b =>
    show histPtrEvents [Act.write b] = []
    rw [histPtrEvents_write, ptrOfWrite_len b (by rw [C19_sizes.2.1 _ _ _ _ _ _ h]; decide)]
    rfl

theorem paste_noptr (t : List Char) (b : Bytes) (h : wClientCutText t = some b) : histPtrEvents [Act.write b] = [] := by
  rw [wClientCutText_unf] at h
  cases hl : latin1 t with
  | none => rw [hl] at h; cases h
  | some d =>
    rw [hl, Option.bind_some] at h
    cases hn : packI d.length with
    | none => rw [hn] at h; cases h
    | some n =>
      rw [hn, Option.bind_some] at h
      obtain rfl := Option.some.inj h
      rw [histPtrEvents_write]
      show (ptrOfWrite (6 :: _)).toList ++ _ = []
      rw [ptrOfWrite_ne _ _ (by decide)]
      rfl

/-! ## one button bit at a time -/

/-- the mask `q` may follow the mask `m` at an unchanged position -/
def mfollows (m q : Nat) : Bool := (q == m) || (List.range 8).any fun b => q == m ^^^ (1 <<< b)

theorem set_follows_small : ∀ m, m < 256 → ∀ i, i < 8 → mfollows m (setBtn m (i + 1)) = true := by
  decide +kernel
theorem clear_follows_small : ∀ m, m < 256 → ∀ i, i < 8 → mfollows m (clearBtn m (i + 1)) = true := by
  decide +kernel

/-- a press whose mask still fits the wire changes at most one bit -/
theorem setBtn_follows (m b : Nat) (hm : m < 256) (h : setBtn m b < 256) : mfollows m (setBtn m b) = true := by
  by_cases hb : b - 1 < 8
  · by_cases h0 : b = 0
    · subst h0; exact set_follows_small m hm 0 (by omega)
    · have := set_follows_small m hm (b - 1) hb
      rwa [show b - 1 + 1 = b by omega] at this
  · exfalso
    have h1 : 1 <<< (b - 1) ≤ setBtn m b := Nat.right_le_or
    rw [Nat.one_shiftLeft] at h1
    have h2 : 2 ^ 8 ≤ 2 ^ (b - 1) := Nat.pow_le_pow_right (by omega) (by omega)
    omega

/-- a release changes at most one bit -/
theorem clearBtn_follows (m b : Nat) (hm : m < 256) : mfollows m (clearBtn m b) = true := by
  by_cases hb : b - 1 < 8
  · by_cases h0 : b = 0
    · subst h0; exact clear_follows_small m hm 0 (by omega)
    · have := clear_follows_small m hm (b - 1) hb
      rwa [show b - 1 + 1 = b by omega] at this
  · have : clearBtn m b = m := by
      apply Nat.eq_of_testBit_eq
      intro i
      rw [clearBtn_testBit]
      by_cases hi : i = b - 1
      · subst hi
        have h2 : 2 ^ 8 ≤ 2 ^ (b - 1) := Nat.pow_le_pow_right (by omega) (by omega)
        rw [Nat.testBit_lt_two_pow (by omega)]
        simp
      · simp [hi]
    rw [this]
    simp [mfollows]

theorem ptrFollows_move (x y m x' y' : Nat) : ptrFollows (x, y, m) (x', y', m) = true := by
  simp [ptrFollows]

theorem ptrFollows_mask (x y m q : Nat) (h : mfollows m q = true) : ptrFollows (x, y, m) (x, y, q) = true := by
  simpa [ptrFollows, mfollows] using h

/-! ## the invariant: the client remembers the last event on the wire - or the script has failed for good -/

def PtrOK (s : PtrSt) : Prop := (0 ≤ s.x ∧ s.x < 65536) ∧ (0 ≤ s.y ∧ s.y < 65536) ∧ s.buttons < 256

def cur (s : PtrSt) : Nat × Nat × Nat := (s.x.toNat, s.y.toNat, s.buttons)

/-- `p` is the reference point (the last event written, or the initial memory) -/
def Inv (p : Nat × Nat × Nat) (a : App) : Prop := (∃ cls, a.chain = .failed cls) ∨ (PtrOK a.ptr ∧ cur a.ptr = p)

/-- a stretch of history `l` starting at reference point `p` and ending in application state `a'` -/
def Seg (p : Nat × Nat × Nat) (l : List Act) (a' : App) : Prop :=
  consistentFrom p (histPtrEvents l) = true ∧ Inv (lastPt p (histPtrEvents l)) a'

/-- pointer-state level: the writes `w` lead from `s` to `s'` -/
def PSeg (s : PtrSt) (w : List Act) (s' : PtrSt) : Prop :=
  PtrOK s' ∧ consistentFrom (cur s) (histPtrEvents w) = true ∧ lastPt (cur s) (histPtrEvents w) = cur s'

theorem Inv_frame {p : Nat × Nat × Nat} {a a' : App} (hc : a'.chain = a.chain) (hp : a'.ptr = a.ptr) (h : Inv p a) :
    Inv p a' := by
  unfold Inv at *
  rw [hc, hp]
  exact h

theorem Seg_noptr {p : Nat × Nat × Nat} {l : List Act} {a' : App} (h : histPtrEvents l = []) (hi : Inv p a') :
    Seg p l a' := by
  unfold Seg
  rw [h]
  exact ⟨rfl, hi⟩

theorem Seg_append {p : Nat × Nat × Nat} {l1 l2 : List Act} {a' : App}
    (h1 : consistentFrom p (histPtrEvents l1) = true) (h2 : Seg (lastPt p (histPtrEvents l1)) l2 a') :
    Seg p (l1 ++ l2) a' := by
  unfold Seg at *
  rw [histPtrEvents_append, consistentFrom_append, lastPt_append, h1, h2.1]
  exact ⟨rfl, h2.2⟩

theorem Seg_trans {p : Nat × Nat × Nat} {l1 l2 : List Act} {a1 a2 : App} (h1 : Seg p l1 a1)
    (h2 : ∀ q, Inv q a1 → Seg q l2 a2) : Seg p (l1 ++ l2) a2 :=
  Seg_append h1.1 (h2 _ h1.2)

theorem Seg_pre {p : Nat × Nat × Nat} {l1 l2 : List Act} {a' : App} (h : histPtrEvents l1 = [])
    (h2 : Seg p l2 a') : Seg p (l1 ++ l2) a' := by
  apply Seg_append
  · rw [h]; rfl
  · rw [h]; exact h2

theorem Seg_of_PSeg {s s' : PtrSt} {w : List Act} {a' : App} (h : PSeg s w s') (hp : a'.ptr = s') :
    Seg (cur s) w a' := by
  refine ⟨h.2.1, Or.inr ?_⟩
  rw [hp]
  exact ⟨h.1, h.2.2.symm⟩

/-! ## the pointer operations of the script -/

theorem c05_mapM_one {α β : Type} (f : α → Option β) (e : α) (ws : List β) (h : [e].mapM f = some ws) :
    ∃ b, f e = some b ∧ ws = [b] := by
  rw [List.mapM_cons, List.mapM_nil] at h
  cases hf : f e with
  | none => simp [hf] at h
  | some b => simp [hf] at h; exact ⟨b, rfl, h.symm⟩

theorem c05_mapM_two {α β : Type} (f : α → Option β) (e e' : α) (ws : List β) (h : [e, e'].mapM f = some ws) :
    ∃ b b', f e = some b ∧ f e' = some b' ∧ ws = [b, b'] := by
  rw [List.mapM_cons, List.mapM_cons, List.mapM_nil] at h
  cases hf : f e with
  | none => simp [hf] at h
  | some b =>
    cases hf' : f e' with
    | none => simp [hf, hf'] at h
    | some b' => simp [hf, hf'] at h; exact ⟨b, b', rfl, rfl, h.symm⟩

theorem ptrActs_unf {a a' : App} {op : PtrOp} {w : List Act} (h : ptrActs a op = some (a', w)) :
    a' = { a with ptr := (ptrStep a.ptr op).1 } ∧
    ∃ ws, (ptrStep a.ptr op).2.mapM ptrEvBytes = some ws ∧ w = ws.map Act.write := by
  unfold ptrActs at h
  rcases Option.map_eq_some_iff.1 h with ⟨ws, hws, h2⟩
  simp only [Prod.mk.injEq] at h2
  rcases h2 with ⟨rfl, rfl⟩
  exact ⟨rfl, ws, hws, rfl⟩

theorem histPtrEvents_one (b : Bytes) (e : Nat × Nat × Nat) (h : ptrOfWrite b = some e) :
    histPtrEvents [Act.write b] = [e] := by
  rw [histPtrEvents_write, h]; rfl

theorem histPtrEvents_two (b b' : Bytes) (e e' : Nat × Nat × Nat) (h : ptrOfWrite b = some e)
    (h' : ptrOfWrite b' = some e') : histPtrEvents [Act.write b, Act.write b'] = [e, e'] := by
  rw [histPtrEvents_write, histPtrEvents_write, h, h']; rfl

theorem ptrActs_move {a a' : App} {x y : Int} {w : List Act} (hok : PtrOK a.ptr)
    (h : ptrActs a (.move x y) = some (a', w)) :
    a' = { a with ptr := { a.ptr with x := x, y := y } } ∧ PSeg a.ptr w a'.ptr := by
  obtain ⟨rfl, ws, hws, rfl⟩ := ptrActs_unf h
  simp only [ptrStep, moveTo] at hws
  obtain ⟨b, hb, rfl⟩ := c05_mapM_one _ _ _ hws
  obtain ⟨hr, hx, hy, _⟩ := ptrEv_read _ _ hb
  refine ⟨rfl, ⟨hx, hy, hok.2.2⟩, ?_, ?_⟩
  · rw [List.map_cons, List.map_nil, histPtrEvents_one _ _ hr]
    simp only [consistentFrom, cur, ptrFollows_move, Bool.and_self]
  · rw [List.map_cons, List.map_nil, histPtrEvents_one _ _ hr]
    rfl

theorem ptrActs_down {a a' : App} {b : Nat} {w : List Act} (hok : PtrOK a.ptr)
    (h : ptrActs a (.down b) = some (a', w)) :
    a' = { a with ptr := { a.ptr with buttons := setBtn a.ptr.buttons b } } ∧ PSeg a.ptr w a'.ptr := by
  obtain ⟨rfl, ws, hws, rfl⟩ := ptrActs_unf h
  simp only [ptrStep] at hws
  obtain ⟨bs, hb, rfl⟩ := c05_mapM_one _ _ _ hws
  obtain ⟨hr, _, _, hm⟩ := ptrEv_read _ _ hb
  refine ⟨rfl, ⟨hok.1, hok.2.1, hm⟩, ?_, ?_⟩
  · rw [List.map_cons, List.map_nil, histPtrEvents_one _ _ hr]
    simp only [consistentFrom, cur, Bool.and_true]
    exact ptrFollows_mask _ _ _ _ (setBtn_follows _ _ hok.2.2 hm)
  · rw [List.map_cons, List.map_nil, histPtrEvents_one _ _ hr]
    rfl

theorem ptrActs_up {a a' : App} {b : Nat} {w : List Act} (hok : PtrOK a.ptr)
    (h : ptrActs a (.up b) = some (a', w)) :
    a' = { a with ptr := { a.ptr with buttons := clearBtn a.ptr.buttons b } } ∧ PSeg a.ptr w a'.ptr := by
  obtain ⟨rfl, ws, hws, rfl⟩ := ptrActs_unf h
  simp only [ptrStep] at hws
  obtain ⟨bs, hb, rfl⟩ := c05_mapM_one _ _ _ hws
  obtain ⟨hr, _, _, hm⟩ := ptrEv_read _ _ hb
  refine ⟨rfl, ⟨hok.1, hok.2.1, hm⟩, ?_, ?_⟩
  · rw [List.map_cons, List.map_nil, histPtrEvents_one _ _ hr]
    simp only [consistentFrom, cur, Bool.and_true]
    exact ptrFollows_mask _ _ _ _ (clearBtn_follows _ _ hok.2.2)
  · rw [List.map_cons, List.map_nil, histPtrEvents_one _ _ hr]
    rfl

theorem ptrActs_click {a a' : App} {b : Nat} {w : List Act} (hok : PtrOK a.ptr)
    (h : ptrActs a (.click b) = some (a', w)) :
    a' = { a with ptr := { a.ptr with buttons := clearBtn (setBtn a.ptr.buttons b) b } } ∧ PSeg a.ptr w a'.ptr := by
  obtain ⟨rfl, ws, hws, rfl⟩ := ptrActs_unf h
  simp only [ptrStep] at hws
  obtain ⟨bs, bs', hb, hb', rfl⟩ := c05_mapM_two _ _ _ _ hws
  obtain ⟨hr, _, _, hm⟩ := ptrEv_read _ _ hb
  obtain ⟨hr', _, _, hm'⟩ := ptrEv_read _ _ hb'
  refine ⟨rfl, ⟨hok.1, hok.2.1, hm'⟩, ?_, ?_⟩
  · rw [List.map_cons, List.map_cons, List.map_nil, histPtrEvents_two _ _ _ _ hr hr']
    simp only [consistentFrom, cur, Bool.and_true, Bool.and_eq_true]
    exact ⟨ptrFollows_mask _ _ _ _ (setBtn_follows _ _ hok.2.2 hm), ptrFollows_mask _ _ _ _ (clearBtn_follows _ _ hm)⟩
  · rw [List.map_cons, List.map_cons, List.map_nil, histPtrEvents_two _ _ _ _ hr hr']
    rfl

/-! ## one callback of the chain -/

/-- what `startCmd` does to the reference point `p`: consistent writes, and unless the command fails the client
    remembers the last of them -/
def StartOK (p : Nat × Nat × Nat) (x : App × List Act × Susp) : Prop :=
  consistentFrom p (histPtrEvents x.2.1) = true ∧
  ((∃ cls, x.2.2 = .fail cls) ∨ (PtrOK x.1.ptr ∧ cur x.1.ptr = lastPt p (histPtrEvents x.2.1)))

theorem SO_fail (p : Nat × Nat × Nat) (a : App) (cls : String) : StartOK p (a, [], .fail cls) :=
  ⟨rfl, Or.inl ⟨cls, rfl⟩⟩

theorem SO_noptr {p : Nat × Nat × Nat} {a' : App} {w : List Act} (s : Susp) (h : histPtrEvents w = [])
    (hok : PtrOK a'.ptr) (hc : cur a'.ptr = p) : StartOK p (a', w, s) := by
  unfold StartOK
  dsimp only
  rw [h]
  exact ⟨rfl, Or.inr ⟨hok, hc⟩⟩

theorem SO_ptr {s0 : PtrSt} {a' : App} {w : List Act} (s : Susp) (h : PSeg s0 w a'.ptr) : StartOK (cur s0) (a', w, s) :=
  ⟨h.2.1, Or.inr ⟨h.1, h.2.2.symm⟩⟩

theorem c05_expectCompare_cases (a : App) (core : Core) (screen : Option Img) (box : Int × Int × Int × Int) (rms : Word)
    (expected : List Nat) :
    expectCompare a core screen box rms expected = (a, [], true) ∨
    expectCompare a core screen box rms expected =
      ({ a with waiter := some (.expect box rms expected) }, requestAll core screen.isSome, false) := by
  have key : ∀ (m : Bool) (x : App × List Act × Bool),
      x = (if m = true then (a, [], true)
        else ({ a with waiter := some (.expect box rms expected) }, requestAll core screen.isSome, false)) →
      x = (a, [], true) ∨
      x = ({ a with waiter := some (.expect box rms expected) }, requestAll core screen.isSome, false) := by
    intro m x hx
    cases m
    · right; simpa using hx
    · left; simpa using hx
  exact key _ _ rfl

theorem c05_expectCompare_frame (a : App) (core : Core) (screen : Option Img) (box : Int × Int × Int × Int) (rms : Word)
    (expected : List Nat) :
    (expectCompare a core screen box rms expected).1.ptr = a.ptr ∧
    (expectCompare a core screen box rms expected).1.chain = a.chain ∧
    histPtrEvents (expectCompare a core screen box rms expected).2.1 = [] := by
  rcases c05_expectCompare_cases a core screen box rms expected with h | h <;> rw [h]
  · exact ⟨rfl, rfl, histPtrEvents_nil⟩
  · have h4 := requestAll_noptr core screen.isSome
    generalize requestAll core screen.isSome = l at h4 ⊢
    exact ⟨rfl, rfl, h4⟩

theorem SO_expect (a : App) (core : Core) (screen : Option Img) (box : Int × Int × Int × Int) (rms : Word)
    (expected : List Nat) (hok : PtrOK a.ptr) :
    StartOK (cur a.ptr) ((expectCompare a core screen box rms expected).1,
      (expectCompare a core screen box rms expected).2.1,
      if (expectCompare a core screen box rms expected).2.2 = true then Susp.cont else Susp.commit) := by
  obtain ⟨h1, _, h3⟩ := c05_expectCompare_frame a core screen box rms expected
  apply SO_noptr _ h3
  · rw [h1]; exact hok
  · rw [h1]

theorem startCmd_ok (a : App) (core : Core) (scr : Option Img) (c : Cmd) (hok : PtrOK a.ptr) :
    StartOK (cur a.ptr) (startCmd a core scr c) := by
  cases c <;> delta startCmd <;> dsimp only
  case keyPress =>
    split
    · next w h => exact SO_noptr _ (keyActs_noptr h) hok rfl
    · exact SO_fail _ _ _
  case keyDown =>
    split
    · next w h => exact SO_noptr _ (keyActs_noptr h) hok rfl
    · exact SO_fail _ _ _
  case keyUp =>
    split
    · next w h => exact SO_noptr _ (keyActs_noptr h) hok rfl
    · exact SO_fail _ _ _
  case mouseMove =>
    split
    · next a' w h => exact SO_ptr _ (ptrActs_move hok h).2
    · exact SO_fail _ _ _
  case mousePress =>
    split
    · exact SO_fail _ _ _
    · split
      · next a' w h => exact SO_ptr _ (ptrActs_click hok h).2
      · exact SO_fail _ _ _
  case mouseDown =>
    split
    · exact SO_fail _ _ _
    · split
      · next a' w h => exact SO_ptr _ (ptrActs_down hok h).2
      · exact SO_fail _ _ _
  case mouseUp =>
    split
    · exact SO_fail _ _ _
    · split
      · next a' w h => exact SO_ptr _ (ptrActs_up hok h).2
      · exact SO_fail _ _ _
  case mouseDrag x y =>
    split
    · split
      · next a' w h => exact SO_ptr _ (ptrActs_move hok h).2
      · exact SO_fail _ _ _
    · split
      · exact SO_fail _ _ _
      · next a' w h =>
        have := (ptrActs_move hok h).2
        exact SO_ptr (a' := (addTimer a' 8192).1) _ this
  case pauseArg => exact SO_noptr _ rfl hok rfl
  case pauseDelay => exact SO_noptr _ rfl hok rfl
  case paste =>
    split
    · next b h => exact SO_noptr _ (paste_noptr _ _ h) hok rfl
    · exact SO_fail _ _ _
  case captureScreen => exact SO_noptr _ (requestAll_noptr _ _) hok rfl
  case captureRegion => exact SO_noptr _ (requestAll_noptr _ _) hok rfl
  case expectScreen =>
    split
    · exact SO_fail _ _ _
    · exact SO_expect _ _ _ _ _ _ hok
  case expectRegion =>
    split
    · exact SO_fail _ _ _
    · exact SO_expect _ _ _ _ _ _ hok

/-! ## the chain -/

theorem Seg_mk {p : Nat × Nat × Nat} {l : List Act} {a' : App} (w : List Act) (hE : histPtrEvents l = histPtrEvents w)
    (hc : consistentFrom p (histPtrEvents w) = true) (hi : Inv (lastPt p (histPtrEvents w)) a') : Seg p l a' := by
  unfold Seg
  rw [hE]
  exact ⟨hc, hi⟩

theorem histPtrEvents_app_finish (w : List Act) (i : Nat) : histPtrEvents (w ++ [Act.finish i]) = histPtrEvents w := by
  rw [histPtrEvents_append]
  exact List.append_nil _

theorem histPtrEvents_app_failed (w : List Act) (c : String) :
    histPtrEvents (w ++ [Act.chainFailed c]) = histPtrEvents w := by
  rw [histPtrEvents_append]
  exact List.append_nil _

theorem Inv_ok {p : Nat × Nat × Nat} {a : App} (h : Inv p a) (hc : ∀ cls, a.chain ≠ .failed cls) :
    PtrOK a.ptr ∧ cur a.ptr = p := by
  rcases h with ⟨cls, h⟩ | h
  · exact absurd h (hc cls)
  · exact h

theorem advance_seg (core : Core) (screen : Option Img) : ∀ (fuel : Nat) (a : App), PtrOK a.ptr →
    Seg (cur a.ptr) (advance core screen fuel a).2 (advance core screen fuel a).1 := by
  intro fuel
  induction fuel with
  | zero => intro a hok; exact Seg_noptr rfl (Or.inr ⟨hok, rfl⟩)
  | succ n ih =>
    intro a hok
    rw [advance.eq_2]
    split
    · exact Seg_noptr rfl (Or.inr ⟨hok, rfl⟩)
    · rename_i c rest hc
      dsimp only
      obtain ⟨hs1, hs2⟩ : StartOK (cur a.ptr) (startCmd { a with cmds := rest } core screen c) :=
        startCmd_ok { a with cmds := rest } core screen c hok
      split
      · rename_i hsu
        rcases hs2 with ⟨cls, hf⟩ | ⟨hok1, hcur⟩
        · rw [hsu] at hf; cases hf
        · apply Seg_append (l1 := [Act.start a.idx] ++ _ ++ [Act.finish a.idx])
          · rw [histPtrEvents_app_finish]; exact hs1
          · rw [histPtrEvents_app_finish]
            have := ih { (startCmd { a with cmds := rest } core screen c).1 with idx := a.idx + 1, chain := .running } hok1
            rw [hcur] at this
            exact this
      · rename_i hsu
        rcases hs2 with ⟨cls, hf⟩ | ⟨hok1, hcur⟩
        · rw [hsu] at hf; cases hf
        · exact Seg_mk _ rfl hs1 (Or.inr ⟨hok1, hcur⟩)
      · rename_i hsu
        rcases hs2 with ⟨cls, hf⟩ | ⟨hok1, hcur⟩
        · rw [hsu] at hf; cases hf
        · exact Seg_mk _ rfl hs1 (Or.inr ⟨hok1, hcur⟩)
      · rename_i hsu
        rcases hs2 with ⟨cls, hf⟩ | ⟨hok1, hcur⟩
        · rw [hsu] at hf; cases hf
        · exact Seg_mk _ rfl hs1 (Or.inr ⟨hok1, hcur⟩)
      · exact Seg_mk _ (histPtrEvents_app_failed _ _) hs1 (Or.inl ⟨_, rfl⟩)

theorem resume_seg (core : Core) (screen : Option Img) (a : App) (hok : PtrOK a.ptr) :
    Seg (cur a.ptr) (resume core screen a).2 (resume core screen a).1 := by
  unfold resume
  dsimp only
  exact Seg_pre rfl (advance_seg core screen _ { a with idx := a.idx + 1, chain := .running } hok)

theorem resume_seg' (core : Core) (screen : Option Img) (a : App) (p : Nat × Nat × Nat) (h : Inv p a)
    (hc : ∀ cls, a.chain ≠ .failed cls) : Seg p (resume core screen a).2 (resume core screen a).1 := by
  obtain ⟨hok, rfl⟩ := Inv_ok h hc
  exact resume_seg core screen a hok

theorem onConnected_seg (core : Core) (screen : Option Img) (a : App) (p : Nat × Nat × Nat) (h : Inv p a) :
    Seg p (onConnected core screen a).2 (onConnected core screen a).1 := by
  unfold onConnected
  split
  · rename_i hch
    obtain ⟨hok, rfl⟩ := Inv_ok h (by intro cls; rw [hch]; intro hh; cases hh)
    exact advance_seg core screen _ { a with chain := .running } hok
  · exact Seg_noptr rfl h

theorem Seg_req_snd {p : Nat × Nat × Nat} (a' : App) (core : Core) (inc : Bool) (hi : Inv p a') :
    Seg p (a', requestAll core inc).2 (a', requestAll core inc).1 := by
  have h4 := requestAll_noptr core inc
  generalize requestAll core inc = l at h4 ⊢
  exact Seg_noptr h4 hi

theorem onCommit_seg (core : Core) (screen : Option Img) (a : App) (p : Nat × Nat × Nat) (h : Inv p a) :
    Seg p (onCommit core screen a).2 (onCommit core screen a).1 := by
  unfold onCommit
  split
  · exact Seg_noptr rfl h
  · dsimp only
    have h0 : Inv p { a with waiter := none } := Inv_frame rfl rfl h
    split
    · exact Seg_noptr rfl h0
    · split
      · exact Seg_req_snd _ _ _ (Inv_frame rfl rfl h)
      · split
        · rename_i hch
          exact Seg_pre rfl (resume_seg' core _ _ p h0 (by intro cls; rw [hch]; intro hh; cases hh))
        · exact Seg_noptr rfl h0
    · rename_i box rms expected heq
      obtain ⟨h1, h2, h3⟩ := c05_expectCompare_frame { a with waiter := none } core screen box rms expected
      have h2' : (expectCompare { a with waiter := none } core screen box rms expected).1.chain = a.chain := h2
      have h5 : Inv p (expectCompare { a with waiter := none } core screen box rms expected).1 := Inv_frame h2 h1 h0
      split
      · split
        · rename_i hch
          exact Seg_pre h3 (resume_seg' core screen _ p h5 (by
            intro cls; rw [h2', hch]; intro hh; cases hh))
        · exact Seg_noptr h3 h5
      · exact Seg_noptr h3 h5

theorem onTimer_seg (core : Core) (screen : Option Img) (a : App) (id : Nat) (p : Nat × Nat × Nat) (h : Inv p a) :
    Seg p (onTimer core screen a id).2 (onTimer core screen a id).1 := by
  unfold onTimer
  dsimp only
  have h0 : Inv p { a with timers := a.timers.filter fun t => t.1 ≠ id } := Inv_frame rfl rfl h
  split
  · rename_i hch
    split
    · exact resume_seg' core screen _ p h0 (by intro cls; rw [hch]; intro hh; cases hh)
    · exact Seg_noptr rfl h0
  · rename_i hch
    obtain ⟨hok, rfl⟩ := Inv_ok h0 (by intro cls; rw [hch]; intro hh; cases hh)
    split
    · exact Seg_noptr rfl h0
    · split
      · split
        · exact Seg_noptr rfl (Or.inl ⟨_, rfl⟩)
        · rename_i a' w hw
          exact Seg_of_PSeg (ptrActs_move hok hw).2 rfl
      · split
        · exact Seg_noptr rfl (Or.inl ⟨_, rfl⟩)
        · rename_i a' w hw
          obtain ⟨hok', hc, hl⟩ := (ptrActs_move hok hw).2
          apply Seg_append hc
          rw [hl]
          exact resume_seg core screen a' hok'
  · exact Seg_noptr rfl h0

/-! ## lifting through the whole client -/

theorem appReact_seg (core : Core) (screen : Option Img) (a : App) (o : Out) (p : Nat × Nat × Nat) (h : Inv p a) :
    Seg p (appReact core screen a o).2 (appReact core screen a o).1 := by
  cases o with
  | made => exact onConnected_seg _ _ _ _ h
  | commit rs => exact onCommit_seg _ _ _ _ h
  | _ => exact Seg_noptr rfl h

theorem reactOne_seg (core : Core) (acc : Canvas × App × List Ev) (o : Out) (p : Nat × Nat × Nat)
    (h : Seg p (evActs acc.2.2) acc.2.1) :
    Seg p (evActs (reactOne core acc o).2.2) (reactOne core acc o).2.1 := by
  simp only [reactOne, c19_evActs_append, c19_evActs_acts]
  have e : evActs [Ev.out o] = [] := rfl
  rw [e, List.append_nil]
  exact Seg_trans h (fun q hq => appReact_seg _ _ _ _ q hq)

theorem reactFold_seg (core : Core) (p : Nat × Nat × Nat) (outs : List Out) : ∀ (acc : Canvas × App × List Ev),
    Seg p (evActs acc.2.2) acc.2.1 →
    Seg p (evActs (outs.foldl (reactOne core) acc).2.2) (outs.foldl (reactOne core) acc).2.1 := by
  induction outs with
  | nil => intro acc h; exact h
  | cons o outs ih =>
    intro acc h
    rw [List.foldl_cons]
    exact ih _ (reactOne_seg core acc o p h)

theorem sysStep_seg (s : SysSt) (b : Bytes) (p : Nat × Nat × Nat) (h : Inv p s.app) :
    Seg p (evActs (sysStep s b).2) (sysStep s b).1.app := by
  simp only [sysStep]
  exact reactFold_seg _ p _ (s.cv, s.app, []) (Seg_noptr rfl h)

theorem sys_drain_seg : ∀ (fuel : Nat) (s : SysSt) (buf : Bytes) (p : Nat × Nat × Nat), Inv p s.app →
    Seg p (evActs (drain sysMachine fuel s buf).out) (drain sysMachine fuel s buf).s.app := by
  intro fuel
  induction fuel with
  | zero => intro s buf p h; exact Seg_noptr rfl h
  | succ f ih =>
    intro s buf p h
    simp only [drain]
    split
    · exact Seg_noptr rfl h
    · dsimp only
      rw [c19_evActs_append]
      have h1 : Seg p (evActs (sysMachine.step s (buf.take (sysMachine.need s))).2)
          (sysMachine.step s (buf.take (sysMachine.need s))).1.app := sysStep_seg _ _ p h
      exact Seg_trans h1 (fun q hq => ih _ _ q hq)

theorem sysFire_seg (st : St SysSt) (p : Nat × Nat × Nat) (h : Inv p st.s.app) :
    Seg p (evActs (sysFire st).2) (sysFire st).1.s.app := by
  unfold sysFire
  split
  · exact Seg_noptr rfl h
  · dsimp only
    rw [c19_evActs_acts]
    exact onTimer_seg _ _ _ _ p (Inv_frame rfl rfl h)

theorem sysIn_seg (st : St SysSt) (i : SysIn) (p : Nat × Nat × Nat) (h : Inv p st.s.app) :
    Seg p (evActs (sysIn st i).2) (sysIn st i).1.s.app := by
  cases i with
  | recv c => exact sys_drain_seg _ _ _ p h
  | fire => exact sysFire_seg st p h

theorem sysRun_seg (ins : List SysIn) : ∀ (st : St SysSt) (p : Nat × Nat × Nat), Inv p st.s.app →
    Seg p (evActs (sysRun st ins).2) (sysRun st ins).1.s.app := by
  induction ins with
  | nil => intro st p h; exact Seg_noptr rfl h
  | cons i is ih =>
    intro st p h
    simp only [sysRun]
    rw [c19_evActs_append]
    exact Seg_trans (sysIn_seg st i p h) (fun q hq => ih _ q hq)

/-- **every run**: the pointer events on the wire are consistent, starting from what the client remembered at the outset -/
theorem C05_sys_consistent (st : St SysSt)
    (hx : 0 ≤ st.s.app.ptr.x ∧ st.s.app.ptr.x < 65536) (hy : 0 ≤ st.s.app.ptr.y ∧ st.s.app.ptr.y < 65536)
    (hb : st.s.app.ptr.buttons < 256) (ins : List SysIn) :
    consistentFrom (st.s.app.ptr.x.toNat, st.s.app.ptr.y.toNat, st.s.app.ptr.buttons)
      (histPtrEvents (evActs (sysRun st ins).2)) = true :=
  (sysRun_seg ins st _ (Or.inr ⟨⟨hx, hy, hb⟩, rfl⟩)).1

/-- ... and the client ends up remembering exactly the last event it sent (if it sent any and the script did not fail) -/
theorem C05_sys_remembers (st : St SysSt)
    (hx : 0 ≤ st.s.app.ptr.x ∧ st.s.app.ptr.x < 65536) (hy : 0 ≤ st.s.app.ptr.y ∧ st.s.app.ptr.y < 65536)
    (hb : st.s.app.ptr.buttons < 256) (ins : List SysIn) (e : Nat × Nat × Nat)
    (hl : (histPtrEvents (evActs (sysRun st ins).2)).getLast? = some e)
    (hok : ∀ cls, (sysRun st ins).1.s.app.chain ≠ .failed cls) :
    ((sysRun st ins).1.s.app.ptr.x, (sysRun st ins).1.s.app.ptr.y, (sysRun st ins).1.s.app.ptr.buttons) =
      ((e.1 : Int), (e.2.1 : Int), e.2.2) := by
  have hs := (sysRun_seg ins st (cur st.s.app.ptr) (Or.inr ⟨⟨hx, hy, hb⟩, rfl⟩)).2
  rw [lastPt_getLast _ _ _ hl] at hs
  obtain ⟨⟨hx', hy', _⟩, hc⟩ := Inv_ok hs hok
  obtain ⟨e1, e2, e3⟩ := e
  simp only [cur, Prod.mk.injEq] at hc
  obtain ⟨rfl, rfl, rfl⟩ := hc
  simp only [Prod.mk.injEq, and_true]
  omega

example : consistentFrom (0, 0, 0) [(3, 4, 0), (3, 4, 1), (3, 4, 5), (9, 9, 5), (9, 9, 4)] = true := by decide
example : consistentFrom (0, 0, 0) [(3, 4, 1)] = false := by decide            -- a press that also moves
example : consistentFrom (0, 0, 0) [(0, 0, 3)] = false := by decide            -- two buttons at once

end Vnc
