import VncSpec.Grammar
/-!
# C10 — Command-line scripts compile to exactly the operations written, or to nothing

Model: `compile` (VncModel/Script.lean = command.py `build_command_list`).  Spec: `Parses` (VncSpec/Grammar.lean).
-/
namespace Vnc

/-! ## helper lemmas -/

theorem bind_ok {ε α β} (x : Except ε α) (f : α → Except ε β) (r : β) :
    (x >>= f) = Except.ok r ↔ ∃ a, x = .ok a ∧ f a = .ok r := by
  cases x <;> simp [bind, Except.bind]
theorem popWord_ok (args k a) : popWord args = .ok (k, a) ↔ args = k :: a := by
  cases args <;> simp [popWord]
theorem popInt_ok (args v a) : popInt args = .ok (v, a) ↔ ∃ s, args = s :: a ∧ pyInt s = some v := by
  cases args with
  | nil => simp [popInt]
  | cons s t =>
    simp only [popInt]
    cases h : pyInt s <;> simp
    · intro _; simp [*]
    · grind
theorem popFloat_ok (fs : FS) (args d a) : popFloat fs args = .ok (d, a) ↔ args = d :: a ∧ fs.isFloat d = true := by
  cases args with
  | nil => simp [popFloat]
  | cons s t =>
    simp only [popFloat]
    cases h : fs.isFloat s <;> simp
    · grind
    · grind

theorem notCmd (f : Word) (h : isCommandWord f = false) : ∀ s ∈ commandWords, f ≠ w s := by
  intro s hs heq
  simp only [isCommandWord, List.any_eq_false] at h
  have := h s hs
  simp [heq, w] at this

theorem compileOne_notCmd (fs : FS) (delay : Bool) (f args) (h : isCommandWord f = false) :
    compileOne fs delay f args =
      if fs.isFile f then .ok ([], fs.tokens f ++ args) else .error .parse := by
  have h' := notCmd f h
  simp only [commandWords, List.forall_mem_cons] at h'
  simp [compileOne, h', pure, Except.pure]

local macro "norm_at " h:ident : tactic => `(tactic|
  simp only [bind_ok, Prod.exists, popWord_ok, popInt_ok, popFloat_ok, pure, Except.pure, Except.ok.injEq,
    Prod.mk.injEq] at $h:ident)

theorem one_sound (fs : FS) (delay : Bool) (cmd args cs rest tail)
    (h : compileOne fs delay cmd args = .ok (cs, rest)) (ht : Parses fs delay rest tail) :
    Parses fs delay (cmd :: args) (cs ++ sep delay rest ++ tail) := by
  by_cases hc : isCommandWord cmd = false
  · rw [compileOne_notCmd _ _ _ _ hc] at h
    split at h
    · simp only [Except.ok.injEq, Prod.mk.injEq] at h
      obtain ⟨rfl, rfl⟩ := h
      exact Parses.file _ _ _ hc ‹_› ht
    · simp at h
  unfold compileOne at h
  by_cases h1 : cmd = w "key"
  · rw [if_pos h1] at h; norm_at h
    obtain ⟨k, _, rfl, rfl, rfl⟩ := h
    subst h1; exact Parses.key _ _ _ ht
  rw [if_neg h1] at h
  by_cases h1 : cmd = w "kdown" ∨ cmd = w "keydown"
  · rw [if_pos h1] at h; norm_at h
    obtain ⟨k, _, rfl, rfl, rfl⟩ := h
    exact Parses.keydown _ _ _ _ h1 ht
  rw [if_neg h1] at h
  by_cases h1 : cmd = w "kup" ∨ cmd = w "keyup"
  · rw [if_pos h1] at h; norm_at h
    obtain ⟨k, _, rfl, rfl, rfl⟩ := h
    exact Parses.keyup _ _ _ _ h1 ht
  rw [if_neg h1] at h
  by_cases h1 : cmd = w "move" ∨ cmd = w "mousemove"
  · rw [if_pos h1] at h; norm_at h
    obtain ⟨x, _, ⟨xs, rfl, hx⟩, y, _, ⟨ys, rfl, hy⟩, rfl, rfl⟩ := h
    exact Parses.move _ _ _ _ _ _ _ h1 hx hy ht
  rw [if_neg h1] at h
  by_cases h1 : cmd = w "click"
  · rw [if_pos h1] at h; norm_at h
    obtain ⟨v, _, ⟨s, rfl, hv⟩, rfl, rfl⟩ := h
    subst h1; exact Parses.click _ _ _ _ hv ht
  rw [if_neg h1] at h
  by_cases h1 : cmd = w "mdown" ∨ cmd = w "mousedown"
  · rw [if_pos h1] at h; norm_at h
    obtain ⟨v, _, ⟨s, rfl, hv⟩, rfl, rfl⟩ := h
    exact Parses.mousedown _ _ _ _ _ h1 hv ht
  rw [if_neg h1] at h
  by_cases h1 : cmd = w "mup" ∨ cmd = w "mouseup"
  · rw [if_pos h1] at h; norm_at h
    obtain ⟨v, _, ⟨s, rfl, hv⟩, rfl, rfl⟩ := h
    exact Parses.mouseup _ _ _ _ _ h1 hv ht
  rw [if_neg h1] at h
  by_cases h1 : cmd = w "type"
  · rw [if_pos h1] at h; norm_at h
    obtain ⟨k, _, rfl, rfl, rfl⟩ := h
    subst h1; exact Parses.type _ _ _ ht
  rw [if_neg h1] at h
  by_cases h1 : cmd = w "typefile"
  · rw [if_pos h1] at h; norm_at h
    obtain ⟨f, b, rfl, h⟩ := h
    cases hr : fs.read f <;> simp only [hr, Except.ok.injEq, Prod.mk.injEq, reduceCtorEq] at h
    obtain ⟨rfl, rfl⟩ := h
    subst h1; exact Parses.typefile _ _ _ _ hr ht
  rw [if_neg h1] at h
  by_cases h1 : cmd = w "pastefile"
  · rw [if_pos h1] at h; norm_at h
    obtain ⟨f, b, rfl, h⟩ := h
    cases hr : fs.read f <;> simp only [hr, Except.ok.injEq, Prod.mk.injEq, reduceCtorEq] at h
    obtain ⟨rfl, rfl⟩ := h
    subst h1; exact Parses.pastefile _ _ _ _ hr ht
  rw [if_neg h1] at h
  by_cases h1 : cmd = w "capture"
  · rw [if_pos h1] at h; norm_at h
    obtain ⟨f, b, rfl, h⟩ := h
    cases hr : supportedFormat (extOf f) <;>
      simp only [hr, Except.ok.injEq, Prod.mk.injEq, reduceCtorEq, if_true, if_false, Bool.false_eq_true] at h
    obtain ⟨rfl, rfl⟩ := h
    subst h1; exact Parses.capture _ _ _ hr ht
  rw [if_neg h1] at h
  by_cases h1 : cmd = w "expect"
  · rw [if_pos h1] at h; norm_at h
    obtain ⟨f, _, rfl, r, _, ⟨rfl, hr⟩, rfl, rfl⟩ := h
    subst h1; exact Parses.expect _ _ _ _ hr ht
  rw [if_neg h1] at h
  by_cases h1 : cmd = w "rcapture"
  · rw [if_pos h1] at h; norm_at h
    obtain ⟨f, _, rfl, x, _, ⟨xs, rfl, hx⟩, y, _, ⟨ys, rfl, hy⟩, wd, _, ⟨wds, rfl, hw⟩, hh, _, ⟨hs, rfl, hh'⟩, h⟩ := h
    cases hr : supportedFormat (extOf f) <;>
      simp only [hr, Except.ok.injEq, Prod.mk.injEq, reduceCtorEq, if_true, if_false, Bool.false_eq_true] at h
    obtain ⟨rfl, rfl⟩ := h
    subst h1; exact Parses.rcapture _ _ _ _ _ _ _ _ _ _ _ hx hy hw hh' hr ht
  rw [if_neg h1] at h
  by_cases h1 : cmd = w "rexpect"
  · rw [if_pos h1] at h; norm_at h
    obtain ⟨f, _, rfl, x, _, ⟨xs, rfl, hx⟩, y, _, ⟨ys, rfl, hy⟩, r, _, ⟨rfl, hr⟩, rfl, rfl⟩ := h
    subst h1; exact Parses.rexpect _ _ _ _ _ _ _ _ hx hy hr ht
  rw [if_neg h1] at h
  by_cases h1 : cmd = w "pause" ∨ cmd = w "sleep"
  · rw [if_pos h1] at h; norm_at h
    obtain ⟨d, _, ⟨rfl, hd⟩, rfl, rfl⟩ := h
    exact Parses.pause _ _ _ _ h1 hd ht
  rw [if_neg h1] at h
  by_cases h1 : cmd = w "drag"
  · rw [if_pos h1] at h; norm_at h
    obtain ⟨x, _, ⟨xs, rfl, hx⟩, y, _, ⟨ys, rfl, hy⟩, rfl, rfl⟩ := h
    subst h1; exact Parses.drag _ _ _ _ _ _ hx hy ht
  rw [if_neg h1] at h
  exfalso; apply hc
  simp [isCommandWord, commandWords]
  simp only [w] at *
  grind

theorem compile_nil (fs : FS) (delay : Bool) (fuel : Nat) : compile fs delay fuel [] = .ok [] := by
  cases fuel <;> rfl

theorem compile_succ (fs : FS) (delay : Bool) (fuel : Nat) (cmd : Word) (args : List Word) :
    compile fs delay (fuel + 1) (cmd :: args) =
      (compileOne fs delay cmd args >>= fun p =>
        compile fs delay fuel p.2 >>= fun tail => pure (p.1 ++ sep delay p.2 ++ tail)) := by
  rfl

/-- one more loop iteration on top of a tail that compiles from fuel `F` on -/
theorem compile_step (fs : FS) (delay : Bool) (cmd : Word) (args : List Word) (cs : List Cmd) (rest : List Word)
    (tail : List Cmd) (h : compileOne fs delay cmd args = .ok (cs, rest))
    (ih : ∃ fuel, ∀ f, fuel ≤ f → compile fs delay f rest = .ok tail) :
    ∃ fuel, ∀ f, fuel ≤ f → compile fs delay f (cmd :: args) = .ok (cs ++ sep delay rest ++ tail) := by
  obtain ⟨F, hF⟩ := ih
  refine ⟨F + 1, fun f hf => ?_⟩
  obtain ⟨f', rfl⟩ : ∃ f', f = f' + 1 := ⟨f - 1, by omega⟩
  rw [compile_succ, h]
  simp only [bind, Except.bind]
  rw [hF f' (by omega)]
  rfl

/-- whatever `compile` accepts is a sentence of the grammar with exactly those operations, in order -/
theorem C10_sound (fs : FS) (delay : Bool) (fuel : Nat) (ws : List Word) (cs : List Cmd)
    (h : compile fs delay fuel ws = .ok cs) : Parses fs delay ws cs := by
  induction fuel generalizing ws cs with
  | zero =>
    cases ws with
    | nil => rw [compile_nil] at h; cases h; exact Parses.done
    | cons c a => simp [compile] at h
  | succ n ih =>
    cases ws with
    | nil => rw [compile_nil] at h; cases h; exact Parses.done
    | cons c a =>
      rw [compile_succ] at h
      simp only [bind_ok, Prod.exists, pure, Except.pure, Except.ok.injEq] at h
      obtain ⟨cs1, rest, h1, tail, h2, rfl⟩ := h
      exact one_sound fs delay c a cs1 rest tail h1 (ih rest tail h2)

/-- every sentence of the grammar compiles (given enough fuel for its include depth) to exactly its operations -/
theorem C10_complete (fs : FS) (delay : Bool) (ws : List Word) (cs : List Cmd) (h : Parses fs delay ws cs) :
    ∃ fuel, ∀ f, fuel ≤ f → compile fs delay f ws = .ok cs := by
  induction h with
  | done => exact ⟨0, fun f _ => compile_nil fs delay f⟩
  | key k rest cs _ ih =>
    exact compile_step fs delay _ _ [.keyPress k] rest cs (by simp [compileOne, w, popWord, bind, Except.bind, pure, Except.pure]) ih
  | keydown c k rest cs hc _ ih =>
    exact compile_step fs delay _ _ [.keyDown k] rest cs
      (by rcases hc with rfl | rfl <;> simp [compileOne, w, popWord, bind, Except.bind, pure, Except.pure]) ih
  | keyup c k rest cs hc _ ih =>
    exact compile_step fs delay _ _ [.keyUp k] rest cs
      (by rcases hc with rfl | rfl <;> simp [compileOne, w, popWord, bind, Except.bind, pure, Except.pure]) ih
  | move c xs ys x y rest cs hc hx hy _ ih =>
    exact compile_step fs delay _ _ [.mouseMove x y] rest cs
      (by rcases hc with rfl | rfl <;> simp [compileOne, w, popInt, hx, hy, bind, Except.bind, pure, Except.pure]) ih
  | click bs b rest cs hb _ ih =>
    exact compile_step fs delay _ _ [.mousePress b] rest cs
      (by simp [compileOne, w, popInt, hb, bind, Except.bind, pure, Except.pure]) ih
  | mousedown c bs b rest cs hc hb _ ih =>
    exact compile_step fs delay _ _ [.mouseDown b] rest cs
      (by rcases hc with rfl | rfl <;> simp [compileOne, w, popInt, hb, bind, Except.bind, pure, Except.pure]) ih
  | mouseup c bs b rest cs hc hb _ ih =>
    exact compile_step fs delay _ _ [.mouseUp b] rest cs
      (by rcases hc with rfl | rfl <;> simp [compileOne, w, popInt, hb, bind, Except.bind, pure, Except.pure]) ih
  | type t rest cs _ ih =>
    exact compile_step fs delay _ _ _ rest cs
      (by simp [compileOne, w, popWord, bind, Except.bind, pure, Except.pure]) ih
  | typefile f content rest cs hr _ ih =>
    exact compile_step fs delay _ _ _ rest cs
      (by simp [compileOne, w, popWord, hr, bind, Except.bind, pure, Except.pure]) ih
  | pastefile f content rest cs hr _ ih =>
    exact compile_step fs delay _ _ [.paste (crlf content)] rest cs
      (by simp [compileOne, w, popWord, hr, bind, Except.bind, pure, Except.pure]) ih
  | capture f rest cs hs _ ih =>
    exact compile_step fs delay _ _ [.captureScreen f] rest cs
      (by simp [compileOne, w, popWord, hs, bind, Except.bind, pure, Except.pure]) ih
  | expect f r rest cs hr _ ih =>
    exact compile_step fs delay _ _ [.expectScreen f r] rest cs
      (by simp [compileOne, w, popWord, popFloat, hr, bind, Except.bind, pure, Except.pure]) ih
  | rcapture f xs ys ws hs x y wd h rest cs hx hy hw hh hsf _ ih =>
    exact compile_step fs delay _ _ [.captureRegion f x y wd h] rest cs
      (by simp [compileOne, w, popWord, popInt, hx, hy, hw, hh, hsf, bind, Except.bind, pure, Except.pure]) ih
  | rexpect f xs ys r x y rest cs hx hy hr _ ih =>
    exact compile_step fs delay _ _ [.expectRegion f x y r] rest cs
      (by simp [compileOne, w, popWord, popInt, popFloat, hx, hy, hr, bind, Except.bind, pure, Except.pure]) ih
  | pause c d rest cs hc hd _ ih =>
    exact compile_step fs delay _ _ [.pauseArg d] rest cs
      (by rcases hc with rfl | rfl <;> simp [compileOne, w, popFloat, hd, bind, Except.bind, pure, Except.pure]) ih
  | drag xs ys x y rest cs hx hy _ ih =>
    exact compile_step fs delay _ _ [.mouseDrag x y] rest cs
      (by simp [compileOne, w, popInt, hx, hy, bind, Except.bind, pure, Except.pure]) ih
  | file f rest cs hc hf _ ih =>
    exact compile_step fs delay _ _ [] _ cs (by rw [compileOne_notCmd _ _ _ _ hc, if_pos hf]) ih

/-- the grammar is unambiguous: a script has at most one meaning -/
theorem C10_unique (fs : FS) (delay : Bool) (ws : List Word) (cs cs' : List Cmd)
    (h : Parses fs delay ws cs) (h' : Parses fs delay ws cs') : cs = cs' := by
  obtain ⟨F, hF⟩ := C10_complete fs delay ws cs h
  obtain ⟨F', hF'⟩ := C10_complete fs delay ws cs' h'
  have h1 := hF (max F F') (Nat.le_max_left _ _)
  have h2 := hF' (max F F') (Nat.le_max_right _ _)
  rw [h1] at h2
  exact Except.ok.inj h2

/-- naming a script file is equivalent to writing its tokenised contents in its place -/
theorem C10_include (fs : FS) (delay : Bool) (fuel : Nat) (f : Word) (post : List Word)
    (hc : isCommandWord f = false) (hf : fs.isFile f = true) :
    compile fs delay (fuel + 1) (f :: post) =
      (compile fs delay fuel (fs.tokens f ++ post)).map (sep delay (fs.tokens f ++ post) ++ ·) := by
  rw [compile_succ, compileOne_notCmd _ _ _ _ hc, if_pos hf]
  simp only [bind, Except.bind]
  cases compile fs delay fuel (fs.tokens f ++ post) <;> rfl

/-- a word that is neither a command nor an existing file is rejected - wherever it stands, the whole script
    compiles to nothing (an error), so nothing is executed -/
theorem C10_reject (fs : FS) (delay : Bool) (fuel : Nat) (x : Word) (post : List Word)
    (hc : isCommandWord x = false) (hf : fs.isFile x = false) :
    compile fs delay (fuel + 1) (x :: post) = .error .parse := by
  rw [compile_succ, compileOne_notCmd _ _ _ _ hc, hf]
  rfl

/-- anything outside the grammar compiles to nothing: `compile` yields an error, never a partial operation list -/
theorem C10_reject_general (fs : FS) (delay : Bool) (fuel : Nat) (ws : List Word)
    (h : ∀ cs, ¬ Parses fs delay ws cs) : ∃ e, compile fs delay fuel ws = .error e := by
  cases hc : compile fs delay fuel ws with
  | error e => exact ⟨e, rfl⟩
  | ok cs => exact absurd (C10_sound fs delay fuel ws cs hc) (h cs)

/-- no script with an unknown word has a parse -/
theorem C10_no_parse (fs : FS) (delay : Bool) (x : Word) (post : List Word) (cs : List Cmd)
    (hc : isCommandWord x = false) (hf : fs.isFile x = false) : ¬ Parses fs delay (x :: post) cs := by
  intro hp
  obtain ⟨F, hF⟩ := C10_complete fs delay _ _ hp
  have h1 := hF (F + 1) (by omega)
  rw [C10_reject fs delay F x post hc hf] at h1
  cases h1

/-- a capture file with an unsupported extension is rejected -/
theorem C10_capture_ext (fs : FS) (delay : Bool) (fuel : Nat) (f : Word) (post : List Word)
    (h : supportedFormat (extOf f) = false) :
    compile fs delay (fuel + 1) (w "capture" :: f :: post) = .error .parse := by
  rw [compile_succ]
  have : compileOne fs delay (w "capture") (f :: post) = .error .parse := by
    simp [compileOne, w, popWord, h, bind, Except.bind]
  rw [this]; rfl

/-- the supported formats, as extracted from the source -/
theorem C10_formats : Tables.SUPPORTED_FORMATS = ["png", "jpg", "jpeg", "gif", "bmp"] := by decide

/-- only the exact command words are commands (in particular no prefix / substring of `drag`) -/
theorem C10_command_words (fs : FS) (delay : Bool) (x : Word) (args : List Word) (r : List Cmd × List Word)
    (h : compileOne fs delay x args = .ok r) : isCommandWord x = true ∨ fs.isFile x = true := by
  cases hc : isCommandWord x with
  | true => exact Or.inl rfl
  | false =>
    right
    rw [compileOne_notCmd _ _ _ _ hc] at h
    cases hf : fs.isFile x with
    | true => rfl
    | false => simp [hf] at h

/-- non-vacuity / examples -/
def fs0 : FS := { isFile := fun f => f == w "script.vdo", tokens := fun _ => [w "key", w "a", w "pause", w "1"],
                  read := fun _ => some "x\ty".toList, isFloat := fun x => x == w "1" || x == w "0.5" }
def resultIs (r : Except PErr (List Cmd)) (want : Except PErr (List Cmd)) : Bool :=
  match r, want with
  | .ok a, .ok b => a == b
  | .error a, .error b => a == b
  | _, _ => false
example : resultIs (compile fs0 false 10 [w "move", w "10", w "20", w "script.vdo", w "click", w "1"])
    (.ok [.mouseMove 10 20, .keyPress (w "a"), .pauseArg (w "1"), .mousePress 1]) = true := by decide
example : resultIs (compile fs0 true 10 [w "key", w "a", w "key", w "b"])
    (.ok [.keyPress (w "a"), .pauseDelay, .keyPress (w "b")]) = true := by decide
example : resultIs (compile fs0 false 10 [w "key", w "a", w "g", w "1", w "2"]) (.error .parse) = true := by decide
example : resultIs (compile fs0 false 10 [w "capture", w "shot.apng"]) (.error .parse) = true := by decide

end Vnc
