import VncProofs.C02All
import VncProofs.System
import VncProofs.C12
/-!
# End to end: one FramebufferUpdate, any mix of encodings, through the WHOLE client

`C02_update_any` is about the protocol machine, `sys_screen_is_painter` about one handler invocation of the whole client,
`C12_refines` about the painter.  Here they are put together: the bytes of a conforming server's update go into
`feed sysMachine` (protocol machine + screen + application), and what comes out is

* the callbacks the RFC assigns to the update, in order (`paintUpdateAny`), nothing left in the buffer, the machine back at
  "waiting for a message type", the inflate queue advanced by exactly the ZRLE rectangles;
* with the no-cursor option: a screen that is the painter folded over exactly those callbacks - i.e., by `C12_refines`, the
  composition of everything the server sent.
-/
namespace Vnc
open Vnc.Spec

/-- the phases of the protocol machine between ServerInit and the end of the session: inside them the pixel format, the image
    mode and the configuration never change -/
def InSession (ph : Phase) : Prop :=
  match ph with
  | .banner _ | .numSecTypes | .secTypes _ | .auth33 | .connFailed | .connMessage _ | .vncAuth | .dhAuth | .dhKey | .dhCert
  | .authResult | .authFailedLen | .authFailedMsg _ | .serverInit | .serverName _ => False
  | _ => True

/-- the frame property of one handler result -/
def KeepsPF (c : Core) (r : RSt × List Out) : Prop :=
  InSession r.1.ph ∧ r.1.core.pf = c.pf ∧ r.1.core.imageMode = c.imageMode

theorem keepsPF_go (c c' : Core) (ph : Phase) (o : List Out) (hp : InSession ph) (h1 : c'.pf = c.pf)
    (h2 : c'.imageMode = c.imageMode) : KeepsPF c (go c' ph o) := ⟨hp, h1, h2⟩

theorem keepsPF_dead (c c' : Core) (o : List Out) (h1 : c'.pf = c.pf)
    (h2 : c'.imageMode = c.imageMode) : KeepsPF c (dead c' o) := ⟨trivial, h1, h2⟩

theorem keepsPF_doConnection (c c' : Core) (o : List Out) (h1 : c'.pf = c.pf)
    (h2 : c'.imageMode = c.imageMode) : KeepsPF c (doConnection c' o) := by
  unfold doConnection
  split
  · exact ⟨trivial, h1, h2⟩
  · split <;> exact ⟨trivial, h1, h2⟩

theorem keepsPF_hex_aux (c c' : Core) bg fg (x y w h : Nat) (p : Nat × Nat) (o : List Out) (h1 : c'.pf = c.pf)
    (h2 : c'.imageMode = c.imageMode) :
    KeepsPF c (if p.2 ≥ y + h then doConnection c' o else go c' (.hextile bg fg x y w h p.1 p.2) o) := by
  split
  · exact keepsPF_doConnection c c' o h1 h2
  · exact ⟨trivial, h1, h2⟩

theorem keepsPF_nextHextile (c c' : Core) bg fg x y w h t (o : List Out) (h1 : c'.pf = c.pf)
    (h2 : c'.imageMode = c.imageMode) : KeepsPF c (nextHextile c' bg fg x y w h t o) := by
  unfold nextHextile
  split
  rename_i tx ty _
  exact keepsPF_hex_aux c c' bg fg x y w h (tx, ty) o h1 h2

macro "keepsPF_auto" : tactic => `(tactic|
    repeat (first
      | (with_reducible apply keepsPF_go) <;> first | exact trivial | rfl
      | (with_reducible apply keepsPF_dead) <;> rfl
      | (with_reducible apply keepsPF_doConnection) <;> rfl
      | (with_reducible apply keepsPF_nextHextile) <;> rfl
      | split))

theorem stepCore_inSession (s : RSt) (b : Bytes) (h : InSession s.ph) : KeepsPF s.core (stepCore s b) := by
  obtain ⟨c, ph⟩ := s
  cases ph <;> first | exact h.elim | skip
  case rectangle =>
    by_cases he : (s32 (beNat (List.drop 8 b)) == Tables.ENC_PSEUDO_LAST_RECT) = true
    · simp only [stepCore, he, ↓reduceIte, ne_eq, not_true_eq_false]
      keepsPF_auto
    · simp only [stepCore, he, Bool.false_eq_true, ↓reduceIte]
      by_cases hk : c.rectangles ≠ 0
      · rw [if_pos hk]
        keepsPF_auto
      · rw [if_neg hk]
        keepsPF_auto
  all_goals simp only [stepCore]
  all_goals keepsPF_auto

/-- a step inside a session stays inside the session and leaves pixel format and image mode alone -/
theorem step_inSession (s : RSt) (b : Bytes) (h : InSession s.ph) :
    InSession (step s b).1.ph ∧ (step s b).1.core.pf = s.core.pf ∧ (step s b).1.core.imageMode = s.core.imageMode := by
  have hk := stepCore_inSession s b h
  simp only [step]
  split
  · exact ⟨trivial, hk.2.1, hk.2.2⟩
  · exact hk

/-! ## the screen over a whole run of the dispatch loop -/

theorem applyOuts_append (m : String) (cv : Canvas) (a b : List Out) :
    applyOuts m cv (a ++ b) = applyOuts m (applyOuts m cv a) b := by
  simp only [applyOuts, List.foldl_append]

theorem CvSim.refl' (a : Canvas) (h1 : a.nocursor = true) (h2 : a.cursor = none) : CvSim a a := ⟨rfl, h2, h1, h2, h1⟩

theorem CvSim.trans' {a b c : Canvas} (h : CvSim a b) (h' : CvSim b c) : CvSim a c :=
  ⟨h.1.trans h'.1, h.2.1, h.2.2.1, h'.2.2.2.1, h'.2.2.2.2⟩

theorem applyOuts_sim (m : String) (outs : List Out) : ∀ (a b : Canvas), CvSim a b →
    CvSim (applyOuts m a outs) (applyOuts m b outs) := by
  induction outs with
  | nil => intro a b h; exact h
  | cons o outs ih =>
    intro a b h
    simp only [applyOuts, List.foldl_cons]
    exact ih _ _ (applyOut_sim m a b o h)

/-- one handler invocation of the whole client inside a session: the canvas is (up to the pointer position) the painter
    over the callbacks of that invocation, in the image mode the session started with -/
theorem sysStep_sim (s : SysSt) (b : Bytes) (h : InSession s.rfb.ph) (h1 : s.cv.nocursor = true) (h2 : s.cv.cursor = none) :
    CvSim (sysStep s b).1.cv (applyOuts s.rfb.core.imageMode s.cv (evOuts (sysStep s b).2)) ∧
    InSession (sysStep s b).1.rfb.ph ∧ (sysStep s b).1.rfb.core.imageMode = s.rfb.core.imageMode ∧
    (sysStep s b).1.rfb.core.pf = s.rfb.core.pf := by
  obtain ⟨k1, k2, k3⟩ := step_inSession s.rfb b h
  rw [(sysStep_rfb s b).2]
  refine ⟨?_, k1, k3, k2⟩
  have := reactFold_sim (step s.rfb b).1.core (step s.rfb b).2 (s.cv, s.app, []) s.cv (CvSim.refl' s.cv h1 h2)
  rw [k3] at this
  exact this

/-- the whole-run version: canvas, phase, image mode and pixel format after any amount of data inside a session -/
theorem sys_drain_sim : ∀ (fuel : Nat) (s : SysSt) (buf : Bytes), InSession s.rfb.ph →
    s.cv.nocursor = true → s.cv.cursor = none →
    CvSim (drain sysMachine fuel s buf).s.cv
      (applyOuts s.rfb.core.imageMode s.cv (evOuts (drain sysMachine fuel s buf).out)) ∧
    InSession (drain sysMachine fuel s buf).s.rfb.ph ∧
    (drain sysMachine fuel s buf).s.rfb.core.imageMode = s.rfb.core.imageMode ∧
    (drain sysMachine fuel s buf).s.rfb.core.pf = s.rfb.core.pf := by
  intro fuel
  induction fuel with
  | zero => intro s buf h h1 h2; exact ⟨CvSim.refl' s.cv h1 h2, h, rfl, rfl⟩
  | succ f ih =>
    intro s buf h h1 h2
    by_cases hb : sysMachine.blocked s buf = true
    · rw [drain_blocked_eq _ _ _ _ hb]
      exact ⟨CvSim.refl' s.cv h1 h2, h, rfl, rfl⟩
    · have hb' : sysMachine.blocked s buf = false := by simpa using hb
      simp only [drain, hb', Bool.false_eq_true, ↓reduceIte]
      have hs : sysMachine.step s (buf.take (sysMachine.need s)) = sysStep s (buf.take (sysMachine.need s)) := rfl
      rw [hs]
      obtain ⟨j1, j2, j3, j4⟩ := sysStep_sim s (buf.take (sysMachine.need s)) h h1 h2
      obtain ⟨i1, i2, i3, i4⟩ := ih (sysStep s (buf.take (sysMachine.need s))).1 (buf.drop (sysMachine.need s)) j2
        j1.2.2.1 j1.2.1
      rw [j3] at i1 i3
      rw [j4] at i4
      refine ⟨?_, i2, i3, i4⟩
      rw [evOuts_append, applyOuts_append]
      exact i1.trans' (applyOuts_sim _ _ _ _ j1)

/-- the screen of the whole client after ANY amount of server data inside a session is the painter folded over the
    callbacks that data produced (no-cursor option: the script's pointer cannot influence it) -/
theorem sys_drain_screen : ∀ (fuel : Nat) (s : SysSt) (buf : Bytes), InSession s.rfb.ph →
    s.cv.nocursor = true → s.cv.cursor = none →
    (drain sysMachine fuel s buf).s.cv.screen =
      (applyOuts s.rfb.core.imageMode s.cv (evOuts (drain sysMachine fuel s buf).out)).screen ∧
    (drain sysMachine fuel s buf).s.cv.nocursor = true ∧ (drain sysMachine fuel s buf).s.cv.cursor = none := by
  intro fuel s buf h h1 h2
  obtain ⟨k, _, _, _⟩ := sys_drain_sim fuel s buf h h1 h2
  exact ⟨k.1, k.2.2.1, k.2.1⟩

/-- a big-step run of the protocol machine inside a session, seen through the whole client -/
theorem sys_feed_of_runs (s : SysSt) (hin : InSession s.rfb.ph) (buf : Bytes) (o : List Out) (s' : RSt) (b' : Bytes)
    (h : Runs rfbMachine s.rfb buf o s' b') :
    (feed sysMachine ⟨s, []⟩ buf).2.2 = true ∧ (feed sysMachine ⟨s, []⟩ buf).1.buf = b' ∧
    (feed sysMachine ⟨s, []⟩ buf).1.s.rfb = s' ∧ evOuts (feed sysMachine ⟨s, []⟩ buf).2.1 = o ∧
    (s.cv.nocursor = true → s.cv.cursor = none →
      (feed sysMachine ⟨s, []⟩ buf).1.s.cv.screen = (applyOuts s.rfb.core.imageMode s.cv o).screen) := by
  have hf := runs_feed rfbMachine rfb_progress h
  obtain ⟨e1, e2, e3, e4⟩ := sys_feed_rfb ⟨s, []⟩ buf
  dsimp only at e1 e2 e3 e4
  rw [hf] at e1 e2 e3 e4
  dsimp only at e1 e2 e3 e4
  refine ⟨e4, e2, e1, e3, ?_⟩
  intro h1 h2
  rw [← e3]
  exact (sys_drain_screen (feedFuel ⟨s, []⟩ buf) s ([] ++ buf) hin h1 h2).1

theorem conn_blocked_nil (c : Core) : rfbMachine.blocked ⟨c, .connection⟩ [] = true := by
  simp [Machine.blocked, rfbMachine, halted, need]

/-- **end to end**: a whole update of any encodings through the whole client -/
theorem E2E_update (s : SysSt) (hph : s.rfb.ph = .connection) (hbypp : s.rfb.core.pf.bypp ≠ 0)
    (rects : List (Rct × AnyBody)) (hn : rects.length < 65536)
    (hwf : ∀ rb ∈ rects, rb.1.WF ∧ rb.2.WF s.rfb.core.pf rb.1)
    (zq : List (Option Bytes)) (hz : s.rfb.core.zq = inflates rects ++ zq) :
    let r := feed sysMachine ⟨s, []⟩ (wireUpdateAny rects)
    r.2.2 = true ∧ r.1.buf = [] ∧ r.1.s.rfb.ph = .connection ∧ r.1.s.rfb.core.zq = zq ∧
    r.1.s.rfb.core.pf = s.rfb.core.pf ∧
    evOuts r.2.1 = paintUpdateAny s.rfb.core.pf rects ∧
    (s.cv.nocursor = true → s.cv.cursor = none →
      r.1.s.cv.screen = (applyOuts s.rfb.core.imageMode s.cv (paintUpdateAny s.rfb.core.pf rects)).screen) := by
  obtain ⟨rfb, cv, app⟩ := s
  obtain ⟨c, ph⟩ := rfb
  dsimp only at hph hbypp hwf hz ⊢
  subst hph
  have hfr := coreAfterAnys_frame { c with rectangles := rects.length, rectPos := [] } rects zq hz
  have hrun := C02_update_any c hbypp rects hn hwf zq hz [] [] _ [] (Runs.done (conn_blocked_nil _))
  rw [List.append_nil, List.append_nil] at hrun
  obtain ⟨e1, e2, e3, e4, e5⟩ := sys_feed_of_runs ⟨⟨c, .connection⟩, cv, app⟩ trivial _ _ _ _ hrun
  dsimp only at e5
  refine ⟨e1, e2, ?_, ?_, ?_, e4, e5⟩
  · rw [e3]
  · rw [e3]; exact hfr.1
  · rw [e3]; exact hfr.2.1

/-- ... and a whole SEQUENCE of updates (a session): the callbacks are the concatenation, the screen is the painter over
    all of them -/
def wireUpdates : List (List (Rct × AnyBody)) → Bytes
  | [] => []
  | u :: us => wireUpdateAny u ++ wireUpdates us

def paintUpdates (pf : PF) : List (List (Rct × AnyBody)) → List Out
  | [] => []
  | u :: us => paintUpdateAny pf u ++ paintUpdates pf us

/-- a whole session of updates as ONE big-step run of the protocol machine -/
theorem runs_updates (us : List (List (Rct × AnyBody))) : ∀ (c : Core), c.pf.bypp ≠ 0 →
    (∀ u ∈ us, u.length < 65536) → (∀ u ∈ us, ∀ rb ∈ u, rb.1.WF ∧ rb.2.WF c.pf rb.1) →
    ∀ (zq : List (Option Bytes)), c.zq = (us.flatMap inflates) ++ zq →
    ∃ c' : Core, c'.pf = c.pf ∧ c'.zq = zq ∧
      Runs rfbMachine ⟨c, .connection⟩ (wireUpdates us) (paintUpdates c.pf us) ⟨c', .connection⟩ [] := by
  induction us with
  | nil =>
    intro c _ _ _ zq hz
    exact ⟨c, rfl, by simpa using hz, Runs.done (conn_blocked_nil c)⟩
  | cons u us ih =>
    intro c hbypp hn hwf zq hz
    rw [List.flatMap_cons, List.append_assoc] at hz
    have hfr := coreAfterAnys_frame { c with rectangles := u.length, rectPos := [] } u _ hz
    obtain ⟨c', p1, p2, hr⟩ := ih { coreAfterAnys { c with rectangles := u.length, rectPos := [] } u with rectangles := 0 }
      (by show (coreAfterAnys _ u).pf.bypp ≠ 0; rw [hfr.2.1]; exact hbypp)
      (fun v hv => hn v (List.mem_cons_of_mem _ hv))
      (fun v hv => by
        show ∀ rb ∈ v, rb.1.WF ∧ rb.2.WF (coreAfterAnys _ u).pf rb.1
        rw [hfr.2.1]; exact hwf v (List.mem_cons_of_mem _ hv))
      zq hfr.1
    have hpf : ({ coreAfterAnys { c with rectangles := u.length, rectPos := [] } u with rectangles := 0 } : Core).pf = c.pf :=
      hfr.2.1
    rw [hpf] at hr p1
    exact ⟨c', p1, p2, C02_update_any c hbypp u (hn u (List.mem_cons_self ..)) (hwf u (List.mem_cons_self ..)) _ hz
      _ _ _ _ hr⟩

theorem E2E_session (s : SysSt) (hph : s.rfb.ph = .connection) (hbypp : s.rfb.core.pf.bypp ≠ 0)
    (us : List (List (Rct × AnyBody))) (hn : ∀ u ∈ us, u.length < 65536)
    (hwf : ∀ u ∈ us, ∀ rb ∈ u, rb.1.WF ∧ rb.2.WF s.rfb.core.pf rb.1)
    (zq : List (Option Bytes)) (hz : s.rfb.core.zq = (us.flatMap inflates) ++ zq) :
    let r := feed sysMachine ⟨s, []⟩ (wireUpdates us)
    r.2.2 = true ∧ r.1.buf = [] ∧ r.1.s.rfb.ph = .connection ∧
    evOuts r.2.1 = paintUpdates s.rfb.core.pf us ∧
    (s.cv.nocursor = true → s.cv.cursor = none →
      r.1.s.cv.screen = (applyOuts s.rfb.core.imageMode s.cv (paintUpdates s.rfb.core.pf us)).screen) := by
  obtain ⟨rfb, cv, app⟩ := s
  obtain ⟨c, ph⟩ := rfb
  dsimp only at hph hbypp hwf hz ⊢
  subst hph
  obtain ⟨c', _, _, hrun⟩ := runs_updates us c hbypp hn hwf zq hz
  obtain ⟨e1, e2, e3, e4, e5⟩ := sys_feed_of_runs ⟨⟨c, .connection⟩, cv, app⟩ trivial _ _ _ _ hrun
  dsimp only at e5
  refine ⟨e1, e2, ?_, e4, e5⟩
  rw [e3]

/-! non-vacuity: a concrete whole-client state in a session (RGB32, no-cursor option, nothing painted yet) and a concrete
    update of three rectangles (Raw, CopyRect, DesktopSize) meet every hypothesis of `E2E_update`, including those of the
    screen clause; so its conclusion holds for them -/
def e2eExCfg : Cfg :=
  { kind := .lib, hasPassword := false, shared := true, encoding := 0, pseudocursor := false, nocursor := true,
    pseudodesktop := true, lastRect := false, qemuExt := false, authResponse := [], ardReply := [] }

def e2eExSys : SysSt :=
  { rfb := ⟨{ cfg := e2eExCfg, pf := Tables.RGB32, imageMode := "RGBX", sized := true }, .connection⟩
    cv := { nocursor := true }
    app := { env := ⟨fun _ => none, fun _ => 0, 0, fun _ _ _ => false, fun _ => false, false, false⟩ } }

def e2eExRects : List (Rct × AnyBody) :=
  [(⟨0, 0, 1, 1⟩, .plain (.raw [1, 2, 3, 4])), (⟨0, 0, 1, 1⟩, .plain (.copyRect 0 0)), (⟨0, 0, 0, 0⟩, .plain .desktopSize)]

example :
    e2eExRects ≠ [] ∧ e2eExSys.rfb.ph = .connection ∧ e2eExSys.rfb.core.pf.bypp ≠ 0 ∧ e2eExRects.length < 65536 ∧
    (∀ rb ∈ e2eExRects, rb.1.WF ∧ rb.2.WF e2eExSys.rfb.core.pf rb.1) ∧ e2eExSys.rfb.core.zq = inflates e2eExRects ++ [] ∧
    e2eExSys.cv.nocursor = true ∧ e2eExSys.cv.cursor = none ∧
    evOuts (feed sysMachine ⟨e2eExSys, []⟩ (wireUpdateAny e2eExRects)).2.1 = paintUpdateAny Tables.RGB32 e2eExRects ∧
    (feed sysMachine ⟨e2eExSys, []⟩ (wireUpdateAny e2eExRects)).1.s.cv.screen =
      (applyOuts "RGBX" e2eExSys.cv (paintUpdateAny Tables.RGB32 e2eExRects)).screen := by
  have hwf : ∀ rb ∈ e2eExRects, rb.1.WF ∧ rb.2.WF e2eExSys.rfb.core.pf rb.1 := by
    intro rb h
    simp only [e2eExRects, List.mem_cons, List.mem_nil_iff, or_false] at h
    rcases h with rfl | rfl | rfl <;> simp [Rct.WF, AnyBody.WF, Body.WF, e2eExSys, Tables.RGB32, PF.bypp]
  have hb : e2eExSys.rfb.core.pf.bypp ≠ 0 := by simp [e2eExSys, Tables.RGB32, PF.bypp]
  have hz : e2eExSys.rfb.core.zq = inflates e2eExRects ++ [] := by simp [e2eExSys, e2eExRects, inflates]
  have hn : e2eExRects.length < 65536 := by simp [e2eExRects]
  have h := E2E_update e2eExSys rfl hb e2eExRects hn hwf [] hz
  exact ⟨by simp [e2eExRects], rfl, hb, hn, hwf, hz, rfl, rfl, h.2.2.2.2.2.1, h.2.2.2.2.2.2 rfl rfl⟩

end Vnc
