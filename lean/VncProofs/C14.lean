import VncSpec.DES
import VncModel.Crypto
/-!
# C14 — Authentication responses are exactly what a conforming server verifies

Spec: VncSpec/DES.lean (FIPS 46-3 DES, the VNC key convention, the response).  Model: VncModel/Crypto.lean
(`_vnc_des`, `sendPassword`, `_encryptArd` with Cryptodome's DES / AES / MD5 as parameters).
-/
namespace Vnc
open Vnc.DES

theorem revbits_fin : ∀ n : Fin 256, pyMirror (UInt8.ofNat n) = reverseBits (UInt8.ofNat n) := by
  decide +kernel

/-- the expression in `_vnc_des` mirrors the bits of a byte (all 256 bytes) -/
theorem C14_revbits : ∀ b : UInt8, pyMirror b = reverseBits b := by
  intro b
  have := revbits_fin ⟨b.toNat, b.toNat_lt⟩
  simpa using this

theorem mapM_all {α β} (p : α → Prop) [DecidablePred p] (g : α → β) (l : List α) (h : ∀ c ∈ l, p c) :
    l.mapM (fun c => if p c then some (g c) else none) = some (l.map g) := by
  induction l with
  | nil => rfl
  | cons a l ih =>
    simp only [List.mapM_cons, List.map_cons]
    rw [ih (fun c hc => h c (List.mem_cons_of_mem _ hc))]
    simp [h a (List.mem_cons_self)]

theorem mapM_none {α β} (p : α → Prop) [DecidablePred p] (g : α → β) (l : List α) (c : α) (hc : c ∈ l) (hp : ¬ p c) :
    l.mapM (fun c => if p c then some (g c) else none) = none := by
  induction l with
  | nil => cases hc
  | cons a l ih =>
    simp only [List.mapM_cons]
    rcases List.mem_cons.1 hc with rfl | h
    · simp [hp]
    · rw [ih h]
      by_cases hpa : p a <;> simp [hpa]

theorem take_pad {α} (l : List α) (z : α) :
    (l ++ List.replicate (8 - l.length) z).take 8 = (l ++ List.replicate 8 z).take 8 := by
  rw [List.take_append, List.take_append, List.take_replicate, List.take_replicate]
  congr 2
  omega

/-- for every ASCII password of any length the key is the first eight bytes, NUL padded, bits mirrored -/
theorem C14_key (pw : List Char) (h : ∀ c ∈ pw, c.toNat < 128) :
    vncDesKey pw = some (vncKey (pw.map fun c => UInt8.ofNat c.toNat)) := by
  unfold vncDesKey vncKey
  dsimp only
  rw [mapM_all (fun c : Char => c.toNat < 128) (fun c => pyMirror (UInt8.ofNat c.toNat))]
  · congr 1
    have hrb : pyMirror = reverseBits := funext C14_revbits
    rw [hrb, take_pad]
    have : (List.replicate 8 (0:UInt8)) = (List.replicate 8 '\x00').map (fun c => UInt8.ofNat c.toNat) := by decide
    rw [this, ← List.map_append, ← List.map_take, List.map_map]
    rfl
  · intro c hc
    have := List.mem_of_mem_take hc
    rcases List.mem_append.1 this with h1 | h1
    · exact h c h1
    · rw [List.eq_of_mem_replicate h1]; decide

/-- a non-ASCII character within the first eight raises (UnicodeEncodeError) instead of sending a wrong response -/
theorem C14_nonascii (pw : List Char) (c : Char) (hc : c ∈ pw.take 8) (hn : 128 ≤ c.toNat) : vncDesKey pw = none := by
  unfold vncDesKey
  dsimp only
  apply mapM_none (fun c : Char => c.toNat < 128) (fun c => pyMirror (UInt8.ofNat c.toNat)) _ c
  · rw [List.take_append]
    exact List.mem_append_left _ hc
  · omega

/-- the response is the specified one whenever the DES implementation is DES -/
theorem C14_response (des : Bytes → Bytes → Bytes) (hdes : ∀ k d, des k d = ecb (encryptBlock k) 2 d)
    (pw : List Char) (h : ∀ c ∈ pw, c.toNat < 128) (challenge : Bytes) :
    vncResponse des pw challenge = some (response (pw.map fun c => UInt8.ofNat c.toNat) challenge) := by
  unfold vncResponse response
  rw [C14_key pw h, Option.map_some, hdes]

/-! ## DES is invertible: a server that checks by decrypting recovers its challenge -/

theorem permute_length (tbl : List Nat) (b : Bits) : (permute tbl b).length = tbl.length := by
  simp [permute]

theorem permute_getD (tbl : List Nat) (b : Bits) (i : Nat) (h : i < tbl.length) :
    (permute tbl b).getD i false = b.getD (tbl.getD i 0 - 1) false := by
  simp [permute, List.getD, h]

theorem bits_ext (a b : Bits) (n : Nat) (ha : a.length = n) (hb : b.length = n)
    (h : ∀ i, i < n → a.getD i false = b.getD i false) : a = b := by
  apply List.ext_getElem (by omega)
  intro i h1 h2
  have := h i (by omega)
  simpa [List.getD, h1, h2] using this

theorem ip_fp_idx : ∀ i, i < 64 → FP.getD i 0 - 1 < 64 ∧ IP.getD (FP.getD i 0 - 1) 0 - 1 = i := by
  decide
theorem fp_ip_idx : ∀ i, i < 64 → IP.getD i 0 - 1 < 64 ∧ FP.getD (IP.getD i 0 - 1) 0 - 1 = i := by
  decide
theorem IP_length : IP.length = 64 := by decide
theorem FP_length : FP.length = 64 := by decide
theorem P_length : P.length = 32 := by decide

theorem C14_ip_fp (b : Bits) (h : b.length = 64) : permute FP (permute IP b) = b ∧ permute IP (permute FP b) = b := by
  constructor
  · apply bits_ext _ _ 64 (by rw [permute_length, FP_length]) h
    intro i hi
    obtain ⟨h1, h2⟩ := ip_fp_idx i hi
    rw [permute_getD _ _ _ (by rw [FP_length]; exact hi), permute_getD _ _ _ (by rw [IP_length]; exact h1), h2]
  · apply bits_ext _ _ 64 (by rw [permute_length, IP_length]) h
    intro i hi
    obtain ⟨h1, h2⟩ := fp_ip_idx i hi
    rw [permute_getD _ _ _ (by rw [IP_length]; exact hi), permute_getD _ _ _ (by rw [FP_length]; exact h1), h2]

theorem xorB_length (a b : Bits) : (xorB a b).length = min a.length b.length := by
  simp [xorB]

theorem xorB_cancel (a b : Bits) (h : a.length = b.length) : xorB (xorB a b) b = a := by
  induction a generalizing b with
  | nil => simp [xorB]
  | cons x a ih =>
    cases b with
    | nil => simp at h
    | cons y b =>
      simp only [xorB, List.zipWith_cons_cons] at ih ⊢
      rw [ih b (by simpa using h)]
      cases x <;> cases y <;> rfl

theorem rounds_append (ks : List Bits) (k : Bits) (lr : Bits × Bits) :
    rounds (ks ++ [k]) lr = rounds [k] (rounds ks lr) := by
  induction ks generalizing lr with
  | nil => rfl
  | cons k' ks ih => obtain ⟨l, r⟩ := lr; exact ih (r, xorB l (f r k'))

/-- the Feistel network run with the reversed key list undoes itself, whatever the round function -/
theorem C14_rounds_inverse (ks : List Bits) (l r : Bits) (hl : l.length = 32) (hr : r.length = 32)
    (hf : ∀ x k, x.length = 32 → (f x k).length = 32) :
    let lr := rounds ks (l, r)
    rounds ks.reverse (lr.2, lr.1) = (r, l) := by
  induction ks generalizing l r with
  | nil => rfl
  | cons k ks ih =>
    have hx : (xorB l (f r k)).length = 32 := by rw [xorB_length, hl, hf r k hr]; rfl
    have := ih r (xorB l (f r k)) hr hx
    simp only [rounds, List.reverse_cons, rounds_append] at this ⊢
    rw [this]
    rw [xorB_cancel _ _ (by rw [hl, hf r k hr])]

theorem C14_f_length (x k : Bits) : (f x k).length = 32 := by
  rw [f, permute_length, P_length]

theorem rounds_length (ks : List Bits) (l r : Bits) (hl : l.length = 32) (hr : r.length = 32) :
    (rounds ks (l, r)).1.length = 32 ∧ (rounds ks (l, r)).2.length = 32 := by
  induction ks generalizing l r with
  | nil => exact ⟨hl, hr⟩
  | cons k ks ih =>
    simp only [rounds]
    exact ih r _ hr (by rw [xorB_length, hl, C14_f_length]; rfl)

theorem C14_des_inverse (ks : List Bits) (b : Bits) (h : b.length = 64) :
    cryptBlock ks.reverse (cryptBlock ks b) = b := by
  have hb : (permute IP b).length = 64 := by rw [permute_length, IP_length]
  have hl : ((permute IP b).take 32).length = 32 := by rw [List.length_take, hb]; rfl
  have hr : ((permute IP b).drop 32).length = 32 := by rw [List.length_drop, hb]
  obtain ⟨h1, h2⟩ := rounds_length ks _ _ hl hr
  have hinv := C14_rounds_inverse ks _ _ hl hr (fun x k _ => C14_f_length x k)
  dsimp only at hinv
  unfold cryptBlock
  dsimp only
  rw [(C14_ip_fp _ (by rw [List.length_append, h1, h2])).2]
  rw [List.take_left' h2, List.drop_left' h2, hinv]
  dsimp only
  rw [List.take_append_drop]
  exact (C14_ip_fp b h).1

/-- known-answer tests (tests, not the theorem): FIPS example and the classic VNC vector -/
example : encryptBlock [0x13, 0x34, 0x57, 0x79, 0x9B, 0xBC, 0xDF, 0xF1] [0x01, 0x23, 0x45, 0x67, 0x89, 0xAB, 0xCD, 0xEF] =
    [0x85, 0xE8, 0x13, 0x54, 0x0F, 0x0A, 0xB4, 0x05] := by decide +kernel

/-! ## Apple Remote Desktop (Diffie-Hellman) -/

theorem powMod_spec (b m : Nat) : ∀ fuel e, e < 2 ^ fuel → powMod b fuel e m = b ^ e % m := by
  intro fuel
  induction fuel with
  | zero => intro e he; have : e = 0 := by simpa using he
            subst this; simp [powMod]
  | succ fuel ih =>
    intro e he
    unfold powMod
    by_cases h0 : e = 0
    · subst h0; simp
    · rw [if_neg h0]
      have hh : powMod b fuel (e / 2) m = b ^ (e / 2) % m := ih _ (by rw [Nat.pow_succ] at he; omega)
      dsimp only
      rw [hh]
      by_cases h2 : e % 2 = 0
      · rw [if_pos h2, ← Nat.mul_mod, ← Nat.pow_add]
        congr 2; omega
      · rw [if_neg h2, ← Nat.mul_mod (b ^ (e/2)), ← Nat.mul_mod, ← Nat.pow_add, ← Nat.pow_succ]
        congr 2; omega

theorem C14_powmod (b e m : Nat) : pyPow b e m = b ^ e % m :=
  powMod_spec b m (e + 1) e (Nat.lt_trans (Nat.lt_succ_self e) Nat.lt_two_pow_self)

theorem beNat_snoc (xs : Bytes) (d : UInt8) : beNat (xs ++ [d]) = beNat xs * 256 + d.toNat := by
  simp [beNat]

theorem beNat_zeros (k : Nat) (b : Bytes) : beNat (List.replicate k 0 ++ b) = beNat b := by
  induction k with
  | zero => simp
  | succ k ih =>
    rw [List.replicate_succ, List.cons_append]
    simp only [beNat] at ih ⊢
    simpa using ih

theorem minBE_spec : ∀ fuel n, n < fuel →
    beNat (minBE fuel n) = n ∧ ∀ L, n < 256 ^ L → (minBE fuel n).length ≤ L := by
  intro fuel
  induction fuel with
  | zero => intro n h; omega
  | succ fuel ih =>
    intro n h
    unfold minBE
    by_cases h0 : n = 0
    · subst h0; simp [beNat]
    · rw [if_neg h0]
      obtain ⟨h1, h2⟩ := ih (n / 256) (by omega)
      constructor
      · rw [beNat_snoc, h1, UInt8.toNat_ofNat']; omega
      · intro L hL
        cases L with
        | zero => simp at hL; omega
        | succ L =>
          rw [List.length_append]
          have := h2 L (by rw [Nat.pow_succ] at hL; omega)
          simp; exact this

/-- `long_to_bytes(n, L)` is exactly L bytes for every n below 256^L - including values with leading zero bytes and 0 -/
theorem C14_long_to_bytes_len (n L : Nat) (hL : 0 < L) (hn : n < 256 ^ L) : (longToBytes n L).length = L := by
  obtain ⟨_, h2⟩ := minBE_spec (n + 1) n (Nat.lt_succ_self n)
  have hlen := h2 L hn
  unfold longToBytes
  dsimp only
  rw [if_neg (by omega), List.length_append, List.length_replicate]
  generalize (minBE (n + 1) n).length = len at hlen
  have hb : max 1 ((len + L - 1) / L) = 1 := by
    have : (len + L - 1) / L ≤ 1 := by
      have : (len + L - 1) / L < 2 := by
        apply (Nat.div_lt_iff_lt_mul hL).2; omega
      omega
    omega
  rw [hb]; omega

theorem C14_long_to_bytes_value (n L : Nat) (hL : 0 < L) (hn : n < 256 ^ L) : beNat (longToBytes n L) = n := by
  have _ := hn
  obtain ⟨h1, _⟩ := minBE_spec (n + 1) n (Nat.lt_succ_self n)
  unfold longToBytes
  dsimp only
  rw [if_neg (by omega), beNat_zeros, h1]

theorem ljust64_length (x : Bytes) (h : x.length ≤ 64) : (ljust64 x).length = 64 := by
  simp [ljust64]; omega

/-- credentials of up to 64 bytes give the 128-byte block -/
theorem C14_cred_block (user pass : Bytes) (hu : user.length ≤ 64) (hp : pass.length ≤ 64) :
    (ljust64 user ++ ljust64 pass).length = 128 ∧ (ljust64 user).take user.length = user := by
  constructor
  · rw [List.length_append, ljust64_length _ hu, ljust64_length _ hp]
  · simp [ljust64]

/-- the reply is the ciphertext followed by a public key of exactly the server's key length -/
theorem C14_ard_len (md5 : Bytes → Bytes) (aes : Bytes → Bytes → Bytes) (haes : ∀ k d, (aes k d).length = d.length)
    (g L m sk s : Nat) (user pass : Bytes) (hL : 0 < L) (hm : 0 < m) (hmL : m ≤ 256 ^ L)
    (hu : user.length ≤ 64) (hp : pass.length ≤ 64) :
    (ardReply md5 aes g L m sk s user pass).length = 128 + L := by
  unfold ardReply
  dsimp only
  rw [List.length_append, haes, (C14_cred_block user pass hu hp).1, C14_long_to_bytes_len _ _ hL]
  rw [C14_powmod]
  exact Nat.lt_of_lt_of_le (Nat.mod_lt _ hm) hmL

/-- both sides derive the same secret: (g^a)^s = (g^s)^a mod m, so with both padding to L bytes they hash the same
    bytes and derive the same AES key -/
theorem C14_ard_agree (g a s m L : Nat) :
    longToBytes (pyPow (pyPow g a m) s m) L = longToBytes (pyPow (pyPow g s m) a m) L := by
  simp only [C14_powmod]
  rw [← Nat.pow_mod, ← Nat.pow_mod, ← Nat.pow_mul, ← Nat.pow_mul, Nat.mul_comm]

/-- a server holding the matching private key recovers the NUL padded user name and password -/
theorem C14_ard_recover (md5 : Bytes → Bytes) (aes aesDec : Bytes → Bytes → Bytes)
    (hinv : ∀ k d, aesDec k (aes k d) = d) (haes : ∀ k d, (aes k d).length = d.length)
    (g a s m L : Nat) (user pass : Bytes) (hu : user.length ≤ 64) (hp : pass.length ≤ 64) :
    let reply := ardReply md5 aes g L m (pyPow g a m) s user pass
    let pub := beNat (reply.drop 128)
    (hL : 0 < L) → (hm : 0 < m) → (hmL : m ≤ 256 ^ L) →
    aesDec (md5 (longToBytes (pyPow pub a m) L)) (reply.take 128) = ljust64 user ++ ljust64 pass := by
  intro reply pub hL hm hmL
  have hlen : (aes (md5 (longToBytes (pyPow (pyPow g a m) s m) L)) (ljust64 user ++ ljust64 pass)).length = 128 := by
    rw [haes, (C14_cred_block user pass hu hp).1]
  have hpub : pub = pyPow g s m := by
    show beNat ((ardReply md5 aes g L m (pyPow g a m) s user pass).drop 128) = _
    unfold ardReply
    dsimp only
    rw [List.drop_left' hlen, C14_long_to_bytes_value _ _ hL]
    rw [C14_powmod]
    exact Nat.lt_of_lt_of_le (Nat.mod_lt _ hm) hmL
  have htake : reply.take 128 = aes (md5 (longToBytes (pyPow (pyPow g a m) s m) L)) (ljust64 user ++ ljust64 pass) := by
    show (ardReply md5 aes g L m (pyPow g a m) s user pass).take 128 = _
    unfold ardReply
    dsimp only
    rw [List.take_left' hlen]
  rw [htake, hpub, ← C14_ard_agree, hinv]

end Vnc
