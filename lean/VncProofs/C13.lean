import VncSpec.PixelFormat
import VncModel.Canvas
import VncProofs.C01
/-!
# C13 — Client and server always agree on pixel format and encodings

Model: `connectionMade` (VncModel/Rfb.lean = client.py `setImageMode`, `vncConnectionMade`; rfb.py `setPixelFormat`,
`setEncodings`), `decodePixel` (VncModel/Canvas.lean = Pillow raw modes), with `PF2IM`, `RGB32`, `BGR16`,
`SUPPORTED_ENCODINGS` and the encoding numbers extracted from the source on this run.
-/
namespace Vnc
open Vnc.Spec

/-- the table of accepted formats, as extracted -/
theorem C13_table : Tables.PF2IM.map (·.2) = ["RGB", "RGBX", "BGR;16", "BGR", "BGRX"] := by decide

/-- every accepted format is rendered with a raw mode of exactly its pixel size (framing and rendering agree) -/
theorem C13_mode_size : ∀ e ∈ Tables.PF2IM, modeBypp e.2 = e.1.bypp ∧ 0 < e.1.bypp := by
  intro e he
  simp only [Tables.PF2IM, List.mem_cons, List.not_mem_nil, or_false] at he
  rcases he with rfl | rfl | rfl | rfl | rfl <;> decide

/-- **every pixel value of every accepted format**: the raw mode the client renders with maps the wire bits of
    red, green and blue to the right channels (bit-level arithmetic, not enumeration) -/
theorem C13_modes : ∀ e ∈ Tables.PF2IM, ∀ p : Bytes, p.length = e.1.bypp →
    decodePixel e.2 p = channels e.1 (assemble e.1.bigendian p) := by
  intro e he
  simp only [Tables.PF2IM, List.mem_cons, List.not_mem_nil, or_false] at he
  rcases he with rfl | rfl | rfl | rfl | rfl <;> intro p hlen <;> simp only [PF.bypp] at hlen
  · match p, hlen with
    | [a, b, c], _ =>
      have := a.toNat_lt; have := b.toNat_lt; have := c.toNat_lt
      simp [decodePixel, channels, channel, assemble, leNat]
      omega
  · match p, hlen with
    | [a, b, c, d], _ =>
      have := a.toNat_lt; have := b.toNat_lt; have := c.toNat_lt; have := d.toNat_lt
      simp [decodePixel, channels, channel, assemble, leNat]
      omega
  · match p, hlen with
    | [a, b], _ =>
      have := a.toNat_lt; have := b.toNat_lt
      simp [decodePixel, channels, channel, assemble, leNat]
  · match p, hlen with
    | [a, b, c], _ =>
      have := a.toNat_lt; have := b.toNat_lt; have := c.toNat_lt
      simp [decodePixel, channels, channel, assemble, leNat]
      omega
  · match p, hlen with
    | [a, b, c, d], _ =>
      have := a.toNat_lt; have := b.toNat_lt; have := c.toNat_lt; have := d.toNat_lt
      simp [decodePixel, channels, channel, assemble, leNat]
      omega

/-! ### helper lemmas for `connectionMade` -/

/-- the pixel-format part of `connectionMade` -/
def cmPF (c : Core) : Core × List Out :=
  match Tables.PF2IM.find? (fun (e : PF × String) => e.1 == c.pf) with
  | some e => ({ c with imageMode := e.2 }, [])
  | none =>
    let pf' := if c.versionServer == (3, 889) then Tables.BGR16 else Tables.RGB32
    let mode := match Tables.PF2IM.find? (fun (e : PF × String) => e.1 == pf') with
      | some e => e.2
      | none => ""
    ({ c with pf := pf', imageMode := mode }, [Out.write (wSetPixelFormat pf')])

theorem connectionMade_eq (c : Core) (hk : c.cfg.kind ≠ .base) :
    connectionMade c = ((cmPF c).1, (cmPF c).2 ++ setEncodingsOuts
      (advertised c.cfg.encoding (c.cfg.pseudocursor || c.cfg.nocursor) c.cfg.pseudodesktop c.cfg.lastRect
        c.cfg.qemuExt) ++ [.made]) := by
  unfold connectionMade
  cases hkk : c.cfg.kind with
  | base => exact absurd hkk hk
  | lib => rfl
  | cli => rfl

theorem connectionMade_base (c : Core) (hk : c.cfg.kind = .base) : connectionMade c = (c, [.made]) := by
  unfold connectionMade; simp [hk]

theorem find_RGB32 : Tables.PF2IM.find? (fun (e : PF × String) => e.1 == Tables.RGB32) = some (Tables.RGB32, "RGBX") := by
  decide
theorem find_BGR16 : Tables.PF2IM.find? (fun (e : PF × String) => e.1 == Tables.BGR16) = some (Tables.BGR16, "BGR;16") := by
  decide

theorem cmPF_some (c : Core) (m : String) (h : (c.pf, m) ∈ Tables.PF2IM) :
    ∃ e ∈ Tables.PF2IM, e.1 = c.pf ∧ cmPF c = ({ c with imageMode := e.2 }, []) := by
  unfold cmPF
  cases hf : Tables.PF2IM.find? (fun (e : PF × String) => e.1 == c.pf) with
  | none =>
    rw [List.find?_eq_none] at hf
    have := hf _ h
    simp at this
  | some e =>
    refine ⟨e, List.mem_of_find?_eq_some hf, ?_, rfl⟩
    have := List.find?_some hf
    simpa using this

theorem cmPF_none (c : Core) (h : ∀ m, (c.pf, m) ∉ Tables.PF2IM) :
    cmPF c = ({ c with pf := (if c.versionServer = (3, 889) then Tables.BGR16 else Tables.RGB32),
                       imageMode := (if c.versionServer = (3, 889) then "BGR;16" else "RGBX") },
      [Out.write (wSetPixelFormat (if c.versionServer = (3, 889) then Tables.BGR16 else Tables.RGB32))]) := by
  unfold cmPF
  cases hf : Tables.PF2IM.find? (fun (e : PF × String) => e.1 == c.pf) with
  | some e =>
    have h1 := List.mem_of_find?_eq_some hf
    have h2 := List.find?_some hf
    simp at h2
    exact absurd (h2 ▸ h1 : (c.pf, e.2) ∈ Tables.PF2IM) (h _)
  | none =>
    by_cases hv : c.versionServer = (3, 889)
    · simp [hv, find_BGR16]
    · simp [hv, find_RGB32]

/-- all 2^128 ServerInit pixel-format blocks: if the native format is one the client can render it is kept and no
    SetPixelFormat is written; otherwise the client announces RGB32 (BGR16 for Apple's 3.889) and switches to it.
    In both cases the format in force afterwards is an accepted one and the image mode is the table's. -/
theorem C13_accept_or_set (c : Core) (hk : c.cfg.kind ≠ .base) :
    let r := connectionMade c
    ((∃ m, (c.pf, m) ∈ Tables.PF2IM) →
        r.1.pf = c.pf ∧ (r.1.pf, r.1.imageMode) ∈ Tables.PF2IM ∧
        ∀ pf', Out.write (wSetPixelFormat pf') ∉ r.2.take 1) ∧
    ((∀ m, (c.pf, m) ∉ Tables.PF2IM) →
        r.1.pf = (if c.versionServer = (3, 889) then Tables.BGR16 else Tables.RGB32) ∧
        (r.1.pf, r.1.imageMode) ∈ Tables.PF2IM ∧ r.2.head? = some (.write (wSetPixelFormat r.1.pf))) := by
  intro r
  have hr : r = _ := connectionMade_eq c hk
  refine ⟨?_, ?_⟩
  · rintro ⟨m, hm⟩
    obtain ⟨e, he, he1, hc⟩ := cmPF_some c m hm
    rw [hr, hc]
    refine ⟨rfl, ?_, ?_⟩
    · dsimp only; rw [← he1]; exact he
    · intro pf'
      simp [setEncodingsOuts, wSetPixelFormat]
  · intro hn
    rw [hr, cmPF_none c hn]
    refine ⟨rfl, ?_, ?_⟩
    · dsimp only
      by_cases hv : c.versionServer = (3, 889)
      · simp only [hv, if_true]; decide
      · simp only [hv, if_false]; decide
    · simp

/-- the format the client interprets pixel data in is always the one in force on the wire: it changes `pf` only
    together with the SetPixelFormat it writes -/
theorem C13_in_force (c : Core) :
    (connectionMade c).1.pf = c.pf ∨ Out.write (wSetPixelFormat (connectionMade c).1.pf) ∈ (connectionMade c).2 := by
  by_cases hk : c.cfg.kind = .base
  · left; rw [connectionMade_base c hk]
  · have h := (C13_accept_or_set c hk)
    by_cases hm : ∃ m, (c.pf, m) ∈ Tables.PF2IM
    · left; exact (h.1 hm).1
    · right
      have := (h.2 (by simpa using hm)).2.2
      exact List.mem_of_mem_head? (by rw [this]; rfl)

/-! ### helper lemmas: the shared continuations do not touch the core -/

theorem go_core (c : Core) (ph : Phase) (o : List Out) : (go c ph o).1.core = c := rfl
theorem dead_core (c : Core) (o : List Out) : (dead c o).1.core = c := rfl
theorem clientInit_core (c : Core) (o : List Out) : (clientInit c o).1.core = c := rfl
theorem doConnection_core (c : Core) (o : List Out) : (doConnection c o).1.core = c := by
  unfold doConnection; split
  · rfl
  · split <;> rfl
theorem nextHextile_aux_core (c : Core) (bg fg : Option Bytes) (x y w h : Nat) (p : Nat × Nat) (o : List Out) :
    (if p.2 ≥ y + h then doConnection c o else go c (.hextile bg fg x y w h p.1 p.2) o).1.core = c := by
  split
  · exact doConnection_core _ _
  · rfl
theorem nextHextile_core (c : Core) (bg fg : Option Bytes) (x y w h : Nat) (t : Option (Nat × Nat))
    (o : List Out) : (nextHextile c bg fg x y w h t o).1.core = c := by
  unfold nextHextile
  exact nextHextile_aux_core c bg fg x y w h _ o

theorem step_core (s : RSt) (b : Bytes) : (step s b).1.core = (stepCore s b).1.core := by
  unfold step
  dsimp only
  split <;> rfl

/-- the handler result keeps the pixel format and image mode `pf`, `m` -/
def Keeps (pf : PF) (m : String) (r : RSt × List Out) : Prop := r.1.core.pf = pf ∧ r.1.core.imageMode = m

theorem keeps_ite {pf : PF} {m : String} {p : Prop} [Decidable p] {a b : RSt × List Out}
    (ha : Keeps pf m a) (hb : Keeps pf m b) : Keeps pf m (if p then a else b) := by
  split <;> assumption
theorem keeps_go {pf : PF} {m : String} {c : Core} {ph : Phase} {o : List Out}
    (h1 : c.pf = pf) (h2 : c.imageMode = m) : Keeps pf m (go c ph o) := ⟨h1, h2⟩
theorem keeps_dead {pf : PF} {m : String} {c : Core} {o : List Out}
    (h1 : c.pf = pf) (h2 : c.imageMode = m) : Keeps pf m (dead c o) := ⟨h1, h2⟩
theorem keeps_doConnection {pf : PF} {m : String} {c : Core} {o : List Out}
    (h1 : c.pf = pf) (h2 : c.imageMode = m) : Keeps pf m (doConnection c o) := by
  simp only [Keeps, doConnection_core]; exact ⟨h1, h2⟩
theorem keeps_nextHextile {pf : PF} {m : String} {c : Core} {bg fg : Option Bytes} {x y w h : Nat}
    {t : Option (Nat × Nat)} {o : List Out}
    (h1 : c.pf = pf) (h2 : c.imageMode = m) : Keeps pf m (nextHextile c bg fg x y w h t o) := by
  simp only [Keeps, nextHextile_core]; exact ⟨h1, h2⟩

/-- no later state changes the pixel format: only ServerInit and connectionMade assign it -/
theorem C13_pf_stable (s : RSt) (b : Bytes) (h1 : s.ph ≠ .serverInit) (h2 : ∀ n, s.ph ≠ .serverName n) :
    (step s b).1.core.pf = s.core.pf ∧ (step s b).1.core.imageMode = s.core.imageMode := by
  rw [step_core]
  obtain ⟨c, ph⟩ := s
  cases ph <;> simp only [stepCore]
  case serverInit => exact absurd rfl h1
  case serverName n => exact absurd rfl (h2 n)
  case rectangle =>
    by_cases he : (s32 (beNat (b.drop 8)) == Tables.ENC_PSEUDO_LAST_RECT) = true
    · simp only [he, if_true, if_false, ne_eq, not_true_eq_false]
      simp only [doConnection_core, and_self]
    · simp only [he, ne_eq]
      refine (?_ : Keeps c.pf c.imageMode _)
      repeat' first
        | exact keeps_go rfl rfl
        | exact keeps_dead rfl rfl
        | exact keeps_doConnection rfl rfl
        | exact keeps_nextHextile rfl rfl
        | apply keeps_ite
  all_goals
    (repeat' split) <;>
    (try simp only [go_core, dead_core, clientInit_core, doConnection_core, nextHextile_core, and_self])

/-- the SetEncodings message(s): exactly the advertised list of the Spec, for all 2^5 option combinations -/
theorem C13_encodings (c : Core) (hk : c.cfg.kind ≠ .base) :
    ∃ pre, (connectionMade c).2 = pre ++ setEncodingsOuts
      (advertised c.cfg.encoding (c.cfg.pseudocursor || c.cfg.nocursor) c.cfg.pseudodesktop c.cfg.lastRect c.cfg.qemuExt)
      ++ [.made] ∧ pre.length ≤ 1 := by
  refine ⟨(cmPF c).2, ?_, ?_⟩
  · rw [connectionMade_eq c hk]
  · unfold cmPF
    split <;> simp

/-- the client advertises only encodings it can decode (when its preferred encoding is one of them) -/
theorem C13_only_supported (pref : Int) (hp : pref ∈ Tables.SUPPORTED_ENCODINGS) (a b c d : Bool) :
    ∀ e ∈ advertised pref a b c d, e ∈ Tables.SUPPORTED_ENCODINGS := by
  intro e he
  simp only [advertised] at he
  cases a <;> cases b <;> cases c <;> cases d <;> simp at he <;> 
    (try rcases he with rfl | he) <;> first | assumption | (simp [Tables.SUPPORTED_ENCODINGS]; try omega)

/-- the encoding numbers the model uses are the RFC's -/
theorem C13_numbers : Tables.ENC_PSEUDO_CURSOR = -239 ∧ Tables.ENC_PSEUDO_DESKTOP_SIZE = -223 ∧
    Tables.ENC_PSEUDO_LAST_RECT = -224 ∧ Tables.ENC_PSEUDO_QEMU_EXTENDED_KEY_EVENT = -258 ∧
    Tables.ENC_RAW = 0 ∧ Tables.ENC_COPY_RECTANGLE = 1 ∧ Tables.ENC_RRE = 2 ∧ Tables.ENC_CORRE = 4 ∧
    Tables.ENC_HEXTILE = 5 ∧ Tables.ENC_ZRLE = 16 := by decide

/-- factory defaults as documented: cursor off, desktop resize / last-rect / extended key on -/
theorem C13_defaults : Tables.FACTORY_pseudocursor = false ∧ Tables.FACTORY_nocursor = false ∧
    Tables.FACTORY_pseudodesktop = true ∧ Tables.FACTORY_last_rect = true ∧ Tables.FACTORY_qemu_extended_key = true ∧
    Tables.DEFAULT_ENCODING = 0 := by decide

/-- SetEncodings on the wire: the header counts exactly the list -/
theorem C13_setencodings_wire (es : List Int) :
    setEncodingsOuts es = (.write ([2, 0] ++ enc16 es.length)) :: es.map (fun e => Out.write (encS32 e)) := by
  simp [setEncodingsOuts]

end Vnc
