import VncModel.Client
namespace Vnc
end Vnc
