import VncModel.Client
import VncProofs.C02
import VncProofs.C19
/-!
# C06 — A screen capture is a complete, current, whole-desktop snapshot
# C07 — expect completes exactly when the screen matches, and keeps polling until then

Model: VncModel/Client.lean (`startCmd` for capture / expect, `onCommit`, `expectCompare`) on top of the protocol
machine (VncModel/Rfb.lean: `commit` is emitted only when an update is complete) and the canvas.
-/
namespace Vnc

def Act.isSave : Act → Bool
  | .save .. => true
  | _ => false

/-! ## C06 -/

/-! ### helpers: `requestAll` (never let the kernel evaluate `packH` on a symbolic size) -/

def reqG (inc : Bool) (x y w h : Int) : List Act :=
  requestAll.match_1 (fun _ => List Act) (wUpdateRequest inc x y w h) (fun b => [Act.write b]) (fun _ => [])

theorem requestAll_reqG (core : Core) (inc : Bool) : requestAll core inc = reqG inc 0 0 core.width core.height :=
  Eq.refl (requestAll core inc)

theorem reqG_some (inc : Bool) (x y w h : Int) (b : Bytes)
    (hb : wUpdateRequest inc x y w h = some b) : reqG inc x y w h = [.write b] := by
  unfold reqG
  rw [hb]

theorem reqG_none (inc : Bool) (x y w h : Int) 
    (hb : wUpdateRequest inc x y w h = none) : reqG inc x y w h = [] := by
  unfold reqG
  rw [hb]

theorem requestAll_eq (core : Core) (inc : Bool) (hw : core.width < 65536) (hh : core.height < 65536) :
    requestAll core inc = [.write ([3, if inc then 1 else 0, 0, 0, 0, 0] ++ enc16 core.width ++ enc16 core.height)] := by
  have h : wUpdateRequest inc 0 0 core.width core.height = _ :=
    wUpdateRequest_nat inc 0 0 core.width core.height (by omega) (by omega) hw hh
  rw [requestAll_reqG, reqG_some inc _ _ _ _ _ h]
  cases inc <;> rfl

theorem requestAll_write (core : Core) (inc : Bool) : ∀ act ∈ requestAll core inc, ∃ b, act = .write b := by
  intro act h
  rw [requestAll_reqG] at h
  cases ho : wUpdateRequest inc 0 0 core.width core.height with
  | some b => rw [reqG_some _ _ _ _ _ b ho] at h; exact ⟨b, by simpa using h⟩
  | none => rw [reqG_none _ _ _ _ _ ho] at h; simp at h

theorem requestAll_nosave (core : Core) (inc : Bool) : ∀ act ∈ requestAll core inc, act.isSave = false := by
  intro act h
  obtain ⟨b, rfl⟩ := requestAll_write core inc act h
  rfl

theorem keyActs_write (a : App) (op : KeyOp) (k : Word) (w : List Act) (h : keyActs a op k = some w) :
    ∀ act ∈ w, act.isSave = false := by
  simp only [keyActs, Option.map_eq_some_iff] at h
  obtain ⟨ws, _, rfl⟩ := h
  intro act hact
  simp only [List.mem_map] at hact
  obtain ⟨b, _, rfl⟩ := hact
  rfl

theorem ptrActs_write (a : App) (op : PtrOp) (a' : App) (w : List Act) (h : ptrActs a op = some (a', w)) :
    ∀ act ∈ w, act.isSave = false := by
  simp only [ptrActs, Option.map_eq_some_iff] at h
  obtain ⟨ws, _, h⟩ := h
  injection h with _ h
  subst h
  intro act hact
  simp only [List.mem_map] at hact
  obtain ⟨b, _, rfl⟩ := hact
  rfl

theorem startCmd_captureScreen (a : App) (core : Core) (screen : Option Img) (f : Word) :
    startCmd a core screen (.captureScreen f) =
      ({ a with waiter := some (.capture f none) }, requestAll core a.env.incremental, .commit) := rfl
theorem startCmd_captureRegion (a : App) (core : Core) (screen : Option Img) (f : Word) (x y wd h : Int) :
    startCmd a core screen (.captureRegion f x y wd h) =
    ({ a with waiter := some (.capture f (some (x, y, x + wd, y + h))) }, requestAll core false, .commit) := rfl
theorem startCmd_expectScreen (a : App) (core : Core) (screen : Option Img) (f rms : Word) :
    startCmd a core screen (.expectScreen f rms) =
    match a.env.image f with
    | none => (a, [], .fail "os")
    | some (wd, h, hist) =>
      let r := expectCompare a core screen (0, 0, wd, h) rms hist
      (r.1, r.2.1, if r.2.2 then .cont else .commit) := rfl
theorem startCmd_expectRegion (a : App) (core : Core) (screen : Option Img) (f rms : Word) (x y : Int) :
    startCmd a core screen (.expectRegion f x y rms) =
    match a.env.image f with
    | none => (a, [], .fail "os")
    | some (wd, h, hist) =>
      let r := expectCompare a core screen (x, y, x + wd, y + h) rms hist
      (r.1, r.2.1, if r.2.2 then .cont else .commit) := rfl

def matchedB (a : App) (screen : Option Img) (box : Int × Int × Int × Int) (rms : Word) (expected : List Nat) : Bool :=
  match screen with
  | none => false
  | some s =>
    (histogram (s.crop box.1 box.2.1 box.2.2.1 box.2.2.2)).length == expected.length &&
      a.env.within rms (sqDiff (histogram (s.crop box.1 box.2.1 box.2.2.1 box.2.2.2)) expected)
        (histogram (s.crop box.1 box.2.1 box.2.2.1 box.2.2.2)).length

theorem expectCompare_eq (a : App) (core : Core) (screen : Option Img) (box : Int × Int × Int × Int) (rms : Word)
    (expected : List Nat) : expectCompare a core screen box rms expected =
      if matchedB a screen box rms expected then (a, [], true)
      else ({ a with waiter := some (.expect box rms expected) }, requestAll core screen.isSome, false) := by
  cases screen <;> rfl

theorem expectCompare_true (a : App) (core : Core) (screen : Option Img) (box : Int × Int × Int × Int) (rms : Word)
    (expected : List Nat) (h : matchedB a screen box rms expected = true) :
    expectCompare a core screen box rms expected = (a, [], true) := by
  rw [expectCompare_eq, if_pos h]

theorem expectCompare_false (a : App) (core : Core) (screen : Option Img) (box : Int × Int × Int × Int) (rms : Word)
    (expected : List Nat) (h : matchedB a screen box rms expected = false) :
    expectCompare a core screen box rms expected =
      ({ a with waiter := some (.expect box rms expected) }, requestAll core screen.isSome, false) := by
  rw [expectCompare_eq, if_neg (by rw [h]; exact Bool.false_ne_true)]

theorem expectCompare_nosave (a : App) (core : Core) (screen : Option Img) (box : Int × Int × Int × Int) (rms : Word)
    (expected : List Nat) : ∀ act ∈ (expectCompare a core screen box rms expected).2.1, act.isSave = false := by
  cases h : matchedB a screen box rms expected
  · rw [expectCompare_false _ _ _ _ _ _ h]; dsimp only; exact requestAll_nosave _ _
  · rw [expectCompare_true _ _ _ _ _ _ h]; intro act h; cases h


/-- a capture asks for the whole desktop *as most recently announced* (`core.width/height` are set by ServerInit and
    by every DesktopSize pseudo-rectangle: `C02_desktop_geometry`), writes nothing else, and waits for a commit -/
theorem C06_request_geometry (a : App) (core : Core) (screen : Option Img) (f : Word)
    (hw : core.width < 65536) (hh : core.height < 65536) :
    let r := startCmd a core screen (.captureScreen f)
    r.2.1 = [.write ([3, if a.env.incremental then 1 else 0, 0, 0, 0, 0] ++ enc16 core.width ++ enc16 core.height)] ∧
    r.2.2 = .commit ∧ r.1.waiter.isSome = true := by
  rw [startCmd_captureScreen]
  dsimp only
  exact ⟨requestAll_eq core _ hw hh, rfl, rfl⟩

theorem C06_region_request (a : App) (core : Core) (screen : Option Img) (f : Word) (x y w h : Int)
    (hw : core.width < 65536) (hh : core.height < 65536) :
    (startCmd a core screen (.captureRegion f x y w h)).2.1 =
      [.write ([3, 0, 0, 0, 0, 0] ++ enc16 core.width ++ enc16 core.height)] := by
  rw [startCmd_captureRegion]
  dsimp only
  exact requestAll_eq core _ hw hh

/-- nothing but a commit ever writes an image: starting a command never saves -/
theorem C06_no_save_on_start (a : App) (core : Core) (screen : Option Img) (c : Cmd) :
    ∀ act ∈ (startCmd a core screen c).2.1, act.isSave = false := by
  cases c
  case captureScreen f => rw [startCmd_captureScreen]; dsimp only; exact requestAll_nosave _ _
  case captureRegion f x y w h => rw [startCmd_captureRegion]; dsimp only; exact requestAll_nosave _ _
  case pauseArg d => intro act h; cases h
  case pauseDelay => intro act h; cases h
  case paste t =>
    delta startCmd
    dsimp only
    split
    · intro act h
      simp only [List.mem_singleton] at h
      subst h; rfl
    · intro act h; cases h
  case expectScreen f rms =>
    rw [startCmd_expectScreen]
    split
    · intro act h; cases h
    · exact expectCompare_nosave _ _ _ _ _ _
  case expectRegion f x y rms =>
    rw [startCmd_expectRegion]
    split
    · intro act h; cases h
    · exact expectCompare_nosave _ _ _ _ _ _
  case mouseDrag x y =>
    delta startCmd
    dsimp only
    split
    · split
      · rename_i a' w hw; exact ptrActs_write _ _ _ _ hw
      · intro act h; cases h
    · split
      · intro act h; cases h
      · rename_i a' w hw; exact ptrActs_write _ _ _ _ hw
  case keyPress k =>
    delta startCmd
    dsimp only
    split
    · rename_i w hw; exact keyActs_write _ _ _ _ hw
    · intro act h; cases h
  case keyDown k =>
    delta startCmd
    dsimp only
    split
    · rename_i w hw; exact keyActs_write _ _ _ _ hw
    · intro act h; cases h
  case keyUp k =>
    delta startCmd
    dsimp only
    split
    · rename_i w hw; exact keyActs_write _ _ _ _ hw
    · intro act h; cases h
  case mouseMove x y =>
    delta startCmd
    dsimp only
    split
    · rename_i a' w hw; exact ptrActs_write _ _ _ _ hw
    · intro act h; cases h
  all_goals
    delta startCmd
    dsimp only
    split
    · intro act h; cases h
    · split
      · rename_i a' w hw; exact ptrActs_write _ _ _ _ hw
      · intro act h; cases h


/-! ### helpers: which handler outputs can contain a commit -/

def notCommit : Out → Bool
  | .commit _ => false
  | _ => true

/-- a commit in the outputs means the machine went to the `connection` state -/
def CG (r : RSt × List Out) : Prop := ∀ rects, Out.commit rects ∈ r.2 → r.1.ph = .connection

theorem cg_of_none (r : RSt × List Out) (h : ∀ o ∈ r.2, notCommit o = true) : CG r := by
  intro rects hm
  have := h _ hm
  cases this

theorem cg_ite (p : Prop) [Decidable p] (x y : RSt × List Out) (hx : CG x) (hy : CG y) : CG (if p then x else y) := by
  split <;> assumption

theorem cg_go (c : Core) (ph : Phase) (outs : List Out) (h : ∀ o ∈ outs, notCommit o = true) : CG (go c ph outs) :=
  cg_of_none _ h

theorem cg_dead (c : Core) (outs : List Out) (h : ∀ o ∈ outs, notCommit o = true) : CG (dead c outs) :=
  cg_of_none _ h

theorem cg_clientInit (c : Core) (pre : List Out) (h : ∀ o ∈ pre, notCommit o = true) : CG (clientInit c pre) := by
  apply cg_of_none
  intro o ho
  simp only [clientInit, go, List.mem_append, List.mem_singleton] at ho
  rcases ho with ho | rfl
  · exact h o ho
  · rfl

theorem cg_doConnection (c : Core) (pre : List Out) (h : ∀ o ∈ pre, notCommit o = true) : CG (doConnection c pre) := by
  unfold doConnection
  split
  · exact cg_go _ _ _ h
  · split
    · intro rects _; rfl
    · exact cg_go _ _ _ h

theorem cg_nextHextile_aux (c : Core) (bg fg : Option Bytes) (x y w h : Nat) (p : Nat × Nat)
    (pre : List Out) (hp : ∀ o ∈ pre, notCommit o = true) :
    CG (if p.2 ≥ y + h then doConnection c pre else go c (.hextile bg fg x y w h p.1 p.2) pre) := by
  split
  · exact cg_doConnection c pre hp
  · exact cg_go _ _ _ hp

theorem cg_nextHextile (c : Core) (bg fg : Option Bytes) (x y w h : Nat) (t : Option (Nat × Nat)) (pre : List Out)
    (hp : ∀ o ∈ pre, notCommit o = true) : CG (nextHextile c bg fg x y w h t pre) := by
  unfold nextHextile
  exact cg_nextHextile_aux c bg fg x y w h _ pre hp

theorem nc_hexColoured_aux (bypp tx ty : Nat) (l : List Bytes) : ∀ (acc : List Out × Option Bytes),
    (∀ o ∈ acc.1, notCommit o = true) →
    ∀ o ∈ (l.foldl (fun (acc : List Out × Option Bytes) r =>
      let col := r.take bypp
      let xy := (r.getD bypp 0).toNat
      let wh := (r.getD (bypp + 1) 0).toNat
      (acc.1 ++ [Out.fill (tx + xy / 16) (ty + xy % 16) (wh / 16 + 1) (wh % 16 + 1) (some col)], some col)) acc).1,
      notCommit o = true := by
  induction l with
  | nil => intro acc h; simpa using h
  | cons r l ih =>
    intro acc h
    rw [List.foldl_cons]
    apply ih
    intro o ho
    simp only [List.mem_append, List.mem_singleton] at ho
    rcases ho with ho | rfl
    · exact h o ho
    · rfl

theorem nc_hexColoured (bypp tx ty : Nat) (b : Bytes) (fg : Option Bytes) :
    ∀ o ∈ (hexColoured bypp tx ty b fg).1, notCommit o = true := by
  unfold hexColoured
  exact nc_hexColoured_aux bypp tx ty _ _ (by simp)

theorem nc_zTiles (cp : Nat) (pad : Bool) (x y w h : Nat) : ∀ (fuel : Nat) (tx ty : Int) (d : Bytes) (outs : List Out),
    (∀ o ∈ outs, notCommit o = true) → ∀ o ∈ (zTiles cp pad x y w h fuel tx ty d outs).1, notCommit o = true := by
  intro fuel
  induction fuel with
  | zero => intro tx ty d outs hall; simpa [zTiles] using hall
  | succ fuel ih =>
    intro tx ty d outs hall
    cases d with
    | nil => simpa [zTiles] using hall
    | cons sub d0 =>
      simp only [zTiles]
      split
      · exact hall
      · rename_i o d' heq
        apply ih
        intro p hp
        rcases List.mem_append.1 hp with hp | hp
        · exact hall p hp
        · generalize (if (x : Int) + w - tx < 64 then (x : Int) + w - tx else 64) = tw at heq
          generalize (if (y : Int) + h - ty < 64 then (y : Int) + h - ty else 64) = th at heq
          repeat' split at heq
          all_goals try simp only [bind, Except.bind, pure, Except.pure] at heq
          all_goals repeat' split at heq
          all_goals first
            | (cases heq; done)
            | (cases heq; simp only [List.mem_singleton] at hp; subst hp; rfl)

theorem nc_zTiles_eq {cp : Nat} {pad : Bool} {x y w h fuel : Nat} {tx ty : Int} {d : Bytes} {outs : List Out}
    {e : Option String} (heq : zTiles cp pad x y w h fuel tx ty d [] = (outs, e)) : ∀ o ∈ outs, notCommit o = true := by
  have := nc_zTiles cp pad x y w h fuel tx ty d [] (by simp)
  rw [heq] at this
  exact this

theorem nc_rreFills (bypp x y : Nat) (b : Bytes) : ∀ o ∈ rreFills bypp x y b, notCommit o = true := by
  intro o ho
  simp only [rreFills, List.mem_map] at ho
  obtain ⟨r, _, rfl⟩ := ho
  rfl

theorem nc_correFills (bypp x y : Nat) (b : Bytes) : ∀ o ∈ correFills bypp x y b, notCommit o = true := by
  intro o ho
  simp only [correFills, List.mem_map] at ho
  obtain ⟨r, _, rfl⟩ := ho
  rfl

theorem nc_hexFG (x y : Nat) (b : Bytes) (fg : Option Bytes) : ∀ o ∈ hexFG x y b fg, notCommit o = true := by
  intro o ho
  simp only [hexFG, List.mem_map] at ho
  obtain ⟨r, _, rfl⟩ := ho
  rfl

theorem stepCore_cg (c : Core) (ph : Phase) (b : Bytes) : CG (stepCore ⟨c, ph⟩ b) := by
  cases ph
  case rectangle =>
    simp -zeta only [stepCore]
    extract_lets c0 bypp x y w h enc c1
    repeat' with_reducible apply cg_ite
    all_goals first
      | (apply cg_go; simp [notCommit]; done)
      | (apply cg_dead; simp [notCommit]; done)
      | (apply cg_doConnection; simp [notCommit]; done)
      | (apply cg_nextHextile; simp [notCommit]; done)
  case serverName n =>
    apply cg_of_none
    intro o ho
    simp only [stepCore, go] at ho
    rcases mem_connectionMade c o ho with rfl | ⟨w, rfl⟩ <;> rfl
  case vncAuth =>
    apply cg_of_none
    intro o ho
    simp only [stepCore, go, requestPassword] at ho
    cases hk : c.cfg.kind <;> cases hpw : c.cfg.hasPassword <;> simp [hk, hpw] at ho <;>
      (try rcases ho with rfl | rfl) <;> (try subst ho) <;> rfl
  case secTypes n =>
    simp only [stepCore]
    split
    · apply cg_dead; simp [notCommit]
    · repeat' with_reducible apply cg_ite
      all_goals first
        | (apply cg_go; simp [notCommit]; done)
        | (apply cg_dead; simp [notCommit]; done)
        | (apply cg_clientInit; simp [notCommit]; done)
  case zrleData n x y w h =>
    simp only [stepCore]
    split
    · apply cg_dead; simp [notCommit]
    · apply cg_dead; simp [notCommit]
    · split
      · rename_i outs e heq
        apply cg_dead
        intro o ho
        rcases List.mem_append.1 ho with ho | ho
        · exact nc_zTiles_eq heq o ho
        · simp at ho; subst ho; rfl
      · rename_i outs heq
        apply cg_doConnection
        exact nc_zTiles_eq heq
  case hextileColoured =>
    simp only [stepCore]
    apply cg_nextHextile
    exact nc_hexColoured _ _ _ _ _
  all_goals
    simp only [stepCore]
    repeat' with_reducible apply cg_ite
    all_goals try split
    all_goals first
      | (apply cg_go; simp [notCommit]; done)
      | (apply cg_go; simp [notCommit]; split <;> simp; done)
      | (apply cg_dead; simp [notCommit]; done)
      | (apply cg_clientInit; simp [notCommit]; done)
      | (apply cg_doConnection; simp [notCommit]; done)
      | (apply cg_nextHextile; simp [notCommit]; done)
      | (apply cg_doConnection; exact nc_rreFills _ _ _ _)
      | (apply cg_doConnection; exact nc_correFills _ _ _ _)
      | (apply cg_nextHextile; exact nc_hexFG _ _ _ _)

/-- a commit is only ever produced at the end of a FramebufferUpdate: the step that emits it leaves the machine
    waiting for the next *message* - never in the middle of an update, however the update is split into chunks -/
theorem C06_commit_ends_update (s : RSt) (b : Bytes) (rects : List Rect) (h : Out.commit rects ∈ (step s b).2) :
    (step s b).1.ph = .connection ∨ (step s b).1.ph = .dead := by
  rcases step_split s b with he | ⟨hd, _⟩
  · left
    rw [he] at h ⊢
    obtain ⟨c, ph⟩ := s
    exact stepCore_cg c ph b rects h
  · exact Or.inr hd

/-! ### helpers: the chain never saves -/

theorem nosave_iff (l : List Act) : (∀ act ∈ l, act.isSave = false) ↔ l.filter Act.isSave = [] := by
  simp [List.filter_eq_nil_iff]

theorem advance_nosave (core : Core) (screen : Option Img) :
    ∀ (fuel : Nat) (a : App), (advance core screen fuel a).2.filter Act.isSave = [] := by
  intro fuel
  induction fuel with
  | zero => intro a; rfl
  | succ n ih =>
    intro a
    rw [advance.eq_2]
    split
    · rfl
    · rename_i c rest hc
      dsimp only
      have hs := (nosave_iff _).1 (C06_no_save_on_start { a with cmds := rest } core screen c)
      split
      all_goals simp only [List.filter_append, hs, ih, List.append_nil]
      all_goals rfl

theorem resume_nosave (core : Core) (screen : Option Img) (a : App) :
    (resume core screen a).2.filter Act.isSave = [] := by
  unfold resume
  dsimp only
  rw [List.filter_append, advance_nosave]
  rfl

/-- at the commit the capture writes exactly one image and it equals the client's screen (or the requested region
    of it) at that moment; the waiter is consumed, so a later commit writes nothing more -/
theorem C06_saved_is_screen (a : App) (core : Core) (s : Img) (f : Word) (box : Option (Int × Int × Int × Int))
    (hw : a.waiter = some (.capture f box)) :
    let r := onCommit core (some s) a
    let img := match box with | none => s | some (x0, y0, x1, y1) => s.crop x0 y0 x1 y1
    r.2.head? = some (.save f img.w img.h img.pixels) ∧ (r.2.filter Act.isSave).length = 1 := by
  unfold onCommit
  rw [hw]
  dsimp only
  split
  · refine ⟨rfl, ?_⟩
    rw [List.filter_append, resume_nosave]
    rfl
  · exact ⟨rfl, rfl⟩

theorem rowMajor_index {α : Type} (f : Nat → Nat → α) (w : Nat) : ∀ h : Nat,
    ((List.range h).flatMap fun y => (List.range w).map fun x => f x y).length = w * h ∧
    ∀ x y, x < w → y < h →
      ((List.range h).flatMap fun y => (List.range w).map fun x => f x y)[y * w + x]? = some (f x y) := by
  intro h
  induction h with
  | zero => exact ⟨by simp, fun x y _ hy => absurd hy (Nat.not_lt_zero _)⟩
  | succ h ih =>
    obtain ⟨hl, hg⟩ := ih
    rw [List.range_succ, List.flatMap_append]
    simp only [List.flatMap_cons, List.flatMap_nil, List.append_nil]
    refine ⟨?_, ?_⟩
    · rw [List.length_append, hl, List.length_map, List.length_range, Nat.mul_succ]
    · intro x y hx hy
      by_cases hyh : y < h
      · have h1 : (y + 1) * w ≤ h * w := Nat.mul_le_mul_right w hyh
        rw [Nat.succ_mul] at h1
        rw [List.getElem?_append_left (by rw [hl, Nat.mul_comm w h]; omega)]
        exact hg x y hx hyh
      · have hy' : y = h := by omega
        subst hy'
        rw [List.getElem?_append_right (by rw [hl, Nat.mul_comm w y]; omega), hl, Nat.mul_comm w y,
          Nat.add_sub_cancel_left, List.getElem?_map, List.getElem?_range hx]
        rfl

theorem C06_pixels_are_screen (s : Img) :
    s.pixels.length = s.w * s.h ∧ ∀ x y, x < s.w → y < s.h → s.pixels[y * s.w + x]? = some (s.get x y) := by
  unfold Img.pixels
  exact rowMajor_index s.get s.w s.h

/-- a completed update that leaves the client without a screen (it carried no pixel data: only a cursor shape, say)
    does not complete a capture and writes nothing: the capture keeps waiting, with exactly one new full request -/
theorem C06_capture_waits_for_pixels (a : App) (core : Core) (f : Word) (box : Option (Int × Int × Int × Int))
    (h : a.waiter = some (.capture f box)) :
    onCommit core none a = ({ a with waiter := some (.capture f box) }, requestAll core false) := by
  unfold onCommit
  rw [h]

/-- without a pending capture / expect a commit does nothing -/
theorem C06_commit_without_waiter (a : App) (core : Core) (screen : Option Img) (h : a.waiter = none) :
    onCommit core screen a = (a, []) := by
  unfold onCommit
  rw [h]

/-! ## C07 -/

/-- the comparison: completes iff a screen exists, the histograms have the same number of bins and the RMS test
    (`env.within`: `sqrt(Σ (h-e)² / n) ≤ maxrms`) holds; otherwise exactly one update request is written
    (incremental iff a screen exists) and the wait is re-armed with the same box, tolerance and expected histogram -/
theorem C07_complete_iff (a : App) (core : Core) (screen : Option Img) (box : Int × Int × Int × Int) (rms : Word)
    (expected : List Nat) (hw : core.width < 65536) (hh : core.height < 65536) :
    let r := expectCompare a core screen box rms expected
    (r.2.2 = true ↔ ∃ s, screen = some s ∧
        (histogram (s.crop box.1 box.2.1 box.2.2.1 box.2.2.2)).length = expected.length ∧
        a.env.within rms (sqDiff (histogram (s.crop box.1 box.2.1 box.2.2.1 box.2.2.2)) expected)
          (histogram (s.crop box.1 box.2.1 box.2.2.1 box.2.2.2)).length = true) ∧
    (r.2.2 = true → r.2.1 = [] ∧ r.1 = a) ∧
    (r.2.2 = false → r.2.1 = [.write ([3, if screen.isSome then 1 else 0, 0, 0, 0, 0] ++ enc16 core.width ++ enc16 core.height)] ∧
        r.1.waiter = some (.expect box rms expected)) := by
  have hm : matchedB a screen box rms expected = true ↔ ∃ s, screen = some s ∧
        (histogram (s.crop box.1 box.2.1 box.2.2.1 box.2.2.2)).length = expected.length ∧
        a.env.within rms (sqDiff (histogram (s.crop box.1 box.2.1 box.2.2.1 box.2.2.2)) expected)
          (histogram (s.crop box.1 box.2.1 box.2.2.1 box.2.2.2)).length = true := by
    cases screen with
    | none => simp [matchedB]
    | some s => simp [matchedB]
  cases h : matchedB a screen box rms expected
  · rw [expectCompare_false _ _ _ _ _ _ h]
    dsimp only
    rw [← hm, h]
    refine ⟨Iff.rfl, fun hc => absurd hc Bool.false_ne_true, fun _ => ⟨?_, rfl⟩⟩
    exact requestAll_eq core _ hw hh
  · rw [expectCompare_true _ _ _ _ _ _ h]
    dsimp only
    rw [← hm, h]
    exact ⟨Iff.rfl, fun _ => ⟨rfl, rfl⟩, fun hc => absurd hc.symm Bool.false_ne_true⟩

theorem sqDiff_self_aux (l : List Nat) : ∀ acc : Nat,
    (List.zipWith (fun (x y : Nat) => (max x y - min x y) ^ 2) l l).foldl (· + ·) acc = acc := by
  induction l with
  | nil => intro acc; rfl
  | cons x l ih =>
    intro acc
    rw [List.zipWith_cons_cons, List.foldl_cons, ih]
    simp

theorem sqDiff_self (l : List Nat) : sqDiff l l = 0 := sqDiff_self_aux l 0

/-- a region that is pixel-identical to the awaited image has the same histogram: zero difference -/
theorem C07_identical (i j : Img) (hw : i.w = j.w) (hh : i.h = j.h) (hp : ∀ x y, x < i.w → y < i.h → i.get x y = j.get x y) :
    histogram i = histogram j ∧ sqDiff (histogram i) (histogram j) = 0 := by
  have hpx : i.pixels = j.pixels := by
    unfold Img.pixels
    rw [← hw, ← hh]
    rw [List.flatMap_def, List.flatMap_def]
    congr 1
    apply List.map_congr_left
    intro y hy
    apply List.map_congr_left
    intro x hx
    exact hp x y (List.mem_range.1 hx) (List.mem_range.1 hy)
  have hh' : histogram i = histogram j := by
    unfold histogram
    rw [hpx]
  exact ⟨hh', by rw [hh']; exact sqDiff_self _⟩

theorem C07_histogram_length (i : Img) : (histogram i).length = 768 := by
  simp [histogram]

/-- the region compared is the box at the given offset having the image's size -/
theorem C07_box (a : App) (core : Core) (screen : Option Img) (f : Word) (x y : Int) (rms : Word) (w h : Nat) (hist : List Nat)
    (hi : a.env.image f = some (w, h, hist)) :
    startCmd a core screen (.expectRegion f x y rms) =
      (let r := expectCompare a core screen (x, y, x + w, y + h) rms hist
       (r.1, r.2.1, if r.2.2 then .cont else .commit)) ∧
    startCmd a core screen (.expectScreen f rms) =
      (let r := expectCompare a core screen (0, 0, (w : Int), (h : Int)) rms hist
       (r.1, r.2.1, if r.2.2 then .cont else .commit)) := by
  rw [startCmd_expectRegion, startCmd_expectScreen, hi]
  exact ⟨rfl, rfl⟩

/-- while the screen does not match, every completed update triggers exactly one further request and the wait goes on;
    the script does not continue (neither stalls nor completes early) -/
theorem C07_one_request_per_commit (a : App) (core : Core) (screen : Option Img) (box : Int × Int × Int × Int)
    (rms : Word) (expected : List Nat) (hwt : a.waiter = some (.expect box rms expected))
    (hno : (expectCompare { a with waiter := none } core screen box rms expected).2.2 = false)
    (hw : core.width < 65536) (hh : core.height < 65536) :
    let r := onCommit core screen a
    r.2 = [.write ([3, if screen.isSome then 1 else 0, 0, 0, 0, 0] ++ enc16 core.width ++ enc16 core.height)] ∧
    r.1.waiter = some (.expect box rms expected) ∧ r.1.chain = a.chain ∧ r.1.idx = a.idx := by
  have hm : matchedB { a with waiter := none } screen box rms expected = false := by
    cases h : matchedB { a with waiter := none } screen box rms expected
    · rfl
    · rw [expectCompare_true _ _ _ _ _ _ h] at hno; cases hno
  unfold onCommit
  rw [hwt]
  dsimp only
  rw [expectCompare_false _ _ _ _ _ _ hm]
  rw [if_neg Bool.false_ne_true]
  dsimp only
  exact ⟨requestAll_eq core _ hw hh, rfl, rfl, rfl⟩

/-- it never completes early: if a commit makes the waiting script go on, the comparison held at that instant -/
theorem C07_never_early (a : App) (core : Core) (screen : Option Img) (box : Int × Int × Int × Int)
    (rms : Word) (expected : List Nat) (hwt : a.waiter = some (.expect box rms expected)) (hc : a.chain = .waitCommit)
    (h : Act.finish a.idx ∈ (onCommit core screen a).2) :
    (expectCompare { a with waiter := none } core screen box rms expected).2.2 = true := by
  have _ := hc
  cases hm : matchedB { a with waiter := none } screen box rms expected
  · exfalso
    unfold onCommit at h
    rw [hwt] at h
    dsimp only at h
    rw [expectCompare_false _ _ _ _ _ _ hm] at h
    simp only [Bool.false_eq_true, if_false] at h
    obtain ⟨b, hb⟩ := requestAll_write _ _ _ h
    cases hb
  · rw [expectCompare_true _ _ _ _ _ _ hm]

end Vnc
