import VncModel.Shlex
import VncModel.Proxy
import VncModel.Keys
import VncModel.Script
import VncProofs.C04
/-!
# C18 — A recorded script replays to the same input events

Pipeline: recorder (`recStep`, VncModel/Proxy.lean) → text → `shlexSplit` (VncModel/Shlex.lean = Python's shlex as
`build_command_list` uses it) → `compile` (VncModel/Script.lean) → `decodeKey` (VncModel/Keys.lean).
-/
namespace Vnc


/-! ### helper lemmas: the tokeniser on safe words and on quoted text -/

/-- a safe character is none of the characters the tokeniser treats specially -/
theorem safe_facts (c : Char) (h : isSafeChar c = true) :
    isShWs c = false ∧ c ≠ '#' ∧ c ≠ '\'' ∧ c ≠ '"' ∧ c ≠ '\\' := by
  by_cases h1 : c = ' ' ; · subst h1; revert h; decide
  by_cases h2 : c = '\t' ; · subst h2; revert h; decide
  by_cases h3 : c = '\r' ; · subst h3; revert h; decide
  by_cases h4 : c = '\n' ; · subst h4; revert h; decide
  by_cases h5 : c = '#' ; · subst h5; revert h; decide
  by_cases h6 : c = '\'' ; · subst h6; revert h; decide
  by_cases h7 : c = '"' ; · subst h7; revert h; decide
  by_cases h8 : c = '\\' ; · subst h8; revert h; decide
  simp [isShWs, *]

/-- in word mode safe characters are appended to the token -/
theorem shGo_word_safe (wd : List Char) (hs : wd.all isSafeChar = true) (tok : List Char) (q : Bool)
    (rest : List Char) : shGo .word tok q (wd ++ rest) = shGo .word (tok ++ wd) q rest := by
  induction wd generalizing tok with
  | nil => simp
  | cons c cs ih =>
    simp only [List.all_cons, Bool.and_eq_true] at hs
    obtain ⟨h1, h2, h3, h4, h5⟩ := safe_facts c hs.1
    rw [List.cons_append, shGo]
    simp [h1, h2, h3, h4, h5, ih hs.2]

/-- between tokens a safe character starts a word -/
theorem shGo_ws_safe (c : Char) (hs : isSafeChar c = true) (cs : List Char) :
    shGo .ws [] false (c :: cs) = shGo .word [c] false cs := by
  obtain ⟨h1, h2, h3, h4, h5⟩ := safe_facts c hs
  rw [shGo]
  simp [h1, h2, h3, h4, h5]

/-- inside single quotes the escaped text `escQ s` reads back as `s` (each `'` leaves and re-enters
    single-quote mode through a double-quoted `'`) -/
theorem shGo_sq_esc (s : List Char) (tok : List Char) (rest : List Char) :
    shGo .sq tok true (escQ s ++ rest) = shGo .sq (tok ++ s) true rest := by
  induction s generalizing tok with
  | nil => simp [escQ]
  | cons c cs ih =>
    by_cases hc : c = '\''
    · subst hc
      simp [escQ, shGo, isShWs, ih]
    · simp [escQ, hc, shGo, ih]

/-- the quoted form of `s`, between tokens, leaves the tokeniser in word mode with token `s` -/
theorem shGo_quote (s rest : List Char) : ∃ q, (s = [] → q = true) ∧
    shGo .ws [] false (shlexQuote s ++ rest) = shGo .word s q rest := by
  cases s with
  | nil => exact ⟨true, fun _ => rfl, by simp [shlexQuote, shGo, isShWs]⟩
  | cons c cs =>
    by_cases hs : (c :: cs).all isSafeChar = true
    · refine ⟨false, by simp, ?_⟩
      have hs' := hs
      simp only [List.all_cons, Bool.and_eq_true] at hs'
      have : shlexQuote (c :: cs) = c :: cs := by simp [shlexQuote, hs]
      rw [this, List.cons_append, shGo_ws_safe c hs'.1, shGo_word_safe cs hs'.2]
      rfl
    · refine ⟨true, by simp, ?_⟩
      have : shlexQuote (c :: cs) = '\'' :: (escQ (c :: cs) ++ ['\'']) := by simp [shlexQuote, hs]
      rw [this]
      simp only [List.cons_append, List.append_assoc]
      rw [shGo]
      simp only [isShWs]
      simp [shGo_sq_esc, shGo]

theorem shEmit_cons (tok : List Char) (q : Bool) (r) (h : tok = [] → q = true) :
    shEmit tok q r = (tok :: ·) <$> r := by
  cases tok with
  | nil => simp [shEmit, h rfl]
  | cons c cs => simp [shEmit]

theorem shGo_word_blank (tok : List Char) (q : Bool) (rest : List Char) :
    shGo .word tok q (' ' :: rest) = shEmit tok q (shGo .ws [] false rest) := by
  rw [shGo]; simp [isShWs]

/-! ## shlex.quote / shlex round trip: for every string -/

/-- a quoted token followed by a blank is split off as exactly the original string - whatever it contains:
    quotes, backslashes, `#`, blanks, newlines, control characters, nothing at all -/
theorem C18_quote_split (s rest : List Char) :
    shGo .ws [] false (shlexQuote s ++ ' ' :: rest) = (s :: ·) <$> shGo .ws [] false rest := by
  obtain ⟨q, hq, h⟩ := shGo_quote s (' ' :: rest)
  rw [h, shGo_word_blank, shEmit_cons _ _ _ hq]

theorem C18_quote_alone (s : List Char) : shlexSplit (shlexQuote s) = .ok [s] := by
  obtain ⟨q, hq, h⟩ := shGo_quote s []
  rw [List.append_nil] at h
  rw [shlexSplit, h, shGo, shEmit_cons _ _ _ hq]
  rfl

/-- an unquoted word of safe characters followed by a blank is one token -/
theorem C18_safe_word (wd rest : List Char) (hne : wd ≠ []) (hs : wd.all isSafeChar = true) :
    shGo .ws [] false (wd ++ ' ' :: rest) = (wd :: ·) <$> shGo .ws [] false rest := by
  cases wd with
  | nil => exact absurd rfl hne
  | cons c cs =>
    simp only [List.all_cons, Bool.and_eq_true] at hs
    rw [List.cons_append, shGo_ws_safe c hs.1, shGo_word_safe cs hs.2, shGo_word_blank, shEmit_cons _ _ _ (by simp)]
    rfl

/-! ## key names and characters round trip -/

theorem char_ofNat_toNat (k : Nat) (h : k.isValidChar) : (Char.ofNat k).toNat = k := by
  rw [Char.ofNat, dif_pos h]
  simp [Char.ofNatAux, Char.toNat]

/-- facts about the literal table `REVERSE_MAP` (checked by evaluation) -/
theorem reverse_map_facts : ∀ e ∈ Tables.REVERSE_MAP, keymapGet e.2.toList = some e.1 ∧
    e.2.toList.all isSafeChar = true ∧ 2 ≤ e.2.length ∧ '-' ∉ e.2.toList ∧ e.1 ≠ 0 := by decide

theorem reverseMapGet_some (k : Nat) (n : String) (h : reverseMapGet k = some n) : (k, n) ∈ Tables.REVERSE_MAP := by
  unfold reverseMapGet at h
  simp only [Option.map_eq_some_iff] at h
  obtain ⟨⟨k', n'⟩, hf, rfl⟩ := h
  have hm := List.mem_of_find?_eq_some hf
  have hp := List.find?_some hf
  simp at hp
  subst hp
  exact hm

theorem reverseMapGet_none (k : Nat) (h : reverseMapGet k = none) (hr : keyRecordable k = true) : k < 1114112 := by
  unfold reverseMapGet at h
  simp only [Option.map_eq_none_iff, List.find?_eq_none] at h
  unfold keyRecordable at hr
  simp only [Bool.or_eq_true, List.any_eq_true, Bool.and_eq_true, decide_eq_true_eq] at hr
  rcases hr with ⟨e, he, h1, _⟩ | hr
  · exact absurd h1 (h e he)
  · exact hr

/-- every keysym that is recorded by name is decoded from that name -/
theorem C18_name_roundtrip : ∀ e ∈ Tables.REVERSE_MAP, keymapGet e.2.toList = some e.1 ∧ e.2.toList.all isSafeChar = true ∧
    2 ≤ e.2.length := by
  intro e he
  have := reverse_map_facts e he
  exact ⟨this.1, this.2.1, this.2.2.1⟩

/-- the recorded token of a key, with the quoting removed: its name, or the character itself -/
def keyWord (k : Nat) : List Char :=
  match reverseMapGet k with
  | some n => n.toList
  | none => [Char.ofNat k]

theorem C18_token_is_quoted_word (k : Nat) (h : keyRecordable k = true) :
    keyToken k = some (shlexQuote (keyWord k)) := by
  unfold keyToken keyWord
  cases hr : reverseMapGet k with
  | some n =>
    obtain ⟨_, hsafe, hlen, _, _⟩ := reverse_map_facts _ (reverseMapGet_some k n hr)
    dsimp only at hsafe hlen ⊢
    have hne : n.toList ≠ [] := by
      intro h0
      have : n.length = 0 := by rw [← String.length_toList, h0]; rfl
      omega
    have hemp : n.isEmpty = false := by
      cases hb : n.isEmpty with
      | false => rfl
      | true =>
        have : n = "" := by simpa using hb
        subst this
        simp at hlen
    have hq : shlexQuote n.toList = n.toList := by
      cases hl : n.toList with
      | nil => exact absurd hl hne
      | cons c cs => rw [hl] at hsafe; simp [shlexQuote, hsafe]
    simp [hemp, hq]
  | none =>
    have := reverseMapGet_none k hr h
    simp [this]

/-- replaying the word gives back exactly the keysym (every keysym that is a Unicode scalar value, and every named key) -/
theorem C18_word_decodes (k : Nat) (up : Bool) (h : keyRecordable k = true)
    (hv : reverseMapGet k = none → k.isValidChar) : decodeKey false up (keyWord k) = some [k] := by
  unfold keyWord
  cases hr : reverseMapGet k with
  | some n =>
    obtain ⟨hget, _, hlen, hdash, hnz⟩ := reverse_map_facts _ (reverseMapGet_some k n hr)
    dsimp only at hget hlen hdash hnz ⊢
    have hl : n.toList.length ≠ 1 := by rw [String.length_toList]; omega
    rw [decodeKey_nocaps, if_neg hl, splitOnC_notin _ _ hdash]
    simp [List.mapM_cons, keysymOf, hget, hnz]
  | none =>
    have hv' := hv hr
    dsimp only
    rw [decodeKey_nocaps]
    simp [List.mapM_cons, C04_char, char_ofNat_toNat k hv']

/-! ## one recorded line -/

/-- the text of a recorded key event -/
def keyLine (gap : Nat) (k : Nat) (down : Bool) : List Char :=
  "pause ".toList ++ fmtTicks gap ++ (if down then " keydown ".toList else " keyup ".toList) ++
    shlexQuote (keyWord k) ++ " \n".toList

theorem digit_safe (c : Char) (h : c.isDigit = true) : isSafeChar c = true := by
  simp [isSafeChar, Char.isAlphanum, h]

/-- the decimal text of a natural number consists of digits (for every `n`, from core's `Nat.toDigits` lemmas) -/
theorem toString_digits (n : Nat) : (toString n).toList.all Char.isDigit = true ∧ (toString n).toList ≠ [] := by
  rw [Nat.toString_eq_repr, Nat.toList_repr]
  refine ⟨?_, Nat.toDigits_ne_nil⟩
  rw [List.all_eq_true]
  intro c hc
  exact Nat.isDigit_of_mem_toDigits (by decide) (by decide) hc

theorem toString_safe (n : Nat) : (toString n).toList.all isSafeChar = true := by
  have := (toString_digits n).1
  rw [List.all_eq_true] at this ⊢
  intro c hc
  exact digit_safe c (this c hc)

theorem C18_fmt_safe (gap : Nat) : (fmtTicks gap).all isSafeChar = true ∧ fmtTicks gap ≠ [] := by
  refine ⟨?_, by simp [fmtTicks]⟩
  simp only [fmtTicks, pad4, List.all_append, Bool.and_eq_true]
  refine ⟨⟨toString_safe _, by decide⟩, ?_, toString_safe _⟩
  have h0 : isSafeChar '0' = true := by decide
  simp [h0]

/-- a recorded key line tokenises to exactly its four words, whatever key it is, and nothing leaks into what
    follows (this is where `#`, quotes, backslash and blanks matter) -/
theorem C18_line_tokens (gap k : Nat) (down : Bool) (rest : List Char) :
    shGo .ws [] false (keyLine gap k down ++ rest) =
      (fun ts => "pause".toList :: fmtTicks gap :: (if down then "keydown" else "keyup").toList :: keyWord k :: ts) <$>
        shGo .ws [] false rest := by
  have hlit : ∀ d : Bool, (if d then "keydown" else "keyup").toList.all isSafeChar = true ∧
      (if d then "keydown" else "keyup").toList ≠ [] := by
    intro d; cases d <;> exact ⟨by decide, by decide⟩
  have hshape : keyLine gap k down ++ rest = "pause".toList ++ ' ' :: (fmtTicks gap ++ ' ' ::
      ((if down then "keydown" else "keyup").toList ++ ' ' :: (shlexQuote (keyWord k) ++ ' ' :: '\n' :: rest))) := by
    have h1 : "pause ".toList = "pause".toList ++ [' '] := by decide
    have h2 : " keydown ".toList = ' ' :: "keydown".toList ++ [' '] := by decide
    have h3 : " keyup ".toList = ' ' :: "keyup".toList ++ [' '] := by decide
    have h4 : " \n".toList = [' ', '\n'] := by decide
    unfold keyLine
    cases down <;> simp [h1, h2, h3, h4]
  rw [hshape, C18_safe_word _ _ (by decide) (by decide),
    C18_safe_word _ _ (C18_fmt_safe gap).2 (C18_fmt_safe gap).1,
    C18_safe_word _ _ (hlit down).2 (hlit down).1, C18_quote_split]
  have hnl : shGo .ws [] false ('\n' :: rest) = shGo .ws [] false rest := by
    rw [shGo]; simp [isShWs]
  rw [hnl]
  cases shGo .ws [] false rest <;> rfl

/-- the four words compile to a pause and the key operation -/
theorem C18_line_compiles (fs : FS) (gap k : Nat) (down : Bool) (rest : List Word) (fuel : Nat)
    (hfl : fs.isFloat (fmtTicks gap) = true) :
    compile fs false (fuel + 2) ("pause".toList :: fmtTicks gap :: (if down then "keydown" else "keyup").toList :: keyWord k :: rest) =
      (compile fs false fuel rest).map
        ([Cmd.pauseArg (fmtTicks gap), if down then Cmd.keyDown (keyWord k) else Cmd.keyUp (keyWord k)] ++ ·) := by
  cases down <;> cases hc : compile fs false fuel rest <;>
    simp [compile, compileOne, w, popFloat, popWord, hfl, hc, bind, Except.bind, pure, Except.pure, Except.map]

/-! ## a whole recorded key session -/

/-- a recorded script of key events -/
def keyScript : List (Nat × Nat × Bool) → List Char
  | [] => []
  | (gap, k, down) :: rest => keyLine gap k down ++ keyScript rest

def keyCmds : List (Nat × Nat × Bool) → List Cmd
  | [] => []
  | (gap, k, down) :: rest =>
    [Cmd.pauseArg (fmtTicks gap), if down then Cmd.keyDown (keyWord k) else Cmd.keyUp (keyWord k)] ++ keyCmds rest

/-- the key events a command list sends when replayed (pauses send nothing) -/
def replayKeys (up : Bool) : List Cmd → Option (List KeyEv)
  | [] => some []
  | .keyDown w :: rest => do
    let ks ← decodeKey false up w
    let r ← replayKeys up rest
    pure (keyDownEvs ks ++ r)
  | .keyUp w :: rest => do
    let ks ← decodeKey false up w
    let r ← replayKeys up rest
    pure (keyUpEvs ks ++ r)
  | .keyPress w :: rest => do
    let ks ← decodeKey false up w
    let r ← replayKeys up rest
    pure (keyPressEvs ks ++ r)
  | _ :: rest => replayKeys up rest

/-- the words of a recorded key script -/
def keyWords : List (Nat × Nat × Bool) → List (List Char)
  | [] => []
  | (gap, k, down) :: rest =>
    "pause".toList :: fmtTicks gap :: (if down then "keydown" else "keyup").toList :: keyWord k :: keyWords rest

theorem keyScript_split (evs : List (Nat × Nat × Bool)) : shlexSplit (keyScript evs) = .ok (keyWords evs) := by
  unfold shlexSplit
  induction evs with
  | nil => rfl
  | cons e rest ih =>
    obtain ⟨gap, k, down⟩ := e
    rw [keyScript, C18_line_tokens, ih]
    rfl

theorem keyWords_compile (fs : FS) (evs : List (Nat × Nat × Bool))
    (hfl : ∀ gap, fs.isFloat (fmtTicks gap) = true) :
    compile fs false (2 * evs.length) (keyWords evs) = .ok (keyCmds evs) := by
  induction evs with
  | nil => rfl
  | cons e rest ih =>
    obtain ⟨gap, k, down⟩ := e
    have : 2 * ((gap, k, down) :: rest).length = 2 * rest.length + 2 := by simp; omega
    rw [this, keyWords, C18_line_compiles fs gap k down _ _ (hfl gap), ih]
    rfl

/-- **any recorded sequence of key presses and releases** - over all keysyms that can be written, including the
    characters that are special in the script syntax - tokenises, compiles and replays to exactly the original
    keysyms, same direction, same order, with one pause (the recorded gap) before each -/
theorem C18_replay (fs : FS) (evs : List (Nat × Nat × Bool)) (up : Bool)
    (hrec : ∀ e ∈ evs, keyRecordable e.2.1 = true ∧ (reverseMapGet e.2.1 = none → e.2.1.isValidChar))
    (hfl : ∀ gap, fs.isFloat (fmtTicks gap) = true) :
    ∃ words, shlexSplit (keyScript evs) = .ok words ∧
      (∃ fuel, compile fs false fuel words = .ok (keyCmds evs)) ∧
      replayKeys up (keyCmds evs) = some (evs.map fun e => (e.2.1, e.2.2)) := by
  refine ⟨keyWords evs, keyScript_split evs, ⟨2 * evs.length, keyWords_compile fs evs hfl⟩, ?_⟩
  induction evs with
  | nil => rfl
  | cons e rest ih =>
    obtain ⟨gap, k, down⟩ := e
    have hk := hrec (gap, k, down) (by simp)
    have hd := C18_word_decodes k up hk.1 hk.2
    have ih' := ih (fun e he => hrec e (by simp [he]))
    cases down <;>
      simp [keyCmds, replayKeys, hd, ih', keyDownEvs, keyUpEvs]

/-- the recorder writes exactly `keyLine` (ties this file to `recStep`) -/
theorem C18_recorder_line (r : RecSt) (now k : Nat) (down : Bool) (h : keyRecordable k = true) :
    (recStep r now (.key k down)).2 = some (keyLine (now - r.last) k down) := by
  simp only [recStep, C18_token_is_quoted_word k h]
  have h1 : "pause ".toList = "pause".toList ++ [' '] := by decide
  have h2 : " keydown ".toList = ' ' :: "keydown".toList ++ [' '] := by decide
  have h3 : " keyup ".toList = ' ' :: "keyup".toList ++ [' '] := by decide
  have h4 : " \n".toList = [' ', '\n'] := by decide
  have hd : ∀ l : List Char, (l ++ [' ', '\n', ' ']).dropLast = l ++ [' ', '\n'] := by
    intro l
    have : l ++ [' ', '\n', ' '] = (l ++ [' ', '\n']) ++ [' '] := by simp
    rw [this, List.dropLast_concat]
  unfold keyLine
  cases down <;> simp [joinSp, h1, h2, h3, h4, ← hd]

/-- examples: the characters that are special in the script syntax -/
def splitIs (s : List Char) (want : List (List Char)) : Bool :=
  match shlexSplit s with
  | .ok ws => ws == want
  | .error _ => false
example : splitIs (keyLine 3 35 true) ["pause".toList, "0.0003".toList, "keydown".toList, ['#']] = true := by decide
example : splitIs (keyLine 0 39 false) ["pause".toList, "0.0000".toList, "keyup".toList, ['\'']] = true := by decide
example : splitIs (keyLine 0 92 true) ["pause".toList, "0.0000".toList, "keydown".toList, "bslash".toList] = true := by decide
example : splitIs (keyLine 0 10 true) ["pause".toList, "0.0000".toList, "keydown".toList, ['\n']] = true := by decide

end Vnc

