import VncModel.Client
import VncSpec.Grammar
/-!
# C08 — Script commands run strictly one after another with the requested timing
# C09 — vncdo's exit status tells the truth and --timeout bounds the run

Model: VncModel/Client.lean (`startCmd`, `advance`, `resume`, `onConnected`, `onCommit`, `onTimer`, `exitStep`):
the callback chain of vncdo as an executor over virtual time.  The executor *is* the abstraction of Twisted's
Deferred chain (a callback returning a Deferred suspends the chain until it fires); that abstraction is validated
by the correspondence run against the real vncdo, not proved.
-/
namespace Vnc

/-- start/finish markers of a trace -/
def markers : List Act → List (Nat × Bool)
  | [] => []
  | .start i :: r => (i, true) :: markers r
  | .finish i :: r => (i, false) :: markers r
  | _ :: r => markers r

/-- `n` commands run to completion one after another, starting with number `i` -/
def seqMarkers : Nat → Nat → List (Nat × Bool)
  | _, 0 => []
  | i, n+1 => (i, true) :: (i, false) :: seqMarkers (i + 1) n

def ChainSt.suspended : ChainSt → Bool
  | .waitTimer _ => true
  | .waitDrag .. => true
  | .waitCommit => true
  | _ => false

def ChainSt.isFailed : ChainSt → Bool
  | .failed _ => true
  | _ => false

/-! ## helper lemmas: frame properties of `startCmd` -/

def AllW (l : List Act) : Prop := ∀ act ∈ l, ∃ b, act = Act.write b

theorem AllW_nil : AllW [] := by intro x hx; cases hx

theorem AllW_map (ws : List Bytes) : AllW (ws.map Act.write) := by
  intro x hx
  rcases List.mem_map.1 hx with ⟨b, _, rfl⟩
  exact ⟨b, rfl⟩

/- NB: `requestAll core inc` must never be compared by the kernel with its unfolded body (the kernel would unfold the
   matcher first and evaluate `packH ↑core.width`, i.e. `Nat.sub _ 65536`, in unary): unfold it at the function level. -/
theorem requestAll_fun : requestAll = fun core inc =>
    requestAll.match_1 (fun _ => List Act) (wUpdateRequest inc 0 0 core.width core.height)
     (fun b => [Act.write b]) (fun _ => []) := by
  delta requestAll
  exact Eq.refl _

theorem requestAll_cases (core : Core) (inc : Bool) :
    requestAll core inc = [] ∨ ∃ b, requestAll core inc = [Act.write b] := by
  rw [requestAll_fun]
  dsimp only
  generalize wUpdateRequest inc 0 0 core.width core.height = o
  cases o with
  | none => exact Or.inl rfl
  | some b => exact Or.inr ⟨b, rfl⟩

theorem requestAll_AllW (core : Core) (inc : Bool) : AllW (requestAll core inc) := by
  rcases requestAll_cases core inc with h | ⟨b, h⟩ <;> rw [h]
  · exact AllW_nil
  · intro x hx
    simp only [List.mem_singleton] at hx
    exact ⟨_, hx⟩

theorem keyActs_AllW {a : App} {op : KeyOp} {k : Word} {w : List Act} (h : keyActs a op k = some w) : AllW w := by
  unfold keyActs at h
  rcases Option.map_eq_some_iff.1 h with ⟨ws, _, rfl⟩
  exact AllW_map ws

theorem ptrActs_frame {a a' : App} {op : PtrOp} {w : List Act} (h : ptrActs a op = some (a', w)) :
    a'.cmds = a.cmds ∧ a'.idx = a.idx ∧ a'.completed = a.completed ∧ a'.timers = a.timers ∧
    a'.nextTimer = a.nextTimer ∧ a'.now = a.now ∧ AllW w := by
  unfold ptrActs at h
  rcases Option.map_eq_some_iff.1 h with ⟨ws, _, h2⟩
  simp only [Prod.mk.injEq] at h2
  rcases h2 with ⟨rfl, rfl⟩
  exact ⟨rfl, rfl, rfl, rfl, rfl, rfl, AllW_map ws⟩

theorem expectCompare_frame (a : App) (core : Core) (screen : Option Img) (box : Int × Int × Int × Int) (rms : Word)
    (expected : List Nat) :
    (expectCompare a core screen box rms expected).1.cmds = a.cmds ∧
    (expectCompare a core screen box rms expected).1.idx = a.idx ∧
    (expectCompare a core screen box rms expected).1.completed = a.completed ∧
    AllW (expectCompare a core screen box rms expected).2.1 := by
  have key : ∀ (m : Bool) (x : App × List Act × Bool),
      x = (if m = true then (a, [], true)
        else ({ a with waiter := some (.expect box rms expected) }, requestAll core screen.isSome, false)) →
      x.1.cmds = a.cmds ∧ x.1.idx = a.idx ∧ x.1.completed = a.completed ∧ AllW x.2.1 := by
    intro m x hx
    cases m
    · simp only [Bool.false_eq_true, if_false] at hx
      subst hx
      refine ⟨rfl, rfl, rfl, ?_⟩
      dsimp only
      exact requestAll_AllW core screen.isSome
    · simp only [if_true] at hx
      subst hx
      exact ⟨rfl, rfl, rfl, AllW_nil⟩
  exact key _ _ rfl

def Frame (a : App) (x : App × List Act × Susp) : Prop :=
  x.1.cmds = a.cmds ∧ x.1.idx = a.idx ∧ x.1.completed = a.completed ∧ AllW x.2.1

theorem Frame_self (a : App) (s : Susp) : Frame a (a, [], s) := ⟨rfl, rfl, rfl, AllW_nil⟩

theorem Frame_ptrActs {a a' : App} {op : PtrOp} {w : List Act} (s : Susp) (h : ptrActs a op = some (a', w)) :
    Frame a (a', w, s) := by
  have := ptrActs_frame h
  exact ⟨this.1, this.2.1, this.2.2.1, this.2.2.2.2.2.2⟩

theorem Frame_keyActs {a : App} {op : KeyOp} {k : Word} {w : List Act} (s : Susp) (h : keyActs a op k = some w) :
    Frame a (a, w, s) := ⟨rfl, rfl, rfl, keyActs_AllW h⟩

theorem Frame_req (a a' : App) (core : Core) (inc : Bool) (s : Susp) (h1 : a'.cmds = a.cmds) (h2 : a'.idx = a.idx)
    (h3 : a'.completed = a.completed) : Frame a (a', requestAll core inc, s) := by
  have h4 := requestAll_AllW core inc
  generalize requestAll core inc = l at h4 ⊢
  exact ⟨h1, h2, h3, h4⟩

theorem startCmd_frame (a : App) (core : Core) (scr : Option Img) (c : Cmd) : Frame a (startCmd a core scr c) := by
  cases c <;> delta startCmd <;> dsimp only
  case keyPress =>
    split
    · next w h => exact Frame_keyActs _ h
    · exact Frame_self _ _
  case keyDown =>
    split
    · next w h => exact Frame_keyActs _ h
    · exact Frame_self _ _
  case keyUp =>
    split
    · next w h => exact Frame_keyActs _ h
    · exact Frame_self _ _
  case mouseMove =>
    split
    · next a' w h => exact Frame_ptrActs _ h
    · exact ⟨rfl, rfl, rfl, AllW_nil⟩
  case mousePress =>
    split
    · exact Frame_self _ _
    · split
      · next a' w h => exact Frame_ptrActs _ h
      · exact Frame_self _ _
  case mouseDown =>
    split
    · exact Frame_self _ _
    · split
      · next a' w h => exact Frame_ptrActs _ h
      · exact Frame_self _ _
  case mouseUp =>
    split
    · exact Frame_self _ _
    · split
      · next a' w h => exact Frame_ptrActs _ h
      · exact Frame_self _ _
  case mouseDrag x y =>
    split
    · split
      · next a' w h => exact Frame_ptrActs _ h
      · exact Frame_self _ _
    · split
      · exact Frame_self _ _
      · next a' w h =>
        have := ptrActs_frame h
        exact ⟨this.1, this.2.1, this.2.2.1, this.2.2.2.2.2.2⟩
  case pauseArg => exact ⟨rfl, rfl, rfl, AllW_nil⟩
  case pauseDelay => exact ⟨rfl, rfl, rfl, AllW_nil⟩
  case paste =>
    split
    · refine ⟨rfl, rfl, rfl, ?_⟩
      intro x hx
      simp only [List.mem_singleton] at hx
      exact ⟨_, hx⟩
    · exact Frame_self _ _
  case captureScreen => exact Frame_req _ _ _ _ _ rfl rfl rfl
  case captureRegion => exact Frame_req _ _ _ _ _ rfl rfl rfl
  case expectScreen =>
    split
    · exact Frame_self _ _
    · exact expectCompare_frame _ _ _ _ _ _
  case expectRegion =>
    split
    · exact Frame_self _ _
    · exact expectCompare_frame _ _ _ _ _ _

/-! ## markers -/

theorem markers_append (a b : List Act) : markers (a ++ b) = markers a ++ markers b := by
  induction a with
  | nil => simp [markers]
  | cons x r ih => cases x <;> simp [markers, ih]

theorem markers_AllW {l : List Act} (h : AllW l) : markers l = [] := by
  induction l with
  | nil => rfl
  | cons x r ih =>
    obtain ⟨b, rfl⟩ := h x (List.mem_cons_self ..)
    simp only [markers]
    exact ih fun y hy => h y (List.mem_cons_of_mem _ hy)

theorem close_notin_AllW {l : List Act} (h : AllW l) : Act.close ∉ l := by
  intro hc
  obtain ⟨b, hb⟩ := h _ hc
  cases hb

theorem getLast?_append_some {α} (l₁ l₂ : List α) (x : α) (h : l₂.getLast? = some x) :
    (l₁ ++ l₂).getLast? = some x := by
  simp [List.getLast?_append, h]

theorem advance_markers_aux (core : Core) (screen : Option Img) (fuel : Nat) (a : App) (hf : a.cmds.length < fuel) :
    ∃ n, ((advance core screen fuel a).1.idx = a.idx + n) ∧
      (((advance core screen fuel a).1.chain = .finished ∧ markers (advance core screen fuel a).2 = seqMarkers a.idx n ∧
          (advance core screen fuel a).2.getLast? = some .close ∧ (advance core screen fuel a).1.cmds = [] ∧
          (advance core screen fuel a).1.completed = true) ∨
       (((advance core screen fuel a).1.chain.suspended = true ∨ (advance core screen fuel a).1.chain.isFailed = true) ∧
          markers (advance core screen fuel a).2 = seqMarkers a.idx n ++ [(a.idx + n, true)] ∧
          Act.close ∉ (advance core screen fuel a).2 ∧ (advance core screen fuel a).1.completed = a.completed)) := by
  induction fuel generalizing a with
  | zero => omega
  | succ fuel ih =>
    rw [advance]
    split
    · next hc =>
      refine ⟨0, rfl, Or.inl ⟨rfl, ?_, rfl, hc, rfl⟩⟩
      simp [markers, seqMarkers]
    · next c rest hc =>
      have hfr := startCmd_frame { a with cmds := rest } core screen c
      generalize startCmd { a with cmds := rest } core screen c = r at hfr ⊢
      obtain ⟨a1, ws, s⟩ := r
      obtain ⟨h1, h2, h3, h4⟩ := hfr
      dsimp only at h1 h2 h3 h4 ⊢
      have hm := markers_AllW h4
      have hcl := close_notin_AllW h4
      cases s <;> dsimp only
      case cont =>
        have hlen : ({ a1 with idx := a.idx + 1, chain := ChainSt.running } : App).cmds.length < fuel := by
          dsimp only; rw [h1]; rw [hc] at hf; simpa using hf
        obtain ⟨n, hn, hcase⟩ := ih _ hlen
        generalize advance core screen fuel { a1 with idx := a.idx + 1, chain := ChainSt.running } = r' at hn hcase ⊢
        dsimp only at hn hcase ⊢
        refine ⟨n + 1, by omega, ?_⟩
        rcases hcase with ⟨e1, e2, e3, e4, e5⟩ | ⟨e1, e2, e3, e4⟩
        · refine Or.inl ⟨e1, ?_, ?_, e4, e5⟩
          · simp [markers_append, markers, hm, e2, seqMarkers]
          · exact getLast?_append_some ([Act.start a.idx] ++ ws ++ [Act.finish a.idx]) _ _ e3
        · refine Or.inr ⟨e1, ?_, ?_, ?_⟩
          · simp [markers_append, markers, hm, e2, seqMarkers, Nat.add_assoc, Nat.add_comm 1 n]
          · simp [hcl, e3]
          · rw [e4, h3]
      all_goals
        refine ⟨0, h2, Or.inr ⟨by simp [ChainSt.suspended, ChainSt.isFailed], ?_, ?_, h3⟩⟩
        · simp [markers_append, markers, hm, seqMarkers]
        · simp [hcl]

/-- **sequencing**: whatever `advance` does, commands start in order, each finishes before the next starts; it
    stops either because everything is done (then it closes, last), or because command `a'.idx` is suspended /
    failed right after its start marker -/
theorem C08_advance_markers (core : Core) (screen : Option Img) (fuel : Nat) (a : App) (hf : a.cmds.length < fuel) :
    let r := advance core screen fuel a
    ∃ n, (r.1.idx = a.idx + n) ∧
      ((r.1.chain = .finished ∧ markers r.2 = seqMarkers a.idx n ∧ r.2.getLast? = some .close ∧ r.1.cmds = [] ∧
          r.1.completed = true) ∨
       ((r.1.chain.suspended = true ∨ r.1.chain.isFailed = true) ∧ markers r.2 = seqMarkers a.idx n ++ [(a.idx + n, true)] ∧
          Act.close ∉ r.2 ∧ r.1.completed = a.completed)) :=
  advance_markers_aux core screen fuel a hf

/-- bytes are only written by a command that has started and not finished: in the output of `advance`, every write
    lies between a `start i` and the next marker -/
def writesInside : Option Nat → List Act → Bool
  | _, [] => true
  | _, .start i :: r => writesInside (some i) r
  | _, .finish _ :: r => writesInside none r
  | cur, .write _ :: r => cur.isSome && writesInside cur r
  | cur, .save .. :: r => cur.isSome && writesInside cur r
  | cur, _ :: r => writesInside cur r

theorem writesInside_AllW {ws : List Act} (h : AllW ws) (i : Nat) (rest : List Act) :
    writesInside (some i) (ws ++ rest) = writesInside (some i) rest := by
  induction ws with
  | nil => rfl
  | cons x r ih =>
    obtain ⟨b, rfl⟩ := h x (List.mem_cons_self ..)
    simp only [List.cons_append, writesInside, Option.isSome_some, Bool.true_and]
    exact ih fun y hy => h y (List.mem_cons_of_mem _ hy)

theorem C08_advance_writes (core : Core) (screen : Option Img) (fuel : Nat) (a : App) :
    writesInside none (advance core screen fuel a).2 = true := by
  induction fuel generalizing a with
  | zero => rfl
  | succ fuel ih =>
    rw [advance]
    split
    · rfl
    · next c rest hc =>
      have hfr := startCmd_frame { a with cmds := rest } core screen c
      generalize startCmd { a with cmds := rest } core screen c = r at hfr ⊢
      obtain ⟨a1, ws, s⟩ := r
      obtain ⟨h1, h2, h3, h4⟩ := hfr
      dsimp only at h4 ⊢
      cases s <;> dsimp only
      case cont =>
        have := ih { a1 with idx := a.idx + 1, chain := ChainSt.running }
        simp only [List.append_assoc, List.cons_append, List.nil_append, writesInside, writesInside_AllW h4]
        exact this
      all_goals
        have := writesInside_AllW h4 a.idx []
        simp only [List.append_nil] at this
        simp [this, writesInside_AllW h4, writesInside]

/-- when the last command has finished vncdo closes the connection - and only then -/
theorem C08_closes_last (core : Core) (screen : Option Img) (fuel : Nat) (a : App) (h : Act.close ∈ (advance core screen fuel a).2) :
    (advance core screen fuel a).1.cmds = [] ∧ (advance core screen fuel a).1.chain = .finished := by
  induction fuel generalizing a with
  | zero => simp [advance] at h
  | succ fuel ih =>
    rw [advance] at h ⊢
    split
    · next hc => exact ⟨hc, rfl⟩
    · next c rest hc =>
      · rw [hc] at h
        dsimp only at h
        have hfr := startCmd_frame { a with cmds := rest } core screen c
        generalize startCmd { a with cmds := rest } core screen c = r at hfr h ⊢
        obtain ⟨a1, ws, s⟩ := r
        obtain ⟨h1, h2, h3, h4⟩ := hfr
        have hcl := close_notin_AllW h4
        dsimp only at hcl h ⊢
        cases s <;> dsimp only at h ⊢
        case cont =>
          apply ih
          simpa [hcl] using h
        all_goals simp [hcl] at h

/-- a pause lasts exactly the requested time divided by the warp factor (`env.pauseTicks d`): it suspends the chain
    on a timer due at `now + pauseTicks d`, writes nothing, and only that timer resumes it -/
theorem C08_pause (core : Core) (screen : Option Img) (a : App) (d : Word) :
    let r := startCmd a core screen (.pauseArg d)
    r.2.1 = [] ∧ r.2.2 = .timer a.nextTimer ∧ r.1.timers = a.timers ++ [(a.nextTimer, a.now + a.env.pauseTicks d)] :=
  ⟨rfl, rfl, rfl⟩

theorem C08_timer_resumes (core : Core) (screen : Option Img) (a : App) (id : Nat) (h : a.chain = .waitTimer id) :
    (onTimer core screen a id).2.head? = some (.finish a.idx) ∧
    ∀ other, other ≠ id → (onTimer core screen a other).2 = [] ∧ (onTimer core screen a other).1.chain = a.chain := by
  constructor
  · simp [onTimer, h, resume]
  · intro other ho
    have : ¬ id = other := fun e => ho e.symm
    simp [onTimer, h, this]

/-- while the chain waits for a timer, a commit from the server does not make the script go on (no waiter is set) -/
theorem C08_commit_does_not_resume_timer (core : Core) (screen : Option Img) (a : App) (id : Nat)
    (h : a.chain = .waitTimer id) (hw : a.waiter = none) : onCommit core screen a = (a, []) := by
  have _ := h   -- (not needed: with no waiter set a commit never resumes anything)
  simp [onCommit, hw]

/-- "every element that is not a delay pause and is not last is followed by a delay pause" -/
def Sep : List Cmd → Prop
  | [] => True
  | [_] => True
  | a :: b :: r => (a ≠ Cmd.pauseDelay → b = Cmd.pauseDelay) ∧ Sep (b :: r)

theorem Sep_pd {l : List Cmd} (h : Sep l) : Sep (Cmd.pauseDelay :: l) := by
  cases l with
  | nil => trivial
  | cons b r => exact ⟨fun hn => absurd rfl hn, h⟩

theorem Sep_cmd_pd (c : Cmd) {l : List Cmd} (h : Sep l) : Sep (c :: Cmd.pauseDelay :: l) :=
  ⟨fun _ => rfl, Sep_pd h⟩

theorem Sep_getElem {l : List Cmd} (h : Sep l) :
    ∀ i, (hi : i + 1 < l.length) → l[i]'(by omega) ≠ Cmd.pauseDelay → l[i + 1] = Cmd.pauseDelay := by
  induction l with
  | nil => intro i hi; simp at hi
  | cons a t ih =>
    cases t with
    | nil => intro i hi; simp at hi
    | cons b r =>
      intro i hi
      cases i with
      | zero => exact h.1
      | succ j =>
        intro hne
        exact ih h.2 j (by simpa using hi) hne

theorem Parses_nil {fs : FS} {d : Bool} {cs : List Cmd} (h : Parses fs d [] cs) : cs = [] := by
  cases h
  rfl

theorem Sep_sep (rest : List Word) {cs : List Cmd} (h : Sep cs) : Sep (sep true rest ++ cs) := by
  unfold sep
  split
  · exact Sep_pd h
  · exact h

theorem Sep_rule {fs : FS} (c : Cmd) {rest : List Word} {cs : List Cmd} (hp : Parses fs true rest cs) (h : Sep cs) :
    Sep (c :: sep true rest ++ cs) := by
  by_cases hr : rest = []
  · subst hr
    rw [Parses_nil hp]
    simp [sep, Sep]
  · have : sep true rest = [Cmd.pauseDelay] := by simp [sep, hr]
    rw [this]
    exact Sep_cmd_pd c h

theorem Sep_flatMap {α} (l : List α) (f : α → Cmd) {tail : List Cmd} (h : Sep tail) :
    Sep (l.flatMap (fun x => [f x, Cmd.pauseDelay]) ++ tail) := by
  induction l with
  | nil => simpa using h
  | cons x r ih =>
    simp only [List.flatMap_cons, List.cons_append, List.nil_append]
    exact Sep_cmd_pd _ ih

theorem Parses_Sep {fs : FS} {ws : List Word} {cs : List Cmd} (h : Parses fs true ws cs) : Sep cs := by
  induction h with
  | done => trivial
  | type t rest cs hp ih =>
    have := Sep_flatMap t (fun ch => Cmd.keyPress [ch]) (Sep_sep rest ih)
    simpa [List.append_assoc] using this
  | typefile f content rest cs hr hp ih =>
    have := Sep_flatMap (content.filter (· ≠ '\r'))
      (fun c => Cmd.keyPress (if c = '\n' then "enter".toList else if c = '\t' then "tab".toList else [c]))
      (Sep_sep rest ih)
    simpa [typefileCmds, List.append_assoc] using this
  | file f rest cs hc hf hp ih => exact Sep_sep _ ih
  | _ => exact Sep_rule _ (by assumption) (by assumption)

/-- with a delay configured, the compiled script has a delay pause after every command that is followed by anything -/
theorem C08_delay (fs : FS) (ws : List Word) (cs : List Cmd) (h : Parses fs true ws cs) :
    ∀ i, (hi : i + 1 < cs.length) → cs[i]'(by omega) ≠ Cmd.pauseDelay → cs[i + 1] = Cmd.pauseDelay :=
  Sep_getElem (Parses_Sep h)

/-! ## C09 -/

/-- the script counts as completed only when every command has run and vncdo itself closed the connection -/
theorem C09_completed_iff_closed (core : Core) (screen : Option Img) (fuel : Nat) (a : App) (h0 : a.completed = false) :
    (advance core screen fuel a).1.completed = true ↔ Act.close ∈ (advance core screen fuel a).2 := by
  induction fuel generalizing a with
  | zero => simp [advance, h0]
  | succ fuel ih =>
    rw [advance]
    split
    · simp
    · next c rest hc =>
      have hfr := startCmd_frame { a with cmds := rest } core screen c
      generalize startCmd { a with cmds := rest } core screen c = r at hfr ⊢
      obtain ⟨a1, ws, s⟩ := r
      obtain ⟨h1, h2, h3, h4⟩ := hfr
      have hcl := close_notin_AllW h4
      dsimp only at h3 hcl ⊢
      cases s <;> dsimp only
      case cont =>
        have := ih { a1 with idx := a.idx + 1, chain := ChainSt.running } (by dsimp only; rw [h3, h0])
        rw [this]
        simp [hcl]
      all_goals simp [hcl, h3, h0]

/-- **exit status 0 only if** the script was complete and the connection then went down cleanly (vncdo's own close);
    a refused connection, a failed authentication / protocol abort / server close before completion (all reported as
    a lost connection while `completed = false`), a reset, and the timeout all give a non-zero status -/
theorem C09_zero_only_if_completed (completed : Bool) (e : ExitSt) (now : Nat) (ev : ExitEv)
    (h : (exitStep completed e now ev).status = 0) : completed = true ∧ ev = .lost true := by
  cases ev with
  | connectFailed => simp [exitStep, exitDone] at h
  | timeout => simp [exitStep, exitDone] at h
  | lost clean =>
    cases clean <;> cases completed <;> simp [exitStep, exitDone] at h ⊢

theorem C09_nonzero_cases (completed : Bool) (e : ExitSt) (now : Nat) :
    (exitStep completed e now .connectFailed).status = 10 ∧
    (exitStep completed e now (.lost false)).status = 10 ∧
    (exitStep completed e now .timeout).status = 10 ∧
    (exitStep false e now (.lost true)).status = 10 := by
  cases completed <;> simp [exitStep, exitDone]

/-- a whole history of exit-relevant events (each with the completion flag and time at which it happens) -/
def exitRun (e : ExitSt) : List (Bool × Nat × ExitEv) → ExitSt
  | [] => e
  | (c, t, ev) :: r => exitRun (exitStep c e t ev) r

theorem exitRun_append_singleton (e : ExitSt) (pre : List (Bool × Nat × ExitEv)) (c : Bool) (t : Nat) (ev : ExitEv) :
    exitRun e (pre ++ [(c, t, ev)]) = exitStep c (exitRun e pre) t ev := by
  induction pre generalizing e with
  | nil => rfl
  | cons x r ih =>
    obtain ⟨c', t', ev'⟩ := x
    simp only [List.cons_append, exitRun]
    exact ih _

theorem exitStep_stopAt (c : Bool) (e : ExitSt) (now : Nat) (ev : ExitEv) (t : Nat) (h : e.stopAt = some t) :
    (exitStep c e now ev).stopAt = some t := by
  cases ev <;> simp [exitStep, exitDone, h]
  split <;> simp

theorem exitRun_stopAt (e : ExitSt) (l : List (Bool × Nat × ExitEv)) (t : Nat) (h : e.stopAt = some t) :
    (exitRun e l).stopAt = some t := by
  induction l generalizing e with
  | nil => exact h
  | cons x r ih =>
    obtain ⟨c', t', ev'⟩ := x
    simp only [exitRun]
    exact ih _ (exitStep_stopAt _ _ _ _ _ h)

/-- the initial status is 1; after any history a status of 0 means the last event was a clean loss of a completed
    script -/
theorem C09_run_zero (evs : List (Bool × Nat × ExitEv)) (h : (exitRun {} evs).status = 0) :
    ∃ pre t, evs = pre ++ [(true, t, .lost true)] := by
  rcases List.eq_nil_or_concat evs with rfl | ⟨pre, x, rfl⟩
  · simp [exitRun] at h
  · obtain ⟨c, t, ev⟩ := x
    rw [List.concat_eq_append, exitRun_append_singleton] at h
    obtain ⟨rfl, rfl⟩ := C09_zero_only_if_completed _ _ _ _ h
    exact ⟨pre, t, by simp⟩

/-- `--timeout T`: once the timeout has fired at time T the reactor is stopped no later than T + 0.1 s (4096 ticks),
    whatever happens afterwards; and the status is non-zero unless a completed script's clean close comes later -/
theorem C09_timeout_bound (e : ExitSt) (c : Bool) (T : Nat) (later : List (Bool × Nat × ExitEv))
    (he : ∀ t, e.stopAt = some t → t ≤ T + 4096) :
    ∃ t, (exitRun (exitStep c e T .timeout) later).stopAt = some t ∧ t ≤ T + 4096 := by
  cases hs : e.stopAt with
  | none =>
    refine ⟨T + 4096, exitRun_stopAt _ _ _ ?_, Nat.le_refl _⟩
    simp [exitStep, exitDone, hs]
  | some t0 =>
    refine ⟨t0, exitRun_stopAt _ _ _ ?_, he t0 hs⟩
    simp [exitStep, exitDone, hs]

theorem C09_timeout_status (e : ExitSt) (c : Bool) (T : Nat) : (exitStep c e T .timeout).status ≠ 0 := by
  simp [exitStep, exitDone]

end Vnc
