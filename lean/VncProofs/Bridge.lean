import VncProofs.C17
import VncProofs.C19
/-!
# vncdo behind vnclog: the two specifications of the client-to-server grammar agree

`VncSpec/C2S.lean` (C19: what the client writes, read with the RFC's server-side parser) and `VncSpec/Recorder.lean`
(C16/C17: what the proxy's parser must recognise in a viewer's stream) were written separately. `C2SMsg.toV` maps a
client message to the viewer message with the same bytes (`toV_wire`) and preserves well-formedness (`toV_wf`), so the
two files describe ONE grammar, and the theorems of the two properties compose:

* `Bridge_messages` / `Bridge_session`: whatever list of well-formed messages the client writes (`C19_stream`: every history
  of in-range operations writes `msgs.flatMap encodeC2S`), a logging proxy between that client and the server hands its
  recorder exactly the events those messages stand for, once and in order, under every chunking - provided every key is
  one vnclog can write down (`keyRecordable`).
-/
namespace Vnc
open Spec

def C2SMsg.toV : C2SMsg → VMsg
  | .setPixelFormat pf => .setPixelFormat pf
  | .setEncodings es => .setEncodings (es.map encS32)
  | .updateRequest inc x y w h => .updateRequest ([byteOf inc] ++ enc16 x ++ enc16 y ++ enc16 w ++ enc16 h)
  | .keyEvent down key => .key key (byteOf down)
  | .pointerEvent mask x y => .pointer x y mask
  | .cutText t => .cutText t

theorem encS32_length (v : Int) : (encS32 v).length = 4 := rfl

theorem toV_wire (m : C2SMsg) : m.toV.wire = encodeC2S m := by
  cases m <;> simp [C2SMsg.toV, VMsg.wire, encodeC2S, List.flatMap_def]

theorem toV_wf (m : C2SMsg) (h : m.WF) : m.toV.WF := by
  cases m with
  | setPixelFormat pf => exact h
  | setEncodings es =>
    simp only [C2SMsg.WF] at h
    simp only [C2SMsg.toV, VMsg.WF, List.length_map, List.mem_map]
    refine ⟨h.1, ?_⟩
    rintro e ⟨v, _, rfl⟩
    exact encS32_length v
  | updateRequest inc x y w h' => simp [C2SMsg.toV, VMsg.WF, enc16_length]
  | keyEvent down key => exact h.2
  | pointerEvent mask x y => exact ⟨h.2.1, h.2.2, h.1⟩
  | cutText t => exact h

/-- the keys of a client message are keys the recorder can write down -/
def C2SMsg.Recordable (m : C2SMsg) : Prop := m.toV.Recordable

theorem toV_flatMap_wire (ms : List C2SMsg) : (ms.map C2SMsg.toV).flatMap VMsg.wire = ms.flatMap encodeC2S := by
  induction ms with
  | nil => rfl
  | cons m ms ih => simp only [List.map_cons, List.flatMap_cons, ih, toV_wire]

/-- the client's messages, seen by the proxy's parser in session state: it emits exactly their events and is ready for the
next message -/
theorem Bridge_messages (pw : Bool) (ms : List C2SMsg) (h : ∀ m ∈ ms, m.WF ∧ m.Recordable)
    (rest : Bytes) (o : List PEvent) (s' : PSt) (b' : Bytes)
    (hcont : Runs proxyMachine ⟨pw, .proto⟩ rest o s' b') :
    Runs proxyMachine ⟨pw, .proto⟩ (ms.flatMap encodeC2S ++ rest)
      ((ms.map C2SMsg.toV).flatMap VMsg.events ++ o) s' b' := by
  rw [← toV_flatMap_wire]
  refine C17_messages pw (ms.map C2SMsg.toV) ?_ rest o s' b' hcont
  intro v hv
  obtain ⟨m, hm, rfl⟩ := List.mem_map.1 hv
  exact ⟨toV_wf m (h m hm).1, (h m hm).2⟩

/-- a whole proxied session of the client, under every chunking of its byte stream -/
theorem Bridge_session (pw : Bool) (hs : VHandshake) (hwf : hs.WF pw) (ms : List C2SMsg)
    (h : ∀ m ∈ ms, m.WF ∧ m.Recordable) (cs : List Bytes)
    (hcs : cs.flatten = hs.wire ++ ms.flatMap encodeC2S) :
    (feedAll proxyMachine (pxInit pw) cs).2.1 = [.startLogging] ++ (ms.map C2SMsg.toV).flatMap VMsg.events := by
  refine C17_session pw hs hwf (ms.map C2SMsg.toV) ?_ cs (by rw [hcs, toV_flatMap_wire])
  intro v hv
  obtain ⟨m, hm, rfl⟩ := List.mem_map.1 hv
  exact ⟨toV_wf m (h m hm).1, (h m hm).2⟩

/-- ... and the proxy's parser never raises on it, so recording never stops and nothing disturbs the relay (C16) -/
theorem Bridge_no_raise (pw : Bool) (hs : VHandshake) (hwf : hs.WF pw) (ms : List C2SMsg)
    (h : ∀ m ∈ ms, m.WF ∧ m.Recordable) (cs : List Bytes)
    (hcs : cs.flatten = hs.wire ++ ms.flatMap encodeC2S) :
    ∀ e ∈ (feedAll proxyMachine (pxInit pw) cs).2.1, ∀ c, e ≠ .raise c := by
  refine C16_v2s_total pw hs hwf (ms.map C2SMsg.toV) ?_ cs (by rw [hcs, toV_flatMap_wire])
  intro v hv
  obtain ⟨m, hm, rfl⟩ := List.mem_map.1 hv
  exact ⟨toV_wf m (h m hm).1, (h m hm).2⟩

/-- what the recorder sees of one client message, spelled out -/
theorem Bridge_events (m : C2SMsg) : m.toV.events = match m with
    | .setPixelFormat pf => [.setPixelFormat pf]
    | .setEncodings es => [.setEncodings es.length]
    | .updateRequest .. => [.updateRequest]
    | .keyEvent down key => [.key key (byteOf down != 0)]
    | .pointerEvent mask x y => [.pointer x y mask]
    | .cutText t => [.cutText t] := by
  cases m <;> simp [C2SMsg.toV, VMsg.events]

/-- non-vacuity: a key press of `a` is well-formed and recordable -/
example : (C2SMsg.keyEvent 1 0x61).WF ∧ (C2SMsg.keyEvent 1 0x61).Recordable := by
  refine ⟨by simp [C2SMsg.WF], ?_⟩
  simp [C2SMsg.Recordable, C2SMsg.toV, VMsg.Recordable, keyRecordable]

end Vnc
