import VncProofs.Expect
import VncModel.Rfb
/-!
# C01 — Server stream segmentation never changes client behaviour
# C15 — No server input can make the client spin

`rfbMachine` (VncModel/Rfb.lean) is the model of `RFBClient`'s receive path with every `_handle*` state; these
are the *instance* theorems: the generic segmentation/termination theorems of VncProofs/Expect.lean apply to it
because it makes progress on zero-length fields.
-/
namespace Vnc


/-! ### helper lemmas: the phase reached by the shared continuations -/

theorem need_doConnection_pos (c : Core) (pre : List Out) : 0 < need (doConnection c pre).1 := by
  unfold doConnection
  split
  · simp [go, need]
  · split <;> simp [go, need]

theorem need_nextHextile_aux (c : Core) (bg fg : Option Bytes) (x y w h : Nat) (p : Nat × Nat)
    (pre : List Out) :
    0 < need (if p.2 ≥ y + h then doConnection c pre else go c (.hextile bg fg x y w h p.1 p.2) pre).1 := by
  split
  · exact need_doConnection_pos _ _
  · simp [go, need]

theorem need_nextHextile_pos (c : Core) (bg fg : Option Bytes) (x y w h : Nat) (t : Option (Nat × Nat))
    (pre : List Out) : 0 < need (nextHextile c bg fg x y w h t pre).1 := by
  unfold nextHextile
  exact need_nextHextile_aux c bg fg x y w h _ pre

theorem need_clientInit (c : Core) (pre : List Out) : need (clientInit c pre).1 = 24 := by
  simp [clientInit, go, need]

theorem halted_dead (c : Core) (outs : List Out) : halted (dead c outs).1 = true := by
  simp [dead, go, halted]

/-- every zero-length expectation (empty reason, empty name, empty clipboard text, zero colours, zero-area
    rectangle, zero sub-rectangles, empty compressed block, zero-size cursor, …) is followed by a state that
    needs at least one byte, or by a halt -/
theorem core_progress (s : RSt) (hh : halted s = false) (hz : need s = 0) :
    halted (stepCore s []).1 = true ∨ 0 < need (stepCore s []).1 := by
  obtain ⟨c, ph⟩ := s
  show halted (stepCore ⟨c, ph⟩ []).1 = true ∨ 0 < need (stepCore ⟨c, ph⟩ []).1
  cases ph <;> simp [need, halted] at hz hh <;> simp only [stepCore]
  case secTypes => left; simp [halted_dead]
  case dhKey => left; simp [hz, halted_dead]
  case dhCert =>
    split
    · left; exact halted_dead _ _
    · right; simp [go, need]
  case hextileSub =>
    right
    simp only [List.getD_nil, UInt8.toNat_zero, ite_self, ne_eq, not_true_eq_false, if_false]
    exact need_nextHextile_pos ..
  case zrleData =>
    split
    · left; exact halted_dead _ _
    · left; exact halted_dead _ _
    · split
      · left; exact halted_dead _ _
      · right; exact need_doConnection_pos _ _
  all_goals first
    | (left; exact halted_dead _ _)
    | (right; exact need_doConnection_pos _ _)
    | (right; exact need_nextHextile_pos ..)
    | (right; simp [go, need]; done)


/-- `step` is `stepCore`, except that a handler which hands `None` to `fillRectangle` dies there -/
theorem step_cases (s : RSt) (b : Bytes) :
    (step s b).1 = (stepCore s b).1 ∧ (step s b).2 = (stepCore s b).2 ∧ cutAtNoneFill (stepCore s b).2 = none
    ∨ (step s b).1.ph = .dead := by
  unfold step
  cases h : cutAtNoneFill (stepCore s b).2 with
  | none => left; simp [h]
  | some outs => right; simp only [h]

theorem rfb_progress : Progress rfbMachine := by
  intro s hh hz
  show halted (step s []).1 = true ∨ 0 < need (step s []).1
  rcases step_cases s [] with ⟨h1, _, _⟩ | hd
  · rw [h1]; exact core_progress s hh hz
  · left; simp [halted, hd]

/-- the initial connection state: empty buffer, waiting for the banner -/
def rfbInit (cfg : Cfg) (zq : List (Option Bytes)) : St RSt := ⟨RSt.init cfg zq, []⟩

theorem rfbInit_blocked (cfg : Cfg) (zq : List (Option Bytes)) : (rfbInit cfg zq).Blocked rfbMachine := by
  simp [St.Blocked, Machine.blocked, rfbInit, rfbMachine, RSt.init, need, halted]

/-- **C01**: for every configuration (client class, options), every inflate behaviour, every byte stream and every
    way of cutting it into chunks, the client ends in the same state (including what is still buffered and how
    much of the zlib stream was consumed) and produced the same outputs - callbacks with their arguments,
    bytes written, close - in the same order, as when the stream arrives in one piece. -/
theorem C01_seg_indep (cfg : Cfg) (zq : List (Option Bytes)) (cs : List Bytes) :
    feedAll rfbMachine (rfbInit cfg zq) cs = feed rfbMachine (rfbInit cfg zq) cs.flatten := by
  exact feedAll_flatten rfbMachine rfb_progress cs _ (rfbInit_blocked cfg zq)

/-- two chunkings of the same stream -/
theorem C01_chunkings (cfg : Cfg) (zq : List (Option Bytes)) (cs ds : List Bytes) (h : cs.flatten = ds.flatten) :
    feedAll rfbMachine (rfbInit cfg zq) cs = feedAll rfbMachine (rfbInit cfg zq) ds := by
  exact chunkings_agree rfbMachine rfb_progress _ (rfbInit_blocked cfg zq) cs ds h

/-- mid-session too: from any state reached by earlier chunks -/
theorem C01_seg_indep_from (st : St RSt) (hb : st.Blocked rfbMachine) (cs : List Bytes) :
    feedAll rfbMachine st cs = feed rfbMachine st cs.flatten := by
  exact feedAll_flatten rfbMachine rfb_progress cs st hb

/-- anything computed from the outputs (the screen is a fold over the callbacks) is chunking independent -/
theorem C01_observable {α : Type} (obs : List Out → α) (cfg : Cfg) (zq : List (Option Bytes)) (cs ds : List Bytes)
    (h : cs.flatten = ds.flatten) :
    obs (feedAll rfbMachine (rfbInit cfg zq) cs).2.1 = obs (feedAll rfbMachine (rfbInit cfg zq) ds).2.1 := by
  rw [C01_chunkings cfg zq cs ds h]

/-! ## the VMware variant -/

/-- chunks that do not match the workaround's pattern are handled exactly like the plain client -/
theorem C01_vmware_no_match (st : St RSt) (cs : List Bytes) (h : ∀ c ∈ cs, vmMatches c = false) :
    vmFeedAll st cs = feedAll rfbMachine st cs := by
  induction cs generalizing st with
  | nil => rfl
  | cons c cs ih =>
    have hc : vmMatches c = false := h c (by simp)
    have hv : vmFeed st c = feed rfbMachine st c := by simp [vmFeed, hc]
    simp only [vmFeedAll, feedAll, hv]
    rw [ih _ (fun d hd => h d (by simp [hd]))]

/-- the documented workaround, exactly: a matching chunk is dropped (nothing of it is parsed, the state does not
    change) and answered with one full, non-incremental refresh request for the announced desktop -/
theorem C01_vmware_match (st : St RSt) (c : Bytes) (hm : vmMatches c = true) (hb : st.Blocked rfbMachine)
    (hs : st.s.core.sized = true) (hw : st.s.core.width < 65536) (hh : st.s.core.height < 65536) :
    vmFeed st c = (st, [Out.write ([3, 0, 0, 0, 0, 0] ++ enc16 st.s.core.width ++ enc16 st.s.core.height)], true) := by
  have hw' : ((st.s.core.width : Nat) : Int) < 65536 := by omega
  have hh' : ((st.s.core.height : Nat) : Int) < 65536 := by omega
  have hreq : wUpdateRequest false 0 0 st.s.core.width st.s.core.height =
      some ([3, 0, 0, 0, 0, 0] ++ enc16 st.s.core.width ++ enc16 st.s.core.height) := by
    simp [wUpdateRequest, packH, hw', hh', enc16, byteOf]
  simp only [vmFeed, hm, hs, if_true, hreq, feed_nil rfbMachine st hb]

/-- the pattern is exactly: 20 bytes that are a FramebufferUpdate of one 1x1 Raw rectangle at (0,0)
    (any padding byte, any 4 pixel bytes) -/
theorem C01_vmware_pattern (c : Bytes) :
    vmMatches c = true ↔ ∃ pad p0 p1 p2 p3, c = [0, pad, 0, 1, 0, 0, 0, 0, 0, 1, 0, 1, 0, 0, 0, 0, p0, p1, p2, p3] := by
  constructor
  · intro h
    simp only [vmMatches, Bool.and_eq_true, beq_iff_eq] at h
    obtain ⟨⟨hl, hh⟩, ht⟩ := h
    rcases c with _ | ⟨a0, c⟩
    · simp at hl
    rcases c with _ | ⟨a1, c⟩
    · simp at hl
    rcases c with _ | ⟨a2, c⟩
    · simp at hl
    rcases c with _ | ⟨a3, c⟩
    · simp at hl
    rcases c with _ | ⟨a4, c⟩
    · simp at hl
    rcases c with _ | ⟨a5, c⟩
    · simp at hl
    rcases c with _ | ⟨a6, c⟩
    · simp at hl
    rcases c with _ | ⟨a7, c⟩
    · simp at hl
    rcases c with _ | ⟨a8, c⟩
    · simp at hl
    rcases c with _ | ⟨a9, c⟩
    · simp at hl
    rcases c with _ | ⟨a10, c⟩
    · simp at hl
    rcases c with _ | ⟨a11, c⟩
    · simp at hl
    rcases c with _ | ⟨a12, c⟩
    · simp at hl
    rcases c with _ | ⟨a13, c⟩
    · simp at hl
    rcases c with _ | ⟨a14, c⟩
    · simp at hl
    rcases c with _ | ⟨a15, c⟩
    · simp at hl
    rcases c with _ | ⟨a16, c⟩
    · simp at hl
    rcases c with _ | ⟨a17, c⟩
    · simp at hl
    rcases c with _ | ⟨a18, c⟩
    · simp at hl
    rcases c with _ | ⟨a19, c⟩
    · simp at hl
    have hc : c = [] := by
      apply List.eq_nil_of_length_eq_zero
      simp only [List.length_cons] at hl; omega
    subst hc
    simp [Tables.VMWARE_PATTERN] at hh ht
    obtain ⟨h2, h3, h4, h5, h6, h7, h8, h9, h10, h11, h12, h13, h14, h15⟩ := ht
    subst_vars
    exact ⟨_, _, _, _, _, rfl⟩
  · rintro ⟨pad, p0, p1, p2, p3, rfl⟩
    simp [vmMatches, Tables.VMWARE_PATTERN]

/-! ## C15 -/

/-- processing any chunk in any state terminates: the dispatch loop never runs out of its (linear) fuel -/
theorem C15_no_spin (st : St RSt) (chunk : Bytes) : (feed rfbMachine st chunk).2.2 = true := by
  exact feed_ok rfbMachine rfb_progress st chunk

theorem C15_no_spin_all (st : St RSt) (cs : List Bytes) : (feedAll rfbMachine st cs).2.2 = true := by
  induction cs generalizing st with
  | nil => rfl
  | cons c cs ih => simp [feedAll, C15_no_spin, ih]

/-- work proportional to the bytes received: at most `2·bytes + 1` handler invocations per `dataReceived` -/
theorem C15_steps_linear (st : St RSt) (chunk : Bytes) :
    drainSteps rfbMachine (feedFuel st chunk) st.s (st.buf ++ chunk) ≤ 2 * (st.buf.length + chunk.length) + 1 := by
  have := drainSteps_le rfbMachine rfb_progress (feedFuel st chunk) st.s (st.buf ++ chunk)
  simp only [List.length_append] at this
  split at this <;> omega


theorem cutAtNoneFill_append_none (a b : List Out) (ha : cutAtNoneFill a = none) (hb : cutAtNoneFill b = none) :
    cutAtNoneFill (a ++ b) = none := by
  induction a with
  | nil => simpa using hb
  | cons o rest ih =>
    cases o <;> simp_all [cutAtNoneFill]
    case fill x y w h c => cases c <;> simp_all [cutAtNoneFill]

theorem cutAtNoneFill_writes (ws : List Bytes) : cutAtNoneFill (ws.map Out.write) = none := by
  induction ws with
  | nil => rfl
  | cons w rest ih => simp [cutAtNoneFill, ih]

theorem cutAtNoneFill_setEnc (es : List Int) : cutAtNoneFill (setEncodingsOuts es) = none := by
  unfold setEncodingsOuts
  exact cutAtNoneFill_writes _

theorem cutAtNoneFill_connectionMade (c : Core) : cutAtNoneFill (connectionMade c).2 = none := by
  unfold connectionMade
  cases c.cfg.kind with
  | base => rfl
  | lib =>
    dsimp only
    generalize ([c.cfg.encoding] ++ _ ++ _ ++ _ ++ _ : List Int) = encs
    split <;>
      exact cutAtNoneFill_append_none _ _ (cutAtNoneFill_append_none _ _ rfl (cutAtNoneFill_setEnc _)) rfl
  | cli =>
    dsimp only
    generalize ([c.cfg.encoding] ++ _ ++ _ ++ _ ++ _ : List Int) = encs
    split <;>
      exact cutAtNoneFill_append_none _ _ (cutAtNoneFill_append_none _ _ rfl (cutAtNoneFill_setEnc _)) rfl

/-- named zero-length fields of the property: each ends the connection or moves on, none repeats -/
theorem C15_empty_reason (c : Core) :
    halted (step ⟨c, .connMessage 0⟩ []).1 = true ∧ halted (step ⟨c, .authFailedMsg 0⟩ []).1 = true := by
  simp [step, stepCore, cutAtNoneFill, dead, go, halted]

theorem C15_empty_name (c : Core) : need (step ⟨c, .serverName 0⟩ []).1 = 1 := by
  have h : cutAtNoneFill (stepCore ⟨c, .serverName 0⟩ []).2 = none := by
    simp only [stepCore, go]; exact cutAtNoneFill_connectionMade c
  simp only [step, h]
  simp [stepCore, go, need]

theorem C15_empty_cuttext (c : Core) : need (step ⟨c, .cutTextVal 0⟩ []).1 = 1 := by
  simp [step, stepCore, cutAtNoneFill, go, need]

theorem C15_zero_colours (c : Core) : need (step ⟨c, .colourMapVals 0 0⟩ []).1 = 1 := by
  simp [step, stepCore, cutAtNoneFill, chunksOf, go, need]

/-- after a close (or a crash) nothing more is parsed, whatever follows -/
theorem C15_dead_stays (c : Core) (buf chunk : Bytes) :
    feed rfbMachine ⟨⟨c, .dead⟩, buf⟩ chunk = (⟨⟨c, .dead⟩, buf ++ chunk⟩, [], true) := by
  simp only [feed]
  rw [drain_blocked_eq rfbMachine _ _ _ (by simp [Machine.blocked, rfbMachine, halted])]

end Vnc
