import VncModel.Cli
import VncProofs.C13
import VncProofs.C12
/-!
# C13 / C12 through the `vncdo` command line: the options mean what they say, in every combination
-/
namespace Vnc
open Vnc.Spec

/-- **SetEncodings for every command line**: preferred encoding first; the cursor pseudo-encoding iff `--localcursor` or
    `--nocursor` (the latter so that the server does not paint the cursor into the framebuffer); desktop-size unless
    `--disable-desktop-resizing`; last-rect and the QEMU extended key event always -/
theorem C13_cli_encodings (o : CliOpts) (c : Core) (hc : c.cfg = cliCfg o) :
    ∃ pre, (connectionMade c).2 = pre ++ setEncodingsOuts
      (advertised Tables.DEFAULT_ENCODING (o.localcursor || o.nocursor) (!o.disableDesktopResizing) true true) ++ [.made] ∧
      pre.length ≤ 1 := by
  have hk : c.cfg.kind ≠ .base := by rw [hc]; simp [cliCfg]
  obtain ⟨pre, h, hl⟩ := C13_encodings c hk
  refine ⟨pre, ?_, hl⟩
  rw [h, hc]
  simp [cliCfg, Tables.FACTORY_pseudocursor, Tables.FACTORY_nocursor, Tables.FACTORY_pseudodesktop, Tables.FACTORY_last_rect,
    Tables.FACTORY_qemu_extended_key]

/-- `--nocursor` reaches the client whatever else is on the command line (in particular together with `--localcursor`) -/
theorem C12_cli_nocursor (o : CliOpts) (h : o.nocursor = true) : (cliCfg o).nocursor = true := by
  simp [cliCfg, h]

theorem C04_cli_forcecaps (o : CliOpts) : cliForceCaps o = o.forceCaps := by
  simp [cliForceCaps, Tables.FACTORY_force_caps]

end Vnc
