import VncProofs.C01
import VncProofs.Runs
/-!
# C03 — Handshake follows RFB 3.3/3.7/3.8 and never proceeds past failed security

Model: the handshake states of `rfbMachine` (VncModel/Rfb.lean = rfb.py:488-662 and `vncRequestPassword` of the
three client classes), with `SUPPORTED_SERVER_VERSIONS`, `MAX_CLIENT_VERSION`, `SUPPORTED_AUTHS` extracted from the
source on this run.
-/
namespace Vnc

/-! ## version selection: all banners -/

/-- RFC 6143 7.1.1: the client answers with the highest of 3.3 / 3.7 / 3.8 that does not exceed the server's -/
def specVersion (vs : Nat × Nat) : Option (Nat × Nat) :=
  if lexLe (3, 8) vs then some (3, 8)
  else if lexLe (3, 7) vs then some (3, 7)
  else if lexLe (3, 3) vs then some (3, 3)
  else none

/-- for every banner (all pairs of naturals, in particular all 10^6 three-digit ones) -/
theorem C03_version (vs : Nat × Nat) : selectVersion vs = specVersion vs := by
  obtain ⟨maj, min⟩ := vs
  simp only [selectVersion, maxSupported, specVersion, lexLe, lexLt, Tables.SUPPORTED_SERVER_VERSIONS,
    Tables.MAX_CLIENT_VERSION, List.filter_cons, List.filter_nil]
  rcases Nat.lt_trichotomy maj 3 with h | h | h
  · have : ¬ (3 < maj) := by omega
    have : ¬ (4 < maj) := by omega
    have : ¬ (5 < maj) := by omega
    have : ¬ (3 = maj) := by omega
    have : ¬ (4 = maj) := by omega
    have : ¬ (5 = maj) := by omega
    simp [*]
  · subst h
    by_cases h3 : 3 ≤ min <;> by_cases h7 : 7 ≤ min <;> by_cases h8 : 8 ≤ min <;> by_cases h889 : 889 ≤ min <;>
      first | omega | simp [*]
  · have : (3 < maj) := by omega
    by_cases h4 : 4 < maj <;> by_cases h5 : 5 < maj <;> by_cases h4' : 4 = maj <;> by_cases h5' : 5 = maj <;>
      by_cases h1 : 1 ≤ min <;> first | omega | simp [*]

theorem ba_toList_loop (bs : ByteArray) : ∀ n i r, bs.size - i = n →
    ByteArray.toList.loop bs i r = r.reverse ++ bs.data.toList.drop i := by
  have hs : bs.size = bs.data.toList.length := (Array.length_toList).symm
  intro n
  induction n with
  | zero =>
    intro i r h
    rw [ByteArray.toList.loop]
    have : ¬ i < bs.size := by omega
    have h2 : bs.data.toList.length ≤ i := by omega
    simp [this, List.drop_eq_nil_of_le h2]
  | succ n ih =>
    intro i r h
    rw [ByteArray.toList.loop]
    have hi : i < bs.size := by omega
    have hi' : i < bs.data.toList.length := by omega
    simp only [hi, if_true]
    rw [ih (i+1) _ (by omega)]
    rw [List.drop_eq_getElem_cons hi']
    simp [ByteArray.get!, hi]

theorem ba_toList (bs : ByteArray) : bs.toList = bs.data.toList := by
  simp [ByteArray.toList, ba_toList_loop bs _ 0 [] rfl]


theorem C03_reply_bytes :
    versionReply (3, 3) = "RFB 003.003\n".toUTF8.toList ∧ versionReply (3, 7) = "RFB 003.007\n".toUTF8.toList ∧
    versionReply (3, 8) = "RFB 003.008\n".toUTF8.toList := by
  refine ⟨?_, ?_, ?_⟩ <;> rw [ba_toList] <;> decide

theorem specVersion_cases (vs : Nat × Nat) :
    specVersion vs = none ∨ specVersion vs = some (3, 3) ∨ specVersion vs = some (3, 7) ∨
      specVersion vs = some (3, 8) := by
  unfold specVersion
  split
  · simp
  · split
    · simp
    · split <;> simp


theorem stepCore_banner_last (c : Core) (seen : Bytes) (b : UInt8) (hlen : seen.length = 11)
    (hok : headerByteOk 11 b = true) :
    stepCore ⟨c, .banner seen⟩ [b] =
      match selectVersion (dec3 ((seen ++ [b]).getD 4 0) ((seen ++ [b]).getD 5 0) ((seen ++ [b]).getD 6 0),
        dec3 ((seen ++ [b]).getD 8 0) ((seen ++ [b]).getD 9 0) ((seen ++ [b]).getD 10 0)) with
      | none => dead c [.raise "value"]
      | some v => go { c with version := v, versionServer :=
            (dec3 ((seen ++ [b]).getD 4 0) ((seen ++ [b]).getD 5 0) ((seen ++ [b]).getD 6 0),
              dec3 ((seen ++ [b]).getD 8 0) ((seen ++ [b]).getD 9 0) ((seen ++ [b]).getD 10 0)) }
          (if lexLt v (3, 7) then .auth33 else .numSecTypes) [.write (versionReply v)] := by
  simp only [stepCore, hlen, List.getD_cons_zero, hok]
  simp
  rfl


/-- the banner state: after the 12th consistent byte the reply is written and the version-specific state entered;
    a banner below 3.3 raises (no reply, no success) -/
theorem C03_banner_step (c : Core) (seen : Bytes) (b : UInt8) (hlen : seen.length = 11)
    (hok : headerByteOk 11 b = true) :
    let hd := seen ++ [b]
    let vs := (dec3 (hd.getD 4 0) (hd.getD 5 0) (hd.getD 6 0), dec3 (hd.getD 8 0) (hd.getD 9 0) (hd.getD 10 0))
    (∀ v, specVersion vs = some v →
      (stepCore ⟨c, .banner seen⟩ [b]).2 = [.write (versionReply v)] ∧
      (stepCore ⟨c, .banner seen⟩ [b]).1.core.version = v ∧
      (stepCore ⟨c, .banner seen⟩ [b]).1.ph = (if v = (3, 3) then Phase.auth33 else Phase.numSecTypes)) ∧
    (specVersion vs = none → (stepCore ⟨c, .banner seen⟩ [b]).2 = [.raise "value"] ∧
      (stepCore ⟨c, .banner seen⟩ [b]).1.ph = .dead) := by
  intro hd vs
  have hstep := stepCore_banner_last c seen b hlen hok
  rw [hstep, C03_version]
  constructor
  · intro v hv
    rw [hv]
    rcases specVersion_cases vs with h | h | h | h <;> rw [h] at hv <;> cases hv <;> simp [go, lexLt]
  · intro hv
    rw [hv]
    simp [dead, go]

/-! ## security type selection -/

/-- the types the client supports, from the source -/
def supported (t : UInt8) : Bool := Tables.SUPPORTED_AUTHS.contains t.toNat

/-- 3.7/3.8: the client selects only a type that was offered and that it supports (the largest such), writes
    exactly that one byte; if there is none it closes without writing anything -/
theorem C03_sectype (c : Core) (n : Nat) (offer : Bytes) :
    (∀ t ∈ offer, supported t = false) →
      (stepCore ⟨c, .secTypes n⟩ offer).2 = [.close] ∧ (stepCore ⟨c, .secTypes n⟩ offer).1.ph = .dead := by
  intro h
  have hf : offer.filter (fun t => Tables.SUPPORTED_AUTHS.contains t.toNat) = [] := by
    rw [List.filter_eq_nil_iff]
    intro t ht
    have := h t ht
    simpa [supported] using this
  simp only [stepCore, hf, List.foldl_nil]
  simp [dead, go]

def fmax (m : Option Nat) (t : UInt8) : Option Nat :=
  match m with
  | none => some t.toNat
  | some a => some (max a t.toNat)

theorem foldl_fmax_some (l : Bytes) : ∀ a : Nat, ∃ m, l.foldl fmax (some a) = some m ∧ a ≤ m ∧
    (∀ t ∈ l, t.toNat ≤ m) ∧ (m = a ∨ ∃ t ∈ l, t.toNat = m) := by
  induction l with
  | nil => intro a; exact ⟨a, rfl, Nat.le_refl _, by simp, Or.inl rfl⟩
  | cons x l ih =>
    intro a
    obtain ⟨m, hm, hle, hall, hex⟩ := ih (max a x.toNat)
    refine ⟨m, by simpa [List.foldl_cons, fmax] using hm, by omega, ?_, ?_⟩
    · intro t ht
      rcases List.mem_cons.1 ht with rfl | ht
      · omega
      · exact hall t ht
    · rcases hex with h | ⟨t, ht, h⟩
      · by_cases hax : a ≤ x.toNat
        · right; exact ⟨x, by simp, by omega⟩
        · left; omega
      · right; exact ⟨t, by simp [ht], h⟩

theorem foldl_fmax_none (l : Bytes) (hne : l ≠ []) : ∃ m, l.foldl fmax none = some m ∧
    (∀ t ∈ l, t.toNat ≤ m) ∧ (∃ t ∈ l, t.toNat = m) := by
  cases l with
  | nil => exact absurd rfl hne
  | cons x l =>
    obtain ⟨m, hm, hle, hall, hex⟩ := foldl_fmax_some l x.toNat
    refine ⟨m, by simpa [List.foldl_cons, fmax] using hm, ?_, ?_⟩
    · intro t ht
      rcases List.mem_cons.1 ht with rfl | ht
      · omega
      · exact hall t ht
    · rcases hex with h | ⟨t, ht, h⟩
      · exact ⟨x, by simp, h.symm⟩
      · exact ⟨t, by simp [ht], h⟩

theorem stepCore_secTypes (c : Core) (n : Nat) (b : Bytes) :
    stepCore ⟨c, .secTypes n⟩ b =
      match (b.filter fun t => Tables.SUPPORTED_AUTHS.contains t.toNat).foldl fmax none with
      | none => dead c [.close]
      | some sec =>
        let w := [Out.write [UInt8.ofNat sec]]
        if sec == Tables.AUTH_NONE then
          if lexLt c.version (3, 8) then clientInit c w else go c .authResult w
        else if sec == Tables.AUTH_VNC_AUTHENTICATION then go c .vncAuth w
        else if sec == Tables.AUTH_DIFFIE_HELLMAN then go c .dhAuth w
        else dead c w := rfl

theorem C03_sectype_chosen (c : Core) (n : Nat) (offer : Bytes) (t : UInt8) (ht : t ∈ offer) (hs : supported t = true) :
    ∃ sec : UInt8, sec ∈ offer ∧ supported sec = true ∧ (∀ u ∈ offer, supported u = true → u.toNat ≤ sec.toNat) ∧
      (stepCore ⟨c, .secTypes n⟩ offer).2.head? = some (.write [sec]) := by
  have hne : offer.filter (fun t => Tables.SUPPORTED_AUTHS.contains t.toNat) ≠ [] := by
    intro h
    rw [List.filter_eq_nil_iff] at h
    exact h t ht (by simpa [supported] using hs)
  obtain ⟨m, hm, hall, sec, hsec, hsm⟩ := foldl_fmax_none _ hne
  rw [List.mem_filter] at hsec
  refine ⟨sec, hsec.1, by simpa [supported] using hsec.2, ?_, ?_⟩
  · intro u hu hus
    rw [hsm]
    exact hall u (List.mem_filter.2 ⟨hu, by simpa [supported] using hus⟩)
  · rw [stepCore_secTypes, hm]
    have : UInt8.ofNat m = sec := by rw [← hsm]; simp
    simp only [this]
    split
    · split <;> simp [clientInit, go]
    · split
      · simp [go]
      · split <;> simp [go, dead]

theorem C03_supported_auths : Tables.SUPPORTED_AUTHS = [1, 2, 30] := by decide

/-! ## success is reported only after security succeeded; failure is final -/

/-- framebuffer / application callbacks that are neither a close, a success report, a write nor a failure -/
def isPaint : Out → Bool
  | .begin => true
  | .commit _ => true
  | .update .. => true
  | .fill .. => true
  | .copy .. => true
  | .cursor .. => true
  | .desktop .. => true
  | .bell => true
  | .cutText _ => true
  | .colourMap .. => true
  | _ => false

theorem paint_doConnection (c : Core) (pre : List Out) (hp : ∀ o ∈ pre, isPaint o = true) :
    ∀ o ∈ (doConnection c pre).2, isPaint o = true := by
  unfold doConnection
  split
  · simpa [go] using hp
  · split
    · intro o ho
      simp only [go, List.mem_append, List.mem_singleton] at ho
      rcases ho with ho | rfl
      · exact hp o ho
      · rfl
    · simpa [go] using hp

theorem paint_nextHextile_aux (c : Core) (bg fg : Option Bytes) (x y w h : Nat) (p : Nat × Nat)
    (pre : List Out) (hp : ∀ o ∈ pre, isPaint o = true) :
    ∀ o ∈ (if p.2 ≥ y + h then doConnection c pre else go c (.hextile bg fg x y w h p.1 p.2) pre).2,
      isPaint o = true := by
  split
  · exact paint_doConnection c pre hp
  · simpa [go] using hp

theorem paint_nextHextile (c : Core) (bg fg : Option Bytes) (x y w h : Nat) (t : Option (Nat × Nat))
    (pre : List Out) (hp : ∀ o ∈ pre, isPaint o = true) :
    ∀ o ∈ (nextHextile c bg fg x y w h t pre).2, isPaint o = true := by
  unfold nextHextile
  exact paint_nextHextile_aux c bg fg x y w h _ pre hp

theorem ph_doConnection (c : Core) (pre : List Out) :
    (doConnection c pre).1.ph = .rectangle ∨ (doConnection c pre).1.ph = .connection := by
  unfold doConnection
  split
  · simp [go]
  · split <;> simp [go]

theorem ph_nextHextile_aux (c : Core) (bg fg : Option Bytes) (x y w h : Nat) (p : Nat × Nat) (pre : List Out) :
    let r := (if p.2 ≥ y + h then doConnection c pre else go c (.hextile bg fg x y w h p.1 p.2) pre)
    r.1.ph = .rectangle ∨ r.1.ph = .connection ∨ ∃ tx ty, r.1.ph = .hextile bg fg x y w h tx ty := by
  intro r
  simp only [r]
  split
  · rcases ph_doConnection c pre with h | h <;> simp [h]
  · right; right; exact ⟨_, _, rfl⟩

theorem ph_nextHextile (c : Core) (bg fg : Option Bytes) (x y w h : Nat) (t : Option (Nat × Nat)) (pre : List Out) :
    (nextHextile c bg fg x y w h t pre).1.ph = .rectangle ∨ (nextHextile c bg fg x y w h t pre).1.ph = .connection ∨
      ∃ tx ty, (nextHextile c bg fg x y w h t pre).1.ph = .hextile bg fg x y w h tx ty := by
  unfold nextHextile
  exact ph_nextHextile_aux c bg fg x y w h _ pre

theorem paint_hexColoured_aux (bypp tx ty : Nat) (l : List Bytes) : ∀ (acc : List Out × Option Bytes),
    (∀ o ∈ acc.1, isPaint o = true) →
    ∀ o ∈ (l.foldl (fun (acc : List Out × Option Bytes) r =>
      let col := r.take bypp
      let xy := (r.getD bypp 0).toNat
      let wh := (r.getD (bypp + 1) 0).toNat
      (acc.1 ++ [Out.fill (tx + xy / 16) (ty + xy % 16) (wh / 16 + 1) (wh % 16 + 1) (some col)], some col)) acc).1,
      isPaint o = true := by
  induction l with
  | nil => intro acc h; simpa using h
  | cons r l ih =>
    intro acc h
    rw [List.foldl_cons]
    apply ih
    intro o ho
    simp only [List.mem_append, List.mem_singleton] at ho
    rcases ho with ho | rfl
    · exact h o ho
    · rfl

theorem paint_hexColoured (bypp tx ty : Nat) (b : Bytes) (fg : Option Bytes) :
    ∀ o ∈ (hexColoured bypp tx ty b fg).1, isPaint o = true := by
  unfold hexColoured
  exact paint_hexColoured_aux bypp tx ty _ _ (by simp)

theorem paint_zTiles (cp : Nat) (pad : Bool) (x y w h : Nat) : ∀ (fuel : Nat) (tx ty : Int) (d : Bytes) (outs : List Out),
    (∀ o ∈ outs, isPaint o = true) → ∀ o ∈ (zTiles cp pad x y w h fuel tx ty d outs).1, isPaint o = true := by
  intro fuel
  induction fuel with
  | zero => intro tx ty d outs hall; simpa [zTiles] using hall
  | succ fuel ih =>
    intro tx ty d outs hall
    cases d with
    | nil => simpa [zTiles] using hall
    | cons sub d0 =>
      simp only [zTiles]
      split
      · exact hall
      · rename_i o d' heq
        apply ih
        intro p hp
        rcases List.mem_append.1 hp with hp | hp
        · exact hall p hp
        · generalize (if (x : Int) + w - tx < 64 then (x : Int) + w - tx else 64) = tw at heq
          generalize (if (y : Int) + h - ty < 64 then (y : Int) + h - ty else 64) = th at heq
          repeat' split at heq
          all_goals try simp only [bind, Except.bind, pure, Except.pure] at heq
          all_goals repeat' split at heq
          all_goals first
            | (cases heq; done)
            | (cases heq; simp only [List.mem_singleton] at hp; subst hp; rfl)
            | trace_state
theorem paint_zTiles_eq {cp : Nat} {pad : Bool} {x y w h fuel : Nat} {tx ty : Int} {d : Bytes} {outs : List Out}
    {e : Option String} (heq : zTiles cp pad x y w h fuel tx ty d [] = (outs, e)) : ∀ o ∈ outs, isPaint o = true := by
  have := paint_zTiles cp pad x y w h fuel tx ty d [] (by simp)
  rw [heq] at this
  exact this

theorem paint_rreFills (bypp x y : Nat) (b : Bytes) : ∀ o ∈ rreFills bypp x y b, isPaint o = true := by
  intro o ho
  simp only [rreFills, List.mem_map] at ho
  obtain ⟨r, _, rfl⟩ := ho
  rfl

theorem paint_correFills (bypp x y : Nat) (b : Bytes) : ∀ o ∈ correFills bypp x y b, isPaint o = true := by
  intro o ho
  simp only [correFills, List.mem_map] at ho
  obtain ⟨r, _, rfl⟩ := ho
  rfl

theorem paint_hexFG (x y : Nat) (b : Bytes) (fg : Option Bytes) : ∀ o ∈ hexFG x y b fg, isPaint o = true := by
  intro o ho
  simp only [hexFG, List.mem_map] at ho
  obtain ⟨r, _, rfl⟩ := ho
  rfl

theorem mem_connectionMade (c : Core) : ∀ o ∈ (connectionMade c).2, o = .made ∨ ∃ w, o = .write w := by
  intro o ho
  unfold connectionMade at ho
  cases hk : c.cfg.kind <;> simp only [hk] at ho
  · simp at ho; exact Or.inl ho
  all_goals
    simp only [List.mem_append, List.mem_singleton, setEncodingsOuts, List.mem_map] at ho
    rcases ho with (ho | ⟨w, _, rfl⟩) | rfl
    · split at ho
      · simp at ho
      · simp at ho; exact Or.inr ⟨_, ho⟩
    · exact Or.inr ⟨_, rfl⟩
    · exact Or.inl rfl


/-- what one handler invocation may emit, and the only ways into the ClientInit state -/
def Good (c : Core) (ph : Phase) (b : Bytes) (r : RSt × List Out) : Prop :=
  (∀ o ∈ r.2, isPaint o = true ∨ (∃ w, o = .write w) ∨ (∃ e, o = .raise e) ∨ (∃ m, o = .authFailed m) ∨
    (o = .close ∧ r.1.ph = .dead) ∨
    (ph = .vncAuth ∧ c.cfg.hasPassword = false ∧ c.cfg.kind ≠ .cli ∧ (o = .close ∨ o = .connFailed)) ∨
    (o = .made ∧ ∃ n, ph = .serverName n)) ∧
  (r.1.ph = .serverInit → (ph = .auth33 ∧ beNat b = 1) ∨
    (∃ n, ph = .secTypes n ∧ lexLt c.version (3, 8) = true) ∨ (ph = .authResult ∧ beNat b = 0))

theorem good_ite {c : Core} {ph : Phase} {b : Bytes} (p : Prop) [Decidable p] (x y : RSt × List Out)
    (hx : Good c ph b x) (hy : Good c ph b y) : Good c ph b (if p then x else y) := by
  split <;> assumption

theorem good_dite {c : Core} {ph : Phase} {b : Bytes} (p : Prop) [Decidable p] (x y : RSt × List Out)
    (hx : p → Good c ph b x) (hy : ¬ p → Good c ph b y) : Good c ph b (if p then x else y) := by
  split
  · exact hx ‹_›
  · exact hy ‹_›

/-- outputs that are harmless in every state -/
def Plain (o : Out) : Prop := isPaint o = true ∨ (∃ w, o = .write w) ∨ (∃ e, o = .raise e) ∨ (∃ m, o = .authFailed m)

theorem good_go {c : Core} {ph : Phase} {b : Bytes} (c' : Core) (ph' : Phase) (outs : List Out)
    (ho : ∀ o ∈ outs, Plain o) (hph : ph' ≠ .serverInit) : Good c ph b (go c' ph' outs) := by
  refine ⟨?_, ?_⟩
  · intro o h
    rcases ho o h with h | h | h | h
    · exact Or.inl h
    · exact Or.inr (Or.inl h)
    · exact Or.inr (Or.inr (Or.inl h))
    · exact Or.inr (Or.inr (Or.inr (Or.inl h)))
  · intro h; exact absurd h hph

theorem good_dead {c : Core} {ph : Phase} {b : Bytes} (c' : Core) (outs : List Out)
    (ho : ∀ o ∈ outs, Plain o ∨ o = .close) : Good c ph b (dead c' outs) := by
  refine ⟨?_, ?_⟩
  · intro o h
    rcases ho o h with (h | h | h | h) | h
    · exact Or.inl h
    · exact Or.inr (Or.inl h)
    · exact Or.inr (Or.inr (Or.inl h))
    · exact Or.inr (Or.inr (Or.inr (Or.inl h)))
    · exact Or.inr (Or.inr (Or.inr (Or.inr (Or.inl ⟨h, rfl⟩))))
  · intro h; cases h

theorem good_doConnection {c : Core} {ph : Phase} {b : Bytes} (c' : Core) (pre : List Out)
    (hp : ∀ o ∈ pre, isPaint o = true) : Good c ph b (doConnection c' pre) := by
  refine ⟨fun o h => Or.inl (paint_doConnection c' pre hp o h), ?_⟩
  intro h
  rcases ph_doConnection c' pre with h' | h' <;> rw [h'] at h <;> cases h

theorem good_nextHextile {c : Core} {ph : Phase} {b : Bytes} (c' : Core) (bg fg : Option Bytes) (x y w h : Nat)
    (t : Option (Nat × Nat)) (pre : List Out) (hp : ∀ o ∈ pre, isPaint o = true) :
    Good c ph b (nextHextile c' bg fg x y w h t pre) := by
  refine ⟨fun o ho => Or.inl (paint_nextHextile c' bg fg x y w h t pre hp o ho), ?_⟩
  intro hs
  rcases ph_nextHextile c' bg fg x y w h t pre with h' | h' | ⟨tx, ty, h'⟩ <;> rw [h'] at hs <;> cases hs

theorem good_clientInit {c : Core} {ph : Phase} {b : Bytes} (c' : Core) (pre : List Out)
    (ho : ∀ o ∈ pre, Plain o)
    (hsrc : (ph = .auth33 ∧ beNat b = 1) ∨ (∃ n, ph = .secTypes n ∧ lexLt c.version (3, 8) = true) ∨
      (ph = .authResult ∧ beNat b = 0)) : Good c ph b (clientInit c' pre) := by
  refine ⟨?_, fun _ => hsrc⟩
  intro o h
  simp only [clientInit, go, List.mem_append, List.mem_singleton] at h
  rcases h with h | rfl
  · rcases ho o h with h | h | h | h
    · exact Or.inl h
    · exact Or.inr (Or.inl h)
    · exact Or.inr (Or.inr (Or.inl h))
    · exact Or.inr (Or.inr (Or.inr (Or.inl h)))
  · exact Or.inr (Or.inl ⟨_, rfl⟩)

theorem stepCore_good (c : Core) (ph : Phase) (b : Bytes) : Good c ph b (stepCore ⟨c, ph⟩ b) := by
  cases ph
  case rectangle =>
    simp -zeta only [stepCore]
    extract_lets c0 bypp x y w h enc c1
    repeat' apply good_ite
    all_goals first
      | (apply good_go <;> simp [Plain, isPaint]; done)
      | (apply good_dead; simp [Plain, isPaint]; done)
      | (apply good_doConnection; simp [isPaint]; done)
      | (apply good_nextHextile; simp [isPaint]; done)
  case serverName n =>
    refine ⟨?_, ?_⟩
    · intro o ho
      simp only [stepCore, go] at ho
      rcases mem_connectionMade c o ho with rfl | ⟨w, rfl⟩
      · exact Or.inr (Or.inr (Or.inr (Or.inr (Or.inr (Or.inr ⟨rfl, n, rfl⟩)))))
      · exact Or.inr (Or.inl ⟨_, rfl⟩)
    · intro h; simp [stepCore, go] at h
  case vncAuth =>
    refine ⟨?_, ?_⟩
    · intro o ho
      simp only [stepCore, go, requestPassword] at ho
      cases hk : c.cfg.kind <;> cases hpw : c.cfg.hasPassword <;> simp [hk, hpw] at ho ⊢ <;> simp [ho]
    · intro h; simp [stepCore, go] at h
  case auth33 =>
    simp only [stepCore]
    apply good_ite
    · apply good_go <;> simp [Plain]
    apply good_dite
    · intro h1
      apply good_clientInit
      · simp
      · left; exact ⟨rfl, by simpa [Tables.AUTH_NONE] using h1⟩
    · intro _
      apply good_ite
      · apply good_go <;> simp [Plain]
      · apply good_dead; simp
  case authResult =>
    simp only [stepCore]
    apply good_dite
    · intro h1
      apply good_clientInit
      · simp
      · right; right; exact ⟨rfl, by simpa using h1⟩
    · intro _
      repeat' with_reducible apply good_ite
      all_goals first
        | (apply good_go <;> simp [Plain, isPaint]; done)
        | (apply good_dead; simp [Plain, isPaint]; done)
  case secTypes n =>
    simp only [stepCore]
    split
    · apply good_dead; simp
    · apply good_ite
      · apply good_dite
        · intro h1
          apply good_clientInit
          · simp [Plain]
          · right; left; exact ⟨n, rfl, h1⟩
        · intro _; apply good_go <;> simp [Plain]
      · repeat' with_reducible apply good_ite
        all_goals first
          | (apply good_go <;> simp [Plain, isPaint]; done)
          | (apply good_dead; simp [Plain, isPaint]; done)
  case zrleData n x y w h =>
    simp only [stepCore]
    split
    · apply good_dead; simp [Plain]
    · apply good_dead; simp [Plain]
    · split
      · rename_i outs e heq
        apply good_dead
        intro o ho
        rcases List.mem_append.1 ho with ho | ho
        · left; left; exact paint_zTiles_eq heq o ho
        · simp at ho; left; right; right; left; exact ⟨_, ho⟩
      · rename_i outs heq
        apply good_doConnection
        exact paint_zTiles_eq heq
  case hextileColoured =>
    simp only [stepCore]
    apply good_nextHextile
    exact paint_hexColoured _ _ _ _ _
  all_goals
    simp only [stepCore]
    repeat' with_reducible apply good_ite
    all_goals try split
    all_goals first
      | (apply good_go <;> simp [Plain, isPaint]; done)
      | (apply good_go; simp [Plain, isPaint]; split <;> simp; done)
      | (apply good_dead; simp [Plain, isPaint]; done)
      | (apply good_doConnection; simp [isPaint]; done)
      | (apply good_nextHextile; simp [isPaint]; done)
      | (apply good_doConnection; exact paint_rreFills _ _ _ _)
      | (apply good_doConnection; exact paint_correFills _ _ _ _)
      | (apply good_nextHextile; exact paint_hexFG _ _ _ _)

theorem cut_mem : ∀ (l o : List Out), cutAtNoneFill l = some o → ∀ x ∈ o, x ∈ l ∨ x = .raise "type" := by
  intro l
  induction l with
  | nil => intro o h; simp [cutAtNoneFill] at h
  | cons a rest ih =>
    intro o h x hx
    have hgen : (cutAtNoneFill rest).map (a :: ·) = some o → x ∈ a :: rest ∨ x = .raise "type" := by
      intro h'
      cases hc : cutAtNoneFill rest with
      | none => simp [hc] at h'
      | some o' =>
        simp only [hc, Option.map_some, Option.some.injEq] at h'
        subst h'
        rcases List.mem_cons.1 hx with rfl | hx
        · left; simp
        · rcases ih o' hc x hx with h1 | h1
          · left; simp [h1]
          · right; exact h1
    cases a
    case fill fx fy fw fh col =>
      cases col with
      | some cc => exact hgen (by simpa [cutAtNoneFill] using h)
      | none =>
        simp only [cutAtNoneFill, Option.some.injEq] at h
        subst h
        simp only [List.mem_cons, List.not_mem_nil, or_false] at hx
        rcases hx with rfl | rfl
        · left; simp
        · right; rfl
    all_goals exact hgen (by simpa [cutAtNoneFill] using h)

/-- every output of `step` is an output of `stepCore` (or the TypeError), unless the state died -/
theorem step_split (s : RSt) (b : Bytes) :
    step s b = stepCore s b ∨
    ((step s b).1.ph = .dead ∧ ∀ x ∈ (step s b).2, x ∈ (stepCore s b).2 ∨ x = .raise "type") := by
  cases h : cutAtNoneFill (stepCore s b).2 with
  | none => left; simp only [step, h]
  | some outs =>
    right
    have he : step s b = (⟨(stepCore s b).1.core, .dead⟩, outs) := by simp only [step, h]
    rw [he]
    exact ⟨rfl, cut_mem _ _ h⟩

/-- `made` (connection established) is only ever emitted by the ServerInit-name state -/
theorem C03_made_only_after_serverinit (s : RSt) (b : Bytes) (h : Out.made ∈ (step s b).2) :
    ∃ n, s.ph = .serverName n := by
  obtain ⟨c, ph⟩ := s
  have hcore : Out.made ∈ (stepCore ⟨c, ph⟩ b).2 := by
    rcases step_split ⟨c, ph⟩ b with he | ⟨_, hm⟩
    · rwa [he] at h
    · rcases hm _ h with h1 | h1
      · exact h1
      · cases h1
  rcases (stepCore_good c ph b).1 _ hcore with h1 | ⟨w, h1⟩ | ⟨e, h1⟩ | ⟨m, h1⟩ | ⟨h1, _⟩ | ⟨_, _, _, h1⟩ | ⟨_, h1⟩
  · simp [isPaint] at h1
  · cases h1
  · cases h1
  · cases h1
  · cases h1
  · rcases h1 with h1 | h1 <;> cases h1
  · exact h1

/-- ClientInit (the single byte `shared`) is only written when security has succeeded under the negotiated
    version's rules: 3.3 scheme None, 3.7 type None (no SecurityResult), or SecurityResult OK -/
theorem C03_clientinit_sources (s : RSt) (b : Bytes) (h : (step s b).1.ph = .serverInit) :
    (s.ph = .auth33 ∧ beNat b = 1) ∨
    (∃ n, s.ph = .secTypes n ∧ lexLt s.core.version (3, 8) = true) ∨
    (s.ph = .authResult ∧ beNat b = 0) := by
  obtain ⟨c, ph⟩ := s
  rcases step_split ⟨c, ph⟩ b with he | ⟨hd, _⟩
  · rw [he] at h
    exact (stepCore_good c ph b).2 h
  · rw [hd] at h; cases h

/-- every failure path ends the session: whenever a handler closes the connection the machine is halted and
    never parses another byte - unless it is the documented no-password case of the base/library client, where the
    close is reported and the (reactive) server has nothing to answer -/
theorem C03_close_final (s : RSt) (b : Bytes) (h : Out.close ∈ (step s b).2) :
    halted (step s b).1 = true ∨ (s.ph = .vncAuth ∧ s.core.cfg.hasPassword = false ∧ s.core.cfg.kind ≠ .cli) := by
  obtain ⟨c, ph⟩ := s
  rcases step_split ⟨c, ph⟩ b with he | ⟨hd, _⟩
  · rw [he] at h ⊢
    rcases (stepCore_good c ph b).1 _ h with h1 | ⟨w, h1⟩ | ⟨e, h1⟩ | ⟨m, h1⟩ | ⟨_, h1⟩ | ⟨h1, h2, h3, _⟩ | ⟨h1, _⟩
    · simp [isPaint] at h1
    · cases h1
    · cases h1
    · cases h1
    · left; simp [halted, h1]
    · right; exact ⟨h1, h2, h3⟩
    · cases h1
  · left; simp [halted, hd]

/-- SecurityResult handling for every result code and version -/
theorem C03_result (c : Core) (b : Bytes) :
    let r := stepCore ⟨c, .authResult⟩ b
    (beNat b = 0 → r.1.ph = .serverInit ∧ r.2 = [.write [if c.cfg.shared then 1 else 0]]) ∧
    ((beNat b = 1 ∨ beNat b = 2) → lexLt c.version (3, 8) = true →
        r.1.ph = .dead ∧ ∃ msg, r.2 = [.authFailed msg, .close]) ∧
    ((beNat b = 1 ∨ beNat b = 2) → lexLt c.version (3, 8) = false → r.1.ph = .authFailedLen ∧ r.2 = []) ∧
    (2 < beNat b → r.1.ph = .dead ∧ r.2 = [.close]) := by
  intro r
  refine ⟨?_, ?_, ?_, ?_⟩
  · intro h
    simp [r, stepCore, h, clientInit, go]
  · intro h hv
    rcases h with h | h <;> simp [r, stepCore, h, hv, dead, go]
  · intro h hv
    rcases h with h | h <;> simp [r, stepCore, h, hv, go]
  · intro h
    have h0 : ¬ (beNat b = 0) := by omega
    have h1 : ¬ (beNat b = 1) := by omega
    have h2 : ¬ (beNat b = 2) := by omega
    simp [r, stepCore, h0, h1, h2, dead, go]

/-- a failure reason of any length, including zero: reported once, then closed, then nothing -/
theorem C03_reason (c : Core) (n : Nat) (reason : Bytes) :
    (step ⟨c, .authFailedMsg n⟩ reason).2 = [.authFailed reason, .close] ∧
    (step ⟨c, .authFailedMsg n⟩ reason).1.ph = .dead ∧
    (step ⟨c, .connMessage n⟩ reason).2 = [.close] ∧ (step ⟨c, .connMessage n⟩ reason).1.ph = .dead := by
  simp [step, stepCore, cutAtNoneFill, dead, go]

/-- no password available: the base client closes, the library client closes and reports the failure to the
    application, the CLI client (which prompts) answers; nobody reports success here -/
theorem C03_no_password (c : Core) (chal : Bytes) (hp : c.cfg.hasPassword = false) :
    (c.cfg.kind = .base → (step ⟨c, .vncAuth⟩ chal).2 = [.close]) ∧
    (c.cfg.kind = .lib → (step ⟨c, .vncAuth⟩ chal).2 = [.close, .connFailed]) ∧
    (c.cfg.kind = .cli → (step ⟨c, .vncAuth⟩ chal).2 = [.write c.cfg.authResponse]) := by
  refine ⟨?_, ?_, ?_⟩ <;> intro hk <;>
    simp [step, stepCore, requestPassword, hk, hp, cutAtNoneFill, go]

/-! ## whole conversations (any reason, any challenge), through the real dispatch loop -/

theorem rfb_step_eq (s : RSt) (b : Bytes) : rfbMachine.step s b = step s b := rfl

theorem step_eq_core (s : RSt) (b : Bytes) (h : cutAtNoneFill (stepCore s b).2 = none) : step s b = stepCore s b := by
  simp only [step, h]

theorem runs_banner_byte (c : Core) (seen : Bytes) (x : UInt8) (rest : Bytes) (o : List Out)
    (hok : headerByteOk seen.length x = true) (hl : seen.length + 1 < 12)
    (hr : RunsOut rfbMachine ⟨c, .banner (seen ++ [x])⟩ rest o) :
    RunsOut rfbMachine ⟨c, .banner seen⟩ (x :: rest) o := by
  refine RunsOut.step' [x] rest ⟨c, .banner (seen ++ [x])⟩ [] o rfl rfl rfl ?_ rfl hr
  rw [rfb_step_eq]
  simp [step, stepCore, hok, hl, go, cutAtNoneFill]

theorem runs_banner_last (c : Core) (seen : Bytes) (x : UInt8) (rest : Bytes) (o : List Out)
    (v : Nat × Nat) (ph : Phase) (hlen : seen.length = 11) (hok : headerByteOk 11 x = true)
    (hv : selectVersion (dec3 ((seen ++ [x]).getD 4 0) ((seen ++ [x]).getD 5 0) ((seen ++ [x]).getD 6 0),
        dec3 ((seen ++ [x]).getD 8 0) ((seen ++ [x]).getD 9 0) ((seen ++ [x]).getD 10 0)) = some v)
    (hph : (if lexLt v (3, 7) then Phase.auth33 else Phase.numSecTypes) = ph)
    (hr : RunsOut rfbMachine ⟨{ c with version := v, versionServer :=
        (dec3 ((seen ++ [x]).getD 4 0) ((seen ++ [x]).getD 5 0) ((seen ++ [x]).getD 6 0),
        dec3 ((seen ++ [x]).getD 8 0) ((seen ++ [x]).getD 9 0) ((seen ++ [x]).getD 10 0)) }, ph⟩ rest o) :
    RunsOut rfbMachine ⟨c, .banner seen⟩ (x :: rest) (.write (versionReply v) :: o) := by
  refine RunsOut.step' [x] rest _ [.write (versionReply v)] o rfl rfl rfl ?_ rfl hr
  rw [rfb_step_eq]
  subst hph
  have hc : stepCore ⟨c, .banner seen⟩ [x] = _ := stepCore_banner_last c seen x hlen hok
  rw [hv] at hc
  rw [step_eq_core _ _ (by rw [hc]; rfl), hc]
  rfl

theorem runs_refused_tail (c : Core) (reason rest : Bytes) (hl : reason.length < 4294967296) :
    RunsOut rfbMachine ⟨c, .auth33⟩ (enc32 0 ++ (enc32 reason.length ++ (reason ++ rest))) [.close] := by
  refine RunsOut.step' (enc32 0) _ ⟨c, .connFailed⟩ [] [.close] rfl rfl rfl ?_ rfl ?_
  · rw [rfb_step_eq]
    have : beNat (enc32 0) = 0 := beNat_enc32 0 (by omega)
    simp [step, stepCore, this, go, cutAtNoneFill, Tables.AUTH_INVALID]
  refine RunsOut.step' (enc32 reason.length) _ ⟨c, .connMessage reason.length⟩ [] [.close] rfl rfl rfl ?_ rfl ?_
  · rw [rfb_step_eq]
    simp [step, stepCore, beNat_enc32, hl, go, cutAtNoneFill]
  refine RunsOut.step' reason rest ⟨c, .dead⟩ [.close] [] rfl rfl rfl ?_ rfl (RunsOut.done ?_)
  · rw [rfb_step_eq]
    simp [step, stepCore, dead, go, cutAtNoneFill]
  · simp [Machine.blocked, rfbMachine, halted]

theorem versionReply_33 : versionReply (3, 3) = [82, 70, 66, 32, 48, 48, 51, 46, 48, 48, 51, 10] := by decide
theorem versionReply_37 : versionReply (3, 7) = [82, 70, 66, 32, 48, 48, 51, 46, 48, 48, 55, 10] := by decide
theorem versionReply_38 : versionReply (3, 8) = [82, 70, 66, 32, 48, 48, 51, 46, 48, 48, 56, 10] := by decide


theorem runs_failed38_tail (c : Core) (hv : c.version = (3, 8)) (reason rest : Bytes)
    (hl : reason.length < 4294967296) :
    RunsOut rfbMachine ⟨c, .numSecTypes⟩ (1 :: 1 :: (enc32 1 ++ (enc32 reason.length ++ (reason ++ rest))))
      [.write [1], .authFailed reason, .close] := by
  refine RunsOut.step' [1] _ ⟨c, .secTypes 1⟩ [] _ rfl rfl rfl ?_ rfl ?_
  · rw [rfb_step_eq]
    simp [step, stepCore, go, cutAtNoneFill]
  refine RunsOut.step' [1] _ ⟨c, .authResult⟩ [.write [1]] [.authFailed reason, .close] rfl rfl rfl ?_ rfl ?_
  · rw [rfb_step_eq]
    simp [step, stepCore, go, cutAtNoneFill, hv, lexLt, Tables.SUPPORTED_AUTHS, Tables.AUTH_NONE]
  refine RunsOut.step' (enc32 1) _ ⟨c, .authFailedLen⟩ [] [.authFailed reason, .close] rfl rfl rfl ?_ rfl ?_
  · rw [rfb_step_eq]
    have : beNat (enc32 1) = 1 := beNat_enc32 1 (by omega)
    simp [step, stepCore, this, go, cutAtNoneFill, hv, lexLt]
  refine RunsOut.step' (enc32 reason.length) _ ⟨c, .authFailedMsg reason.length⟩ [] [.authFailed reason, .close]
    rfl rfl rfl ?_ rfl ?_
  · rw [rfb_step_eq]
    simp [step, stepCore, beNat_enc32, hl, go, cutAtNoneFill]
  refine RunsOut.step' reason rest ⟨c, .dead⟩ [.authFailed reason, .close] [] rfl rfl rfl ?_ rfl (RunsOut.done ?_)
  · rw [rfb_step_eq]
    simp [step, stepCore, dead, go, cutAtNoneFill]
  · simp [Machine.blocked, rfbMachine, halted]

theorem runs_none37_tail (c : Core) (hv : c.version = (3, 7)) (hs : c.cfg.shared = true) :
    RunsOut rfbMachine ⟨c, .numSecTypes⟩ [1, 1] [.write [1], .write [1]] := by
  refine RunsOut.step' [1] [1] ⟨c, .secTypes 1⟩ [] _ rfl rfl rfl ?_ rfl ?_
  · rw [rfb_step_eq]
    simp [step, stepCore, go, cutAtNoneFill]
  refine RunsOut.step' [1] [] ⟨c, .serverInit⟩ [.write [1], .write [1]] [] rfl rfl rfl ?_ rfl (RunsOut.done ?_)
  · rw [rfb_step_eq]
    simp [step, stepCore, go, clientInit, cutAtNoneFill, hv, hs, lexLt, Tables.SUPPORTED_AUTHS, Tables.AUTH_NONE]
  · simp [Machine.blocked, rfbMachine, halted, need]

theorem runs_none38_tail (c : Core) (hv : c.version = (3, 8)) :
    RunsOut rfbMachine ⟨c, .numSecTypes⟩ [1, 1] [.write [1]] := by
  refine RunsOut.step' [1] [1] ⟨c, .secTypes 1⟩ [] _ rfl rfl rfl ?_ rfl ?_
  · rw [rfb_step_eq]
    simp [step, stepCore, go, cutAtNoneFill]
  refine RunsOut.step' [1] [] ⟨c, .authResult⟩ [.write [1]] [] rfl rfl rfl ?_ rfl (RunsOut.done ?_)
  · rw [rfb_step_eq]
    simp [step, stepCore, go, cutAtNoneFill, hv, lexLt, Tables.SUPPORTED_AUTHS, Tables.AUTH_NONE]
  · simp [Machine.blocked, rfbMachine, halted, need]

theorem runs_none38_ok_tail (c : Core) (hv : c.version = (3, 8)) (hs : c.cfg.shared = true) :
    RunsOut rfbMachine ⟨c, .numSecTypes⟩ (1 :: 1 :: enc32 0) [.write [1], .write [1]] := by
  refine RunsOut.step' [1] _ ⟨c, .secTypes 1⟩ [] _ rfl rfl rfl ?_ rfl ?_
  · rw [rfb_step_eq]
    simp [step, stepCore, go, cutAtNoneFill]
  refine RunsOut.step' [1] _ ⟨c, .authResult⟩ [.write [1]] [.write [1]] rfl rfl rfl ?_ rfl ?_
  · rw [rfb_step_eq]
    simp [step, stepCore, go, cutAtNoneFill, hv, lexLt, Tables.SUPPORTED_AUTHS, Tables.AUTH_NONE]
  refine RunsOut.step' (enc32 0) [] ⟨c, .serverInit⟩ [.write [1]] [] (List.append_nil _).symm rfl rfl ?_ rfl (RunsOut.done ?_)
  · rw [rfb_step_eq]
    have : beNat (enc32 0) = 0 := beNat_enc32 0 (by omega)
    simp [step, stepCore, this, go, clientInit, cutAtNoneFill, hs]
  · simp [Machine.blocked, rfbMachine, halted, need]

def cfgOf (kind : ClientKind) (pw : Bool) : Cfg :=
  { kind := kind, hasPassword := pw, shared := true, encoding := 0, pseudocursor := false, nocursor := false,
    pseudodesktop := true, lastRect := true, qemuExt := true, authResponse := [1, 2, 3], ardReply := [9] }

/-- RFB 3.3 server refusing the connection with a reason of any length (including none): the client replies
    with its version, closes, reports nothing as success and parses nothing that follows -/
theorem C03_refused_33 (kind : ClientKind) (pw : Bool) (zq : List (Option Bytes)) (reason rest : Bytes)
    (hl : reason.length < 4294967296) :
    (feed rfbMachine (rfbInit (cfgOf kind pw) zq)
      (versionReply (3, 3) ++ enc32 0 ++ enc32 reason.length ++ reason ++ rest)).2.1
      = [.write (versionReply (3, 3)), .close] := by
  have hr : RunsOut rfbMachine (RSt.init (cfgOf kind pw) zq)
      (versionReply (3, 3) ++ enc32 0 ++ enc32 reason.length ++ reason ++ rest)
      [.write (versionReply (3, 3)), .close] := by
    simp only [List.append_assoc]
    rw [versionReply_33]
    simp only [List.cons_append, List.nil_append, RSt.init]
    iterate 11 (refine runs_banner_byte _ _ _ _ _ (by decide) (by decide) ?_)
    refine runs_banner_last _ _ _ _ _ (3, 3) .auth33 (by rfl) (by decide) (by decide) (by rfl) ?_
    exact runs_refused_tail _ reason rest hl
  exact runsOut_feed rfbMachine rfb_progress hr

/-- RFB 3.8, security None, SecurityResult failed + reason of any length -/
theorem C03_failed_38 (kind : ClientKind) (pw : Bool) (zq : List (Option Bytes)) (reason rest : Bytes)
    (hl : reason.length < 4294967296) :
    (feed rfbMachine (rfbInit (cfgOf kind pw) zq)
      (versionReply (3, 8) ++ [1, 1] ++ enc32 1 ++ enc32 reason.length ++ reason ++ rest)).2.1
      = [.write (versionReply (3, 8)), .write [1], .authFailed reason, .close] := by
  have hr : RunsOut rfbMachine (RSt.init (cfgOf kind pw) zq)
      (versionReply (3, 8) ++ [1, 1] ++ enc32 1 ++ enc32 reason.length ++ reason ++ rest)
      [.write (versionReply (3, 8)), .write [1], .authFailed reason, .close] := by
    simp only [List.append_assoc]
    rw [versionReply_38]
    simp only [List.cons_append, List.nil_append, RSt.init]
    iterate 11 (refine runs_banner_byte _ _ _ _ _ (by decide) (by decide) ?_)
    refine runs_banner_last _ _ _ _ _ (3, 8) .numSecTypes (by rfl) (by decide) (by decide) (by rfl) ?_
    exact runs_failed38_tail _ rfl reason rest hl
  exact runsOut_feed rfbMachine rfb_progress hr

/-- RFB 3.7, security None: ClientInit follows immediately, no SecurityResult is awaited -/
theorem C03_none_37 (kind : ClientKind) (pw : Bool) (zq : List (Option Bytes)) :
    (feed rfbMachine (rfbInit (cfgOf kind pw) zq) (versionReply (3, 7) ++ [1, 1])).2.1
      = [.write (versionReply (3, 7)), .write [1], .write [1]] := by
  have hr : RunsOut rfbMachine (RSt.init (cfgOf kind pw) zq) (versionReply (3, 7) ++ [1, 1])
      [.write (versionReply (3, 7)), .write [1], .write [1]] := by
    rw [versionReply_37]
    simp only [List.cons_append, List.nil_append, RSt.init]
    iterate 11 (refine runs_banner_byte _ _ _ _ _ (by decide) (by decide) ?_)
    refine runs_banner_last _ _ _ _ _ (3, 7) .numSecTypes (by rfl) (by decide) (by decide) (by rfl) ?_
    exact runs_none37_tail _ rfl rfl
  exact runsOut_feed rfbMachine rfb_progress hr

/-- RFB 3.8, security None: ClientInit only after SecurityResult OK -/
theorem C03_none_38 (kind : ClientKind) (pw : Bool) (zq : List (Option Bytes)) :
    (feed rfbMachine (rfbInit (cfgOf kind pw) zq) (versionReply (3, 8) ++ [1, 1])).2.1
      = [.write (versionReply (3, 8)), .write [1]] ∧
    (feed rfbMachine (rfbInit (cfgOf kind pw) zq) (versionReply (3, 8) ++ [1, 1] ++ enc32 0)).2.1
      = [.write (versionReply (3, 8)), .write [1], .write [1]] := by
  constructor
  · have hr : RunsOut rfbMachine (RSt.init (cfgOf kind pw) zq) (versionReply (3, 8) ++ [1, 1])
        [.write (versionReply (3, 8)), .write [1]] := by
      rw [versionReply_38]
      simp only [List.cons_append, List.nil_append, RSt.init]
      iterate 11 (refine runs_banner_byte _ _ _ _ _ (by decide) (by decide) ?_)
      refine runs_banner_last _ _ _ _ _ (3, 8) .numSecTypes (by rfl) (by decide) (by decide) (by rfl) ?_
      exact runs_none38_tail _ rfl
    exact runsOut_feed rfbMachine rfb_progress hr
  · have hr : RunsOut rfbMachine (RSt.init (cfgOf kind pw) zq) (versionReply (3, 8) ++ [1, 1] ++ enc32 0)
        [.write (versionReply (3, 8)), .write [1], .write [1]] := by
      simp only [List.append_assoc]
      rw [versionReply_38]
      simp only [List.cons_append, List.nil_append, RSt.init]
      iterate 11 (refine runs_banner_byte _ _ _ _ _ (by decide) (by decide) ?_)
      refine runs_banner_last _ _ _ _ _ (3, 8) .numSecTypes (by rfl) (by decide) (by decide) (by rfl) ?_
      exact runs_none38_ok_tail _ rfl rfl
    exact runsOut_feed rfbMachine rfb_progress hr

end Vnc
