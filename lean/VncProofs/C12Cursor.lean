import VncProofs.C12
/-!
# C12 with a cursor shape: the cursor stamps are the ONLY difference to the composition of what the server sent

`C12_refines` covers the screen for histories without cursor-shape updates, or with the no-cursor option.  With a cursor
shape (`--localcursor` or a server that sends the Cursor pseudo-encoding) the client stamps the shape into `self.screen`
after every rectangle (`drawCursor`), so the screen is deliberately *not* the server's framebuffer under the stamp.  What the
property still promises - exact size, everything received is there, nothing outside a rectangle changes - is stated here
for every history, with the pointer moving arbitrarily in between:

* the size of the screen is exactly that of the reference canvas (a cursor never grows, shrinks or creates the screen);
* every pixel that is not *dirty* equals the reference canvas, where a pixel becomes dirty only by lying under a stamp
  (inside the cursor image placed at pointer - hotspot, mask bit set) and becomes clean again as soon as the server sends
  it again.
-/
namespace Vnc
open Vnc.Spec

/-- an event of the screen's history: a callback of the protocol machine, or the script moving the pointer -/
inductive CEv
  | op (o : COp)
  | ptr (x y : Int)

def CEv.apply (mode : String) (cv : Canvas) : CEv → Canvas
  | .op o => o.apply mode cv
  | .ptr x y => { cv with ptrX := x, ptrY := y }

def cevRun (mode : String) (cv : Canvas) (evs : List CEv) : Canvas := evs.foldl (CEv.apply mode) cv

/-- the footprint of the cursor as `drawCursor` would stamp it now -/
def stamp (cv : Canvas) (i j : Nat) : Bool :=
  match cv.cursor with
  | none => false
  | some (img, m) =>
    let ox := cv.ptrX - cv.cfocus.1
    let oy := cv.ptrY - cv.cfocus.2
    decide (ox ≤ i ∧ (i : Int) < ox + img.w ∧ oy ≤ j ∧ (j : Int) < oy + img.h) &&
      m ((i : Int) - ox).toNat ((j : Int) - oy).toNat

/-- the dirty set after one event (`cv` = canvas BEFORE the event) -/
def dirtyStep (mode : String) (cv : Canvas) (D : Nat → Nat → Bool) : CEv → (Nat → Nat → Bool)
  | .ptr _ _ => D
  | .op (.resize _ _) => D
  | .op (.upd x y w h data) =>
    if data.isEmpty then D
    else fun i j =>
      (D i j && !decide (x ≤ i ∧ i < x + w ∧ y ≤ j ∧ j < y + h)) || stamp (updateRect cv mode x y w h data) i j
  | .op (.cursor x y w h image mask) =>
    if cv.nocursor then D
    else fun i j => D i j || stamp (updateCursor cv mode x y w h image mask) i j

def dirtyRun (mode : String) : Canvas → (Nat → Nat → Bool) → List CEv → (Nat → Nat → Bool)
  | _, D, [] => D
  | cv, D, e :: es => dirtyRun mode (e.apply mode cv) (dirtyStep mode cv D e) es

def CEv.toRef (mode : String) : CEv → List ROp
  | .op o => o.toRef mode
  | .ptr _ _ => []

def CEv.WF (mode : String) : CEv → Prop
  | .op o => o.WF mode
  | .ptr _ _ => True

/-- same size as the reference canvas, same pixel wherever it is not dirty -/
def SimOff (D : Nat → Nat → Bool) (scr : Option Img) (r : Ref) : Prop :=
  match scr, r.size with
  | none, none => True
  | some s, some (W, H) => s.w = W ∧ s.h = H ∧ ∀ i j, i < W → j < H → D i j = false → s.get i j = r.px i j
  | _, _ => False

/-! ## helpers -/

theorem drawCursor_fields (cv : Canvas) :
    (drawCursor cv).cursor = cv.cursor ∧ (drawCursor cv).cfocus = cv.cfocus ∧ (drawCursor cv).ptrX = cv.ptrX ∧
    (drawCursor cv).ptrY = cv.ptrY ∧ (drawCursor cv).nocursor = cv.nocursor := by
  unfold drawCursor
  split <;> simp

/-- the stamp only depends on the cursor shape, its hotspot and the pointer -/
theorem stamp_congr (a b : Canvas) (h1 : a.cursor = b.cursor) (h2 : a.cfocus = b.cfocus) (h3 : a.ptrX = b.ptrX)
    (h4 : a.ptrY = b.ptrY) : stamp a = stamp b := by
  funext i j
  simp only [stamp, h1, h2, h3, h4]

theorem stamp_drawCursor (cv : Canvas) : stamp (drawCursor cv) = stamp cv := by
  obtain ⟨h1, h2, h3, h4, _⟩ := drawCursor_fields cv
  exact stamp_congr _ _ h1 h2 h3 h4

theorem stamp_cursor_none (cv : Canvas) (hc : cv.cursor = none) (i j : Nat) : stamp cv i j = false := by
  simp [stamp, hc]

theorem isEmpty_false_of_ne {data : Bytes} (hd : data ≠ []) : data.isEmpty = false := by
  cases data <;> simp_all

theorem ne_of_isEmpty_false {data : Bytes} (hd : data.isEmpty = false) : data ≠ [] := by
  cases data <;> simp_all

/-- `updateRectangle` is the cursor-free update followed by `drawCursor` -/
theorem updateRect_eq_draw (mode : String) (cv : Canvas) (x y w h : Nat) (data : Bytes) (hd : data ≠ []) :
    updateRect cv mode x y w h data =
      drawCursor { cv with screen := (updateRect { cv with cursor := none } mode x y w h data).screen } := by
  rw [updateRect_screen mode { cv with cursor := none } x y w h data rfl hd]
  unfold updateRect
  simp only [isEmpty_false_of_ne hd, Bool.false_eq_true, if_false]
  rfl

theorem updateRect_fields (mode : String) (cv : Canvas) (x y w h : Nat) (data : Bytes) :
    (updateRect cv mode x y w h data).cursor = cv.cursor ∧ (updateRect cv mode x y w h data).cfocus = cv.cfocus ∧
    (updateRect cv mode x y w h data).ptrX = cv.ptrX ∧ (updateRect cv mode x y w h data).ptrY = cv.ptrY ∧
    (updateRect cv mode x y w h data).nocursor = cv.nocursor := by
  unfold updateRect
  split
  · simp
  · exact drawCursor_fields _

theorem stamp_updateRect (mode : String) (cv : Canvas) (x y w h : Nat) (data : Bytes) :
    stamp (updateRect cv mode x y w h data) = stamp cv := by
  obtain ⟨h1, h2, h3, h4, _⟩ := updateRect_fields mode cv x y w h data
  exact stamp_congr _ _ h1 h2 h3 h4

theorem resizeDesktop_fields (cv : Canvas) (w h : Nat) :
    (resizeDesktop cv w h).cursor = cv.cursor ∧ (resizeDesktop cv w h).nocursor = cv.nocursor := by
  simp [resizeDesktop]

theorem updateCursor_nocursor (mode : String) (cv : Canvas) (x y w h : Nat) (image mask : Bytes) :
    (updateCursor cv mode x y w h image mask).nocursor = cv.nocursor := by
  unfold updateCursor
  split
  · rfl
  · exact (drawCursor_fields _).2.2.2.2

theorem Ref.Tidy_toRef (mode : String) (e : CEv) (r : Ref) (ht : Ref.Tidy r) :
    Ref.Tidy ((e.toRef mode).foldl Ref.apply r) := by
  cases e with
  | ptr x y => simpa [CEv.toRef] using ht
  | op o =>
    cases o with
    | upd x y w h data => simpa [CEv.toRef, COp.toRef] using C12_tidy r _ ht
    | resize w h => simpa [CEv.toRef, COp.toRef] using C12_tidy r _ ht
    | cursor x y w h image mask => simpa [CEv.toRef, COp.toRef] using ht

/-- `drawCursor` changes neither the size nor any pixel outside the stamp -/
theorem C12_drawCursor_frame (cv : Canvas) (s : Img) (hs : cv.screen = some s) :
    ∃ s', (drawCursor cv).screen = some s' ∧ s'.w = s.w ∧ s'.h = s.h ∧
      ∀ i j, stamp cv i j = false → s'.get i j = s.get i j := by
  unfold drawCursor
  cases hc : cv.cursor with
  | none => exact ⟨s, by simp [hs], rfl, rfl, fun _ _ _ => rfl⟩
  | some p =>
    obtain ⟨img, m⟩ := p
    simp only [hs]
    refine ⟨_, rfl, rfl, rfl, ?_⟩
    intro i j hst
    simp only [stamp, hc, Bool.and_eq_false_iff, decide_eq_false_iff_not] at hst
    simp only [Img.pasteMask]
    rw [if_neg]
    intro hcond
    rcases hst with h1 | h1
    · exact h1 ⟨hcond.1, hcond.2.1, hcond.2.2.1, hcond.2.2.2.1⟩
    · rw [hcond.2.2.2.2] at h1; cases h1

/-- the cursor-free rectangle update: the rectangle becomes clean, the rest is as before -/
theorem SimOff_updateRect (mode : String) (cv : Canvas) (r : Ref) (D : Nat → Nat → Bool)
    (x y w h : Nat) (data : Bytes) (hc : cv.cursor = none) (hd : data ≠ []) (hz : ¬ (w = 0 ∨ h = 0))
    (hs : SimOff D cv.screen r) (ht : Ref.Tidy r) :
    SimOff (fun i j => D i j && !decide (x ≤ i ∧ i < x + w ∧ y ≤ j ∧ j < y + h))
      (updateRect cv mode x y w h data).screen (r.apply (.upd x y w h (decodeImage mode w h data).get)) := by
  obtain ⟨size, px⟩ := r
  simp only [Ref.apply, if_neg hz]
  cases hscr : cv.screen with
  | none =>
    rw [hscr] at hs
    cases size with
    | some p => simp [SimOff] at hs
    | none =>
      obtain ⟨s', hs', hw', hh', hpx⟩ := C12_first mode cv x y w h data hscr hc hd
      rw [hs']
      simp only [SimOff]
      refine ⟨hw', hh', ?_⟩
      intro i j hi hj _
      rw [hpx i j hi hj]
      simp only [Ref.Tidy] at ht
      by_cases hin : x ≤ i ∧ y ≤ j
      · rw [if_pos hin, if_pos (by omega)]
      · rw [if_neg hin, if_neg (by omega)]
        exact (ht i j).symm
  | some s =>
    rw [hscr] at hs
    cases size with
    | none => simp [SimOff] at hs
    | some p =>
      obtain ⟨W, H⟩ := p
      simp only [SimOff] at hs
      simp only [Ref.Tidy] at ht
      obtain ⟨h1, h2, h3⟩ := hs
      by_cases hg : s.w < x + w ∨ s.h < y + h
      · obtain ⟨s', hs', hw', hh', hpx⟩ := C12_growth mode cv s x y w h data hscr hc hd hg
        rw [hs']
        simp only [SimOff]
        refine ⟨by omega, by omega, ?_⟩
        intro i j hi hj hD
        rw [hpx i j]
        by_cases hin : x ≤ i ∧ i < x + w ∧ y ≤ j ∧ j < y + h
        · rw [if_pos hin, if_pos hin]
        · rw [if_neg hin, if_neg hin]
          have hD' : D i j = false := by simpa [hin] using hD
          by_cases hin2 : i < s.w ∧ j < s.h
          · rw [if_pos hin2]
            exact h3 i j (by omega) (by omega) hD'
          · rw [if_neg hin2]
            exact (ht i j (by omega)).symm
      · obtain ⟨s', hs', hw', hh', hpx⟩ :=
          C12_update_pixels mode cv s x y w h data hscr hc hd (by omega)
        rw [hs']
        simp only [SimOff]
        refine ⟨by omega, by omega, ?_⟩
        intro i j hi hj hD
        rw [hpx i j]
        by_cases hin : x ≤ i ∧ i < x + w ∧ y ≤ j ∧ j < y + h
        · rw [if_pos hin, if_pos hin]
        · rw [if_neg hin, if_neg hin]
          have hD' : D i j = false := by simpa [hin] using hD
          exact h3 i j (by omega) (by omega) hD'

/-- stamping the cursor onto a screen that agrees with the reference off `D` agrees with it off `D ∪ stamp` -/
theorem SimOff_drawCursor (cv : Canvas) (r : Ref) (D : Nat → Nat → Bool) (hs : SimOff D cv.screen r) :
    SimOff (fun i j => D i j || stamp cv i j) (drawCursor cv).screen r := by
  cases hscr : cv.screen with
  | none =>
    have : (drawCursor cv).screen = none := by
      unfold drawCursor
      split
      · simp_all
      · exact hscr
    rw [this]
    rw [hscr] at hs
    cases hsz : r.size with
    | none => simp [SimOff, hsz]
    | some p => simp [SimOff, hsz] at hs
  | some s =>
    obtain ⟨s', hs', hw', hh', hpx⟩ := C12_drawCursor_frame cv s hscr
    rw [hs']
    rw [hscr] at hs
    cases hsz : r.size with
    | none => simp [SimOff, hsz] at hs
    | some p =>
      obtain ⟨W, H⟩ := p
      simp only [SimOff, hsz] at hs ⊢
      obtain ⟨h1, h2, h3⟩ := hs
      refine ⟨by omega, by omega, ?_⟩
      intro i j hi hj hD
      simp only [Bool.or_eq_false_iff] at hD
      rw [hpx i j hD.2]
      exact h3 i j hi hj hD.1

/-- one event -/
theorem C12_cursor_step (mode : String) (hm : 0 < modeBypp mode) (cv : Canvas) (r : Ref) (D : Nat → Nat → Bool)
    (e : CEv) (hwf : e.WF mode) (hs : SimOff D cv.screen r) (ht : Ref.Tidy r) :
    SimOff (dirtyStep mode cv D e) (e.apply mode cv).screen ((e.toRef mode).foldl Ref.apply r) := by
  cases e with
  | ptr x y => simpa [CEv.apply, CEv.toRef, dirtyStep] using hs
  | op o =>
    cases o with
    | cursor x y w h image mask =>
      simp only [CEv.apply, COp.apply, CEv.toRef, COp.toRef, List.foldl_nil, dirtyStep]
      by_cases hn : cv.nocursor = true
      · simp only [hn, if_true, C12_nocursor mode cv x y w h image mask hn]
        exact hs
      · simp only [hn, Bool.false_eq_true, if_false]
        have hu : updateCursor cv mode x y w h image mask =
            drawCursor { cv with cursor := some (decodeImage mode w h image, decodeMask w mask), cfocus := (x, y) } := by
          simp [updateCursor, hn]
        rw [hu, stamp_drawCursor]
        exact SimOff_drawCursor _ r D hs
    | resize w h =>
      simp only [CEv.apply, COp.apply, CEv.toRef, COp.toRef, List.foldl_cons, List.foldl_nil, dirtyStep]
      obtain ⟨s', hs', hw', hh', hpx⟩ := C12_resize cv w h
      rw [hs']
      obtain ⟨size, px⟩ := r
      simp only [SimOff, Ref.apply]
      refine ⟨hw', hh', ?_⟩
      intro i j hi hj hD
      rw [hpx i j hi hj, if_pos ⟨hi, hj⟩]
      cases hscr : cv.screen with
      | none =>
        rw [hscr] at hs
        cases size with
        | none => exact (ht i j).symm
        | some p => simp [SimOff] at hs
      | some s =>
        rw [hscr] at hs
        cases size with
        | none => simp [SimOff] at hs
        | some p =>
          obtain ⟨W, H⟩ := p
          simp only [SimOff] at hs
          simp only [Ref.Tidy] at ht
          obtain ⟨h1, h2, h3⟩ := hs
          by_cases hin : i < s.w ∧ j < s.h
          · simp only [if_pos hin]
            exact h3 i j (by omega) (by omega) hD
          · simp only [if_neg hin]
            exact (ht i j (by omega)).symm
    | upd x y w h data =>
      simp only [CEv.apply, COp.apply, CEv.toRef, COp.toRef, List.foldl_cons, List.foldl_nil, dirtyStep]
      simp only [CEv.WF, COp.WF] at hwf
      by_cases hz : w = 0 ∨ h = 0
      · have hd : data = [] := by
          apply List.eq_nil_of_length_eq_zero
          rw [hwf]
          rcases hz with h0 | h0 <;> simp [h0]
        subst hd
        simp only [Ref.apply, if_pos hz]
        simpa [updateRect] using hs
      · have hd : data ≠ [] := by
          intro h0
          subst h0
          have hwh : 0 < w * h := Nat.mul_pos (by omega) (by omega)
          have : 0 < w * h * modeBypp mode := Nat.mul_pos hwh hm
          simp at hwf
          omega
        simp only [isEmpty_false_of_ne hd, Bool.false_eq_true, if_false]
        rw [stamp_updateRect, updateRect_eq_draw mode cv x y w h data hd]
        have hs0 : SimOff D ({ cv with cursor := none } : Canvas).screen r := hs
        have h1 := SimOff_updateRect mode { cv with cursor := none } r D x y w h data rfl hd hz hs0 ht
        have h2 := SimOff_drawCursor
          { cv with screen := (updateRect { cv with cursor := none } mode x y w h data).screen } _ _ h1
        have hst : stamp { cv with screen := (updateRect { cv with cursor := none } mode x y w h data).screen }
            = stamp cv := stamp_congr _ _ rfl rfl rfl rfl
        rw [hst] at h2
        exact h2

/-- **any history**, any cursor option, the pointer moving in between: the screen has exactly the size of the composition
    of what the server sent, and equals it at every pixel that is not under a cursor stamp the server has not yet
    repainted -/
theorem C12_cursor_frame (mode : String) (hm : 0 < modeBypp mode) (evs : List CEv) (hwf : ∀ e ∈ evs, e.WF mode)
    (cv : Canvas) (r : Ref) (D : Nat → Nat → Bool) (hs : SimOff D cv.screen r) (ht : Ref.Tidy r) :
    SimOff (dirtyRun mode cv D evs) (cevRun mode cv evs).screen (Ref.run r (evs.flatMap (CEv.toRef mode))) := by
  induction evs generalizing cv r D with
  | nil => simpa [dirtyRun, cevRun, Ref.run] using hs
  | cons e es ih =>
    have h1 := C12_cursor_step mode hm cv r D e (hwf e (by simp)) hs ht
    have h2 := Ref.Tidy_toRef mode e r ht
    have := ih (fun o ho => hwf o (by simp [ho])) _ _ _ h1 h2
    simpa [dirtyRun, cevRun, Ref.run, List.flatMap_cons, List.foldl_append] using this

/-- from a fresh client -/
theorem C12_cursor_frame_fresh (mode : String) (hm : 0 < modeBypp mode) (evs : List CEv) (hwf : ∀ e ∈ evs, e.WF mode)
    (nocursor : Bool) :
    SimOff (dirtyRun mode { nocursor := nocursor } (fun _ _ => false) evs)
      (cevRun mode { nocursor := nocursor } evs).screen (Ref.run {} (evs.flatMap (CEv.toRef mode))) := by
  apply C12_cursor_frame mode hm evs hwf
  · simp [SimOff]
  · simp [Ref.Tidy]

/-- the size clause of the property under every cursor option: right after a desktop-size change the screen has exactly
    the announced size, cursor or not -/
theorem C12_cursor_resize_size (mode : String) (hm : 0 < modeBypp mode) (evs : List CEv) (hwf : ∀ e ∈ evs, e.WF mode)
    (nocursor : Bool) (w h : Nat) :
    ∃ s, (cevRun mode { nocursor := nocursor } (evs ++ [.op (.resize w h)])).screen = some s ∧ s.w = w ∧ s.h = h := by
  have _ := hm
  have _ := hwf
  obtain ⟨s', hs', hw', hh', _⟩ := C12_resize (cevRun mode { nocursor := nocursor } evs) w h
  refine ⟨s', ?_, hw', hh'⟩
  simpa [cevRun, List.foldl_append, CEv.apply, COp.apply] using hs'

theorem C12_dirty_empty_gen (mode : String) (evs : List CEv) (cv : Canvas) (D : Nat → Nat → Bool)
    (hD : ∀ i j, D i j = false) (hc : cv.cursor = none)
    (hcur : cv.nocursor = true ∨ ∀ e ∈ evs, ∀ o, e = .op o → o.isCursor = false) :
    ∀ i j, dirtyRun mode cv D evs i j = false := by
  induction evs generalizing cv D with
  | nil => simpa [dirtyRun] using hD
  | cons e es ih =>
    simp only [dirtyRun]
    have hD' : ∀ i j, dirtyStep mode cv D e i j = false := by
      intro i j
      cases e with
      | ptr x y => simpa [dirtyStep] using hD i j
      | op o =>
        cases o with
        | resize w h => simpa [dirtyStep] using hD i j
        | upd x y w h data =>
          simp only [dirtyStep]
          split
          · exact hD i j
          · simp only [stamp_updateRect, stamp_cursor_none cv hc, hD i j, Bool.false_and, Bool.or_false]
        | cursor x y w h image mask =>
          have hn : cv.nocursor = true := by
            rcases hcur with h0 | h0
            · exact h0
            · have := h0 _ (List.mem_cons_self ..) _ rfl
              simp [COp.isCursor] at this
          simp only [dirtyStep, hn, if_true]
          exact hD i j
    have hc' : (e.apply mode cv).cursor = none ∧ (e.apply mode cv).nocursor = cv.nocursor := by
      cases e with
      | ptr x y => exact ⟨hc, rfl⟩
      | op o =>
        cases o with
        | resize w h => exact ⟨hc, rfl⟩
        | upd x y w h data => exact updateRect_cursor mode cv x y w h data hc
        | cursor x y w h image mask =>
          have hn : cv.nocursor = true := by
            rcases hcur with h0 | h0
            · exact h0
            · have := h0 _ (List.mem_cons_self ..) _ rfl
              simp [COp.isCursor] at this
          simp only [CEv.apply, COp.apply, C12_nocursor mode cv x y w h image mask hn]
          exact ⟨hc, trivial⟩
    apply ih _ _ hD' hc'.1
    rcases hcur with h0 | h0
    · left; rw [hc'.2]; exact h0
    · right; intro e' he'; exact h0 e' (by simp [he'])

/-- nothing is dirty while there is no cursor shape: with the no-cursor option, or without cursor-shape updates, the
    dirty set stays empty - `C12_refines` is the special case -/
theorem C12_dirty_empty (mode : String) (evs : List CEv) (cv : Canvas) (hc : cv.cursor = none)
    (h : cv.nocursor = true ∨ ∀ e ∈ evs, ∀ o, e = .op o → o.isCursor = false) :
    ∀ i j, dirtyRun mode cv (fun _ _ => false) evs i j = false :=
  C12_dirty_empty_gen mode evs cv _ (fun _ _ => rfl) hc h

/-- a pixel the server sends is clean right after the rectangle unless it lies under the stamp drawn after it -/
theorem C12_repaint_cleans (mode : String) (cv : Canvas) (D : Nat → Nat → Bool) (x y w h : Nat) (data : Bytes)
    (hd : data.isEmpty = false) (i j : Nat) (hin : x ≤ i ∧ i < x + w ∧ y ≤ j ∧ j < y + h)
    (hst : stamp (updateRect cv mode x y w h data) i j = false) :
    dirtyStep mode cv D (.op (.upd x y w h data)) i j = false := by
  simp only [dirtyStep, hd, Bool.false_eq_true, if_false, hst, Bool.or_false]
  simp [hin]

/-- non-vacuity: a concrete history with a cursor shape, a pointer move and a repaint.  The cursor is first stamped at
    (0,0) (dirty), the pointer moves to (1,1), the server repaints (0,0) (clean again) and the stamp drawn after that
    rectangle lands on (1,1) (dirty); (1,0) was never under a stamp. -/
def exEvs : List CEv :=
  [.op (.upd 0 0 2 2 [10, 11, 12, 20, 21, 22, 30, 31, 32, 40, 41, 42]), .op (.cursor 0 0 1 1 [9, 9, 9] [128]),
   .ptr 1 1, .op (.upd 0 0 1 1 [1, 2, 3])]

example : ∀ e ∈ exEvs, e.WF "RGB" := by
  intro e he
  simp only [exEvs, List.mem_cons, List.not_mem_nil, or_false] at he
  rcases he with rfl | rfl | rfl | rfl <;> simp [CEv.WF, COp.WF, modeBypp]

example : dirtyRun "RGB" { nocursor := false } (fun _ _ => false) (exEvs.take 2) 0 0 = true := by decide

example : dirtyRun "RGB" { nocursor := false } (fun _ _ => false) exEvs 1 1 = true ∧
    dirtyRun "RGB" { nocursor := false } (fun _ _ => false) exEvs 0 0 = false ∧
    dirtyRun "RGB" { nocursor := false } (fun _ _ => false) exEvs 1 0 = false := by
  decide

example : ((cevRun "RGB" { nocursor := false } exEvs).screen.map
      (fun s => (s.w, s.h, s.get 0 0, s.get 1 0, s.get 1 1))) == some (2, 2, (1, 2, 3), (20, 21, 22), (9, 9, 9)) := by
  decide

end Vnc
