import VncSpec.Hextile
import VncProofs.C02
namespace Vnc
open Vnc.Spec

theorem tsz_eq (a : Nat) : (if a < 16 then a else 16) = min 16 a := by
  split <;> omega

def nhPos (x y w : Nat) : Option (Nat × Nat) → Nat × Nat
  | some (tx, ty) => if tx + 16 ≥ x + w then (x, ty + 16) else (tx + 16, ty)
  | none => (x, y)

theorem nextHextile_eq (c : Core) (bg fg : Option Bytes) (x y w h : Nat) (t : Option (Nat × Nat)) (pre : List Out) :
    nextHextile c bg fg x y w h t pre =
      if (nhPos x y w t).2 ≥ y + h then doConnection c pre
      else go c (.hextile bg fg x y w h (nhPos x y w t).1 (nhPos x y w t).2) pre := by
  cases t with
  | none => rfl
  | some p => rfl

theorem nextHextile_pre (c : Core) (bg fg : Option Bytes) (x y w h : Nat) (t : Option (Nat × Nat)) (pre : List Out) :
    nextHextile c bg fg x y w h t pre =
      ((nextHextile c bg fg x y w h t []).1, pre ++ (nextHextile c bg fg x y w h t []).2) := by
  simp only [nextHextile_eq]
  split
  · rw [doConnection_pre]
  · simp [go]

theorem ok_nextHextile (c : Core) (bg fg : Option Bytes) (x y w h : Nat) (t : Option (Nat × Nat)) :
    ∀ o ∈ (nextHextile c bg fg x y w h t []).2, okOut o = true := by
  simp only [nextHextile_eq]
  split
  · exact ok_doConnection c
  · simp [go]

theorem runs_core_nh {s : RSt} {buf : Bytes} {out : List Out} {s' : RSt} {b' : Bytes}
    (a rest : Bytes) (c1 : Core) (bg fg : Option Bytes) (x y w h : Nat) (t : Option (Nat × Nat)) (pre o : List Out)
    (hb : buf = a ++ rest) (hh : halted s = false) (hl : a.length = need s)
    (hs : stepCore s a = nextHextile c1 bg fg x y w h t pre)
    (hok : ∀ x ∈ pre, okOut x = true) (ho : out = pre ++ (nextHextile c1 bg fg x y w h t []).2 ++ o)
    (hr : Runs rfbMachine (nextHextile c1 bg fg x y w h t []).1 rest o s' b') :
    Runs rfbMachine s buf out s' b' := by
  refine runs_core a rest _ (pre ++ (nextHextile c1 bg fg x y w h t []).2) o hb hh hl
    (by rw [hs, nextHextile_pre]) ?_ ho hr
  intro x hx
  rcases List.mem_append.1 hx with hx | hx
  · exact hok x hx
  · exact ok_nextHextile _ _ _ _ _ _ _ _ x hx
theorem flags_toNat (bg fg : Option Bytes) (any col : Bool) :
    (byteOf (flagsOf bg fg any col)).toNat = flagsOf bg fg any col := by
  rw [byteOf_toNat]
  cases bg <;> cases fg <;> cases any <;> cases col <;> simp [flagsOf]

theorem flag_raw (bg fg : Option Bytes) (any col : Bool) :
    testFlag (flagsOf bg fg any col) Tables.HEX_RAW = false := by
  cases bg <;> cases fg <;> cases any <;> cases col <;> simp [flagsOf, testFlag, Tables.HEX_RAW]
theorem flag_bg (bg fg : Option Bytes) (any col : Bool) :
    testFlag (flagsOf bg fg any col) Tables.HEX_BACKGROUND_SPECIFIED = bg.isSome := by
  cases bg <;> cases fg <;> cases any <;> cases col <;> simp [flagsOf, testFlag, Tables.HEX_BACKGROUND_SPECIFIED]
theorem flag_fg (bg fg : Option Bytes) (any col : Bool) :
    testFlag (flagsOf bg fg any col) Tables.HEX_FOREGROUND_SPECIFIED = fg.isSome := by
  cases bg <;> cases fg <;> cases any <;> cases col <;> simp [flagsOf, testFlag, Tables.HEX_FOREGROUND_SPECIFIED]
theorem flag_any (bg fg : Option Bytes) (any col : Bool) :
    testFlag (flagsOf bg fg any col) Tables.HEX_ANY_SUBRECTS = any := by
  cases bg <;> cases fg <;> cases any <;> cases col <;> simp [flagsOf, testFlag, Tables.HEX_ANY_SUBRECTS]
theorem flag_col (bg fg : Option Bytes) (any col : Bool) :
    testFlag (flagsOf bg fg any col) Tables.HEX_SUBRECTS_COLORED = col := by
  cases bg <;> cases fg <;> cases any <;> cases col <;> simp [flagsOf, testFlag, Tables.HEX_SUBRECTS_COLORED]

theorem step_hextile_raw (c : Core) (bg0 fg0 : Option Bytes) (x y w h tx ty : Nat) :
    stepCore ⟨c, .hextile bg0 fg0 x y w h tx ty⟩ [1] =
      (⟨c, .hextileRaw bg0 fg0 x y w h tx ty (min 16 (x + w - tx)) (min 16 (y + h - ty))⟩, []) := by
  simp [stepCore, testFlag, Tables.HEX_RAW, go, tsz_eq]

theorem step_hextile_flags (c : Core) (bg0 fg0 : Option Bytes) (x y w h tx ty : Nat) (bg fg : Option Bytes)
    (any col : Bool) :
    stepCore ⟨c, .hextile bg0 fg0 x y w h tx ty⟩ [byteOf (flagsOf bg fg any col)] =
      if (if bg.isSome = true then c.pf.bypp else 0) + (if fg.isSome = true then c.pf.bypp else 0)
          + (if any = true then 1 else 0) ≠ 0 then
        go c (.hextileSub (flagsOf bg fg any col)
          ((if bg.isSome = true then c.pf.bypp else 0) + (if fg.isSome = true then c.pf.bypp else 0)
            + (if any = true then 1 else 0)) bg0 fg0 x y w h tx ty (min 16 (x + w - tx)) (min 16 (y + h - ty))) []
      else nextHextile c bg0 fg0 x y w h (some (tx, ty))
        [.fill tx ty (min 16 (x + w - tx) : Nat) (min 16 (y + h - ty) : Nat) bg0] := by
  simp only [stepCore, List.getD_cons_zero, flags_toNat, flag_raw, flag_bg, flag_fg, flag_any, tsz_eq]
  simp

/-- the `.hextileSub` handler on a well-formed block -/
theorem step_hextileSub (c : Core) (nb : Nat) (bg0 fg0 : Option Bytes) (x y w h tx ty tw th : Nat)
    (bg fg : Option Bytes) (any col : Bool) (n : Nat)
    (hbg : ∀ b, bg = some b → b.length = c.pf.bypp) (hfg : ∀ f, fg = some f → f.length = c.pf.bypp)
    (hn : n < 256) :
    stepCore ⟨c, .hextileSub (flagsOf bg fg any col) nb bg0 fg0 x y w h tx ty tw th⟩
        (bg.getD [] ++ fg.getD [] ++ (if any = true then [byteOf n] else [])) =
      if (if any = true then n else 0) ≠ 0 then
        if col = true then
          go c (.hextileColoured (bg.orElse fun _ => bg0) (fg.orElse fun _ => fg0) n x y w h tx ty)
            [.fill tx ty tw th (bg.orElse fun _ => bg0)]
        else
          go c (.hextileFG (bg.orElse fun _ => bg0) (fg.orElse fun _ => fg0) n x y w h tx ty)
            [.fill tx ty tw th (bg.orElse fun _ => bg0)]
      else nextHextile c (bg.orElse fun _ => bg0) (fg.orElse fun _ => fg0) x y w h (some (tx, ty))
        [.fill tx ty tw th (bg.orElse fun _ => bg0)] := by
  simp only [stepCore, flag_bg, flag_fg, flag_any, flag_col]
  cases bg with
  | none =>
    cases fg with
    | none => cases any <;> simp [byteOf_toNat, Nat.mod_eq_of_lt hn]
    | some f =>
      have hf := hfg f rfl
      cases any <;> simp [byteOf_toNat, Nat.mod_eq_of_lt hn, ← hf]
  | some b =>
    have hb := hbg b rfl
    cases fg with
    | none => cases any <;> simp [byteOf_toNat, Nat.mod_eq_of_lt hn, ← hb]
    | some f =>
      have hf := hfg f rfl
      have e1 : (b ++ f ++ (if any = true then [byteOf n] else [])).take c.pf.bypp = b := by
        rw [List.append_assoc]; exact List.take_left' hb
      have e2 : ((b ++ f ++ (if any = true then [byteOf n] else [])).drop c.pf.bypp).take c.pf.bypp = f := by
        rw [List.append_assoc, List.drop_left' hb]; exact List.take_left' hf
      have e3 : (b ++ f ++ [byteOf n]).getD (c.pf.bypp + c.pf.bypp) 0 = byteOf n := by
        rw [← hf]; conv => lhs; arg 2; arg 1; rw [hf, ← hb]
        rw [← List.length_append]; simp
      cases any
      · simp at e1 e2; simp [e1, e2]
      · simp at e1 e2 e3; simp [e1, e2, e3, byteOf_toNat, Nat.mod_eq_of_lt hn]
def HexSub.ok (s : HexSub) : Prop := s.x < 16 ∧ s.y < 16 ∧ 1 ≤ s.w ∧ s.w ≤ 16 ∧ 1 ≤ s.h ∧ s.h ≤ 16

theorem sub_xy (s : HexSub) (h : HexSub.ok s) :
    (byteOf (s.x * 16 + s.y)).toNat / 16 = s.x ∧ (byteOf (s.x * 16 + s.y)).toNat % 16 = s.y ∧
    (byteOf ((s.w - 1) * 16 + (s.h - 1))).toNat / 16 + 1 = s.w ∧
    (byteOf ((s.w - 1) * 16 + (s.h - 1))).toNat % 16 + 1 = s.h := by
  obtain ⟨h1, h2, h3, h4, h5, h6⟩ := h
  simp only [byteOf_toNat]
  omega

theorem fillEq (tx ty a b w h : Nat) (col : Option Bytes) (xy wh : Nat) (h1 : xy / 16 = a) (h2 : xy % 16 = b)
    (h3 : wh / 16 + 1 = w) (h4 : wh % 16 + 1 = h) :
    Out.fill (tx + xy / 16) (ty + xy % 16) (wh / 16 + 1) (wh % 16 + 1) col =
      Out.fill ((tx + a : Nat) : Int) ((ty + b : Nat) : Int) w h col := by
  subst h1 h2 h3 h4
  simp

theorem hexFG_subs (tx ty : Nat) (rects : List HexSub) (fg : Option Bytes) (h : ∀ s ∈ rects, HexSub.ok s) :
    hexFG tx ty (rects.flatMap (HexSub.wire false)) fg =
      rects.map fun s => .fill ((tx + s.x : Nat) : Int) ((ty + s.y : Nat) : Int) s.w s.h fg := by
  unfold hexFG
  rw [List.flatMap_def, chunksOf_flatten_self 2 (by omega)]
  · rw [List.map_map]
    apply List.map_congr_left
    intro s hs
    obtain ⟨h1, h2, h3, h4⟩ := sub_xy s (h s hs)
    simp only [Function.comp, HexSub.wire]
    exact fillEq tx ty s.x s.y s.w s.h fg _ _ h1 h2 h3 h4
  · intro r hr
    obtain ⟨s, hs, rfl⟩ := List.mem_map.1 hr
    simp [HexSub.wire]

theorem hexColoured_fold (bypp tx ty : Nat) (rects : List HexSub)
    (h : ∀ s ∈ rects, HexSub.ok s ∧ s.col.length = bypp) : ∀ (acc : List Out × Option Bytes),
    (rects.map (HexSub.wire true)).foldl (fun (acc : List Out × Option Bytes) r =>
      let col := r.take bypp
      let xy := (r.getD bypp 0).toNat
      let wh := (r.getD (bypp + 1) 0).toNat
      (acc.1 ++ [Out.fill (tx + xy / 16) (ty + xy % 16) (wh / 16 + 1) (wh % 16 + 1) (some col)], some col)) acc =
    (acc.1 ++ rects.map (fun s => Out.fill ((tx + s.x : Nat) : Int) ((ty + s.y : Nat) : Int) s.w s.h (some s.col)),
     (rects.getLast?.map (·.col)).orElse fun _ => acc.2) := by
  induction rects with
  | nil => intro acc; simp
  | cons s rects ih =>
    intro acc
    obtain ⟨hok, hc⟩ := h s (by simp)
    obtain ⟨h1, h2, h3, h4⟩ := sub_xy s hok
    rw [List.map_cons, List.foldl_cons, ih (fun x hx => h x (by simp [hx]))]
    have e1 : (HexSub.wire true s).take bypp = s.col := by
      simp only [HexSub.wire, if_true]; exact List.take_left' hc
    have e2 : (HexSub.wire true s).getD bypp 0 = byteOf (s.x * 16 + s.y) := by
      simp [HexSub.wire, ← hc]
    have e3 : (HexSub.wire true s).getD (bypp + 1) 0 = byteOf ((s.w - 1) * 16 + (s.h - 1)) := by
      simp [HexSub.wire, ← hc]
    simp only [e1, e2, e3, fillEq tx ty s.x s.y s.w s.h (some s.col) _ _ h1 h2 h3 h4]
    rw [List.getLast?_cons]
    cases rects.getLast? <;> simp

theorem hexColoured_subs (bypp tx ty : Nat) (rects : List HexSub) (fg : Option Bytes)
    (h : ∀ s ∈ rects, HexSub.ok s ∧ s.col.length = bypp) :
    hexColoured bypp tx ty (rects.flatMap (HexSub.wire true)) fg =
      (rects.map (fun s => Out.fill ((tx + s.x : Nat) : Int) ((ty + s.y : Nat) : Int) s.w s.h (some s.col)),
       (rects.getLast?.map (·.col)).orElse fun _ => fg) := by
  unfold hexColoured
  rw [List.flatMap_def, chunksOf_flatten_self (bypp + 2) (by omega)]
  · rw [hexColoured_fold bypp tx ty rects h]; simp
  · intro r hr
    obtain ⟨s, hs, rfl⟩ := List.mem_map.1 hr
    simp [HexSub.wire, (h s hs).2]

theorem flatMap_hexwire_length (col : Bool) (bypp : Nat) (rects : List HexSub)
    (h : col = true → ∀ s ∈ rects, s.col.length = bypp) :
    (rects.flatMap (HexSub.wire col)).length = (if col = true then bypp + 2 else 2) * rects.length := by
  rw [List.flatMap_def, flatten_length_const _ (if col = true then bypp + 2 else 2)]
  · simp [Nat.mul_comm]
  · intro r hr
    obtain ⟨s, hs, rfl⟩ := List.mem_map.1 hr
    cases col
    · simp [HexSub.wire]
    · simp [HexSub.wire, h rfl s hs]

theorem ok_fill (a b w h : Int) (col : Option Bytes) (hc : col.isSome = true) : okOut (.fill a b w h col) = true := by
  cases col with
  | none => simp at hc
  | some v => rfl

theorem orElse_isSome (a b : Option Bytes) (h : a.isSome = true ∨ b.isSome = true) :
    (a.orElse fun _ => b).isSome = true := by
  cases a <;> cases b <;> simp_all

theorem getD_len (o : Option Bytes) (n : Nat) (h : ∀ b, o = some b → b.length = n) :
    (o.getD []).length = if o.isSome = true then n else 0 := by
  cases o with
  | none => rfl
  | some b => simpa using h b rfl

end Vnc

