import VncModel.Canvas
namespace Vnc
end Vnc
