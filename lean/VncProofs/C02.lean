import VncSpec.Encodings
import VncProofs.C03
/-!
# C02 — Every supported encoding reproduces the server framebuffer exactly (part A: Raw, CopyRect, RRE, CoRRE,
cursor, DesktopSize, QEMU-ext, LastRect; exact framing of whole updates)

For every well-formed encoder decision the client model consumes exactly the bytes of the update and hands the
application exactly the RFC's paint instructions, in order - for every rectangle size, every number of
sub-rectangles, every pixel format size, whatever follows on the stream.
-/
namespace Vnc
open Vnc.Spec

/-! ## helper lemmas -/


def okOut : Out → Bool
  | .fill _ _ _ _ none => false
  | _ => true

theorem cut_none_of_ok (l : List Out) (h : ∀ o ∈ l, okOut o = true) : cutAtNoneFill l = none := by
  induction l with
  | nil => rfl
  | cons a l ih =>
    have h1 := h a (by simp)
    have h2 := ih (fun o ho => h o (by simp [ho]))
    cases a <;> simp_all [cutAtNoneFill]
    case fill x y w h c => cases c <;> simp_all [cutAtNoneFill, okOut]

theorem doConnection_pre (c : Core) (pre : List Out) :
    doConnection c pre = ((doConnection c []).1, pre ++ (doConnection c []).2) := by
  unfold doConnection
  split
  · simp [go]
  · split <;> simp [go]

theorem ok_doConnection (c : Core) : ∀ x ∈ (doConnection c []).2, okOut x = true := by
  unfold doConnection
  split
  · simp [go]
  · split <;> simp [go, okOut]

theorem runs_core {s : RSt} {buf : Bytes} {out : List Out} {s' : RSt} {b' : Bytes}
    (a rest : Bytes) (s1 : RSt) (o1 o : List Out)
    (hb : buf = a ++ rest) (hh : halted s = false) (hl : a.length = need s) (hs : stepCore s a = (s1, o1))
    (hok : ∀ x ∈ o1, okOut x = true) (ho : out = o1 ++ o) (hr : Runs rfbMachine s1 rest o s' b') :
    Runs rfbMachine s buf out s' b' := by
  refine Runs.step' a rest s1 o1 o hb hh hl ?_ ho hr
  rw [rfb_step_eq, step_eq_core _ _ (by rw [hs]; exact cut_none_of_ok _ hok), hs]

theorem runs_core_dc {s : RSt} {buf : Bytes} {out : List Out} {s' : RSt} {b' : Bytes}
    (a rest : Bytes) (c1 : Core) (pre o : List Out)
    (hb : buf = a ++ rest) (hh : halted s = false) (hl : a.length = need s)
    (hs : stepCore s a = doConnection c1 pre)
    (hok : ∀ x ∈ pre, okOut x = true) (ho : out = pre ++ (doConnection c1 []).2 ++ o)
    (hr : Runs rfbMachine (doConnection c1 []).1 rest o s' b') :
    Runs rfbMachine s buf out s' b' := by
  refine runs_core a rest _ (pre ++ (doConnection c1 []).2) o hb hh hl (by rw [hs, doConnection_pre]) ?_ ho hr
  intro x hx
  rcases List.mem_append.1 hx with hx | hx
  · exact hok x hx
  · exact ok_doConnection c1 x hx



theorem s32_lit : s32 (beNat (encS32 0)) = 0 ∧ s32 (beNat (encS32 1)) = 1 ∧ s32 (beNat (encS32 2)) = 2 ∧
   s32 (beNat (encS32 4)) = 4 ∧ s32 (beNat (encS32 (-239))) = -239 ∧ s32 (beNat (encS32 (-223))) = -223 ∧
   s32 (beNat (encS32 (-258))) = -258 ∧ s32 (beNat (encS32 (-224))) = -224 := by decide

theorem header_fields (r : Rct) (hr : r.WF) (e : Int) :
    beNat ((rectHeader r e).take 2) = r.x ∧ beNat (((rectHeader r e).drop 2).take 2) = r.y ∧
    beNat (((rectHeader r e).drop 4).take 2) = r.w ∧ beNat (((rectHeader r e).drop 6).take 2) = r.h ∧
    (rectHeader r e).drop 8 = encS32 e ∧ (rectHeader r e).length = 12 := by
  obtain ⟨h1, h2, h3, h4⟩ := hr
  have e1 := beNat_enc16 _ h1
  have e2 := beNat_enc16 _ h2
  have e3 := beNat_enc16 _ h3
  have e4 := beNat_enc16 _ h4
  refine ⟨e1, e2, e3, e4, rfl, rfl⟩

/-- the rectangle-header handler, as a function of the decoded fields -/
def rectDispatch (c : Core) (x y w h : Nat) (enc : Int) : RSt × List Out :=
    let c := if enc == Tables.ENC_PSEUDO_LAST_RECT then { c with rectangles := 0 } else c
    if c.rectangles ≠ 0 then
      let c := { c with rectangles := c.rectangles - 1, rectPos := c.rectPos ++ [(x, y, w, h)] }
      if enc == Tables.ENC_COPY_RECTANGLE then go c (.copyrect x y w h) []
      else if enc == Tables.ENC_RAW then go c (.raw x y w h) []
      else if enc == Tables.ENC_HEXTILE then nextHextile c none none x y w h none []
      else if enc == Tables.ENC_CORRE then go c (.corre x y w h) []
      else if enc == Tables.ENC_RRE then go c (.rre x y w h) []
      else if enc == Tables.ENC_ZRLE then go c (.zrle x y w h) []
      else if enc == Tables.ENC_PSEUDO_CURSOR then go c (.cursor x y w h) []
      else if enc == Tables.ENC_PSEUDO_DESKTOP_SIZE then
        doConnection { c with width := w, height := h } [.desktop w h]
      else if enc == Tables.ENC_PSEUDO_QEMU_EXTENDED_KEY_EVENT then
        doConnection { c with qemuNegotiated := true, rectPos := c.rectPos.dropLast } []
      else dead c [.close]
    else doConnection c []

theorem stepCore_rectangle (c : Core) (r : Rct) (hr : r.WF) (e : Int) (he : s32 (beNat (encS32 e)) = e) :
    stepCore ⟨c, .rectangle⟩ (rectHeader r e) = rectDispatch c r.x r.y r.w r.h e := by
  obtain ⟨h1, h2, h3, h4, h5, _⟩ := header_fields r hr e
  simp only [stepCore, h1, h2, h3, h4, h5, he, rectDispatch]



theorem flatten_length_const (recs : List Bytes) (sz : Nat) (h : ∀ r ∈ recs, r.length = sz) :
    recs.flatten.length = recs.length * sz := by
  induction recs with
  | nil => simp
  | cons r recs ih =>
    have h1 := h r (by simp)
    have h2 := ih (fun x hx => h x (by simp [hx]))
    simp only [List.flatten_cons, List.length_append, List.length_cons, h1, h2]
    rw [Nat.add_mul]; omega

theorem chunksOf_flatten (sz : Nat) (hsz : 0 < sz) : ∀ (recs : List Bytes) (fuel : Nat),
    (∀ r ∈ recs, r.length = sz) → recs.length ≤ fuel → chunksOf sz fuel recs.flatten = recs := by
  intro recs
  induction recs with
  | nil => intro fuel _ _; cases fuel <;> simp [chunksOf]
  | cons r recs ih =>
    intro fuel h hf
    have h1 := h r (by simp)
    cases fuel with
    | zero => simp at hf
    | succ f =>
      have hne : r ≠ [] := by intro h0; rw [h0] at h1; simp at h1; omega
      simp only [chunksOf, List.flatten_cons, List.isEmpty_iff, List.append_eq_nil_iff, hne, false_and,
        if_false]
      rw [List.take_left' h1, List.drop_left' h1, ih f (fun x hx => h x (by simp [hx])) (by simpa using hf)]

theorem chunksOf_flatten_self (sz : Nat) (hsz : 0 < sz) (recs : List Bytes) (h : ∀ r ∈ recs, r.length = sz) :
    chunksOf sz recs.flatten.length recs.flatten = recs := by
  apply chunksOf_flatten sz hsz recs _ h
  rw [flatten_length_const recs sz h]
  exact Nat.le_mul_of_pos_right _ hsz

theorem rreFills_subs (bypp x y : Nat) (subs : List Sub)
    (h : ∀ s ∈ subs, s.col.length = bypp ∧ s.x < 65536 ∧ s.y < 65536 ∧ s.w < 65536 ∧ s.h < 65536) :
    rreFills bypp x y (subs.flatMap Sub.wire16) =
      subs.map fun s => .fill ((x + s.x : Nat) : Int) ((y + s.y : Nat) : Int) s.w s.h (some s.col) := by
  unfold rreFills
  rw [List.flatMap_def, chunksOf_flatten_self (bypp + 8) (by omega)]
  · rw [List.map_map]
    apply List.map_congr_left
    intro s hs
    obtain ⟨hc, hx, hy, hw, hh⟩ := h s hs
    have hw16 : Sub.wire16 s = s.col ++ (enc16 s.x ++ enc16 s.y ++ enc16 s.w ++ enc16 s.h) := by
      simp [Sub.wire16, List.append_assoc]
    simp only [Function.comp, hw16, List.take_left' hc, List.drop_left' hc]
    have e1 : beNat ((enc16 s.x ++ enc16 s.y ++ enc16 s.w ++ enc16 s.h).take 2) = s.x := beNat_enc16 _ hx
    have e2 : beNat (((enc16 s.x ++ enc16 s.y ++ enc16 s.w ++ enc16 s.h).drop 2).take 2) = s.y := beNat_enc16 _ hy
    have e3 : beNat (((enc16 s.x ++ enc16 s.y ++ enc16 s.w ++ enc16 s.h).drop 4).take 2) = s.w := beNat_enc16 _ hw
    have e4 : beNat (((enc16 s.x ++ enc16 s.y ++ enc16 s.w ++ enc16 s.h).drop 6).take 2) = s.h := beNat_enc16 _ hh
    rw [e1, e2, e3, e4]
    simp
  · intro r hr
    obtain ⟨s, hs, rfl⟩ := List.mem_map.1 hr
    have := (h s hs).1
    simp [Sub.wire16, enc16_length, this]

theorem correFills_subs (bypp x y : Nat) (subs : List Sub)
    (h : ∀ s ∈ subs, s.col.length = bypp ∧ s.x < 256 ∧ s.y < 256 ∧ s.w < 256 ∧ s.h < 256) :
    correFills bypp x y (subs.flatMap Sub.wire8) =
      subs.map fun s => .fill ((x + s.x : Nat) : Int) ((y + s.y : Nat) : Int) s.w s.h (some s.col) := by
  unfold correFills
  rw [List.flatMap_def, chunksOf_flatten_self (bypp + 4) (by omega)]
  · rw [List.map_map]
    apply List.map_congr_left
    intro s hs
    obtain ⟨hc, hx, hy, hw, hh⟩ := h s hs
    simp only [Function.comp, Sub.wire8, List.take_left' hc, List.drop_left' hc]
    simp [byteOf_toNat, Nat.mod_eq_of_lt, hx, hy, hw, hh]
  · intro r hr
    obtain ⟨s, hs, rfl⟩ := List.mem_map.1 hr
    have := (h s hs).1
    simp [Sub.wire8, this]

/-- the protocol object after a rectangle has been handled -/
def coreAfterRect (c : Core) (r : Rct) : Body → Core
  | .desktopSize => { c with rectangles := c.rectangles - 1, rectPos := c.rectPos ++ [(r.x, r.y, r.w, r.h)],
                              width := r.w, height := r.h }
  | .qemuExtKey => { c with rectangles := c.rectangles - 1, qemuNegotiated := true,
                            rectPos := (c.rectPos ++ [(r.x, r.y, r.w, r.h)]).dropLast }
  | _ => { c with rectangles := c.rectangles - 1, rectPos := c.rectPos ++ [(r.x, r.y, r.w, r.h)] }

def coreAfterRects (c : Core) : List (Rct × Body) → Core
  | [] => c
  | rb :: rest => coreAfterRects (coreAfterRect c rb.1 rb.2) rest

/-- the core after the header of an ordinary rectangle -/
def coreHdr (c : Core) (r : Rct) : Core :=
  { c with rectangles := c.rectangles - 1, rectPos := c.rectPos ++ [(r.x, r.y, r.w, r.h)] }

theorem hdr_raw (c : Core) (r : Rct) (hr : r.WF) (hk : c.rectangles ≠ 0) :
    stepCore ⟨c, .rectangle⟩ (rectHeader r 0) = (⟨coreHdr c r, .raw r.x r.y r.w r.h⟩, []) := by
  rw [stepCore_rectangle c r hr 0 s32_lit.1]
  simp [rectDispatch, hk, go, coreHdr, Tables.ENC_RAW, Tables.ENC_COPY_RECTANGLE, Tables.ENC_PSEUDO_LAST_RECT]

theorem hdr_copy (c : Core) (r : Rct) (hr : r.WF) (hk : c.rectangles ≠ 0) :
    stepCore ⟨c, .rectangle⟩ (rectHeader r 1) = (⟨coreHdr c r, .copyrect r.x r.y r.w r.h⟩, []) := by
  rw [stepCore_rectangle c r hr 1 s32_lit.2.1]
  simp [rectDispatch, hk, go, coreHdr, Tables.ENC_COPY_RECTANGLE, Tables.ENC_PSEUDO_LAST_RECT]

theorem hdr_rre (c : Core) (r : Rct) (hr : r.WF) (hk : c.rectangles ≠ 0) :
    stepCore ⟨c, .rectangle⟩ (rectHeader r 2) = (⟨coreHdr c r, .rre r.x r.y r.w r.h⟩, []) := by
  rw [stepCore_rectangle c r hr 2 s32_lit.2.2.1]
  simp [rectDispatch, hk, go, coreHdr, Tables.ENC_RAW, Tables.ENC_COPY_RECTANGLE, Tables.ENC_PSEUDO_LAST_RECT,
    Tables.ENC_HEXTILE, Tables.ENC_CORRE, Tables.ENC_RRE]

theorem hdr_corre (c : Core) (r : Rct) (hr : r.WF) (hk : c.rectangles ≠ 0) :
    stepCore ⟨c, .rectangle⟩ (rectHeader r 4) = (⟨coreHdr c r, .corre r.x r.y r.w r.h⟩, []) := by
  rw [stepCore_rectangle c r hr 4 s32_lit.2.2.2.1]
  simp [rectDispatch, hk, go, coreHdr, Tables.ENC_RAW, Tables.ENC_COPY_RECTANGLE, Tables.ENC_PSEUDO_LAST_RECT,
    Tables.ENC_HEXTILE, Tables.ENC_CORRE]

theorem hdr_cursor (c : Core) (r : Rct) (hr : r.WF) (hk : c.rectangles ≠ 0) :
    stepCore ⟨c, .rectangle⟩ (rectHeader r (-239)) = (⟨coreHdr c r, .cursor r.x r.y r.w r.h⟩, []) := by
  rw [stepCore_rectangle c r hr (-239) s32_lit.2.2.2.2.1]
  simp [rectDispatch, hk, go, coreHdr, Tables.ENC_RAW, Tables.ENC_COPY_RECTANGLE, Tables.ENC_PSEUDO_LAST_RECT,
    Tables.ENC_HEXTILE, Tables.ENC_CORRE, Tables.ENC_RRE, Tables.ENC_ZRLE, Tables.ENC_PSEUDO_CURSOR]

theorem hdr_desktop (c : Core) (r : Rct) (hr : r.WF) (hk : c.rectangles ≠ 0) :
    stepCore ⟨c, .rectangle⟩ (rectHeader r (-223)) =
      doConnection (coreAfterRect c r .desktopSize) [.desktop r.w r.h] := by
  rw [stepCore_rectangle c r hr (-223) s32_lit.2.2.2.2.2.1]
  simp [rectDispatch, hk, coreAfterRect, Tables.ENC_RAW, Tables.ENC_COPY_RECTANGLE, Tables.ENC_PSEUDO_LAST_RECT,
    Tables.ENC_HEXTILE, Tables.ENC_CORRE, Tables.ENC_RRE, Tables.ENC_ZRLE, Tables.ENC_PSEUDO_CURSOR,
    Tables.ENC_PSEUDO_DESKTOP_SIZE]

theorem hdr_qemu (c : Core) (r : Rct) (hr : r.WF) (hk : c.rectangles ≠ 0) :
    stepCore ⟨c, .rectangle⟩ (rectHeader r (-258)) = doConnection (coreAfterRect c r .qemuExtKey) [] := by
  rw [stepCore_rectangle c r hr (-258) s32_lit.2.2.2.2.2.2.1]
  simp [rectDispatch, hk, coreAfterRect, Tables.ENC_RAW, Tables.ENC_COPY_RECTANGLE, Tables.ENC_PSEUDO_LAST_RECT,
    Tables.ENC_HEXTILE, Tables.ENC_CORRE, Tables.ENC_RRE, Tables.ENC_ZRLE, Tables.ENC_PSEUDO_CURSOR,
    Tables.ENC_PSEUDO_DESKTOP_SIZE, Tables.ENC_PSEUDO_QEMU_EXTENDED_KEY_EVENT]

theorem hdr_last (c : Core) :
    stepCore ⟨c, .rectangle⟩ (rectHeader ⟨0, 0, 0, 0⟩ (-224)) = doConnection { c with rectangles := 0 } [] := by
  rw [stepCore_rectangle c ⟨0, 0, 0, 0⟩ (by simp [Rct.WF]) (-224) s32_lit.2.2.2.2.2.2.2]
  simp [rectDispatch, Tables.ENC_PSEUDO_LAST_RECT]

theorem car_raw (c : Core) (r : Rct) (px : Bytes) : coreAfterRect c r (.raw px) = coreHdr c r := rfl
theorem car_copy (c : Core) (r : Rct) (sx sy : Nat) : coreAfterRect c r (.copyRect sx sy) = coreHdr c r := rfl
theorem car_rre (c : Core) (r : Rct) (bg : Bytes) (subs : List Sub) : coreAfterRect c r (.rre bg subs) = coreHdr c r := rfl
theorem car_corre (c : Core) (r : Rct) (bg : Bytes) (subs : List Sub) :
    coreAfterRect c r (.corre bg subs) = coreHdr c r := rfl
theorem car_cursor (c : Core) (r : Rct) (px mask : Bytes) : coreAfterRect c r (.cursor px mask) = coreHdr c r := rfl

theorem ok_map_fill {α : Type} (l : List α) (fx fy fw fh : α → Int) (fc : α → Bytes) :
    ∀ x ∈ l.map (fun s => Out.fill (fx s) (fy s) (fw s) (fh s) (some (fc s))), okOut x = true := by
  intro x hx
  obtain ⟨s, _, rfl⟩ := List.mem_map.1 hx
  rfl

theorem flatMap_wire16_length (bypp : Nat) (subs : List Sub) (h : ∀ s ∈ subs, s.col.length = bypp) :
    (subs.flatMap Sub.wire16).length = (8 + bypp) * subs.length := by
  rw [List.flatMap_def, flatten_length_const _ (bypp + 8)]
  · simp [Nat.mul_comm, Nat.add_comm]
  · intro r hr
    obtain ⟨s, hs, rfl⟩ := List.mem_map.1 hr
    simp [Sub.wire16, enc16_length, h s hs]

theorem flatMap_wire8_length (bypp : Nat) (subs : List Sub) (h : ∀ s ∈ subs, s.col.length = bypp) :
    (subs.flatMap Sub.wire8).length = (4 + bypp) * subs.length := by
  rw [List.flatMap_def, flatten_length_const _ (bypp + 4)]
  · simp [Nat.mul_comm, Nat.add_comm]
  · intro r hr
    obtain ⟨s, hs, rfl⟩ := List.mem_map.1 hr
    simp [Sub.wire8, h s hs]

theorem step_rre (c : Core) (x y w h n : Nat) (bg : Bytes) (hn : n < 4294967296) :
    stepCore ⟨c, .rre x y w h⟩ (enc32 n ++ bg) =
      if n ≠ 0 then go c (.rreSubs n x y) [.fill x y w h (some bg)] else doConnection c [.fill x y w h (some bg)] := by
  have hb4 : (enc32 n ++ bg).take 4 = enc32 n := List.take_left' rfl
  have hd4 : (enc32 n ++ bg).drop 4 = bg := List.drop_left' rfl
  simp only [stepCore, hb4, hd4, beNat_enc32 _ hn]

theorem step_corre (c : Core) (x y w h n : Nat) (bg : Bytes) (hn : n < 4294967296) :
    stepCore ⟨c, .corre x y w h⟩ (enc32 n ++ bg) =
      if n ≠ 0 then go c (.correSubs n x y) [.fill x y w h (some bg)] else doConnection c [.fill x y w h (some bg)] := by
  have hb4 : (enc32 n ++ bg).take 4 = enc32 n := List.take_left' rfl
  have hd4 : (enc32 n ++ bg).drop 4 = bg := List.drop_left' rfl
  simp only [stepCore, hb4, hd4, beNat_enc32 _ hn]

/-- **one rectangle**: from the state that expects a rectangle header, the header and body are consumed exactly,
    the RFC's paint instructions are emitted, and the machine continues (next rectangle, or commit and next message)
    with whatever follows -/
theorem C02_rect (c : Core) (r : Rct) (body : Body) (hr : r.WF) (hwf : body.WF c.pf.bypp r) (hk : c.rectangles ≠ 0)
    (rest : Bytes) (o : List Out) (s' : RSt) (b' : Bytes)
    (hcont : Runs rfbMachine (doConnection (coreAfterRect c r body) []).1 rest o s' b') :
    Runs rfbMachine ⟨c, .rectangle⟩ (rectHeader r body.enc ++ body.wire ++ rest)
      (body.paint r ++ (doConnection (coreAfterRect c r body) []).2 ++ o) s' b' := by
  cases body with
  | raw px =>
    rw [car_raw] at hcont ⊢
    refine runs_core (rectHeader r 0) (px ++ rest) _ [] _ (by simp [Body.enc, Body.wire]) rfl rfl
      (hdr_raw c r hr hk) (by simp) rfl ?_
    refine runs_core_dc px rest (coreHdr c r) [.update r.x r.y r.w r.h px] o rfl rfl ?_ rfl (by simp [okOut]) rfl hcont
    exact hwf
  | copyRect sx sy =>
    rw [car_copy] at hcont ⊢
    obtain ⟨h1, h2⟩ := hwf
    refine runs_core (rectHeader r 1) (enc16 sx ++ enc16 sy ++ rest) _ [] _ (by simp [Body.enc, Body.wire]) rfl rfl
      (hdr_copy c r hr hk) (by simp) rfl ?_
    refine runs_core_dc (enc16 sx ++ enc16 sy) rest (coreHdr c r) [.copy sx sy r.x r.y r.w r.h] o rfl rfl rfl ?_
      (by simp [okOut]) rfl hcont
    have e1 : beNat ((enc16 sx ++ enc16 sy).take 2) = sx := beNat_enc16 _ h1
    have e2 : beNat ((enc16 sx ++ enc16 sy).drop 2) = sy := beNat_enc16 _ h2
    simp only [stepCore, e1, e2]
  | rre bg subs =>
    rw [car_rre] at hcont ⊢
    obtain ⟨hbg, hn, hsub⟩ := hwf
    refine runs_core (rectHeader r 2) (enc32 subs.length ++ bg ++ (subs.flatMap Sub.wire16 ++ rest)) _ [] _
      (by simp [Body.enc, Body.wire]) rfl rfl (hdr_rre c r hr hk) (by simp) rfl ?_
    have hl1 : (enc32 subs.length ++ bg).length = need ⟨coreHdr c r, .rre r.x r.y r.w r.h⟩ := by
      simp [need, hbg, enc32_length, coreHdr]
    by_cases hz : subs.length = 0
    · have hs0 : subs = [] := List.eq_nil_of_length_eq_zero hz
      refine runs_core_dc (enc32 subs.length ++ bg) _ (coreHdr c r) [.fill r.x r.y r.w r.h (some bg)] o rfl rfl hl1 ?_
        (by simp [okOut]) (by simp [hs0]) (by simpa [hs0] using hcont)
      rw [step_rre _ _ _ _ _ _ _ hn]
      simp [hz]
    · refine runs_core (enc32 subs.length ++ bg) _ ⟨coreHdr c r, .rreSubs subs.length r.x r.y⟩
        [.fill r.x r.y r.w r.h (some bg)] _ rfl rfl hl1 ?_ (by simp [okOut]) rfl ?_
      · rw [step_rre _ _ _ _ _ _ _ hn]
        simp [hz, go]
      · refine runs_core_dc (subs.flatMap Sub.wire16) rest (coreHdr c r)
          (subs.map fun s => .fill ((r.x + s.x : Nat) : Int) ((r.y + s.y : Nat) : Int) s.w s.h (some s.col))
          o rfl rfl ?_ ?_ ?_ ?_ hcont
        · rw [flatMap_wire16_length _ _ (fun s hs => (hsub s hs).1)]
          simp [need, coreHdr]
        · have : stepCore ⟨coreHdr c r, .rreSubs subs.length r.x r.y⟩ (subs.flatMap Sub.wire16) =
            doConnection (coreHdr c r) (rreFills c.pf.bypp r.x r.y (subs.flatMap Sub.wire16)) := rfl
          rw [this, rreFills_subs _ _ _ _ hsub]
        · exact ok_map_fill subs _ _ _ _ _
        · simp
  | corre bg subs =>
    rw [car_corre] at hcont ⊢
    obtain ⟨hbg, hn, hsub⟩ := hwf
    refine runs_core (rectHeader r 4) (enc32 subs.length ++ bg ++ (subs.flatMap Sub.wire8 ++ rest)) _ [] _
      (by simp [Body.enc, Body.wire]) rfl rfl (hdr_corre c r hr hk) (by simp) rfl ?_
    have hl1 : (enc32 subs.length ++ bg).length = need ⟨coreHdr c r, .corre r.x r.y r.w r.h⟩ := by
      simp [need, hbg, enc32_length, coreHdr]
    by_cases hz : subs.length = 0
    · have hs0 : subs = [] := List.eq_nil_of_length_eq_zero hz
      refine runs_core_dc (enc32 subs.length ++ bg) _ (coreHdr c r) [.fill r.x r.y r.w r.h (some bg)] o rfl rfl hl1 ?_
        (by simp [okOut]) (by simp [hs0]) (by simpa [hs0] using hcont)
      rw [step_corre _ _ _ _ _ _ _ hn]
      simp [hz]
    · refine runs_core (enc32 subs.length ++ bg) _ ⟨coreHdr c r, .correSubs subs.length r.x r.y⟩
        [.fill r.x r.y r.w r.h (some bg)] _ rfl rfl hl1 ?_ (by simp [okOut]) rfl ?_
      · rw [step_corre _ _ _ _ _ _ _ hn]
        simp [hz, go]
      · refine runs_core_dc (subs.flatMap Sub.wire8) rest (coreHdr c r)
          (subs.map fun s => .fill ((r.x + s.x : Nat) : Int) ((r.y + s.y : Nat) : Int) s.w s.h (some s.col))
          o rfl rfl ?_ ?_ ?_ ?_ hcont
        · rw [flatMap_wire8_length _ _ (fun s hs => (hsub s hs).1)]
          simp [need, coreHdr]
        · have : stepCore ⟨coreHdr c r, .correSubs subs.length r.x r.y⟩ (subs.flatMap Sub.wire8) =
            doConnection (coreHdr c r) (correFills c.pf.bypp r.x r.y (subs.flatMap Sub.wire8)) := rfl
          rw [this, correFills_subs _ _ _ _ hsub]
        · exact ok_map_fill subs _ _ _ _ _
        · simp
  | cursor px mask =>
    rw [car_cursor] at hcont ⊢
    obtain ⟨h1, h2⟩ := hwf
    refine runs_core (rectHeader r (-239)) (px ++ mask ++ rest) _ [] _ (by simp [Body.enc, Body.wire]) rfl rfl
      (hdr_cursor c r hr hk) (by simp) rfl ?_
    refine runs_core_dc (px ++ mask) rest (coreHdr c r) [.cursor r.x r.y r.w r.h px mask] o rfl rfl ?_ ?_
      (by simp [okOut]) rfl hcont
    · simp [need, h1, h2, coreHdr]
    · have e1 : (px ++ mask).take (r.w * r.h * c.pf.bypp) = px := List.take_left' h1
      have e2 : (px ++ mask).drop (r.w * r.h * c.pf.bypp) = mask := List.drop_left' h1
      have : stepCore ⟨coreHdr c r, .cursor r.x r.y r.w r.h⟩ (px ++ mask) =
          doConnection (coreHdr c r) [.cursor r.x r.y r.w r.h ((px ++ mask).take (r.w * r.h * c.pf.bypp))
            ((px ++ mask).drop (r.w * r.h * c.pf.bypp))] := rfl
      rw [this, e1, e2]
  | desktopSize =>
    refine runs_core_dc (rectHeader r (-223)) rest _ [.desktop r.w r.h] o (by simp [Body.enc, Body.wire]) rfl rfl
      (hdr_desktop c r hr hk) (by simp [okOut]) rfl hcont
  | qemuExtKey =>
    refine runs_core_dc (rectHeader r (-258)) rest _ [] o (by simp [Body.enc, Body.wire]) rfl rfl
      (hdr_qemu c r hr hk) (by simp) rfl hcont

/-- the LastRect marker ends the update whatever the announced count was -/
theorem C02_lastrect (c : Core) (rest : Bytes) (o : List Out) (s' : RSt) (b' : Bytes)
    (hcont : Runs rfbMachine (doConnection { c with rectangles := 0 } []).1 rest o s' b') :
    Runs rfbMachine ⟨c, .rectangle⟩ (rectHeader ⟨0, 0, 0, 0⟩ (-224) ++ rest)
      ((doConnection { c with rectangles := 0 } []).2 ++ o) s' b' := by
  exact runs_core_dc (rectHeader ⟨0, 0, 0, 0⟩ (-224)) rest _ [] o rfl rfl rfl (hdr_last c) (by simp) rfl hcont

/-! ### whole updates -/

theorem coreAfterRect_pf (c : Core) (r : Rct) (b : Body) : (coreAfterRect c r b).pf = c.pf := by
  cases b <;> rfl

theorem coreAfterRect_rectangles (c : Core) (r : Rct) (b : Body) :
    (coreAfterRect c r b).rectangles = c.rectangles - 1 := by
  cases b <;> rfl

theorem coreAfterRect_rectPos (c : Core) (r : Rct) (b : Body) :
    (coreAfterRect c r b).rectPos = c.rectPos ++ (if b.positional then [(r.x, r.y, r.w, r.h)] else []) := by
  cases b <;> simp [coreAfterRect, Body.positional]

theorem coreAfterRects_rectangles (rects : List (Rct × Body)) : ∀ c : Core,
    (coreAfterRects c rects).rectangles = c.rectangles - rects.length := by
  induction rects with
  | nil => intro c; rfl
  | cons rb rects ih =>
    intro c
    simp only [coreAfterRects, ih, coreAfterRect_rectangles, List.length_cons]
    omega

theorem coreAfterRects_rectPos (rects : List (Rct × Body)) : ∀ c : Core,
    (coreAfterRects c rects).rectPos = c.rectPos ++ updatedAreas rects := by
  induction rects with
  | nil => intro c; simp [coreAfterRects, updatedAreas]
  | cons rb rects ih =>
    intro c
    simp only [coreAfterRects, ih, coreAfterRect_rectPos]
    cases hp : rb.2.positional <;> simp [updatedAreas, hp]

/-- what the decoder emits for a sequence of rectangles (with the `_doConnection` outputs in between) -/
def outRects (c : Core) : List (Rct × Body) → List Out
  | [] => []
  | rb :: rest => rb.2.paint rb.1 ++ (doConnection (coreAfterRect c rb.1 rb.2) []).2 ++
      outRects (coreAfterRect c rb.1 rb.2) rest

theorem doConnection_rect (c : Core) (hk : c.rectangles ≠ 0) : doConnection c [] = (⟨c, .rectangle⟩, []) := by
  simp [doConnection, hk, go]

theorem doConnection_conn (c : Core) (hk : c.rectangles = 0) :
    doConnection c [] = (⟨c, .connection⟩, if c.rectPos = [] then [] else [.commit c.rectPos]) := by
  by_cases h : c.rectPos = [] <;> simp [doConnection, hk, go, h]

theorem runs_rects (rects : List (Rct × Body)) : ∀ (c : Core), rects.length ≤ c.rectangles →
    (∀ rb ∈ rects, rb.1.WF ∧ rb.2.WF c.pf.bypp rb.1) → ∀ (rest : Bytes) (o : List Out) (s' : RSt) (b' : Bytes),
    Runs rfbMachine (doConnection (coreAfterRects c rects) []).1 rest o s' b' →
    Runs rfbMachine (doConnection c []).1 ((rects.flatMap fun rb => rectHeader rb.1 rb.2.enc ++ rb.2.wire) ++ rest)
      (outRects c rects ++ o) s' b' := by
  induction rects with
  | nil => intro c _ _ rest o s' b' h; simpa [outRects, coreAfterRects] using h
  | cons rb rects ih =>
    intro c hlen hwf rest o s' b' h
    have hk : c.rectangles ≠ 0 := by simp only [List.length_cons] at hlen; omega
    have h1 := hwf rb (by simp)
    rw [doConnection_rect c hk, List.flatMap_cons, List.append_assoc]
    have := C02_rect c rb.1 rb.2 h1.1 h1.2 hk _ _ s' b'
      (ih (coreAfterRect c rb.1 rb.2) (by rw [coreAfterRect_rectangles]; simp only [List.length_cons] at hlen; omega)
        (fun x hx => by rw [coreAfterRect_pf]; exact hwf x (by simp [hx])) rest o s' b' h)
    simpa only [outRects, List.append_assoc] using this

theorem outRects_eq (rects : List (Rct × Body)) : ∀ (c : Core), rects.length ≤ c.rectangles →
    (doConnection c []).2 ++ outRects c rects =
      rects.flatMap (fun rb => rb.2.paint rb.1) ++ (doConnection (coreAfterRects c rects) []).2 := by
  induction rects with
  | nil => intro c _; simp [outRects, coreAfterRects]
  | cons rb rects ih =>
    intro c hlen
    have hk : c.rectangles ≠ 0 := by simp only [List.length_cons] at hlen; omega
    have := ih (coreAfterRect c rb.1 rb.2)
      (by rw [coreAfterRect_rectangles]; simp only [List.length_cons] at hlen; omega)
    rw [doConnection_rect c hk]
    simp only [outRects, List.nil_append, List.flatMap_cons, List.append_assoc, coreAfterRects, this]

theorem step_fbUpdate (c : Core) (n : Nat) (hn : n < 65536) :
    stepCore ⟨c, .fbUpdate⟩ (0 :: enc16 n) = doConnection { c with rectangles := n, rectPos := [] } [.begin] := by
  have : beNat ((0 :: enc16 n).drop 1) = n := beNat_enc16 n hn
  simp only [stepCore, this]

/-- start of an update: the message type, padding and count are consumed, `begin` is emitted -/
theorem runs_update_start (c : Core) (n : Nat) (hn : n < 65536) (rest : Bytes) (o : List Out) (s' : RSt) (b' : Bytes)
    (h : Runs rfbMachine (doConnection { c with rectangles := n, rectPos := [] } []).1 rest o s' b') :
    Runs rfbMachine ⟨c, .connection⟩ ([0, 0] ++ enc16 n ++ rest)
      ([.begin] ++ (doConnection { c with rectangles := n, rectPos := [] } []).2 ++ o) s' b' := by
  refine runs_core [0] (0 :: enc16 n ++ rest) ⟨c, .fbUpdate⟩ [] _ rfl rfl rfl ?_ (by simp) rfl ?_
  · simp [stepCore, go, Tables.S2C_FRAMEBUFFER_UPDATE]
  · exact runs_core_dc (0 :: enc16 n) rest _ [.begin] o rfl rfl rfl (step_fbUpdate c n hn) (by simp [okOut]) rfl h

theorem struct_rect0 (c : Core) (h : c.rectangles = 0) : { c with rectangles := 0 } = c := by
  cases c; simp_all

/-- **a whole FramebufferUpdate with an exact count**: consumed exactly; the application sees begin, every
    rectangle's paint instructions in order, commit with the updated areas; then the next message is read -/
theorem C02_update (c : Core) (rects : List (Rct × Body)) (hn : rects.length < 65536)
    (hwf : ∀ rb ∈ rects, rb.1.WF ∧ rb.2.WF c.pf.bypp rb.1)
    (rest : Bytes) (o : List Out) (s' : RSt) (b' : Bytes)
    (hcont : Runs rfbMachine ⟨{ coreAfterRects { c with rectangles := rects.length, rectPos := [] } rects with rectangles := 0 },
                               .connection⟩ rest o s' b') :
    Runs rfbMachine ⟨c, .connection⟩ (wireUpdate rects ++ rest) (paintUpdate rects ++ o) s' b' := by
  let c0 : Core := { c with rectangles := rects.length, rectPos := [] }
  have hz : (coreAfterRects c0 rects).rectangles = 0 := by
    rw [coreAfterRects_rectangles]; simp [c0]
  have hpos : (coreAfterRects c0 rects).rectPos = updatedAreas rects := by
    rw [coreAfterRects_rectPos]; simp [c0]
  have hdc := doConnection_conn _ hz
  rw [hpos] at hdc
  have hcont' : Runs rfbMachine (doConnection (coreAfterRects c0 rects) []).1 rest o s' b' := by
    rw [hdc]; rw [struct_rect0 _ hz] at hcont; exact hcont
  have h1 := runs_rects rects c0 (Nat.le_refl _) hwf rest o s' b' hcont'
  have h2 := runs_update_start c rects.length hn _ _ s' b' h1
  have h3 := outRects_eq rects c0 (Nat.le_refl _)
  rw [hdc] at h3
  have hout : [Out.begin] ++ (doConnection c0 []).2 ++ (outRects c0 rects ++ o) = paintUpdate rects ++ o := by
    rw [List.append_assoc, ← List.append_assoc (doConnection c0 []).2, h3]
    simp [paintUpdate]
  rw [hout] at h2
  simpa [wireUpdate, List.append_assoc] using h2

/-- the same with a LastRect marker -/
theorem C02_update_lastrect (c : Core) (count : Nat) (rects : List (Rct × Body)) (hc : rects.length < count)
    (hn : count < 65536) (hwf : ∀ rb ∈ rects, rb.1.WF ∧ rb.2.WF c.pf.bypp rb.1)
    (rest : Bytes) (o : List Out) (s' : RSt) (b' : Bytes)
    (hcont : Runs rfbMachine ⟨{ coreAfterRects { c with rectangles := count, rectPos := [] } rects with rectangles := 0 },
                               .connection⟩ rest o s' b') :
    Runs rfbMachine ⟨c, .connection⟩ (wireUpdateLast count rects ++ rest) (paintUpdate rects ++ o) s' b' := by
  let c0 : Core := { c with rectangles := count, rectPos := [] }
  let cE : Core := { coreAfterRects c0 rects with rectangles := 0 }
  have hnz : (coreAfterRects c0 rects).rectangles ≠ 0 := by
    rw [coreAfterRects_rectangles]; simp [c0]; omega
  have hpos : cE.rectPos = updatedAreas rects := by
    show (coreAfterRects c0 rects).rectPos = _
    rw [coreAfterRects_rectPos]; simp [c0]
  have hdcE := doConnection_conn cE rfl
  rw [hpos] at hdcE
  have hlast := C02_lastrect (coreAfterRects c0 rects) rest o s' b' (by rw [hdcE]; exact hcont)
  have hdc := doConnection_rect _ hnz
  have h1 := runs_rects rects c0 (by simp [c0]; omega) hwf _ _ s' b' (by rw [hdc]; exact hlast)
  have h2 := runs_update_start c count hn _ _ s' b' h1
  have h3 := outRects_eq rects c0 (by simp [c0]; omega)
  rw [hdc] at h3
  have hout : [Out.begin] ++ (doConnection c0 []).2 ++
      (outRects c0 rects ++ ((doConnection cE []).2 ++ o)) = paintUpdate rects ++ o := by
    rw [List.append_assoc, ← List.append_assoc (doConnection c0 []).2, h3, hdcE]
    simp [paintUpdate]
  rw [hout] at h2
  simpa [wireUpdateLast, List.append_assoc] using h2

/-- the pixel format is untouched by an update (so the next update is decoded with the same pixel size) -/
theorem C02_pf_kept (c : Core) (rects : List (Rct × Body)) : (coreAfterRects c rects).pf = c.pf := by
  induction rects generalizing c with
  | nil => rfl
  | cons rb rects ih => simp only [coreAfterRects, ih, coreAfterRect_pf]

/-- the property's probe: a Bell right after an update is understood as a Bell -/
theorem C02_bell_after (c : Core) (rects : List (Rct × Body)) (hn : rects.length < 65536)
    (hwf : ∀ rb ∈ rects, rb.1.WF ∧ rb.2.WF c.pf.bypp rb.1) :
    (feed rfbMachine ⟨⟨c, .connection⟩, []⟩ (wireUpdate rects ++ [2])).2.1 = paintUpdate rects ++ [.bell] := by
  apply runsOut_feed rfbMachine rfb_progress
  refine ⟨⟨{ coreAfterRects { c with rectangles := rects.length, rectPos := [] } rects with rectangles := 0 },
    .connection⟩, [], C02_update c rects hn hwf [2] [.bell] _ [] ?_⟩
  refine runs_core [2] [] _ [.bell] [] rfl rfl rfl ?_ (by simp [okOut]) rfl (Runs.done ?_)
  · simp [stepCore, go, Tables.S2C_FRAMEBUFFER_UPDATE, Tables.S2C_SET_COLOUR_MAP_ENTRIES, Tables.S2C_BELL]
  · simp [Machine.blocked, rfbMachine, halted, need]

/-- a DesktopSize pseudo-rectangle makes later whole-desktop requests use the new geometry -/
theorem C02_desktop_geometry (c : Core) (r : Rct) :
    (coreAfterRect c r .desktopSize).width = r.w ∧ (coreAfterRect c r .desktopSize).height = r.h :=
  ⟨rfl, rfl⟩

/-- non-vacuity: well-formed bodies exist for every rectangle (Raw for every image) -/
theorem C02_raw_total (bypp : Nat) (r : Rct) (px : Bytes) (h : px.length = r.w * r.h * bypp) :
    (Body.raw px).WF bypp r := h

end Vnc
