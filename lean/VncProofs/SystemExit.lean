import VncProofs.System
import VncProofs.C08
/-!
# C09 on complete runs of the vncdo process (whole client + exit status)

`C09_zero_only_if_completed` / `C09_run_zero` (C08.lean) speak about the exit-status automaton alone, with the
"script completed" flag as a parameter.  Here the flag is the one of the running client: the theorems quantify over
every run of the whole process - any server bytes in any chunking, script timers, loss of the connection, the timeout,
in any order.
-/
namespace Vnc

/-! ## helper lemmas: how the `completed` flag moves in one reaction of the application -/

/-- one reaction `a ↦ r`: the flag is never taken back, and if it is raised then `close` is among the actions -/
def CP (a : App) (r : App × List Act) : Prop :=
  (a.completed = true → r.1.completed = true) ∧
  (a.completed = false → r.1.completed = true → Act.close ∈ r.2)

theorem CP_same {a a' : App} (l : List Act) (he : a'.completed = a.completed) : CP a (a', l) :=
  ⟨fun h0 => he.trans h0, fun h0 hc => by rw [he.trans h0] at hc; cases hc⟩

theorem CP_lift {a a' : App} {r : App × List Act} (pre : List Act) (he : a'.completed = a.completed) (h : CP a' r) :
    CP a (r.1, pre ++ r.2) :=
  ⟨fun h0 => h.1 (he.trans h0), fun h0 hc => List.mem_append_right _ (h.2 (he.trans h0) hc)⟩

theorem CP_lift0 {a a' : App} {r : App × List Act} (he : a'.completed = a.completed) (h : CP a' r) : CP a r :=
  ⟨fun h0 => h.1 (he.trans h0), fun h0 hc => h.2 (he.trans h0) hc⟩

theorem advance_mono (core : Core) (screen : Option Img) (fuel : Nat) (a : App) (h : a.completed = true) :
    (advance core screen fuel a).1.completed = true := by
  induction fuel generalizing a with
  | zero => simpa [advance] using h
  | succ fuel ih =>
    rw [advance]
    split
    · rfl
    · next c rest hc =>
      have hfr := startCmd_frame { a with cmds := rest } core screen c
      generalize startCmd { a with cmds := rest } core screen c = r at hfr ⊢
      obtain ⟨a1, ws, s⟩ := r
      obtain ⟨h1, h2, h3, h4⟩ := hfr
      dsimp only at h3 ⊢
      cases s <;> dsimp only
      case cont => exact ih _ (by dsimp only; rw [h3, h])
      all_goals rw [h3, h]

theorem advance_CP (core : Core) (screen : Option Img) (fuel : Nat) (a : App) : CP a (advance core screen fuel a) :=
  ⟨advance_mono core screen fuel a, fun h0 hc => (C09_completed_iff_closed core screen fuel a h0).1 hc⟩

theorem resume_CP (core : Core) (screen : Option Img) (a : App) : CP a (resume core screen a) := by
  unfold resume
  exact CP_lift (a' := { a with idx := a.idx + 1, chain := .running }) _ rfl (advance_CP _ _ _ _)

theorem onConnected_CP (core : Core) (screen : Option Img) (a : App) : CP a (onConnected core screen a) := by
  unfold onConnected
  split
  · exact CP_lift0 (a' := { a with chain := .running }) rfl (advance_CP _ _ _ _)
  · exact CP_same _ rfl

theorem onCommit_CP (core : Core) (screen : Option Img) (a : App) : CP a (onCommit core screen a) := by
  unfold onCommit
  split
  · exact CP_same _ rfl
  · next w hw =>
    dsimp only
    split
    · exact CP_same _ rfl
    · split
      · exact CP_same _ rfl
      · split
        · exact CP_lift (a' := { a with waiter := none }) _ rfl (resume_CP _ _ _)
        · exact CP_same _ rfl
    · next box rms expected =>
      have hf := expectCompare_frame { a with waiter := none } core screen box rms expected
      generalize expectCompare { a with waiter := none } core screen box rms expected = r at hf ⊢
      obtain ⟨a1, ws, m⟩ := r
      obtain ⟨-, -, h3, -⟩ := hf
      dsimp only at h3 ⊢
      split
      · split
        · exact CP_lift (a' := a1) _ h3 (resume_CP _ _ _)
        · exact CP_same _ h3
      · exact CP_same _ h3

theorem onTimer_CP (core : Core) (screen : Option Img) (a : App) (id : Nat) : CP a (onTimer core screen a id) := by
  unfold onTimer
  dsimp only
  split
  · split
    · exact CP_lift0 (a' := { a with timers := a.timers.filter fun t => t.1 ≠ id }) rfl (resume_CP _ _ _)
    · exact CP_same _ rfl
  · split
    · exact CP_same _ rfl
    · split
      · split
        · exact CP_same _ rfl
        · next a' w hw =>
          have := (ptrActs_frame hw).2.2.1
          exact CP_same _ this
      · split
        · exact CP_same _ rfl
        · next a' w hw =>
          have := (ptrActs_frame hw).2.2.1
          exact CP_lift (a' := a') _ this (resume_CP _ _ _)
  · exact CP_same _ rfl

theorem appReact_CP (core : Core) (screen : Option Img) (a : App) (o : Out) : CP a (appReact core screen a o) := by
  cases o with
  | made => exact onConnected_CP core screen a
  | commit rs => exact onCommit_CP core screen a
  | _ => exact CP_same _ rfl

/-! ## the same on event histories -/

def SP (c c' : Bool) (evs : List Ev) : Prop :=
  (c = true → c' = true) ∧ (c = false → c' = true → Ev.act Act.close ∈ evs)

theorem SP_same (c : Bool) (l : List Ev) : SP c c l := ⟨id, fun h0 h1 => by rw [h0] at h1; cases h1⟩

theorem SP_trans {c c' c'' : Bool} {e1 e2 : List Ev} (h1 : SP c c' e1) (h2 : SP c' c'' e2) : SP c c'' (e1 ++ e2) := by
  refine ⟨fun h => h2.1 (h1.1 h), fun h0 hc => ?_⟩
  cases hc' : c' with
  | true => exact List.mem_append_left _ (h1.2 h0 hc')
  | false => exact List.mem_append_right _ (h2.2 hc' hc)

theorem SP_of_CP {a : App} {r : App × List Act} (h : CP a r) : SP a.completed r.1.completed (r.2.map Ev.act) :=
  ⟨h.1, fun h0 hc => List.mem_map_of_mem (h.2 h0 hc)⟩

theorem reactFold_SP (core : Core) (c0 : Bool) (outs : List Out) : ∀ (acc : Canvas × App × List Ev),
    SP c0 acc.2.1.completed acc.2.2 →
    SP c0 (outs.foldl (reactOne core) acc).2.1.completed (outs.foldl (reactOne core) acc).2.2 := by
  induction outs with
  | nil => intro acc h; exact h
  | cons o outs ih =>
    intro acc h
    rw [List.foldl_cons]
    apply ih
    simp only [reactOne]
    exact SP_trans (SP_trans h (SP_same _ _)) (SP_of_CP (appReact_CP _ _ _ _))

theorem sysStep_SP (s : SysSt) (b : Bytes) : SP s.app.completed (sysStep s b).1.app.completed (sysStep s b).2 := by
  simp only [sysStep]
  exact reactFold_SP _ _ _ (s.cv, s.app, []) (SP_same _ _)

theorem sys_drain_SP : ∀ (fuel : Nat) (s : SysSt) (buf : Bytes),
    SP s.app.completed (drain sysMachine fuel s buf).s.app.completed (drain sysMachine fuel s buf).out := by
  intro fuel
  induction fuel with
  | zero => intro s buf; exact SP_same _ _
  | succ f ih =>
    intro s buf
    simp only [drain]
    split
    · exact SP_same _ _
    · dsimp only
      have h1 : SP s.app.completed (sysMachine.step s (buf.take (sysMachine.need s))).1.app.completed
          (sysMachine.step s (buf.take (sysMachine.need s))).2 := sysStep_SP _ _
      exact SP_trans h1 (ih _ _)

theorem sys_feed_SP (st : St SysSt) (c : Bytes) :
    SP st.s.app.completed (feed sysMachine st c).1.s.app.completed (feed sysMachine st c).2.1 :=
  sys_drain_SP _ _ _

theorem sysFire_SP (st : St SysSt) : SP st.s.app.completed (sysFire st).1.s.app.completed (sysFire st).2 := by
  unfold sysFire
  split
  · exact SP_same _ _
  · next id due _ =>
    dsimp only
    exact SP_of_CP (CP_lift0 (a := st.s.app) (a' := { st.s.app with now := max st.s.app.now due }) rfl
      (onTimer_CP _ _ _ _))

theorem procStep_SP (p : Proc) (i : ProcIn) :
    SP p.st.s.app.completed (procStep p i).1.st.s.app.completed (procStep p i).2 := by
  cases i with
  | recv c =>
    simp only [procStep]
    split
    · exact sys_feed_SP _ _
    · exact SP_same _ _
  | fire => exact sysFire_SP _
  | lost clean =>
    simp only [procStep]
    split <;> exact SP_same _ _
  | timeout => exact SP_same _ _

theorem procRun_SP (p : Proc) (ins : List ProcIn) :
    SP p.st.s.app.completed (procRun p ins).1.st.s.app.completed (procRun p ins).2 := by
  induction ins generalizing p with
  | nil => exact SP_same _ _
  | cons i is ih =>
    simp only [procRun]
    exact SP_trans (procStep_SP p i) (ih _)

theorem procRun_append (p : Proc) (is js : List ProcIn) :
    procRun p (is ++ js) = ((procRun (procRun p is).1 js).1, (procRun p is).2 ++ (procRun (procRun p is).1 js).2) := by
  induction is generalizing p with
  | nil => simp [procRun]
  | cons i is ih => simp only [List.cons_append, procRun, ih, List.append_assoc]

/-! ## the exit status along a run -/

theorem procStep_exit_nolost (p : Proc) (i : ProcIn) (hs : p.exit.status ≠ 0) (hi : ∀ c, i ≠ ProcIn.lost c) :
    (procStep p i).1.exit.status ≠ 0 ∧ (procStep p i).1.up = p.up := by
  cases i with
  | recv c => simp only [procStep]; split <;> exact ⟨hs, rfl⟩
  | fire => exact ⟨hs, rfl⟩
  | lost clean => exact absurd rfl (hi clean)
  | timeout => exact ⟨by simp [procStep, exitStep, exitDone], rfl⟩

/-- once the connection is reported lost, only the timeout can still change the status -/
theorem procRun_down_zero (p : Proc) (ins : List ProcIn) (hup : p.up = false)
    (h : (procRun p ins).1.exit.status = 0) : p.exit.status = 0 ∧ ProcIn.timeout ∉ ins := by
  induction ins generalizing p with
  | nil => exact ⟨h, List.not_mem_nil⟩
  | cons i is ih =>
    simp only [procRun] at h
    cases i with
    | recv c =>
      have e : (procStep p (.recv c)).1 = p := by simp [procStep, hup]
      rw [e] at h
      obtain ⟨a, b⟩ := ih p hup h
      exact ⟨a, by simp [b]⟩
    | fire =>
      obtain ⟨a, b⟩ := ih (procStep p .fire).1 hup h
      exact ⟨a, by simp [b]⟩
    | lost clean =>
      have e : (procStep p (.lost clean)).1 = p := by simp [procStep, hup]
      rw [e] at h
      obtain ⟨a, b⟩ := ih p hup h
      exact ⟨a, by simp [b]⟩
    | timeout =>
      obtain ⟨a, _⟩ := ih (procStep p .timeout).1 hup h
      simp [procStep, exitStep, exitDone] at a

theorem procRun_down_keep (p : Proc) (ins : List ProcIn) (hup : p.up = false) (hn : ProcIn.timeout ∉ ins) :
    (procRun p ins).1.exit = p.exit := by
  induction ins generalizing p with
  | nil => rfl
  | cons i is ih =>
    simp only [procRun]
    have hn' : ProcIn.timeout ∉ is := fun hm => hn (List.mem_cons_of_mem _ hm)
    cases i with
    | recv c =>
      have e : (procStep p (.recv c)).1 = p := by simp [procStep, hup]
      rw [e]; exact ih p hup hn'
    | fire => exact ih (procStep p .fire).1 hup hn'
    | lost clean =>
      have e : (procStep p (.lost clean)).1 = p := by simp [procStep, hup]
      rw [e]; exact ih p hup hn'
    | timeout => exact absurd (List.mem_cons_self ..) hn

theorem procRun_zero_split (p : Proc) (ins : List ProcIn) (hs : p.exit.status ≠ 0)
    (hup : p.up = true) (h : (procRun p ins).1.exit.status = 0) :
    ∃ pre post, ins = pre ++ ProcIn.lost true :: post ∧ (procRun p pre).1.st.s.app.completed = true ∧
      (procRun p pre).1.up = true ∧ ProcIn.timeout ∉ post := by
  induction ins generalizing p with
  | nil => exact absurd h hs
  | cons i is ih =>
    simp only [procRun] at h
    by_cases hi : ∃ c, i = ProcIn.lost c
    · obtain ⟨clean, rfl⟩ := hi
      have hup' : (procStep p (.lost clean)).1.up = false := by simp [procStep, hup]
      obtain ⟨a, b⟩ := procRun_down_zero _ is hup' h
      have a' : (exitStep p.st.s.app.completed p.exit p.st.s.app.now (.lost clean)).status = 0 := by
        simpa [procStep, hup] using a
      obtain ⟨hc, he⟩ := C09_zero_only_if_completed _ _ _ _ a'
      injection he with he
      subst he
      exact ⟨[], is, rfl, hc, hup, b⟩
    · have hi' : ∀ c, i ≠ ProcIn.lost c := fun c e => hi ⟨c, e⟩
      obtain ⟨h1, h2⟩ := procStep_exit_nolost p i hs hi'
      obtain ⟨pre, post, e1, e2, e3, e4⟩ := ih (procStep p i).1 h1 (h2.trans hup) h
      refine ⟨i :: pre, post, by rw [e1]; rfl, ?_, ?_, e4⟩
      · simpa only [procRun] using e2
      · simpa only [procRun] using e3

theorem procRun_nolost_nonzero (p : Proc) (ins : List ProcIn) (hs : p.exit.status ≠ 0) (hnl : ∀ c, ProcIn.lost c ∉ ins) :
    (procRun p ins).1.exit.status ≠ 0 := by
  induction ins generalizing p with
  | nil => exact hs
  | cons i is ih =>
    simp only [procRun]
    apply ih
    · exact (procStep_exit_nolost p i hs (fun c e => hnl c (e ▸ List.mem_cons_self ..))).1
    · exact fun c hm => hnl c (List.mem_cons_of_mem _ hm)

theorem procStep_stopAt (p : Proc) (i : ProcIn) (t : Nat) (h : p.exit.stopAt = some t) :
    (procStep p i).1.exit.stopAt = some t := by
  cases i with
  | recv c => simp only [procStep]; split <;> exact h
  | fire => exact h
  | lost clean =>
    simp only [procStep]
    split
    · exact exitStep_stopAt _ _ _ _ _ h
    · exact h
  | timeout => exact exitStep_stopAt _ _ _ _ _ h


/-- `completed` is set only by the script's last callback, which closes the connection: in any reaction of the
    application, if the flag goes from false to true then `close` is among the actions -/
theorem appReact_completed (core : Core) (screen : Option Img) (a : App) (o : Out) (h0 : a.completed = false)
    (h1 : (appReact core screen a o).1.completed = true) : Act.close ∈ (appReact core screen a o).2 := by
  exact (appReact_CP core screen a o).2 h0 h1

theorem onTimer_completed (core : Core) (screen : Option Img) (a : App) (id : Nat) (h0 : a.completed = false)
    (h1 : (onTimer core screen a id).1.completed = true) : Act.close ∈ (onTimer core screen a id).2 := by
  exact (onTimer_CP core screen a id).2 h0 h1

/-- the flag is never taken back -/
theorem appReact_completed_mono (core : Core) (screen : Option Img) (a : App) (o : Out) (h : a.completed = true) :
    (appReact core screen a o).1.completed = true := by
  exact (appReact_CP core screen a o).1 h

theorem onTimer_completed_mono (core : Core) (screen : Option Img) (a : App) (id : Nat) (h : a.completed = true) :
    (onTimer core screen a id).1.completed = true := by
  exact (onTimer_CP core screen a id).1 h

/-- invariant of every run: the flag implies that vncdo's own close is in the event history -/
theorem procRun_completed (p : Proc) (ins : List ProcIn) (h0 : p.st.s.app.completed = false)
    (h : (procRun p ins).1.st.s.app.completed = true) : Ev.act Act.close ∈ (procRun p ins).2 := by
  exact (procRun_SP p ins).2 h0 h

/-- **C09 on complete runs**: whatever the server sends, however it is chunked, whenever timers fire, the connection
    drops or the timeout strikes - if the process ends with status 0 then the script was completed, vncdo's own close is
    in the history, the transport reported a CLEAN loss, that loss came when the script was already complete, and no
    timeout came after it -/
theorem C09_proc_zero (p : Proc) (ins : List ProcIn) (h0 : p.st.s.app.completed = false) (hs : p.exit.status ≠ 0)
    (hup : p.up = true) (h : (procRun p ins).1.exit.status = 0) :
    (procRun p ins).1.st.s.app.completed = true ∧ Ev.act Act.close ∈ (procRun p ins).2 ∧
    ∃ pre post, ins = pre ++ ProcIn.lost true :: post ∧ (procRun p pre).1.st.s.app.completed = true ∧
      (procRun p pre).1.up = true ∧ ProcIn.timeout ∉ post := by
  obtain ⟨pre, post, e1, e2, e3, e4⟩ := procRun_zero_split p ins hs hup h
  have hc : (procRun p ins).1.st.s.app.completed = true := by
    rw [e1, procRun_append]
    exact (procRun_SP _ _).1 e2
  exact ⟨hc, (procRun_SP p ins).2 h0 hc, pre, post, e1, e2, e3, e4⟩

/-- and conversely the honest run is rewarded: completed script, then a clean loss, nothing striking afterwards -> 0 -/
theorem C09_proc_zero_conv (p : Proc) (pre post : List ProcIn) (hc : (procRun p pre).1.st.s.app.completed = true)
    (hup : (procRun p pre).1.up = true) (hpost : ProcIn.timeout ∉ post) :
    (procRun p (pre ++ ProcIn.lost true :: post)).1.exit.status = 0 := by
  rw [procRun_append]
  simp only [procRun]
  have hup' : (procStep (procRun p pre).1 (.lost true)).1.up = false := by simp [procStep, hup]
  rw [procRun_down_keep _ post hup' hpost]
  simp [procStep, hup, hc, exitStep, exitDone]

/-- a completed script has no command left: every command of the script was started and has finished -/
theorem advance_completed_done (core : Core) (screen : Option Img) : ∀ (fuel : Nat) (a : App), a.completed = false →
    (advance core screen fuel a).1.completed = true →
    (advance core screen fuel a).1.cmds = [] ∧ (advance core screen fuel a).1.idx = a.idx + a.cmds.length := by
  intro fuel
  induction fuel with
  | zero => intro a h0 h1; simp [advance, h0] at h1
  | succ fuel ih =>
    intro a h0
    rw [advance]
    split
    · next hc => intro _; simp [hc]
    · next c rest hc =>
      have hfr := startCmd_frame { a with cmds := rest } core screen c
      generalize startCmd { a with cmds := rest } core screen c = r at hfr ⊢
      obtain ⟨a1, ws, s⟩ := r
      obtain ⟨h1, h2, h3, h4⟩ := hfr
      dsimp only at h1 h2 h3 ⊢
      cases s <;> dsimp only
      case cont =>
        intro hd
        obtain ⟨i1, i2⟩ := ih { a1 with idx := a.idx + 1, chain := ChainSt.running } (by dsimp only; rw [h3, h0]) hd
        refine ⟨i1, ?_⟩
        rw [i2]
        dsimp only
        rw [h1, hc]
        simp only [List.length_cons]
        omega
      all_goals
        intro hd
        rw [h3, h0] at hd
        cases hd

/-- the `--timeout`: from the moment it strikes, the status is non-zero until (at most) a completed script's clean
    close - and the stop time fixed by the first status decision is never moved -/
theorem C09_proc_timeout (p : Proc) (ins : List ProcIn) (hnl : ∀ c, ProcIn.lost c ∉ ins) :
    (procRun p (ProcIn.timeout :: ins)).1.exit.status ≠ 0 := by
  simp only [procRun]
  exact procRun_nolost_nonzero _ ins (by simp [procStep, exitStep, exitDone]) hnl

theorem C09_proc_stop_fixed (p : Proc) (t : Nat) (h : p.exit.stopAt = some t) (ins : List ProcIn) :
    (procRun p ins).1.exit.stopAt = some t := by
  induction ins generalizing p with
  | nil => exact h
  | cons i is ih =>
    simp only [procRun]
    exact ih _ (procStep_stopAt p i t h)

/-! non-vacuity: a process with an empty script completes at ServerInit and a clean loss gives 0 (computed in the driver
    correspondence; here only the shape of the hypotheses) -/
example (cfg : Cfg) (env : Env) : (Proc.start cfg [] {} env []).exit.status ≠ 0 ∧ (Proc.start cfg [] {} env []).up = true ∧
    (Proc.start cfg [] {} env []).st.s.app.completed = false := by
  simp [Proc.start]

end Vnc
