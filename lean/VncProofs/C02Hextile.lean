import VncSpec.Hextile
import VncProofs.C02
import VncProofs.C02HextileLemmas
/-!
# C02 (part B) — Hextile: for every tiling, every mix of tile kinds (raw / background only / same as before /
foreground sub-rectangles / coloured sub-rectangles), every rectangle size including sizes that are not multiples
of 16, the decoder consumes exactly the RFC byte layout and emits exactly the specified paint instructions, with
background and foreground carried from tile to tile.
-/
namespace Vnc
open Vnc.Spec

/-- the protocol object after an ordinary (positional) rectangle -/
def coreAfterPlain (c : Core) (r : Rct) : Core :=
  { c with rectangles := c.rectangles - 1, rectPos := c.rectPos ++ [(r.x, r.y, r.w, r.h)] }

theorem step_hextileRaw (c : Core) (bg fg : Option Bytes) (x y w h tx ty tw th : Nat) (b : Bytes) :
    stepCore ⟨c, .hextileRaw bg fg x y w h tx ty tw th⟩ b =
      nextHextile c bg fg x y w h (some (tx, ty)) [.update tx ty tw th b] := rfl

theorem step_hextileFG (c : Core) (bg fg : Option Bytes) (n x y w h tx ty : Nat) (b : Bytes) :
    stepCore ⟨c, .hextileFG bg fg n x y w h tx ty⟩ b =
      nextHextile c bg fg x y w h (some (tx, ty)) (hexFG tx ty b fg) := rfl

theorem step_hextileColoured (c : Core) (bg fg : Option Bytes) (n x y w h tx ty : Nat) (b : Bytes) :
    stepCore ⟨c, .hextileColoured bg fg n x y w h tx ty⟩ b =
      nextHextile c bg (hexColoured c.pf.bypp tx ty b fg).2 x y w h (some (tx, ty))
        (hexColoured c.pf.bypp tx ty b fg).1 := rfl

/-- one tile: from the state waiting for the tile's sub-encoding byte, the tile is consumed exactly, its paint
    instructions are emitted and the walker moves on with the carried colours.

    **CORRECTED STATEMENT**: the extra hypothesis `hbypp : c.pf.bypp ≠ 0` (a pixel has at least one byte) is needed;
    without it the statement is false, see `C02_hex_tile_false_without_bypp` below. -/
theorem C02_hex_tile (c : Core) (hbypp : c.pf.bypp ≠ 0) (x y w h tx ty : Nat) (k : HexCarry) (t : HexTile)
    (hwf : t.WF c.pf.bypp (min 16 (x + w - tx)) (min 16 (y + h - ty)) k)
    (rest : Bytes) (o : List Out) (s' : RSt) (b' : Bytes)
    (hcont : Runs rfbMachine
      (nextHextile c (t.paint tx ty (min 16 (x + w - tx)) (min 16 (y + h - ty)) k).2.bg
                     (t.paint tx ty (min 16 (x + w - tx)) (min 16 (y + h - ty)) k).2.fg x y w h (some (tx, ty)) []).1
      rest o s' b') :
    Runs rfbMachine ⟨c, .hextile k.bg k.fg x y w h tx ty⟩ (t.wire ++ rest)
      ((t.paint tx ty (min 16 (x + w - tx)) (min 16 (y + h - ty)) k).1 ++
       (nextHextile c (t.paint tx ty (min 16 (x + w - tx)) (min 16 (y + h - ty)) k).2.bg
                      (t.paint tx ty (min 16 (x + w - tx)) (min 16 (y + h - ty)) k).2.fg x y w h (some (tx, ty)) []).2 ++ o)
      s' b' := by
  cases t with
  | raw px =>
    simp only [HexTile.paint] at hcont ⊢
    refine runs_core [1] (px ++ rest) _ [] _ (by simp [HexTile.wire]) rfl rfl
      (step_hextile_raw c k.bg k.fg x y w h tx ty) (by simp) rfl ?_
    refine runs_core_nh px rest c k.bg k.fg x y w h (some (tx, ty))
      [.update tx ty (min 16 (x + w - tx) : Nat) (min 16 (y + h - ty) : Nat) px] o rfl rfl ?_
      (step_hextileRaw ..) (by simp [okOut]) rfl hcont
    exact hwf
  | plain bg fg =>
    obtain ⟨hbg, hfg, hsome⟩ := hwf
    simp only [HexTile.paint] at hcont ⊢
    have hok := orElse_isSome bg k.bg hsome
    have hl1 := getD_len bg _ hbg
    have hl2 := getD_len fg _ hfg
    have hstep := step_hextile_flags c k.bg k.fg x y w h tx ty bg fg false false
    by_cases hnb : (if bg.isSome = true then c.pf.bypp else 0) + (if fg.isSome = true then c.pf.bypp else 0) +
        (if false = true then 1 else 0) ≠ 0
    · rw [if_pos hnb] at hstep
      refine runs_core [byteOf (flagsOf bg fg false false)] (bg.getD [] ++ fg.getD [] ++ rest) _ [] _
        (by simp [HexTile.wire]) rfl rfl hstep (by simp) rfl ?_
      refine runs_core_nh (bg.getD [] ++ fg.getD []) rest c _ _ x y w h (some (tx, ty))
        [.fill tx ty (min 16 (x + w - tx) : Nat) (min 16 (y + h - ty) : Nat) (bg.orElse fun _ => k.bg)] o
        (by simp) rfl ?_ ?_ ?_ rfl hcont
      · simp [need, hl1, hl2]
      · have := step_hextileSub c ((if bg.isSome = true then c.pf.bypp else 0) +
          (if fg.isSome = true then c.pf.bypp else 0) + (if false = true then 1 else 0)) k.bg k.fg x y w h tx ty
          (min 16 (x + w - tx)) (min 16 (y + h - ty)) bg fg false false 0 hbg hfg (by omega)
        simpa using this
      · intro o ho
        simp only [List.mem_singleton] at ho
        subst ho
        exact ok_fill _ _ _ _ _ hok
    · rw [if_neg hnb] at hstep
      have hb0 : bg = none := by
        cases bg with
        | none => rfl
        | some b => exfalso; apply hnb; simp; omega
      have hf0 : fg = none := by
        cases fg with
        | none => rfl
        | some b => exfalso; apply hnb; simp; omega
      subst hb0 hf0
      simp only [Option.orElse_none] at hcont hok ⊢
      refine runs_core_nh [byteOf (flagsOf none none false false)] rest c _ _ x y w h (some (tx, ty))
        [.fill tx ty (min 16 (x + w - tx) : Nat) (min 16 (y + h - ty) : Nat) k.bg] o
        (by simp [HexTile.wire]) rfl rfl hstep ?_ rfl hcont
      intro o ho
      simp only [List.mem_singleton] at ho
      subst ho
      exact ok_fill _ _ _ _ _ hok
  | subs bg fg col rects =>
    obtain ⟨hbg, hfg, hsome, hne, hlen, hfgs, hsub⟩ := hwf
    simp only [HexTile.paint] at hcont ⊢
    have hok := orElse_isSome bg k.bg hsome
    have hl1 := getD_len bg _ hbg
    have hl2 := getD_len fg _ hfg
    have hn0 : rects.length ≠ 0 := fun h0 => hne (List.eq_nil_of_length_eq_zero h0)
    have hstep := step_hextile_flags c k.bg k.fg x y w h tx ty bg fg true col
    have hnb : (if bg.isSome = true then c.pf.bypp else 0) + (if fg.isSome = true then c.pf.bypp else 0) +
        (if true = true then 1 else 0) ≠ 0 := by simp
    rw [if_pos hnb] at hstep
    refine runs_core [byteOf (flagsOf bg fg true col)]
      (bg.getD [] ++ fg.getD [] ++ [byteOf rects.length] ++ (rects.flatMap (HexSub.wire col) ++ rest)) _ [] _
      (by simp [HexTile.wire]) rfl rfl hstep (by simp) rfl ?_
    have hstep2 := step_hextileSub c ((if bg.isSome = true then c.pf.bypp else 0) +
          (if fg.isSome = true then c.pf.bypp else 0) + (if true = true then 1 else 0)) k.bg k.fg x y w h tx ty
          (min 16 (x + w - tx)) (min 16 (y + h - ty)) bg fg true col rects.length hbg hfg hlen
    simp only [if_true, if_pos hn0] at hstep2
    have hokf : ∀ o ∈ [Out.fill tx ty (min 16 (x + w - tx) : Nat) (min 16 (y + h - ty) : Nat)
        (bg.orElse fun _ => k.bg)], okOut o = true := by
      intro o ho
      simp only [List.mem_singleton] at ho
      subst ho
      exact ok_fill _ _ _ _ _ hok
    have hblk := flatMap_hexwire_length col c.pf.bypp rects (fun hc s hs => (hsub s hs).2.2.2.2.2.2 hc)
    have hsok : ∀ s ∈ rects, HexSub.ok s := fun s hs =>
      ⟨(hsub s hs).1, (hsub s hs).2.1, (hsub s hs).2.2.1, (hsub s hs).2.2.2.1, (hsub s hs).2.2.2.2.1,
        (hsub s hs).2.2.2.2.2.1⟩
    cases col with
    | true =>
      simp only [if_true] at hstep2 hcont hblk ⊢
      refine runs_core (bg.getD [] ++ fg.getD [] ++ [byteOf rects.length]) _ _ _ _ rfl rfl ?_ hstep2 hokf rfl ?_
      · simp [need, hl1, hl2]; omega
      have hdec := hexColoured_subs c.pf.bypp tx ty rects (fg.orElse fun _ => k.fg)
        (fun s hs => ⟨hsok s hs, (hsub s hs).2.2.2.2.2.2 rfl⟩)
      refine runs_core_nh (rects.flatMap (HexSub.wire true)) rest c _ _ x y w h (some (tx, ty))
        (rects.map fun s => .fill ((tx + s.x : Nat) : Int) ((ty + s.y : Nat) : Int) s.w s.h (some s.col)) o
        rfl rfl ?_ ?_ ?_ (by simp) hcont
      · simp [need, hblk]
      · rw [step_hextileColoured, hdec]
      · intro o ho
        obtain ⟨s, _, rfl⟩ := List.mem_map.1 ho
        rfl
    | false =>
      simp only [Bool.false_eq_true, if_false] at hstep2 hcont hblk ⊢
      refine runs_core (bg.getD [] ++ fg.getD [] ++ [byteOf rects.length]) _ _ _ _ rfl rfl ?_ hstep2 hokf rfl ?_
      · simp [need, hl1, hl2]; omega
      have hfgok := orElse_isSome fg k.fg (hfgs rfl)
      refine runs_core_nh (rects.flatMap (HexSub.wire false)) rest c _ _ x y w h (some (tx, ty))
        (rects.map fun s => .fill ((tx + s.x : Nat) : Int) ((ty + s.y : Nat) : Int) s.w s.h
          (fg.orElse fun _ => k.fg)) o
        rfl rfl ?_ ?_ ?_ (by simp) hcont
      · simp [need, hblk]
      · rw [step_hextileFG, hexFG_subs tx ty rects _ hsok]
      · intro o ho
        obtain ⟨s, _, rfl⟩ := List.mem_map.1 ho
        exact ok_fill _ _ _ _ _ hfgok

/-! ## rows of tiles -/

theorem paint_carry (t : HexTile) (tx ty tw th tx' ty' tw' th' : Nat) (k : HexCarry) :
    (t.paint tx ty tw th k).2 = (t.paint tx' ty' tw' th' k).2 := by
  cases t <;> rfl

theorem rowPaint_carry (x w ty th x' ty' : Nat) (ts : List HexTile) : ∀ (col : Nat) (k : HexCarry),
    (rowPaint x w ty th col k ts).2 = (rowPaint x' w ty' th col k ts).2 := by
  induction ts with
  | nil => intro col k; rfl
  | cons t ts ih =>
    intro col k
    simp only [rowPaint]
    rw [paint_carry t (x + 16 * col) ty _ th (x' + 16 * col) ty' _ th k, ih]

def afterRow (c : Core) (bg fg : Option Bytes) (x y w h ty : Nat) : RSt × List Out :=
  if ty + 16 ≥ y + h then doConnection c [] else (⟨c, .hextile bg fg x y w h x (ty + 16)⟩, [])

theorem nextHextile_mid (c : Core) (bg fg : Option Bytes) (x y w h tx ty : Nat) (h1 : tx + 16 < x + w)
    (h2 : ty < y + h) :
    nextHextile c bg fg x y w h (some (tx, ty)) [] = (⟨c, .hextile bg fg x y w h (tx + 16) ty⟩, []) := by
  have h1' : ¬ (tx + 16 ≥ x + w) := by omega
  have h2' : ¬ (ty ≥ y + h) := by omega
  simp only [nextHextile_eq, nhPos, if_neg h1', if_neg h2', go]

theorem nextHextile_end (c : Core) (bg fg : Option Bytes) (x y w h tx ty : Nat) (h1 : tx + 16 ≥ x + w) :
    nextHextile c bg fg x y w h (some (tx, ty)) [] = afterRow c bg fg x y w h ty := by
  simp only [nextHextile_eq, nhPos, if_pos h1, go, afterRow]

theorem hex_row (c : Core) (hbypp : c.pf.bypp ≠ 0) (x y w h ty : Nat) (hty : ty < y + h) :
    ∀ (ts : List HexTile) (col : Nat) (k : HexCarry), ts ≠ [] →
      16 * (col + ts.length - 1) < w → w ≤ 16 * (col + ts.length) →
      rowWF c.pf.bypp w (min 16 (y + h - ty)) col k ts →
      ∀ (rest : Bytes) (o : List Out) (s' : RSt) (b' : Bytes),
      Runs rfbMachine (afterRow c (rowPaint x w ty (min 16 (y + h - ty)) col k ts).2.bg
        (rowPaint x w ty (min 16 (y + h - ty)) col k ts).2.fg x y w h ty).1 rest o s' b' →
      Runs rfbMachine ⟨c, .hextile k.bg k.fg x y w h (x + 16 * col) ty⟩ (rowWire ts ++ rest)
        ((rowPaint x w ty (min 16 (y + h - ty)) col k ts).1 ++
          (afterRow c (rowPaint x w ty (min 16 (y + h - ty)) col k ts).2.bg
            (rowPaint x w ty (min 16 (y + h - ty)) col k ts).2.fg x y w h ty).2 ++ o) s' b' := by
  intro ts
  induction ts with
  | nil => intro col k hne; exact absurd rfl hne
  | cons t ts ih =>
    intro col k _ hlo hhi hwf rest o s' b' hr
    obtain ⟨hwf1, hwf2⟩ := hwf
    have e : x + w - (x + 16 * col) = w - 16 * col := by omega
    have ht := C02_hex_tile c hbypp x y w h (x + 16 * col) ty k t (by rw [e]; exact hwf1)
    rw [e] at ht
    rw [paint_carry t 0 0 _ _ (x + 16 * col) ty (min 16 (w - 16 * col)) (min 16 (y + h - ty)) k] at hwf2
    simp only [rowPaint, rowWire, List.append_assoc] at hr ⊢
    simp only [List.length_cons] at hlo hhi
    by_cases hts : ts = []
    · subst hts
      simp only [rowPaint, rowWire, List.nil_append] at hr ⊢
      have hend := nextHextile_end c
        (t.paint (x + 16 * col) ty (min 16 (w - 16 * col)) (min 16 (y + h - ty)) k).2.bg
        (t.paint (x + 16 * col) ty (min 16 (w - 16 * col)) (min 16 (y + h - ty)) k).2.fg x y w h (x + 16 * col) ty
        (by simp only [List.length_nil] at hhi; omega)
      have := ht rest o s' b' (by rw [hend]; exact hr)
      rw [hend] at this
      simpa only [List.append_assoc] using this
    · have hpos : 0 < ts.length := List.length_pos_iff.mpr hts
      have hmid := nextHextile_mid c
        (t.paint (x + 16 * col) ty (min 16 (w - 16 * col)) (min 16 (y + h - ty)) k).2.bg
        (t.paint (x + 16 * col) ty (min 16 (w - 16 * col)) (min 16 (y + h - ty)) k).2.fg x y w h (x + 16 * col) ty
        (by omega) hty
      have hrec := ih (col + 1) _ hts (by omega) (by omega) hwf2 rest o s' b' hr
      have e2 : x + 16 * (col + 1) = x + 16 * col + 16 := by omega
      rw [e2] at hrec
      have := ht (rowWire ts ++ rest) _ s' b' (by rw [hmid]; exact hrec)
      rw [hmid] at this
      simpa only [List.append_assoc, List.nil_append] using this

theorem hex_rows (c : Core) (hbypp : c.pf.bypp ≠ 0) (x y w h : Nat) (hw : 0 < w) :
    ∀ (rows : List (List HexTile)) (r : Nat) (k : HexCarry), rows ≠ [] →
      16 * (r + rows.length - 1) < h → h ≤ 16 * (r + rows.length) →
      (∀ row ∈ rows, 16 * (row.length - 1) < w ∧ w ≤ 16 * row.length) →
      rowsWF c.pf.bypp w h r k rows →
      ∀ (rest : Bytes) (o : List Out) (s' : RSt) (b' : Bytes),
      Runs rfbMachine (doConnection c []).1 rest o s' b' →
      Runs rfbMachine ⟨c, .hextile k.bg k.fg x y w h x (y + 16 * r)⟩ (rowsWire rows ++ rest)
        ((rowsPaint x y w h r k rows).1 ++ (doConnection c []).2 ++ o) s' b' := by
  intro rows
  induction rows with
  | nil => intro r k hne; exact absurd rfl hne
  | cons row rows ih =>
    intro r k _ hlo hhi hrowlen hwf rest o s' b' hr
    obtain ⟨hwf1, hwf2⟩ := hwf
    obtain ⟨hl1, hl2⟩ := hrowlen row (by simp)
    simp only [List.length_cons] at hlo hhi
    have hne : row ≠ [] := by
      intro h0; subst h0; simp at hl2; omega
    have hty : y + 16 * r < y + h := by omega
    have e : y + h - (y + 16 * r) = h - 16 * r := by omega
    have hrow := hex_row c hbypp x y w h (y + 16 * r) hty row 0 k hne (by simpa using hl1) (by simpa using hl2)
      (by rw [e]; exact hwf1)
    rw [e] at hrow
    simp only [Nat.mul_zero, Nat.add_zero] at hrow
    rw [rowPaint_carry 0 w 0 _ x (y + 16 * r)] at hwf2
    simp only [rowsPaint, rowsWire, List.append_assoc] at hr ⊢
    by_cases hrs : rows = []
    · subst hrs
      simp only [rowsPaint, rowsWire, List.nil_append, List.length_nil] at hr hhi ⊢
      have hend : ∀ bg fg, afterRow c bg fg x y w h (y + 16 * r) = doConnection c [] := by
        intro bg fg
        have : y + 16 * r + 16 ≥ y + h := by omega
        simp only [afterRow, if_pos this]
      have := hrow rest o s' b' (by rw [hend]; exact hr)
      rw [hend] at this
      simpa only [List.append_assoc] using this
    · have hpos : 0 < rows.length := List.length_pos_iff.mpr hrs
      have hnext : ∀ bg fg, afterRow c bg fg x y w h (y + 16 * r) =
          (⟨c, .hextile bg fg x y w h x (y + 16 * (r + 1))⟩, []) := by
        intro bg fg
        have : ¬ (y + 16 * r + 16 ≥ y + h) := by omega
        have e2 : y + 16 * r + 16 = y + 16 * (r + 1) := by omega
        unfold afterRow
        rw [if_neg this, e2]
      have hrec := ih (r + 1) _ hrs (by omega) (by omega) (fun x hx => hrowlen x (by simp [hx])) hwf2 rest o s' b' hr
      have := hrow (rowsWire rows ++ rest) _ s' b' (by rw [hnext]; exact hrec)
      rw [hnext] at this
      simpa only [List.append_assoc, List.nil_append] using this

theorem nextHextile_none (c : Core) (bg fg : Option Bytes) (x y w h : Nat) (pre : List Out) :
    nextHextile c bg fg x y w h none pre =
      if y ≥ y + h then doConnection c pre else go c (.hextile bg fg x y w h x y) pre := rfl

theorem s32_five : s32 (beNat (encS32 5)) = 5 := by decide

theorem hdr_hextile (c : Core) (r : Rct) (hr : r.WF) (hk : c.rectangles ≠ 0) :
    stepCore ⟨c, .rectangle⟩ (rectHeader r 5) = nextHextile (coreHdr c r) none none r.x r.y r.w r.h none [] := by
  rw [stepCore_rectangle c r hr 5 s32_five]
  simp [rectDispatch, hk, coreHdr, Tables.ENC_RAW, Tables.ENC_COPY_RECTANGLE, Tables.ENC_PSEUDO_LAST_RECT,
    Tables.ENC_HEXTILE]

/-- **a whole Hextile rectangle**

    **CORRECTED STATEMENT**: extra hypothesis `hbypp : c.pf.bypp ≠ 0`; without it the statement is false, see
    `C02_hextile_false_without_bypp` below. -/
theorem C02_hextile (c : Core) (hbypp : c.pf.bypp ≠ 0) (r : Rct) (rows : List (List HexTile)) (hr : r.WF)
    (ht : Tiling r.w r.h rows)
    (hwf : rowsWF c.pf.bypp r.w r.h 0 {} rows) (hk : c.rectangles ≠ 0)
    (rest : Bytes) (o : List Out) (s' : RSt) (b' : Bytes)
    (hcont : Runs rfbMachine (doConnection (coreAfterPlain c r) []).1 rest o s' b') :
    Runs rfbMachine ⟨c, .rectangle⟩ (rectHeader r 5 ++ rowsWire rows ++ rest)
      ((rowsPaint r.x r.y r.w r.h 0 {} rows).1 ++ (doConnection (coreAfterPlain c r) []).2 ++ o) s' b' := by
  obtain ⟨hw, hh, hlo, hhi, hrows⟩ := ht
  have hne : rows ≠ [] := by
    intro h0; subst h0; simp at hhi; omega
  have hstep : stepCore ⟨c, .rectangle⟩ (rectHeader r 5) =
      (⟨coreHdr c r, .hextile none none r.x r.y r.w r.h r.x r.y⟩, []) := by
    rw [hdr_hextile c r hr hk]
    have : ¬ (r.y ≥ r.y + r.h) := by omega
    rw [nextHextile_none, if_neg this]; rfl
  refine runs_core (rectHeader r 5) (rowsWire rows ++ rest) _ [] _ (by simp) rfl rfl hstep (by simp) rfl ?_
  exact hex_rows (coreHdr c r) hbypp r.x r.y r.w r.h hw rows 0 {} hne (by simpa using hlo) (by simpa using hhi)
    hrows hwf rest o s' b' hcont

/-- a Hextile rectangle of height 0 has no tiles (statement unchanged) -/
theorem C02_hextile_empty (c : Core) (r : Rct) (hr : r.WF) (h0 : r.h = 0) (hk : c.rectangles ≠ 0)
    (rest : Bytes) (o : List Out) (s' : RSt) (b' : Bytes)
    (hcont : Runs rfbMachine (doConnection (coreAfterPlain c r) []).1 rest o s' b') :
    Runs rfbMachine ⟨c, .rectangle⟩ (rectHeader r 5 ++ rest) ((doConnection (coreAfterPlain c r) []).2 ++ o) s' b' := by
  refine runs_core_dc (rectHeader r 5) rest (coreHdr c r) [] o rfl rfl rfl ?_ (by simp) rfl hcont
  rw [hdr_hextile c r hr hk]
  have : r.y ≥ r.y + r.h := by omega
  rw [nextHextile_none, if_pos this]


/-! ## the statements without `c.pf.bypp ≠ 0` are false -/

theorem Runs.inv {σ O : Type} {m : Machine σ O} {s : σ} {buf : Bytes} {o : List O} {s' : σ} {b' : Bytes}
    (h : Runs m s buf o s' b') :
    (m.blocked s buf = true ∧ o = [] ∧ s' = s ∧ b' = buf) ∨
    ∃ a rest o1, buf = a ++ rest ∧ m.halted s = false ∧ a.length = m.need s ∧
      Runs m (m.step s a).1 rest o1 s' b' ∧ o = (m.step s a).2 ++ o1 := by
  cases h with
  | done hb => exact Or.inl ⟨hb, rfl, rfl, rfl⟩
  | step hh hl hr => exact Or.inr ⟨_, _, _, rfl, hh, hl, hr, rfl⟩

/-- a protocol object whose pixel format has 0 bits per pixel (so `bypp = 0`) -/
def cx0 : Core :=
  { cfg := ⟨.base, false, false, 0, false, false, false, false, false, [], []⟩,
    pf := { Tables.DEFAULT_PF with bpp := 0 } }

theorem cx0_bypp : cx0.pf.bypp = 0 := by decide

theorem cx0_step : rfbMachine.step ⟨cx0, .hextile none none 0 0 1 1 0 0⟩ [byteOf 2] =
    (⟨cx0, .dead⟩, [.fill 0 0 1 1 none, .raise "type"]) := by
  rfl


/-- **the statement of `C02_hex_tile` without `c.pf.bypp ≠ 0` is false**: with a 0-byte pixel the decoder treats a
    tile that re-specifies its background (`[2]` followed by 0 colour bytes) as "nothing specified"
    (`if not numbytes`), so it fills with the *previous* background (here: none → TypeError) instead of the new one -/
theorem C02_hex_tile_false_without_bypp :
    ¬ (∀ (c : Core) (x y w h tx ty : Nat) (k : HexCarry) (t : HexTile)
      (_ : t.WF c.pf.bypp (min 16 (x + w - tx)) (min 16 (y + h - ty)) k)
      (rest : Bytes) (o : List Out) (s' : RSt) (b' : Bytes)
      (_ : Runs rfbMachine
        (nextHextile c (t.paint tx ty (min 16 (x + w - tx)) (min 16 (y + h - ty)) k).2.bg
                       (t.paint tx ty (min 16 (x + w - tx)) (min 16 (y + h - ty)) k).2.fg x y w h (some (tx, ty)) []).1
        rest o s' b'),
      Runs rfbMachine ⟨c, .hextile k.bg k.fg x y w h tx ty⟩ (t.wire ++ rest)
        ((t.paint tx ty (min 16 (x + w - tx)) (min 16 (y + h - ty)) k).1 ++
         (nextHextile c (t.paint tx ty (min 16 (x + w - tx)) (min 16 (y + h - ty)) k).2.bg
                        (t.paint tx ty (min 16 (x + w - tx)) (min 16 (y + h - ty)) k).2.fg x y w h (some (tx, ty)) []).2 ++ o)
        s' b') := by
  intro H
  have hwf : (HexTile.plain (some []) none).WF cx0.pf.bypp (min 16 (0 + 1 - 0)) (min 16 (0 + 1 - 0)) {} := by
    refine ⟨?_, ?_, Or.inl rfl⟩
    · intro b hb; cases hb; rfl
    · intro f hf; cases hf
  have h := H cx0 0 0 1 1 0 0 {} (.plain (some []) none) hwf [] [] ⟨cx0, .connection⟩ [] (Runs.done rfl)
  rcases Runs.inv h with ⟨hb, _⟩ | ⟨a, rest, o1, hbuf, _, hl, _, ho⟩
  · exact absurd hb (by decide)
  · have hl' : a.length = 1 := hl
    have ha : a = [byteOf 2] := by
      match a, hl' with
      | [v], _ =>
        have : (HexTile.plain (some []) none).wire ++ [] = [byteOf 2] := rfl
        rw [this] at hbuf
        simp at hbuf
        rw [hbuf.1]
    subst ha
    rw [cx0_step] at ho
    have : (HexTile.paint 0 0 (min 16 (0 + 1 - 0)) (min 16 (0 + 1 - 0)) {} (HexTile.plain (some []) none)).1 =
      [Out.fill 0 0 1 1 (some [])] := rfl
    rw [this] at ho
    simp at ho

theorem Runs.inv_take {σ O : Type} {m : Machine σ O} {s : σ} {buf : Bytes} {o : List O} {s' : σ} {b' : Bytes}
    (h : Runs m s buf o s' b') (hnb : m.blocked s buf = false) :
    ∃ o1, Runs m (m.step s (buf.take (m.need s))).1 (buf.drop (m.need s)) o1 s' b' ∧
      o = (m.step s (buf.take (m.need s))).2 ++ o1 := by
  rcases Runs.inv h with ⟨hb, _⟩ | ⟨a, rest, o1, hbuf, _, hl, hr, ho⟩
  · rw [hb] at hnb; cases hnb
  · subst hbuf
    rw [← hl, List.take_left, List.drop_left]
    exact ⟨o1, hr, ho⟩

def cx1 : Core := { cx0 with rectangles := 1 }

/-- **the statement of `C02_hextile` without `c.pf.bypp ≠ 0` is false** (same reason; 1×1 rectangle, one tile) -/
theorem C02_hextile_false_without_bypp :
    ¬ (∀ (c : Core) (r : Rct) (rows : List (List HexTile)) (_ : r.WF) (_ : Tiling r.w r.h rows)
      (_ : rowsWF c.pf.bypp r.w r.h 0 {} rows) (_ : c.rectangles ≠ 0)
      (rest : Bytes) (o : List Out) (s' : RSt) (b' : Bytes)
      (_ : Runs rfbMachine (doConnection (coreAfterPlain c r) []).1 rest o s' b'),
      Runs rfbMachine ⟨c, .rectangle⟩ (rectHeader r 5 ++ rowsWire rows ++ rest)
        ((rowsPaint r.x r.y r.w r.h 0 {} rows).1 ++ (doConnection (coreAfterPlain c r) []).2 ++ o) s' b') := by
  intro H
  have hwf : rowsWF cx1.pf.bypp 1 1 0 {} [[HexTile.plain (some []) none]] := by
    refine ⟨⟨⟨?_, ?_, Or.inl rfl⟩, trivial⟩, trivial⟩
    · intro b hb; cases hb; rfl
    · intro f hf; cases hf
  have h := H cx1 ⟨0, 0, 1, 1⟩ [[.plain (some []) none]] (by simp [Rct.WF]) (by simp [Tiling]) hwf (by decide)
    [] [] (doConnection (coreAfterPlain cx1 ⟨0, 0, 1, 1⟩) []).1 [] (Runs.done rfl)
  obtain ⟨o1, h1, ho1⟩ := Runs.inv_take h (by decide)
  have e1 : rfbMachine.step ⟨cx1, .rectangle⟩
      ((rectHeader ⟨0, 0, 1, 1⟩ 5 ++ rowsWire [[HexTile.plain (some []) none]] ++ []).take
        (rfbMachine.need ⟨cx1, .rectangle⟩)) =
      (⟨coreAfterPlain cx1 ⟨0, 0, 1, 1⟩, .hextile none none 0 0 1 1 0 0⟩, []) := by rfl
  rw [e1] at h1 ho1
  obtain ⟨o2, _, ho2⟩ := Runs.inv_take h1 (by decide)
  have e2 : rfbMachine.step ⟨coreAfterPlain cx1 ⟨0, 0, 1, 1⟩, .hextile none none 0 0 1 1 0 0⟩
      (((rectHeader ⟨0, 0, 1, 1⟩ 5 ++ rowsWire [[HexTile.plain (some []) none]] ++ []).drop
        (rfbMachine.need ⟨cx1, .rectangle⟩)).take
          (rfbMachine.need ⟨coreAfterPlain cx1 ⟨0, 0, 1, 1⟩, .hextile none none 0 0 1 1 0 0⟩)) =
      (⟨coreAfterPlain cx1 ⟨0, 0, 1, 1⟩, .dead⟩, [.fill 0 0 1 1 none, .raise "type"]) := by rfl
  rw [e2] at ho2
  rw [ho2] at ho1
  have : (rowsPaint 0 0 1 1 0 {} [[HexTile.plain (some []) none]]).1 = [Out.fill 0 0 1 1 (some [])] := rfl
  dsimp only at ho1
  rw [this] at ho1
  simp at ho1


/-- non-vacuity: a 17×17 rectangle (four tiles, the last 1×1) with every tile kind is well formed -/
def px (n : Nat) : Bytes := List.replicate n 7
def exRows : List (List HexTile) :=
  [[.subs (some [1, 1, 1, 1]) (some [2, 2, 2, 2]) false [⟨[], 0, 0, 16, 1⟩, ⟨[], 15, 15, 1, 1⟩], .plain none none],
   [.subs none none true [⟨[3, 3, 3, 3], 0, 0, 1, 1⟩], .raw (px 4)]]
example : Tiling 17 17 exRows ∧ rowsWF 4 17 17 0 {} exRows := by
  refine ⟨by simp [Tiling, exRows], ?_⟩
  simp [rowsWF, rowWF, rowPaint, exRows, HexTile.WF, HexTile.paint, px]

end Vnc
