import VncModel.PyStr
/-! Lemmas about the CPython string models (shared by several property files). -/
namespace Vnc

theorem splitOnC_ne_nil (c : Char) (s : List Char) : splitOnC c s ≠ [] := by
  induction s with
  | nil => simp [splitOnC]
  | cons x xs ih =>
    unfold splitOnC
    split
    · simp
    · split <;> simp

theorem splitOnC_notin (c : Char) (h : List Char) (hc : c ∉ h) : splitOnC c h = [h] := by
  induction h with
  | nil => rfl
  | cons x xs ih =>
    simp at hc
    unfold splitOnC
    rw [if_neg (Ne.symm hc.1), ih hc.2]

theorem splitOnC_append (c : Char) (h rest : List Char) (hc : c ∉ h) :
    splitOnC c (h ++ c :: rest) = h :: splitOnC c rest := by
  induction h with
  | nil => simp [splitOnC]
  | cons x xs ih =>
    simp at hc
    show splitOnC c (x :: (xs ++ c :: rest)) = _
    rw [splitOnC, if_neg (Ne.symm hc.1), ih hc.2]

theorem splitOnC_inv (c : Char) : ∀ (s a : List Char) (t : List (List Char)), splitOnC c s = a :: t →
    c ∉ a ∧ ((t = [] ∧ s = a) ∨ ∃ rest, s = a ++ c :: rest ∧ splitOnC c rest = t) := by
  intro s
  induction s with
  | nil => intro a t h; simp [splitOnC] at h; obtain ⟨rfl, rfl⟩ := h; simp
  | cons x xs ih =>
    intro a t h
    unfold splitOnC at h
    by_cases hx : x = c
    · rw [if_pos hx] at h
      simp at h
      obtain ⟨rfl, rfl⟩ := h
      subst hx
      simp
    · rw [if_neg hx] at h
      cases hs : splitOnC c xs with
      | nil => exact absurd hs (splitOnC_ne_nil c xs)
      | cons h' t' =>
        rw [hs] at h
        simp at h
        obtain ⟨rfl, rfl⟩ := h
        obtain ⟨h1, h2⟩ := ih h' t' hs
        refine ⟨by simp; exact ⟨Ne.symm hx, h1⟩, ?_⟩
        rcases h2 with ⟨rfl, rfl⟩ | ⟨rest, rfl, h3⟩
        · left; simp
        · right; exact ⟨rest, by simp, h3⟩

theorem splitOnC_length (c : Char) (s : List Char) : (splitOnC c s).length = s.count c + 1 := by
  induction s with
  | nil => rfl
  | cons x xs ih =>
    rw [splitOnC]
    by_cases hx : x = c
    · subst hx; simp [ih]
    · rw [if_neg hx]
      have hx' : (x == c) = false := by simpa using hx
      cases hs : splitOnC c xs with
      | nil => exact absurd hs (splitOnC_ne_nil _ _)
      | cons a t => rw [hs] at ih; simp [List.count_cons, hx'] at ih ⊢; exact ih

end Vnc
