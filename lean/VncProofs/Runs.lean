import VncProofs.Expect
/-!
# A fuel-free big-step presentation of the dispatch loop

`Runs m s buf o s' b'`: started in state `s` with `buf` buffered, the dispatch loop performs handler calls emitting
`o` and stops (blocked) in state `s'` with `b'` still buffered.  `runs_drain` / `runs_feed` connect it to the
fuelled `drain` / `feed` of VncModel/Expect.lean, for every machine that makes progress.
-/
namespace Vnc
variable {σ Out : Type}

inductive Runs (m : Machine σ Out) : σ → Bytes → List Out → σ → Bytes → Prop
  | done {s : σ} {buf : Bytes} : m.blocked s buf = true → Runs m s buf [] s buf
  | step {s : σ} {a rest : Bytes} {o : List Out} {s' : σ} {b' : Bytes} :
      m.halted s = false → a.length = m.need s → Runs m (m.step s a).1 rest o s' b' →
      Runs m s (a ++ rest) ((m.step s a).2 ++ o) s' b'

/-- `Runs.step` with every index given by an equation (convenient to apply on concrete goals) -/
theorem Runs.step' {m : Machine σ Out} {s : σ} {buf : Bytes} {out : List Out} {s' : σ} {b' : Bytes}
    (a rest : Bytes) (s1 : σ) (o1 o : List Out)
    (hb : buf = a ++ rest) (hh : m.halted s = false) (hl : a.length = m.need s)
    (hs : m.step s a = (s1, o1)) (ho : out = o1 ++ o)
    (hr : Runs m s1 rest o s' b') : Runs m s buf out s' b' := by
  subst hb ho
  have h1 : s1 = (m.step s a).1 := by rw [hs]
  have h2 : o1 = (m.step s a).2 := by rw [hs]
  subst h1 h2
  exact Runs.step hh hl hr

theorem runs_drain (m : Machine σ Out) {s : σ} {buf : Bytes} {o : List Out} {s' : σ} {b' : Bytes}
    (h : Runs m s buf o s' b') : ∃ f, drain m f s buf = ⟨s', b', o, true⟩ := by
  induction h with
  | done hb => exact ⟨0, drain_blocked_eq m 0 _ _ hb⟩
  | @step s a rest o s' b' hh hl _ ih =>
    obtain ⟨f, hf⟩ := ih
    refine ⟨f + 1, ?_⟩
    have hb : m.blocked s (a ++ rest) = false := by
      simp [Machine.blocked, hh]; omega
    have hle : m.need s ≤ a.length := by omega
    simp only [drain, hb, Bool.false_eq_true, ↓reduceIte]
    rw [List.take_append_of_le_length hle, List.drop_append_of_le_length hle]
    rw [← hl, List.take_length, List.drop_length, List.nil_append, hf]

/-- two runs of the loop that both ended blocked agree, whatever their fuel -/
theorem drain_ok_unique (m : Machine σ Out) (f g : Nat) (s : σ) (buf : Bytes)
    (hf : (drain m f s buf).ok = true) (hg : (drain m g s buf).ok = true) :
    drain m f s buf = drain m g s buf := by
  rw [← drain_mono m f s buf hf (max f g) (Nat.le_max_left _ _),
      ← drain_mono m g s buf hg (max f g) (Nat.le_max_right _ _)]

theorem runs_feed_buf (m : Machine σ Out) (hp : Progress m) {st : St σ} {chunk : Bytes} {o : List Out} {s' : σ}
    {b' : Bytes} (h : Runs m st.s (st.buf ++ chunk) o s' b') : feed m st chunk = (⟨s', b'⟩, o, true) := by
  obtain ⟨f, hf⟩ := runs_drain m h
  have hok := feed_ok m hp st chunk
  simp only [feed] at hok ⊢
  have hfok : (drain m f st.s (st.buf ++ chunk)).ok = true := by rw [hf]
  rw [drain_ok_unique m _ f _ _ hok hfok, hf]

theorem runs_feed (m : Machine σ Out) (hp : Progress m) {s : σ} {buf : Bytes} {o : List Out} {s' : σ} {b' : Bytes}
    (h : Runs m s buf o s' b') : feed m ⟨s, []⟩ buf = (⟨s', b'⟩, o, true) :=
  runs_feed_buf m hp (st := ⟨s, []⟩) (by simpa using h)

/-- `Runs` with the final state left implicit: the loop emits exactly `o` and then stops -/
def RunsOut (m : Machine σ Out) (s : σ) (buf : Bytes) (o : List Out) : Prop := ∃ s' b', Runs m s buf o s' b'

theorem RunsOut.done {m : Machine σ Out} {s : σ} {buf : Bytes} (h : m.blocked s buf = true) : RunsOut m s buf [] :=
  ⟨s, buf, Runs.done h⟩

theorem RunsOut.step' {m : Machine σ Out} {s : σ} {buf : Bytes} {out : List Out}
    (a rest : Bytes) (s1 : σ) (o1 o : List Out)
    (hb : buf = a ++ rest) (hh : m.halted s = false) (hl : a.length = m.need s)
    (hs : m.step s a = (s1, o1)) (ho : out = o1 ++ o)
    (hr : RunsOut m s1 rest o) : RunsOut m s buf out := by
  obtain ⟨s', b', hr⟩ := hr
  exact ⟨s', b', Runs.step' a rest s1 o1 o hb hh hl hs ho hr⟩

theorem runsOut_feed (m : Machine σ Out) (hp : Progress m) {s : σ} {buf : Bytes} {o : List Out}
    (h : RunsOut m s buf o) : (feed m ⟨s, []⟩ buf).2.1 = o := by
  obtain ⟨s', b', h⟩ := h
  rw [runs_feed m hp h]

end Vnc
