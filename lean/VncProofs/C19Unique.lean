import VncProofs.C19
/-!
# C19 — the client's byte stream has exactly one reading

`C19_parse_stream` says the RFC parser recovers the messages from their encoding. The corollaries below say that no OTHER
list of well-formed messages has the same bytes: the encoding is prefix-free (`C19_prefix_free`: a server that has read one
message can never be mid-way through a different one), injective on messages (`C19_encode_inj`) and injective on whole
streams (`C19_stream_unique`). Together with `C19_stream` (every history of client operations writes
`(msgs).flatMap encodeC2S`) this pins the server's view of the session to the operations performed and nothing else.
-/
namespace Vnc

/-- prefix-freeness: if two well-formed messages followed by anything give the same bytes, they are the same message and the
same remainder -/
theorem C19_prefix_free (m m' : C2SMsg) (r r' : Bytes) (h : m.WF) (h' : m'.WF)
    (e : encodeC2S m ++ r = encodeC2S m' ++ r') : m = m' ∧ r = r' := by
  have a := C19_parse_encode m r h
  have b := C19_parse_encode m' r' h'
  rw [e, b] at a
  simp only [Option.some.injEq, Prod.mk.injEq] at a
  exact ⟨a.1.symm, a.2.symm⟩

theorem C19_encode_inj (m m' : C2SMsg) (h : m.WF) (h' : m'.WF) (e : encodeC2S m = encodeC2S m') : m = m' :=
  (C19_prefix_free m m' [] [] h h' (by simp [e])).1

/-- no well-formed message is a proper prefix of another -/
theorem C19_not_proper_prefix (m m' : C2SMsg) (r : Bytes) (h : m.WF) (h' : m'.WF)
    (e : encodeC2S m ++ r = encodeC2S m') : r = [] ∧ m = m' := by
  have := C19_prefix_free m m' r [] h h' (by simpa using e)
  exact ⟨this.2, this.1⟩

/-- two lists of well-formed messages with the same bytes are the same list -/
theorem C19_stream_unique (ms ms' : List C2SMsg) (h : ∀ m ∈ ms, m.WF) (h' : ∀ m ∈ ms', m.WF)
    (e : ms.flatMap encodeC2S = ms'.flatMap encodeC2S) : ms = ms' := by
  have a := C19_parse_stream ms h
  have b := C19_parse_stream ms' h'
  rw [e, b] at a
  exact (Option.some.inj a).symm

/-- the stream written by a history of in-range client operations determines the messages: whatever message list
a server reads from those bytes is the list the operations stand for -/
theorem C19_stream_reading_unique (ms ms' : List C2SMsg) (h : ∀ m ∈ ms, m.WF)
    (e : parseStream (ms.flatMap encodeC2S) = some ms') : ms' = ms := by
  rw [C19_parse_stream ms h] at e
  exact (Option.some.inj e).symm

/-- non-vacuity: two different well-formed messages, different bytes -/
example : encodeC2S (.keyEvent 1 0x61) ≠ encodeC2S (.keyEvent 0 0x61) := by decide

end Vnc
