import VncProofs.C03
import VncProofs.C06
import VncProofs.System
/-!
# Whole conversations added after the seeded campaigns

* C14 / C03: the Apple Remote Desktop (Diffie-Hellman, security type 30) conversation through the protocol machine, for every
  offer list that contains 30 and no higher supported type: the client names 30, stays silent until generator + key
  length, modulus and server key have all arrived, then sends exactly one reply, then waits for the SecurityResult.
* C06: a capture that is waiting while an update WITHOUT pixel data completes (the client still has no screen) keeps waiting
  with one more full request, and is completed by the next update: exactly one image, the screen at that moment.
-/
namespace Vnc

/-- the security types offered are such that the client's choice is 30: 30 is offered and supported, nothing larger that
    it supports is offered (today: 30 is the largest supported type) -/
def offers30 (types : Bytes) : Prop :=
  (30 : UInt8) ∈ types ∧ ∀ t ∈ types, Tables.SUPPORTED_AUTHS.contains t.toNat = true → t.toNat ≤ 30

/-! ### helpers for the ARD conversation -/

theorem ard_fold_30 (types : Bytes) (ho : offers30 types) :
    (types.filter fun t => Tables.SUPPORTED_AUTHS.contains t.toNat).foldl fmax none = some 30 := by
  obtain ⟨h30, hle⟩ := ho
  have hmem : (30 : UInt8) ∈ types.filter fun t => Tables.SUPPORTED_AUTHS.contains t.toNat :=
    List.mem_filter.2 ⟨h30, by decide⟩
  obtain ⟨m, hm, hall, t, ht, htm⟩ := foldl_fmax_none _ (List.ne_nil_of_mem hmem)
  have h1 : (30 : UInt8).toNat ≤ m := hall _ hmem
  have h2 : t.toNat ≤ 30 := by
    rw [List.mem_filter] at ht
    exact hle t ht.1 ht.2
  have h3 : (30 : UInt8).toNat = 30 := by decide
  have : m = 30 := by omega
  rw [hm, this]

theorem ard_step_secTypes (c : Core) (n : Nat) (types : Bytes) (ho : offers30 types) :
    step ⟨c, .secTypes n⟩ types = (⟨c, .dhAuth⟩, [.write [30]]) := by
  have hc : stepCore ⟨c, .secTypes n⟩ types = (⟨c, .dhAuth⟩, [.write [30]]) := by
    rw [stepCore_secTypes, ard_fold_30 types ho]
    simp [Tables.AUTH_NONE, Tables.AUTH_VNC_AUTHENTICATION, Tables.AUTH_DIFFIE_HELLMAN, go]
  rw [step_eq_core _ _ (by rw [hc]; rfl), hc]

theorem runs_ard_numSec (c : Core) (types rest : Bytes) (o : List Out) (hn : types.length < 256) (hne : types ≠ [])
    (hr : RunsOut rfbMachine ⟨c, .secTypes types.length⟩ rest o) :
    RunsOut rfbMachine ⟨c, .numSecTypes⟩ (UInt8.ofNat types.length :: rest) o := by
  refine RunsOut.step' [UInt8.ofNat types.length] rest ⟨c, .secTypes types.length⟩ [] o rfl rfl rfl ?_ rfl hr
  rw [rfb_step_eq]
  have h0 : types.length ≠ 0 := by
    intro h; exact hne (List.length_eq_zero_iff.1 h)
  have h1 : (UInt8.ofNat types.length).toNat = types.length := by
    rw [UInt8.toNat_ofNat']; omega
  simp [step, stepCore, go, cutAtNoneFill, h1, h0]

theorem runs_ard_secTypes (c : Core) (types rest : Bytes) (o : List Out) (ho : offers30 types)
    (hr : RunsOut rfbMachine ⟨c, .dhAuth⟩ rest o) :
    RunsOut rfbMachine ⟨c, .secTypes types.length⟩ (types ++ rest) (.write [30] :: o) := by
  refine RunsOut.step' types rest ⟨c, .dhAuth⟩ [.write [30]] o rfl rfl rfl ?_ rfl hr
  rw [rfb_step_eq]
  exact ard_step_secTypes c _ types ho

theorem runs_ard_dhAuth (c : Core) (g kl : Nat) (hg : g < 65536) (hkl : 0 < kl ∧ kl < 65536) (rest : Bytes) (o : List Out)
    (hr : RunsOut rfbMachine ⟨{ c with generator := g, keyLen := kl }, .dhKey⟩ rest o) :
    RunsOut rfbMachine ⟨c, .dhAuth⟩ (enc16 g ++ (enc16 kl ++ rest)) o := by
  refine RunsOut.step' (enc16 g ++ enc16 kl) rest ⟨{ c with generator := g, keyLen := kl }, .dhKey⟩ [] o
    (by simp) rfl rfl ?_ rfl hr
  rw [rfb_step_eq]
  have e1 : beNat ((enc16 g ++ enc16 kl).take 2) = g := beNat_enc16 g hg
  have e2 : beNat ((enc16 g ++ enc16 kl).drop 2) = kl := beNat_enc16 kl hkl.2
  have h0 : kl ≠ 0 := by omega
  simp only [step, stepCore, e1, e2]
  simp [h0, go, cutAtNoneFill]

theorem runs_ard_dhKey (c : Core) (modulus rest : Bytes) (o : List Out) (hm : modulus.length = c.keyLen)
    (h0 : c.keyLen ≠ 0)
    (hr : RunsOut rfbMachine ⟨{ c with modulus := modulus }, .dhCert⟩ rest o) :
    RunsOut rfbMachine ⟨c, .dhKey⟩ (modulus ++ rest) o := by
  refine RunsOut.step' modulus rest ⟨{ c with modulus := modulus }, .dhCert⟩ [] o rfl rfl hm ?_ rfl hr
  rw [rfb_step_eq]
  simp [step, stepCore, h0, go, cutAtNoneFill]

theorem runs_ard_dhCert (c : Core) (skey rest : Bytes) (o : List Out) (hs : skey.length = c.keyLen)
    (hmz : beNat c.modulus ≠ 0)
    (hr : RunsOut rfbMachine ⟨c, .authResult⟩ rest o) :
    RunsOut rfbMachine ⟨c, .dhCert⟩ (skey ++ rest) (.write c.cfg.ardReply :: o) := by
  refine RunsOut.step' skey rest ⟨c, .authResult⟩ [.write c.cfg.ardReply] o rfl rfl hs ?_ rfl hr
  rw [rfb_step_eq]
  simp [step, stepCore, hmz, go, cutAtNoneFill]

theorem runs_ard_result_ok (c : Core) (hs : c.cfg.shared = true) :
    RunsOut rfbMachine ⟨c, .authResult⟩ (enc32 0) [.write [1]] := by
  refine RunsOut.step' (enc32 0) [] ⟨c, .serverInit⟩ [.write [1]] [] (List.append_nil _).symm rfl rfl ?_ rfl
    (RunsOut.done ?_)
  · rw [rfb_step_eq]
    have : beNat (enc32 0) = 0 := beNat_enc32 0 (by omega)
    simp [step, stepCore, this, go, clientInit, cutAtNoneFill, hs]
  · simp [Machine.blocked, rfbMachine, halted, need]

/-- the whole tail after the banner, ending with `rest` processed from the state reached after the offer -/
theorem runs_ard_prefix (c : Core) (types : Bytes) (hn : types.length < 256) (hne : types ≠ []) (ho : offers30 types)
    (rest : Bytes) (o : List Out) (hr : RunsOut rfbMachine ⟨c, .dhAuth⟩ rest o) :
    RunsOut rfbMachine ⟨c, .numSecTypes⟩ (UInt8.ofNat types.length :: (types ++ rest)) (.write [30] :: o) :=
  runs_ard_numSec c types _ _ hn hne (runs_ard_secTypes c types rest o ho hr)

theorem runs_ard_key (c : Core) (g kl : Nat) (hg : g < 65536) (hkl : 0 < kl ∧ kl < 65536) (modulus : Bytes)
    (hm : modulus.length = kl) (rest : Bytes) (o : List Out)
    (hr : RunsOut rfbMachine ⟨{ c with generator := g, keyLen := kl, modulus := modulus }, .dhCert⟩ rest o) :
    RunsOut rfbMachine ⟨c, .dhAuth⟩ (enc16 g ++ (enc16 kl ++ (modulus ++ rest))) o := by
  refine runs_ard_dhAuth c g kl hg hkl _ _ ?_
  refine runs_ard_dhKey _ modulus rest o hm ?_ hr
  show kl ≠ 0
  omega

theorem ard_conv (c : Core) (hsh : c.cfg.shared = true) (types : Bytes)
    (hn : types.length < 256) (hne : types ≠ []) (ho : offers30 types)
    (g kl : Nat) (hg : g < 65536) (hkl : 0 < kl ∧ kl < 65536) (modulus skey : Bytes)
    (hm : modulus.length = kl) (hs : skey.length = kl) (hmz : beNat modulus ≠ 0) :
    RunsOut rfbMachine ⟨c, .numSecTypes⟩ (UInt8.ofNat types.length :: (types ++ [])) [.write [30]] ∧
    RunsOut rfbMachine ⟨c, .numSecTypes⟩
      (UInt8.ofNat types.length :: (types ++ (enc16 g ++ (enc16 kl ++ (modulus ++ skey.dropLast))))) [.write [30]] ∧
    RunsOut rfbMachine ⟨c, .numSecTypes⟩
      (UInt8.ofNat types.length :: (types ++ (enc16 g ++ (enc16 kl ++ (modulus ++ (skey ++ []))))))
      [.write [30], .write c.cfg.ardReply] ∧
    RunsOut rfbMachine ⟨c, .numSecTypes⟩
      (UInt8.ofNat types.length :: (types ++ (enc16 g ++ (enc16 kl ++ (modulus ++ (skey ++ enc32 0))))))
      [.write [30], .write c.cfg.ardReply, .write [1]] := by
  refine ⟨?_, ?_, ?_, ?_⟩
  · refine runs_ard_prefix c types hn hne ho [] [] (RunsOut.done ?_)
    simp [Machine.blocked, rfbMachine, halted, need]
  · refine runs_ard_prefix c types hn hne ho _ [] ?_
    refine runs_ard_key c g kl hg hkl modulus hm _ [] (RunsOut.done ?_)
    have : skey.dropLast.length < kl := by rw [List.length_dropLast]; omega
    simpa [Machine.blocked, rfbMachine, halted, need] using this
  · refine runs_ard_prefix c types hn hne ho _ _ ?_
    refine runs_ard_key c g kl hg hkl modulus hm _ _ ?_
    refine runs_ard_dhCert _ skey [] [] hs hmz (RunsOut.done ?_)
    simp [Machine.blocked, rfbMachine, halted, need]
  · refine runs_ard_prefix c types hn hne ho _ _ ?_
    refine runs_ard_key c g kl hg hkl modulus hm _ _ ?_
    refine runs_ard_dhCert _ skey _ _ hs hmz ?_
    exact runs_ard_result_ok _ hsh

/-- **ARD conversation, RFB 3.8** (3.7 is the same up to the version line): outputs after each stage of the server's side -/
theorem C14_ard_conversation_38 (kind : ClientKind) (pw : Bool) (zq : List (Option Bytes)) (types : Bytes)
    (hn : types.length < 256) (hne : types ≠ []) (ho : offers30 types)
    (g kl : Nat) (hg : g < 65536) (hkl : 0 < kl ∧ kl < 65536) (modulus skey : Bytes)
    (hm : modulus.length = kl) (hs : skey.length = kl) (hmz : beNat modulus ≠ 0) :
    -- the offer is answered with the single byte 30 and nothing else
    (feed rfbMachine (rfbInit (cfgOf kind pw) zq) (versionReply (3, 8) ++ [UInt8.ofNat types.length] ++ types)).2.1
      = [.write (versionReply (3, 8)), .write [30]] ∧
    -- generator, key length, modulus and all but the last byte of the server key: still nothing more
    (feed rfbMachine (rfbInit (cfgOf kind pw) zq)
      (versionReply (3, 8) ++ [UInt8.ofNat types.length] ++ types ++ enc16 g ++ enc16 kl ++ modulus ++ skey.dropLast)).2.1
      = [.write (versionReply (3, 8)), .write [30]] ∧
    -- the complete server key: exactly one reply
    (feed rfbMachine (rfbInit (cfgOf kind pw) zq)
      (versionReply (3, 8) ++ [UInt8.ofNat types.length] ++ types ++ enc16 g ++ enc16 kl ++ modulus ++ skey)).2.1
      = [.write (versionReply (3, 8)), .write [30], .write (cfgOf kind pw).ardReply] ∧
    -- SecurityResult OK: ClientInit
    (feed rfbMachine (rfbInit (cfgOf kind pw) zq)
      (versionReply (3, 8) ++ [UInt8.ofNat types.length] ++ types ++ enc16 g ++ enc16 kl ++ modulus ++ skey ++ enc32 0)).2.1
      = [.write (versionReply (3, 8)), .write [30], .write (cfgOf kind pw).ardReply, .write [1]] := by
  obtain ⟨h1, h2, h3, h4⟩ := ard_conv
    { cfg := cfgOf kind pw, zq := zq, version := (3, 8), versionServer := (3, 8) } rfl types hn hne ho g kl hg hkl
    modulus skey hm hs hmz
  simp only [List.append_nil] at h1 h3
  refine ⟨?_, ?_, ?_, ?_⟩
  all_goals
    refine runsOut_feed rfbMachine rfb_progress (s := RSt.init (cfgOf kind pw) zq) ?_
    simp only [List.append_assoc]
    rw [versionReply_38]
    simp only [List.cons_append, List.nil_append, RSt.init]
    iterate 11 (refine runs_banner_byte _ _ _ _ _ (by decide) (by decide) ?_)
    refine runs_banner_last _ _ _ _ _ (3, 8) .numSecTypes (by rfl) (by decide) (by decide) (by rfl) ?_
    first | exact h1 | exact h2 | exact h3 | exact h4

/-- non-vacuity: the offers used by the correspondence run -/
example : offers30 [30] ∧ offers30 [2, 30] ∧ offers30 [30, 2] ∧ offers30 [1, 30] ∧ offers30 [18, 30, 2] := by
  refine ⟨?_, ?_, ?_, ?_, ?_⟩ <;> refine ⟨by decide, ?_⟩ <;> decide

theorem save_unique (l : List Act) (x : Act) (hh : l.head? = some x) (hx : x.isSave = true)
    (hl : (l.filter Act.isSave).length = 1) : ∀ y ∈ l, y.isSave = true → y = x := by
  cases l with
  | nil => cases hh
  | cons z t =>
    simp only [List.head?_cons, Option.some.injEq] at hh
    subst hh
    rw [List.filter_cons_of_pos hx] at hl
    have ht : t.filter Act.isSave = [] := by
      apply List.eq_nil_of_length_eq_zero
      simpa using hl
    intro y hy hys
    rcases List.mem_cons.1 hy with rfl | hy
    · rfl
    · have := (nosave_iff t).2 ht y hy
      rw [this] at hys; cases hys

/-- **a capture across an update without pixel data**: first commit with no screen - nothing saved, the capture keeps
    waiting, one full request; next commit with a screen `s` - exactly one image, `s` (or the region of it), and the
    waiter is gone -/
theorem C06_capture_over_two_updates (a : App) (core core' : Core) (f : Word) (box : Option (Int × Int × Int × Int))
    (s : Img) (h : a.waiter = some (.capture f box)) :
    let r1 := onCommit core none a
    let r2 := onCommit core' (some s) r1.1
    r1.2.filter Act.isSave = [] ∧ r1.2 = requestAll core false ∧ r1.1.waiter = some (.capture f box) ∧
    (r2.2.filter Act.isSave).length = 1 ∧
    (∀ fl w hh px, Act.save fl w hh px ∈ r2.2 → fl = f ∧
      (match box with
        | none => w = s.w ∧ hh = s.h ∧ px = s.pixels
        | some (x0, y0, x1, y1) => w = (s.crop x0 y0 x1 y1).w ∧ hh = (s.crop x0 y0 x1 y1).h ∧ px = (s.crop x0 y0 x1 y1).pixels)) := by
  intro r1 r2
  have e1 : r1 = ({ a with waiter := some (.capture f box) }, requestAll core false) :=
    C06_capture_waits_for_pixels a core f box h
  have hw1 : r1.1.waiter = some (.capture f box) := by rw [e1]
  obtain ⟨hhead, hlen⟩ := C06_saved_is_screen r1.1 core' s f box hw1
  have e2 : r1.2 = requestAll core false := by rw [e1]
  refine ⟨?_, e2, hw1, hlen, ?_⟩
  · rw [e2]; exact (nosave_iff _).1 (requestAll_nosave core false)
  · intro fl w hh px hmem
    have := save_unique _ _ hhead rfl hlen _ hmem rfl
    cases box with
    | none =>
      injection this with a1 a2 a3 a4
      exact ⟨a1, a2, a3, a4⟩
    | some b =>
      obtain ⟨x0, y0, x1, y1⟩ := b
      injection this with a1 a2 a3 a4
      exact ⟨a1, a2, a3, a4⟩

end Vnc
