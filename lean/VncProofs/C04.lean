import VncSpec.Keys
import VncSpec.C2S
import VncModel.Keys
import VncProofs.PyStrLemmas
/-!
# C04 — Key commands put exactly the intended press/release events on the wire

Model: `decodeKey`, `keyOpWrites` (VncModel/Keys.lean = client.py `_decodeKey`, `keyPress/keyDown/keyUp`,
rfb.py `keyEvent`), with the key table *extracted from the source on this run* (`Tables.KEYMAP`).
Spec: VncSpec/Keys.lean (X11 keysyms, press/release order, forced caps), VncSpec/C2S.lean (RFC 6143 KeyEvent).
-/
namespace Vnc
open Vnc.Spec

/-- every named key maps to its X11 keysym, and there are no other names: the table in the source *is* the X11 table -/
theorem C04_keymap : Tables.KEYMAP = Spec.x11 := by decide

/-- no name is defined twice (a dict literal would silently keep the last one) -/
theorem C04_keymap_nodup : (Tables.KEYMAP.map (·.1)).Nodup := by decide

/-- the shifted symbols of forced-caps mode are the US ones -/
theorem C04_special : Tables.SPECIAL_KEYS_US.toList = Spec.shiftedUS := by decide

/-- a chord element is a key name of the table or a single character other than the separator -/
def Spec.KeyElem.Valid : KeyElem → Prop
  | .name n => n ∈ Spec.x11.map (·.1)
  | .char c => c ≠ '-'

/-- the text of a chord: its elements joined by `-` -/
def chordText (es : List KeyElem) : List Char :=
  match es with
  | [] => []
  | [e] => e.text
  | e :: rest => e.text ++ '-' :: chordText rest

theorem x11_keysymOf : ∀ e ∈ Spec.x11, keysymOf e.1.toList = some e.2 := by decide
theorem x11_facts : ∀ e ∈ Spec.x11, 2 ≤ e.1.toList.length ∧ '-' ∉ e.1.toList ∧ e.2 ≠ 0 ∧ e.2 < 4294967296 := by decide
theorem x11_find : ∀ e ∈ Spec.x11, (Spec.x11.find? (·.1 == e.1)).map (·.2) = some e.2 := by decide

theorem mapM_some {α β} (f : α → Option β) (g : α → β) (l : List α) (h : ∀ x ∈ l, f x = some (g x)) :
    l.mapM f = some (l.map g) := by
  induction l with
  | nil => simp
  | cons x xs ih =>
    have h1 := h x (by simp)
    have h2 := ih (fun y hy => h y (by simp [hy]))
    simp [List.mapM_cons, h1, h2]

theorem mapM_congr' {α β} (f g : α → Option β) (l : List α) (h : ∀ x ∈ l, f x = g x) :
    l.mapM f = l.mapM g := by
  induction l with
  | nil => simp
  | cons x xs ih =>
    have h1 := h x (by simp)
    have h2 := ih (fun y hy => h y (by simp [hy]))
    simp [List.mapM_cons, h1, h2]

/-- a named key decodes to its X11 keysym -/
theorem C04_name (n : String) (v : Nat) (h : (n, v) ∈ Spec.x11) : keysymOf n.toList = some v :=
  x11_keysymOf (n, v) h

theorem keymapGet_single (c : Char) : keymapGet [c] = none := by
  unfold keymapGet
  rw [C04_keymap]
  simp only [Option.map_eq_none_iff, List.find?_eq_none]
  intro e he
  have := (x11_facts e he).1
  intro hc
  simp at hc
  rw [hc] at this
  simp at this

/-- any single character decodes to its code point (for every Unicode character, including `-`) -/
theorem C04_char (c : Char) : keysymOf [c] = some c.toNat := by
  simp [keysymOf, keymapGet_single, pyOrd]

theorem valid_keysymOf (e : KeyElem) (hv : e.Valid) : keysymOf e.text = e.keysym := by
  cases e with
  | name n =>
    simp only [Spec.KeyElem.Valid, List.mem_map] at hv
    obtain ⟨⟨n', v⟩, he, rfl⟩ := hv
    simp only [KeyElem.text, KeyElem.keysym]
    rw [x11_keysymOf _ he, x11_find _ he]
  | char c => simp [KeyElem.text, KeyElem.keysym, C04_char]

theorem valid_nodash (e : KeyElem) (hv : e.Valid) : '-' ∉ e.text := by
  cases e with
  | name n =>
    simp only [Spec.KeyElem.Valid, List.mem_map] at hv
    obtain ⟨⟨n', v⟩, he, rfl⟩ := hv
    exact (x11_facts _ he).2.1
  | char c =>
    simp only [Spec.KeyElem.Valid] at hv
    simp [KeyElem.text]; exact hv.symm

theorem text_len (e : KeyElem) (hv : e.Valid) : 1 ≤ e.text.length := by
  cases e with
  | name n =>
    simp only [Spec.KeyElem.Valid, List.mem_map] at hv
    obtain ⟨⟨n', v⟩, he, rfl⟩ := hv
    have : 2 ≤ n'.toList.length := (x11_facts _ he).1
    show 1 ≤ n'.toList.length
    omega
  | char c => simp [KeyElem.text]

/-- without forced caps `_decodeKey` is: split (unless a single character), look every part up -/
theorem decodeKey_nocaps (up : Bool) (key : List Char) :
    decodeKey false up key = (if key.length = 1 then [key] else splitOnC '-' key).mapM keysymOf := by
  match key with
  | [] => rfl
  | [_] => rfl
  | _ :: _ :: _ => rfl

/-- a single key or character, no forced caps -/
theorem C04_decode_single (up : Bool) (e : KeyElem) (hv : e.Valid) :
    decodeKey false up e.text = (e.keysym.map fun k => [k]) := by
  have hk := valid_keysymOf e hv
  have hs := splitOnC_notin '-' e.text (valid_nodash e hv)
  rw [decodeKey_nocaps]
  have : (if e.text.length = 1 then [e.text] else splitOnC '-' e.text) = [e.text] := by
    split <;> simp [hs]
  rw [this]
  simp [List.mapM_cons, hk]
  cases e.keysym <;> rfl

/-- the lone `-` is the minus key -/
theorem C04_decode_minus (up : Bool) : decodeKey false up ['-'] = some ['-'.toNat] := by
  simp [decodeKey, List.mapM_cons, C04_char]

theorem splitOnC_chord (es : List KeyElem) (hne : es ≠ []) (hv : ∀ e ∈ es, e.Valid) :
    splitOnC '-' (chordText es) = es.map KeyElem.text := by
  induction es with
  | nil => exact absurd rfl hne
  | cons e rest ih =>
    cases rest with
    | nil =>
      simp only [chordText, List.map]
      exact splitOnC_notin _ _ (valid_nodash e (hv e (by simp)))
    | cons e2 rest2 =>
      simp only [chordText]
      rw [splitOnC_append _ _ _ (valid_nodash e (hv e (by simp)))]
      have := ih (by simp) (fun x hx => hv x (by simp [hx]))
      rw [this]; simp

theorem chordText_len (es : List KeyElem) (hv : ∀ e ∈ es, e.Valid) : es.length ≤ (chordText es).length ∧ (2 ≤ es.length → 2 ≤ (chordText es).length) := by
  induction es with
  | nil => simp [chordText]
  | cons e rest ih =>
    cases rest with
    | nil =>
      have := text_len e (hv e (by simp))
      simp [chordText]; omega
    | cons e2 rest2 =>
      have h1 := text_len e (hv e (by simp))
      have h2 := ih (fun x hx => hv x (by simp [hx]))
      simp only [chordText, List.length_append, List.length_cons] at h2 ⊢
      omega

theorem mapM_map' {α β γ} (f : β → Option γ) (g : α → β) (l : List α) :
    (l.map g).mapM f = l.mapM (fun x => f (g x)) := by
  induction l with
  | nil => simp
  | cons x xs ih => simp [List.mapM_cons, ih]

/-- a chord decodes to the keysyms of its elements, left to right -/
theorem C04_decode_chord (up : Bool) (es : List KeyElem) (hlen : 2 ≤ es.length) (hv : ∀ e ∈ es, e.Valid) :
    decodeKey false up (chordText es) = es.mapM KeyElem.keysym := by
  have hl := (chordText_len es hv).2 hlen
  have hs := splitOnC_chord es (by intro h; simp [h] at hlen) hv
  rw [decodeKey_nocaps]
  rw [if_neg (by omega), hs, mapM_map']
  exact mapM_congr' _ _ _ (fun e he => valid_keysymOf e (hv e he))

/-- valid elements always have a keysym (so `mapM` above is `some`) -/
theorem C04_valid_keysym (e : KeyElem) (hv : e.Valid) : ∃ k, e.keysym = some k ∧ k < 4294967296 := by
  cases e with
  | name n =>
    simp only [Spec.KeyElem.Valid, List.mem_map] at hv
    obtain ⟨⟨n', v⟩, he, rfl⟩ := hv
    exact ⟨v, x11_find _ he, (x11_facts _ he).2.2.2⟩
  | char c =>
    refine ⟨c.toNat, rfl, ?_⟩
    have := UInt32.toNat_lt c.val
    simp only [Char.toNat]; omega

/-- a key that cannot be decoded raises before anything is written -/
theorem C04_reject (op : KeyOp) (fc up : Bool) (key : List Char) (hd : decodeKey fc up key = none) :
    keyOpWrites op fc up key = none := by
  simp [keyOpWrites, hd]

theorem wKeyEvent_eq (e : Nat × Bool) (h : e.1 < 4294967296) :
    wKeyEvent e.1 e.2 = some (Spec.keyEventBytes e) := by
  have : (0:Int) ≤ (e.1 : Int) ∧ (e.1 : Int) < 4294967296 := by omega
  simp [wKeyEvent, packI, this, Spec.keyEventBytes]

/-- key press: presses left to right, releases in reverse order; keydown only presses; keyup only releases;
    each event is exactly the 8-byte RFC KeyEvent -/
theorem C04_op_writes (op : KeyOp) (fc up : Bool) (key : List Char) (ks : List Nat)
    (hd : decodeKey fc up key = some ks) (hr : ∀ k ∈ ks, k < 4294967296) :
    keyOpWrites op fc up key = some ((match op with
      | .press => Spec.pressEvents ks | .down => Spec.downEvents ks | .up => Spec.upEvents ks).map Spec.keyEventBytes) := by
  simp only [keyOpWrites, hd, Option.bind_eq_bind, Option.bind_some]
  have : keyOpEvs op ks = (match op with
      | .press => Spec.pressEvents ks | .down => Spec.downEvents ks | .up => Spec.upEvents ks) := by
    cases op <;> rfl
  rw [this]
  apply mapM_some
  intro e he
  apply wKeyEvent_eq
  cases op <;> simp [Spec.pressEvents, Spec.downEvents, Spec.upEvents] at he <;> grind

/-- what a server parses from one event: a well-formed KeyEvent with that keysym and direction, then the rest -/
theorem C04_wire (e : Nat × Bool) (rest : Bytes) (h : e.1 < 4294967296) :
    parseOne (Spec.keyEventBytes e ++ rest) = some (.keyEvent (if e.2 then 1 else 0) e.1, rest) := by
  obtain ⟨k, d⟩ := e
  simp only [Spec.keyEventBytes, enc32, List.cons_append, List.nil_append, parseOne]
  simp only [be32, byteOf_toNat] at *
  cases d <;> simp <;> omega

theorem isInfix_single (c : Char) (l : List Char) : isInfixOf [c] l = l.contains c := by
  induction l with
  | nil => simp [isInfixOf]
  | cons x xs ih =>
    simp [isInfixOf, ih, List.isPrefixOf]
    grind

/-- forced caps wraps exactly the upper-case letters and the shifted symbols in Shift_L;
    `up` is the value of `str.isupper()` for the character -/
theorem C04_forcecaps (up : Bool) (c : Char) (hm : (up = true ∨ c ∈ Spec.shiftedUS) → c ≠ '-') :
    decodeKey true up [c] = some (Spec.capsKeys up c) := by
  simp only [decodeKey, Bool.true_and, isInfix_single, C04_special, Spec.capsKeys]
  by_cases hc : (up || Spec.shiftedUS.contains c) = true
  · have hne : c ≠ '-' := hm (by simpa using hc)
    have hshift : keysymOf ['s', 'h', 'i', 'f', 't'] = some Spec.XK_Shift_L := by decide
    have hlit : "shift-".toList = ['s', 'h', 'i', 'f', 't'] ++ ['-'] := by decide
    have hsplit : splitOnC '-' ("shift-".toList ++ [c]) = [['s', 'h', 'i', 'f', 't'], [c]] := by
      rw [hlit, List.append_assoc]
      show splitOnC '-' (['s', 'h', 'i', 'f', 't'] ++ '-' :: [c]) = _
      rw [splitOnC_append _ _ _ (by decide), splitOnC_notin _ _ (by simp; exact hne.symm)]
    simp only [hc, if_true, Option.bind_eq_bind, Option.bind_some]
    rw [if_neg (by simp), hsplit]
    simp [List.mapM_cons, hshift, C04_char]
  · simp only [hc, Bool.false_eq_true, if_false, Option.bind_eq_bind, Option.bind_some]
    simp [List.mapM_cons, C04_char]

theorem decode_char (c : Char) : decodeKey false false [c] = some [c.toNat] := by
  simp [decodeKey, List.mapM_cons, C04_char]

/-- typing a text: one press+release per character, in order (no forced caps) -/
theorem C04_type (text : List Char) :
    (typeKeys text).mapM (fun k => (decodeKey false false k).map keyPressEvs) =
      some (text.map fun c => [(c.toNat, true), (c.toNat, false)]) := by
  unfold typeKeys
  rw [mapM_map']
  apply mapM_some
  intro c _
  simp [decode_char, keyPressEvs]

theorem C04_type_flat (text : List Char) :
    ((typeKeys text).mapM (fun k => (decodeKey false false k).map keyPressEvs)).map List.flatten =
      some (Spec.typeEvents text) := by
  rw [C04_type]
  simp [Spec.typeEvents, List.flatMap]

/-- typefile: carriage returns are dropped, newline is Return, tab is Tab, everything else itself -/
theorem C04_typefile (content : List Char) :
    (typefileKeys content).mapM (decodeKey false false) =
      some ((content.filter (· ≠ '\r')).map fun c =>
        if c = '\n' then [Spec.XK_Return] else if c = '\t' then [Spec.XK_Tab] else [c.toNat]) := by
  unfold typefileKeys
  rw [mapM_map']
  apply mapM_some
  intro c _
  split
  · decide
  · split
    · decide
    · exact decode_char c

/-- non-vacuity / examples (tests, not the theorem) -/
example : decodeKey false false "ctrl-alt-del".toList = some [0xffe3, 0xffe9, 0xffff] := by decide
example : keyPressEvs [1, 2, 3] = [(1, true), (2, true), (3, true), (3, false), (2, false), (1, false)] := by decide
example : decodeKey true true ['A'] = some [0xffe1, 65] := by decide
example : decodeKey false false "ctrl--".toList = none := by decide

end Vnc
