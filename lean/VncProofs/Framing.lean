import VncModel.Rfb
/-!
# Framing constants: the model's `need` against the literal lengths in rfb.py's `self.expect(...)` calls

`Tables.EXPECT_CONST` is read off the SOURCE TEXT of rfb.py on every run (tools/extract_tables.py, `ast`): every call
`self.expect(self._handleX, <integer literal>, ...)` gives one entry.  The theorem below says that each of these
handlers stands for a phase of the model whose `need` is that very number, whatever the rest of the state is.  It is a
static tie between model and code that does not depend on any input being sampled; lengths that are computed
(`4 + self.bypp`, `(8 + self.bypp) * subrects`, ...) are covered by the correspondence run only.
-/
namespace Vnc

/-- handler of rfb.py ↦ the phase that stands for "this handler is the pending expectation" (arguments irrelevant) -/
def phaseOfHandler : String → Option Phase
  | "_handleAuth" => some .auth33
  | "_handleAuthFailed" => some .authFailedLen
  | "_handleColourMapEntries" => some .colourMap
  | "_handleConnFailed" => some .connFailed
  | "_handleConnection" => some .connection
  | "_handleDHAuth" => some .dhAuth
  | "_handleDecodeCopyrect" => some (.copyrect 0 0 0 0)
  | "_handleDecodeHextile" => some (.hextile none none 0 0 0 0 0 0)
  | "_handleDecodeZRLE" => some (.zrle 0 0 0 0)
  | "_handleFramebufferUpdate" => some .fbUpdate
  | "_handleNumberSecurityTypes" => some .numSecTypes
  | "_handleRectangle" => some .rectangle
  | "_handleServerCutText" => some .cutText
  | "_handleServerInit" => some .serverInit
  | "_handleVNCAuth" => some .vncAuth
  | "_handleVNCAuthResult" => some .authResult
  | _ => none

/-- the phases whose expected length is a constant -/
def constNeed : Phase → Option Nat
  | .numSecTypes => some 1
  | .auth33 => some 4
  | .connFailed => some 4
  | .vncAuth => some 16
  | .dhAuth => some 4
  | .authResult => some 4
  | .authFailedLen => some 4
  | .serverInit => some 24
  | .connection => some 1
  | .fbUpdate => some 3
  | .rectangle => some 12
  | .copyrect .. => some 4
  | .hextile .. => some 1
  | .zrle .. => some 4
  | .colourMap => some 5
  | .cutText => some 7
  | _ => none

theorem constNeed_sound (c : Core) (ph : Phase) (n : Nat) (h : constNeed ph = some n) : need ⟨c, ph⟩ = n := by
  cases ph <;> simp [constNeed] at h <;> simp [need, h]

/-- every literal length in the source is the model's length for that handler -/
theorem framing_constants :
    ∀ e ∈ Tables.EXPECT_CONST, ∃ ph, phaseOfHandler e.1 = some ph ∧ constNeed ph = some e.2 := by
  decide

/-- ... for every state of the protocol object -/
theorem framing_constants_need (c : Core) : ∀ e ∈ Tables.EXPECT_CONST, ∃ ph, phaseOfHandler e.1 = some ph ∧ need ⟨c, ph⟩ = e.2 := by
  intro e he
  obtain ⟨ph, h1, h2⟩ := framing_constants e he
  exact ⟨ph, h1, constNeed_sound c ph e.2 h2⟩

/-- the recording proxy's table of fixed message lengths is the one of RFC 6143 §7.5 (+ QEMU client message header) -/
theorem proxy_type_len : Tables.TYPE_LEN = [(0, 20), (2, 4), (3, 10), (4, 8), (5, 6), (6, 8), (255, 2)] := by
  decide

end Vnc
