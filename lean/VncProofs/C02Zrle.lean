import VncSpec.Zrle
import VncProofs.C02Hextile
import VncProofs.C02ZrleLemmas
/-!
# C02 (part C) — ZRLE: for every tiling and every sub-encoding choice per tile (raw / solid / packed palette of
2..16 with 1, 2 or 4 bits per index and rows padded to whole bytes / plain RLE / palette RLE of 2..127 colours, any
run lengths) the tile decoder reproduces exactly the pixels the encoder encoded.  zlib is a parameter: the statement
is about the inflated data, for every compressed representation.
-/
namespace Vnc
open Vnc.Spec

/-- run lengths decode: the wire form of `n ≥ 1` gives back `n` -/
theorem C02_runlen (n : Nat) (hn : 1 ≤ n) (rest : Bytes) (acc : Nat) :
    zRunLen ((runLenWire (n + 1) n ++ rest).length + 1) acc (runLenWire (n + 1) n ++ rest) = .ok (acc + n, rest) :=
  runLen_self n hn rest acc _ (by rw [List.length_append]; omega)

/-- one packed row decodes to its indices (most significant bits first, padding ignored) - stated through the whole
    tile below; this is the per-tile statement: the decoder on the tile's wire form yields the tile's paint
    instruction and leaves exactly the rest -/
theorem C02_ztile (cp : Nat) (pad : Bool) (hcp : 0 < cp) (x y w h : Nat) (tx ty : Nat) (t : ZTile) (rest : Bytes)
    (htx : x ≤ tx ∧ tx < x + w) (hty : y ≤ ty ∧ ty < y + h)
    (hwf : t.WF cp (min 64 (x + w - tx)) (min 64 (y + h - ty)))
    (fuel : Nat) (hfuel : (t.wire (min 64 (x + w - tx)) (min 64 (y + h - ty)) ++ rest).length < fuel) (outs : List Out) :
    zTiles cp pad x y w h fuel tx ty (t.wire (min 64 (x + w - tx)) (min 64 (y + h - ty)) ++ rest) outs =
      zTiles cp pad x y w h (fuel - 1)
        (if (tx : Int) + 64 ≥ (x : Int) + w then (x : Int) else (tx : Int) + 64)
        (if (tx : Int) + 64 ≥ (x : Int) + w then (ty : Int) + 64 else (ty : Int))
        rest (outs ++ [t.paint pad tx ty (min 64 (x + w - tx)) (min 64 (y + h - ty))]) := by
  have _ := hcp
  have e1 := twI x w tx htx
  have e2 := twI y h ty hty
  have hTW : 0 < min 64 (x + w - tx) := by omega
  have hTH : 0 < min 64 (y + h - ty) := by omega
  cases fuel with
  | zero => omega
  | succ k =>
    have hstep := fun (sub : UInt8) (d0 : Bytes) (o : List Out) (d' : Bytes)
        (hr : zTileBody cp pad tx ty (min 64 (x + w - tx) : Nat) (min 64 (y + h - ty) : Nat) sub d0 = .ok (o, d')) =>
      zTiles_step cp pad x y w h k tx ty sub d0 outs o d' (by rw [e1, e2]; exact hr)
    rw [Nat.add_sub_cancel]
    cases t with
    | raw px =>
      have hw : (ZTile.raw px).wire (min 64 (x + w - tx)) (min 64 (y + h - ty)) ++ rest = 0 :: (px.flatten ++ rest) := by
        simp [ZTile.wire]
      rw [hw]
      exact hstep _ _ _ _ (tile_raw cp pad tx ty _ _ px rest hwf)
    | solid c =>
      have hw : (ZTile.solid c).wire (min 64 (x + w - tx)) (min 64 (y + h - ty)) ++ rest = 1 :: (c ++ rest) := by
        simp [ZTile.wire]
      rw [hw]
      exact hstep _ _ _ _ (tile_solid cp pad tx ty _ _ c rest hwf)
    | packed pal idx =>
      have hw : (ZTile.packed pal idx).wire (min 64 (x + w - tx)) (min 64 (y + h - ty)) ++ rest =
          byteOf pal.length :: (pal.flatten ++ ((rowsOf (min 64 (x + w - tx)) (min 64 (y + h - ty)) idx).flatMap
            (packRow (bitsPer pal.length) 0 0) ++ rest)) := by
        simp [ZTile.wire]
      rw [hw]
      exact hstep _ _ _ _ (tile_packed cp pad tx ty _ _ hTW hTH pal idx rest hwf)
    | rle runs =>
      have hw : (ZTile.rle runs).wire (min 64 (x + w - tx)) (min 64 (y + h - ty)) ++ rest =
          128 :: ((runs.flatMap fun r => r.1 ++ runLenWire (r.2 + 1) r.2) ++ rest) := by
        simp [ZTile.wire]
      rw [hw]
      exact hstep _ _ _ _ (tile_rle cp pad tx ty _ _ runs rest hwf)
    | prle pal runs =>
      have hw : (ZTile.prle pal runs).wire (min 64 (x + w - tx)) (min 64 (y + h - ty)) ++ rest =
          byteOf (128 + pal.length) :: (pal.flatten ++ ((runs.flatMap fun r => if r.2 = 1 then [byteOf r.1] else
            byteOf (128 + r.1) :: runLenWire (r.2 + 1) r.2) ++ rest)) := by
        simp [ZTile.wire]
      rw [hw]
      exact hstep _ _ _ _ (tile_prle cp pad tx ty _ _ pal runs rest hwf)


theorem ZTile.wire_pos (t : ZTile) (tw th : Nat) : 1 ≤ (t.wire tw th).length := by
  cases t <;> simp [ZTile.wire] <;> omega

theorem zTiles_nil (cp : Nat) (pad : Bool) (x y w h fuel : Nat) (hf : 0 < fuel) (tx ty : Int) (outs : List Out) :
    zTiles cp pad x y w h fuel tx ty [] outs = (outs, none) := by
  cases fuel with
  | zero => omega
  | succ k => simp [zTiles]

theorem z_row (cp : Nat) (pad : Bool) (hcp : 0 < cp) (x y w h ty : Nat) (hty : y ≤ ty ∧ ty < y + h) :
    ∀ (ts : List ZTile) (c fuel : Nat) (outs : List Out) (rest : Bytes), ts ≠ [] →
      64 * (c + ts.length - 1) < w → w ≤ 64 * (c + ts.length) →
      zRowWF cp w (min 64 (y + h - ty)) c ts →
      (zRowWire w (min 64 (y + h - ty)) c ts ++ rest).length < fuel →
      ∃ fuel', rest.length < fuel' ∧
        zTiles cp pad x y w h fuel ((x + 64 * c : Nat) : Int) (ty : Int)
            (zRowWire w (min 64 (y + h - ty)) c ts ++ rest) outs =
          zTiles cp pad x y w h fuel' (x : Int) ((ty : Int) + 64) rest
            (outs ++ zRowPaint pad x w ty (min 64 (y + h - ty)) c ts) := by
  intro ts
  induction ts with
  | nil => intro c fuel outs rest hne; exact absurd rfl hne
  | cons t ts ih =>
    intro c fuel outs rest _ hlo hhi hwf hfuel
    obtain ⟨hwf1, hwf2⟩ := hwf
    simp only [List.length_cons] at hlo hhi
    have e : x + w - (x + 64 * c) = w - 64 * c := by omega
    have hpos := ZTile.wire_pos t (min 64 (w - 64 * c)) (min 64 (y + h - ty))
    simp only [zRowWire, zRowPaint, List.append_assoc, List.length_append] at hfuel ⊢
    have ht := C02_ztile cp pad hcp x y w h (x + 64 * c) ty t (zRowWire w (min 64 (y + h - ty)) (c + 1) ts ++ rest)
      (by omega) hty (by rw [e]; exact hwf1) fuel (by rw [e]; simp only [List.length_append]; omega) outs
    rw [e] at ht
    rw [ht]
    by_cases hts : ts = []
    · subst hts
      simp only [List.length_nil] at hhi
      have hc : ((x + 64 * c : Nat) : Int) + 64 ≥ (x : Int) + w := by omega
      simp only [if_pos hc, zRowWire, zRowPaint, List.nil_append, List.length_nil] at hfuel ⊢
      exact ⟨fuel - 1, by omega, rfl⟩
    · have hpos : 0 < ts.length := List.length_pos_iff.mpr hts
      have hc : ¬ ((x + 64 * c : Nat) : Int) + 64 ≥ (x : Int) + w := by omega
      have e2 : ((x + 64 * c : Nat) : Int) + 64 = ((x + 64 * (c + 1) : Nat) : Int) := by omega
      rw [if_neg hc, if_neg hc, e2]
      obtain ⟨fuel', hf', heq⟩ := ih (c + 1) (fuel - 1)
        (outs ++ [t.paint pad (x + 64 * c) ty (min 64 (w - 64 * c)) (min 64 (y + h - ty))]) rest hts
        (by omega) (by omega) hwf2 (by simp only [List.length_append]; omega)
      refine ⟨fuel', hf', ?_⟩
      rw [heq, List.append_assoc]
      rfl

theorem z_rows (cp : Nat) (pad : Bool) (hcp : 0 < cp) (x y w h : Nat) :
    ∀ (rows : List (List ZTile)) (r fuel : Nat) (outs : List Out), rows ≠ [] →
      64 * (r + rows.length - 1) < h → h ≤ 64 * (r + rows.length) →
      (∀ row ∈ rows, 64 * (row.length - 1) < w ∧ w ≤ 64 * row.length) →
      zRowsWF cp w h r rows → (zRowsWire w h r rows).length < fuel →
      zTiles cp pad x y w h fuel (x : Int) ((y + 64 * r : Nat) : Int) (zRowsWire w h r rows) outs =
        (outs ++ zRowsPaint pad x y w h r rows, none) := by
  intro rows
  induction rows with
  | nil => intro r fuel outs hne; exact absurd rfl hne
  | cons row rows ih =>
    intro r fuel outs _ hlo hhi hrowlen hwf hfuel
    obtain ⟨hwf1, hwf2⟩ := hwf
    obtain ⟨hl1, hl2⟩ := hrowlen row (by simp)
    simp only [List.length_cons] at hlo hhi
    have hne : row ≠ [] := by
      intro h0; subst h0; simp at hl2; omega
    have e : y + h - (y + 64 * r) = h - 64 * r := by omega
    simp only [zRowsWire, zRowsPaint] at hfuel ⊢
    obtain ⟨fuel', hf', heq⟩ := z_row cp pad hcp x y w h (y + 64 * r) (by omega) row 0 fuel outs
      (zRowsWire w h (r + 1) rows) hne (by simpa using hl1) (by simpa using hl2) (by rw [e]; exact hwf1)
      (by rw [e]; exact hfuel)
    rw [e] at heq
    simp only [Nat.mul_zero, Nat.add_zero] at heq
    rw [heq]
    by_cases hrs : rows = []
    · subst hrs
      simp only [zRowsWire, zRowsPaint, List.append_nil]
      exact zTiles_nil cp pad x y w h fuel' (by omega) _ _ _
    · have hpos : 0 < rows.length := List.length_pos_iff.mpr hrs
      have e2 : ((y + 64 * r : Nat) : Int) + 64 = ((y + 64 * (r + 1) : Nat) : Int) := by omega
      rw [e2, ih (r + 1) fuel' _ hrs (by omega) (by omega) (fun x hx => hrowlen x (by simp [hx])) hwf2 hf',
        List.append_assoc]

/-- **all tiles of a rectangle** -/
theorem C02_ztiles (cp : Nat) (pad : Bool) (hcp : 0 < cp) (x y w h : Nat) (rows : List (List ZTile))
    (ht : ZTiling w h rows) (hwf : zRowsWF cp w h 0 rows) (fuel : Nat) (hfuel : (zRowsWire w h 0 rows).length < fuel) :
    zTiles cp pad x y w h fuel x y (zRowsWire w h 0 rows) [] = (zRowsPaint pad x y w h 0 rows, none) := by
  obtain ⟨hw, hh, hlo, hhi, hrows⟩ := ht
  have hne : rows ≠ [] := by
    intro h0; subst h0; simp at hhi; omega
  have := z_rows cp pad hcp x y w h rows 0 fuel [] hne (by simpa using hlo) (by simpa using hhi) hrows hwf hfuel
  simpa using this


theorem s32_sixteen : s32 (beNat (encS32 16)) = 16 := by decide

theorem hdr_zrle (c : Core) (r : Rct) (hr : r.WF) (hk : c.rectangles ≠ 0) :
    stepCore ⟨c, .rectangle⟩ (rectHeader r 16) = (⟨coreHdr c r, .zrle r.x r.y r.w r.h⟩, []) := by
  rw [stepCore_rectangle c r hr 16 s32_sixteen]
  simp [rectDispatch, hk, go, coreHdr, Tables.ENC_RAW, Tables.ENC_COPY_RECTANGLE, Tables.ENC_PSEUDO_LAST_RECT,
    Tables.ENC_HEXTILE, Tables.ENC_CORRE, Tables.ENC_RRE, Tables.ENC_ZRLE]

theorem step_zrle (c : Core) (x y w h n : Nat) (hn : n < 4294967296) :
    stepCore ⟨c, .zrle x y w h⟩ (enc32 n) = (⟨c, .zrleData n x y w h⟩, []) := by
  simp only [stepCore, beNat_enc32 _ hn, go]

theorem step_zrleData (c : Core) (n x y w h : Nat) (data : Bytes) (zq : List (Option Bytes)) (b : Bytes)
    (outs : List Out) (hz : c.zq = some data :: zq)
    (ht : zTiles (if (c.pf.bpp == 32 && decide (c.pf.depth ≤ 24)) = true then 3 else c.pf.bypp)
      (c.pf.bpp == 32 && decide (c.pf.depth ≤ 24)) x y w h (data.length + 1) x y data [] = (outs, none)) :
    stepCore ⟨c, .zrleData n x y w h⟩ b = doConnection { c with zq := zq } outs := by
  simp only [stepCore]
  rw [hz]
  simp only []
  rw [ht]

theorem ok_paint (pad : Bool) (tx ty tw th : Nat) (t : ZTile) : okOut (t.paint pad tx ty tw th) = true := by
  cases t <;> rfl

theorem ok_zRowPaint (pad : Bool) (x w ty th : Nat) : ∀ (ts : List ZTile) (c : Nat),
    ∀ o ∈ zRowPaint pad x w ty th c ts, okOut o = true := by
  intro ts
  induction ts with
  | nil => intro c o ho; simp [zRowPaint] at ho
  | cons t ts ih =>
    intro c o ho
    simp only [zRowPaint, List.mem_cons] at ho
    rcases ho with rfl | ho
    · exact ok_paint ..
    · exact ih _ o ho

theorem ok_zRowsPaint (pad : Bool) (x y w h : Nat) : ∀ (rows : List (List ZTile)) (r : Nat),
    ∀ o ∈ zRowsPaint pad x y w h r rows, okOut o = true := by
  intro rows
  induction rows with
  | nil => intro r o ho; simp [zRowsPaint] at ho
  | cons row rows ih =>
    intro r o ho
    simp only [zRowsPaint, List.mem_append] at ho
    rcases ho with ho | ho
    · exact ok_zRowPaint _ _ _ _ _ _ _ o ho
    · exact ih _ o ho

/-- **a whole ZRLE rectangle through the protocol machine**: whatever the compressed bytes are, if zlib inflates
    them to the specified tile data, the client consumes exactly header + length + compressed block, emits exactly
    the specified paint instructions and continues with what follows -/
theorem C02_zrle (c : Core) (hbypp : c.pf.bypp ≠ 0) (r : Rct) (rows : List (List ZTile)) (hr : r.WF)
    (ht : ZTiling r.w r.h rows)
    (hwf : zRowsWF (if c.pf.bpp == 32 && decide (c.pf.depth ≤ 24) then 3 else c.pf.bypp) r.w r.h 0 rows)
    (hk : c.rectangles ≠ 0) (comp : Bytes) (hcl : comp.length < 4294967296) (zq : List (Option Bytes))
    (hz : c.zq = some (zRowsWire r.w r.h 0 rows) :: zq)
    (rest : Bytes) (o : List Out) (s' : RSt) (b' : Bytes)
    (hcont : Runs rfbMachine (doConnection { coreAfterPlain c r with zq := zq } []).1 rest o s' b') :
    Runs rfbMachine ⟨c, .rectangle⟩ (rectHeader r 16 ++ enc32 comp.length ++ comp ++ rest)
      (zRowsPaint (c.pf.bpp == 32 && decide (c.pf.depth ≤ 24)) r.x r.y r.w r.h 0 rows ++
        (doConnection { coreAfterPlain c r with zq := zq } []).2 ++ o) s' b' := by
  have hcp : 0 < (if (c.pf.bpp == 32 && decide (c.pf.depth ≤ 24)) = true then 3 else c.pf.bypp) := by
    split <;> omega
  refine runs_core (rectHeader r 16) (enc32 comp.length ++ comp ++ rest) _ [] _ (by simp) rfl rfl
    (hdr_zrle c r hr hk) (by simp) rfl ?_
  refine runs_core (enc32 comp.length) (comp ++ rest) ⟨coreHdr c r, .zrleData comp.length r.x r.y r.w r.h⟩ [] _
    (by simp) rfl rfl (step_zrle _ _ _ _ _ _ hcl) (by simp) rfl ?_
  refine runs_core_dc comp rest { coreAfterPlain c r with zq := zq }
    (zRowsPaint (c.pf.bpp == 32 && decide (c.pf.depth ≤ 24)) r.x r.y r.w r.h 0 rows) o rfl rfl rfl ?_
    (ok_zRowsPaint _ _ _ _ _ _ _) rfl hcont
  exact step_zrleData (coreHdr c r) comp.length r.x r.y r.w r.h (zRowsWire r.w r.h 0 rows) zq comp _ hz
    (C02_ztiles _ _ hcp r.x r.y r.w r.h rows ht hwf _ (by omega))

/-- non-vacuity: a 65×3 rectangle with a 2-colour packed tile (rows of 64 pixels = 8 bytes) and a 1×3 tile with a
    padded row, plus RLE tiles -/
def zc (n : Nat) : Bytes := [UInt8.ofNat n, 0, 0]
def exZ : List (List ZTile) := [[.packed [zc 1, zc 2] ((List.range 192).map (· % 2)), .packed [zc 3, zc 4] [1, 0, 1]]]
example : ZTiling 65 3 exZ ∧ zRowsWF 3 65 3 0 exZ := by
  refine ⟨by simp [ZTiling, exZ], ?_⟩
  simp [zRowsWF, zRowWF, exZ, ZTile.WF, zc]
  omega

end Vnc
