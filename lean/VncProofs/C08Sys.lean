import VncProofs.System
import VncProofs.C08
import VncSpec.Order
/-!
# C08 on every run of the whole client

`C08_advance_markers` / `C08_advance_writes` / `C08_closes_last` are about one call of `advance` (the chain running until it
suspends).  A script is many such calls, resumed by timers and by completed updates, interleaved in any order with server
data the script never asked for.  Here the discipline is stated over the COMPLETE history of application actions of ANY run
of the whole client (`sysRun`: any received chunks, any timer firings, in any order), from the moment the script is handed
to the factory:

* commands start in the order written (0, 1, 2, ...), a command starts only when its predecessor has finished;
* every byte the script writes, every image it saves and every failure it reports lies between the start of a command and
  its finish - no byte of a later command before the earlier one has finished, asynchronous commands included;
* vncdo closes the connection only while no command is in progress, and after that the script does nothing at all.
-/
namespace Vnc

/-- `scriptOrdered`, and moreover a `close` is only accepted when exactly `T` commands have been started -/
def ordT (T : Nat) : Option Nat → Nat → List Act → Bool
  | _, _, [] => true
  | cur, n, a :: r =>
    match a, cur with
    | .start i, none => i == n && ordT T (some i) (n + 1) r
    | .start _, some _ => false
    | .finish i, some c => i == c && ordT T none n r
    | .finish _, none => false
    | .write _, some c => ordT T (some c) n r
    | .write _, none => false
    | .save .., some c => ordT T (some c) n r
    | .save .., none => false
    | .chainFailed _, some c => ordT T (some c) n r
    | .chainFailed _, none => false
    | .close, none => r.isEmpty && n == T
    | .close, some _ => false

theorem ordT_ordered (T : Nat) (l : List Act) : ∀ (cur : Option Nat) (n : Nat),
    ordT T cur n l = true → scriptOrdered cur n l = true := by
  induction l with
  | nil => intro cur n _; rfl
  | cons a r ih =>
    intro cur n h
    cases a <;> cases cur <;> simp only [ordT, scriptOrdered, Bool.and_eq_true, Bool.false_eq_true] at h ⊢
    all_goals first
      | exact ih _ _ h
      | exact ⟨h.1, ih _ _ h.2⟩
      | exact h.1

/-- what an accepted history that contains a close says about the number of markers in it -/
theorem ordT_counts (T : Nat) (ps pf : Act → Bool)
    (hps : ∀ a, ps a = match a with | .start _ => true | _ => false)
    (hpf : ∀ a, pf a = match a with | .finish _ => true | _ => false) (l : List Act) :
    ∀ (cur : Option Nat) (n f : Nat), (cur = none → f = n) → (cur ≠ none → f + 1 = n) →
    ordT T cur n l = true → Act.close ∈ l →
    n + (l.filter ps).length = T ∧ f + (l.filter pf).length = T := by
  induction l with
  | nil => intro cur n f _ _ _ hc; cases hc
  | cons a r ih =>
    intro cur n f h1 h2 h hc
    cases a <;> cases cur <;> simp only [ordT, Bool.and_eq_true, Bool.false_eq_true] at h
    case start.none i =>
      have hc' : Act.close ∈ r := by simpa using hc
      have := ih (some i) (n + 1) f (by simp) (by intro _; rw [h1 rfl]) h.2 hc'
      simp only [List.filter_cons, hps, hpf, ↓reduceIte, List.length_cons]
      simp only [Bool.false_eq_true, ↓reduceIte]
      omega
    case finish.some i c =>
      have hc' : Act.close ∈ r := by simpa using hc
      have := ih none n (f + 1) (by intro _; exact h2 (by simp)) (by simp) h.2 hc'
      simp only [List.filter_cons, hps, hpf, ↓reduceIte, List.length_cons]
      simp only [Bool.false_eq_true, ↓reduceIte]
      omega
    case close.none =>
      have hr : r = [] := by simpa using h.1
      subst hr
      have hn : n = T := by simpa using h.2
      simp only [List.filter_cons, hps, hpf, Bool.false_eq_true, ↓reduceIte, List.filter_nil, List.length_nil]
      have := h1 rfl
      omega
    all_goals
      have hc' : Act.close ∈ r := by simpa using hc
      have := ih _ n f h1 h2 h hc'
      simp only [List.filter_cons, hps, hpf, Bool.false_eq_true, ↓reduceIte]
      exact this

theorem ordT_AllW (T : Nat) {ws : List Act} (h : AllW ws) (c n : Nat) (rest : List Act) :
    ordT T (some c) n (ws ++ rest) = ordT T (some c) n rest := by
  induction ws with
  | nil => rfl
  | cons x r ih =>
    obtain ⟨b, rfl⟩ := h x (List.mem_cons_self ..)
    simp only [List.cons_append, ordT]
    exact ih fun y hy => h y (List.mem_cons_of_mem _ hy)

/-! ## the invariant: the state of the chain determines how the rest of the history is judged -/

/-- `k` judges the actions still to come; `Tr T a k`: with the application in state `a`, judging the future with `k` is
    judging it with the checker in the state that corresponds to `a` (command `a.idx` in progress or not), or - after
    vncdo's close - demanding that nothing follows -/
def Tr (T : Nat) (a : App) (k : List Act → Bool) : Prop :=
  match a.chain with
  | .notStarted => a.waiter = none ∧ a.idx + a.cmds.length = T ∧ ∀ rest, k rest = ordT T none a.idx rest
  | .waitTimer _ => a.waiter = none ∧ a.idx + 1 + a.cmds.length = T ∧ ∀ rest, k rest = ordT T (some a.idx) (a.idx + 1) rest
  | .waitDrag .. => a.waiter = none ∧ a.idx + 1 + a.cmds.length = T ∧ ∀ rest, k rest = ordT T (some a.idx) (a.idx + 1) rest
  | .failed _ => a.waiter = none ∧ a.idx + 1 + a.cmds.length = T ∧ ∀ rest, k rest = ordT T (some a.idx) (a.idx + 1) rest
  | .waitCommit => a.idx + 1 + a.cmds.length = T ∧ ∀ rest, k rest = ordT T (some a.idx) (a.idx + 1) rest
  | .finished => a.waiter = none ∧ ∀ rest, k rest = rest.isEmpty
  | .running => False

theorem Tr_congr {T : Nat} {a : App} {k k' : List Act → Bool} (h : ∀ rest, k' rest = k rest) (ht : Tr T a k) : Tr T a k' := by
  have : k' = k := funext h
  rw [this]; exact ht

theorem Tr_frame {T : Nat} {a a' : App} {k : List Act → Bool} (h1 : a'.chain = a.chain) (h2 : a'.waiter = a.waiter)
    (h3 : a'.idx = a.idx) (h4 : a'.cmds = a.cmds) (ht : Tr T a k) : Tr T a' k := by
  unfold Tr at ht ⊢
  rw [h1, h2, h3, h4]; exact ht

theorem Tr_nil {T : Nat} {a : App} {k : List Act → Bool} (ht : Tr T a k) : k [] = true := by
  unfold Tr at ht
  split at ht
  · rw [ht.2.2]; rfl
  · rw [ht.2.2]; rfl
  · rw [ht.2.2]; rfl
  · rw [ht.2.2]; rfl
  · rw [ht.2]; rfl
  · rw [ht.2]; rfl
  · exact ht.elim

/-- a pending waiter means the chain is waiting for it -/
theorem Tr_waiter {T : Nat} {a : App} {k : List Act → Bool} (ht : Tr T a k) (w : Waiter) (hw : a.waiter = some w) :
    a.chain = .waitCommit ∧ a.idx + 1 + a.cmds.length = T ∧ ∀ rest, k rest = ordT T (some a.idx) (a.idx + 1) rest := by
  unfold Tr at ht
  split at ht
  · rw [hw] at ht; cases ht.1
  · rw [hw] at ht; cases ht.1
  · rw [hw] at ht; cases ht.1
  · rw [hw] at ht; cases ht.1
  · next hc => exact ⟨hc, ht⟩
  · rw [hw] at ht; cases ht.1
  · exact ht.elim

/-- the judgement while command `a.idx` is in progress and the chain is in a state other than not-started / finished -/
theorem Tr_mid {T : Nat} {a : App} {k : List Act → Bool} (hw : a.waiter = none) (hT : a.idx + 1 + a.cmds.length = T)
    (hk : ∀ rest, k rest = ordT T (some a.idx) (a.idx + 1) rest)
    (hc : (∃ i, a.chain = .waitTimer i) ∨ (∃ i p x y, a.chain = .waitDrag i p x y) ∨ (∃ c, a.chain = .failed c) ∨
      a.chain = .waitCommit) : Tr T a k := by
  unfold Tr
  rcases hc with ⟨i, h⟩ | ⟨i, p, x, y, h⟩ | ⟨c, h⟩ | h <;> rw [h]
  · exact ⟨hw, hT, hk⟩
  · exact ⟨hw, hT, hk⟩
  · exact ⟨hw, hT, hk⟩
  · exact ⟨hT, hk⟩

/-! ## `startCmd` touches the waiter only when it suspends the chain on it -/

def WFrame (a : App) (x : App × List Act × Susp) : Prop := x.2.2 = .commit ∨ x.1.waiter = a.waiter

theorem ptrActs_eq {a a' : App} {op : PtrOp} {w : List Act} (h : ptrActs a op = some (a', w)) :
    a' = { a with ptr := (ptrStep a.ptr op).1 } ∧ AllW w := by
  unfold ptrActs at h
  rcases Option.map_eq_some_iff.1 h with ⟨ws, _, h2⟩
  simp only [Prod.mk.injEq] at h2
  rcases h2 with ⟨rfl, rfl⟩
  exact ⟨rfl, AllW_map ws⟩

theorem WFrame_ptrActs {a a' : App} {op : PtrOp} {w : List Act} (s : Susp) (h : ptrActs a op = some (a', w)) :
    WFrame a (a', w, s) := by
  rw [(ptrActs_eq h).1]; exact Or.inr rfl

theorem expectCompare_cases (a : App) (core : Core) (screen : Option Img) (box : Int × Int × Int × Int) (rms : Word)
    (expected : List Nat) :
    expectCompare a core screen box rms expected = (a, [], true) ∨
    expectCompare a core screen box rms expected =
      ({ a with waiter := some (.expect box rms expected) }, requestAll core screen.isSome, false) := by
  have key : ∀ (m : Bool) (x : App × List Act × Bool),
      x = (if m = true then (a, [], true)
        else ({ a with waiter := some (.expect box rms expected) }, requestAll core screen.isSome, false)) →
      x = (a, [], true) ∨
      x = ({ a with waiter := some (.expect box rms expected) }, requestAll core screen.isSome, false) := by
    intro m x hx
    cases m
    · right; simpa using hx
    · left; simpa using hx
  exact key _ _ rfl

theorem WFrame_expect (a : App) (core : Core) (screen : Option Img) (box : Int × Int × Int × Int) (rms : Word)
    (expected : List Nat) :
    WFrame a ((expectCompare a core screen box rms expected).1, (expectCompare a core screen box rms expected).2.1,
      if (expectCompare a core screen box rms expected).2.2 = true then Susp.cont else Susp.commit) := by
  rcases expectCompare_cases a core screen box rms expected with h | h <;> rw [h]
  · exact Or.inr rfl
  · exact Or.inl rfl

theorem startCmd_wframe (a : App) (core : Core) (scr : Option Img) (c : Cmd) : WFrame a (startCmd a core scr c) := by
  cases c <;> delta startCmd <;> dsimp only
  case keyPress => split <;> exact Or.inr rfl
  case keyDown => split <;> exact Or.inr rfl
  case keyUp => split <;> exact Or.inr rfl
  case mouseMove =>
    split
    · next a' w h => exact WFrame_ptrActs _ h
    · exact Or.inr rfl
  case mousePress =>
    split
    · exact Or.inr rfl
    · split
      · next a' w h => exact WFrame_ptrActs _ h
      · exact Or.inr rfl
  case mouseDown =>
    split
    · exact Or.inr rfl
    · split
      · next a' w h => exact WFrame_ptrActs _ h
      · exact Or.inr rfl
  case mouseUp =>
    split
    · exact Or.inr rfl
    · split
      · next a' w h => exact WFrame_ptrActs _ h
      · exact Or.inr rfl
  case mouseDrag x y =>
    split
    · split
      · next a' w h => exact WFrame_ptrActs _ h
      · exact Or.inr rfl
    · split
      · exact Or.inr rfl
      · next a' w h =>
        rw [(ptrActs_eq h).1]; exact Or.inr rfl
  case pauseArg => exact Or.inr rfl
  case pauseDelay => exact Or.inr rfl
  case paste => split <;> exact Or.inr rfl
  case captureScreen => exact Or.inl rfl
  case captureRegion => exact Or.inl rfl
  case expectScreen =>
    split
    · exact Or.inr rfl
    · exact WFrame_expect _ _ _ _ _ _
  case expectRegion =>
    split
    · exact Or.inr rfl
    · exact WFrame_expect _ _ _ _ _ _

/-! ## the chain running until it suspends -/

theorem advance_tr (T : Nat) (core : Core) (screen : Option Img) (fuel : Nat) (a : App) (hw : a.waiter = none)
    (hf : a.cmds.length < fuel) (hT : a.idx + a.cmds.length = T) :
    Tr T (advance core screen fuel a).1 (fun rest => ordT T none a.idx ((advance core screen fuel a).2 ++ rest)) := by
  induction fuel generalizing a with
  | zero => omega
  | succ fuel ih =>
    rw [advance]
    split
    · next hc =>
      unfold Tr
      dsimp only
      refine ⟨hw, fun rest => ?_⟩
      rw [hc] at hT
      simp only [List.length_nil, Nat.add_zero] at hT
      simp [ordT, hT]
    · next c rest hc =>
      have hfr := startCmd_frame { a with cmds := rest } core screen c
      have hwf := startCmd_wframe { a with cmds := rest } core screen c
      generalize startCmd { a with cmds := rest } core screen c = r at hfr hwf ⊢
      obtain ⟨a1, ws, s⟩ := r
      obtain ⟨h1, h2, h3, h4⟩ := hfr
      dsimp only [WFrame] at h1 h2 h3 h4 hwf ⊢
      rw [hc] at hT hf
      simp only [List.length_cons] at hT hf
      have hstart : ∀ l, ordT T none a.idx ([Act.start a.idx] ++ ws ++ l) = ordT T (some a.idx) (a.idx + 1) l := by
        intro l
        simp only [List.cons_append, List.nil_append, ordT, beq_self_eq_true, Bool.true_and]
        exact ordT_AllW T h4 _ _ _
      cases s <;> dsimp only
      case cont =>
        have hw1 : a1.waiter = none := by
          rcases hwf with h | h
          · cases h
          · rw [h]; exact hw
        have := ih { a1 with idx := a.idx + 1, chain := ChainSt.running } hw1 (by dsimp only; rw [h1]; omega)
          (by dsimp only; rw [h1]; omega)
        refine Tr_congr (fun l => ?_) this
        dsimp only
        rw [List.append_assoc, List.append_assoc, hstart]
        simp [ordT]
      case commit =>
        unfold Tr
        dsimp only
        refine ⟨by rw [h1, h2]; omega, fun l => ?_⟩
        rw [h2]; exact hstart l
      all_goals
        have hw1 : a1.waiter = none := by
          rcases hwf with h | h
          · cases h
          · rw [h]; exact hw
        unfold Tr
        dsimp only
        refine ⟨hw1, by rw [h1, h2]; omega, fun l => ?_⟩
        rw [h2]
        first
          | exact hstart l
          | (rw [List.append_assoc, hstart]; rfl)

theorem resume_tr (T : Nat) (core : Core) (screen : Option Img) (a : App) (hw : a.waiter = none)
    (hT : a.idx + 1 + a.cmds.length = T) :
    Tr T (resume core screen a).1
      (fun rest => ordT T (some a.idx) (a.idx + 1) ((resume core screen a).2 ++ rest)) := by
  unfold resume
  dsimp only
  have := advance_tr T core screen (a.cmds.length + 1) { a with idx := a.idx + 1, chain := ChainSt.running } hw
    (by dsimp only; omega) (by dsimp only; omega)
  refine Tr_congr (fun _ => ?_) this
  simp [ordT]

/-- resuming from any judgement that is "command `a.idx` in progress" -/
theorem resume_tr' (T : Nat) (core : Core) (screen : Option Img) (a : App) (k : List Act → Bool) (hw : a.waiter = none)
    (hT : a.idx + 1 + a.cmds.length = T) (hk : ∀ rest, k rest = ordT T (some a.idx) (a.idx + 1) rest) :
    Tr T (resume core screen a).1 (fun rest => k ((resume core screen a).2 ++ rest)) :=
  Tr_congr (fun _ => hk _) (resume_tr T core screen a hw hT)

/-! ## the three reactions of the application -/

theorem onConnected_tr (T : Nat) (core : Core) (screen : Option Img) (a : App) (k : List Act → Bool) (h : Tr T a k) :
    Tr T (onConnected core screen a).1 (fun rest => k ((onConnected core screen a).2 ++ rest)) := by
  unfold onConnected
  split
  · next hc =>
    unfold Tr at h
    rw [hc] at h
    obtain ⟨hw, hT, hk⟩ := h
    have := advance_tr T core screen (a.cmds.length + 1) { a with chain := ChainSt.running } hw
      (by dsimp only; omega) hT
    exact Tr_congr (fun l => hk _) this
  · exact h

theorem onCommit_tr (T : Nat) (core : Core) (screen : Option Img) (a : App) (k : List Act → Bool) (h : Tr T a k) :
    Tr T (onCommit core screen a).1 (fun rest => k ((onCommit core screen a).2 ++ rest)) := by
  cases hw : a.waiter with
  | none =>
    have : onCommit core screen a = (a, []) := by unfold onCommit; rw [hw]
    rw [this]; exact h
  | some w =>
    obtain ⟨hc, hT, hk⟩ := Tr_waiter h w hw
    have hmid : ∀ (a' : App) (ws : List Act), a'.chain = .waitCommit → a'.idx = a.idx → a'.cmds = a.cmds → AllW ws →
        Tr T a' (fun rest => k (ws ++ rest)) := by
      intro a' ws e1 e2 e3 e4
      unfold Tr
      rw [e1]
      dsimp only
      refine ⟨by rw [e2, e3]; exact hT, fun l => ?_⟩
      rw [hk, e2]; exact ordT_AllW T e4 _ _ _
    unfold onCommit
    rw [hw]
    dsimp only
    cases w with
    | plain => exact hmid _ [] hc rfl rfl AllW_nil
    | capture f box =>
      dsimp only
      cases screen with
      | none =>
        dsimp only
        have hA := requestAll_AllW core false
        generalize requestAll core false = ws at hA ⊢
        exact hmid _ ws hc rfl rfl hA
      | some s =>
        dsimp only
        split
        · have := resume_tr' T core (some s) { a with waiter := none } k rfl hT hk
          refine Tr_congr (fun l => ?_) this
          rw [List.append_assoc, hk, hk]
          simp [ordT]
        · next hne => exact absurd hc hne
    | expect box rms expected =>
      dsimp only
      rcases expectCompare_cases { a with waiter := none } core screen box rms expected with he | he <;> rw [he]
      · simp only [↓reduceIte]
        split
        · exact resume_tr' T core screen { a with waiter := none } k rfl hT hk
        · next hne => exact absurd hc hne
      · simp only [Bool.false_eq_true, ↓reduceIte]
        have hA := requestAll_AllW core screen.isSome
        generalize requestAll core screen.isSome = ws at hA ⊢
        exact hmid _ ws hc rfl rfl hA

theorem onTimer_tr (T : Nat) (core : Core) (screen : Option Img) (a : App) (id : Nat) (k : List Act → Bool) (h : Tr T a k) :
    Tr T (onTimer core screen a id).1 (fun rest => k ((onTimer core screen a id).2 ++ rest)) := by
  have h' : Tr T { a with timers := a.timers.filter fun t => t.1 ≠ id } k := Tr_frame rfl rfl rfl rfl h
  unfold onTimer
  generalize ({ a with timers := a.timers.filter fun t => t.1 ≠ id } : App) = b at h' ⊢
  clear h
  dsimp only
  split
  · next i hc =>
    unfold Tr at h'
    rw [hc] at h'
    obtain ⟨hw, hT, hk⟩ := h'
    split
    · exact resume_tr' T core screen b k hw hT hk
    · unfold Tr; rw [hc]; exact ⟨hw, hT, hk⟩
  · next i pts tx ty hc =>
    have h0 := h'
    unfold Tr at h'
    rw [hc] at h'
    obtain ⟨hw, hT, hk⟩ := h'
    split
    · exact h0
    · split
      · split
        · unfold Tr
          dsimp only
          refine ⟨hw, hT, fun l => ?_⟩
          rw [hk]; rfl
        · next a' w hp =>
          obtain ⟨rfl, hA⟩ := ptrActs_eq hp
          unfold Tr
          dsimp only [addTimer]
          refine ⟨hw, hT, fun l => ?_⟩
          rw [hk]; exact ordT_AllW T hA _ _ _
      · split
        · unfold Tr
          dsimp only
          refine ⟨hw, hT, fun l => ?_⟩
          rw [hk]; rfl
        · next a' w hp =>
          obtain ⟨rfl, hA⟩ := ptrActs_eq hp
          dsimp only
          have := resume_tr' T core screen { b with ptr := (ptrStep b.ptr (.move tx ty)).1 } k hw hT hk
          refine Tr_congr (fun l => ?_) this
          rw [List.append_assoc, hk, hk]
          exact ordT_AllW T hA _ _ _
  · exact h'

/-! ## lifting through the whole client: one callback, one handler invocation, one chunk, one timer, a whole run -/

theorem evActs_append (a b : List Ev) : evActs (a ++ b) = evActs a ++ evActs b := by
  simp [evActs, List.filterMap_append]

theorem evActs_acts (l : List Act) : evActs (l.map Ev.act) = l := by
  induction l with
  | nil => rfl
  | cons a l ih => simpa [evActs] using ih

theorem appReact_tr (T : Nat) (core : Core) (screen : Option Img) (a : App) (o : Out) (k : List Act → Bool) (h : Tr T a k) :
    Tr T (appReact core screen a o).1 (fun rest => k ((appReact core screen a o).2 ++ rest)) := by
  cases o with
  | made => exact onConnected_tr T core screen a k h
  | commit rs => exact onCommit_tr T core screen a k h
  | _ => exact h

theorem reactOne_tr (T : Nat) (core : Core) (acc : Canvas × App × List Ev) (o : Out) (k : List Act → Bool)
    (h : Tr T acc.2.1 (fun rest => k (evActs acc.2.2 ++ rest))) :
    Tr T (reactOne core acc o).2.1 (fun rest => k (evActs (reactOne core acc o).2.2 ++ rest)) := by
  have := appReact_tr T core (applyOut core.imageMode acc.1 o).screen acc.2.1 o _ h
  refine Tr_congr (fun l => ?_) this
  simp only [reactOne, evActs_append, evActs_acts, List.append_assoc]
  rfl

theorem reactFold_tr (T : Nat) (core : Core) (k : List Act → Bool) (outs : List Out) : ∀ (acc : Canvas × App × List Ev),
    Tr T acc.2.1 (fun rest => k (evActs acc.2.2 ++ rest)) →
    Tr T (outs.foldl (reactOne core) acc).2.1 (fun rest => k (evActs (outs.foldl (reactOne core) acc).2.2 ++ rest)) := by
  induction outs with
  | nil => intro acc h; exact h
  | cons o outs ih =>
    intro acc h
    rw [List.foldl_cons]
    exact ih _ (reactOne_tr T core acc o k h)

theorem sysStep_tr (T : Nat) (s : SysSt) (b : Bytes) (k : List Act → Bool) (h : Tr T s.app k) :
    Tr T (sysStep s b).1.app (fun rest => k (evActs (sysStep s b).2 ++ rest)) := by
  simp only [sysStep]
  exact reactFold_tr T _ k _ (s.cv, s.app, []) h

theorem sys_drain_tr (T : Nat) : ∀ (fuel : Nat) (s : SysSt) (buf : Bytes) (k : List Act → Bool), Tr T s.app k →
    Tr T (drain sysMachine fuel s buf).s.app (fun rest => k (evActs (drain sysMachine fuel s buf).out ++ rest)) := by
  intro fuel
  induction fuel with
  | zero => intro s buf k h; exact h
  | succ f ih =>
    intro s buf k h
    simp only [drain]
    split
    · exact h
    · dsimp only
      have h1 : Tr T (sysMachine.step s (buf.take (sysMachine.need s))).1.app
          (fun rest => k (evActs (sysMachine.step s (buf.take (sysMachine.need s))).2 ++ rest)) := sysStep_tr T _ _ k h
      have h2 := ih _ (buf.drop (sysMachine.need s)) _ h1
      refine Tr_congr (fun l => ?_) h2
      rw [evActs_append, List.append_assoc]

theorem sysFire_tr (T : Nat) (st : St SysSt) (k : List Act → Bool) (h : Tr T st.s.app k) :
    Tr T (sysFire st).1.s.app (fun rest => k (evActs (sysFire st).2 ++ rest)) := by
  unfold sysFire
  split
  · exact h
  · next id due _ =>
    dsimp only
    rw [evActs_acts]
    exact onTimer_tr T _ _ _ id k (Tr_frame rfl rfl rfl rfl h)

theorem sysIn_tr (T : Nat) (st : St SysSt) (i : SysIn) (k : List Act → Bool) (h : Tr T st.s.app k) :
    Tr T (sysIn st i).1.s.app (fun rest => k (evActs (sysIn st i).2 ++ rest)) := by
  cases i with
  | recv c => exact sys_drain_tr T _ _ _ k h
  | fire => exact sysFire_tr T st k h

theorem sysRun_tr (T : Nat) (ins : List SysIn) : ∀ (st : St SysSt) (k : List Act → Bool), Tr T st.s.app k →
    Tr T (sysRun st ins).1.s.app (fun rest => k (evActs (sysRun st ins).2 ++ rest)) := by
  induction ins with
  | nil => intro st k h; exact h
  | cons i is ih =>
    intro st k h
    simp only [sysRun]
    have h2 := ih _ _ (sysIn_tr T st i k h)
    refine Tr_congr (fun l => ?_) h2
    rw [evActs_append, List.append_assoc]

/-- the sharper checker accepts the history of every run -/
theorem C08_sys_ordT (st : St SysSt) (h0 : st.s.app.chain = .notStarted) (hw : st.s.app.waiter = none)
    (hi : st.s.app.idx = 0) (ins : List SysIn) :
    ordT st.s.app.cmds.length none 0 (evActs (sysRun st ins).2) = true := by
  have hinit : Tr st.s.app.cmds.length st.s.app (ordT st.s.app.cmds.length none 0) := by
    unfold Tr
    rw [h0]
    dsimp only
    rw [hi]
    exact ⟨hw, by omega, fun _ => rfl⟩
  have := Tr_nil (sysRun_tr _ ins st _ hinit)
  simpa using this


/-- **every run**: from a client whose script has not started yet, whatever the server sends, however it is cut into chunks,
    whenever timers fire - the history of the script's actions is ordered -/
theorem C08_sys_ordered (st : St SysSt) (h0 : st.s.app.chain = .notStarted) (hw : st.s.app.waiter = none)
    (hi : st.s.app.idx = 0) (ins : List SysIn) :
    scriptOrdered none 0 (evActs (sysRun st ins).2) = true :=
  ordT_ordered _ _ _ _ (C08_sys_ordT st h0 hw hi ins)

/-- ... and the close, if there is one, comes when every command of the script has been started and has finished: the
    number of `start` markers in the history equals the number of commands the script had -/
theorem C08_sys_close_after_all (st : St SysSt) (h0 : st.s.app.chain = .notStarted) (hw : st.s.app.waiter = none)
    (hi : st.s.app.idx = 0) (ins : List SysIn) (hc : Act.close ∈ evActs (sysRun st ins).2) :
    ((evActs (sysRun st ins).2).filter fun a => match a with | .start _ => true | _ => false).length = st.s.app.cmds.length ∧
    ((evActs (sysRun st ins).2).filter fun a => match a with | .finish _ => true | _ => false).length = st.s.app.cmds.length := by
  have := ordT_counts st.s.app.cmds.length _ _ (fun _ => rfl) (fun _ => rfl) _ none 0 0 (fun _ => rfl)
    (fun h => absurd rfl h) (C08_sys_ordT st h0 hw hi ins) hc
  simpa using this

/-- non-vacuity of the checker: it rejects a byte written between two commands and a command started out of turn -/
example : scriptOrdered none 0 [.start 0, .write [1], .finish 0, .write [2], .start 1] = false := by decide
example : scriptOrdered none 0 [.start 0, .finish 0, .start 2] = false := by decide
example : scriptOrdered none 0 [.start 0, .write [1], .finish 0, .start 1, .finish 1, .close] = true := by decide

/-- non-vacuity of the theorems: a client about to complete the handshake (`vncConnectionMade` pending) whose script is a
    key press and a pause -/
def c08ExSys : St SysSt :=
  ⟨{ rfb := ⟨{ cfg := { kind := .base, hasPassword := false, shared := true, encoding := 0, pseudocursor := false,
                        nocursor := true, pseudodesktop := true, lastRect := false, qemuExt := false, authResponse := [],
                        ardReply := [] } }, .serverName 0⟩
     cv := { nocursor := true }
     app := { env := ⟨fun _ => none, fun _ => 0, 0, fun _ _ _ => false, fun _ => false, false, false⟩,
              cmds := [.keyPress ['a'], .pauseArg ['1']] } }, []⟩

/-- the hypotheses hold; the handshake completing starts command 0, finishes it and starts command 1 (the pause); the
    timer then finishes command 1 and vncdo closes: two starts, two finishes, close last -/
example :
    c08ExSys.s.app.chain = .notStarted ∧ c08ExSys.s.app.waiter = none ∧ c08ExSys.s.app.idx = 0 ∧
    markers (evActs (sysRun c08ExSys [.recv []]).2) = [(0, true), (0, false), (1, true)] ∧
    markers (evActs (sysRun c08ExSys [.recv [], .fire]).2) = [(0, true), (0, false), (1, true), (1, false)] ∧
    ((evActs (sysRun c08ExSys [.recv [], .fire]).2).getLast?.map fun a => match a with | .close => true | _ => false) = some true ∧
    (evActs (sysRun c08ExSys [.recv [], .fire]).2).length = 7 := by
  refine ⟨rfl, rfl, rfl, ?_, ?_, ?_, ?_⟩ <;> decide

end Vnc
