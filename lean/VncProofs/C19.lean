import VncSpec.C2S
import VncModel.LibOps
/-!
# C19 — Everything the client sends is a well-formed RFB client message

Spec: `parseStream` (VncSpec/C2S.lean), the server-side parser of RFC 6143 §7.5, and `encodeC2S`, the RFC layout.
Model: `libStep` / `libRun` (VncModel/LibOps.lean): every writing operation of the client through the
serialisers of rfb.py (`struct.pack` formats as written in the source).
-/
namespace Vnc

/-- the messages an operation stands for, with their field values (state: pointer position/mask, desktop size) -/
def libMsgs (st : LibSt) : LibOp → List C2SMsg
  | .key op fc up k =>
    ((decodeKey fc up k).getD []) |> keyOpEvs op |>.map fun e => .keyEvent (if e.2 then 1 else 0) e.1
  | .ptr op => (ptrStep st.ptr op).2.map fun e => .pointerEvent e.2.2 e.1.toNat e.2.1.toNat
  | .paste t => [.cutText ((latin1 t).getD [])]
  | .refresh inc => [.updateRequest (if inc then 1 else 0) 0 0 st.width st.height]
  | .updateRequest x y w h inc => [.updateRequest (if inc then 1 else 0) x y w h]
  | .setPixelFormat pf => [.setPixelFormat pf.toBytes]
  | .setEncodings es => [.setEncodings es]
  | .keyEvent k d => [.keyEvent (if d then 1 else 0) k]
  | .pointerEvent x y m => [.pointerEvent m x y]

/-- in-range arguments: coordinates and sizes 0..65535, keysyms < 2^32, masks < 256, Latin-1 text, s32 encodings,
    pixel-format fields that fit their struct fields -/
def LibOp.InRange (st : LibSt) : LibOp → Prop
  | .key _ fc up k => ∃ ks, decodeKey fc up k = some ks ∧ ∀ x ∈ ks, x < 4294967296
  | .ptr op => ∀ e ∈ (ptrStep st.ptr op).2, 0 ≤ e.1 ∧ e.1 < 65536 ∧ 0 ≤ e.2.1 ∧ e.2.1 < 65536 ∧ e.2.2 < 256
  | .paste t => (∀ c ∈ t, c.toNat < 256) ∧ t.length < 4294967296
  | .refresh _ => st.width < 65536 ∧ st.height < 65536
  | .updateRequest x y w h _ => x < 65536 ∧ y < 65536 ∧ w < 65536 ∧ h < 65536
  | .setPixelFormat pf => pf.bpp < 256 ∧ pf.depth < 256 ∧ pf.rmax < 65536 ∧ pf.gmax < 65536 ∧ pf.bmax < 65536 ∧
      pf.rshift < 256 ∧ pf.gshift < 256 ∧ pf.bshift < 256
  | .setEncodings es => es.length < 65536 ∧ ∀ e ∈ es, -2147483648 ≤ e ∧ e < 2147483648
  | .keyEvent k _ => k < 4294967296
  | .pointerEvent x y m => x < 65536 ∧ y < 65536 ∧ m < 256

/-- in-range along a whole history (the state each operation sees is the one the history produced) -/
def histInRange : LibSt → List LibOp → Prop
  | _, [] => True
  | st, op :: ops => op.InRange st ∧ ∀ st' ws, libStep st op = some (st', ws) → histInRange st' ops

def libRunMsgs (st : LibSt) : List LibOp → List C2SMsg
  | [] => []
  | op :: ops =>
    match libStep st op with
    | none => []
    | some (st', _) => libMsgs st op ++ libRunMsgs st' ops

/-! ## the RFC side: encode / parse round trip -/


theorem s32_encS32 (e : Int) (h1 : -2147483648 ≤ e) (h2 : e < 2147483648) (a b c d : UInt8)
    (h : encS32 e = [a, b, c, d]) : s32 (be32 a b c d) = e := by
  simp only [encS32, enc32, List.cons.injEq, and_true] at h
  obtain ⟨rfl, rfl, rfl, rfl⟩ := h
  simp only [s32, be32, byteOf_toNat]
  split <;> split <;> omega

theorem readS32s_enc (es : List Int) (rest : Bytes) (h : ∀ e ∈ es, -2147483648 ≤ e ∧ e < 2147483648) :
    readS32s es.length (es.flatMap encS32 ++ rest) = some (es, rest) := by
  induction es with
  | nil => simp [readS32s]
  | cons e es ih =>
    have he := h e (by simp)
    have ih' := ih (fun x hx => h x (by simp [hx]))
    have : encS32 e = [(encS32 e)[0]!, (encS32 e)[1]!, (encS32 e)[2]!, (encS32 e)[3]!] := by
      simp [encS32, enc32]
    have hs := s32_encS32 e he.1 he.2 _ _ _ _ this
    simp only [List.flatMap_cons, List.length_cons]
    rw [this]
    simp only [List.cons_append, List.nil_append, readS32s, ih', hs]
    rfl

theorem C19_parse_encode (m : C2SMsg) (rest : Bytes) (h : m.WF) :
    parseOne (encodeC2S m ++ rest) = some (m, rest) := by
  cases m with
  | setPixelFormat pf =>
    simp only [C2SMsg.WF] at h
    simp [encodeC2S, parseOne, h]
  | setEncodings es =>
    simp only [C2SMsg.WF] at h
    have : be16 (byteOf (es.length / 256)) (byteOf es.length) = es.length := by
      simp only [be16, byteOf_toNat]; omega
    simp [encodeC2S, parseOne, enc16, this, readS32s_enc es rest h.2]
  | updateRequest inc x y w h' =>
    simp only [C2SMsg.WF] at h
    simp only [encodeC2S, enc16, List.cons_append, List.nil_append, parseOne, be16, byteOf_toNat]
    congr 3 <;> omega
  | keyEvent d k =>
    simp only [C2SMsg.WF] at h
    simp only [encodeC2S, enc32, List.cons_append, List.nil_append, parseOne, be32, byteOf_toNat]
    congr 3 <;> omega
  | pointerEvent m x y =>
    simp only [C2SMsg.WF] at h
    simp only [encodeC2S, enc16, List.cons_append, List.nil_append, parseOne, be16, byteOf_toNat]
    congr 3 <;> omega
  | cutText t =>
    simp only [C2SMsg.WF] at h
    have : be32 (byteOf (t.length / 16777216)) (byteOf (t.length / 65536)) (byteOf (t.length / 256)) (byteOf t.length) = t.length := by
      simp only [be32, byteOf_toNat]; omega
    simp [encodeC2S, parseOne, enc32, this]

theorem encodeC2S_length (m : C2SMsg) : 4 ≤ (encodeC2S m).length := by
  cases m <;> simp [encodeC2S, enc16, enc32] <;> omega

theorem parseC2S_succ_ne (fuel : Nat) (bs : Bytes) (h : bs ≠ []) :
    parseC2S (fuel+1) bs = (do
      let (m, rest) ← parseOne bs
      let ms ← parseC2S fuel rest
      pure (m :: ms)) := by
  cases bs with
  | nil => exact absurd rfl h
  | cons b bs => rfl

theorem parseC2S_enc (ms : List C2SMsg) (h : ∀ m ∈ ms, m.WF) (fuel : Nat) (hf : ms.length ≤ fuel) :
    parseC2S fuel (ms.flatMap encodeC2S) = some ms := by
  induction ms generalizing fuel with
  | nil => cases fuel <;> simp [parseC2S]
  | cons m ms ih =>
    cases fuel with
    | zero => simp at hf
    | succ fuel =>
      have hne : (m :: ms).flatMap encodeC2S ≠ [] := by
        have := encodeC2S_length m
        intro hc
        have := congrArg List.length hc
        simp only [List.flatMap_cons, List.length_append, List.length_nil] at this; omega
      rw [parseC2S_succ_ne _ _ hne]
      simp only [List.flatMap_cons]
      rw [C19_parse_encode m _ (h m (by simp))]
      simp [ih (fun x hx => h x (by simp [hx])) fuel (by simpa using hf)]

theorem flatMap_enc_length (ms : List C2SMsg) : ms.length ≤ (ms.flatMap encodeC2S).length := by
  induction ms with
  | nil => simp
  | cons m ms ih =>
    have := encodeC2S_length m
    simp only [List.flatMap_cons, List.length_append, List.length_cons]; omega

theorem C19_parse_stream (ms : List C2SMsg) (h : ∀ m ∈ ms, m.WF) :
    parseStream (ms.flatMap encodeC2S) = some ms := by
  have := flatMap_enc_length ms
  exact parseC2S_enc ms h _ (by omega)

/-! ## the client side -/

theorem mapM_some_map {α β} (f : α → Option β) (g : α → β) (l : List α) (h : ∀ x ∈ l, f x = some (g x)) :
    l.mapM f = some (l.map g) := by
  induction l with
  | nil => simp
  | cons x xs ih =>
    have h1 := h x (by simp)
    have h2 := ih (fun y hy => h y (by simp [hy]))
    simp [List.mapM_cons, h1, h2]

theorem packB_nat (n : Nat) (h : n < 256) : packB (n : Int) = some (enc8 n) := by
  have : ((n : Nat) : Int) < 256 := by omega
  simp [packB, this]
theorem packH_nat (n : Nat) (h : n < 65536) : packH (n : Int) = some (enc16 n) := by
  have : ((n : Nat) : Int) < 65536 := by omega
  simp [packH, this]
theorem packI_nat (n : Nat) (h : n < 4294967296) : packI (n : Int) = some (enc32 n) := by
  have : ((n : Nat) : Int) < 4294967296 := by omega
  simp [packI, this]

theorem wUpdateRequest_nat (inc : Bool) (x y w h : Nat) (hx : x < 65536) (hy : y < 65536) (hw : w < 65536)
    (hh : h < 65536) :
    wUpdateRequest inc x y w h = some (encodeC2S (.updateRequest (if inc then 1 else 0) x y w h)) := by
  simp only [wUpdateRequest, packH_nat, hx, hy, hw, hh, encodeC2S]
  cases inc <;> rfl

theorem wKeyEvent_nat (k : Nat) (d : Bool) (hk : k < 4294967296) :
    wKeyEvent k d = some (encodeC2S (.keyEvent (if d then 1 else 0) k)) := by
  simp only [wKeyEvent, packI_nat, hk, encodeC2S]
  cases d <;> rfl

theorem wPointerEvent_nat (x y m : Nat) (hx : x < 65536) (hy : y < 65536) (hm : m < 256) :
    wPointerEvent x y m = some (encodeC2S (.pointerEvent m x y)) := by
  simp only [wPointerEvent, packH_nat, packB_nat, hx, hy, hm, encodeC2S]
  rfl

theorem wPointerEvent_int (x y : Int) (m : Nat) (hx0 : 0 ≤ x) (hx : x < 65536) (hy0 : 0 ≤ y) (hy : y < 65536)
    (hm : m < 256) :
    wPointerEvent x y m = some (encodeC2S (.pointerEvent m x.toNat y.toNat)) := by
  have := wPointerEvent_nat x.toNat y.toNat m (by omega) (by omega) hm
  rw [Int.toNat_of_nonneg hx0, Int.toNat_of_nonneg hy0] at this
  exact this

theorem latin1_some (t : List Char) (h : ∀ c ∈ t, c.toNat < 256) :
    latin1 t = some (t.map fun c => UInt8.ofNat c.toNat) := by
  unfold latin1
  apply mapM_some_map
  intro c hc
  simp [h c hc]

theorem latin1_eq (t : List Char) (d : Bytes) (hl : latin1 t = some d) :
    (∀ c ∈ t, c.toNat < 256) ∧ d = t.map fun c => UInt8.ofNat c.toNat := by
  induction t generalizing d with
  | nil => simp [latin1] at hl; simp [hl]
  | cons c t ih =>
    simp only [latin1, List.mapM_cons] at hl
    by_cases hc : c.toNat < 256
    · simp only [hc, if_true] at hl
      cases hr : latin1 t with
      | none => simp only [latin1] at hr; simp [hr] at hl
      | some d' =>
        have := ih d' hr
        simp only [latin1] at hr
        simp [hr] at hl
        subst hl
        refine ⟨?_, by rw [this.2]; rfl⟩
        intro c' hc'
        rcases List.mem_cons.1 hc' with rfl | h'
        · exact hc
        · exact this.1 c' h'
    · simp [hc] at hl

theorem wClientCutText_unf (t : List Char) : wClientCutText t =
    (latin1 t).bind fun d => (packI d.length).bind fun n => some ([6, 0, 0, 0] ++ n ++ d) := rfl

theorem wClientCutText_eq (t : List Char) (d : Bytes) (hl : latin1 t = some d) (hn : d.length < 4294967296) :
    wClientCutText t = some (encodeC2S (.cutText d)) := by
  rw [wClientCutText_unf, hl, Option.bind_some, packI_nat d.length hn, Option.bind_some]
  rfl

theorem wSetEncodings_eq (es : List Int) (hn : es.length < 65536) (h : ∀ e ∈ es, -2147483648 ≤ e ∧ e < 2147483648) :
    wSetEncodings es = some (([2, 0] ++ enc16 es.length) :: es.map encS32) := by
  have : es.mapM packi = some (es.map encS32) := by
    apply mapM_some_map
    intro e he
    simp [packi, h e he]
  simp [wSetEncodings, packH_nat, hn, this]

theorem flatten_map_encS32 (es : List Int) : (es.map encS32).flatten = es.flatMap encS32 := by
  simp [List.flatMap]

theorem keyOpEvs_mem (op : KeyOp) (ks : List Nat) (e : KeyEv) (he : e ∈ keyOpEvs op ks) : e.1 ∈ ks := by
  cases op <;> simp [keyOpEvs, keyPressEvs, keyDownEvs, keyUpEvs] at he <;> grind

theorem C19_step (st : LibSt) (op : LibOp) (h : op.InRange st) :
    ∃ st' ws, libStep st op = some (st', ws) ∧ ws.flatten = (libMsgs st op).flatMap encodeC2S ∧
      ∀ m ∈ libMsgs st op, m.WF := by
  cases op with
  | key op fc up k =>
    obtain ⟨ks, hd, hr⟩ := h
    have hm : (keyOpEvs op ks).mapM (fun e => wKeyEvent e.1 e.2) =
        some ((keyOpEvs op ks).map fun e => encodeC2S (.keyEvent (if e.2 then 1 else 0) e.1)) := by
      apply mapM_some_map
      intro e he
      exact wKeyEvent_nat e.1 e.2 (hr _ (keyOpEvs_mem op ks e he))
    refine ⟨st, (keyOpEvs op ks).map fun e => encodeC2S (.keyEvent (if e.2 then 1 else 0) e.1), ?_, ?_, ?_⟩
    · simp only [libStep, keyOpWrites, hd, Option.bind_eq_bind, Option.bind_some, hm, Option.map_some]
    · simp [libMsgs, hd, List.flatMap, Function.comp_def]
    · simp only [libMsgs, hd, Option.getD_some, List.mem_map]
      rintro m ⟨e, he, rfl⟩
      refine ⟨?_, hr _ (keyOpEvs_mem op ks e he)⟩
      split <;> omega
  | ptr op =>
    simp only [LibOp.InRange] at h
    have hm : (ptrStep st.ptr op).2.mapM ptrEvBytes =
        some ((ptrStep st.ptr op).2.map fun e => encodeC2S (.pointerEvent e.2.2 e.1.toNat e.2.1.toNat)) := by
      apply mapM_some_map
      intro e he
      obtain ⟨a, b, c, d, f⟩ := h e he
      exact wPointerEvent_int e.1 e.2.1 e.2.2 a b c d f
    refine ⟨{ st with ptr := (ptrStep st.ptr op).1 }, (ptrStep st.ptr op).2.map fun e => encodeC2S (.pointerEvent e.2.2 e.1.toNat e.2.1.toNat), ?_, ?_, ?_⟩
    · simp only [libStep, hm, Option.map_some]
    · simp [libMsgs, List.flatMap, Function.comp_def]
    · simp only [libMsgs, List.mem_map]
      rintro m ⟨e, he, rfl⟩
      obtain ⟨a, b, c, d, f⟩ := h e he
      refine ⟨f, ?_, ?_⟩ <;> omega
  | paste t =>
    obtain ⟨hc, hn⟩ := h
    have hl := latin1_some t hc
    have hlen : (t.map fun c => UInt8.ofNat c.toNat).length < 4294967296 := by simpa using hn
    refine ⟨st, [encodeC2S (.cutText (t.map fun c => UInt8.ofNat c.toNat))], ?_, ?_, ?_⟩
    · simp only [libStep, wClientCutText_eq t _ hl hlen, Option.map_some]
    · simp [libMsgs, hl]
    · simp only [libMsgs, hl, Option.getD_some, List.mem_singleton]
      rintro m rfl
      exact hlen
  | refresh inc =>
    obtain ⟨hw, hh⟩ := h
    refine ⟨st, [encodeC2S (.updateRequest (if inc then 1 else 0) 0 0 st.width st.height)], ?_, ?_, ?_⟩
    · simp only [libStep]
      rw [show (0 : Int) = ((0 : Nat) : Int) from rfl, wUpdateRequest_nat inc 0 0 _ _ (by omega) (by omega) hw hh]
      rfl
    · simp [libMsgs]
    · simp only [libMsgs, List.mem_singleton]
      rintro m rfl
      refine ⟨?_, by omega, by omega, hw, hh⟩
      split <;> omega
  | updateRequest x y w h' inc =>
    obtain ⟨hx, hy, hw, hh⟩ := h
    refine ⟨st, [encodeC2S (.updateRequest (if inc then 1 else 0) x y w h')], ?_, ?_, ?_⟩
    · simp only [libStep, wUpdateRequest_nat inc x y w h' hx hy hw hh, Option.map_some]
    · simp [libMsgs]
    · simp only [libMsgs, List.mem_singleton]
      rintro m rfl
      refine ⟨?_, hx, hy, hw, hh⟩
      split <;> omega
  | setPixelFormat pf =>
    refine ⟨st, _, rfl, ?_, ?_⟩
    · simp [libMsgs, wSetPixelFormat, encodeC2S]
    · simp only [libMsgs, List.mem_singleton]
      rintro m rfl
      simp [C2SMsg.WF, PF.toBytes, enc8, enc16]
  | setEncodings es =>
    obtain ⟨hn, he⟩ := h
    refine ⟨st, ([2, 0] ++ enc16 es.length) :: es.map encS32, ?_, ?_, ?_⟩
    · simp only [libStep, wSetEncodings_eq es hn he, Option.map_some]
    · simp [libMsgs, encodeC2S, List.flatMap]
    · simp only [libMsgs, List.mem_singleton]
      rintro m rfl
      exact ⟨hn, he⟩
  | keyEvent k d =>
    simp only [LibOp.InRange] at h
    refine ⟨st, [encodeC2S (.keyEvent (if d then 1 else 0) k)], ?_, ?_, ?_⟩
    · simp only [libStep, wKeyEvent_nat k d h, Option.map_some]
    · simp [libMsgs]
    · simp only [libMsgs, List.mem_singleton]
      rintro m rfl
      refine ⟨?_, h⟩
      split <;> omega
  | pointerEvent x y m =>
    obtain ⟨hx, hy, hm⟩ := h
    refine ⟨st, [encodeC2S (.pointerEvent m x y)], ?_, ?_, ?_⟩
    · simp only [libStep, wPointerEvent_nat x y m hx hy hm, Option.map_some]
    · simp [libMsgs]
    · simp only [libMsgs, List.mem_singleton]
      rintro m' rfl
      exact ⟨hm, hx, hy⟩

theorem C19_run (ops : List LibOp) (st : LibSt) (h : histInRange st ops) :
    (libRun st ops).2.2 = true ∧
    (libRun st ops).2.1.flatten = (libRunMsgs st ops).flatMap encodeC2S ∧ ∀ m ∈ libRunMsgs st ops, m.WF := by
  induction ops generalizing st with
  | nil => simp [libRun, libRunMsgs]
  | cons op ops ih =>
    obtain ⟨h1, h2⟩ := h
    obtain ⟨st', ws, hs, hf, hwf⟩ := C19_step st op h1
    obtain ⟨i1, i2, i3⟩ := ih st' (h2 st' ws hs)
    simp only [libRun, libRunMsgs, hs]
    refine ⟨i1, ?_, ?_⟩
    · simp [hf, i2]
    · intro m hm
      rcases List.mem_append.1 hm with hm | hm
      · exact hwf m hm
      · exact i3 m hm

theorem C19_stream (ops : List LibOp) (st : LibSt) (h : histInRange st ops) :
    (libRun st ops).2.2 = true ∧
    parseStream (libRun st ops).2.1.flatten = some (libRunMsgs st ops) := by
  obtain ⟨a, b, c⟩ := C19_run ops st h
  exact ⟨a, by rw [b]; exact C19_parse_stream _ c⟩


theorem C19_paste (st : LibSt) (t : List Char) (d : Bytes) (hl : latin1 t = some d) (hn : d.length < 4294967296) :
    libStep st (.paste t) = some (st, [[6, 0, 0, 0] ++ enc32 d.length ++ d]) := by
  show (wClientCutText t).map _ = _
  rw [wClientCutText_eq t d hl hn]
  rfl

theorem C19_latin1_length (t : List Char) (d : Bytes) (hl : latin1 t = some d) :
    d.length = t.length ∧ ∀ i (h : i < t.length) (h' : i < d.length), (d[i]'h').toNat = (t[i]'h).toNat := by
  obtain ⟨hc, rfl⟩ := latin1_eq t d hl
  refine ⟨by simp, ?_⟩
  intro i h h'
  have := hc t[i] (List.getElem_mem h)
  simp only [List.getElem_map, UInt8.toNat_ofNat']
  omega

theorem mapM_eq_map {α β} (f : α → Option β) (g : α → β) (hfg : ∀ x y, f x = some y → y = g x)
    (l : List α) (r : List β) (h : l.mapM f = some r) : r = l.map g := by
  induction l generalizing r with
  | nil => simp at h; simp [h]
  | cons x xs ih =>
    rw [List.mapM_cons] at h
    cases hx : f x with
    | none => simp [hx] at h
    | some y =>
      cases hxs : xs.mapM f with
      | none => simp [hx, hxs] at h
      | some r' =>
        simp [hx, hxs] at h
        subst h
        simp [← hfg x y hx, ← ih r' hxs]

theorem wSetEncodings_unf (es : List Int) : wSetEncodings es =
    (packH es.length).bind fun n => (es.mapM packi).bind fun l => some (([2, 0] ++ n) :: l) := rfl

theorem packH_some (n : Int) (b : Bytes) (h : packH n = some b) : 0 ≤ n ∧ n < 65536 ∧ b = enc16 n.toNat := by
  unfold packH at h
  split at h
  · rename_i hc
    injection h with h
    exact ⟨hc.1, hc.2, h.symm⟩
  · cases h

theorem packB_some (n : Int) (b : Bytes) (h : packB n = some b) : b = enc8 n.toNat := by
  unfold packB at h
  split at h
  · injection h with h; exact h.symm
  · cases h

theorem packI_some (n : Int) (b : Bytes) (h : packI n = some b) : b = enc32 n.toNat := by
  unfold packI at h
  split at h
  · injection h with h; exact h.symm
  · cases h

theorem packi_some (n : Int) (b : Bytes) (h : packi n = some b) : b = encS32 n := by
  unfold packi at h
  split at h
  · injection h with h; exact h.symm
  · cases h

theorem C19_setencodings_split (es : List Int) (ws : List Bytes) (h : wSetEncodings es = some ws) :
    ws.length = es.length + 1 ∧ ws.flatten = encodeC2S (.setEncodings es) := by
  rw [wSetEncodings_unf] at h
  cases hn : packH es.length with
  | none => rw [hn] at h; cases h
  | some n =>
    rw [hn, Option.bind_some] at h
    cases hl : es.mapM packi with
    | none => rw [hl] at h; cases h
    | some l =>
      rw [hl, Option.bind_some] at h
      injection h with h
      subst h
      have h1 := (packH_some _ _ hn).2.2
      have h2 := mapM_eq_map packi encS32 packi_some es l hl
      subst h1 h2
      simp [encodeC2S, List.flatMap]

theorem wUpdateRequest_unf (inc : Bool) (x y w h : Int) : wUpdateRequest inc x y w h =
    (packH x).bind fun x => (packH y).bind fun y => (packH w).bind fun w => (packH h).bind fun h =>
      some ([3, if inc then 1 else 0] ++ x ++ y ++ w ++ h) := rfl
theorem wKeyEvent_unf (k : Int) (d : Bool) : wKeyEvent k d =
    (packI k).bind fun k => some ([4, if d then 1 else 0, 0, 0] ++ k) := rfl
theorem wPointerEvent_unf (x y m : Int) : wPointerEvent x y m =
    (packB m).bind fun m => (packH x).bind fun x => (packH y).bind fun y => some ([5] ++ m ++ x ++ y) := rfl

theorem C19_sizes :
    (∀ pf, (wSetPixelFormat pf).length = 20) ∧
    (∀ inc x y w h b, wUpdateRequest inc x y w h = some b → b.length = 10) ∧
    (∀ k d b, wKeyEvent k d = some b → b.length = 8) ∧
    (∀ x y m b, wPointerEvent x y m = some b → b.length = 6) ∧
    (∀ t b d, latin1 t = some d → wClientCutText t = some b → b.length = 8 + d.length) := by
  refine ⟨?_, ?_, ?_, ?_, ?_⟩
  · intro pf; simp [wSetPixelFormat, PF.toBytes, enc8, enc16]
  · intro inc x y w h b hb
    rw [wUpdateRequest_unf] at hb
    cases hx : packH x with
    | none => rw [hx] at hb; cases hb
    | some x' =>
    cases hy : packH y with
    | none => rw [hx, hy] at hb; cases hb
    | some y' =>
    cases hw : packH w with
    | none => rw [hx, hy, hw] at hb; cases hb
    | some w' =>
    cases hh : packH h with
    | none => rw [hx, hy, hw, hh] at hb; cases hb
    | some h' =>
    rw [hx, hy, hw, hh] at hb
    simp only [Option.bind_some] at hb
    injection hb with hb
    subst hb
    rw [(packH_some _ _ hx).2.2, (packH_some _ _ hy).2.2, (packH_some _ _ hw).2.2, (packH_some _ _ hh).2.2]
    simp [enc16]
  · intro k d b hb
    rw [wKeyEvent_unf] at hb
    cases hk : packI k with
    | none => rw [hk] at hb; cases hb
    | some k' =>
    rw [hk] at hb
    simp only [Option.bind_some] at hb
    injection hb with hb
    subst hb
    rw [packI_some _ _ hk]
    simp [enc32]
  · intro x y m b hb
    rw [wPointerEvent_unf] at hb
    cases hm : packB m with
    | none => rw [hm] at hb; cases hb
    | some m' =>
    cases hx : packH x with
    | none => rw [hm, hx] at hb; cases hb
    | some x' =>
    cases hy : packH y with
    | none => rw [hm, hx, hy] at hb; cases hb
    | some y' =>
    rw [hm, hx, hy] at hb
    simp only [Option.bind_some] at hb
    injection hb with hb
    subst hb
    rw [(packH_some _ _ hx).2.2, (packH_some _ _ hy).2.2, packB_some _ _ hm]
    simp [enc16, enc8]
  · intro t b d hl hb
    rw [wClientCutText_unf, hl, Option.bind_some] at hb
    cases hn : packI d.length with
    | none => rw [hn] at hb; cases hb
    | some n =>
    rw [hn, Option.bind_some] at hb
    obtain rfl := Option.some.inj hb
    rw [packI_some _ _ hn]
    simp [enc32]; omega

/-- out-of-range arguments raise before anything is written: a failing operation writes nothing -/
theorem C19_out_of_range_atomic (st : LibSt) (op : LibOp) (h : libStep st op = none) (ops : List LibOp) :
    (libRun st (op :: ops)).2.1 = [] := by
  simp [libRun, h]

/-- the pixel format block round-trips -/
theorem C19_pf_roundtrip (pf : PF) (h : LibOp.InRange ⟨PtrSt.init, 0, 0⟩ (.setPixelFormat pf)) :
    PF.ofBytes pf.toBytes = some pf := by
  obtain ⟨h1, h2, h3, h4, h5, h6, h7, h8⟩ := h
  obtain ⟨bpp, depth, be, tc, rmax, gmax, bmax, rs, gs, bs⟩ := pf
  simp only at h1 h2 h3 h4 h5 h6 h7 h8
  simp only [PF.toBytes, enc8, enc16, List.cons_append, List.nil_append, PF.ofBytes, be16, byteOf_toNat,
    Option.some.injEq, PF.mk.injEq]
  refine ⟨by omega, by omega, ?_, ?_, by omega, by omega, by omega, by omega, by omega, by omega⟩
  · cases be <;> rfl
  · cases tc <;> rfl


/-- non-vacuity: a concrete history -/
example : parseStream ((libRun ⟨PtrSt.init, 800, 600⟩
      [.key .press false false "ctrl-c".toList, .ptr (.move 3 4), .ptr (.click 1), .paste "hé".toList, .refresh true,
       .setEncodings [0, -223]]).2.1.flatten) =
    some [.keyEvent 1 0xffe3, .keyEvent 1 99, .keyEvent 0 99, .keyEvent 0 0xffe3, .pointerEvent 0 3 4,
          .pointerEvent 1 3 4, .pointerEvent 0 3 4, .cutText [104, 233], .updateRequest 1 0 0 800 600,
          .setEncodings [0, -223]] := by decide +kernel

end Vnc
