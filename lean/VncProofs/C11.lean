import VncModel.Api
/-!
# C11 — The synchronous API runs calls in order and gives each call its own outcome

For every interleaving of the application thread(s), the reactor thread, the operations' completions and the
connection's establishment or failure (every list of enabled labels), for any number of clients.
-/
namespace Vnc.Api

/-- what call `k` of a client must return: its own operation's outcome, or the connection failure -/
def expected (outcome : Nat → Nat → Outcome) (c : Nat) (cl : Client) (k : Nat) : Outcome :=
  match cl.chain with
  | .failure e => .err e
  | _ => outcome c k

def expCh (outcome : Nat → Nat → Outcome) (c : Nat) (ch : Chain) (k : Nat) : Outcome :=
  match ch with
  | .failure e => .err e
  | _ => outcome c k

theorem expected_eq (outcome : Nat → Nat → Outcome) (c : Nat) (cl : Client) (k : Nat) :
    expected outcome c cl k = expCh outcome c cl.chain k := by
  unfold expected expCh; rfl

@[simp] theorem expCh_failure (outcome : Nat → Nat → Outcome) (c e k : Nat) : expCh outcome c (.failure e) k = .err e := rfl
@[simp] theorem expCh_protocol (outcome : Nat → Nat → Outcome) (c k : Nat) : expCh outcome c .protocol k = outcome c k := rfl
@[simp] theorem expCh_pending (outcome : Nat → Nat → Outcome) (c k : Nat) : expCh outcome c .pending k = outcome c k := rfl

/-- the inductive invariant of one client, stated on its local state `cl` and on `inb`, the list of its calls that are
    still in the shared inbox: exactly one item is in flight while the application is blocked (none otherwise), it is
    the awaited call, results carry the expected value, nothing is produced while the chain is pending, histories are
    in call order -/
structure CInv (outcome : Nat → Nat → Outcome) (c : Nat) (cl : Client) (inb : List Nat) : Prop where
  count : inb.length + cl.queued.length + (if cl.running.isSome then 1 else 0) + cl.resultQ.length
      = (if cl.waiting.isSome then 1 else 0)
  inflight : ∀ k, (k ∈ inb ∨ k ∈ cl.queued ∨ cl.running = some k ∨ ∃ o, (k, o) ∈ cl.resultQ) → cl.waiting = some k
  waiting_next : ∀ k, cl.waiting = some k → k + 1 = cl.nextCall
  resultQ_val : ∀ k o, (k, o) ∈ cl.resultQ → o = expCh outcome c cl.chain k
  running_connected : cl.running.isSome → cl.chain = .protocol
  queued_pending : cl.queued ≠ [] → cl.chain = .pending
  pending_fresh : cl.chain = .pending → cl.resultQ = [] ∧ cl.returned = [] ∧ cl.started = []
  returned_own : ∀ k o, (k, o) ∈ cl.returned → o = expCh outcome c cl.chain k
  returned_calls : cl.returned.map (·.1) = List.range (cl.nextCall - (if cl.waiting.isSome then 1 else 0))
  started_sorted : cl.started.Pairwise (· < ·)
  started_lt : ∀ j ∈ cl.started, j + inb.length + cl.queued.length < cl.nextCall
  started_eq : cl.started = cl.finished ++ cl.running.toList

variable {outcome : Nat → Nat → Outcome} {c : Nat}

theorem cinv_appCall {cl : Client} {inb : List Nat} (h : CInv outcome c cl inb) (hw : cl.waiting = none) :
    CInv outcome c { cl with waiting := some cl.nextCall, nextCall := cl.nextCall + 1 } (inb ++ [cl.nextCall]) := by
  obtain ⟨chain, queued, running, resultQ, waiting, nextCall, started, finished, returned⟩ := cl
  obtain ⟨h1, h2, h3, h4, h5, h6, h7, h8, h9, h10, h11, h12⟩ := h
  simp only at hw
  subst hw
  simp at h1
  obtain ⟨⟨⟨rfl, rfl⟩, rfl⟩, rfl⟩ := h1
  constructor <;> (try simp_all) <;> (try assumption)

theorem cinv_take {cl : Client} {inb : List Nat} {k : Nat} (h : CInv outcome c cl (k :: inb)) :
    CInv outcome c (if cl.chain = .pending ∨ cl.running.isSome ∨ cl.queued ≠ [] then { cl with queued := cl.queued ++ [k] }
      else runCall cl k) inb := by
  obtain ⟨chain, queued, running, resultQ, waiting, nextCall, started, finished, returned⟩ := cl
  obtain ⟨h1, h2, h3, h4, h5, h6, h7, h8, h9, h10, h11, h12⟩ := h
  have hw := h2 k (by simp)
  simp only at hw
  subst hw
  simp only [List.length_cons, Option.isSome_some, if_true] at h1
  have hi : inb = [] := List.eq_nil_of_length_eq_zero (by omega)
  have hq : queued = [] := List.eq_nil_of_length_eq_zero (by omega)
  have hr : running = none := by cases running <;> simp_all <;> omega
  have hr : resultQ = [] := List.eq_nil_of_length_eq_zero (by omega)
  subst_vars
  cases chain <;> simp [runCall] <;> constructor <;> (try simp_all [List.pairwise_append]) <;> (try assumption) <;> grind

theorem cinv_finish {cl : Client} {inb : List Nat} {k : Nat} (h : CInv outcome c cl inb) (hr : cl.running = some k) :
    CInv outcome c (drainQueued (cl.queued.length + 1) { cl with running := none, finished := cl.finished ++ [k], resultQ := cl.resultQ ++ [(k, outcome c k)], chain := .protocol }) inb := by
  obtain ⟨chain, queued, running, resultQ, waiting, nextCall, started, finished, returned⟩ := cl
  obtain ⟨h1, h2, h3, h4, h5, h6, h7, h8, h9, h10, h11, h12⟩ := h
  simp only at hr
  subst hr
  have hw := h2 k (by simp)
  simp only at hw
  subst hw
  simp only [Option.isSome_some, if_true] at h1
  have hi : inb = [] := List.eq_nil_of_length_eq_zero (by omega)
  have hq : queued = [] := List.eq_nil_of_length_eq_zero (by omega)
  have hr : resultQ = [] := List.eq_nil_of_length_eq_zero (by omega)
  subst_vars
  simp [drainQueued]
  constructor <;> (try simp_all [List.pairwise_append]) <;> (try assumption) <;> grind

set_option linter.unusedSimpArgs false in
theorem cinv_connect {cl : Client} {inb : List Nat} (h : CInv outcome c cl inb) (hp : cl.chain = .pending)
    (ch : Chain) (hch : ch ≠ .pending) :
    CInv outcome c (drainQueued (cl.queued.length + 1) { cl with chain := ch }) inb := by
  obtain ⟨chain, queued, running, resultQ, waiting, nextCall, started, finished, returned⟩ := cl
  obtain ⟨h1, h2, h3, h4, h5, h6, h7, h8, h9, h10, h11, h12⟩ := h
  simp only at hp
  subst hp
  have hr : running = none := by cases running <;> simp_all
  obtain ⟨rfl, rfl, rfl⟩ := h7 rfl
  subst hr
  match queued with
  | [] =>
    simp [drainQueued]
    constructor <;> (try simp_all) <;> (try assumption) <;> grind
  | [k] =>
    have hw := h2 k (by simp)
    simp only at hw
    subst hw
    simp only [List.length_cons, Option.isSome_some, if_true] at h1
    have hi : inb = [] := List.eq_nil_of_length_eq_zero (by omega)
    subst hi
    cases ch <;> simp [drainQueued, runCall] at hch ⊢ <;>
      constructor <;> (try simp_all [List.pairwise_append]) <;> (try assumption) <;> grind
  | _ :: _ :: _ =>
    simp at h1; split at h1 <;> omega

theorem cinv_get {cl : Client} {inb : List Nat} {k k' : Nat} {o : Outcome} {rest : List (Nat × Outcome)}
    (h : CInv outcome c cl inb) (hw : cl.waiting = some k) (hq : cl.resultQ = (k', o) :: rest) :
    CInv outcome c { cl with waiting := none, resultQ := rest, returned := cl.returned ++ [(k, o)] } inb := by
  obtain ⟨chain, queued, running, resultQ, waiting, nextCall, started, finished, returned⟩ := cl
  obtain ⟨h1, h2, h3, h4, h5, h6, h7, h8, h9, h10, h11, h12⟩ := h
  simp only at hw hq
  subst hw hq
  have hw := h2 k' (by simp)
  simp only [Option.some.injEq] at hw
  subst hw
  simp only [List.length_cons, Option.isSome_some, if_true] at h1
  have hi : inb = [] := List.eq_nil_of_length_eq_zero (by omega)
  have hq : queued = [] := List.eq_nil_of_length_eq_zero (by omega)
  have hr : running = none := by cases running <;> simp_all <;> omega
  have hr : rest = [] := List.eq_nil_of_length_eq_zero (by omega)
  have hn := h3 _ rfl
  simp only at hn
  subst_vars
  constructor <;> (try simp_all [List.range_succ]) <;> (try assumption) <;> grind

/-- the calls of client `c` in the reactor inbox, in order -/
def inbOf (l : List (Nat × Nat)) (c : Nat) : List Nat := (l.filter (fun p => p.1 = c)).map (·.2)

@[simp] theorem inbOf_nil (c : Nat) : inbOf [] c = [] := rfl
theorem inbOf_cons (d k : Nat) (l : List (Nat × Nat)) (c : Nat) :
    inbOf ((d, k) :: l) c = if d = c then k :: inbOf l c else inbOf l c := by
  by_cases h : d = c <;> simp [inbOf, h]
theorem inbOf_snoc (d k : Nat) (l : List (Nat × Nat)) (c : Nat) :
    inbOf (l ++ [(d, k)]) c = if d = c then inbOf l c ++ [k] else inbOf l c := by
  by_cases h : d = c <;> simp [inbOf, h]
theorem mem_inbOf {l : List (Nat × Nat)} {c k : Nat} : k ∈ inbOf l c ↔ (c, k) ∈ l := by
  simp [inbOf]
theorem length_inbOf (l : List (Nat × Nat)) (c : Nat) : (inbOf l c).length = (l.filter (fun p => p.1 = c)).length := by
  simp [inbOf]

/-- the invariant of reachable states, per client (inductive; `InvView` below lists its readable consequences) -/
def Inv (outcome : Nat → Nat → Outcome) (s : Sys) (c : Nat) : Prop :=
  CInv outcome c (s.clients c) (inbOf s.inbox c)

theorem C11_init (outcome : Nat → Nat → Outcome) (c : Nat) : Inv outcome {} c := by
  constructor <;> simp [inbOf]

/-- the invariant is preserved by every step, for every client (steps of other clients included) -/
theorem C11_step (outcome : Nat → Nat → Outcome) (s s' : Sys) (l : Label) (h : step outcome s l = some s')
    (hinv : ∀ c, Inv outcome s c) : ∀ c, Inv outcome s' c := by
  intro c
  have hc := hinv c
  unfold Inv at hc ⊢
  cases l with
  | appCall d =>
    simp only [step] at h
    split at h
    · cases h
    · rename_i hw
      cases h
      by_cases hcd : c = d
      · subst hcd
        simpa [setClient, inbOf_snoc] using cinv_appCall hc hw
      · have hdc : ¬ d = c := fun h => hcd h.symm
        simpa [setClient, inbOf_snoc, hcd, hdc] using hc
  | reactorTake =>
    simp only [step] at h
    split at h
    · cases h
    · rename_i d k rest hin
      cases h
      rw [hin] at hc
      by_cases hcd : c = d
      · subst hcd
        simp only [inbOf_cons, if_true] at hc
        simpa [setClient] using cinv_take hc
      · have hdc : ¬ d = c := fun h => hcd h.symm
        simpa [setClient, inbOf_cons, hcd, hdc] using hc
  | opFinish d =>
    simp only [step] at h
    split at h
    · cases h
    · rename_i k hr
      cases h
      by_cases hcd : c = d
      · subst hcd
        simpa [setClient] using cinv_finish hc hr
      · simpa [setClient, hcd] using hc
  | connectOk d =>
    simp only [step] at h
    split at h
    · rename_i hp
      cases h
      by_cases hcd : c = d
      · subst hcd
        simpa [setClient] using cinv_connect hc hp .protocol (by simp)
      · simpa [setClient, hcd] using hc
    · cases h
  | connectFail d e =>
    simp only [step] at h
    split at h
    · rename_i hp
      cases h
      by_cases hcd : c = d
      · subst hcd
        simpa [setClient] using cinv_connect hc hp (.failure e) (by simp)
      · simpa [setClient, hcd] using hc
    · cases h
  | appGet d =>
    simp only [step] at h
    split at h
    · rename_i k k' o rest hw hq
      cases h
      by_cases hcd : c = d
      · subst hcd
        simpa [setClient] using cinv_get hc hw hq
      · simpa [setClient, hcd] using hc
    · cases h

/-- the invariant as first stated (a consequence of `Inv`, not inductive by itself): kept as a readable summary -/
structure InvView (outcome : Nat → Nat → Outcome) (s : Sys) (c : Nat) : Prop where
  /-- at most one result is queued, and it belongs to the call the application is blocked on -/
  resultQ_le : (s.clients c).resultQ.length ≤ 1
  resultQ_mine : ∀ k o, (k, o) ∈ (s.clients c).resultQ → (s.clients c).waiting = some k ∧ o = expected outcome c (s.clients c) k
  /-- at most one call is outstanding: everything in flight (inbox, queued, running, result queue) is that call -/
  inflight : ∀ k, ((c, k) ∈ s.inbox ∨ k ∈ (s.clients c).queued ∨ (s.clients c).running = some k) →
      (s.clients c).waiting = some k
  inflight_one : ((s.inbox.filter fun p => p.1 = c).length + (s.clients c).queued.length +
      (if (s.clients c).running.isSome then 1 else 0) + (s.clients c).resultQ.length) ≤ 1
  /-- exactly one item is in flight while the application is blocked, none otherwise -/
  inflight_eq : ((s.inbox.filter fun p => p.1 = c).length + (s.clients c).queued.length +
      (if (s.clients c).running.isSome then 1 else 0) + (s.clients c).resultQ.length) =
      (if (s.clients c).waiting.isSome then 1 else 0)
  /-- operations only run on a connected client, one at a time -/
  running_connected : (s.clients c).running.isSome → (s.clients c).chain = .protocol
  /-- every value returned so far was the call's own outcome -/
  returned_own : ∀ k o, (k, o) ∈ (s.clients c).returned → o = expected outcome c (s.clients c) k
  /-- calls are numbered in order; what has returned is exactly the calls before the outstanding one -/
  returned_calls : (s.clients c).returned.map (·.1) = List.range ((s.clients c).nextCall - (if (s.clients c).waiting.isSome then 1 else 0))
  /-- operations started in call order and each finished before the next started -/
  started_sorted : (s.clients c).started.Pairwise (· < ·)
  finished_prefix : (s.clients c).finished = (s.clients c).started.take (s.clients c).finished.length ∧
      (s.clients c).started.length ≤ (s.clients c).finished.length + 1

theorem Inv.view {outcome : Nat → Nat → Outcome} {s : Sys} {c : Nat} (h : Inv outcome s c) : InvView outcome s c := by
  obtain ⟨h1, h2, h3, h4, h5, h6, h7, h8, h9, h10, h11, h12⟩ := h
  rw [length_inbOf] at h1
  have hb : (if (s.clients c).waiting.isSome then 1 else 0) ≤ 1 := by split <;> omega
  refine ⟨?_, ?_, ?_, ?_, h1, h5, ?_, h9, h10, ?_⟩
  · omega
  · intro k o hm
    exact ⟨h2 k (Or.inr (Or.inr (Or.inr ⟨o, hm⟩))), by rw [expected_eq]; exact h4 k o hm⟩
  · intro k hk
    rcases hk with hk | hk | hk
    · exact h2 k (Or.inl (mem_inbOf.mpr hk))
    · exact h2 k (Or.inr (Or.inl hk))
    · exact h2 k (Or.inr (Or.inr (Or.inl hk)))
  · omega
  · intro k o hm
    rw [expected_eq]; exact h8 k o hm
  · rw [h12]
    constructor
    · simp
    · cases (s.clients c).running <;> simp

theorem inv_run (outcome : Nat → Nat → Outcome) (ls : List Label) : ∀ s s', (∀ c, Inv outcome s c) →
    run outcome s ls = some s' → ∀ c, Inv outcome s' c := by
  induction ls with
  | nil =>
    intro s s' hi h
    simp only [run, Option.some.injEq] at h
    subst h
    exact hi
  | cons l ls ih =>
    intro s s' hi h
    simp only [run] at h
    cases hs : step outcome s l with
    | none => simp [hs] at h
    | some s1 =>
      simp only [hs, Option.bind_some] at h
      exact ih s1 s' (C11_step outcome s s1 l hs hi) h

theorem C11_inv (outcome : Nat → Nat → Outcome) (ls : List Label) (s : Sys) (h : run outcome {} ls = some s) :
    ∀ c, Inv outcome s c :=
  inv_run outcome ls {} s (C11_init outcome) h

/-- **each call returns its own operation's result or error**, for every interleaving, every mix of succeeding and
    failing operations; if the connection could not be established every call returns that failure -/
theorem C11_linear (outcome : Nat → Nat → Outcome) (ls : List Label) (s : Sys) (h : run outcome {} ls = some s)
    (c k : Nat) (o : Outcome) (hr : (k, o) ∈ (s.clients c).returned) :
    (∀ e, (s.clients c).chain ≠ .failure e) → o = outcome c k := by
  intro hne
  have ho := (C11_inv outcome ls s h c).returned_own k o hr
  cases hc : (s.clients c).chain with
  | failure e => exact absurd hc (hne e)
  | pending => simpa [hc] using ho
  | protocol => simpa [hc] using ho

theorem C11_connect_failure_all_raise (outcome : Nat → Nat → Outcome) (ls : List Label) (s : Sys)
    (h : run outcome {} ls = some s) (c e : Nat) (hf : (s.clients c).chain = .failure e) :
    ∀ k o, (k, o) ∈ (s.clients c).returned → o = .err e := by
  intro k o hr
  have ho := (C11_inv outcome ls s h c).returned_own k o hr
  simpa [hf] using ho

theorem runCall_chain (cl : Client) (k : Nat) : (runCall cl k).chain = cl.chain := by
  unfold runCall
  split <;> simp_all

theorem drainQueued_chain (n : Nat) : ∀ cl : Client, (drainQueued n cl).chain = cl.chain := by
  induction n with
  | zero => intro cl; rfl
  | succ n ih =>
    intro cl
    unfold drainQueued
    split
    · rw [ih, runCall_chain]
    · rfl

/-- a failing call does not change the outcome of later calls: the statement above does not depend on what earlier
    operations produced; in particular after an error the chain value is the protocol again -/
theorem C11_error_isolated (outcome : Nat → Nat → Outcome) (s s' : Sys) (c : Nat)
    (h : step outcome s (.opFinish c) = some s') : (s'.clients c).chain = .protocol := by
  simp only [step] at h
  split at h
  · cases h
  · cases h
    simp [setClient, drainQueued_chain]

/-- clients never receive each other's results: a step of client `c` does not touch client `d`'s queue, chain,
    history -/
theorem C11_independent (outcome : Nat → Nat → Outcome) (s s' : Sys) (c d : Nat) (hcd : c ≠ d) (l : Label)
    (hl : l = .appCall c ∨ l = .opFinish c ∨ l = .connectOk c ∨ l = .appGet c ∨ ∃ e, l = .connectFail c e)
    (h : step outcome s l = some s') : s'.clients d = s.clients d := by
  have hdc : ¬ d = c := fun h => hcd h.symm
  rcases hl with rfl | rfl | rfl | rfl | ⟨e, rfl⟩ <;> simp only [step] at h <;> split at h <;> cases h <;>
    simp [setClient, hdc]

/-- no call blocks forever once its operation has finished or the connection has failed: a result is queued -/
theorem C11_progress (outcome : Nat → Nat → Outcome) (ls : List Label) (s : Sys) (h : run outcome {} ls = some s)
    (c k : Nat) (hw : (s.clients c).waiting = some k) (hidle : (s.clients c).running = none)
    (hq : (s.clients c).queued = []) (hin : ∀ k', (c, k') ∉ s.inbox) (hc : (s.clients c).chain ≠ .pending) :
    ∃ o, (s.clients c).resultQ = [(k, o)] := by
  have _ := hc  -- implied by the other hypotheses
  have hi := C11_inv outcome ls s h c
  have h1 := hi.count
  have h2 := hi.inflight
  have hnil : inbOf s.inbox c = [] := by
    cases hl : inbOf s.inbox c with
    | nil => rfl
    | cons a t => exact absurd (mem_inbOf.mp (hl ▸ List.mem_cons_self)) (hin a)
  rw [hnil, hw, hidle, hq] at h1
  simp at h1
  match hr : (s.clients c).resultQ, h1 with
  | [(k', o)], _ =>
    have := h2 k' (Or.inr (Or.inr (Or.inr ⟨o, by rw [hr]; simp⟩)))
    rw [hw] at this
    cases this
    exact ⟨o, rfl⟩

/-- non-vacuity: a concrete interleaving of two clients, one operation failing -/
def exOutcome (c k : Nat) : Outcome := if c = 0 ∧ k = 1 then .err 7 else .ok (10 * c + k)
example : ((run exOutcome {} [.appCall 0, .appCall 1, .connectOk 0, .reactorTake, .reactorTake, .connectOk 1, .opFinish 1,
    .opFinish 0, .appGet 0, .appGet 1, .appCall 0, .reactorTake, .opFinish 0, .appGet 0, .appCall 0, .reactorTake,
    .opFinish 0, .appGet 0]).map fun s => ((s.clients 0).returned, (s.clients 1).returned)) =
    some ([(0, .ok 0), (1, .err 7), (2, .ok 2)], [(0, .ok 10)]) := by decide

end Vnc.Api
