import VncModel.Expect
/-! Generic theorems about the buffering machine: proved once, for every instance. -/
namespace Vnc
variable {σ Out : Type}

theorem drain_blocked_eq (m : Machine σ Out) (f s buf) (h : m.blocked s buf = true) :
    drain m f s buf = ⟨s, buf, [], true⟩ := by
  cases f <;> simp [drain, h]

/-- more fuel does not change a run that ended blocked -/
theorem drain_mono (m : Machine σ Out) : ∀ f s buf, (drain m f s buf).ok = true →
    ∀ f', f ≤ f' → drain m f' s buf = drain m f s buf := by
  intro f
  induction f with
  | zero =>
    intro s buf h f' _
    simp [drain] at h
    rw [drain_blocked_eq m f' s buf h, drain_blocked_eq m 0 s buf h]
  | succ f ih =>
    intro s buf h f' hf
    obtain ⟨g, rfl⟩ : ∃ g, f' = g + 1 := ⟨f' - 1, by omega⟩
    by_cases hb : m.blocked s buf = true
    · rw [drain_blocked_eq m _ s buf hb, drain_blocked_eq m _ s buf hb]
    · simp only [drain, hb] at h ⊢
      simp only [Bool.false_eq_true, ↓reduceIte] at h ⊢
      rw [ih _ _ h g (by omega)]

/-- the result of a run that ended blocked is blocked -/
theorem drain_result_blocked (m : Machine σ Out) : ∀ f s buf, (drain m f s buf).ok = true →
    m.blocked (drain m f s buf).s (drain m f s buf).buf = true := by
  intro f
  induction f with
  | zero => intro s buf h; simpa [drain] using h
  | succ f ih =>
    intro s buf h
    by_cases hb : m.blocked s buf = true
    · simp [drain, hb]
    · simp only [drain, hb, Bool.false_eq_true, ↓reduceIte] at h ⊢
      exact ih _ _ h

/-- draining `a ++ b` = draining `a`, then draining what is left followed by `b` -/
theorem drain_append (m : Machine σ Out) : ∀ f s a b f2,
    (drain m f s a).ok = true →
    (drain m f2 (drain m f s a).s ((drain m f s a).buf ++ b)).ok = true →
    drain m (f + f2) s (a ++ b) =
      let r1 := drain m f s a
      let r2 := drain m f2 r1.s (r1.buf ++ b)
      ⟨r2.s, r2.buf, r1.out ++ r2.out, r2.ok⟩ := by
  intro f
  induction f with
  | zero =>
    intro s a b f2 h h2
    simp [drain] at h
    simp [drain, h]
  | succ f ih =>
    intro s a b f2 h h2
    by_cases hb : m.blocked s a = true
    · rw [drain_blocked_eq m _ s a hb] at h2 ⊢
      simp only at h2 ⊢
      rw [drain_mono m f2 s (a ++ b) h2 (f + 1 + f2) (by omega)]
      simp
    · have hb' : m.blocked s a = false := by simpa using hb
      have hh : m.halted s = false ∧ m.need s ≤ a.length := by
        simp [Machine.blocked] at hb'; exact hb'
      have hlen := hh.2
      have hb2 : m.blocked s (a ++ b) = false := by
        simp [Machine.blocked, hh.1]; omega
      have e : f + 1 + f2 = (f + f2) + 1 := by omega
      rw [e]
      simp only [drain, hb', hb2] at h h2 ⊢
      simp only [Bool.false_eq_true, ↓reduceIte] at h h2 ⊢
      rw [List.take_append_of_le_length hlen, List.drop_append_of_le_length hlen]
      rw [ih _ _ b f2 h h2]
      simp [List.append_assoc]

/-- A machine makes progress if a zero-length expectation is never followed by another one
    (this is what fails for a handler that closes without re-arming on a zero-length field). -/
def Progress (m : Machine σ Out) : Prop :=
  ∀ s, m.halted s = false → m.need s = 0 →
    m.halted (m.step s []).1 = true ∨ 0 < m.need (m.step s []).1

theorem drain_enough (m : Machine σ Out) (hp : Progress m) : ∀ f s buf,
    2 * buf.length + (if m.need s = 0 then 1 else 0) < f → (drain m f s buf).ok = true := by
  intro f
  induction f with
  | zero => intro s buf h; omega
  | succ f ih =>
    intro s buf h
    by_cases hb : m.blocked s buf = true
    · simp [drain, hb]
    · have hb' : m.blocked s buf = false := by simpa using hb
      have hh : m.halted s = false ∧ m.need s ≤ buf.length := by
        simp [Machine.blocked] at hb'; exact hb'
      simp only [drain, hb', Bool.false_eq_true, ↓reduceIte]
      by_cases hz : m.need s = 0
      · simp only [hz, List.take_zero, List.drop_zero]
        rcases hp s hh.1 hz with hh' | hpos
        · rw [drain_blocked_eq m f _ buf (by simp [Machine.blocked, hh'])]
        · apply ih
          have : ¬ (m.need (m.step s []).1 = 0) := by omega
          simp [hz] at h
          simp [this]; omega
      · apply ih
        simp [hz] at h
        simp only [List.length_drop]
        split <;> omega

/-- under `Progress`, `dataReceived` never runs out of fuel: the dispatch loop terminates -/
theorem feed_ok (m : Machine σ Out) (hp : Progress m) (st : St σ) (c : Bytes) :
    (feed m st c).2.2 = true := by
  simp only [feed, feedFuel]
  apply drain_enough m hp
  simp only [List.length_append]
  split <;> omega

/-- number of handler calls is linear in the bytes available -/
theorem drainSteps_le (m : Machine σ Out) (hp : Progress m) : ∀ f s buf,
    drainSteps m f s buf ≤ 2 * buf.length + (if m.need s = 0 then 1 else 0) := by
  intro f
  induction f with
  | zero => intro s buf; simp [drainSteps]
  | succ f ih =>
    intro s buf
    by_cases hb : m.blocked s buf = true
    · simp [drainSteps, hb]
    · have hb' : m.blocked s buf = false := by simpa using hb
      have hh : m.halted s = false ∧ m.need s ≤ buf.length := by
        simp [Machine.blocked] at hb'; exact hb'
      simp only [drainSteps, hb', Bool.false_eq_true, ↓reduceIte]
      by_cases hz : m.need s = 0
      · simp only [hz, List.take_zero, List.drop_zero, ↓reduceIte]
        rcases hp s hh.1 hz with hh' | hpos
        · cases f with
          | zero => simp [drainSteps]
          | succ f => simp [drainSteps, Machine.blocked, hh']
        · have := ih (m.step s []).1 buf
          have h0 : ¬ (m.need (m.step s []).1 = 0) := by omega
          simp [h0] at this
          omega
      · have := ih (m.step s (buf.take (m.need s))).1 (buf.drop (m.need s))
        simp only [List.length_drop] at this
        simp only [hz, ↓reduceIte]
        split at this <;> omega

/-- **Segmentation step**: receiving `a` and then `b` is receiving `a ++ b`. -/
theorem feed_feed (m : Machine σ Out) (hp : Progress m) (st : St σ) (a b : Bytes) :
    let r1 := feed m st a
    let r2 := feed m r1.1 b
    feed m st (a ++ b) = (r2.1, r1.2.1 ++ r2.2.1, true) := by
  intro r1 r2
  have h1 : r1.2.2 = true := feed_ok m hp st a
  have h2 : r2.2.2 = true := feed_ok m hp r1.1 b
  have h3 : (feed m st (a ++ b)).2.2 = true := feed_ok m hp st (a ++ b)
  simp only [feed, r1, r2] at h1 h2 h3 ⊢
  have key := drain_append m (feedFuel st a) st.s (st.buf ++ a) b
      (feedFuel ⟨(drain m (feedFuel st a) st.s (st.buf ++ a)).s,
                 (drain m (feedFuel st a) st.s (st.buf ++ a)).buf⟩ b) h1 h2
  simp only [List.append_assoc] at key h3 ⊢
  have hle : feedFuel st (a ++ b) ≤ feedFuel st a +
      feedFuel ⟨(drain m (feedFuel st a) st.s (st.buf ++ a)).s,
                 (drain m (feedFuel st a) st.s (st.buf ++ a)).buf⟩ b := by
    simp only [feedFuel, List.length_append]; omega
  have := drain_mono m _ _ _ h3 _ hle
  rw [this] at key
  rw [key]
  simp [h2]

/-- a state in which the dispatch loop has nothing to do (true initially and after every `feed`) -/
def St.Blocked (m : Machine σ Out) (st : St σ) : Prop := m.blocked st.s st.buf = true

theorem feed_blocked (m : Machine σ Out) (hp : Progress m) (st : St σ) (c : Bytes) :
    (feed m st c).1.Blocked m := by
  have := drain_result_blocked m (feedFuel st c) st.s (st.buf ++ c) (feed_ok m hp st c)
  simpa [St.Blocked, feed] using this

theorem feed_nil (m : Machine σ Out) (st : St σ) (h : st.Blocked m) : feed m st [] = (st, [], true) := by
  simp only [feed, List.append_nil]
  rw [drain_blocked_eq m _ _ _ h]

/-- **Segmentation independence**: any chunking of a stream behaves like the stream delivered at once:
    same final state (including what is still buffered), same outputs in the same order.
    All `2^(n-1)` chunkings of every stream, for every instance of the machine. -/
theorem feedAll_flatten (m : Machine σ Out) (hp : Progress m) : ∀ (cs : List Bytes) (st : St σ),
    st.Blocked m → feedAll m st cs = feed m st cs.flatten := by
  intro cs
  induction cs with
  | nil =>
    intro st hb
    simp [feedAll, feed_nil m st hb]
  | cons c cs ih =>
    intro st hb
    have h1 := feed_blocked m hp st c
    have hih := ih (feed m st c).1 h1
    have hff := feed_feed m hp st c cs.flatten
    simp only at hff
    simp only [feedAll, List.flatten_cons, hih, hff]
    have ok1 := feed_ok m hp st c
    have ok2 := feed_ok m hp (feed m st c).1 cs.flatten
    simp [ok1, ok2]

/-- two chunkings of the same stream are indistinguishable -/
theorem chunkings_agree (m : Machine σ Out) (hp : Progress m) (st : St σ) (hb : st.Blocked m)
    (cs ds : List Bytes) (h : cs.flatten = ds.flatten) : feedAll m st cs = feedAll m st ds := by
  rw [feedAll_flatten m hp cs st hb, feedAll_flatten m hp ds st hb, h]

end Vnc
