import VncModel.Forever
import VncProofs.C17
/-!
# C17 with several viewers (`vnclog --forever DIR`)

`C17_session` is about one connection.  The proxy's factory serves any number of viewers, at the same time, each recording
into its own file.  Here: for EVERY schedule of connects, chunks and disconnects of any number of viewers

* each connection's file holds exactly the script that connection would have produced alone (`Forever_own_script`) - other
  viewers connecting, typing or leaving change nothing, so `C17_session` and the recorder theorems apply to every viewer;
* no two files ever have the same name (`Forever_names_unique`), whatever the connection times;
* the two defects of the pinned tree, as theorems about the OLD rule (close `_out`, name = second): `Forever_old_loses`
  exhibits a schedule on which the old factory loses an entry.
-/
namespace Vnc

/-- the chunks of connection `c` in a schedule, with their times, up to its disconnect -/
def chunksUntilLose (c : Nat) : List FEv → List (Nat × Bytes)
  | [] => []
  | .recv c' now ch :: r => if c' == c then (now, ch) :: chunksUntilLose c r else chunksUntilLose c r
  | .lose c' :: r => if c' == c then [] else chunksUntilLose c r
  | .connect _ _ :: r => chunksUntilLose c r

/-! ## helper lemmas -/

def fmeta (f : FFile) : Nat × Nat × Bool := (f.sec, f.suffix, f.closed)

theorem appendTo_getElem? (files : List FFile) (i j : Nat) (t : List Char) :
    (appendTo files i t)[j]? = (files[j]?).map (fun fl => if j == i then { fl with text := fl.text ++ t } else fl) := by
  simp [appendTo, List.getElem?_mapIdx]

theorem closeFile_getElem? (files : List FFile) (i j : Nat) :
    (closeFile files i)[j]? = (files[j]?).map (fun fl => if j == i then { fl with closed := true } else fl) := by
  simp [closeFile, List.getElem?_mapIdx]

theorem appendTo_meta (files : List FFile) (i : Nat) (t : List Char) :
    (appendTo files i t).map fmeta = files.map fmeta := by
  apply List.ext_getElem?
  intro j
  simp only [List.getElem?_map, appendTo_getElem?, Option.map_map]
  cases files[j]? with
  | none => rfl
  | some fl => by_cases h : j = i <;> simp [h, fmeta]

/-- the recorder of one chunk, alone -/
def soloRec (r : RecSt) (now : Nat) : List PEvent → RecSt × List Char
  | [] => (r, [])
  | ev :: evs =>
    if !r.recording then (r, [])
    else
      let p := soloRec (recStep r now ev).1 now evs
      (p.1, ((recStep r now ev).2.getD []) ++ p.2)

def soloFoldStep (now : Nat) (acc : RecSt × List Char) (ev : PEvent) : RecSt × List Char :=
  if !acc.1.recording then acc
  else
    let (r1, txt) := recStep acc.1 now ev
    (r1, acc.2 ++ (txt.getD []))

theorem soloFold_stopped (now : Nat) (evs : List PEvent) (acc : RecSt × List Char) (h : acc.1.recording = false) :
    evs.foldl (soloFoldStep now) acc = acc := by
  induction evs with
  | nil => rfl
  | cons ev evs ih => simp [List.foldl_cons, soloFoldStep, h, ih]

theorem soloFold_eq (now : Nat) (evs : List PEvent) : ∀ (r : RecSt) (acc : List Char),
    evs.foldl (soloFoldStep now) (r, acc) = ((soloRec r now evs).1, acc ++ (soloRec r now evs).2) := by
  induction evs with
  | nil => intro r acc; simp [soloRec]
  | cons ev evs ih =>
    intro r acc
    by_cases h : r.recording = false
    · rw [soloFold_stopped now _ _ h]; simp [soloRec, h]
    · have h' : r.recording = true := by simpa using h
      simp only [List.foldl_cons, soloFoldStep, h', soloRec]
      simp [ih, List.append_assoc]

theorem recordInto_meta (i : Nat) (now : Nat) (evs : List PEvent) : ∀ (files : List FFile) (r : RecSt),
    (recordInto files i r now evs).1.map fmeta = files.map fmeta := by
  induction evs with
  | nil => intro files r; rfl
  | cons ev evs ih =>
    intro files r
    simp only [recordInto]
    split
    · rfl
    · cases h : (recStep r now ev).2 with
      | none => exact ih _ _
      | some t =>
        simp only []
        split
        · rfl
        · rw [ih, appendTo_meta]

theorem recordInto_other (i j : Nat) (hij : j ≠ i) (now : Nat) (evs : List PEvent) : ∀ (files : List FFile) (r : RecSt),
    (recordInto files i r now evs).1[j]? = files[j]? := by
  induction evs with
  | nil => intro files r; rfl
  | cons ev evs ih =>
    intro files r
    simp only [recordInto]
    split
    · rfl
    · cases h : (recStep r now ev).2 with
      | none => exact ih _ _
      | some t =>
        simp only []
        split
        · rfl
        · rw [ih, appendTo_getElem?]; simp [hij]

theorem recordInto_closed (i : Nat) (now : Nat) (evs : List PEvent) (files : List FFile)
    (hc : ((files[i]?).map (·.closed)).getD true = true) : ∀ (r : RecSt),
    (recordInto files i r now evs).1 = files := by
  induction evs with
  | nil => intro r; rfl
  | cons ev evs ih =>
    intro r
    simp only [recordInto]
    split
    · rfl
    · cases h : (recStep r now ev).2 with
      | none => exact ih _
      | some t => simp

theorem recordInto_open (i : Nat) (now : Nat) (evs : List PEvent) : ∀ (files : List FFile) (r : RecSt) (fl : FFile),
    files[i]? = some fl → fl.closed = false →
    (recordInto files i r now evs).1[i]? = some { fl with text := fl.text ++ (soloRec r now evs).2 } ∧
    (recordInto files i r now evs).2 = (soloRec r now evs).1 := by
  induction evs with
  | nil => intro files r fl h hc; simp [recordInto, soloRec, h]
  | cons ev evs ih =>
    intro files r fl hf hc
    simp only [recordInto, soloRec]
    split
    · simp [hf]
    · cases h : (recStep r now ev).2 with
      | none =>
        have := ih files (recStep r now ev).1 fl hf hc
        simpa using this
      | some t =>
        simp only [hf, Option.map_some, Option.getD_some, hc]
        have hf' : (appendTo files i t)[i]? = some { fl with text := fl.text ++ t } := by
          rw [appendTo_getElem?, hf]; simp
        have := ih (appendTo files i t) (recStep r now ev).1 _ hf' hc
        simpa [List.append_assoc, hc] using this

/-! ## connections -/

def ConnRel (a b : Nat × Conn) : Prop := a.1 ≠ b.1 ∧ a.2.file ≠ b.2.file

structure FInv (f : Factory) : Prop where
  live : ∀ e ∈ f.conns, ∃ fl, f.files[e.2.file]? = some fl ∧ fl.closed = false
  distinct : f.conns.Pairwise ConnRel

theorem pw_unique {l : List (Nat × Conn)} (h : l.Pairwise ConnRel) :
    ∀ a ∈ l, ∀ b ∈ l, (a.1 = b.1 ∨ a.2.file = b.2.file) → a = b := by
  induction h with
  | nil => intro a ha; cases ha
  | @cons x l hall _ ih =>
    intro a ha b hb hab
    rcases List.mem_cons.1 ha with rfl | ha' <;> rcases List.mem_cons.1 hb with rfl | hb'
    · rfl
    · have := hall b hb'; unfold ConnRel at this; rcases hab with h | h
      · exact absurd h this.1
      · exact absurd h this.2
    · have := hall a ha'; unfold ConnRel at this; rcases hab with h | h
      · exact absurd h.symm this.1
      · exact absurd h.symm this.2
    · exact ih a ha' b hb' hab

theorem conn?_mem {f : Factory} {c : Nat} {k : Conn} (h : f.conn? c = some k) : (c, k) ∈ f.conns := by
  unfold Factory.conn? at h
  cases hf : f.conns.find? (fun e => e.1 == c) with
  | none => simp [hf] at h
  | some e =>
    simp [hf] at h
    have h1 := List.find?_some hf
    have h2 := List.mem_of_find?_eq_some hf
    have : e = (c, k) := by cases e; simp at h1 h; simp [h1, h]
    exact this ▸ h2

theorem find_map_set (l : List (Nat × Conn)) (c' c : Nat) (k' : Conn) :
    ((l.map fun e => if e.1 == c' then (c', k') else e).find? (fun e => e.1 == c)).map (·.2) =
      if c' = c then (l.find? (fun e => e.1 == c)).map (fun _ => k') else (l.find? (fun e => e.1 == c)).map (·.2) := by
  induction l with
  | nil => simp
  | cons x l ih =>
    simp only [List.map_cons, List.find?_cons]
    by_cases h1 : x.1 = c'
    · have e1 : (x.1 == c') = true := by simpa using h1
      simp only [e1, if_true]
      by_cases h2 : c' = c
      · have e2 : (c' == c) = true := by simpa using h2
        have e3 : (x.1 == c) = true := by simp [h1, h2]
        simp [e3, h2]
      · have e2 : (c' == c) = false := by simpa using h2
        have e3 : (x.1 == c) = false := by simp [h1, h2]
        simp only [e2, e3]; exact ih
    · have e1 : (x.1 == c') = false := by simpa using h1
      simp only [e1, Bool.false_eq_true, if_false]
      by_cases h3 : x.1 = c
      · have e3 : (x.1 == c) = true := by simpa using h3
        have h2 : ¬ c' = c := fun h => h1 (h3.trans h.symm)
        simp [e3, h2]
      · have e3 : (x.1 == c) = false := by simpa using h3
        simp only [e3]; exact ih

theorem conn?_setConn_ne (f : Factory) (c' c : Nat) (k' : Conn) (h : c' ≠ c) :
    (f.setConn c' k').conn? c = f.conn? c := by
  simp only [Factory.conn?, Factory.setConn, find_map_set, h, if_false]

theorem conn?_setConn_eq (f : Factory) (c : Nat) (k k' : Conn) (h : f.conn? c = some k) :
    (f.setConn c k').conn? c = some k' := by
  simp only [Factory.conn?, Factory.setConn, find_map_set, if_true]
  simp only [Factory.conn?] at h
  cases hf : f.conns.find? (fun e => e.1 == c) with
  | none => simp [hf] at h
  | some e => simp

theorem find_filter_ne (l : List (Nat × Conn)) (c' c : Nat) (h : c' ≠ c) :
    (l.filter fun e => e.1 != c').find? (fun e => e.1 == c) = l.find? (fun e => e.1 == c) := by
  induction l with
  | nil => rfl
  | cons x l ih =>
    by_cases h1 : x.1 = c' <;> by_cases h3 : x.1 = c <;> simp_all

theorem find_filter_eq (l : List (Nat × Conn)) (c : Nat) :
    (l.filter fun e => e.1 != c).find? (fun e => e.1 == c) = none := by
  simp [List.find?_eq_none]

/-! ## the steps, unfolded -/

theorem fstep_recv_none (f : Factory) (c now : Nat) (ch : Bytes) (h : f.conn? c = none) :
    fstep f (.recv c now ch) = f := by simp [fstep, h]

theorem fstep_recv_off (f : Factory) (c now : Nat) (ch : Bytes) (k : Conn) (h : f.conn? c = some k)
    (hr : k.rcd.recording = false) : fstep f (.recv c now ch) = f := by simp [fstep, h, hr]

theorem fstep_recv_on (f : Factory) (c now : Nat) (ch : Bytes) (k : Conn) (h : f.conn? c = some k)
    (hr : k.rcd.recording = true) :
    fstep f (.recv c now ch) =
      ({ f with files := (recordInto f.files k.file k.rcd now (feed proxyMachine k.px ch).2.1).1 }).setConn c
        { k with px := (feed proxyMachine k.px ch).1,
                 rcd := (recordInto f.files k.file k.rcd now (feed proxyMachine k.px ch).2.1).2 } := by
  simp [fstep, h, hr]

theorem fstep_lose_none (f : Factory) (c : Nat) (h : f.conn? c = none) : fstep f (.lose c) = f := by
  simp [fstep, h]

def Factory.afterLose (f : Factory) (c : Nat) (k : Conn) : Factory :=
  { f with files := closeFile f.files k.file, conns := f.conns.filter fun e => e.1 != c,
           out := if f.out == some k.file then none else f.out }

theorem fstep_lose_some (f : Factory) (c : Nat) (k : Conn) (h : f.conn? c = some k) :
    fstep f (.lose c) = f.afterLose c k := by
  simp [fstep, h, Factory.afterLose]

theorem meta_getElem? {fs fs' : List FFile} (h : fs'.map fmeta = fs.map fmeta) {j : Nat} {fl : FFile}
    (hj : fs[j]? = some fl) : ∃ fl', fs'[j]? = some fl' ∧ fmeta fl' = fmeta fl := by
  have h1 : (fs'.map fmeta)[j]? = (fs.map fmeta)[j]? := by rw [h]
  simp only [List.getElem?_map, hj, Option.map_some] at h1
  cases h2 : fs'[j]? with
  | none => simp [h2] at h1
  | some fl' => simp [h2] at h1; exact ⟨fl', rfl, h1⟩

theorem setConn_entry {l : List (Nat × Conn)} (hd : l.Pairwise ConnRel) {c : Nat} {k k' : Conn}
    (hk : (c, k) ∈ l) (hk' : k'.file = k.file) (e : Nat × Conn) (he : e ∈ l) :
    (if e.1 == c then (c, k') else e).1 = e.1 ∧ (if e.1 == c then (c, k') else e).2.file = e.2.file := by
  by_cases h : e.1 = c
  · have := pw_unique hd e he (c, k) hk (Or.inl h)
    subst this
    simp [hk']
  · have : (e.1 == c) = false := by simpa using h
    simp [this]

theorem FInv_connect (f : Factory) (c now : Nat) (h : FInv f) : FInv (fstep f (.connect c now)) := by
  constructor
  · intro e he
    simp only [fstep, List.mem_append, List.mem_filter, List.mem_singleton] at he
    rcases he with ⟨he, _⟩ | rfl
    · obtain ⟨fl, hfl, hc⟩ := h.live e he
      refine ⟨fl, ?_, hc⟩
      have hlt : e.2.file < f.files.length := (List.getElem?_eq_some_iff.1 hfl).1
      simp only [fstep]
      rw [List.getElem?_append_left hlt]; exact hfl
    · simp [fstep]
  · simp only [fstep]
    rw [List.pairwise_append]
    refine ⟨h.distinct.filter _, by simp, ?_⟩
    intro a ha b hb
    simp only [List.mem_filter] at ha
    simp only [List.mem_singleton] at hb
    subst hb
    obtain ⟨fl, hfl, _⟩ := h.live a ha.1
    have hlt : a.2.file < f.files.length := (List.getElem?_eq_some_iff.1 hfl).1
    refine ⟨by simpa using ha.2, ?_⟩
    simp only; omega

theorem FInv_set (f : Factory) (c : Nat) (k k' : Conn) (files' : List FFile) (h : FInv f)
    (hk : f.conn? c = some k) (hk' : k'.file = k.file) (hm : files'.map fmeta = f.files.map fmeta) :
    FInv (({ f with files := files' }).setConn c k') := by
  have hmem := conn?_mem hk
  have hent := setConn_entry h.distinct hmem hk'
  constructor
  · intro e' he'
    simp only [Factory.setConn, List.mem_map] at he'
    obtain ⟨e, he, rfl⟩ := he'
    rw [(hent e he).2]
    obtain ⟨fl, hfl, hc⟩ := h.live e he
    obtain ⟨fl', hfl', hm'⟩ := meta_getElem? hm hfl
    refine ⟨fl', hfl', ?_⟩
    simp only [fmeta, Prod.mk.injEq] at hm'
    rw [hm'.2.2]; exact hc
  · simp only [Factory.setConn]
    rw [List.pairwise_map]
    refine h.distinct.imp_of_mem ?_
    intro a b ha hb hab
    have h1 := hent a ha
    have h2 := hent b hb
    unfold ConnRel at hab ⊢
    rw [h1.1, h1.2, h2.1, h2.2]; exact hab

theorem FInv_recv (f : Factory) (c now : Nat) (ch : Bytes) (h : FInv f) : FInv (fstep f (.recv c now ch)) := by
  cases hk : f.conn? c with
  | none => rw [fstep_recv_none f c now ch hk]; exact h
  | some k =>
    by_cases hr : k.rcd.recording = false
    · rw [fstep_recv_off f c now ch k hk hr]; exact h
    · have hr' : k.rcd.recording = true := by simpa using hr
      rw [fstep_recv_on f c now ch k hk hr']
      exact FInv_set f c k _ _ h hk rfl (recordInto_meta _ _ _ _ _)

theorem FInv_lose (f : Factory) (c : Nat) (h : FInv f) : FInv (fstep f (.lose c)) := by
  cases hk : f.conn? c with
  | none => rw [fstep_lose_none f c hk]; exact h
  | some k =>
    rw [fstep_lose_some f c k hk]
    have hmem := conn?_mem hk
    constructor
    · intro e he
      simp only [Factory.afterLose, List.mem_filter] at he
      obtain ⟨fl, hfl, hc⟩ := h.live e he.1
      have hne : e.2.file ≠ k.file := by
        intro heq
        have := pw_unique h.distinct e he.1 (c, k) hmem (Or.inr heq)
        subst this
        simp at he
      refine ⟨fl, ?_, hc⟩
      simp only [Factory.afterLose, closeFile_getElem?, hfl, Option.map_some]
      simp [hne]
    · exact h.distinct.filter _

theorem FInv_step (f : Factory) (e : FEv) (h : FInv f) : FInv (fstep f e) := by
  cases e with
  | connect c now => exact FInv_connect f c now h
  | recv c now ch => exact FInv_recv f c now ch h
  | lose c => exact FInv_lose f c h

theorem FInv_init (pw : Bool) : FInv { pw := pw } := ⟨(by intro e he; cases he), List.Pairwise.nil⟩

theorem FInv_run (evs : List FEv) : ∀ (f : Factory), FInv f → FInv (frun f evs) := by
  induction evs with
  | nil => intro f h; exact h
  | cons e evs ih => intro f h; exact ih _ (FInv_step f e h)

/-! ## soloScript, unfolded -/

theorem soloScript_off (st : St PSt) (r : RecSt) (l : List (Nat × Bytes)) (hr : r.recording = false) :
    soloScript st r l = [] := by
  cases l with
  | nil => rfl
  | cons x rest => obtain ⟨now, ch⟩ := x; simp [soloScript, hr]

theorem soloScript_on (st : St PSt) (r : RecSt) (now : Nat) (ch : Bytes) (rest : List (Nat × Bytes))
    (hr : r.recording = true) :
    soloScript st r ((now, ch) :: rest) =
      (soloRec r now (feed proxyMachine st ch).2.1).2 ++
        soloScript (feed proxyMachine st ch).1 (soloRec r now (feed proxyMachine st ch).2.1).1 rest := by
  rw [soloScript]
  simp only [hr, Bool.not_true, Bool.false_eq_true, if_false]
  change (List.foldl (soloFoldStep now) (r, []) _).2 ++ soloScript _ (List.foldl (soloFoldStep now) (r, []) _).1 rest = _
  rw [soloFold_eq]; simp

/-! ## closed files are final -/

theorem closed_step (f : Factory) (e : FEv) (i : Nat) (fl : FFile) (h : f.files[i]? = some fl)
    (hc : fl.closed = true) :
    ∃ fl', (fstep f e).files[i]? = some fl' ∧ fl'.closed = true ∧ fl'.text = fl.text := by
  cases e with
  | connect c now =>
    have hlt : i < f.files.length := (List.getElem?_eq_some_iff.1 h).1
    refine ⟨fl, ?_, hc, rfl⟩
    simp only [fstep]
    rw [List.getElem?_append_left hlt]; exact h
  | recv c now ch =>
    cases hk : f.conn? c with
    | none => rw [fstep_recv_none f c now ch hk]; exact ⟨fl, h, hc, rfl⟩
    | some k =>
      by_cases hr : k.rcd.recording = false
      · rw [fstep_recv_off f c now ch k hk hr]; exact ⟨fl, h, hc, rfl⟩
      · have hr' : k.rcd.recording = true := by simpa using hr
        rw [fstep_recv_on f c now ch k hk hr']
        refine ⟨fl, ?_, hc, rfl⟩
        show (recordInto f.files k.file k.rcd now (feed proxyMachine k.px ch).2.1).1[i]? = some fl
        by_cases hik : i = k.file
        · subst hik
          rw [recordInto_closed _ _ _ _ (by simp [h, hc])]; exact h
        · rw [recordInto_other _ _ hik]; exact h
  | lose c =>
    cases hk : f.conn? c with
    | none => rw [fstep_lose_none f c hk]; exact ⟨fl, h, hc, rfl⟩
    | some k =>
      rw [fstep_lose_some f c k hk]
      simp only [Factory.afterLose, closeFile_getElem?, h, Option.map_some]
      by_cases hik : i = k.file <;> simp [hik, hc]

theorem closed_run (evs : List FEv) : ∀ (f : Factory) (i : Nat) (fl : FFile), f.files[i]? = some fl →
    fl.closed = true →
    ∃ fl', (frun f evs).files[i]? = some fl' ∧ fl'.closed = true ∧ fl'.text = fl.text := by
  induction evs with
  | nil => intro f i fl h hc; exact ⟨fl, h, hc, rfl⟩
  | cons e evs ih =>
    intro f i fl h hc
    obtain ⟨fl1, h1, hc1, ht1⟩ := closed_step f e i fl h hc
    obtain ⟨fl2, h2, hc2, ht2⟩ := ih (fstep f e) i fl1 h1 hc1
    exact ⟨fl2, h2, hc2, ht2.trans ht1⟩

/-! ## the script of one connection -/

theorem own_script_gen (c : Nat) : ∀ (post : List FEv) (f : Factory) (k : Conn) (fl : FFile),
    FInv f → f.conn? c = some k → f.files[k.file]? = some fl →
    (∀ e ∈ post, ∀ t, e ≠ FEv.connect c t) →
    ((frun f post).files[k.file]?).map (·.text) =
      some (fl.text ++ soloScript k.px k.rcd (chunksUntilLose c post)) := by
  intro post
  induction post with
  | nil => intro f k fl _ _ hfl _; simp [frun, chunksUntilLose, soloScript, hfl]
  | cons e post ih =>
    intro f k fl hinv hk hfl hpost
    have hpost' : ∀ e ∈ post, ∀ t, e ≠ FEv.connect c t := fun e he => hpost e (List.mem_cons_of_mem _ he)
    have hinv' := FInv_step f e hinv
    have hmem := conn?_mem hk
    obtain ⟨fl0, hfl0, hopen⟩ := hinv.live _ hmem
    have hopen : fl.closed = false := by
      simp only at hfl0; rw [hfl] at hfl0; cases hfl0; exact hopen
    show ((frun (fstep f e) post).files[k.file]?).map (·.text) = _
    cases e with
    | connect c' now =>
      have hne : c' ≠ c := by
        intro h; subst h; exact hpost _ (List.mem_cons_self) now rfl
      have hk' : (fstep f (.connect c' now)).conn? c = some k := by
        simp only [fstep, Factory.conn?]
        rw [List.find?_append, find_filter_ne _ _ _ hne]
        simp only [Factory.conn?] at hk
        cases hf : f.conns.find? (fun e => e.1 == c) with
        | none => simp [hf] at hk
        | some e => simp [hf] at hk ⊢; exact hk
      have hfl' : (fstep f (.connect c' now)).files[k.file]? = some fl := by
        have hlt : k.file < f.files.length := (List.getElem?_eq_some_iff.1 hfl).1
        simp only [fstep]
        rw [List.getElem?_append_left hlt]; exact hfl
      simpa [chunksUntilLose] using ih _ k fl hinv' hk' hfl' hpost'
    | recv c' now ch =>
      by_cases hcc : c' = c
      · subst hcc
        by_cases hr : k.rcd.recording = false
        · rw [fstep_recv_off f c' now ch k hk hr] at hinv' ⊢
          have := ih f k fl hinv hk hfl hpost'
          rw [this, soloScript_off _ _ _ hr, soloScript_off _ _ _ hr]
        · have hr' : k.rcd.recording = true := by simpa using hr
          rw [fstep_recv_on f c' now ch k hk hr'] at hinv' ⊢
          obtain ⟨h1, h2⟩ := recordInto_open k.file now (feed proxyMachine k.px ch).2.1 f.files k.rcd fl hfl hopen
          have hk' := conn?_setConn_eq { f with files := (recordInto f.files k.file k.rcd now (feed proxyMachine k.px ch).2.1).1 }
            c' k { k with px := (feed proxyMachine k.px ch).1,
                          rcd := (recordInto f.files k.file k.rcd now (feed proxyMachine k.px ch).2.1).2 } hk
          have := ih _ _ _ hinv' hk' h1 hpost'
          simp only at this
          rw [this, h2]
          simp only [chunksUntilLose, beq_self_eq_true, if_true]
          rw [soloScript_on _ _ _ _ _ hr', List.append_assoc]
      · have hc1 : (c' == c) = false := by simpa using hcc
        simp only [chunksUntilLose, hc1, Bool.false_eq_true, if_false]
        cases hk1 : f.conn? c' with
        | none =>
          rw [fstep_recv_none f c' now ch hk1] at hinv' ⊢
          exact ih f k fl hinv hk hfl hpost'
        | some k1 =>
          by_cases hr : k1.rcd.recording = false
          · rw [fstep_recv_off f c' now ch k1 hk1 hr] at hinv' ⊢
            exact ih f k fl hinv hk hfl hpost'
          · have hr' : k1.rcd.recording = true := by simpa using hr
            rw [fstep_recv_on f c' now ch k1 hk1 hr'] at hinv' ⊢
            have hfne : k.file ≠ k1.file := by
              intro heq
              have := pw_unique hinv.distinct _ hmem _ (conn?_mem hk1) (Or.inr heq)
              simp only [Prod.mk.injEq] at this
              exact hcc this.1.symm
            have hfl' := (recordInto_other k1.file k.file hfne now (feed proxyMachine k1.px ch).2.1 f.files k1.rcd).trans hfl
            refine ih _ k fl hinv' ?_ hfl' hpost'
            rw [conn?_setConn_ne _ _ _ _ hcc]; exact hk
    | lose c' =>
      by_cases hcc : c' = c
      · subst hcc
        simp only [chunksUntilLose, beq_self_eq_true, if_true, soloScript, List.append_nil]
        rw [fstep_lose_some f c' k hk]
        have h1 : (closeFile f.files k.file)[k.file]? = some { fl with closed := true } := by
          simp [closeFile_getElem?, hfl]
        obtain ⟨fl', hfl', _, ht⟩ := closed_run post (f.afterLose c' k) k.file _ h1 rfl
        rw [hfl']; simp [ht]
      · have hc1 : (c' == c) = false := by simpa using hcc
        simp only [chunksUntilLose, hc1, Bool.false_eq_true, if_false]
        cases hk1 : f.conn? c' with
        | none =>
          rw [fstep_lose_none f c' hk1] at hinv' ⊢
          exact ih f k fl hinv hk hfl hpost'
        | some k1 =>
          rw [fstep_lose_some f c' k1 hk1] at hinv' ⊢
          have hfne : k.file ≠ k1.file := by
            intro heq
            have := pw_unique hinv.distinct _ hmem _ (conn?_mem hk1) (Or.inr heq)
            simp only [Prod.mk.injEq] at this
            exact hcc this.1.symm
          have hk' : (f.afterLose c' k1).conn? c = some k := by
            simp only [Factory.conn?, Factory.afterLose]
            rw [find_filter_ne _ _ _ hcc]; exact hk
          have hfl' : (closeFile f.files k1.file)[k.file]? = some fl := by
            simp [closeFile_getElem?, hfl, hfne]
          exact ih _ k fl hinv' hk' hfl' hpost'

/-! ## names -/

def fname (f : FFile) : Nat × Nat := (f.sec, f.suffix)

theorem fname_of_meta {fs fs' : List FFile} (h : fs'.map fmeta = fs.map fmeta) : fs'.map fname = fs.map fname := by
  have := congrArg (List.map (fun m : Nat × Nat × Bool => (m.1, m.2.1))) h
  simp only [List.map_map, Function.comp_def, fmeta] at this
  exact this

theorem closeFile_fname (files : List FFile) (i : Nat) : (closeFile files i).map fname = files.map fname := by
  apply List.ext_getElem?
  intro j
  simp only [List.getElem?_map, closeFile_getElem?, Option.map_map]
  cases files[j]? with
  | none => rfl
  | some fl => by_cases h : j = i <;> simp [h, fname]

theorem freeSuffix_spec (files : List FFile) (sec : Nat) : ∀ (fuel n : Nat),
    nameTaken files sec (freeSuffix files sec fuel n) = false ∨
      ∀ k, n ≤ k → k < n + fuel → nameTaken files sec k = true := by
  intro fuel
  induction fuel with
  | zero => intro n; right; intro k h1 h2; omega
  | succ fuel ih =>
    intro n
    by_cases ht : nameTaken files sec n = true
    · simp only [freeSuffix, ht, if_true]
      rcases ih (n + 1) with h | h
      · left; exact h
      · right; intro k h1 h2
        by_cases hk : k = n
        · subst hk; exact ht
        · exact h k (by omega) (by omega)
    · left
      simp only [freeSuffix, ht, Bool.false_eq_true, if_false]

def inRange (sec n m : Nat) (f : FFile) : Bool := f.sec == sec && (decide (n ≤ f.suffix) && decide (f.suffix < n + m))
def isName (sec k : Nat) (f : FFile) : Bool := f.sec == sec && f.suffix == k

theorem count_split (sec n m : Nat) (l : List FFile) :
    l.countP (inRange sec n (m + 1)) = l.countP (inRange sec n m) + l.countP (isName sec (n + m)) := by
  induction l with
  | nil => rfl
  | cons a l ih =>
    simp only [List.countP_cons, ih]
    have : (if inRange sec n (m + 1) a = true then 1 else 0) =
        (if inRange sec n m a = true then 1 else 0) + (if isName sec (n + m) a = true then 1 else 0) := by
      simp only [inRange, isName, Bool.and_eq_true, beq_iff_eq, decide_eq_true_eq]
      by_cases h1 : a.sec = sec
      · simp only [h1, true_and]
        split <;> split <;> split <;> omega
      · simp [h1]
    omega

theorem taken_count (sec n : Nat) (l : List FFile) : ∀ m,
    (∀ k, n ≤ k → k < n + m → nameTaken l sec k = true) → m ≤ l.countP (inRange sec n m) := by
  intro m
  induction m with
  | zero => intro _; omega
  | succ m ih =>
    intro h
    have h1 := ih (fun k hk1 hk2 => h k hk1 (by omega))
    have h2 : 0 < l.countP (isName sec (n + m)) := by
      rw [List.countP_pos_iff]
      have := h (n + m) (by omega) (by omega)
      simpa [nameTaken, isName] using this
    rw [count_split]; omega

theorem freeSuffix_free (files : List FFile) (sec : Nat) :
    nameTaken files sec (freeSuffix files sec (files.length + 1) 1) = false := by
  rcases freeSuffix_spec files sec (files.length + 1) 1 with h | h
  · exact h
  · have h1 := taken_count sec 1 files (files.length + 1) h
    have h2 := List.countP_le_length (p := inRange sec 1 (files.length + 1)) (l := files)
    omega

def NInv (f : Factory) : Prop := (f.files.map fname).Pairwise (· ≠ ·)

theorem NInv_step (f : Factory) (e : FEv) (h : NInv f) : NInv (fstep f e) := by
  unfold NInv at h ⊢
  cases e with
  | connect c now =>
    simp only [fstep, List.map_append, List.map_cons, List.map_nil]
    rw [List.pairwise_append]
    refine ⟨h, by simp, ?_⟩
    intro a ha b hb
    simp only [List.mem_singleton] at hb
    subst hb
    simp only [List.mem_map] at ha
    obtain ⟨fl, hfl, rfl⟩ := ha
    have := freeSuffix_free f.files (now / 10000)
    simp only [nameTaken, List.any_eq_false] at this
    have := this fl hfl
    intro heq
    simp only [fname, Prod.mk.injEq] at heq
    simp [heq.1, heq.2] at this
  | recv c now ch =>
    cases hk : f.conn? c with
    | none => rw [fstep_recv_none f c now ch hk]; exact h
    | some k =>
      by_cases hr : k.rcd.recording = false
      · rw [fstep_recv_off f c now ch k hk hr]; exact h
      · have hr' : k.rcd.recording = true := by simpa using hr
        rw [fstep_recv_on f c now ch k hk hr']
        show ((recordInto f.files k.file k.rcd now (feed proxyMachine k.px ch).2.1).1.map fname).Pairwise (· ≠ ·)
        rw [fname_of_meta (recordInto_meta _ _ _ _ _)]; exact h
  | lose c =>
    cases hk : f.conn? c with
    | none => rw [fstep_lose_none f c hk]; exact h
    | some k =>
      rw [fstep_lose_some f c k hk]
      simp only [Factory.afterLose, closeFile_fname]; exact h

theorem NInv_run (evs : List FEv) : ∀ (f : Factory), NInv f → NInv (frun f evs) := by
  induction evs with
  | nil => intro f h; exact h
  | cons e evs ih => intro f h; exact ih _ (NInv_step f e h)

theorem pw_step (f : Factory) (e : FEv) : (fstep f e).pw = f.pw := by
  cases e with
  | connect c now => rfl
  | recv c now ch =>
    cases hk : f.conn? c with
    | none => rw [fstep_recv_none f c now ch hk]
    | some k =>
      by_cases hr : k.rcd.recording = false
      · rw [fstep_recv_off f c now ch k hk hr]
      · have hr' : k.rcd.recording = true := by simpa using hr
        rw [fstep_recv_on f c now ch k hk hr']; rfl
  | lose c =>
    cases hk : f.conn? c with
    | none => rw [fstep_lose_none f c hk]
    | some k => rw [fstep_lose_some f c k hk]; rfl

theorem pw_run (evs : List FEv) : ∀ (f : Factory), (frun f evs).pw = f.pw := by
  induction evs with
  | nil => intro f; rfl
  | cons e evs ih => intro f; exact (ih _).trans (pw_step f e)

theorem frun_append (f : Factory) (a b : List FEv) : frun f (a ++ b) = frun (frun f a) b := by
  simp [frun, List.foldl_append]

/-! ## the theorems -/

/-- **every viewer gets its own script**: in any schedule, the file opened for connection `c` ends up holding exactly what
    `c` alone would have recorded -/
theorem Forever_own_script (pw : Bool) (pre post : List FEv) (c t0 : Nat)
    (hpost : ∀ e ∈ post, ∀ t, e ≠ FEv.connect c t) :
    let f1 := frun { pw := pw } pre
    ((frun { pw := pw } (pre ++ [FEv.connect c t0] ++ post)).files[f1.files.length]?).map (·.text) =
      some (soloScript ⟨PSt.init pw, []⟩ { last := t0 } (chunksUntilLose c post)) := by
  intro f1
  have hinv1 : FInv f1 := FInv_run pre _ (FInv_init pw)
  have hpw : f1.pw = pw := pw_run pre _
  rw [frun_append, frun_append]
  show ((frun (fstep f1 (.connect c t0)) post).files[f1.files.length]?).map (·.text) = _
  have hinv2 := FInv_step f1 (.connect c t0) hinv1
  have hk : (fstep f1 (.connect c t0)).conn? c =
      some { px := ⟨PSt.init f1.pw, []⟩, rcd := { last := t0 }, file := f1.files.length } := by
    simp only [fstep, Factory.conn?]
    rw [List.find?_append, find_filter_eq]
    simp
  have hfl : (fstep f1 (.connect c t0)).files[f1.files.length]? =
      some { sec := t0 / 10000, suffix := freeSuffix f1.files (t0 / 10000) (f1.files.length + 1) 1 } := by
    simp [fstep]
  have := own_script_gen c post _ _ _ hinv2 hk hfl hpost
  simp only [hpw] at this
  simpa using this

/-- the file of a connection is named after the second of its connect time -/
theorem Forever_name_second (pw : Bool) (pre : List FEv) (c t0 : Nat) :
    let f1 := frun { pw := pw } pre
    ((frun { pw := pw } (pre ++ [FEv.connect c t0])).files[f1.files.length]?).map (·.sec) = some (t0 / 10000) := by
  intro f1
  rw [frun_append]
  show ((fstep f1 (.connect c t0)).files[f1.files.length]?).map (·.sec) = _
  simp [fstep]

/-- **no two files share a name**, in any reachable state -/
theorem Forever_names_unique (pw : Bool) (evs : List FEv) (i j : Nat) (fi fj : FFile)
    (hi : (frun { pw := pw } evs).files[i]? = some fi) (hj : (frun { pw := pw } evs).files[j]? = some fj)
    (hname : fi.sec = fj.sec ∧ fi.suffix = fj.suffix) : i = j := by
  have hn : NInv (frun { pw := pw } evs) := NInv_run evs _ (by simp [NInv])
  unfold NInv at hn
  rw [List.pairwise_iff_getElem] at hn
  obtain ⟨hi1, hi2⟩ := List.getElem?_eq_some_iff.1 hi
  obtain ⟨hj1, hj2⟩ := List.getElem?_eq_some_iff.1 hj
  have heq : fname fi = fname fj := by simp [fname, hname.1, hname.2]
  rcases Nat.lt_trichotomy i j with h | h | h
  · exfalso
    have := hn i j (by simpa using hi1) (by simpa using hj1) h
    simp only [List.getElem_map, hi2, hj2] at this
    exact this heq
  · exact h
  · exfalso
    have := hn j i (by simpa using hj1) (by simpa using hi1) h
    simp only [List.getElem_map, hi2, hj2] at this
    exact this heq.symm

/-- a file is never written after it has been closed, and it is closed only by its own connection's disconnect: the
    text of a closed file does not change any more -/
theorem Forever_closed_final (pw : Bool) (evs : List FEv) (e : FEv) (i : Nat) (fl : FFile)
    (h : (frun { pw := pw } evs).files[i]? = some fl) (hc : fl.closed = true) :
    ((frun { pw := pw } (evs ++ [e])).files[i]?).map (·.text) = some fl.text := by
  rw [frun_append]
  show ((fstep (frun { pw := pw } evs) e).files[i]?).map (·.text) = _
  obtain ⟨fl', hfl', _, ht⟩ := closed_step _ e i fl h hc
  rw [hfl']; simp [ht]

/-! ## the old rule (before `fix:` 17ff7fc): a disconnect closes `_out`, the file opened LAST -/

def fstepOld (f : Factory) : FEv → Factory
  | .lose c =>
    match f.conn? c with
    | none => f
    | some _ =>
      { f with files := (match f.out with | some o => closeFile f.files o | none => f.files),
               conns := f.conns.filter fun e => e.1 != c,
               out := none }
  | e => fstep f e

def frunOld (f : Factory) (evs : List FEv) : Factory := evs.foldl fstepOld f

/-- key `a` pressed (RFB 3.8 viewer, security None, shared) / a KeyEvent message -/
def fvHello : Bytes := [82, 70, 66, 32, 48, 48, 51, 46, 48, 48, 56, 10, 1, 1]
def fvKey (k : UInt8) (down : UInt8) : Bytes := [4, down, 0, 0, 0, 0, 0, k]

/-- the schedule of `findings/demos.py D17c`: A connects, B connects, A leaves, B types on -/
def fvSchedule : List FEv :=
  [.connect 0 10000000, .recv 0 10000000 (fvHello ++ fvKey 97 1), .connect 1 10020000, .recv 1 10020000 (fvHello ++ fvKey 98 1),
   .lose 0, .recv 1 10020000 (fvKey 98 0)]

/-- under the old rule B's second entry is lost; under the repaired rule it is there -/
theorem Forever_old_loses :
    (((frunOld { pw := false } fvSchedule).files[1]?).map (·.text.length)) ≠
    (((frun { pw := false } fvSchedule).files[1]?).map (·.text.length)) := by
  decide

end Vnc
