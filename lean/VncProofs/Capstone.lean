import VncProofs.EndToEnd
import VncProofs.C12
/-!
# From the bytes on the wire to the reference canvas, in one statement

`E2E_session`: the bytes of any session of FramebufferUpdates (any mix of encodings) through the whole client give a screen
that is the painter folded over the RFC's paint instructions.  `C12_refines_gen`: the painter folded over any history of
instructions is the reference canvas of the property (latest write wins, never-sent pixels black, exact size).
`E2E_session_refines` composes them: **the screen of the whole client after any session equals the reference canvas of
everything the server sent** - with no mention of the client's internals in the statement.
-/
namespace Vnc
open Vnc.Spec

/-- the canvas operation an application callback stands for -/
def outToCOp : Out → Option COp
  | .update x y w h data => some (.upd x.toNat y.toNat w.toNat h.toNat data)
  | .fill x y w h (some col) => some (.upd x.toNat y.toNat w.toNat h.toNat (repeatBytes col (w.toNat * h.toNat)))
  | .cursor x y w h image mask => some (.cursor x y w h image mask)
  | .desktop w h => some (.resize w h)
  | _ => none

theorem applyOut_outToCOp (mode : String) (cv : Canvas) (o : Out) :
    applyOut mode cv o = (match outToCOp o with | some op => op.apply mode cv | none => cv) := by
  cases o with
  | fill x y w h c => cases c <;> rfl
  | _ => rfl

/-- the painter over callbacks is the painter over the canvas operations they stand for -/
theorem applyOuts_canvasRun (mode : String) (cv : Canvas) (outs : List Out) :
    applyOuts mode cv outs = canvasRun mode cv (outs.filterMap outToCOp) := by
  induction outs generalizing cv with
  | nil => rfl
  | cons o outs ih =>
    have h1 : applyOuts mode cv (o :: outs) = applyOuts mode (applyOut mode cv o) outs := rfl
    rw [h1, ih, applyOut_outToCOp]
    cases h : outToCOp o with
    | none => simp [h]
    | some op => simp [h, canvasRun]

theorem repeatBytes_length (p : Bytes) (n : Nat) : (repeatBytes p n).length = n * p.length := by
  simp [repeatBytes, List.length_flatten]

/-- the data-length content of `COp.WF` at the level of callbacks, for `B`-byte pixels -/
def OutOK (B : Nat) : Out → Prop
  | .update _ _ w h data => data.length = w.toNat * h.toNat * B
  | .fill _ _ _ _ (some col) => col.length = B
  | _ => True

theorem OutOK.wf {mode : String} {o : Out} (h : OutOK (modeBypp mode) o) :
    ∀ op, outToCOp o = some op → op.WF mode := by
  intro op hop
  cases o with
  | update x y w h' data =>
    simp only [outToCOp, Option.some.injEq] at hop; subst hop
    exact h
  | fill x y w h' c =>
    cases c with
    | none => simp [outToCOp] at hop
    | some col =>
      simp only [outToCOp, Option.some.injEq] at hop; subst hop
      simp only [OutOK] at h
      simp only [COp.WF, repeatBytes_length, h]
  | cursor x y w h' i m =>
    simp only [outToCOp, Option.some.injEq] at hop; subst hop; trivial
  | desktop w h' =>
    simp only [outToCOp, Option.some.injEq] at hop; subst hop; trivial
  | _ => simp [outToCOp] at hop

/-! ### plain bodies -/
theorem body_paint_ok (B : Nat) (r : Rct) (b : Body) (h : b.WF B r) : ∀ o ∈ b.paint r, OutOK B o := by
  cases b with
  | raw px =>
    intro o ho
    simp only [Body.paint, List.mem_singleton] at ho; subst ho
    simpa [OutOK, Body.WF] using h
  | copyRect sx sy =>
    intro o ho
    simp only [Body.paint, List.mem_singleton] at ho; subst ho; trivial
  | rre bg subs =>
    intro o ho
    simp only [Body.paint, List.mem_cons, List.mem_map] at ho
    rcases ho with rfl | ⟨s, hs, rfl⟩
    · exact h.1
    · exact (h.2.2 s hs).1
  | corre bg subs =>
    intro o ho
    simp only [Body.paint, List.mem_cons, List.mem_map] at ho
    rcases ho with rfl | ⟨s, hs, rfl⟩
    · exact h.1
    · exact (h.2.2 s hs).1
  | cursor px mask =>
    intro o ho
    simp only [Body.paint, List.mem_singleton] at ho; subst ho; trivial
  | desktopSize =>
    intro o ho
    simp only [Body.paint, List.mem_singleton] at ho; subst ho; trivial
  | qemuExtKey =>
    intro o ho
    simp [Body.paint] at ho

/-! ### hextile -/
/-- the colours carried from tile to tile have the pixel size -/
def CarryOK (B : Nat) (k : HexCarry) : Prop :=
  (∀ b, k.bg = some b → b.length = B) ∧ (∀ f, k.fg = some f → f.length = B)

theorem orElse_len (B : Nat) (a b : Option Bytes) (ha : ∀ c, a = some c → c.length = B)
    (hb : ∀ c, b = some c → c.length = B) : ∀ c, (a.orElse fun _ => b) = some c → c.length = B := by
  intro c hc
  cases a with
  | none => exact hb c (by simpa using hc)
  | some a' => exact ha c (by simpa using hc)

theorem hexTile_paint_ok (B tx ty tw th : Nat) (k : HexCarry) (t : HexTile) (hk : CarryOK B k)
    (h : t.WF B tw th k) :
    (∀ o ∈ (t.paint tx ty tw th k).1, OutOK B o) ∧ CarryOK B (t.paint tx ty tw th k).2 := by
  cases t with
  | raw px =>
    refine ⟨?_, hk⟩
    intro o ho
    simp only [HexTile.paint, List.mem_singleton] at ho; subst ho
    simpa [OutOK, HexTile.WF] using h
  | plain bg fg =>
    obtain ⟨h1, h2, _⟩ := h
    have hbg := orElse_len B bg k.bg h1 hk.1
    have hfg := orElse_len B fg k.fg h2 hk.2
    refine ⟨?_, hbg, hfg⟩
    intro o ho
    simp only [HexTile.paint, List.mem_singleton] at ho; subst ho
    cases hb : (bg.orElse fun _ => k.bg) with
    | none => trivial
    | some c => exact hbg c hb
  | subs bg fg coloured rects =>
    obtain ⟨h1, h2, _, _, _, _, h7⟩ := h
    have hbg := orElse_len B bg k.bg h1 hk.1
    have hfg := orElse_len B fg k.fg h2 hk.2
    refine ⟨?_, hbg, ?_⟩
    · intro o ho
      simp only [HexTile.paint, List.mem_cons, List.mem_map] at ho
      rcases ho with rfl | ⟨s, hs, rfl⟩
      · cases hb : (bg.orElse fun _ => k.bg) with
        | none => trivial
        | some c => exact hbg c hb
      · cases coloured with
        | true => exact (h7 s hs).2.2.2.2.2.2 rfl
        | false =>
          simp only [Bool.false_eq_true, if_false]
          cases hf : (fg.orElse fun _ => k.fg) with
          | none => trivial
          | some c => exact hfg c hf
    · cases coloured with
      | false => simpa [HexTile.paint] using hfg
      | true =>
        simp only [HexTile.paint, if_true]
        apply orElse_len B _ _ _ hfg
        intro c hc
        simp only [Option.map_eq_some_iff] at hc
        obtain ⟨s, hs, rfl⟩ := hc
        exact (h7 s (List.mem_of_getLast? hs)).2.2.2.2.2.2 rfl

theorem rowPaint_ok (B x w ty th : Nat) : ∀ (ts : List HexTile) (c : Nat) (k : HexCarry), CarryOK B k →
    rowWF B w th c k ts →
    (∀ o ∈ (rowPaint x w ty th c k ts).1, OutOK B o) ∧ CarryOK B (rowPaint x w ty th c k ts).2 := by
  intro ts
  induction ts with
  | nil => intro c k hk _; exact ⟨by simp [rowPaint], hk⟩
  | cons t ts ih =>
    intro c k hk h
    obtain ⟨h1, h2⟩ := h
    obtain ⟨p1, p2⟩ := hexTile_paint_ok B (x + 16 * c) ty (min 16 (w - 16 * c)) th k t hk h1
    rw [paint_carry t 0 0 _ th (x + 16 * c) ty (min 16 (w - 16 * c)) th k] at h2
    obtain ⟨q1, q2⟩ := ih (c + 1) _ p2 h2
    refine ⟨?_, q2⟩
    intro o ho
    simp only [rowPaint, List.mem_append] at ho
    rcases ho with ho | ho
    · exact p1 o ho
    · exact q1 o ho

theorem rowsPaint_ok (B x y w h : Nat) : ∀ (rows : List (List HexTile)) (r : Nat) (k : HexCarry), CarryOK B k →
    rowsWF B w h r k rows → ∀ o ∈ (rowsPaint x y w h r k rows).1, OutOK B o := by
  intro rows
  induction rows with
  | nil => intro r k _ _; simp [rowsPaint]
  | cons row rows ih =>
    intro r k hk hw
    obtain ⟨h1, h2⟩ := hw
    obtain ⟨p1, p2⟩ := rowPaint_ok B x w (y + 16 * r) (min 16 (h - 16 * r)) row 0 k hk h1
    rw [rowPaint_carry 0 w 0 _ x (y + 16 * r) row 0 k] at h2
    have q := ih (r + 1) _ p2 h2
    intro o ho
    simp only [rowsPaint, List.mem_append] at ho
    rcases ho with ho | ho
    · exact p1 o ho
    · exact q o ho

/-! ### ZRLE -/
theorem runs_length {α : Type} (B : Nat) (f : α → Bytes) (g : α → Nat) : ∀ (runs : List α),
    (∀ r ∈ runs, (f r).length = B) →
    ((runs.map fun r => repeatBytes (f r) (g r)).flatten).length = (runs.map g).sum * B := by
  intro runs
  induction runs with
  | nil => intro _; simp
  | cons a l ih =>
    intro h
    rw [List.map_cons, List.flatten_cons, List.length_append, ih (fun p hp => h p (List.mem_cons_of_mem _ hp)),
      repeatBytes_length, h a (by simp), List.map_cons, List.sum_cons, Nat.add_mul]

theorem zTile_paint_ok (B cp : Nat) (pad : Bool) (hw : ∀ c : Bytes, c.length = cp → (widen pad c).length = B)
    (tx ty tw th : Nat) (t : ZTile) (h : t.WF cp tw th) : OutOK B (t.paint pad tx ty tw th) := by
  cases t with
  | raw px =>
    obtain ⟨h1, h2⟩ := h
    simp only [ZTile.paint, OutOK, ZTile.pixels, Int.toNat_natCast]
    rw [flatten_length_const _ B, List.length_map, h1]
    intro p hp
    simp only [List.mem_map] at hp
    obtain ⟨q, hq, rfl⟩ := hp
    exact hw q (h2 q hq)
  | solid c => exact hw c h
  | packed pal idx =>
    obtain ⟨_, _, h3, h4, h5⟩ := h
    simp only [ZTile.paint, OutOK, ZTile.pixels, Int.toNat_natCast]
    rw [flatten_length_const _ B, List.length_map, h4]
    intro p hp
    simp only [List.mem_map] at hp
    obtain ⟨i, hi, rfl⟩ := hp
    apply hw
    apply h3
    have := h5 i hi
    simp [List.getD_eq_getElem?_getD, List.getElem?_eq_getElem this]
  | rle runs =>
    obtain ⟨h1, h2⟩ := h
    simp only [ZTile.paint, OutOK, ZTile.pixels, Int.toNat_natCast]
    rw [runs_length B (fun r : Bytes × Nat => widen pad r.1) (·.2) runs (fun r hr => hw _ (h1 r hr).1), h2]
  | prle pal runs =>
    obtain ⟨_, _, h3, h4, h5⟩ := h
    simp only [ZTile.paint, OutOK, ZTile.pixels, Int.toNat_natCast]
    rw [runs_length B (fun r : Nat × Nat => widen pad (pal.getD r.1 [])) (·.2) runs ?_, h5]
    intro r hr
    apply hw
    apply h3
    have := (h4 r hr).1
    simp [List.getD_eq_getElem?_getD, List.getElem?_eq_getElem this]

theorem zRowPaint_ok (B cp : Nat) (pad : Bool) (hw : ∀ c : Bytes, c.length = cp → (widen pad c).length = B)
    (x w ty th : Nat) : ∀ (ts : List ZTile) (c : Nat), zRowWF cp w th c ts →
    ∀ o ∈ zRowPaint pad x w ty th c ts, OutOK B o := by
  intro ts
  induction ts with
  | nil => intro c _; simp [zRowPaint]
  | cons t ts ih =>
    intro c h o ho
    simp only [zRowPaint, List.mem_cons] at ho
    rcases ho with rfl | ho
    · exact zTile_paint_ok B cp pad hw _ _ _ _ t h.1
    · exact ih (c + 1) h.2 o ho

theorem zRowsPaint_ok (B cp : Nat) (pad : Bool) (hw : ∀ c : Bytes, c.length = cp → (widen pad c).length = B)
    (x y w h : Nat) : ∀ (rows : List (List ZTile)) (r : Nat), zRowsWF cp w h r rows →
    ∀ o ∈ zRowsPaint pad x y w h r rows, OutOK B o := by
  intro rows
  induction rows with
  | nil => intro r _; simp [zRowsPaint]
  | cons row rows ih =>
    intro r hwf o ho
    simp only [zRowsPaint, List.mem_append] at ho
    rcases ho with ho | ho
    · exact zRowPaint_ok B cp pad hw x w _ _ row 0 hwf.1 o ho
    · exact ih (r + 1) hwf.2 o ho

/-- a CPIXEL widened by the client is a whole pixel -/
theorem widen_cpixel (pf : PF) (c : Bytes) (h : c.length = cpixelSize pf) :
    (widen (pf.bpp == 32 && decide (pf.depth ≤ 24)) c).length = pf.bypp := by
  unfold cpixelSize at h
  unfold widen
  cases hp : (pf.bpp == 32 && decide (pf.depth ≤ 24)) with
  | false => simpa [hp] using h
  | true =>
    rw [hp] at h
    have h32 : pf.bpp = 32 := by
      simp only [Bool.and_eq_true, beq_iff_eq] at hp
      exact hp.1
    simp only [if_true] at h ⊢
    simp [h, PF.bypp, h32]

/-! ### every rectangle, every update -/
theorem anyBody_paint_ok (pf : PF) (r : Rct) (b : AnyBody) (h : b.WF pf r) : ∀ o ∈ b.paint pf r, OutOK pf.bypp o := by
  cases b with
  | plain b => exact body_paint_ok pf.bypp r b h
  | hextile rows => exact rowsPaint_ok pf.bypp r.x r.y r.w r.h rows 0 {} ⟨by simp, by simp⟩ h.2
  | zrle rows comp => exact zRowsPaint_ok pf.bypp (cpixelSize pf) _ (widen_cpixel pf) r.x r.y r.w r.h rows 0 h.2.1

theorem paintUpdateAny_ok (pf : PF) (u : List (Rct × AnyBody)) (hwf : ∀ rb ∈ u, rb.1.WF ∧ rb.2.WF pf rb.1) :
    ∀ o ∈ paintUpdateAny pf u, OutOK pf.bypp o := by
  intro o ho
  simp only [paintUpdateAny, List.mem_append, List.mem_singleton, List.mem_flatMap] at ho
  rcases ho with (rfl | ⟨rb, hrb, ho⟩) | ho
  · trivial
  · exact anyBody_paint_ok pf rb.1 rb.2 (hwf rb hrb).2 o ho
  · split at ho
    · simp at ho
    · simp only [List.mem_singleton] at ho; subst ho; trivial

theorem paintUpdates_ok (pf : PF) : ∀ (us : List (List (Rct × AnyBody))),
    (∀ u ∈ us, ∀ rb ∈ u, rb.1.WF ∧ rb.2.WF pf rb.1) → ∀ o ∈ paintUpdates pf us, OutOK pf.bypp o := by
  intro us
  induction us with
  | nil => intro _ o ho; simp [paintUpdates] at ho
  | cons u us ih =>
    intro hwf o ho
    simp only [paintUpdates, List.mem_append] at ho
    rcases ho with ho | ho
    · exact paintUpdateAny_ok pf u (hwf u (by simp)) o ho
    · exact ih (fun v hv => hwf v (List.mem_cons_of_mem _ hv)) o ho

/-- every paint instruction of a well-formed update carries exactly `w * h` pixels of the format in force -/
theorem paintUpdates_wf (pf : PF) (mode : String) (hmode : modeBypp mode = pf.bypp) (hb : pf.bypp ≠ 0)
    (us : List (List (Rct × AnyBody))) (hwf : ∀ u ∈ us, ∀ rb ∈ u, rb.1.WF ∧ rb.2.WF pf rb.1) :
    ∀ op ∈ (paintUpdates pf us).filterMap outToCOp, op.WF mode := by
  intro op hop
  have _ := hb
  simp only [List.mem_filterMap] at hop
  obtain ⟨o, ho, hoo⟩ := hop
  have := paintUpdates_ok pf us hwf o ho
  rw [← hmode] at this
  exact this.wf op hoo

/-- **capstone**: the whole client, any session, no-cursor option: the screen IS the reference canvas of what was sent -/
theorem E2E_session_refines (s : SysSt) (hph : s.rfb.ph = .connection) (hbypp : s.rfb.core.pf.bypp ≠ 0)
    (hmode : modeBypp s.rfb.core.imageMode = s.rfb.core.pf.bypp)
    (us : List (List (Rct × AnyBody))) (hn : ∀ u ∈ us, u.length < 65536)
    (hwf : ∀ u ∈ us, ∀ rb ∈ u, rb.1.WF ∧ rb.2.WF s.rfb.core.pf rb.1)
    (zq : List (Option Bytes)) (hz : s.rfb.core.zq = (us.flatMap inflates) ++ zq)
    (hnc : s.cv.nocursor = true) (hcur : s.cv.cursor = none)
    (r0 : Ref) (hsim : Sim s.cv.screen r0) (htidy : Ref.Tidy r0) :
    Sim (feed sysMachine ⟨s, []⟩ (wireUpdates us)).1.s.cv.screen
      (Ref.run r0 (((paintUpdates s.rfb.core.pf us).filterMap outToCOp).flatMap (COp.toRef s.rfb.core.imageMode))) := by
  have h := (E2E_session s hph hbypp us hn hwf zq hz).2.2.2.2 hnc hcur
  rw [h, applyOuts_canvasRun]
  exact C12_refines_gen s.rfb.core.imageMode (by omega) _ true (Or.inl rfl)
    (paintUpdates_wf s.rfb.core.pf s.rfb.core.imageMode hmode hbypp us hwf) s.cv r0 hsim htidy hcur hnc

end Vnc
