import VncProofs.System
import VncProofs.EndToEnd
import VncProofs.C19
import VncProofs.C08
/-!
# C19 on every run of the whole client

`C19_stream` is about histories of library operations.  The command-line client performs its operations from inside the
callback chain, resumed by timers and completed updates.  Here: in EVERY run of the whole client (`sysRun`: any received
chunks, any timer firings, any order, any script) every write of the application layer is a whole number of well-formed
RFB client-to-server messages - so is their concatenation, so the server's parser never loses framing - and once the session
is established the protocol layer itself writes nothing, i.e. those writes are all there is on the wire.
-/
namespace Vnc
open Vnc.Spec

/-- a byte string that is a whole number of well-formed client messages -/
def WholeMsgs (b : Bytes) : Prop := ∃ ms : List C2SMsg, (∀ m ∈ ms, m.WF) ∧ b = ms.flatMap encodeC2S

/-- the writes of a history, in order -/
def actWrites : List Act → List Bytes
  | [] => []
  | .write b :: r => b :: actWrites r
  | _ :: r => actWrites r

/-! ## byte level: whatever a serialiser returns is one well-formed message -/

theorem WholeMsgs_one (m : C2SMsg) (h : m.WF) : WholeMsgs (encodeC2S m) :=
  ⟨[m], by intro x hx; rw [List.mem_singleton] at hx; subst hx; exact h, by simp⟩

theorem c19_packB_rng (n : Int) (b : Bytes) (h : packB n = some b) : 0 ≤ n ∧ n < 256 ∧ b = enc8 n.toNat := by
  unfold packB at h
  split at h
  · rename_i hc
    injection h with h
    exact ⟨hc.1, hc.2, h.symm⟩
  · cases h

theorem c19_packI_rng (n : Int) (b : Bytes) (h : packI n = some b) : 0 ≤ n ∧ n < 4294967296 ∧ b = enc32 n.toNat := by
  unfold packI at h
  split at h
  · rename_i hc
    injection h with h
    exact ⟨hc.1, hc.2, h.symm⟩
  · cases h

theorem wKeyEvent_whole (k : Int) (d : Bool) (b : Bytes) (h : wKeyEvent k d = some b) : WholeMsgs b := by
  rw [wKeyEvent_unf] at h
  cases hk : packI k with
  | none => rw [hk] at h; cases h
  | some k' =>
    rw [hk, Option.bind_some] at h
    obtain rfl := Option.some.inj h
    obtain ⟨h0, h1, rfl⟩ := c19_packI_rng _ _ hk
    have e : [4, if d then 1 else 0, 0, 0] ++ enc32 k.toNat = encodeC2S (.keyEvent (if d then 1 else 0) k.toNat) := by
      cases d <;> rfl
    rw [e]
    apply WholeMsgs_one
    refine ⟨?_, by omega⟩
    split <;> omega

theorem wPointerEvent_whole (x y m : Int) (b : Bytes) (h : wPointerEvent x y m = some b) : WholeMsgs b := by
  rw [wPointerEvent_unf] at h
  cases hm : packB m with
  | none => rw [hm] at h; cases h
  | some m' =>
  cases hx : packH x with
  | none => rw [hm, hx] at h; cases h
  | some x' =>
  cases hy : packH y with
  | none => rw [hm, hx, hy] at h; cases h
  | some y' =>
    rw [hm, hx, hy] at h
    simp only [Option.bind_some] at h
    obtain rfl := Option.some.inj h
    obtain ⟨m0, m1, rfl⟩ := c19_packB_rng _ _ hm
    obtain ⟨x0, x1, rfl⟩ := packH_some _ _ hx
    obtain ⟨y0, y1, rfl⟩ := packH_some _ _ hy
    have e : [5] ++ enc8 m.toNat ++ enc16 x.toNat ++ enc16 y.toNat =
        encodeC2S (.pointerEvent m.toNat x.toNat y.toNat) := rfl
    rw [e]
    apply WholeMsgs_one
    refine ⟨?_, ?_, ?_⟩ <;> omega

theorem wUpdateRequest_whole (inc : Bool) (x y w h : Int) (b : Bytes) (hb : wUpdateRequest inc x y w h = some b) :
    WholeMsgs b := by
  rw [wUpdateRequest_unf] at hb
  cases hx : packH x with
  | none => rw [hx] at hb; cases hb
  | some x' =>
  cases hy : packH y with
  | none => rw [hx, hy] at hb; cases hb
  | some y' =>
  cases hw : packH w with
  | none => rw [hx, hy, hw] at hb; cases hb
  | some w' =>
  cases hh : packH h with
  | none => rw [hx, hy, hw, hh] at hb; cases hb
  | some h' =>
    rw [hx, hy, hw, hh] at hb
    simp only [Option.bind_some] at hb
    obtain rfl := Option.some.inj hb
    obtain ⟨x0, x1, rfl⟩ := packH_some _ _ hx
    obtain ⟨y0, y1, rfl⟩ := packH_some _ _ hy
    obtain ⟨w0, w1, rfl⟩ := packH_some _ _ hw
    obtain ⟨h0, h1, rfl⟩ := packH_some _ _ hh
    have e : [3, if inc then 1 else 0] ++ enc16 x.toNat ++ enc16 y.toNat ++ enc16 w.toNat ++ enc16 h.toNat =
        encodeC2S (.updateRequest (if inc then 1 else 0) x.toNat y.toNat w.toNat h.toNat) := by
      cases inc <;> rfl
    rw [e]
    apply WholeMsgs_one
    refine ⟨?_, ?_, ?_, ?_, ?_⟩
    · split <;> omega
    all_goals omega

theorem wClientCutText_whole (t : List Char) (b : Bytes) (hb : wClientCutText t = some b) : WholeMsgs b := by
  have hb0 := hb
  rw [wClientCutText_unf] at hb
  cases hl : latin1 t with
  | none => rw [hl] at hb; cases hb
  | some d =>
    rw [hl, Option.bind_some] at hb
    cases hn : packI d.length with
    | none => rw [hn] at hb; cases hb
    | some n =>
      obtain ⟨_, n1, _⟩ := c19_packI_rng _ _ hn
      have hlen : d.length < 4294967296 := by omega
      rw [wClientCutText_eq t d hl hlen] at hb0
      obtain rfl := Option.some.inj hb0
      exact WholeMsgs_one _ hlen

theorem c19_mapM_mem {α β : Type} (f : α → Option β) : ∀ (l : List α) (r : List β), l.mapM f = some r →
    ∀ y ∈ r, ∃ x ∈ l, f x = some y := by
  intro l
  induction l with
  | nil => intro r h y hy; simp at h; subst h; cases hy
  | cons x xs ih =>
    intro r h y hy
    rw [List.mapM_cons] at h
    cases hx : f x with
    | none => simp [hx] at h
    | some y0 =>
      cases hxs : xs.mapM f with
      | none => simp [hx, hxs] at h
      | some r' =>
        simp [hx, hxs] at h
        subst h
        rcases List.mem_cons.1 hy with rfl | hy
        · exact ⟨x, by simp, hx⟩
        · obtain ⟨x', hx', hf⟩ := ih r' hxs y hy
          exact ⟨x', by simp [hx'], hf⟩

theorem keyOpWrites_unf (op : KeyOp) (fc up : Bool) (k : List Char) : keyOpWrites op fc up k =
    (decodeKey fc up k).bind fun ks => (keyOpEvs op ks).mapM fun e => wKeyEvent e.1 e.2 := rfl

theorem keyOpWrites_whole (op : KeyOp) (fc up : Bool) (k : List Char) (ws : List Bytes)
    (h : keyOpWrites op fc up k = some ws) : ∀ w ∈ ws, WholeMsgs w := by
  rw [keyOpWrites_unf] at h
  cases hd : decodeKey fc up k with
  | none => rw [hd] at h; cases h
  | some ks =>
    rw [hd, Option.bind_some] at h
    intro w hw
    obtain ⟨e, _, he⟩ := c19_mapM_mem _ _ _ h w hw
    exact wKeyEvent_whole _ _ _ he

/-! ## the application layer: every action list it emits, from ANY state, has only whole-message writes -/

def GoodAct : Act → Prop
  | .write b => WholeMsgs b
  | _ => True

def GoodActs (l : List Act) : Prop := ∀ x ∈ l, GoodAct x

theorem mem_actWrites (l : List Act) (b : Bytes) : b ∈ actWrites l ↔ Act.write b ∈ l := by
  induction l with
  | nil => simp [actWrites]
  | cons a l ih => cases a <;> simp [actWrites, ih]

theorem GoodActs_writes {l : List Act} (h : GoodActs l) : ∀ b ∈ actWrites l, WholeMsgs b := by
  intro b hb
  exact h _ ((mem_actWrites l b).1 hb)

theorem GoodActs_nil : GoodActs [] := by intro x hx; cases hx

theorem GoodActs_append {a b : List Act} (ha : GoodActs a) (hb : GoodActs b) : GoodActs (a ++ b) := by
  intro x hx
  rcases List.mem_append.1 hx with h | h
  · exact ha x h
  · exact hb x h

theorem GoodActs_one {x : Act} (h : GoodAct x) : GoodActs [x] := by
  intro y hy
  rw [List.mem_singleton] at hy
  subst hy
  exact h

theorem GoodActs_cons {x : Act} {l : List Act} (h : GoodAct x) (hl : GoodActs l) : GoodActs (x :: l) :=
  GoodActs_append (GoodActs_one h) hl

theorem GoodActs_map {ws : List Bytes} (h : ∀ w ∈ ws, WholeMsgs w) : GoodActs (ws.map Act.write) := by
  intro x hx
  rcases List.mem_map.1 hx with ⟨b, hb, rfl⟩
  exact h b hb

theorem keyActs_good {a : App} {op : KeyOp} {k : Word} {w : List Act} (h : keyActs a op k = some w) : GoodActs w := by
  unfold keyActs at h
  rcases Option.map_eq_some_iff.1 h with ⟨ws, hws, rfl⟩
  exact GoodActs_map (keyOpWrites_whole _ _ _ _ _ hws)

theorem ptrActs_good {a a' : App} {op : PtrOp} {w : List Act} (h : ptrActs a op = some (a', w)) : GoodActs w := by
  unfold ptrActs at h
  rcases Option.map_eq_some_iff.1 h with ⟨ws, hws, h2⟩
  simp only [Prod.mk.injEq] at h2
  rcases h2 with ⟨_, rfl⟩
  apply GoodActs_map
  intro b hb
  obtain ⟨e, _, he⟩ := c19_mapM_mem _ _ _ hws b hb
  exact wPointerEvent_whole _ _ _ _ he

theorem requestAll_good (core : Core) (inc : Bool) : GoodActs (requestAll core inc) := by
  rw [requestAll_fun]
  dsimp only
  cases h : wUpdateRequest inc 0 0 core.width core.height with
  | none => exact GoodActs_nil
  | some b => exact GoodActs_one (wUpdateRequest_whole _ _ _ _ _ _ h)

theorem expectCompare_good (a : App) (core : Core) (screen : Option Img) (box : Int × Int × Int × Int) (rms : Word)
    (expected : List Nat) : GoodActs (expectCompare a core screen box rms expected).2.1 := by
  have key : ∀ (m : Bool) (x : App × List Act × Bool),
      x = (if m = true then (a, [], true)
        else ({ a with waiter := some (.expect box rms expected) }, requestAll core screen.isSome, false)) →
      GoodActs x.2.1 := by
    intro m x hx
    cases m
    · simp only [Bool.false_eq_true, if_false] at hx
      subst hx
      dsimp only
      exact requestAll_good core screen.isSome
    · simp only [if_true] at hx
      subst hx
      exact GoodActs_nil
  exact key _ _ rfl

/-- the writes of a started command are whole messages -/
def GF (x : App × List Act × Susp) : Prop := GoodActs x.2.1

theorem GF_nil (a : App) (s : Susp) : GF (a, [], s) := GoodActs_nil
theorem GF_key {a a' : App} {op : KeyOp} {k : Word} {w : List Act} (s : Susp) (h : keyActs a op k = some w) :
    GF (a', w, s) := keyActs_good h
theorem GF_ptr {a a' a'' : App} {op : PtrOp} {w : List Act} (s : Susp) (h : ptrActs a op = some (a', w)) :
    GF (a'', w, s) := ptrActs_good h
theorem GF_req (a' : App) (core : Core) (inc : Bool) (s : Susp) : GF (a', requestAll core inc, s) := by
  have h4 := requestAll_good core inc
  generalize requestAll core inc = l at h4 ⊢
  exact h4

theorem GoodActs_req_snd (a' : App) (core : Core) (inc : Bool) : GoodActs (a', requestAll core inc).2 := by
  have h4 := requestAll_good core inc
  generalize requestAll core inc = l at h4 ⊢
  exact h4

theorem startCmd_good (a : App) (core : Core) (scr : Option Img) (c : Cmd) : GF (startCmd a core scr c) := by
  cases c <;> delta startCmd <;> dsimp only
  case keyPress =>
    split
    · next w h => exact GF_key _ h
    · exact GF_nil _ _
  case keyDown =>
    split
    · next w h => exact GF_key _ h
    · exact GF_nil _ _
  case keyUp =>
    split
    · next w h => exact GF_key _ h
    · exact GF_nil _ _
  case mouseMove =>
    split
    · next a' w h => exact GF_ptr _ h
    · exact GF_nil _ _
  case mousePress =>
    split
    · exact GF_nil _ _
    · split
      · next a' w h => exact GF_ptr _ h
      · exact GF_nil _ _
  case mouseDown =>
    split
    · exact GF_nil _ _
    · split
      · next a' w h => exact GF_ptr _ h
      · exact GF_nil _ _
  case mouseUp =>
    split
    · exact GF_nil _ _
    · split
      · next a' w h => exact GF_ptr _ h
      · exact GF_nil _ _
  case mouseDrag x y =>
    split
    · split
      · next a' w h => exact GF_ptr _ h
      · exact GF_nil _ _
    · split
      · exact GF_nil _ _
      · next a' w h => exact ptrActs_good h
  case pauseArg => exact GoodActs_nil
  case pauseDelay => exact GoodActs_nil
  case paste =>
    split
    · next b h => exact GoodActs_one (wClientCutText_whole _ _ h)
    · exact GF_nil _ _
  case captureScreen => exact GF_req _ _ _ _
  case captureRegion => exact GF_req _ _ _ _
  case expectScreen =>
    split
    · exact GF_nil _ _
    · exact expectCompare_good _ _ _ _ _ _
  case expectRegion =>
    split
    · exact GF_nil _ _
    · exact expectCompare_good _ _ _ _ _ _

theorem advance_good (core : Core) (screen : Option Img) :
    ∀ (fuel : Nat) (a : App), GoodActs (advance core screen fuel a).2 := by
  intro fuel
  induction fuel with
  | zero => intro a; exact GoodActs_nil
  | succ n ih =>
    intro a
    rw [advance.eq_2]
    split
    · exact GoodActs_one trivial
    · rename_i c rest hc
      dsimp only
      have hs : GoodActs (startCmd { a with cmds := rest } core screen c).2.1 := startCmd_good _ core screen c
      split
      · exact GoodActs_append (GoodActs_append (GoodActs_append (GoodActs_one trivial) hs) (GoodActs_one trivial)) (ih _)
      · exact GoodActs_append (GoodActs_one trivial) hs
      · exact GoodActs_append (GoodActs_one trivial) hs
      · exact GoodActs_append (GoodActs_one trivial) hs
      · exact GoodActs_append (GoodActs_append (GoodActs_one trivial) hs) (GoodActs_one trivial)

theorem resume_good (core : Core) (screen : Option Img) (a : App) : GoodActs (resume core screen a).2 := by
  unfold resume
  dsimp only
  exact GoodActs_append (GoodActs_one trivial) (advance_good _ _ _ _)

theorem onConnected_good (core : Core) (screen : Option Img) (a : App) : GoodActs (onConnected core screen a).2 := by
  unfold onConnected
  split
  · exact advance_good _ _ _ _
  · exact GoodActs_nil

theorem onCommit_good (core : Core) (screen : Option Img) (a : App) : GoodActs (onCommit core screen a).2 := by
  unfold onCommit
  split
  · exact GoodActs_nil
  · dsimp only
    split
    · exact GoodActs_nil
    · split
      · exact GoodActs_req_snd _ _ _
      · split
        · exact GoodActs_append (GoodActs_one trivial) (resume_good _ _ _)
        · exact GoodActs_one trivial
    · have he := expectCompare_good { a with waiter := none } core screen ‹_› ‹_› ‹_›
      split
      · split
        · exact GoodActs_append he (resume_good _ _ _)
        · exact he
      · exact he

theorem onTimer_good (core : Core) (screen : Option Img) (a : App) (id : Nat) :
    GoodActs (onTimer core screen a id).2 := by
  unfold onTimer
  dsimp only
  split
  · split
    · exact resume_good _ _ _
    · exact GoodActs_nil
  · split
    · exact GoodActs_nil
    · split
      · split
        · exact GoodActs_one trivial
        · rename_i a' w hw
          exact ptrActs_good hw
      · split
        · exact GoodActs_one trivial
        · rename_i a' w hw
          exact GoodActs_append (ptrActs_good hw) (resume_good _ _ _)
  · exact GoodActs_nil

/-! ## lifting through the whole client -/

theorem c19_evActs_append (a b : List Ev) : evActs (a ++ b) = evActs a ++ evActs b := by
  simp [evActs, List.filterMap_append]

theorem c19_evActs_acts (l : List Act) : evActs (l.map Ev.act) = l := by
  induction l with
  | nil => rfl
  | cons a l ih => simpa [evActs] using ih

theorem appReact_good (core : Core) (screen : Option Img) (a : App) (o : Out) :
    GoodActs (appReact core screen a o).2 := by
  cases o with
  | made => exact onConnected_good _ _ _
  | commit rs => exact onCommit_good _ _ _
  | _ => exact GoodActs_nil

theorem reactFold_good (core : Core) (outs : List Out) : ∀ (acc : Canvas × App × List Ev),
    GoodActs (evActs acc.2.2) → GoodActs (evActs (outs.foldl (reactOne core) acc).2.2) := by
  induction outs with
  | nil => intro acc h; exact h
  | cons o outs ih =>
    intro acc h
    rw [List.foldl_cons]
    apply ih
    simp only [reactOne, c19_evActs_append, c19_evActs_acts]
    exact GoodActs_append (GoodActs_append h GoodActs_nil) (appReact_good _ _ _ _)

theorem sysStep_good (s : SysSt) (b : Bytes) : GoodActs (evActs (sysStep s b).2) := by
  simp only [sysStep]
  exact reactFold_good _ _ _ GoodActs_nil

theorem sys_drain_good : ∀ (fuel : Nat) (s : SysSt) (buf : Bytes),
    GoodActs (evActs (drain sysMachine fuel s buf).out) := by
  intro fuel
  induction fuel with
  | zero => intro s buf; exact GoodActs_nil
  | succ f ih =>
    intro s buf
    simp only [drain]
    split
    · exact GoodActs_nil
    · dsimp only
      rw [c19_evActs_append]
      exact GoodActs_append (sysStep_good _ _) (ih _ _)

theorem sysFire_good (st : St SysSt) : GoodActs (evActs (sysFire st).2) := by
  unfold sysFire
  split
  · exact GoodActs_nil
  · dsimp only
    rw [c19_evActs_acts]
    exact onTimer_good _ _ _ _

theorem sysIn_good (st : St SysSt) (i : SysIn) : GoodActs (evActs (sysIn st i).2) := by
  cases i with
  | recv c => exact sys_drain_good _ _ _
  | fire => exact sysFire_good st

theorem sysRun_good (st : St SysSt) (ins : List SysIn) : GoodActs (evActs (sysRun st ins).2) := by
  induction ins generalizing st with
  | nil => exact GoodActs_nil
  | cons i is ih =>
    simp only [sysRun]
    rw [c19_evActs_append]
    exact GoodActs_append (sysIn_good st i) (ih _)

/-- a list of whole-message byte strings concatenates to a whole-message byte string -/
theorem WholeMsgs_flatten (l : List Bytes) (h : ∀ b ∈ l, WholeMsgs b) : WholeMsgs l.flatten := by
  induction l with
  | nil => exact ⟨[], (by intro m hm; cases hm), rfl⟩
  | cons b l ih =>
    obtain ⟨ms1, w1, e1⟩ := h b (by simp)
    obtain ⟨ms2, w2, e2⟩ := ih (fun x hx => h x (by simp [hx]))
    refine ⟨ms1 ++ ms2, ?_, ?_⟩
    · intro m hm
      rcases List.mem_append.1 hm with hm | hm
      · exact w1 m hm
      · exact w2 m hm
    · rw [List.flatten_cons, List.flatMap_append, e1, e2]

/-! ## the protocol layer inside a session -/

/-- no element is a write -/
def NWs (l : List Out) : Prop := ∀ o ∈ l, ∀ w, o ≠ Out.write w

theorem NWs_paint {l : List Out} (h : ∀ o ∈ l, isPaint o = true) : NWs l := by
  intro o ho w hw
  have := h o ho
  subst hw
  cases this

theorem nw_go (c : Core) (ph : Phase) (outs : List Out) (h : NWs outs) : NWs (go c ph outs).2 := h
theorem nw_dead (c : Core) (outs : List Out) (h : NWs outs) : NWs (dead c outs).2 := h

theorem nw_doConnection (c : Core) (pre : List Out) (h : NWs pre) : NWs (doConnection c pre).2 := by
  unfold doConnection
  split
  · exact h
  · split
    · intro o ho w hw
      simp only [go, List.mem_append, List.mem_singleton] at ho
      rcases ho with ho | rfl
      · exact h o ho w hw
      · cases hw
    · exact h

theorem nw_nextHextile_aux (c : Core) (bg fg : Option Bytes) (x y w h : Nat) (p : Nat × Nat) (pre : List Out)
    (hp : NWs pre) :
    NWs (if p.2 ≥ y + h then doConnection c pre else go c (.hextile bg fg x y w h p.1 p.2) pre).2 := by
  split
  · exact nw_doConnection c pre hp
  · exact hp

theorem nw_nextHextile (c : Core) (bg fg : Option Bytes) (x y w h : Nat) (t : Option (Nat × Nat)) (pre : List Out)
    (hp : NWs pre) : NWs (nextHextile c bg fg x y w h t pre).2 := by
  unfold nextHextile
  exact nw_nextHextile_aux c bg fg x y w h _ pre hp

theorem nw_ite (p : Prop) [Decidable p] (x y : RSt × List Out) (hx : NWs x.2) (hy : NWs y.2) :
    NWs (if p then x else y).2 := by
  split <;> assumption

theorem stepCore_nw (s : RSt) (b : Bytes) (h : InSession s.ph) : NWs (stepCore s b).2 := by
  obtain ⟨c, ph⟩ := s
  cases ph <;> first | exact h.elim | skip
  case rectangle =>
    simp -zeta only [stepCore]
    extract_lets c0 bypp x y w h enc c1
    repeat' apply nw_ite
    all_goals first
      | (apply nw_go; simp [NWs]; done)
      | (apply nw_dead; simp [NWs]; done)
      | (apply nw_doConnection; simp [NWs]; done)
      | (apply nw_nextHextile; simp [NWs]; done)
  case zrleData n x y w h =>
    simp only [stepCore]
    split
    · apply nw_dead; simp [NWs]
    · apply nw_dead; simp [NWs]
    · split
      · rename_i outs e heq
        apply nw_dead
        intro o ho w hw
        rcases List.mem_append.1 ho with ho | ho
        · exact NWs_paint (paint_zTiles_eq heq) o ho w hw
        · simp at ho; subst ho; cases hw
      · rename_i outs heq
        apply nw_doConnection
        exact NWs_paint (paint_zTiles_eq heq)
  case hextileColoured =>
    simp only [stepCore]
    apply nw_nextHextile
    exact NWs_paint (paint_hexColoured _ _ _ _ _)
  all_goals
    simp only [stepCore]
    repeat' with_reducible apply nw_ite
    all_goals try split
    all_goals first
      | (apply nw_go; simp [NWs]; done)
      | (apply nw_dead; simp [NWs]; done)
      | (apply nw_doConnection; simp [NWs]; done)
      | (apply nw_nextHextile; simp [NWs]; done)
      | (apply nw_doConnection; exact NWs_paint (paint_rreFills _ _ _ _))
      | (apply nw_doConnection; exact NWs_paint (paint_correFills _ _ _ _))
      | (apply nw_nextHextile; exact NWs_paint (paint_hexFG _ _ _ _))

/-- **every run**: each write of the script / the waiting application is a whole number of well-formed messages -/
theorem C19_sys_writes (st : St SysSt) (ins : List SysIn) :
    ∀ b ∈ actWrites (evActs (sysRun st ins).2), WholeMsgs b :=
  GoodActs_writes (sysRun_good st ins)

/-- ... hence the stream they form parses, message by message, whatever the run -/
theorem C19_sys_stream (st : St SysSt) (ins : List SysIn) :
    ∃ ms : List C2SMsg, (∀ m ∈ ms, m.WF) ∧ parseStream (actWrites (evActs (sysRun st ins).2)).flatten = some ms := by
  obtain ⟨ms, hwf, he⟩ := WholeMsgs_flatten _ (C19_sys_writes st ins)
  exact ⟨ms, hwf, by rw [he]; exact C19_parse_stream ms hwf⟩

/-- once the session is established the protocol layer writes nothing of its own: no handler of an in-session phase emits
    a write (it may close: unknown message type, unknown encoding) -/
theorem C19_no_protocol_writes (s : RSt) (b : Bytes) (h : InSession s.ph) :
    ∀ o ∈ (step s b).2, ∀ w, o ≠ Out.write w := by
  have hk := stepCore_nw s b h
  simp only [step]
  split
  · rename_i outs hc
    intro o ho w hw
    rcases cut_mem _ _ hc o ho with h1 | h1
    · exact hk o h1 w hw
    · subst h1; cases hw
  · exact hk

end Vnc
