import VncSpec.Canvas
import VncModel.Canvas
/-!
# C12 — The client's screen is the exact composition of everything the server sent

Model: `updateRect`, `resizeDesktop`, `updateCursor`, `drawCursor` (VncModel/Canvas.lean = client.py:431-500).
Spec: the reference canvas of VncSpec/Canvas.lean (a pixel function + a size).
-/
namespace Vnc
open Vnc.Spec

/-- what the server sent, at the level of the library client's callbacks -/
inductive COp
  | upd (x y w h : Nat) (data : Bytes)
  | resize (w h : Nat)
  | cursor (x y w h : Nat) (image mask : Bytes)

def COp.apply (mode : String) (cv : Canvas) : COp → Canvas
  | .upd x y w h data => updateRect cv mode x y w h data
  | .resize w h => resizeDesktop cv w h
  | .cursor x y w h image mask => updateCursor cv mode x y w h image mask

def canvasRun (mode : String) (cv : Canvas) (ops : List COp) : Canvas := ops.foldl (COp.apply mode) cv

/-- pixel data has the announced length -/
def COp.WF (mode : String) : COp → Prop
  | .upd _ _ w h data => data.length = w * h * modeBypp mode
  | _ => True

def COp.isCursor : COp → Bool
  | .cursor .. => true
  | _ => false

/-- the same operation for the reference canvas (cursor-shape updates do not belong to the screen) -/
def COp.toRef (mode : String) : COp → List ROp
  | .upd x y w h data => [.upd x y w h (decodeImage mode w h data).get]
  | .resize w h => [.resize w h]
  | .cursor .. => []

/-- the client's screen *is* the reference canvas: same size, same pixel at every position inside -/
def Sim (scr : Option Img) (r : Ref) : Prop :=
  match scr, r.size with
  | none, none => True
  | some s, some (W, H) => s.w = W ∧ s.h = H ∧ ∀ i j, i < W → j < H → s.get i j = r.px i j
  | _, _ => False

/-- the reference canvas is black outside its size -/
def Ref.Tidy (r : Ref) : Prop :=
  match r.size with
  | none => ∀ i j, r.px i j = (0, 0, 0)
  | some (W, H) => ∀ i j, ¬ (i < W ∧ j < H) → r.px i j = (0, 0, 0)

theorem drawCursor_none (cv : Canvas) (h : cv.cursor = none) : drawCursor cv = cv := by
  unfold drawCursor
  split
  · simp_all
  · rfl

theorem C12_tidy (r : Ref) (op : ROp) (h : Ref.Tidy r) : Ref.Tidy (r.apply op) := by
  obtain ⟨size, px⟩ := r
  cases op with
  | upd x y w h' img =>
    by_cases hz : w = 0 ∨ h' = 0
    · simp only [Ref.apply, if_pos hz]; exact h
    · simp only [Ref.apply, if_neg hz]
      cases size with
      | none =>
        simp only [Ref.Tidy] at h ⊢
        intro i j hij
        rw [if_neg (by omega)]
        exact h i j
      | some p =>
        obtain ⟨W, H⟩ := p
        simp only [Ref.Tidy] at h ⊢
        intro i j hij
        rw [if_neg (by omega)]
        exact h i j (by omega)
  | resize w h' =>
    simp only [Ref.apply, Ref.Tidy]
    intro i j hij
    simp [hij]

theorem updateRect_screen (mode : String) (cv : Canvas) (x y w h : Nat) (data : Bytes)
    (hc : cv.cursor = none) (hd : data ≠ []) :
    updateRect cv mode x y w h data =
      { cv with screen := some (match cv.screen with
        | none => if x ≠ 0 ∨ y ≠ 0 then (Img.new (x + w) (y + h)).paste (decodeImage mode w h data) x y
                  else decodeImage mode w h data
        | some s =>
          if s.w < x + w ∨ s.h < y + h then
            ((Img.new (max (x + w) s.w) (max (y + h) s.h)).paste s 0 0).paste (decodeImage mode w h data) x y
          else s.paste (decodeImage mode w h data) x y) } := by
  unfold updateRect
  have : data.isEmpty = false := by cases data <;> simp_all
  simp only [this, Bool.false_eq_true, if_false]
  exact drawCursor_none _ hc

/-! ## the property's own words (stated first: `C12_step` is derived from them) -/

theorem toNat_sub_cast (i x : Nat) : ((i : Int) - (x : Int)).toNat = i - x := by omega

theorem toNat_sub_zero (i : Nat) : ((i : Int) - 0).toNat = i := by omega

/-- an update never alters pixels outside its rectangle; inside it shows exactly the pixels sent -/
theorem C12_update_pixels (mode : String) (cv : Canvas) (s : Img) (x y w h : Nat) (data : Bytes)
    (hs : cv.screen = some s) (hc : cv.cursor = none) (hd : data ≠ []) (hfit : x + w ≤ s.w ∧ y + h ≤ s.h) :
    ∃ s', (updateRect cv mode x y w h data).screen = some s' ∧ s'.w = s.w ∧ s'.h = s.h ∧
      ∀ i j, s'.get i j =
        if x ≤ i ∧ i < x + w ∧ y ≤ j ∧ j < y + h then (decodeImage mode w h data).get (i - x) (j - y) else s.get i j := by
  rw [updateRect_screen mode cv x y w h data hc hd]
  simp only [hs]
  rw [if_neg (by omega)]
  refine ⟨_, rfl, rfl, rfl, ?_⟩
  intro i j
  simp only [Img.paste, decodeImage, toNat_sub_cast]
  by_cases hin : x ≤ i ∧ i < x + w ∧ y ≤ j ∧ j < y + h
  · rw [if_pos hin, if_pos (by omega)]
  · rw [if_neg hin, if_neg (by omega)]

/-- growing the screen preserves all earlier content; the new area is black -/
theorem C12_growth (mode : String) (cv : Canvas) (s : Img) (x y w h : Nat) (data : Bytes)
    (hs : cv.screen = some s) (hc : cv.cursor = none) (hd : data ≠ []) (hg : s.w < x + w ∨ s.h < y + h) :
    ∃ s', (updateRect cv mode x y w h data).screen = some s' ∧ s'.w = max (x + w) s.w ∧ s'.h = max (y + h) s.h ∧
      ∀ i j, s'.get i j =
        if x ≤ i ∧ i < x + w ∧ y ≤ j ∧ j < y + h then (decodeImage mode w h data).get (i - x) (j - y)
        else if i < s.w ∧ j < s.h then s.get i j else black := by
  rw [updateRect_screen mode cv x y w h data hc hd]
  simp only [hs]
  rw [if_pos hg]
  refine ⟨_, rfl, rfl, rfl, ?_⟩
  intro i j
  simp only [Img.paste, Img.new, decodeImage, toNat_sub_cast, toNat_sub_zero]
  by_cases hin : x ≤ i ∧ i < x + w ∧ y ≤ j ∧ j < y + h
  · rw [if_pos hin, if_pos (by omega)]
  · rw [if_neg hin, if_neg (by omega)]
    by_cases hin2 : i < s.w ∧ j < s.h
    · rw [if_pos hin2, if_pos (by omega)]
    · rw [if_neg hin2, if_neg (by omega)]

/-- the first rectangle, wherever it is: the image contains it at its position, black elsewhere -/
theorem C12_first (mode : String) (cv : Canvas) (x y w h : Nat) (data : Bytes)
    (hs : cv.screen = none) (hc : cv.cursor = none) (hd : data ≠ []) :
    ∃ s', (updateRect cv mode x y w h data).screen = some s' ∧ s'.w = x + w ∧ s'.h = y + h ∧
      ∀ i j, i < x + w → j < y + h → s'.get i j =
        if x ≤ i ∧ y ≤ j then (decodeImage mode w h data).get (i - x) (j - y) else black := by
  rw [updateRect_screen mode cv x y w h data hc hd]
  simp only [hs]
  by_cases hxy : x ≠ 0 ∨ y ≠ 0
  · rw [if_pos hxy]
    refine ⟨_, rfl, rfl, rfl, ?_⟩
    intro i j hi hj
    simp only [Img.paste, Img.new, decodeImage, toNat_sub_cast]
    by_cases hin : x ≤ i ∧ y ≤ j
    · rw [if_pos hin, if_pos (by omega)]
    · rw [if_neg hin, if_neg (by omega)]
  · rw [if_neg hxy]
    have hx : x = 0 := by omega
    have hy : y = 0 := by omega
    subst hx; subst hy
    refine ⟨_, rfl, ?_, ?_, ?_⟩
    · simp [decodeImage]
    · simp [decodeImage]
    · intro i j hi hj
      simp

/-- right after a desktop-size change the image has exactly the announced size, keeps what still fits and is
    black elsewhere -/
theorem C12_resize (cv : Canvas) (w h : Nat) :
    ∃ s', (resizeDesktop cv w h).screen = some s' ∧ s'.w = w ∧ s'.h = h ∧
      ∀ i j, i < w → j < h → s'.get i j =
        match cv.screen with
        | some s => if i < s.w ∧ j < s.h then s.get i j else black
        | none => black := by
  unfold resizeDesktop
  cases hs : cv.screen with
  | none =>
    refine ⟨_, rfl, rfl, rfl, ?_⟩
    intro i j _ _
    rfl
  | some s =>
    refine ⟨_, rfl, rfl, rfl, ?_⟩
    intro i j _ _
    simp only [Img.paste, Img.new, toNat_sub_zero]
    by_cases hin2 : i < s.w ∧ j < s.h
    · rw [if_pos hin2, if_pos (by omega)]
    · rw [if_neg hin2, if_neg (by omega)]

/-- with the no-cursor option cursor-shape updates never alter the screen (nor store a shape) -/
theorem C12_nocursor (mode : String) (cv : Canvas) (x y w h : Nat) (image mask : Bytes) (hn : cv.nocursor = true) :
    updateCursor cv mode x y w h image mask = cv := by
  simp [updateCursor, hn]

/-! ## refinement of the reference canvas -/

theorem updateRect_cursor (mode : String) (cv : Canvas) (x y w h : Nat) (data : Bytes)
    (hc : cv.cursor = none) :
    (updateRect cv mode x y w h data).cursor = none ∧
    (updateRect cv mode x y w h data).nocursor = cv.nocursor := by
  by_cases hd : data = []
  · subst hd; simp [updateRect, hc]
  · rw [updateRect_screen mode cv x y w h data hc hd]
    exact ⟨hc, rfl⟩

/-- one operation, no cursor shape being composited -/
theorem C12_step (mode : String) (hm : 0 < modeBypp mode) (cv : Canvas) (r : Ref) (op : COp)
    (hc : cv.cursor = none) (hop : op.isCursor = false ∨ cv.nocursor = true) (hwf : op.WF mode)
    (hs : Sim cv.screen r) (ht : Ref.Tidy r) :
    Sim (op.apply mode cv).screen ((op.toRef mode).foldl Ref.apply r) ∧ (op.apply mode cv).cursor = none ∧
    (op.apply mode cv).nocursor = cv.nocursor := by
  cases op with
  | cursor x y w h image mask =>
    have hn : cv.nocursor = true := by
      rcases hop with h | h
      · simp [COp.isCursor] at h
      · exact h
    simp only [COp.apply, COp.toRef, List.foldl_nil, C12_nocursor mode cv x y w h image mask hn]
    exact ⟨hs, hc, trivial⟩
  | resize w h =>
    simp only [COp.apply, COp.toRef, List.foldl_cons, List.foldl_nil]
    refine ⟨?_, hc, rfl⟩
    obtain ⟨s', hs', hw', hh', hpx⟩ := C12_resize cv w h
    rw [hs']
    obtain ⟨size, px⟩ := r
    simp only [Sim, Ref.apply]
    refine ⟨hw', hh', ?_⟩
    intro i j hi hj
    rw [hpx i j hi hj, if_pos ⟨hi, hj⟩]
    cases hscr : cv.screen with
    | none =>
      rw [hscr] at hs
      cases size with
      | none => exact (ht i j).symm
      | some p => simp [Sim] at hs
    | some s =>
      rw [hscr] at hs
      cases size with
      | none => simp [Sim] at hs
      | some p =>
        obtain ⟨W, H⟩ := p
        simp only [Sim] at hs
        simp only [Ref.Tidy] at ht
        obtain ⟨h1, h2, h3⟩ := hs
        by_cases hin : i < s.w ∧ j < s.h
        · simp only [if_pos hin]
          exact h3 i j (by omega) (by omega)
        · simp only [if_neg hin]
          exact (ht i j (by omega)).symm
  | upd x y w h data =>
    simp only [COp.apply, COp.toRef, List.foldl_cons, List.foldl_nil]
    refine ⟨?_, updateRect_cursor mode cv x y w h data hc⟩
    simp only [COp.WF] at hwf
    by_cases hz : w = 0 ∨ h = 0
    · have hd : data = [] := by
        apply List.eq_nil_of_length_eq_zero
        rw [hwf]
        rcases hz with h0 | h0 <;> simp [h0]
      subst hd
      simp only [Ref.apply, if_pos hz]
      simpa [updateRect] using hs
    · have hd : data ≠ [] := by
        intro h0
        subst h0
        have hwh : 0 < w * h := Nat.mul_pos (by omega) (by omega)
        have : 0 < w * h * modeBypp mode := Nat.mul_pos hwh hm
        simp at hwf
        omega
      obtain ⟨size, px⟩ := r
      simp only [Ref.apply, if_neg hz]
      cases hscr : cv.screen with
      | none =>
        rw [hscr] at hs
        cases size with
        | some p => simp [Sim] at hs
        | none =>
          obtain ⟨s', hs', hw', hh', hpx⟩ := C12_first mode cv x y w h data hscr hc hd
          rw [hs']
          simp only [Sim]
          refine ⟨hw', hh', ?_⟩
          intro i j hi hj
          rw [hpx i j hi hj]
          simp only [Ref.Tidy] at ht
          by_cases hin : x ≤ i ∧ y ≤ j
          · rw [if_pos hin, if_pos (by omega)]
          · rw [if_neg hin, if_neg (by omega)]
            exact (ht i j).symm
      | some s =>
        rw [hscr] at hs
        cases size with
        | none => simp [Sim] at hs
        | some p =>
          obtain ⟨W, H⟩ := p
          simp only [Sim] at hs
          simp only [Ref.Tidy] at ht
          obtain ⟨h1, h2, h3⟩ := hs
          by_cases hg : s.w < x + w ∨ s.h < y + h
          · obtain ⟨s', hs', hw', hh', hpx⟩ := C12_growth mode cv s x y w h data hscr hc hd hg
            rw [hs']
            simp only [Sim]
            refine ⟨by omega, by omega, ?_⟩
            intro i j hi hj
            rw [hpx i j]
            by_cases hin : x ≤ i ∧ i < x + w ∧ y ≤ j ∧ j < y + h
            · rw [if_pos hin, if_pos hin]
            · rw [if_neg hin, if_neg hin]
              by_cases hin2 : i < s.w ∧ j < s.h
              · rw [if_pos hin2]
                exact h3 i j (by omega) (by omega)
              · rw [if_neg hin2]
                exact (ht i j (by omega)).symm
          · obtain ⟨s', hs', hw', hh', hpx⟩ :=
              C12_update_pixels mode cv s x y w h data hscr hc hd (by omega)
            rw [hs']
            simp only [Sim]
            refine ⟨by omega, by omega, ?_⟩
            intro i j hi hj
            rw [hpx i j]
            by_cases hin : x ≤ i ∧ i < x + w ∧ y ≤ j ∧ j < y + h
            · rw [if_pos hin, if_pos hin]
            · rw [if_neg hin, if_neg hin]
              exact h3 i j (by omega) (by omega)

theorem C12_refines_gen (mode : String) (hm : 0 < modeBypp mode) (ops : List COp) (nocursor : Bool)
    (hcur : nocursor = true ∨ ∀ op ∈ ops, op.isCursor = false) (hwf : ∀ op ∈ ops, op.WF mode) :
    ∀ (cv : Canvas) (r : Ref), Sim cv.screen r → Ref.Tidy r → cv.cursor = none → cv.nocursor = nocursor →
      Sim (canvasRun mode cv ops).screen (Ref.run r (ops.flatMap (COp.toRef mode))) := by
  induction ops with
  | nil =>
    intro cv r hs _ _ _
    simpa [canvasRun, Ref.run] using hs
  | cons op ops ih =>
    intro cv r hs ht hc hn
    have hop : op.isCursor = false ∨ cv.nocursor = true := by
      rcases hcur with h | h
      · right; rw [hn, h]
      · left; exact h op (by simp)
    obtain ⟨h1, h2, h3⟩ := C12_step mode hm cv r op hc hop (hwf op (by simp)) hs ht
    have htidy : Ref.Tidy ((op.toRef mode).foldl Ref.apply r) := by
      cases op with
      | upd x y w h data => simpa [COp.toRef] using C12_tidy r _ ht
      | resize w h => simpa [COp.toRef] using C12_tidy r _ ht
      | cursor x y w h image mask => simpa [COp.toRef] using ht
    have := ih (by
        rcases hcur with h | h
        · left; exact h
        · right; intro o ho; exact h o (by simp [ho]))
      (fun o ho => hwf o (by simp [ho])) _ _ h1 htidy h2 (by rw [h3, hn])
    simpa [canvasRun, Ref.run, List.flatMap_cons, List.foldl_append] using this

/-- **any history** of rectangle updates and desktop-size changes (and, with the no-cursor option, cursor-shape
    updates): the screen equals the composition of everything sent - every pixel has the value most recently sent
    for it, pixels never sent are black, the size is the announced one / the bounding box of what was received -/
theorem C12_refines (mode : String) (hm : 0 < modeBypp mode) (ops : List COp) (nocursor : Bool)
    (hcur : nocursor = true ∨ ∀ op ∈ ops, op.isCursor = false) (hwf : ∀ op ∈ ops, op.WF mode) :
    Sim (canvasRun mode { nocursor := nocursor } ops).screen (Ref.run {} (ops.flatMap (COp.toRef mode))) := by
  apply C12_refines_gen mode hm ops nocursor hcur hwf
  · simp [Sim]
  · simp [Ref.Tidy]
  · rfl
  · rfl

/-- non-vacuity: a concrete history -/
example : ((canvasRun "RGB" {} [.upd 2 1 1 1 [9, 8, 7], .upd 0 0 1 1 [1, 2, 3], .resize 2 2]).screen.map
      (fun s => (s.w, s.h, s.get 0 0, s.get 1 1, s.get 1 0))) == some (2, 2, (1, 2, 3), (0, 0, 0), (0, 0, 0)) := by
  decide

end Vnc
