import VncSpec.Zrle
import VncProofs.C02Hextile
/-! helper lemmas for C02 part C (ZRLE): the inner decoders on the specification's wire forms -/
namespace Vnc
open Vnc.Spec

/-! ## small facts -/

theorem beq_int_nat (a b : Nat) : (((a : Int) == (b : Int)) = true) ↔ a = b := by
  rw [beq_iff_eq]; exact Int.natCast_inj

theorem mod_int_nat (a b : Nat) : ((((a : Int) % (b : Int)) == 0) = true) ↔ a % b = 0 := by
  rw [beq_iff_eq, ← Int.natCast_emod]
  exact Int.natCast_eq_zero

theorem zCpixel_append (n : Nat) (pad : Bool) (p rest : Bytes) (h : p.length = n) :
    zCpixel n pad (p ++ rest) = .ok (widen pad p, rest) := by
  unfold zCpixel
  have : ¬ (p ++ rest).length < n := by simp; omega
  rw [if_neg this, List.take_left' h, List.drop_left' h]; rfl

theorem zPalette_flatten (cp : Nat) (pad : Bool) (rest : Bytes) : ∀ (pal : List Bytes),
    (∀ p ∈ pal, p.length = cp) →
    zPalette cp pad pal.length (pal.flatten ++ rest) = .ok (pal.map (widen pad), rest) := by
  intro pal
  induction pal with
  | nil => intro _; rfl
  | cons p pal ih =>
    intro h
    have h1 := h p (by simp)
    have h2 := ih (fun q hq => h q (by simp [hq]))
    simp only [List.length_cons, List.flatten_cons, List.append_assoc, zPalette,
      zCpixel_append cp pad p _ h1, List.map_cons]
    simp only [bind, Except.bind]
    rw [h2]; rfl

theorem zRaw_flatten (cp : Nat) (pad : Bool) (rest : Bytes) : ∀ (px : List Bytes) (acc : Bytes),
    (∀ p ∈ px, p.length = cp) →
    zRaw cp pad px.length acc (px.flatten ++ rest) = .ok (acc ++ (px.map (widen pad)).flatten, rest) := by
  intro px
  induction px with
  | nil => intro acc _; simp [zRaw]
  | cons p px ih =>
    intro acc h
    have h1 := h p (by simp)
    have h2 := ih (acc ++ widen pad p) (fun q hq => h q (by simp [hq]))
    simp only [List.length_cons, List.flatten_cons, List.append_assoc, zRaw,
      zCpixel_append cp pad p _ h1, List.map_cons]
    simp only [bind, Except.bind]
    rw [h2]; simp

/-! ## run lengths -/

theorem runLenWire_pos (f m : Nat) : 1 ≤ (runLenWire (f + 1) m).length := by
  unfold runLenWire; split <;> simp

theorem byteOf_ne_255 (m : Nat) (h : m < 255) : (byteOf m == 255) = false := by
  apply beq_false_of_ne
  intro h0
  have := congrArg UInt8.toNat h0
  rw [byteOf_toNat] at this
  have e : (255 : UInt8).toNat = 255 := rfl
  omega

theorem runLen_gen : ∀ (f m : Nat), 1 ≤ m → m - 1 < 255 * f → ∀ (rest : Bytes) (acc g : Nat),
    (runLenWire f m).length < g →
    zRunLen g acc (runLenWire f m ++ rest) = .ok (acc + m, rest) := by
  intro f
  induction f with
  | zero => intro m _ h; omega
  | succ f ih =>
    intro m hm hlt rest acc g hg
    cases g with
    | zero => omega
    | succ g =>
      unfold runLenWire at hg ⊢
      by_cases hc : m - 1 ≥ 255
      · rw [if_pos hc] at hg ⊢
        have := ih (m - 255) (by omega) (by omega) rest (acc + 255) g (by simpa using hg)
        rw [List.cons_append, zRunLen.eq_2]
        simp only [zNext, bind, Except.bind]
        simp only [beq_self_eq_true, if_true, this]
        have e : acc + 255 + (m - 255) = acc + m := by omega
        rw [e]
      · rw [if_neg hc]
        rw [List.cons_append, List.nil_append, zRunLen.eq_2]
        simp only [zNext, bind, Except.bind]
        rw [byteOf_ne_255 _ (by omega)]
        simp only [Bool.false_eq_true, if_false, byteOf_toNat, pure, Except.pure]
        have e : acc + (m - 1) % 256 + 1 = acc + m := by omega
        rw [e]

theorem runLen_self (n : Nat) (hn : 1 ≤ n) (rest : Bytes) (acc g : Nat)
    (hg : (runLenWire (n + 1) n).length < g) :
    zRunLen g acc (runLenWire (n + 1) n ++ rest) = .ok (acc + n, rest) :=
  runLen_gen (n + 1) n hn (by omega) rest acc g hg

/-! ## RLE -/


theorem plainRle_runs (cp : Nat) (pad : Bool) (pit : Nat) (rest : Bytes) :
    ∀ (runs : List (Bytes × Nat)) (fuel num : Nat) (acc : Bytes),
    (∀ r ∈ runs, r.1.length = cp ∧ 1 ≤ r.2) → num + (runs.map (·.2)).sum = pit → runs.length < fuel →
    zPlainRle cp pad (pit : Int) fuel num acc
        (runs.flatMap (fun r => r.1 ++ runLenWire (r.2 + 1) r.2) ++ rest) =
      .ok (acc ++ (runs.map fun r => repeatBytes (widen pad r.1) r.2).flatten, rest) := by
  intro runs
  induction runs with
  | nil =>
    intro fuel num acc _ hs hf
    cases fuel with
    | zero => simp at hf
    | succ f =>
      simp only [List.map_nil, List.sum_nil, Nat.add_zero] at hs
      subst hs
      simp [zPlainRle, pure, Except.pure]
  | cons r runs ih =>
    intro fuel num acc h hs hf
    obtain ⟨h1, h2⟩ := h r (by simp)
    cases fuel with
    | zero => simp at hf
    | succ f =>
      simp only [List.map_cons, List.sum_cons] at hs
      have hlt : (num : Int) < (pit : Int) := by omega
      have hrl := runLen_self r.2 h2 (runs.flatMap (fun r => r.1 ++ runLenWire (r.2 + 1) r.2) ++ rest) 0
        ((runLenWire (r.2 + 1) r.2 ++ (runs.flatMap (fun r => r.1 ++ runLenWire (r.2 + 1) r.2) ++ rest)).length + 1)
        (by simp; omega)
      have hih := ih f (num + r.2) (acc ++ repeatBytes (widen pad r.1) r.2) (fun q hq => h q (by simp [hq]))
        (by omega) (by simpa using hf)
      rw [List.flatMap_cons, List.append_assoc, List.append_assoc, zPlainRle, if_pos hlt,
        zCpixel_append cp pad r.1 _ h1]
      simp only [bind, Except.bind]
      rw [hrl]
      simp only [Nat.zero_add]
      rw [hih]
      simp


theorem getD_of_lt (pal : List Bytes) (i : Nat) (h : i < pal.length) : pal[i]? = some (pal.getD i []) := by
  rw [List.getD_eq_getElem?_getD, List.getElem?_eq_getElem h]; rfl

theorem repeatBytes_one (p : Bytes) : repeatBytes p 1 = p := by
  simp [repeatBytes]

theorem palRle_runs (pal : List Bytes) (hpal : pal.length ≤ 127) (pit : Nat) (rest : Bytes) :
    ∀ (runs : List (Nat × Nat)) (fuel num : Nat) (acc : Bytes),
    (∀ r ∈ runs, r.1 < pal.length ∧ 1 ≤ r.2) → num + (runs.map (·.2)).sum = pit → runs.length < fuel →
    zPalRle pal (pit : Int) fuel num acc
        (runs.flatMap (fun r => if r.2 = 1 then [byteOf r.1] else byteOf (128 + r.1) :: runLenWire (r.2 + 1) r.2)
          ++ rest) =
      .ok (acc ++ (runs.map fun r => repeatBytes (pal.getD r.1 []) r.2).flatten, rest) := by
  intro runs
  induction runs with
  | nil =>
    intro fuel num acc _ hs hf
    cases fuel with
    | zero => simp at hf
    | succ f =>
      simp only [List.map_nil, List.sum_nil, Nat.add_zero] at hs
      subst hs
      simp [zPalRle, pure, Except.pure]
  | cons r runs ih =>
    intro fuel num acc h hs hf
    obtain ⟨h1, h2⟩ := h r (by simp)
    cases fuel with
    | zero => simp at hf
    | succ f =>
      simp only [List.map_cons, List.sum_cons] at hs
      have hlt : (num : Int) < (pit : Int) := by omega
      have hih := ih f (num + r.2) (acc ++ repeatBytes (pal.getD r.1 []) r.2) (fun q hq => h q (by simp [hq]))
        (by omega) (by simpa using hf)
      rw [List.flatMap_cons, List.append_assoc]
      by_cases h1r : r.2 = 1
      · rw [if_pos h1r, List.cons_append, List.nil_append, zPalRle, if_pos hlt]
        simp only [zNext, bind, Except.bind]
        have hb : (byteOf r.1).toNat = r.1 := by rw [byteOf_toNat]; omega
        have hnot : ¬ (byteOf r.1).toNat ≥ 128 := by omega
        rw [if_neg hnot, hb, getD_of_lt pal r.1 h1]
        simp only []
        rw [h1r, repeatBytes_one] at hih
        rw [hih]
        simp [h1r, repeatBytes_one]
      · rw [if_neg h1r, List.cons_append, zPalRle, if_pos hlt]
        simp only [zNext, bind, Except.bind]
        have hb : (byteOf (128 + r.1)).toNat = 128 + r.1 := by rw [byteOf_toNat]; omega
        have hge : (byteOf (128 + r.1)).toNat ≥ 128 := by omega
        have hrl := runLen_self r.2 h2 (runs.flatMap (fun r => if r.2 = 1 then [byteOf r.1] else
            byteOf (128 + r.1) :: runLenWire (r.2 + 1) r.2) ++ rest) 0
          ((runLenWire (r.2 + 1) r.2 ++ (runs.flatMap (fun r => if r.2 = 1 then [byteOf r.1] else
            byteOf (128 + r.1) :: runLenWire (r.2 + 1) r.2) ++ rest)).length + 1)
          (by simp; omega)
        rw [if_pos hge, hb, Nat.add_sub_cancel_left, getD_of_lt pal r.1 h1]
        simp only []
        rw [hrl]
        simp only [Nat.zero_add]
        rw [hih]
        simp
/-! ## packed palette -/


def unpackB (bits : Nat) (b : UInt8) : Nat → Nat → List Nat
  | 0, _ => []
  | k+1, n => (b.toNat >>> (8 - bits - n)) % 2 ^ bits :: unpackB bits b k (n + bits)

theorem int_ne_zero (tw : Nat) (h : 0 < tw) : ((tw : Int) == 0) = false := by
  apply beq_false_of_ne; omega

def cols (pal : List Bytes) (ch : List Nat) : Bytes := (ch.map (pal.getD · [])).flatten

theorem cols_cons (pal : List Bytes) (i : Nat) (ch : List Nat) : cols pal (i :: ch) = pal.getD i [] ++ cols pal ch := by
  simp [cols]

theorem cols_append (pal : List Bytes) (a b : List Nat) : cols pal (a ++ b) = cols pal a ++ cols pal b := by
  simp [cols]

theorem inner_chunk (pal : List Bytes) (bits pit tw : Nat) (htw : 0 < tw) (b : UInt8) :
    ∀ (ch : List Nat) (k num n : Nat) (acc : Bytes), ch ≠ [] → ch.length ≤ k → unpackB bits b ch.length n = ch →
    (∀ i ∈ ch, i < pal.length) → (∀ m, 0 < m → m < ch.length → num + m ≠ pit ∧ (num + m) % tw ≠ 0) →
    (num + ch.length = pit ∨ (num + ch.length) % tw = 0 ∨ ch.length = k) →
    zPacked.inner pal bits (pit : Int) (tw : Int) b k num n acc =
      .ok (if num + ch.length = pit then some (acc ++ cols pal ch) else none, num + ch.length, acc ++ cols pal ch) := by
  intro ch
  induction ch with
  | nil => intro k num n acc h; exact absurd rfl h
  | cons i ch ih =>
    intro k num n acc _ hk hun hlt hmid hend
    cases k with
    | zero => simp at hk
    | succ k =>
      simp only [List.length_cons, unpackB, List.cons.injEq] at hun
      obtain ⟨hi, hun'⟩ := hun
      rw [zPacked.inner.eq_2, hi, getD_of_lt pal i (hlt i (by simp))]
      simp only []
      by_cases hnil : ch = []
      · subst hnil
        simp only [List.length_cons, List.length_nil, Nat.zero_add] at hend ⊢
        have hc1 : cols pal [i] = pal.getD i [] := by simp [cols]
        rw [hc1]
        by_cases h1 : num + 1 = pit
        · rw [if_pos ((beq_int_nat _ _).2 h1), if_pos h1]
        · rw [if_neg (mt (beq_int_nat _ _).1 h1), if_neg h1, int_ne_zero tw htw]
          simp only [Bool.false_eq_true, if_false]
          by_cases h2 : (num + 1) % tw = 0
          · rw [if_pos ((mod_int_nat _ _).2 h2)]
          · rw [if_neg (mt (mod_int_nat _ _).1 h2)]
            have hk0 : k = 0 := by omega
            subst hk0
            rw [zPacked.inner.eq_1]
      · have hpos : 0 < ch.length := List.length_pos_iff.mpr hnil
        simp only [List.length_cons] at hmid hend hk ⊢
        obtain ⟨h1, h2⟩ := hmid 1 (by omega) (by omega)
        rw [if_neg (mt (beq_int_nat _ _).1 h1), int_ne_zero tw htw]
        simp only [Bool.false_eq_true, if_false]
        rw [if_neg (mt (mod_int_nat _ _).1 h2)]
        have := ih k (num + 1) (n + bits) (acc ++ pal.getD i []) hnil (by omega) hun'
          (fun j hj => hlt j (by simp [hj]))
          (fun m hm0 hm => by have := hmid (m + 1) (by omega) (by omega); rwa [Nat.add_assoc, Nat.add_comm 1 m])
          (by
            rw [Nat.add_assoc, Nat.add_comm 1 ch.length]
            rcases hend with h | h | h
            · exact Or.inl h
            · exact Or.inr (Or.inl h)
            · exact Or.inr (Or.inr (by omega)))
        rw [this, cols_cons, Nat.add_assoc, Nat.add_comm 1, List.append_assoc]



def packVal (bits : Nat) (a : Nat) (ch : List Nat) : Nat := ch.foldl (fun a i => a * 2 ^ bits + i) a

theorem packRow_chunk (bits : Nat) (hb : 0 < bits) : ∀ (ch : List Nat) (a used : Nat) (s' : List Nat),
    used + bits * ch.length ≤ 8 → used < 8 → (ch ≠ [] ∨ 0 < used) → (used + bits * ch.length < 8 → s' = []) →
    packRow bits a used (ch ++ s') =
      byteOf (packVal bits a ch * 2 ^ (8 - (used + bits * ch.length))) :: packRow bits 0 0 s' := by
  intro ch
  induction ch with
  | nil =>
    intro a used s' h8 hu hne hs
    have hu0 : 0 < used := by
      rcases hne with h | h
      · exact absurd rfl h
      · exact h
    simp only [List.length_nil, Nat.mul_zero, Nat.add_zero] at hs h8 ⊢
    rw [hs (by omega)]
    simp only [List.append_nil, packRow, packVal, List.foldl_nil]
    rw [if_neg (by omega)]
    simp
  | cons i ch ih =>
    intro a used s' h8 hu hne hs
    have hm : bits * (ch.length + 1) = bits * ch.length + bits := Nat.mul_succ _ _
    simp only [List.length_cons] at h8 hs ⊢
    rw [List.cons_append, packRow]
    by_cases h88 : used + bits = 8
    · rw [if_pos h88]
      have hl : ch.length = 0 := by
        have : bits * ch.length = 0 := by omega
        rcases Nat.mul_eq_zero.1 this with h | h
        · omega
        · exact h
      have hch : ch = [] := List.eq_nil_of_length_eq_zero hl
      subst hch
      simp only [List.nil_append, packVal, List.foldl_cons, List.foldl_nil, List.length_nil]
      have e : 8 - (used + bits * (0 + 1)) = 0 := by omega
      rw [e]; simp
    · rw [if_neg h88]
      rw [ih (a * 2 ^ bits + i) (used + bits) s' (by omega) (by omega) (Or.inr (by omega))
        (fun h => hs (by omega))]
      simp only [packVal, List.foldl_cons]
      have e : 8 - (used + bits + bits * ch.length) = 8 - (used + bits * (ch.length + 1)) := by omega
      rw [e]

macro "unpack_case" h:ident : tactic => `(tactic|
  (simp at $h:ident
   simp [unpackB, packVal, byteOf_toNat, Nat.shiftRight_eq_div_pow]
   omega))

set_option maxRecDepth 4000 in
theorem unpack_pack (bits : Nat) (hbits : bits = 1 ∨ bits = 2 ∨ bits = 4) (ch : List Nat) (h1 : ch ≠ [])
    (h8 : bits * ch.length ≤ 8) (hlt : ∀ i ∈ ch, i < 2 ^ bits) :
    unpackB bits (byteOf (packVal bits 0 ch * 2 ^ (8 - bits * ch.length))) ch.length 0 = ch := by
  rcases hbits with rfl | rfl | rfl
  ·
    match ch, h1, h8, hlt with
    | [], h1, _, _ => exact absurd rfl h1
    | [a], _, _, hlt => unpack_case hlt
    | [a, b], _, _, hlt => unpack_case hlt
    | [a, b, c], _, _, hlt => unpack_case hlt
    | [a, b, c, d], _, _, hlt => unpack_case hlt
    | [a, b, c, d, e], _, _, hlt => unpack_case hlt
    | [a, b, c, d, e, f], _, _, hlt => unpack_case hlt
    | [a, b, c, d, e, f, g], _, _, hlt => unpack_case hlt
    | [a, b, c, d, e, f, g, h], _, _, hlt => unpack_case hlt
    | _ :: _ :: _ :: _ :: _ :: _ :: _ :: _ :: _ :: _, _, h8, _ => simp only [List.length_cons] at h8; omega
  ·
    match ch, h1, h8, hlt with
    | [], h1, _, _ => exact absurd rfl h1
    | [a], _, _, hlt => unpack_case hlt
    | [a, b], _, _, hlt => unpack_case hlt
    | [a, b, c], _, _, hlt => unpack_case hlt
    | [a, b, c, d], _, _, hlt => unpack_case hlt
    | _ :: _ :: _ :: _ :: _ :: _, _, h8, _ => simp only [List.length_cons] at h8; omega
  ·
    match ch, h1, h8, hlt with
    | [], h1, _, _ => exact absurd rfl h1
    | [a], _, _, hlt => unpack_case hlt
    | [a, b], _, _, hlt => unpack_case hlt
    | _ :: _ :: _ :: _, _, h8, _ => simp only [List.length_cons] at h8; omega


theorem zPacked_step (pal : List Bytes) (bits : Nat) (pit tw : Int) (fuel num : Nat) (acc : Bytes) (b : UInt8)
    (rest : Bytes) (K : Nat) (hK : 8 / bits = K) :
    zPacked pal bits pit tw (fuel + 1) num acc (b :: rest) =
      match zPacked.inner pal bits pit tw b K num 0 acc with
      | .error e => .error e
      | .ok (some done, _, _) => .ok (done, rest)
      | .ok (none, num', acc') => zPacked pal bits pit tw fuel num' acc' rest := by
  subst hK
  rfl

theorem mod_row (r tw d : Nat) (hd : d < tw) : (r * tw + d) % tw = d := by
  rw [Nat.mul_comm, Nat.mul_add_mod, Nat.mod_eq_of_lt hd]

theorem mod_row_end (r tw : Nat) : (r * tw + tw) % tw = 0 := by
  rw [Nat.add_mod_right, Nat.mul_mod_left]

theorem zPacked_rowSuffix (pal : List Bytes) (bits : Nat) (hbits : bits = 1 ∨ bits = 2 ∨ bits = 4)
    (hpal : pal.length ≤ 2 ^ bits) (tw th r : Nat) (htw : 0 < tw) (hr : r < th) :
    ∀ (n : Nat) (s : List Nat), s.length ≤ n → s ≠ [] → s.length ≤ tw → (∀ i ∈ s, i < pal.length) →
    ∀ (fuel : Nat) (acc rest : Bytes), (packRow bits 0 0 s).length ≤ fuel →
    zPacked pal bits ((tw * th : Nat) : Int) (tw : Int) fuel (r * tw + (tw - s.length)) acc
        (packRow bits 0 0 s ++ rest) =
      if r + 1 = th then .ok (acc ++ cols pal s, rest)
      else zPacked pal bits ((tw * th : Nat) : Int) (tw : Int) (fuel - (packRow bits 0 0 s).length) ((r + 1) * tw)
        (acc ++ cols pal s) rest := by
  have hbpos : 0 < bits := by rcases hbits with rfl | rfl | rfl <;> omega
  have hK : bits * (8 / bits) = 8 := by rcases hbits with rfl | rfl | rfl <;> rfl
  have hsucc : (r + 1) * tw = r * tw + tw := Nat.succ_mul r tw
  have hpit : (r + 1) * tw ≤ tw * th := by rw [Nat.mul_comm tw th]; exact Nat.mul_le_mul_right tw hr
  intro n
  induction n with
  | zero =>
    intro s hs hne; exfalso; apply hne; exact List.eq_nil_of_length_eq_zero (by omega)
  | succ n ih =>
    intro s hsn hne hstw hlt fuel acc rest hfuel
    have hspos : 0 < s.length := List.length_pos_iff.mpr hne
    have hKpos : 0 < 8 / bits := by rcases hbits with rfl | rfl | rfl <;> decide
    have hsplit : s = s.take (8 / bits) ++ s.drop (8 / bits) := (List.take_append_drop _ s).symm
    have hl1 : (s.take (8 / bits)).length = min (8 / bits) s.length := List.length_take
    have hl2 : (s.drop (8 / bits)).length = s.length - 8 / bits := List.length_drop
    generalize s.take (8 / bits) = ch at hsplit hl1
    generalize s.drop (8 / bits) = s' at hsplit hl2
    generalize hKd : 8 / bits = K at hK hKpos hl1 hl2 ⊢
    subst hsplit
    simp only [List.length_append] at hsn hstw hspos hl1 hl2 hfuel ⊢
    have hchne : ch ≠ [] := by
      have : 0 < ch.length := by omega
      intro h0; subst h0; simp at this
    have hchK : ch.length ≤ K := by omega
    have hb8 : bits * ch.length ≤ 8 := by rw [← hK]; exact Nat.mul_le_mul_left bits hchK
    have hs'nil : bits * ch.length < 8 → s' = [] := by
      intro h
      have : ch.length ≠ K := by intro h0; rw [h0] at h; omega
      exact List.eq_nil_of_length_eq_zero (by omega)
    have hchunk := packRow_chunk bits hbpos ch 0 0 s' (by omega) (by omega) (Or.inl hchne)
      (by rw [Nat.zero_add]; exact hs'nil)
    rw [Nat.zero_add] at hchunk
    rw [hchunk] at hfuel ⊢
    simp only [List.length_cons] at hfuel
    cases fuel with
    | zero => omega
    | succ f =>
      have hltch : ∀ i ∈ ch, i < pal.length := fun i hi => hlt i (by simp [hi])
      have hun := unpack_pack bits hbits ch hchne hb8 (fun i hi => Nat.lt_of_lt_of_le (hltch i hi) hpal)
      rw [List.cons_append, zPacked_step _ _ _ _ _ _ _ _ _ K hKd]
      have hmid : ∀ m, 0 < m → m < ch.length →
          r * tw + (tw - (ch.length + s'.length)) + m ≠ tw * th ∧
          (r * tw + (tw - (ch.length + s'.length)) + m) % tw ≠ 0 := by
        intro m hm0 hm
        refine ⟨by omega, ?_⟩
        rw [Nat.add_assoc, mod_row r tw _ (by omega)]
        omega
      by_cases hs' : s' = []
      · subst hs'
        simp only [List.length_nil, Nat.add_zero, List.append_nil] at hmid hstw hl1 ⊢
        have hnum : r * tw + (tw - ch.length) + ch.length = (r + 1) * tw := by omega
        have hinner := inner_chunk pal bits (tw * th) tw htw _ ch K (r * tw + (tw - ch.length)) 0 acc hchne hchK hun
          hltch hmid (Or.inr (Or.inl (by rw [hnum, hsucc]; exact mod_row_end r tw)))
        rw [hinner, hnum]
        have hp : packRow bits 0 0 [] = [] := by simp [packRow]
        by_cases hlast : r + 1 = th
        · have : (r + 1) * tw = tw * th := by rw [hlast, Nat.mul_comm]
          rw [if_pos this, if_pos hlast, hp]
          rfl
        · have : ¬ (r + 1) * tw = tw * th := by
            intro h0
            rw [Nat.mul_comm tw th] at h0
            exact hlast (Nat.eq_of_mul_eq_mul_right htw h0)
          rw [if_neg this, if_neg hlast, hp]
          simp
      · have hs'pos : 0 < s'.length := List.length_pos_iff.mpr hs'
        have hchK' : ch.length = K := by omega
        have hinner := inner_chunk pal bits (tw * th) tw htw _ ch K (r * tw + (tw - (ch.length + s'.length))) 0 acc
          hchne hchK hun hltch hmid (Or.inr (Or.inr hchK'))
        have hnp : ¬ r * tw + (tw - (ch.length + s'.length)) + ch.length = tw * th := by omega
        rw [hinner, if_neg hnp]
        have hnum : r * tw + (tw - (ch.length + s'.length)) + ch.length = r * tw + (tw - s'.length) := by omega
        have hrec := ih s' (by omega) hs' (by omega) (fun i hi => hlt i (by simp [hi])) f (acc ++ cols pal ch) rest
          (by omega)
        simp only []
        rw [hnum, hrec, cols_append, List.append_assoc]
        have e : f + 1 - ((packRow bits 0 0 s').length + 1) = f - (packRow bits 0 0 s').length := by omega
        rw [List.length_cons, e]


theorem zPacked_rows (pal : List Bytes) (bits : Nat) (hbits : bits = 1 ∨ bits = 2 ∨ bits = 4)
    (hpal : pal.length ≤ 2 ^ bits) (tw th : Nat) (htw : 0 < tw) :
    ∀ (t r : Nat) (idx : List Nat) (fuel : Nat) (acc rest : Bytes),
    r + t = th → 1 ≤ t → idx.length = tw * t → (∀ i ∈ idx, i < pal.length) →
    ((rowsOf tw t idx).flatMap (packRow bits 0 0)).length ≤ fuel →
    zPacked pal bits ((tw * th : Nat) : Int) (tw : Int) fuel (r * tw) acc
        ((rowsOf tw t idx).flatMap (packRow bits 0 0) ++ rest) = .ok (acc ++ cols pal idx, rest) := by
  intro t
  induction t with
  | zero => intro r idx fuel acc rest _ h; omega
  | succ t ih =>
    intro r idx fuel acc rest hrt _ hlen hlt hfuel
    have hm : tw * (t + 1) = tw * t + tw := Nat.mul_succ tw t
    have hrow : (idx.take tw).length = tw := by rw [List.length_take]; omega
    have hdrop : (idx.drop tw).length = tw * t := by rw [List.length_drop]; omega
    simp only [rowsOf, List.flatMap_cons, List.length_append] at hfuel ⊢
    have hne : idx.take tw ≠ [] := by
      intro h0; rw [h0] at hrow; simp at hrow; omega
    have h := zPacked_rowSuffix pal bits hbits hpal tw th r htw (by omega) _ (idx.take tw) (Nat.le_refl _) hne
      (by omega) (fun i hi => hlt i (List.mem_of_mem_take hi)) fuel acc
      ((rowsOf tw t (idx.drop tw)).flatMap (packRow bits 0 0) ++ rest) (by omega)
    rw [hrow, Nat.sub_self, Nat.add_zero] at h
    rw [List.append_assoc, h]
    by_cases hlast : r + 1 = th
    · have ht0 : t = 0 := by omega
      subst ht0
      rw [if_pos hlast]
      have : idx.take tw = idx := List.take_of_length_le (by omega)
      rw [this]
      simp [rowsOf]
    · rw [if_neg hlast]
      have := ih (r + 1) (idx.drop tw) (fuel - (packRow bits 0 0 (idx.take tw)).length) (acc ++ cols pal (idx.take tw))
        rest (by omega) (by omega) hdrop (fun i hi => hlt i (List.mem_of_mem_drop hi)) (by omega)
      rw [this, List.append_assoc, ← cols_append, List.take_append_drop]
/-! ## one tile -/


theorem bitsPer_cases (n : Nat) : bitsPer n = 1 ∨ bitsPer n = 2 ∨ bitsPer n = 4 := by
  unfold bitsPer; split
  · exact Or.inl rfl
  · split
    · exact Or.inr (Or.inl rfl)
    · exact Or.inr (Or.inr rfl)

theorem bitsPer_le (n : Nat) (_h2 : 2 ≤ n) (h16 : n ≤ 16) : n ≤ 2 ^ bitsPer n := by
  unfold bitsPer; split
  · omega
  · split <;> omega

theorem getD_map_widen (pal : List Bytes) (pad : Bool) (i : Nat) (h : i < pal.length) :
    (pal.map (widen pad)).getD i [] = widen pad (pal.getD i []) := by
  simp [List.getD_eq_getElem?_getD, List.getElem?_eq_getElem h]

theorem cols_map_widen (pal : List Bytes) (pad : Bool) (idx : List Nat) (h : ∀ i ∈ idx, i < pal.length) :
    cols (pal.map (widen pad)) idx = (idx.map fun i => widen pad (pal.getD i [])).flatten := by
  unfold cols
  congr 1
  apply List.map_congr_left
  intro i hi
  exact getD_map_widen pal pad i (h i hi)

theorem zPacked_tile (pal : List Bytes) (pad : Bool) (idx : List Nat) (tw th : Nat) (htw : 0 < tw) (hth : 0 < th)
    (h2 : 2 ≤ pal.length) (h16 : pal.length ≤ 16) (hlen : idx.length = tw * th) (hlt : ∀ i ∈ idx, i < pal.length)
    (rest : Bytes) (fuel : Nat)
    (hfuel : ((rowsOf tw th idx).flatMap (packRow (bitsPer pal.length) 0 0)).length ≤ fuel) :
    zPacked (pal.map (widen pad)) (bitsPer pal.length) ((tw * th : Nat) : Int) (tw : Int) fuel 0 []
        ((rowsOf tw th idx).flatMap (packRow (bitsPer pal.length) 0 0) ++ rest) =
      .ok ((idx.map fun i => widen pad (pal.getD i [])).flatten, rest) := by
  have h := zPacked_rows (pal.map (widen pad)) (bitsPer pal.length) (bitsPer_cases _)
    (by rw [List.length_map]; exact bitsPer_le _ h2 h16) tw th htw th 0 idx fuel [] rest (by omega) hth hlen
    (by rw [List.length_map]; exact hlt) hfuel
  rw [Nat.zero_mul, List.nil_append, cols_map_widen pal pad idx hlt] at h
  exact h

/-- the result of decoding one tile (the `r` of `zTiles`) as a function of the tile size -/
def zTileBody (cp : Nat) (pad : Bool) (tx ty tw th : Int) (sub : UInt8) (d0 : Bytes) :
    ZRes (List Out × Bytes) :=
  let pit : Int := tw * th
  let psize := sub.toNat % 128
  if sub.toNat ≥ 128 then
    if psize == 0 then do
      let (px, d1) ← zPlainRle cp pad pit (d0.length + 2) 0 [] d0
      pure ([Out.update tx ty tw th px], d1)
    else do
      let (pal, d1) ← zPalette cp pad psize d0
      let (px, d2) ← zPalRle pal pit (d1.length + 2) 0 [] d1
      pure ([Out.update tx ty tw th px], d2)
  else if psize == 0 then do
    let (px, d1) ← zRaw cp pad pit.toNat [] d0
    pure ([Out.update tx ty tw th px], d1)
  else if psize == 1 then do
    let (col, d1) ← zCpixel cp pad d0
    pure ([Out.fill tx ty tw th (some col)], d1)
  else if psize > 16 then .error "value"
  else do
    let (pal, d1) ← zPalette cp pad psize d0
    let bits := if psize == 2 then 1 else if psize ≤ 4 then 2 else 4
    let (px, d2) ← zPacked pal bits pit tw (d1.length + 2) 0 [] d1
    pure ([Out.update tx ty tw th px], d2)

theorem zTiles_step (cp : Nat) (pad : Bool) (x y w h : Nat) (k : Nat) (tx ty : Int) (sub : UInt8) (d0 : Bytes)
    (outs o : List Out) (d' : Bytes)
    (hr : zTileBody cp pad tx ty (if (x : Int) + w - tx < 64 then (x : Int) + w - tx else 64)
      (if (y : Int) + h - ty < 64 then (y : Int) + h - ty else 64) sub d0 = .ok (o, d')) :
    zTiles cp pad x y w h (k + 1) tx ty (sub :: d0) outs =
      zTiles cp pad x y w h k (if tx + 64 ≥ (x : Int) + w then (x : Int) else tx + 64)
        (if tx + 64 ≥ (x : Int) + w then ty + 64 else ty) d' (outs ++ o) := by
  rw [zTiles]
  simp only []
  unfold zTileBody at hr
  simp only [] at hr
  rw [hr]
  dsimp only
  split <;> rfl

theorem twI (x w tx : Nat) (htx : x ≤ tx ∧ tx < x + w) :
    (if (x : Int) + w - (tx : Int) < 64 then (x : Int) + w - (tx : Int) else 64) = ((min 64 (x + w - tx) : Nat) : Int) := by
  split <;> omega

theorem tile_raw (cp : Nat) (pad : Bool) (tx ty tw th : Nat) (px : List Bytes) (rest : Bytes)
    (hwf : (ZTile.raw px).WF cp tw th) :
    zTileBody cp pad tx ty tw th 0 (px.flatten ++ rest) = .ok ([(ZTile.raw px).paint pad tx ty tw th], rest) := by
  obtain ⟨h1, h2⟩ := hwf
  have hs : (0 : UInt8).toNat = 0 := rfl
  unfold zTileBody
  simp only [hs, ← Int.natCast_mul, Int.toNat_natCast, ← h1, zRaw_flatten cp pad rest px [] h2]
  simp [ZTile.paint, ZTile.pixels]
  rfl

theorem tile_solid (cp : Nat) (pad : Bool) (tx ty tw th : Nat) (c : Bytes) (rest : Bytes)
    (hwf : (ZTile.solid c).WF cp tw th) :
    zTileBody cp pad tx ty tw th 1 (c ++ rest) = .ok ([(ZTile.solid c).paint pad tx ty tw th], rest) := by
  have hs : (1 : UInt8).toNat = 1 := rfl
  unfold zTileBody
  simp only [hs, zCpixel_append cp pad c rest hwf]
  simp [ZTile.paint]
  rfl

theorem tile_rle (cp : Nat) (pad : Bool) (tx ty tw th : Nat) (runs : List (Bytes × Nat)) (rest : Bytes)
    (hwf : (ZTile.rle runs).WF cp tw th) :
    zTileBody cp pad tx ty tw th 128 ((runs.flatMap fun r => r.1 ++ runLenWire (r.2 + 1) r.2) ++ rest) =
      .ok ([(ZTile.rle runs).paint pad tx ty tw th], rest) := by
  obtain ⟨h1, h2⟩ := hwf
  have hs : (128 : UInt8).toNat = 128 := rfl
  have hlen : runs.length ≤ (runs.flatMap fun r => r.1 ++ runLenWire (r.2 + 1) r.2).length := by
    clear h1 h2
    induction runs with
    | nil => simp
    | cons r runs ih =>
      have := runLenWire_pos r.2 r.2
      simp only [List.flatMap_cons, List.length_append, List.length_cons]
      omega
  have hd := plainRle_runs cp pad (tw * th) rest runs
    (((runs.flatMap fun r => r.1 ++ runLenWire (r.2 + 1) r.2) ++ rest).length + 2) 0 [] h1 (by omega)
    (by rw [List.length_append]; omega)
  unfold zTileBody
  simp only [hs, ← Int.natCast_mul]
  simp only [ge_iff_le, Nat.le_refl, if_true, Nat.mod_self, beq_self_eq_true, hd]
  simp [ZTile.paint, ZTile.pixels]
  rfl

theorem tile_prle (cp : Nat) (pad : Bool) (tx ty tw th : Nat) (pal : List Bytes) (runs : List (Nat × Nat))
    (rest : Bytes) (hwf : (ZTile.prle pal runs).WF cp tw th) :
    zTileBody cp pad tx ty tw th (byteOf (128 + pal.length))
      (pal.flatten ++ ((runs.flatMap fun r => if r.2 = 1 then [byteOf r.1] else
        byteOf (128 + r.1) :: runLenWire (r.2 + 1) r.2) ++ rest)) =
      .ok ([(ZTile.prle pal runs).paint pad tx ty tw th], rest) := by
  obtain ⟨h2, h127, hp, h1, hsum⟩ := hwf
  have hs : (byteOf (128 + pal.length)).toNat = 128 + pal.length := by rw [byteOf_toNat]; omega
  have hlen : runs.length ≤ (runs.flatMap fun r => if r.2 = 1 then [byteOf r.1] else
        byteOf (128 + r.1) :: runLenWire (r.2 + 1) r.2).length := by
    clear h1 hsum
    induction runs with
    | nil => simp
    | cons r runs ih =>
      simp only [List.flatMap_cons, List.length_append]
      split
      · simp only [List.length_cons, List.length_nil]; omega
      · simp only [List.length_cons]; omega
  have hd := palRle_runs (pal.map (widen pad)) (by rw [List.length_map]; exact h127) (tw * th) rest runs
    (((runs.flatMap fun r => if r.2 = 1 then [byteOf r.1] else
        byteOf (128 + r.1) :: runLenWire (r.2 + 1) r.2) ++ rest).length + 2) 0 []
    (by rw [List.length_map]; exact h1) (by omega) (by rw [List.length_append]; omega)
  have hpx : (runs.map fun r => repeatBytes ((pal.map (widen pad)).getD r.1 []) r.2) =
      (runs.map fun r => repeatBytes (widen pad (pal.getD r.1 [])) r.2) := by
    apply List.map_congr_left
    intro r hr
    rw [getD_map_widen pal pad r.1 (h1 r hr).1]
  rw [hpx] at hd
  have hmod : (128 + pal.length) % 128 = pal.length := by omega
  have hne : (pal.length == 0) = false := by apply beq_false_of_ne; omega
  unfold zTileBody
  simp only [hs, ← Int.natCast_mul, hne, hmod, zPalette_flatten cp pad _ pal hp]
  simp only [ge_iff_le, Nat.le_add_right, if_true, Bool.false_eq_true, if_false, bind, Except.bind, hd]
  simp [ZTile.paint, ZTile.pixels]
  rfl

theorem tile_packed (cp : Nat) (pad : Bool) (tx ty tw th : Nat) (htw : 0 < tw) (hth : 0 < th) (pal : List Bytes)
    (idx : List Nat) (rest : Bytes) (hwf : (ZTile.packed pal idx).WF cp tw th) :
    zTileBody cp pad tx ty tw th (byteOf pal.length)
      (pal.flatten ++ ((rowsOf tw th idx).flatMap (packRow (bitsPer pal.length) 0 0) ++ rest)) =
      .ok ([(ZTile.packed pal idx).paint pad tx ty tw th], rest) := by
  obtain ⟨h2, h16, hp, hlen, hlt⟩ := hwf
  have hs : (byteOf pal.length).toNat = pal.length := by rw [byteOf_toNat]; omega
  have hd := zPacked_tile pal pad idx tw th htw hth h2 h16 hlen hlt rest
    (((rowsOf tw th idx).flatMap (packRow (bitsPer pal.length) 0 0) ++ rest).length + 2)
    (by rw [List.length_append]; omega)
  have hmod : pal.length % 128 = pal.length := by omega
  have hn128 : ¬ pal.length ≥ 128 := by omega
  have hne0 : (pal.length == 0) = false := by apply beq_false_of_ne; omega
  have hne1 : (pal.length == 1) = false := by apply beq_false_of_ne; omega
  have hn16 : ¬ pal.length > 16 := by omega
  have hbits : (if (pal.length == 2) = true then 1 else if pal.length ≤ 4 then 2 else 4) = bitsPer pal.length := by
    unfold bitsPer
    by_cases h : pal.length = 2 <;> simp [h]
  unfold zTileBody
  simp only [hs, ← Int.natCast_mul, hmod, if_neg hn128, hne0, hne1, if_neg hn16, hbits,
    zPalette_flatten cp pad _ pal hp]
  simp only [Bool.false_eq_true, if_false, bind, Except.bind, hd]
  simp [ZTile.paint, ZTile.pixels]
  rfl
end Vnc
