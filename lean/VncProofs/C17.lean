import VncModel.Proxy
namespace Vnc
end Vnc
