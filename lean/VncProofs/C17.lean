import VncSpec.Recorder
import VncProofs.ExpectInv
/-!
# C16 — The logging proxy is a transparent relay   /   C17 — vnclog records every input event once, in order

Model: `proxyMachine` (VncModel/Proxy.lean = `RFBServer` of loggingproxy.py as an instance of the buffering machine),
`recStep` (the recorder).  Spec: VncSpec/Recorder.lean.

NOTE (statements found false, see `C16_progress_false`, `C16_steps_linear_false`): `Progress proxyMachine` quantifies
over *all* states, including the unreachable states `.body t 0` ("0 bytes of the fixed part remain").  From
`.body 2 0` (resp. `.body 6 0`) the handler moves to `.encodings 0` (resp. `.cutText 0`), which is a second
zero-length expectation.  No handler ever produces `.body t 0` (every understood message is at least 2 bytes long,
`typeLen_cases`), so the corrected statements are relative to the invariant `PInv` (VncProofs/ExpectInv.lean holds the
generic theorems relative to an invariant).
-/
namespace Vnc
open Vnc.Spec

theorem px_step_eq (s : PSt) (b : Bytes) : proxyMachine.step s b = pStep s b := rfl
theorem px_need_eq (s : PSt) : proxyMachine.need s = pNeed s := rfl
theorem px_halted_eq (s : PSt) : proxyMachine.halted s = pHalted s := rfl

/-! ## the parser terminates on every input and never loops on a zero-length field (C16: the relay is never delayed) -/

/-- every understood message type is at least two bytes long -/
theorem typeLen_cases (t : Nat) : typeLen t = 0 ∨ 2 ≤ typeLen t := by
  simp only [typeLen, Tables.TYPE_LEN, List.find?]
  repeat' split
  all_goals simp

/-- the invariant of the reachable states: the parser never waits for "the remaining 0 bytes" of a message -/
def PInv (s : PSt) : Prop := ∀ t, s.ph ≠ .body t 0

theorem keyOut_ph (s : PSt) (k : Nat) (d : Bool) : (keyOut s k d).1.ph = .proto ∨ (keyOut s k d).1.ph = .dead := by
  unfold keyOut; split <;> simp [pgo]

/-- every handler establishes the invariant (whatever the state it was called in) -/
theorem pinv_step (s : PSt) (b : Bytes) : PInv (pStep s b).1 := by
  obtain ⟨pw, ph⟩ := s
  intro t
  cases ph <;> simp only [pStep]
  case proto =>
    generalize (b.getD 0 0).toNat = x
    rcases typeLen_cases x with h | h
    · simp [h, pgo]
    · have : ¬ (typeLen x = 0) := by omega
      simp [this, pgo]; omega
  case body t' n =>
    repeat' split
    all_goals first
      | (simp [pgo]; done)
      | (rcases keyOut_ph ⟨pw, .body t' n⟩ (beNat (b.drop 3)) ((b.getD 0 0) != 0) with h | h <;> rw [h] <;> simp)
  case qemuKey =>
    rcases keyOut_ph ⟨pw, .qemuKey⟩ (beNat ((b.drop 2).take 4)) (beNat (b.take 2) != 0) with h | h <;> rw [h] <;> simp
  all_goals (repeat' split) <;> simp [pgo]

theorem pinv_init (pw : Bool) : PInv (PSt.init pw) := by
  intro t h; cases h

theorem pinv_proto (pw : Bool) : PInv ⟨pw, .proto⟩ := by
  intro t h; cases h

/-- **COUNTER-EXAMPLE to the original statement `Progress proxyMachine`**: the (unreachable) state `.body 2 0` has a
    zero-length expectation and its handler arms `.encodings 0`, another zero-length expectation, without halting. -/
theorem C16_progress_false : ¬ Progress proxyMachine := by
  intro hp
  have := hp ⟨false, .body 2 0⟩ rfl rfl
  revert this
  decide

/-- **CORRECTED `C16_progress`** (original: `Progress proxyMachine`, false by `C16_progress_false`): every handler
    establishes `PInv`, and on `PInv` states a zero-length expectation is never followed by another one. -/
theorem C16_progress : ProgressOn proxyMachine PInv := by
  refine ⟨fun s b _ => pinv_step s b, ?_⟩
  intro s hi hh hz
  obtain ⟨pw, ph⟩ := s
  show pHalted (pStep ⟨pw, ph⟩ []).1 = true ∨ 0 < pNeed (pStep ⟨pw, ph⟩ []).1
  cases ph <;> simp [proxyMachine, pNeed, pHalted] at hz hh
  case body t n => subst hz; exact absurd rfl (hi t)
  case encodings n => right; simp [pStep, pgo, pNeed]
  case cutText n => right; simp [pStep, pgo, pNeed]

theorem not_pinv {s : PSt} (h : ¬ PInv s) : ∃ t, s.ph = .body t 0 := by
  obtain ⟨pw, ph⟩ := s
  cases ph
  case body t n =>
    cases n with
    | zero => exact ⟨t, rfl⟩
    | succ n => exact absurd (by intro t h; simp at h) h
  all_goals exact absurd (by intro t h; simp at h) h

/-- statement as given (holds in *every* state, also the unreachable ones: the fuel of `feed` has one unit to spare) -/
theorem C16_no_spin (st : St PSt) (chunk : Bytes) : (feed proxyMachine st chunk).2.2 = true := by
  by_cases hi : PInv st.s
  · exact feed_ok_on proxyMachine C16_progress st hi chunk
  · obtain ⟨t, ht⟩ := not_pinv hi
    have hnb : proxyMachine.blocked st.s (st.buf ++ chunk) = false := by
      simp [Machine.blocked, proxyMachine, pHalted, pNeed, ht]
    have e : feedFuel st chunk = (2 * (st.buf ++ chunk).length + 1) + 1 := by
      simp only [feedFuel, List.length_append]
    have hz : proxyMachine.need st.s = 0 := by simp [proxyMachine, pNeed, ht]
    simp only [feed, e]
    rw [drain_ok_succ _ _ _ _ hnb, hz, List.take_zero, List.drop_zero]
    apply drain_enough_on proxyMachine C16_progress _ _ _ (pinv_step _ _)
    split <;> omega

/-- **COUNTER-EXAMPLE to the original statement of `C16_steps_linear`** (no hypothesis on `st`): from the unreachable
    state `.body 2 0` with nothing buffered, the empty chunk causes 2 handler calls; the claimed bound is 1. -/
theorem C16_steps_linear_false : ¬ ∀ (st : St PSt) (chunk : Bytes),
    drainSteps proxyMachine (feedFuel st chunk) st.s (st.buf ++ chunk) ≤ 2 * (st.buf.length + chunk.length) + 1 := by
  intro h
  have := h ⟨⟨false, .body 2 0⟩, []⟩ []
  revert this
  decide

/-- **CORRECTED `C16_steps_linear`**: extra hypothesis `hinv` (the state is one the parser can actually be in; it
    holds initially and after every handler call, `pinv_init`, `pinv_step`). -/
theorem C16_steps_linear (st : St PSt) (hinv : PInv st.s) (chunk : Bytes) :
    drainSteps proxyMachine (feedFuel st chunk) st.s (st.buf ++ chunk) ≤ 2 * (st.buf.length + chunk.length) + 1 := by
  have := drainSteps_le_on proxyMachine C16_progress (feedFuel st chunk) st.s (st.buf ++ chunk) hinv
  simp only [List.length_append] at this
  split at this <;> omega

/-- without any hypothesis the bound is one more -/
theorem C16_steps_linear_any (st : St PSt) (chunk : Bytes) :
    drainSteps proxyMachine (feedFuel st chunk) st.s (st.buf ++ chunk) ≤ 2 * (st.buf.length + chunk.length) + 2 := by
  by_cases hi : PInv st.s
  · have := C16_steps_linear st hi chunk
    omega
  · obtain ⟨t, ht⟩ := not_pinv hi
    have hnb : proxyMachine.blocked st.s (st.buf ++ chunk) = false := by
      simp [Machine.blocked, proxyMachine, pHalted, pNeed, ht]
    have e : feedFuel st chunk = (2 * (st.buf ++ chunk).length + 1) + 1 := by
      simp only [feedFuel, List.length_append]
    have hz : proxyMachine.need st.s = 0 := by simp [proxyMachine, pNeed, ht]
    rw [e, drainSteps_succ _ _ _ _ hnb, hz, List.take_zero, List.drop_zero]
    have := drainSteps_le_on proxyMachine C16_progress (2 * (st.buf ++ chunk).length + 1)
      (proxyMachine.step st.s []).1 (st.buf ++ chunk) (pinv_step _ _)
    simp only [List.length_append] at this ⊢
    split at this <;> omega

/-- the table of message lengths, as extracted from the source: every understood type has its RFC header length -/
theorem C16_type_len : Tables.TYPE_LEN = [(0, 20), (2, 4), (3, 10), (4, 8), (5, 6), (6, 8), (255, 2)] := by decide

/-! ## chunk independence (C17): the events the recorder sees do not depend on how the viewer's stream is split -/

def pxInit (pw : Bool) : St PSt := ⟨PSt.init pw, []⟩

theorem pxInit_blocked (pw : Bool) : (pxInit pw).Blocked proxyMachine := by
  simp [St.Blocked, Machine.blocked, pxInit, proxyMachine, PSt.init, pNeed, pHalted]

theorem C17_chunk_independent (pw : Bool) (cs : List Bytes) :
    feedAll proxyMachine (pxInit pw) cs = feed proxyMachine (pxInit pw) cs.flatten :=
  feedAll_flatten_on proxyMachine C16_progress cs _ (pinv_init pw) (pxInit_blocked pw)

theorem C17_chunkings (pw : Bool) (cs ds : List Bytes) (h : cs.flatten = ds.flatten) :
    feedAll proxyMachine (pxInit pw) cs = feedAll proxyMachine (pxInit pw) ds :=
  chunkings_agree_on proxyMachine C16_progress _ (pinv_init pw) (pxInit_blocked pw) cs ds h

/-- promptness: between two chunks the parser never sits on a complete message - what is buffered is shorter than
    what the pending state still needs -/
theorem C17_prompt (st : St PSt) (chunk : Bytes) :
    let r := (feed proxyMachine st chunk).1
    pHalted r.s = true ∨ r.buf.length < pNeed r.s := by
  intro r
  have := drain_result_blocked proxyMachine (feedFuel st chunk) st.s (st.buf ++ chunk) (C16_no_spin st chunk)
  simp only [Machine.blocked, Bool.or_eq_true, decide_eq_true_eq] at this
  exact this

/-! ## one message: consumed exactly, its events produced, back to waiting for a message type -/

theorem runs_type (pw : Bool) (t : UInt8) (n : Nat) (rest : Bytes) (o : List PEvent) (s' : PSt) (b' : Bytes)
    (hn : typeLen t.toNat = n + 1)
    (hr : Runs proxyMachine ⟨pw, .body t.toNat n⟩ rest o s' b') :
    Runs proxyMachine ⟨pw, .proto⟩ (t :: rest) o s' b' := by
  refine Runs.step' [t] rest ⟨pw, .body t.toNat n⟩ [] o rfl rfl rfl ?_ rfl hr
  rw [px_step_eq]
  simp only [pStep, List.getD_cons_zero, hn, pgo]
  simp

theorem flatten_len4 (encs : List Bytes) (h : ∀ e ∈ encs, e.length = 4) : encs.flatten.length = 4 * encs.length := by
  induction encs with
  | nil => rfl
  | cons e es ih =>
    simp only [List.flatten_cons, List.length_append, List.length_cons]
    rw [h e (by simp), ih (fun x hx => h x (by simp [hx]))]
    omega


theorem C17_message (pw : Bool) (m : VMsg) (hwf : m.WF) (hr : m.Recordable)
    (rest : Bytes) (o : List PEvent) (s' : PSt) (b' : Bytes)
    (hcont : Runs proxyMachine ⟨pw, .proto⟩ rest o s' b') :
    Runs proxyMachine ⟨pw, .proto⟩ (m.wire ++ rest) (m.events ++ o) s' b' := by
  cases m with
  | setPixelFormat pf =>
    simp only [VMsg.WF] at hwf
    simp only [VMsg.wire, VMsg.events, List.cons_append, List.nil_append]
    refine runs_type pw 0 19 _ _ _ _ (by decide) ?_
    refine Runs.step' ([0, 0, 0] ++ pf) rest ⟨pw, .proto⟩ [.setPixelFormat pf] o (by simp) rfl
      (by simp [px_need_eq, pNeed, hwf]) ?_ rfl hcont
    rw [px_step_eq]
    simp [pStep, pgo, Tables.C2S_SET_PIXEL_FORMAT]
  | setEncodings encs =>
    simp only [VMsg.WF] at hwf
    simp only [VMsg.wire, VMsg.events, List.cons_append, List.nil_append, List.append_assoc]
    refine runs_type pw 2 3 _ _ _ _ (by decide) ?_
    refine Runs.step' (0 :: enc16 encs.length) (encs.flatten ++ rest) ⟨pw, .encodings encs.length⟩ [] _ (by simp) rfl
      (by simp [px_need_eq, pNeed, enc16_length]) ?_ rfl ?_
    · rw [px_step_eq]
      simp [pStep, pgo, Tables.C2S_SET_PIXEL_FORMAT, Tables.C2S_SET_ENCODING, beNat_enc16 _ hwf.1]
    refine Runs.step' encs.flatten rest ⟨pw, .proto⟩ [.setEncodings encs.length] o rfl rfl
      (by simp [px_need_eq, pNeed, flatten_len4 _ hwf.2]) ?_ rfl hcont
    rw [px_step_eq]
    simp [pStep, pgo]
  | updateRequest body =>
    simp only [VMsg.WF] at hwf
    simp only [VMsg.wire, VMsg.events, List.cons_append, List.nil_append]
    refine runs_type pw 3 9 _ _ _ _ (by decide) ?_
    refine Runs.step' body rest ⟨pw, .proto⟩ [.updateRequest] o rfl rfl
      (by simp [px_need_eq, pNeed, hwf]) ?_ rfl hcont
    rw [px_step_eq]
    simp [pStep, pgo, Tables.C2S_SET_PIXEL_FORMAT, Tables.C2S_SET_ENCODING, Tables.C2S_FRAMEBUFFER_UPDATE_REQUEST]
  | key k d =>
    simp only [VMsg.WF] at hwf
    simp only [VMsg.Recordable] at hr
    simp only [VMsg.wire, VMsg.events, List.cons_append, List.nil_append]
    refine runs_type pw 4 7 _ _ _ _ (by decide) ?_
    refine Runs.step' (d :: 0 :: 0 :: enc32 k) rest ⟨pw, .proto⟩ [.key k (d != 0)] o (by simp) rfl
      (by simp [px_need_eq, pNeed, enc32_length]) ?_ rfl hcont
    rw [px_step_eq]
    simp [pStep, pgo, keyOut, hr, Tables.C2S_SET_PIXEL_FORMAT, Tables.C2S_SET_ENCODING,
      Tables.C2S_FRAMEBUFFER_UPDATE_REQUEST, Tables.C2S_KEY_EVENT, beNat_enc32 _ hwf]
  | pointer x y mk =>
    simp only [VMsg.WF] at hwf
    simp only [VMsg.wire, VMsg.events, List.cons_append, List.nil_append, List.append_assoc]
    refine runs_type pw 5 5 _ _ _ _ (by decide) ?_
    refine Runs.step' (byteOf mk :: (enc16 x ++ enc16 y)) rest ⟨pw, .proto⟩ [.pointer x y mk] o (by simp) rfl
      (by simp [px_need_eq, pNeed, enc16_length]) ?_ rfl hcont
    rw [px_step_eq]
    have h1 : List.take 2 (enc16 x ++ enc16 y) = enc16 x := List.take_left' (enc16_length x)
    have h2 : List.drop 2 (enc16 x ++ enc16 y) = enc16 y := List.drop_left' (enc16_length x)
    have h3 : mk % 256 = mk := Nat.mod_eq_of_lt hwf.2.2
    simp [pStep, pgo, Tables.C2S_SET_PIXEL_FORMAT, Tables.C2S_SET_ENCODING,
      Tables.C2S_FRAMEBUFFER_UPDATE_REQUEST, Tables.C2S_KEY_EVENT, Tables.C2S_POINTER_EVENT, h1, h2, h3,
      beNat_enc16 _ hwf.1, beNat_enc16 _ hwf.2.1, byteOf_toNat]
  | cutText t =>
    simp only [VMsg.WF] at hwf
    simp only [VMsg.wire, VMsg.events, List.cons_append, List.nil_append, List.append_assoc]
    refine runs_type pw 6 7 _ _ _ _ (by decide) ?_
    refine Runs.step' (0 :: 0 :: 0 :: enc32 t.length) (t ++ rest) ⟨pw, .cutText t.length⟩ [] _ (by simp) rfl
      (by simp [px_need_eq, pNeed, enc32_length]) ?_ rfl ?_
    · rw [px_step_eq]
      simp [pStep, pgo, Tables.C2S_SET_PIXEL_FORMAT, Tables.C2S_SET_ENCODING,
        Tables.C2S_FRAMEBUFFER_UPDATE_REQUEST, Tables.C2S_KEY_EVENT, Tables.C2S_POINTER_EVENT,
        Tables.C2S_CLIENT_CUT_TEXT, beNat_enc32 _ hwf]
    refine Runs.step' t rest ⟨pw, .proto⟩ [.cutText t] o rfl rfl
      (by simp [px_need_eq, pNeed]) ?_ rfl hcont
    rw [px_step_eq]
    simp [pStep, pgo]
  | qemuKey d k c =>
    simp only [VMsg.WF] at hwf
    simp only [VMsg.Recordable] at hr
    simp only [VMsg.wire, VMsg.events, List.cons_append, List.nil_append, List.append_assoc]
    refine runs_type pw 255 1 _ _ _ _ (by decide) ?_
    refine Runs.step' [0] (enc16 d ++ (enc32 k ++ (enc32 c ++ rest))) ⟨pw, .qemuKey⟩ [] _ (by simp) rfl
      (by simp [px_need_eq, pNeed]) ?_ rfl ?_
    · rw [px_step_eq]
      simp [pStep, pgo, Tables.C2S_SET_PIXEL_FORMAT, Tables.C2S_SET_ENCODING,
        Tables.C2S_FRAMEBUFFER_UPDATE_REQUEST, Tables.C2S_KEY_EVENT, Tables.C2S_POINTER_EVENT,
        Tables.C2S_CLIENT_CUT_TEXT, Tables.C2S_QEMU_CLIENT_MESSAGE]
    refine Runs.step' (enc16 d ++ (enc32 k ++ enc32 c)) rest ⟨pw, .proto⟩ [.key k (d != 0)] o (by simp) rfl
      (by simp [px_need_eq, pNeed, enc16_length, enc32_length]) ?_ rfl hcont
    rw [px_step_eq]
    have h1 : List.take 2 (enc16 d ++ (enc32 k ++ enc32 c)) = enc16 d := List.take_left' (enc16_length d)
    have h2 : List.drop 2 (enc16 d ++ (enc32 k ++ enc32 c)) = enc32 k ++ enc32 c := List.drop_left' (enc16_length d)
    have h3 : List.take 4 (enc32 k ++ enc32 c) = enc32 k := List.take_left' (enc32_length k)
    simp only [pStep, h1, h2, h3, beNat_enc16 _ hwf.1, beNat_enc32 _ hwf.2.1, keyOut, hr, if_true, pgo]

/-- any list of messages with arbitrary field values (any keysym that can be written, any cut-text length incl. 0,
    any number of encodings incl. 0, any pixel format, extended key events): every message is seen exactly once,
    in order, nothing raises -/
theorem C17_messages (pw : Bool) (ms : List VMsg) (hwf : ∀ m ∈ ms, m.WF ∧ m.Recordable)
    (rest : Bytes) (o : List PEvent) (s' : PSt) (b' : Bytes)
    (hcont : Runs proxyMachine ⟨pw, .proto⟩ rest o s' b') :
    Runs proxyMachine ⟨pw, .proto⟩ (ms.flatMap VMsg.wire ++ rest) (ms.flatMap VMsg.events ++ o) s' b' := by
  induction ms with
  | nil => simpa using hcont
  | cons m ms ih =>
    simp only [List.flatMap_cons, List.append_assoc]
    have hm := hwf m (by simp)
    exact C17_message pw m hm.1 hm.2 _ _ _ _ (ih (fun x hx => hwf x (by simp [hx])))

theorem runs_clientInit (pw : Bool) (sh : UInt8) (rest : Bytes) (o : List PEvent) (s' : PSt) (b' : Bytes)
    (hcont : Runs proxyMachine ⟨pw, .proto⟩ rest o s' b') :
    Runs proxyMachine ⟨pw, .clientInit⟩ (sh :: rest) (.startLogging :: o) s' b' :=
  Runs.step' [sh] rest ⟨pw, .proto⟩ [.startLogging] o rfl rfl rfl rfl rfl hcont

theorem runs_authResponse (pw : Bool) (r : Bytes) (hr : r.length = 16) (sh : UInt8) (rest : Bytes) (o : List PEvent)
    (s' : PSt) (b' : Bytes) (hcont : Runs proxyMachine ⟨pw, .proto⟩ rest o s' b') :
    Runs proxyMachine ⟨pw, .authResponse⟩ (r ++ sh :: rest) (.startLogging :: o) s' b' :=
  Runs.step' r (sh :: rest) ⟨pw, .clientInit⟩ [] _ rfl rfl hr rfl rfl (runs_clientInit pw sh rest o s' b' hcont)


/-- the handshake is skipped correctly under every protocol version and security type: afterwards the parser waits
    for the first message, and logging has been attached exactly once -/
theorem C17_handshake (pw : Bool) (hs : VHandshake) (hwf : hs.WF pw)
    (rest : Bytes) (o : List PEvent) (s' : PSt) (b' : Bytes)
    (hcont : Runs proxyMachine ⟨pw, .proto⟩ rest o s' b') :
    Runs proxyMachine (PSt.init pw) (hs.wire ++ rest) ([.startLogging] ++ o) s' b' := by
  cases hs with
  | v33 m5 resp sh =>
    simp only [VHandshake.WF] at hwf
    simp only [VHandshake.wire, List.append_assoc, List.cons_append, List.nil_append, PSt.init]
    cases pw with
    | true =>
      obtain ⟨r, rfl, hr⟩ := hwf.1 rfl
      refine Runs.step' [82, 70, 66, 32, 48, 48, 51, 46, 48, 48, if m5 then 53 else 51, 10] _ ⟨true, .authResponse⟩ [] _
        rfl rfl rfl ?_ rfl (runs_authResponse true r hr sh rest o s' b' hcont)
      cases m5 <;> rfl
    | false =>
      have := hwf.2 rfl
      subst this
      refine Runs.step' [82, 70, 66, 32, 48, 48, 51, 46, 48, 48, if m5 then 53 else 51, 10] _ ⟨false, .clientInit⟩ [] _
        rfl rfl rfl ?_ rfl (runs_clientInit false sh rest o s' b' hcont)
      cases m5 <;> rfl
  | v37 e t resp sh =>
    simp only [VHandshake.WF] at hwf
    simp only [VHandshake.wire, List.append_assoc, List.cons_append, List.nil_append, PSt.init]
    refine Runs.step' [82, 70, 66, 32, 48, 48, 51, 46, 48, 48, if e then 56 else 55, 10] _ ⟨pw, .security⟩ [] _
        rfl rfl rfl (by cases e <;> rfl) rfl ?_
    by_cases ht : t = 2
    · obtain ⟨r, rfl, hr⟩ := hwf.1 ht
      subst ht
      exact Runs.step' [2] _ ⟨pw, .authResponse⟩ [] _ rfl rfl rfl rfl rfl (runs_authResponse pw r hr sh rest o s' b' hcont)
    · have := hwf.2 ht
      subst this
      refine Runs.step' [t] _ ⟨pw, .clientInit⟩ [] _ rfl rfl rfl ?_ rfl (runs_clientInit pw sh rest o s' b' hcont)
      rw [px_step_eq]
      have : ¬ (t.toNat = 2) := fun h => ht (UInt8.toNat_inj.1 (by simpa using h))
      simp [pStep, pgo, Tables.AUTH_VNC_AUTHENTICATION, this]

theorem proto_blocked (pw : Bool) : proxyMachine.blocked ⟨pw, .proto⟩ [] = true := by
  simp [Machine.blocked, proxyMachine, pNeed, pHalted]

/-- the whole session as one run of the dispatch loop; it ends waiting for the next message type, nothing buffered -/
theorem runs_session (pw : Bool) (hs : VHandshake) (hwf : hs.WF pw) (ms : List VMsg)
    (hms : ∀ m ∈ ms, m.WF ∧ m.Recordable) :
    Runs proxyMachine (PSt.init pw) (hs.wire ++ ms.flatMap VMsg.wire) ([.startLogging] ++ ms.flatMap VMsg.events)
      ⟨pw, .proto⟩ [] := by
  have h := C17_handshake pw hs hwf _ _ _ _
    (C17_messages pw ms hms [] [] ⟨pw, .proto⟩ [] (Runs.done (proto_blocked pw)))
  simpa using h

/-- **a whole viewer session** delivered in any chunking: the recorder sees exactly the session's events, in order -/
theorem C17_session (pw : Bool) (hs : VHandshake) (hwf : hs.WF pw) (ms : List VMsg)
    (hms : ∀ m ∈ ms, m.WF ∧ m.Recordable) (cs : List Bytes) (hcs : cs.flatten = hs.wire ++ ms.flatMap VMsg.wire) :
    (feedAll proxyMachine (pxInit pw) cs).2.1 = [.startLogging] ++ ms.flatMap VMsg.events := by
  rw [C17_chunk_independent, hcs, pxInit,
    runs_feed_on proxyMachine C16_progress (pinv_init pw) (runs_session pw hs hwf ms hms)]

/-- C16: in such a session the parser never raises (so recording never stops and nothing can disturb the relay) -/
theorem C16_v2s_total (pw : Bool) (hs : VHandshake) (hwf : hs.WF pw) (ms : List VMsg)
    (hms : ∀ m ∈ ms, m.WF ∧ m.Recordable) (cs : List Bytes) (hcs : cs.flatten = hs.wire ++ ms.flatMap VMsg.wire) :
    ∀ e ∈ (feedAll proxyMachine (pxInit pw) cs).2.1, ∀ c, e ≠ .raise c := by
  rw [C17_session pw hs hwf ms hms cs hcs]
  intro e he c hc
  subst hc
  simp only [List.cons_append, List.nil_append, List.mem_cons, List.mem_flatMap, reduceCtorEq, false_or] at he
  obtain ⟨m, _, hm⟩ := he
  cases m <;> simp [VMsg.events] at hm

/-! ## the recorder -/

/-- a key event: exactly one entry `pause Δ keydown|keyup NAME ⏎`, the clock is reset -/
theorem C17_record_key (r : RecSt) (now k : Nat) (down : Bool) (tok : List Char) (h : keyToken k = some tok) :
    recStep r now (.key k down) =
      ({ r with last := now },
       some ("pause ".toList ++ fmtTicks (now - r.last) ++ (if down then " keydown ".toList else " keyup ".toList) ++ tok ++ " \n".toList)) := by
  simp only [recStep, h, joinSp]
  cases down <;> simp [List.dropLast_append_of_ne_nil, List.dropLast]

/-- a pointer event: one entry; `move x y` iff the position differs from the last recorded one; one `click b` per
    button bit set -/
theorem C17_record_pointer (r : RecSt) (now x y mask : Nat) :
    (recStep r now (.pointer x y mask)).1 = { r with last := now, mouse := some (x, y) } ∧
    (recStep r now (.pointer x y mask)).2 = some (joinSp (["pause".toList, fmtTicks (now - r.last)] ++
      (if r.mouse = some (x, y) then [] else ["move ".toList ++ (toString x).toList ++ [' '] ++ (toString y).toList]) ++
      clickWords mask ++ [['\n']])) := by
  refine ⟨rfl, ?_⟩
  simp only [recStep]
  by_cases hm : r.mouse = some (x, y) <;> simp [hm]

theorem toString_toList_inj {a b : Nat} (h : (toString a).toList = (toString b).toList) : a = b := by
  simp only [Nat.toString_eq_repr, Nat.toList_repr] at h
  rw [← Nat.ofDigitChars_ten_toDigits (n := a), h, Nat.ofDigitChars_ten_toDigits]


theorem C17_clicks (mask b : Nat) (hb : 1 ≤ b ∧ b ≤ 8) :
    ("click ".toList ++ (toString b).toList) ∈ clickWords mask ↔ mask.testBit (b - 1) = true := by
  simp only [clickWords, List.mem_filterMap, List.mem_range]
  constructor
  · rintro ⟨i, hi, h⟩
    split at h
    · rename_i ht
      simp only [Option.some.injEq] at h
      have := toString_toList_inj (List.append_cancel_left h)
      subst this
      simpa using ht
    · cases h
  · intro h
    refine ⟨b - 1, by omega, ?_⟩
    have : b - 1 + 1 = b := by omega
    simp [h, this]


/-- other messages are not recorded -/
theorem C17_record_other (r : RecSt) (now : Nat) (e : PEvent) (h : ∀ k d, e ≠ .key k d) (h2 : ∀ x y m, e ≠ .pointer x y m)
    (h3 : ∀ c, e ≠ .raise c) : recStep r now e = (r, none) := by
  cases e <;> simp [recStep] at h h2 h3 ⊢

theorem toString_len4 (n : Nat) (h : n < 10000) : (toString n).toList.length ≤ 4 := by
  simp only [Nat.toString_eq_repr, Nat.toList_repr]
  exact (Nat.length_toDigits_le_iff (by omega) (by omega)).2 (by simpa using h)


/-- the pause is the elapsed time in seconds with exactly four decimals -/
theorem C17_fmt (k : Nat) : ∃ ip fp : List Char, fmtTicks k = ip ++ ['.'] ++ fp ∧ fp.length = 4 ∧
    ip = (toString (k / 10000)).toList ∧ fp = pad4 (k % 10000) := by
  refine ⟨_, _, rfl, ?_, rfl, rfl⟩
  have := toString_len4 (k % 10000) (Nat.mod_lt _ (by omega))
  simp only [pad4, List.length_append, List.length_replicate]
  omega


example : fmtTicks 12345 = "1.2345".toList ∧ fmtTicks 3 = "0.0003".toList ∧ fmtTicks 0 = "0.0000".toList := by decide

/-- every name in the table is non-empty -/
theorem revmap_names : ∀ e ∈ Tables.REVERSE_MAP, e.2.isEmpty = false := by
  decide


/-- every key that has a name is recorded by its name, everything else up to 0x10FFFF as a quoted character -/
theorem C17_key_token (k : Nat) (h : keyRecordable k = true) : ∃ tok, keyToken k = some tok ∧ tok ≠ [] := by
  unfold keyToken reverseMapGet
  cases hf : Tables.REVERSE_MAP.find? (fun e => e.1 == k) with
  | some e =>
    have hm := List.mem_of_find?_eq_some hf
    have hne := revmap_names e hm
    simp only [Option.map_some, hne]
    refine ⟨_, rfl, ?_⟩
    intro h0
    have : e.2 = "" := by simpa using h0
    simp [this] at hne
  | none =>
    simp only [Option.map_none]
    have hk : k < 1114112 := by
      simp only [keyRecordable, Bool.or_eq_true, decide_eq_true_eq] at h
      rcases h with h | h
      · rw [List.any_eq_true] at h
        obtain ⟨e, he, h2⟩ := h
        rw [List.find?_eq_none] at hf
        have := hf e he
        simp at h2
        simp [h2.1] at this
      · exact h
    simp only [hk, if_true]
    refine ⟨_, rfl, ?_⟩
    unfold shlexQuote
    simp
    split <;> simp

end Vnc
