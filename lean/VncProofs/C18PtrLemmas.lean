import VncProofs.C18
import VncProofs.PyStrLemmas
import VncModel.Pointer
/-!
# Helper lemmas for C18Ptr: decimal numbers read back by `int()`, `joinSp`, word-by-word tokenisation,
one-command compile steps, button masks.
-/
namespace Vnc

/-! ## decimal digits and `pyInt` -/

theorem isAsciiDigit_of_isDigit (c : Char) (h : c.isDigit = true) : isAsciiDigit c = true := by
  simp only [Char.isDigit, Bool.and_eq_true, decide_eq_true_eq] at h
  simp only [isAsciiDigit, Bool.and_eq_true, decide_eq_true_eq, Char.le_def]
  exact ⟨h.1, h.2⟩

theorem notPySpace_of_isDigit (c : Char) (h : c.isDigit = true) : isPySpace c = false := by
  by_cases h1 : c = ' ' ; · subst h1; revert h; decide
  by_cases h2 : c = '\t' ; · subst h2; revert h; decide
  by_cases h3 : c = '\n' ; · subst h3; revert h; decide
  by_cases h4 : c = '\x0b' ; · subst h4; revert h; decide
  by_cases h5 : c = '\x0c' ; · subst h5; revert h; decide
  by_cases h6 : c = '\r' ; · subst h6; revert h; decide
  simp [isPySpace, *]

theorem pyDigits_digit (l : List Char) (hl : l.all Char.isDigit = true) (acc : Nat) :
    pyDigits .digit acc l = some (Nat.ofDigitChars 10 l acc) := by
  induction l generalizing acc with
  | nil => simp [pyDigits]
  | cons c cs ih =>
    simp only [List.all_cons, Bool.and_eq_true] at hl
    rw [pyDigits, if_pos (isAsciiDigit_of_isDigit c hl.1), ih hl.2, Nat.ofDigitChars_cons]
    simp [digitVal, Nat.mul_comm]
    all_goals intros; contradiction

theorem pyDigits_start (l : List Char) (hl : l.all Char.isDigit = true) (hne : l ≠ []) :
    pyDigits .start 0 l = some (Nat.ofDigitChars 10 l 0) := by
  cases l with
  | nil => exact absurd rfl hne
  | cons c cs =>
    simp only [List.all_cons, Bool.and_eq_true] at hl
    rw [pyDigits, if_pos (isAsciiDigit_of_isDigit c hl.1), pyDigits_digit cs hl.2, Nat.ofDigitChars_cons]
    simp [digitVal, Nat.mul_comm]
    all_goals intros; contradiction

theorem dropWhile_pySpace_digits (l : List Char) (hl : l.all Char.isDigit = true) : l.dropWhile isPySpace = l := by
  cases l with
  | nil => rfl
  | cons c cs =>
    simp only [List.all_cons, Bool.and_eq_true] at hl
    simp [List.dropWhile, notPySpace_of_isDigit c hl.1]

theorem pyStrip_digits (l : List Char) (hl : l.all Char.isDigit = true) : pyStrip l = l := by
  unfold pyStrip
  rw [dropWhile_pySpace_digits l hl, dropWhile_pySpace_digits l.reverse (by simpa using hl), List.reverse_reverse]

/-- `int()` of a non-empty string of ASCII digits (leading zeros allowed) is its decimal value -/
theorem pyInt_digits (l : List Char) (hl : l.all Char.isDigit = true) (hne : l ≠ []) :
    pyInt l = some ((Nat.ofDigitChars 10 l 0 : Nat) : Int) := by
  unfold pyInt
  rw [pyStrip_digits l hl]
  cases l with
  | nil => exact absurd rfl hne
  | cons c cs =>
    have hc : c.isDigit = true := by
      simp only [List.all_cons, Bool.and_eq_true] at hl; exact hl.1
    have h1 : c ≠ '-' := by intro h; subst h; revert hc; decide
    have h2 : c ≠ '+' := by intro h; subst h; revert hc; decide
    split
    · rename_i heq; simp only [List.cons.injEq] at heq; exact absurd heq.1 h1
    · rename_i heq; simp only [List.cons.injEq] at heq; exact absurd heq.1 h2
    · rw [pyDigits_start _ hl hne]; rfl

theorem toString_toList (n : Nat) : (toString n).toList = Nat.toDigits 10 n := by
  rw [Nat.toString_eq_repr, Nat.toList_repr]

/-- `int(str(n)) == n` -/
theorem pyInt_toString (n : Nat) : pyInt (toString n).toList = some (n : Int) := by
  rw [pyInt_digits _ (toString_digits n).1 (toString_digits n).2, toString_toList, Nat.ofDigitChars_ten_toDigits]

theorem pad4_digits (m : Nat) : (pad4 m).all Char.isDigit = true ∧ pad4 m ≠ [] := by
  refine ⟨?_, ?_⟩
  · simp only [pad4, List.all_append, Bool.and_eq_true]
    refine ⟨?_, (toString_digits m).1⟩
    have h0 : Char.isDigit '0' = true := by decide
    simp [h0]
  · simp only [pad4, ne_eq, List.append_eq_nil_iff, not_and]
    exact fun _ => (toString_digits m).2

/-- `int("0042") == 42` -/
theorem pyInt_pad4 (m : Nat) : pyInt (pad4 m) = some (m : Int) := by
  rw [pyInt_digits _ (pad4_digits m).1 (pad4_digits m).2]
  simp [pad4, Nat.ofDigitChars_append]

theorem pad4_length (m : Nat) (h : m < 10000) : (pad4 m).length = 4 := by
  have : (Nat.toDigits 10 m).length ≤ 4 := (Nat.length_toDigits_le_iff (by decide) (by decide)).2 (by omega)
  simp only [pad4, List.length_append, List.length_replicate, toString_toList]
  omega

theorem dot_notin_digits (l : List Char) (hl : l.all Char.isDigit = true) : '.' ∉ l := by
  intro h
  rw [List.all_eq_true] at hl
  have := hl _ h
  revert this; decide

/-! ## `" ".join` -/

theorem joinSp_snoc (init : List (List Char)) (w : List Char) :
    joinSp (init ++ [w]) = (init.map (· ++ [' '])).flatten ++ w := by
  unfold joinSp
  rw [List.map_append, List.flatten_append]
  simp only [List.map_cons, List.map_nil, List.flatten_cons, List.flatten_nil, List.append_nil]
  rw [← List.append_assoc, List.dropLast_concat]

/-! ## tokenising a sequence of safe words -/

/-- every word of safe characters, each followed by one blank, is one token -/
theorem shGo_safe_words (ws : List (List Char)) (h : ∀ wd ∈ ws, wd ≠ [] ∧ wd.all isSafeChar = true)
    (rest : List Char) :
    shGo .ws [] false ((ws.map (· ++ [' '])).flatten ++ rest) = (ws ++ ·) <$> shGo .ws [] false rest := by
  induction ws with
  | nil =>
    simp only [List.map_nil, List.flatten_nil, List.nil_append]
    cases shGo .ws [] false rest <;> rfl
  | cons wd ws ih =>
    have hw := h wd (by simp)
    have ih' := ih (fun x hx => h x (by simp [hx]))
    simp only [List.map_cons, List.flatten_cons, List.append_assoc, List.cons_append, List.nil_append]
    rw [C18_safe_word _ _ hw.1 hw.2, ih']
    cases shGo .ws [] false rest <;> rfl

theorem shGo_newline (rest : List Char) : shGo .ws [] false ('\n' :: rest) = shGo .ws [] false rest := by
  rw [shGo]; simp [isShWs]

/-! ## one command of the compiler -/

theorem compile_pause (fs : FS) (d : Word) (rest : List Word) (fuel : Nat) (cs : List Cmd)
    (hfl : fs.isFloat d = true) (hc : compile fs false fuel rest = .ok cs) :
    compile fs false (fuel + 1) ("pause".toList :: d :: rest) = .ok (Cmd.pauseArg d :: cs) := by
  simp [compile, compileOne, w, popFloat, hfl, hc, bind, Except.bind, pure, Except.pure]

theorem compile_move (fs : FS) (a b : Word) (x y : Int) (rest : List Word) (fuel : Nat) (cs : List Cmd)
    (ha : pyInt a = some x) (hb : pyInt b = some y) (hc : compile fs false fuel rest = .ok cs) :
    compile fs false (fuel + 1) ("move".toList :: a :: b :: rest) = .ok (Cmd.mouseMove x y :: cs) := by
  simp [compile, compileOne, w, popInt, ha, hb, hc, bind, Except.bind, pure, Except.pure]

theorem compile_click (fs : FS) (a : Word) (b : Int) (rest : List Word) (fuel : Nat) (cs : List Cmd)
    (ha : pyInt a = some b) (hc : compile fs false fuel rest = .ok cs) :
    compile fs false (fuel + 1) ("click".toList :: a :: rest) = .ok (Cmd.mousePress b :: cs) := by
  simp [compile, compileOne, w, popInt, ha, hc, bind, Except.bind, pure, Except.pure]

theorem compile_key (fs : FS) (gap k : Nat) (down : Bool) (rest : List Word) (fuel : Nat) (cs : List Cmd)
    (hfl : fs.isFloat (fmtTicks gap) = true) (hc : compile fs false fuel rest = .ok cs) :
    compile fs false (fuel + 2)
        ("pause".toList :: fmtTicks gap :: (if down then "keydown" else "keyup").toList :: keyWord k :: rest) =
      .ok ([Cmd.pauseArg (fmtTicks gap), if down then Cmd.keyDown (keyWord k) else Cmd.keyUp (keyWord k)] ++ cs) := by
  rw [C18_line_compiles fs gap k down rest fuel hfl, hc]
  rfl

/-! ## button masks -/

theorem setBtn_zero (i : Nat) : setBtn 0 (i + 1) = 2 ^ i := by
  simp [setBtn, Nat.one_shiftLeft]

theorem clearBtn_pow (i : Nat) : clearBtn (2 ^ i) (i + 1) = 0 := by
  simp [clearBtn, Nat.one_shiftLeft]

end Vnc
