import VncModel
import VncSpec
import VncModel.Drv.Util
/-!
Line protocol driver: one op per line on stdin, exactly one line on stdout per op.
The harness runs the implementation on the same ops and diffs the outputs.
-/
open Vnc Vnc.Drv

def famStr : Family → String
  | .inet => "inet" | .inet6 => "inet6" | .unix => "unix" | .unspec => "unspec"

/-- `addr <hex utf8 of the server string> <isV6 of the bracket content> <exists(host)>` -/
def doAddr (args : List String) : String :=
  match args with
  | [h, v6, ex] =>
    match strOfHex h, parseBool? v6, parseBool? ex with
    | some s, some v, some e =>
      let env : AddrEnv := { isV6 := fun _ => v, pathExists := fun _ => e }
      match parseServer env s.toList with
      | some (f, host, p) => s!"ok {famStr f} {hexOfStr (String.ofList host)} {p}"
      | none => "err value"
    | _, _, _ => "bad-op"
  | _ => "bad-op"

def joinHex (ws : List Bytes) : String := if ws.isEmpty then "-" else ",".intercalate (ws.map showHex)

def keyOp? : String → Option KeyOp
  | "press" => some .press | "down" => some .down | "up" => some .up | _ => none

/-- `key <press|down|up> <force_caps> <key.isupper()> <hex utf8 key>`: the writes of the model -/
def doKey (args : List String) : String :=
  match args with
  | [op, fc, up, k] =>
    match keyOp? op, parseBool? fc, parseBool? up, strOfHex k with
    | some op, some fc, some up, some k =>
      match keyOpWrites op fc up k.toList with
      | some ws => "ok " ++ joinHex ws
      | none => "err type"
    | _, _, _, _ => "bad-op"
  | _ => "bad-op"

def parseElem (s : String) : Option Spec.KeyElem :=
  match s.splitOn ":" with
  | ["n", h] => (strOfHex h).map Spec.KeyElem.name
  | ["c", n] => n.toNat?.map fun k => Spec.KeyElem.char (Char.ofNat k)
  | _ => none

def elemValid (chord : Bool) : Spec.KeyElem → Bool
  | .name n => (Spec.x11.find? (·.1 == n)).isSome
  | .char c => !chord || c != '-'

/-- `speckey <op> <force_caps> <isupper> <elem>...`: the bytes the *specification* prescribes -/
def doSpecKey (args : List String) : String :=
  match args with
  | op :: fc :: up :: elems =>
    match keyOp? op, parseBool? fc, parseBool? up, elems.mapM parseElem with
    | some op, some fc, some up, some es =>
      if es.isEmpty || !(es.all (elemValid (es.length ≥ 2))) then "err type" else
      let ks : Option (List Nat) :=
        match es with
        | [.char c] => if fc then some (Spec.capsKeys up c) else some [c.toNat]
        | _ => es.mapM Spec.KeyElem.keysym
      match ks with
      | none => "err type"
      | some ks =>
        let evs := match op with
          | .press => Spec.pressEvents ks | .down => Spec.downEvents ks | .up => Spec.upEvents ks
        "ok " ++ joinHex (evs.map Spec.keyEventBytes)
    | _, _, _, _ => "bad-op"
  | _ => "bad-op"

def parsePtrOp (s : String) : Option PtrOp :=
  match s.splitOn ":" with
  | ["m", x, y] => do some (.move (← x.toInt?) (← y.toInt?))
  | ["d", b] => b.toNat?.map .down
  | ["u", b] => b.toNat?.map .up
  | ["c", b] => b.toNat?.map .click
  | ["g", x, y, st] => do some (.drag (← x.toInt?) (← y.toInt?) (← st.toNat?))
  | _ => none

/-- `ptr <op>...`: events `x:y:mask` of the model from the initial state -/
def doPtr (args : List String) : String :=
  match args.mapM parsePtrOp with
  | some ops =>
    let evs := (ptrRun PtrSt.init ops).2
    match evs.mapM ptrEvBytes with
    | some ws => "ok " ++ joinHex ws
    | none => "err struct"
  | none => "bad-op"

def handle (line : String) : String :=
  match (line.splitOn " ").filter (· ≠ "") with
  | "addr" :: args => doAddr args
  | "key" :: args => doKey args
  | "speckey" :: args => doSpecKey args
  | "ptr" :: args => doPtr args
  | _ => "bad-op"

partial def loop (h : IO.FS.Stream) (out : IO.FS.Stream) : IO Unit := do
  let line ← h.getLine
  if line.isEmpty then return ()
  let l := if line.endsWith "\n" then (line.dropEnd 1).toString else line
  out.putStrLn (handle l)
  loop h out

def main : IO Unit := do
  let stdin ← IO.getStdin
  let stdout ← IO.getStdout
  loop stdin stdout
