import VncModel
import VncSpec
import VncModel.Drv.Util
/-!
Line protocol driver: one op per line on stdin, exactly one line on stdout per op.
The harness runs the implementation on the same ops and diffs the outputs.
-/
open Vnc Vnc.Drv

def famStr : Family → String
  | .inet => "inet" | .inet6 => "inet6" | .unix => "unix" | .unspec => "unspec"

/-- `addr <hex utf8 of the server string> <isV6 of the bracket content> <exists(host)>` -/
def doAddr (args : List String) : String :=
  match args with
  | [h, v6, ex] =>
    match strOfHex h, parseBool? v6, parseBool? ex with
    | some s, some v, some e =>
      let env : AddrEnv := { isV6 := fun _ => v, pathExists := fun _ => e }
      match parseServer env s.toList with
      | some (f, host, p) => s!"ok {famStr f} {hexOfStr (String.ofList host)} {p}"
      | none => "err value"
    | _, _, _ => "bad-op"
  | _ => "bad-op"

def handle (line : String) : String :=
  match (line.splitOn " ").filter (· ≠ "") with
  | "addr" :: args => doAddr args
  | _ => "bad-op"

partial def loop (h : IO.FS.Stream) (out : IO.FS.Stream) : IO Unit := do
  let line ← h.getLine
  if line.isEmpty then return ()
  let l := if line.endsWith "\n" then (line.dropEnd 1).toString else line
  out.putStrLn (handle l)
  loop h out

def main : IO Unit := do
  let stdin ← IO.getStdin
  let stdout ← IO.getStdout
  loop stdin stdout
