import VncModel
import VncSpec
import VncModel.Drv.Util
/-!
Line protocol driver: one op per line on stdin, exactly one line on stdout per op.
The harness runs the implementation on the same ops and diffs the outputs.
-/
open Vnc Vnc.Drv

def hexW (x : Word) : String := hexOfStr (String.ofList x)
def wordOfHex (h : String) : Option Word := (strOfHex h).map String.toList

def famStr : Family → String
  | .inet => "inet" | .inet6 => "inet6" | .unix => "unix" | .unspec => "unspec"

/-- `addr <hex utf8 of the server string> <isV6 of the bracket content> <exists(host)>` -/
def doAddr (args : List String) : String :=
  match args with
  | [h, v6, ex] =>
    match strOfHex h, parseBool? v6, parseBool? ex with
    | some s, some v, some e =>
      let env : AddrEnv := { isV6 := fun _ => v, pathExists := fun _ => e }
      match parseServer env s.toList with
      | some (f, host, p) => s!"ok {famStr f} {hexOfStr (String.ofList host)} {p}"
      | none => "err value"
    | _, _, _ => "bad-op"
  | _ => "bad-op"

def joinHex (ws : List Bytes) : String := if ws.isEmpty then "-" else ",".intercalate (ws.map showHex)

def keyOp? : String → Option KeyOp
  | "press" => some .press | "down" => some .down | "up" => some .up | _ => none

/-- `key <press|down|up> <force_caps> <key.isupper()> <hex utf8 key>`: the writes of the model -/
def doKey (args : List String) : String :=
  match args with
  | [op, fc, up, k] =>
    match keyOp? op, parseBool? fc, parseBool? up, strOfHex k with
    | some op, some fc, some up, some k =>
      match keyOpWrites op fc up k.toList with
      | some ws => "ok " ++ joinHex ws
      | none => "err type"
    | _, _, _, _ => "bad-op"
  | _ => "bad-op"

def parseElem (s : String) : Option Spec.KeyElem :=
  match s.splitOn ":" with
  | ["n", h] => (strOfHex h).map Spec.KeyElem.name
  | ["c", n] => n.toNat?.map fun k => Spec.KeyElem.char (Char.ofNat k)
  | _ => none

def elemValid (chord : Bool) : Spec.KeyElem → Bool
  | .name n => (Spec.x11.find? (·.1 == n)).isSome
  | .char c => !chord || c != '-'

/-- `speckey <op> <force_caps> <isupper> <elem>...`: the bytes the *specification* prescribes -/
def doSpecKey (args : List String) : String :=
  match args with
  | op :: fc :: up :: elems =>
    match keyOp? op, parseBool? fc, parseBool? up, elems.mapM parseElem with
    | some op, some fc, some up, some es =>
      if es.isEmpty || !(es.all (elemValid (es.length ≥ 2))) then "err type" else
      let ks : Option (List Nat) :=
        match es with
        | [.char c] => if fc then some (Spec.capsKeys up c) else some [c.toNat]
        | _ => es.mapM Spec.KeyElem.keysym
      match ks with
      | none => "err type"
      | some ks =>
        let evs := match op with
          | .press => Spec.pressEvents ks | .down => Spec.downEvents ks | .up => Spec.upEvents ks
        "ok " ++ joinHex (evs.map Spec.keyEventBytes)
    | _, _, _, _ => "bad-op"
  | _ => "bad-op"

def parsePtrOp (s : String) : Option PtrOp :=
  match s.splitOn ":" with
  | ["m", x, y] => do some (.move (← x.toInt?) (← y.toInt?))
  | ["d", b] => b.toNat?.map .down
  | ["u", b] => b.toNat?.map .up
  | ["c", b] => b.toNat?.map .click
  | ["g", x, y, st] => do some (.drag (← x.toInt?) (← y.toInt?) (← st.toNat?))
  | _ => none

/-- `ptr <op>...`: events `x:y:mask` of the model from the initial state -/
def doPtr (args : List String) : String :=
  match args.mapM parsePtrOp with
  | some ops =>
    let evs := (ptrRun PtrSt.init ops).2
    match evs.mapM ptrEvBytes with
    | some ws => "ok " ++ joinHex ws
    | none => "err struct"
  | none => "bad-op"

def parseLibOp (s : String) : Option LibOp :=
  match s.splitOn ":" with
  | ["k", op, fc, up, h] => do some (.key (← keyOp? op) (← parseBool? fc) (← parseBool? up) (← strOfHex h).toList)
  | "p" :: rest => (parsePtrOp (":".intercalate rest)).map .ptr
  | ["paste", h] => (strOfHex h).map fun t => .paste t.toList
  | ["r", inc] => (parseBool? inc).map .refresh
  | ["ur", x, y, w, h, inc] => do some (.updateRequest (← x.toNat?) (← y.toNat?) (← w.toNat?) (← h.toNat?) (← parseBool? inc))
  | ["spf", bpp, d, be, tc, rm, gm, bm, rs, gs, bs] => do
    some (.setPixelFormat { bpp := ← bpp.toNat?, depth := ← d.toNat?, bigendian := ← parseBool? be, truecolor := ← parseBool? tc,
                            rmax := ← rm.toNat?, gmax := ← gm.toNat?, bmax := ← bm.toNat?,
                            rshift := ← rs.toNat?, gshift := ← gs.toNat?, bshift := ← bs.toNat? })
  | ["se", l] => if l = "-" then some (.setEncodings []) else ((l.splitOn ",").mapM String.toInt?).map .setEncodings
  | ["ke", k, d] => do some (.keyEvent (← k.toNat?) (← parseBool? d))
  | ["pe", x, y, m] => do some (.pointerEvent (← x.toNat?) (← y.toNat?) (← m.toNat?))
  | _ => none

/-- `lib <width> <height> <op>...`: all writes of a history of library operations -/
def doLib (args : List String) : String :=
  match args with
  | w :: h :: ops =>
    match w.toNat?, h.toNat?, ops.mapM parseLibOp with
    | some w, some h, some ops =>
      let r := libRun ⟨PtrSt.init, w, h⟩ ops
      (if r.2.2 then "ok " else "err ") ++ joinHex r.2.1
    | _, _, _ => "bad-op"
  | _ => "bad-op"

/-! ## rfb engine: a session -/

def fnv64 (bs : Bytes) : UInt64 :=
  bs.foldl (fun h b => (h ^^^ b.toUInt64) * 1099511628211) 14695981039346656037

def hashTok (bs : Bytes) : String := s!"{bs.length}.{(fnv64 bs).toNat}"

def optHex : Option Bytes → String
  | none => "none"
  | some b => showHex b

/-- constructor name of a phase (instrumentation only: which parts of the model the correspondence runs reach) -/
def phaseName : Phase → String
  | .banner _ => "banner" | .numSecTypes => "numSecTypes" | .secTypes _ => "secTypes" | .auth33 => "auth33"
  | .connFailed => "connFailed" | .connMessage _ => "connMessage" | .vncAuth => "vncAuth" | .dhAuth => "dhAuth"
  | .dhKey => "dhKey" | .dhCert => "dhCert" | .authResult => "authResult" | .authFailedLen => "authFailedLen"
  | .authFailedMsg _ => "authFailedMsg" | .serverInit => "serverInit" | .serverName _ => "serverName"
  | .connection => "connection" | .fbUpdate => "fbUpdate" | .rectangle => "rectangle" | .raw .. => "raw"
  | .copyrect .. => "copyrect" | .rre .. => "rre" | .rreSubs .. => "rreSubs" | .corre .. => "corre"
  | .correSubs .. => "correSubs" | .hextile .. => "hextile" | .hextileRaw .. => "hextileRaw"
  | .hextileSub .. => "hextileSub" | .hextileColoured .. => "hextileColoured" | .hextileFG .. => "hextileFG"
  | .zrle .. => "zrle" | .zrleData .. => "zrleData" | .cursor .. => "cursor" | .colourMap => "colourMap"
  | .colourMapVals .. => "colourMapVals" | .cutText => "cutText" | .cutTextVal .. => "cutTextVal" | .dead => "dead"

/-- the phases in which a handler is invoked while `chunk` is fed (the same loop as `drain`, observing only) -/
def phasesVisited : Nat → RSt → Bytes → List String → List String
  | 0, _, _, acc => acc
  | fuel+1, s, buf, acc =>
    if rfbMachine.blocked s buf then acc
    else
      let r := rfbMachine.step s (buf.take (rfbMachine.need s))
      let n := phaseName s.ph
      phasesVisited fuel r.1 (buf.drop (rfbMachine.need s)) (if acc.contains n then acc else n :: acc)

def outTok : Out → String
  | .write b => "w:" ++ showHex b
  | .close => "close"
  | .raise c => "raise:" ++ c
  | .authFailed r => "authfail:" ++ showHex r
  | .connFailed => "connfailed"
  | .made => "made"
  | .begin => "begin"
  | .commit rs => "commit:" ++ ";".intercalate (rs.map fun r => s!"{r.1}.{r.2.1}.{r.2.2.1}.{r.2.2.2}")
  | .update x y w h d => s!"upd:{x}:{y}:{w}:{h}:{hashTok d}"
  | .fill x y w h c => s!"fill:{x}:{y}:{w}:{h}:{optHex c}"
  | .copy sx sy x y w h => s!"copy:{sx}:{sy}:{x}:{y}:{w}:{h}"
  | .cursor x y w h i m => s!"cursor:{x}:{y}:{w}:{h}:{hashTok i}:{hashTok m}"
  | .desktop w h => s!"desktop:{w}:{h}"
  | .bell => "bell"
  | .cutText t => "cut:" ++ showHex t
  | .colourMap f cs => s!"cmap:{f}:" ++ ",".intercalate (cs.map fun c => s!"{c.1}.{c.2.1}.{c.2.2}")

structure Drv where
  rfb : Option (St RSt) := none
  zq : List (Option Bytes) := []
  cv : Canvas := {}
  mode : String := "RGBX"
  app : Option App := none
  imgs : List (Word × Option (Nat × Nat × List Nat)) := []
  pauses : List (Word × Nat) := []
  rmss : List (Word × Nat × Nat) := []
  uppers : List Word := []
  exit : ExitSt := {}
  up : Bool := true
  cov : List String := []
  px : Option (St PSt) := none
  rcd : RecSt := { last := 0 }
  now : Nat := 0
  fv : Factory := { pw := false }

/-- tabulate an image (driver-side optimisation: same pixels inside the bounds, constant-time lookups) -/
def freezeImg (i : Img) : Img :=
  if i.w * i.h > 16777216 then i else
  let arr : Array RGB := Id.run do
    let mut a := Array.mkEmpty (i.w * i.h)
    for y in [0:i.h] do
      for x in [0:i.w] do
        a := a.push (i.get x y)
    return a
  ⟨i.w, i.h, fun x y => if x < i.w ∧ y < i.h then arr.getD (y * i.w + x) black else i.get x y⟩

def freezeCv (cv : Canvas) : Canvas := { cv with screen := cv.screen.map freezeImg }

def screenTok (cv : Canvas) : String :=
  match cv.screen with
  | none => "none"
  | some s =>
    let h : UInt64 := Id.run do
      let mut h : UInt64 := 14695981039346656037
      for y in [0:s.h] do
        for x in [0:s.w] do
          let p := s.get x y
          h := (h ^^^ p.1.toUInt64) * 1099511628211
          h := (h ^^^ p.2.1.toUInt64) * 1099511628211
          h := (h ^^^ p.2.2.toUInt64) * 1099511628211
      return h
    s!"{s.w} {s.h} {h.toNat}"

def kind? : String → Option ClientKind
  | "base" => some .base | "lib" => some .lib | "cli" => some .cli | _ => none

/-- `rfb-new <kind> <haspw> <shared> <encoding> <pseudocursor> <nocursor> <pseudodesktop> <lastrect> <qemu> <authresp> <ardreply>` -/
def doRfbNew (d : Drv) (args : List String) : Drv × String :=
  match args with
  | [k, pw, sh, enc, pc, nc, pd, lr, qx, ar, ard] =>
    match kind? k, parseBool? pw, parseBool? sh, enc.toInt?, parseBool? pc, parseBool? nc, parseBool? pd,
          parseBool? lr, parseBool? qx, bytesOfHex ar, bytesOfHex ard with
    | some k, some pw, some sh, some enc, some pc, some nc, some pd, some lr, some qx, some ar, some ard =>
      let cfg : Cfg := { kind := k, hasPassword := pw, shared := sh, encoding := enc, pseudocursor := pc, nocursor := nc,
                         pseudodesktop := pd, lastRect := lr, qemuExt := qx, authResponse := ar, ardReply := ard }
      ({ d with rfb := some ⟨RSt.init cfg d.zq, []⟩, zq := [], cv := { nocursor := nc } }, "ok")
    | _, _, _, _, _, _, _, _, _, _, _ => (d, "bad-op")
  | _ => (d, "bad-op")

/-! ## client application engine -/

def rgbHash (px : List RGB) : UInt64 :=
  px.foldl (fun h p => (((h ^^^ p.1.toUInt64) * 1099511628211 ^^^ p.2.1.toUInt64) * 1099511628211 ^^^ p.2.2.toUInt64) * 1099511628211)
    14695981039346656037

def actTok : Act → String
  | .write b => "w:" ++ showHex b
  | .save f w h px => s!"save:{hexW f}:{w}:{h}:{(rgbHash px).toNat}"
  | .start i => s!"start:{i}"
  | .finish i => s!"finish:{i}"
  | .close => "close"
  | .chainFailed c => "chainfailed:" ++ c

def parseCmdTok (t : String) : Option Cmd :=
  match t.splitOn ":" with
  | ["keyPress", k] => (wordOfHex k).map .keyPress
  | ["keyDown", k] => (wordOfHex k).map .keyDown
  | ["keyUp", k] => (wordOfHex k).map .keyUp
  | ["mouseMove", x, y] => do some (.mouseMove (← x.toInt?) (← y.toInt?))
  | ["mousePress", b] => b.toInt?.map .mousePress
  | ["mouseDown", b] => b.toInt?.map .mouseDown
  | ["mouseUp", b] => b.toInt?.map .mouseUp
  | ["mouseDrag", x, y] => do some (.mouseDrag (← x.toInt?) (← y.toInt?))
  | ["pauseArg", d] => (wordOfHex d).map .pauseArg
  | ["pauseDelay"] => some .pauseDelay
  | ["paste", c] => (wordOfHex c).map .paste
  | ["captureScreen", f] => (wordOfHex f).map .captureScreen
  | ["captureRegion", f, x, y, w, h] => do some (.captureRegion (← wordOfHex f) (← x.toInt?) (← y.toInt?) (← w.toInt?) (← h.toInt?))
  | ["expectScreen", f, r] => do some (.expectScreen (← wordOfHex f) (← wordOfHex r))
  | ["expectRegion", f, x, y, r] => do some (.expectRegion (← wordOfHex f) (← x.toInt?) (← y.toInt?) (← wordOfHex r))
  | _ => none

def mkEnv (d : Drv) (delayTicks : Nat) (fc inc : Bool) : Env :=
  { image := fun f => match d.imgs.find? (fun e => e.1 == f) with | some e => e.2 | none => none,
    pauseTicks := fun wd => match d.pauses.find? (fun e => e.1 == wd) with | some e => e.2 | none => 0,
    delayTicks := delayTicks,
    within := fun r sum len => match d.rmss.find? (fun e => e.1 == r) with
      | some e => decide (sum * e.2.2 * e.2.2 ≤ e.2.1 * e.2.1 * len)
      | none => false,
    isUpper := fun k => d.uppers.contains k, forceCaps := fc, incremental := inc }

/-- paint the callbacks of one chunk (no application attached).
    Driver-side guard (hostile streams): areas beyond 2^22 pixels / coordinates beyond 4096 are not painted (the real
    client would need gigabytes; such sessions never query the screen) -/
def paintOuts (mode : String) (cv : Canvas) (outs : List Out) : Canvas :=
  outs.foldl (fun (cv : Canvas) o =>
    let big : Bool := match o with
      | .fill x y w h _ => decide (w.toNat * h.toNat > 4194304 ∨ x.toNat + w.toNat > 4096 ∨ y.toNat + h.toNat > 4096)
      | .update x y w h _ => decide (w.toNat * h.toNat > 4194304 ∨ x.toNat + w.toNat > 4096 ∨ y.toNat + h.toNat > 4096)
      | .desktop w h => decide (w > 4096 ∨ h > 4096)
      | _ => false
    if big then cv else applyOut mode cv o) cv

def evTok : Ev → String
  | .out o => outTok o
  | .act a => actTok a

def doRfbRecv (d : Drv) (args : List String) : Drv × String :=
  match d.rfb, args with
  | some st, [h] =>
    match bytesOfHex h with
    | some chunk =>
      let d := { d with cov := phasesVisited (feedFuel st chunk) st.s (st.buf ++ chunk) d.cov }
      match d.app with
      | some a =>
        -- an application is attached: the whole client is ONE machine (VncModel/System.lean); this is the object of
        -- the theorems of VncProofs/System.lean
        let r := feed sysMachine ⟨⟨st.s, d.cv, a⟩, st.buf⟩ chunk
        let toks := r.2.1.map evTok ++ (if r.2.2 then [] else ["diverged"])
        ({ d with rfb := some ⟨r.1.s.rfb, r.1.buf⟩, cv := freezeCv r.1.s.cv, app := some r.1.s.app },
          s!"buf={r.1.buf.length} " ++ (if toks.isEmpty then "-" else " ".intercalate toks))
      | none =>
        let r := feed rfbMachine st chunk
        let cv := paintOuts r.1.s.core.imageMode d.cv r.2.1
        let toks := r.2.1.map outTok ++ (if r.2.2 then [] else ["diverged"])
        ({ d with rfb := some r.1, cv := freezeCv cv },
          s!"buf={r.1.buf.length} " ++ (if toks.isEmpty then "-" else " ".intercalate toks))
    | none => (d, "bad-op")
  | _, _ => (d, "bad-op")

def doRfbVmRecv (d : Drv) (args : List String) : Drv × String :=
  match d.rfb, args with
  | some st, [h] =>
    match bytesOfHex h with
    | some chunk =>
      let r := vmFeed st chunk
      let toks := r.2.1.map outTok ++ (if r.2.2 then [] else ["diverged"])
      let cv := freezeCv (applyOuts r.1.s.core.imageMode d.cv r.2.1)
      ({ d with rfb := some r.1, cv := cv }, s!"buf={r.1.buf.length} " ++ (if toks.isEmpty then "-" else " ".intercalate toks))
    | none => (d, "bad-op")
  | _, _ => (d, "bad-op")

/-! ## script compiler -/


def cmdTok : Cmd → String
  | .keyPress k => "keyPress:" ++ hexW k
  | .keyDown k => "keyDown:" ++ hexW k
  | .keyUp k => "keyUp:" ++ hexW k
  | .mouseMove x y => s!"mouseMove:{x}:{y}"
  | .mousePress b => s!"mousePress:{b}"
  | .mouseDown b => s!"mouseDown:{b}"
  | .mouseUp b => s!"mouseUp:{b}"
  | .mouseDrag x y => s!"mouseDrag:{x}:{y}"
  | .pauseArg d => "pauseArg:" ++ hexW d
  | .pauseDelay => "pauseDelay"
  | .paste c => "paste:" ++ hexW c
  | .captureScreen f => "captureScreen:" ++ hexW f
  | .captureRegion f x y w h => s!"captureRegion:{hexW f}:{x}:{y}:{w}:{h}"
  | .expectScreen f r => s!"expectScreen:{hexW f}:{hexW r}"
  | .expectRegion f x y r => s!"expectRegion:{hexW f}:{x}:{y}:{hexW r}"

def perrTok : PErr → String
  | .index => "index" | .value => "value" | .parse => "parse" | .os => "os" | .fuel => "fuel"


/-- `compile <delay> F <name> <tokens,|-> <content|none> … FL <float words…> W <words…>` -/
def doCompile (args : List String) : String :=
  match args with
  | dl :: rest =>
    let rec split3 (xs : List String) (files : List (Word × List Word × Option (List Char))) :
        Option (List (Word × List Word × Option (List Char)) × List String) :=
      match xs with
      | "F" :: n :: t :: c :: more =>
        match wordOfHex n, (if t = "~" then some [] else (t.splitOn ",").mapM wordOfHex),
              (if c = "none" then some none else (wordOfHex c).map some) with
        | some n, some t, some c => split3 more (files ++ [(n, t, c)])
        | _, _, _ => none
      | other => some (files, other)
    match parseBool? dl, split3 rest [] with
    | some delay, some (files, "FL" :: more) =>
      let fl := more.takeWhile (· ≠ "W")
      let ws := (more.dropWhile (· ≠ "W")).drop 1
      match fl.mapM wordOfHex, ws.mapM wordOfHex with
      | some fl, some ws =>
        let fs : FS := {
          isFile := fun f => files.any fun e => e.1 == f,
          tokens := fun f => match files.find? (fun e => e.1 == f) with | some e => e.2.1 | none => [],
          read := fun f => match files.find? (fun e => e.1 == f) with | some e => e.2.2 | none => none,
          isFloat := fun x => fl.contains x }
        match compile fs delay 10000 ws with
        | .ok cs => "ok " ++ (if cs.isEmpty then "-" else ";".intercalate (cs.map cmdTok))
        | .error e => "err " ++ perrTok e
      | _, _ => "bad-op"
    | _, _ => "bad-op"
  | _ => "bad-op"

/-! ## crypto -/

def natOfHex (h : String) : Option Nat := (bytesOfHex h).map beNat

def doCrypto (op : String) (args : List String) : String :=
  match op, args with
  | "des", [k, b] =>
    match bytesOfHex k, bytesOfHex b with
    | some k, some b => "ok " ++ showHex (DES.encryptBlock k b)
    | _, _ => "bad-op"
  | "vnckey", [pw] =>
    match strOfHex pw with
    | some pw => match vncDesKey pw.toList with
      | some k => "ok " ++ showHex k
      | none => "err unicode"
    | none => "bad-op"
  | "vncresp", [pw, ch] =>
    match strOfHex pw, bytesOfHex ch with
    | some pw, some ch =>
      match vncResponse (fun k d => DES.ecb (DES.encryptBlock k) 2 d) pw.toList ch with
      | some r => "ok " ++ showHex r
      | none => "err unicode"
    | _, _ => "bad-op"
  | "specresp", [pw, ch] =>
    match bytesOfHex pw, bytesOfHex ch with
    | some pw, some ch => "ok " ++ showHex (DES.response pw ch)
    | _, _ => "bad-op"
  | "ard", [g, l, m, sk, sec] =>
    match g.toNat?, l.toNat?, natOfHex m, natOfHex sk, natOfHex sec with
    | some g, some l, some m, some sk, some sec =>
      "ok " ++ showHex (longToBytes (pyPow g sec m) l) ++ " " ++ showHex (longToBytes (pyPow sk sec m) l)
    | _, _, _, _, _ => "bad-op"
  | _, _ => "bad-op"

/-! ## api engine -/

/-- `api-run <outcomes: per client "0,1,0" (1 = the operation fails), clients separated by ;> <labels…>`
    labels: aN appCall, t reactorTake, fN opFinish, gN appGet, cN:ok connectOk, cN:failE connectFail -/
def doApiRun (args : List String) : String :=
  match args with
  | oc :: labels =>
    let table : List (List Bool) := (oc.splitOn ";").map fun c => (c.splitOn ",").map (· == "1")
    let outcome (c k : Nat) : Api.Outcome := if ((table.getD c []).getD k false) then .err (100 + k) else .ok k
    let parse (l : String) : Option Api.Label :=
      if l == "t" then some .reactorTake
      else match l.toList with
        | 'a' :: r => (String.ofList r).toNat?.map .appCall
        | 'f' :: r => (String.ofList r).toNat?.map .opFinish
        | 'g' :: r => (String.ofList r).toNat?.map .appGet
        | 'c' :: r =>
          match (String.ofList r).splitOn ":" with
          | [n, "ok"] => n.toNat?.map .connectOk
          | [n, f] => if f.startsWith "fail" then n.toNat?.map (fun c => .connectFail c 9) else none
          | _ => none
        | _ => none
    match labels.mapM parse with
    | none => "bad-op"
    | some ls =>
      match Api.run outcome {} ls with
      | none => "err disabled-label"
      | some s =>
        "ok " ++ ";".intercalate ((List.range table.length).map fun c =>
          ",".intercalate ((s.clients c).returned.map fun r => match r.2 with | .ok _ => "o" | .err _ => "e"))
  | _ => "bad-op"

def handle (line : String) : String :=
  match (line.splitOn " ").filter (· ≠ "") with
  | "addr" :: args => doAddr args
  | "key" :: args => doKey args
  | "speckey" :: args => doSpecKey args
  | "ptr" :: args => doPtr args
  | "lib" :: args => doLib args
  | ["cli-opts", l, n, r] =>
    -- the SetEncodings list the CLI client sends for a command line (VncModel/Cli.lean + connectionMade)
    match parseBool? l, parseBool? n, parseBool? r with
    | some l, some n, some r =>
      let cfg := cliCfg { localcursor := l, nocursor := n, disableDesktopResizing := r }
      let outs := (connectionMade { cfg := cfg, pf := Tables.RGB32 }).2
      let ws := outs.filterMap fun o => match o with | .write b => some b | _ => none
      -- the header write [2, 0, count] followed by one 4-byte write per encoding
      let encs := (ws.dropWhile fun b => b.head? != some 2).drop 1
      "ok " ++ ",".intercalate (encs.map fun b => toString (Int.ofNat (beNat b) - (if beNat b ≥ 2147483648 then 4294967296 else 0)))
    | _, _, _ => "bad-op"
  | "compile" :: args => doCompile args
  | "crypto" :: op :: args => doCrypto op args
  | "api-run" :: args => doApiRun args
  | _ => "bad-op"

/-! ## proxy engine -/

def pevTok : PEvent → String
  | .startLogging => "startlogging"
  | .setPixelFormat pf => "spf:" ++ showHex pf
  | .setEncodings n => s!"se:{n}"
  | .updateRequest => "ur"
  | .key k d => s!"key:{k}:{if d then 1 else 0}"
  | .pointer x y m => s!"ptr:{x}:{y}:{m}"
  | .cutText t => "cut:" ++ showHex t
  | .closeViewer => "closeviewer"
  | .raise c => "raise:" ++ c

def doPxRecv (d : Drv) (h : String) : Drv × String :=
  match d.px, bytesOfHex h with
  | some st, some chunk =>
    if !d.rcd.recording then (d, "stopped") else
    let r := feed proxyMachine st chunk
    -- fold the recorder over the events of this chunk (all at the chunk's arrival time)
    let (rec', toks) := r.2.1.foldl (fun (acc : RecSt × List String) ev =>
      let (r1, txt) := recStep acc.1 d.now ev
      (r1, acc.2 ++ [pevTok ev] ++ (match txt with | some t => ["rec:" ++ hexOfStr (String.ofList t)] | none => []))) (d.rcd, [])
    ({ d with px := some r.1, rcd := rec' },
      s!"buf={r.1.buf.length} " ++ (if toks.isEmpty then "-" else " ".intercalate toks) ++ (if r.2.2 then "" else " diverged"))
  | _, _ => (d, "bad-op")

def doShlex (h : String) : String :=
  match strOfHex h with
  | some s =>
    match shlexSplit s.toList with
    | .ok ws => "ok " ++ (if ws.isEmpty then "-" else ",".intercalate (ws.map hexW))
    | .error _ => "err value"
  | none => "bad-op"

def doQuote (h : String) : String :=
  match strOfHex h with
  | some s => "ok " ++ hexW (shlexQuote s.toList)
  | none => "bad-op"

def handleSt (d : Drv) (line : String) : Drv × String :=
  match (line.splitOn " ").filter (· ≠ "") with
  | "rfb-z" :: [h] =>
    if h = "err" then ({ d with zq := d.zq ++ [none] }, "ok")
    else match bytesOfHex h with
      | some b => ({ d with zq := d.zq ++ [some b] }, "ok")
      | none => (d, "bad-op")
  | "rfb-new" :: args => doRfbNew d args
  | ["px-new", pw, t0] =>
    match parseBool? pw, t0.toNat? with
    | some pw, some t0 => ({ d with px := some ⟨PSt.init pw, []⟩, rcd := { last := t0 }, now := t0 }, "ok")
    | _, _ => (d, "bad-op")
  | ["px-time", t] =>
    match t.toNat? with
    | some t => ({ d with now := t }, "ok")
    | none => (d, "bad-op")
  | "ptrcons" :: x0 :: y0 :: m0 :: evs =>
    -- VncSpec/PtrOrder.lean's checker `consistentFrom` on the pointer events observed on the implementation ("x,y,mask")
    let parse (t : String) : Option (Nat × Nat × Nat) :=
      match t.splitOn "," with
      | [a, b, c] => match a.toNat?, b.toNat?, c.toNat? with
        | some a, some b, some c => some (a, b, c)
        | _, _, _ => none
      | _ => none
    match x0.toNat?, y0.toNat?, m0.toNat?, evs.mapM parse with
    | some x0, some y0, some m0, some l => (d, if consistentFrom (x0, y0, m0) l then "ok true" else "ok false")
    | _, _, _, _ => (d, "bad-op")
  | "reqcur" :: w0 :: h0 :: toks =>
    -- VncSpec/Requests.lean's checker on a history observed on the implementation: "d<w>x<h>" = DesktopSize announced,
    -- "q<hex>" = bytes written by the application, "c" = commitUpdate
    let ev (t : String) : Option Ev :=
      if t == "c" then some (Ev.out (.commit []))
      else if t.startsWith "d" then
        match (t.drop 1).toString.splitOn "x" with
        | [a, b] => match a.toNat?, b.toNat? with
          | some a, some b => some (Ev.out (.desktop a b))
          | _, _ => none
        | _ => none
      else if t.startsWith "q" then (bytesOfHex (t.drop 1).toString).map fun b => Ev.act (.write b)
      else none
    match w0.toNat?, h0.toNat?, toks.mapM ev with
    | some w0, some h0, some l => (d, if requestsCurrent (w0, h0) l then "ok true" else "ok false")
    | _, _, _ => (d, "bad-op")
  | "ordered" :: toks =>
    -- VncProofs/C08Sys.lean's checker `scriptOrdered` (re-stated in VncSpec/Order.lean) on a history observed on the implementation
    let acts : Option (List Act) := toks.mapM fun t =>
      if t == "w" then some (Act.write []) else if t == "v" then some (Act.save [] 0 0 []) else if t == "x" then some (Act.chainFailed "")
      else if t == "c" then some Act.close
      else if t.startsWith "s" then (t.drop 1).toNat?.map Act.start
      else if t.startsWith "f" then (t.drop 1).toNat?.map Act.finish
      else none
    match acts with
    | some l => (d, if scriptOrdered none 0 l then "ok true" else "ok false")
    | none => (d, "bad-op")
  | ["px-recv", h] => doPxRecv d h
  | ["fv-new", pw] =>
    match parseBool? pw with
    | some pw => ({ d with fv := { pw := pw } }, "ok")
    | none => (d, "bad-op")
  | ["fv-connect", c, t] =>
    match c.toNat?, t.toNat? with
    | some c, some t =>
      let f := fstep d.fv (.connect c t)
      ({ d with fv := f }, match f.files.getLast? with | some fl => s!"ok {fl.sec} {fl.suffix}" | none => "ok")
    | _, _ => (d, "bad-op")
  | ["fv-recv", c, t, h] =>
    match c.toNat?, t.toNat?, bytesOfHex h with
    | some c, some t, some b => ({ d with fv := fstep d.fv (.recv c t b) }, "ok")
    | _, _, _ => (d, "bad-op")
  | ["fv-lose", c] =>
    match c.toNat? with
    | some c => ({ d with fv := fstep d.fv (.lose c) }, "ok")
    | none => (d, "bad-op")
  | ["fv-files"] =>
    (d, "ok " ++ (if d.fv.files.isEmpty then "-" else " ".intercalate (d.fv.files.map fun fl =>
      s!"{fl.sec}.{fl.suffix}.{if fl.closed then 1 else 0}:{hexOfStr (String.ofList fl.text)}")))
  | ["shlex", h] => (d, doShlex h)
  | ["quote", h] => (d, doQuote h)
  | "rfb-recv" :: args => doRfbRecv d args
  | "rfb-vmrecv" :: args => doRfbVmRecv d args
  | ["app-reset"] => ({ d with imgs := [], pauses := [], rmss := [], uppers := [], app := none, exit := {}, up := true }, "ok")
  | ["app-img", f, w, h, hist] =>
    match wordOfHex f with
    | some f =>
      if hist = "none" then ({ d with imgs := d.imgs ++ [(f, none)] }, "ok")
      else match w.toNat?, h.toNat?, (hist.splitOn ",").mapM String.toNat? with
        | some w, some h, some hs => ({ d with imgs := d.imgs ++ [(f, some (w, h, hs))] }, "ok")
        | _, _, _ => (d, "bad-op")
    | none => (d, "bad-op")
  | ["app-pause", wd, t] =>
    match wordOfHex wd, t.toNat? with
    | some wd, some t => ({ d with pauses := d.pauses ++ [(wd, t)] }, "ok")
    | _, _ => (d, "bad-op")
  | ["app-rms", wd, p, q] =>
    match wordOfHex wd, p.toNat?, q.toNat? with
    | some wd, some p, some q => ({ d with rmss := d.rmss ++ [(wd, p, q)] }, "ok")
    | _, _, _ => (d, "bad-op")
  | ["app-upper", wd] =>
    match wordOfHex wd with
    | some wd => ({ d with uppers := d.uppers ++ [wd] }, "ok")
    | none => (d, "bad-op")
  | "app-new" :: dl :: fc :: inc :: cmds =>
    match dl.toNat?, parseBool? fc, parseBool? inc, cmds.mapM parseCmdTok with
    | some dl, some fc, some inc, some cs => ({ d with app := some { env := mkEnv d dl fc inc, cmds := cs }, exit := {}, up := true }, "ok")
    | _, _, _, _ => (d, "bad-op")
  | ["app-fire"] =>
    match d.app, d.rfb with
    | some a, some st =>
      match earliestTimer a with
      | none => (d, "no-timer")
      | some _ =>
        -- exactly one timer per op (the harness pops one delayed call at a time, in Twisted's order: due time, then creation)
        let r := sysFire ⟨⟨st.s, d.cv, a⟩, st.buf⟩
        let acts := r.2.map evTok
        ({ d with app := some r.1.s.app, cv := r.1.s.cv },
          s!"t={r.1.s.app.now} " ++ (if acts.isEmpty then "-" else " ".intercalate acts))
    | _, _ => (d, "bad-op")
  | ["app-op", c] =>
    match d.app, d.rfb, parseCmdTok c with
    | some a, some st, some c =>
      let r := startCmd a st.s.core d.cv.screen c
      let tail := match r.2.2 with | .fail cls => ["raise:" ++ cls] | _ => []
      ({ d with app := some r.1, cv := { d.cv with ptrX := r.1.ptr.x, ptrY := r.1.ptr.y } },
        let toks := r.2.1.map actTok ++ tail
        if toks.isEmpty then "-" else " ".intercalate toks)
    | _, _, _ => (d, "bad-op")
  | ["app-plainwait", inc] =>
    match d.app, d.rfb, parseBool? inc with
    | some a, some st, some inc =>
      ({ d with app := some { a with waiter := some .plain } }, " ".intercalate ((requestAll st.s.core inc).map actTok))
    | _, _, _ => (d, "bad-op")
  | ["app-exit", ev] =>
    match d.app with
    | some a =>
      let e? : Option ExitEv := match ev with
        | "connectfailed" => some .connectFailed | "lost-clean" => some (.lost true) | "lost-error" => some (.lost false)
        | "timeout" => some .timeout | _ => none
      match e?, d.rfb with
      | some .connectFailed, _ =>
        let x := exitStep a.completed d.exit a.now .connectFailed
        ({ d with exit := x }, s!"status={x.status} stop={match x.stopAt with | some t => toString t | none => "none"}")
      | some e, some st =>
        -- the process model of VncModel/System.lean (object of VncProofs/SystemExit.lean)
        let pin : ProcIn := match e with | .lost c => .lost c | _ => .timeout
        let p := (procStep { st := ⟨⟨st.s, d.cv, a⟩, st.buf⟩, exit := d.exit, up := d.up } pin).1
        ({ d with exit := p.exit, up := p.up },
          s!"status={p.exit.status} stop={match p.exit.stopAt with | some t => toString t | none => "none"}")
      | some e, none =>
        let x := exitStep a.completed d.exit a.now e
        ({ d with exit := x }, s!"status={x.status} stop={match x.stopAt with | some t => toString t | none => "none"}")
      | none, _ => (d, "bad-op")
    | none => (d, "bad-op")
  | ["app-now", t] =>
    match d.app, t.toNat? with
    | some a, some t => ({ d with app := some { a with now := t } }, "ok")
    | _, _ => (d, "bad-op")
  | ["rfb-cov"] => (d, "ok " ++ " ".intercalate d.cov)
  | ["rfb-screen"] => (d, screenTok d.cv)
  | ["cv-new", nc, m] =>
    match parseBool? nc, strOfHex m with
    | some nc, some m => ({ d with cv := { nocursor := nc }, mode := m }, "ok")
    | _, _ => (d, "bad-op")
  | ["cv-upd", x, y, w, h, data] =>
    match x.toNat?, y.toNat?, w.toNat?, h.toNat?, bytesOfHex data with
    | some x, some y, some w, some h, some data => ({ d with cv := freezeCv (updateRect d.cv d.mode x y w h data) }, "ok")
    | _, _, _, _, _ => (d, "bad-op")
  | ["cv-resize", w, h] =>
    match w.toNat?, h.toNat? with
    | some w, some h => ({ d with cv := freezeCv (resizeDesktop d.cv w h) }, "ok")
    | _, _ => (d, "bad-op")
  | ["cv-cursor", x, y, w, h, img, m] =>
    match x.toNat?, y.toNat?, w.toNat?, h.toNat?, bytesOfHex img, bytesOfHex m with
    | some x, some y, some w, some h, some img, some m =>
      ({ d with cv := freezeCv (updateCursor d.cv d.mode x y w h img m) }, "ok")
    | _, _, _, _, _, _ => (d, "bad-op")
  | ["rfb-ptr", x, y] =>
    match x.toInt?, y.toInt? with
    | some x, some y => ({ d with cv := { d.cv with ptrX := x, ptrY := y } }, "ok")
    | _, _ => (d, "bad-op")
  | _ => (d, handle line)

partial def loop (h : IO.FS.Stream) (out : IO.FS.Stream) (d : Drv) : IO Unit := do
  let line ← h.getLine
  if line.isEmpty then return ()
  let l := if line.endsWith "\n" then (line.dropEnd 1).toString else line
  let (d', o) := handleSt d l
  out.putStrLn o
  loop h out d'

def main : IO Unit := do
  let stdin ← IO.getStdin
  let stdout ← IO.getStdout
  loop stdin stdout {}
