import VncSpec.Address
import VncSpec.C2S
import VncSpec.Keys
import VncSpec.Pointer
import VncSpec.Canvas
import VncSpec.PixelFormat
import VncSpec.Grammar
