import VncModel.Basic
import VncSpec.DESTables
/-!
# C14 — DES (FIPS 46-3) and the RFB authentication response (RFC 6143 §7.2.2)

Blocks and keys are lists of bits, most significant bit of the first byte first.
-/
namespace Vnc.DES

abbrev Bits := List Bool

def bitsOfByte (b : UInt8) : Bits := (List.range 8).map fun i => b.toNat.testBit (7 - i)
def bitsOfBytes (bs : Bytes) : Bits := bs.flatMap bitsOfByte

def byteOfBits (b : Bits) : UInt8 := UInt8.ofNat (b.foldl (fun acc x => acc * 2 + (if x then 1 else 0)) 0)

def bytesOfBits : Nat → Bits → Bytes
  | 0, _ => []
  | n+1, b => byteOfBits (b.take 8) :: bytesOfBits n (b.drop 8)

/-- select bits by a 1-based table -/
def permute (tbl : List Nat) (b : Bits) : Bits := tbl.map fun i => b.getD (i - 1) false

def xorB (a b : Bits) : Bits := List.zipWith (fun x y => x != y) a b

def rotl (n : Nat) (b : Bits) : Bits := b.drop n ++ b.take n

def natOfBits (b : Bits) : Nat := b.foldl (fun acc x => acc * 2 + (if x then 1 else 0)) 0
def bits4 (v : Nat) : Bits := [v.testBit 3, v.testBit 2, v.testBit 1, v.testBit 0]

/-- S-box `i` (0-based) on 6 bits: row = outer bits, column = inner four -/
def sbox (i : Nat) (six : Bits) : Bits :=
  let row := natOfBits [six.getD 0 false, six.getD 5 false]
  let col := natOfBits ((six.drop 1).take 4)
  bits4 ((S.getD i []).getD (row * 16 + col) 0)

def sboxes (x : Bits) : Bits := (List.range 8).flatMap fun i => sbox i ((x.drop (6 * i)).take 6)

/-- the cipher function f(R, K) -/
def f (r k : Bits) : Bits := permute P (sboxes (xorB (permute E r) k))

/-- the 16 round keys -/
def keySchedule (key : Bits) : List Bits :=
  let k := permute PC1 key
  (SHIFTS.foldl (fun (acc : Bits × Bits × List Bits) s =>
    let c := rotl s acc.1
    let d := rotl s acc.2.1
    (c, d, acc.2.2 ++ [permute PC2 (c ++ d)])) (k.take 28, k.drop 28, [])).2.2

/-- the Feistel rounds -/
def rounds : List Bits → Bits × Bits → Bits × Bits
  | [], lr => lr
  | k :: ks, (l, r) => rounds ks (r, xorB l (f r k))

def cryptBlock (ks : List Bits) (block : Bits) : Bits :=
  let b := permute IP block
  let lr := rounds ks (b.take 32, b.drop 32)
  permute FP (lr.2 ++ lr.1)

def encryptBlock (key block : Bytes) : Bytes :=
  bytesOfBits 8 (cryptBlock (keySchedule (bitsOfBytes key)) (bitsOfBytes block))

def decryptBlock (key block : Bytes) : Bytes :=
  bytesOfBits 8 (cryptBlock (keySchedule (bitsOfBytes key)).reverse (bitsOfBytes block))

/-- ECB over 8-byte blocks -/
def ecb (blk : Bytes → Bytes) : Nat → Bytes → Bytes
  | 0, _ => []
  | n+1, d => if d.isEmpty then [] else blk (d.take 8) ++ ecb blk n (d.drop 8)

/-- mirror the bits of a byte -/
def reverseBits (b : UInt8) : UInt8 := byteOfBits (bitsOfByte b).reverse

/-- RFC 6143 7.2.2 / the VNC convention: the key is the first eight password bytes, NUL padded, each byte mirrored -/
def vncKey (pw : Bytes) : Bytes := ((pw ++ List.replicate 8 0).take 8).map reverseBits

/-- the response a server verifies: both halves of the 16-byte challenge encrypted under the key -/
def response (pw challenge : Bytes) : Bytes := ecb (encryptBlock (vncKey pw)) 2 challenge

end Vnc.DES
