import VncModel.Types
/-!
# C05 — what pointer operations mean

Abstract state: the pointer position and the *set* of held buttons (`held b` for b = 1..8).
Every event carries the position after the latest move and the mask `Σ_{b held} 2^(b-1)`.
-/
namespace Vnc.Spec

structure Ptr where
  pos : Int × Int
  held : Nat → Bool          -- button number (1-based) ↦ currently held
  
def Ptr.init : Ptr := ⟨(0, 0), fun _ => false⟩

/-- the mask of a held-set restricted to buttons 1..n -/
def maskUpTo (held : Nat → Bool) : Nat → Nat
  | 0 => 0
  | n+1 => maskUpTo held n + (if held (n+1) then 2 ^ n else 0)

/-- the RFB button mask: bit (b-1) is set iff button b is held, buttons 1..8 -/
def mask (held : Nat → Bool) : Nat := maskUpTo held 8

def press (held : Nat → Bool) (b : Nat) : Nat → Bool := fun i => if i = b then true else held i
def release (held : Nat → Bool) (b : Nat) : Nat → Bool := fun i => if i = b then false else held i

/-- RFC 6143 §7.5.5 PointerEvent: 6 bytes -/
def pointerEventBytes (x y m : Nat) : Bytes := [5, byteOf m] ++ enc16 x ++ enc16 y

end Vnc.Spec
