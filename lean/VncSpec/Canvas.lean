import VncModel.Types
/-!
# C12 — the reference canvas

The screen according to the property: a *function* from positions to colours plus a size.
Everything sent is there, the latest write wins, pixels never sent are black; a desktop-size change sets the
size exactly and forgets what no longer fits.
-/
namespace Vnc.Spec

abbrev Colour := Nat × Nat × Nat

structure Ref where
  size : Option (Nat × Nat) := none
  px : Nat → Nat → Colour := fun _ _ => (0, 0, 0)

inductive ROp
  /-- a rectangle of pixels `img i j` (0 ≤ i < w, 0 ≤ j < h) placed at (x, y) -/
  | upd (x y w h : Nat) (img : Nat → Nat → Colour)
  /-- the desktop-size pseudo-rectangle -/
  | resize (w h : Nat)

def Ref.apply (r : Ref) : ROp → Ref
  | .upd x y w h img =>
    if w = 0 ∨ h = 0 then r
    else
      { size := some (match r.size with
          | none => (x + w, y + h)
          | some (W, H) => (max W (x + w), max H (y + h))),
        px := fun i j => if x ≤ i ∧ i < x + w ∧ y ≤ j ∧ j < y + h then img (i - x) (j - y) else r.px i j }
  | .resize w h =>
    { size := some (w, h),
      px := fun i j => if i < w ∧ j < h then r.px i j else (0, 0, 0) }

def Ref.run (r : Ref) (ops : List ROp) : Ref := ops.foldl Ref.apply r

end Vnc.Spec
