import VncModel.Client
/-!
# C08 - the script-order discipline as a checker over a history of application actions

Stated here (not in the proof file) because the driver evaluates it on histories observed on the implementation
(`ordered` op); `VncProofs/C08Sys.lean` proves it of every run of the model.
-/
namespace Vnc

/-- the discipline, as a checker over a history: `cur` = the command in progress, `n` = index the next command must have -/
def scriptOrdered : Option Nat → Nat → List Act → Bool
  | _, _, [] => true
  | cur, n, a :: r =>
    match a, cur with
    | .start i, none => i == n && scriptOrdered (some i) (n + 1) r
    | .start _, some _ => false
    | .finish i, some c => i == c && scriptOrdered none n r
    | .finish _, none => false
    | .write _, some c => scriptOrdered (some c) n r
    | .write _, none => false
    | .save .., some c => scriptOrdered (some c) n r
    | .save .., none => false
    | .chainFailed _, some c => scriptOrdered (some c) n r
    | .chainFailed _, none => false
    | .close, none => r.isEmpty
    | .close, some _ => false

/-! ## a sharper checker: the close comes when the counter has reached the length `T` of the script -/

end Vnc
