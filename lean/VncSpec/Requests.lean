import VncModel.System
/-!
# C06 - "asks for the whole desktop as most recently announced", as a checker over a complete event history

Stated here (not in the proof file) because the driver evaluates it on histories observed on the implementation
(`reqcur` op); `VncProofs/C06Sys.lean` proves it of every run of the model.
-/
namespace Vnc

/-- a FramebufferUpdateRequest message: type 3, incremental flag, x, y, w, h -/
def reqOfWrite : Bytes → Option (Nat × Nat × Nat × Nat)
  | [3, _, x1, x0, y1, y0, w1, w0, h1, h0] =>
    some (x1.toNat * 256 + x0.toNat, y1.toNat * 256 + y0.toNat, w1.toNat * 256 + w0.toNat, h1.toNat * 256 + h0.toNat)
  | _ => none

/-- the checker: `sz` = the size announced last -/
def requestsCurrent : Nat × Nat → List Ev → Bool
  | _, [] => true
  | _, .out (.desktop w h) :: r => requestsCurrent (w, h) r
  | sz, .act (.write b) :: r =>
    (match reqOfWrite b with
     | some q => q == (0, 0, sz.1, sz.2)
     | none => true) && requestsCurrent sz r
  | sz, _ :: r => requestsCurrent sz r

end Vnc
