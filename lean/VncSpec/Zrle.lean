import VncSpec.Encodings
/-!
# C02 — ZRLE (RFC 6143 §7.7.6, tiles per §7.7.5 TRLE)

The zlib layer is outside (a parameter of the model): this file specifies the *inflated* tile data.
64×64 tiles, left to right, top to bottom, edge tiles smaller; tiles are given as rows of tiles.
A CPIXEL is `cp` bytes (3 for 32-bit pixels of depth ≤ 24, else the whole pixel); the client widens it to a
pixel by appending 0xFF when `pad`.
-/
namespace Vnc.Spec
open Vnc

inductive ZTile
  /-- sub-encoding 0: `tw*th` CPIXELs -/
  | raw (px : List Bytes)
  /-- sub-encoding 1: one colour -/
  | solid (c : Bytes)
  /-- sub-encoding 2..16: palette, then packed indices (1, 2 or 4 bits each, every row padded to a whole byte) -/
  | packed (pal : List Bytes) (idx : List Nat)
  /-- sub-encoding 128: plain RLE: (colour, run length ≥ 1) pairs -/
  | rle (runs : List (Bytes × Nat))
  /-- sub-encoding 130..255: palette RLE: (palette index, run length ≥ 1) pairs -/
  | prle (pal : List Bytes) (runs : List (Nat × Nat))

/-- run length `n ≥ 1` on the wire: `n - 1` as a sum of bytes, every byte 255 except the last -/
def runLenWire : Nat → Nat → Bytes
  | 0, _ => []
  | fuel+1, n => if n - 1 ≥ 255 then 255 :: runLenWire fuel (n - 255) else [byteOf (n - 1)]

def bitsPer (palSize : Nat) : Nat := if palSize = 2 then 1 else if palSize ≤ 4 then 2 else 4

/-- pack one row of indices, most significant bits first, padded to a byte -/
def packRow (bits : Nat) : Nat → Nat → List Nat → Bytes
  | acc, used, [] => if used = 0 then [] else [byteOf (acc * 2 ^ (8 - used))]
  | acc, used, i :: rest =>
    let acc := acc * 2 ^ bits + i
    let used := used + bits
    if used = 8 then byteOf acc :: packRow bits 0 0 rest else packRow bits acc used rest

/-- split a list into rows of `w` -/
def rowsOf (w : Nat) : Nat → List Nat → List (List Nat)
  | 0, _ => []
  | h+1, l => l.take w :: rowsOf w h (l.drop w)

def ZTile.wire (tw th : Nat) : ZTile → Bytes
  | .raw px => [0] ++ px.flatten
  | .solid c => [1] ++ c
  | .packed pal idx => [byteOf pal.length] ++ pal.flatten ++ ((rowsOf tw th idx).flatMap (packRow (bitsPer pal.length) 0 0))
  | .rle runs => [128] ++ runs.flatMap fun r => r.1 ++ runLenWire (r.2 + 1) r.2
  | .prle pal runs => [byteOf (128 + pal.length)] ++ pal.flatten ++
      runs.flatMap fun r => if r.2 = 1 then [byteOf r.1] else byteOf (128 + r.1) :: runLenWire (r.2 + 1) r.2

def widen (pad : Bool) (c : Bytes) : Bytes := c ++ (if pad then [255] else [])

/-- the pixel data of the tile as the client hands it to the application (pixels of `bypp` bytes) -/
def ZTile.pixels (pad : Bool) : ZTile → Bytes
  | .raw px => (px.map (widen pad)).flatten
  | .solid c => widen pad c
  | .packed pal idx => (idx.map fun i => widen pad (pal.getD i [])).flatten
  | .rle runs => (runs.map fun r => repeatBytes (widen pad r.1) r.2).flatten
  | .prle pal runs => (runs.map fun r => repeatBytes (widen pad (pal.getD r.1 [])) r.2).flatten

def ZTile.paint (pad : Bool) (tx ty tw th : Nat) : ZTile → Out
  | .solid c => .fill tx ty tw th (some (widen pad c))
  | t => .update tx ty tw th (t.pixels pad)

def ZTile.WF (cp tw th : Nat) : ZTile → Prop
  | .raw px => px.length = tw * th ∧ ∀ p ∈ px, p.length = cp
  | .solid c => c.length = cp
  | .packed pal idx => 2 ≤ pal.length ∧ pal.length ≤ 16 ∧ (∀ p ∈ pal, p.length = cp) ∧ idx.length = tw * th ∧
      ∀ i ∈ idx, i < pal.length
  | .rle runs => (∀ r ∈ runs, r.1.length = cp ∧ 1 ≤ r.2) ∧ (runs.map (·.2)).sum = tw * th
  | .prle pal runs => 2 ≤ pal.length ∧ pal.length ≤ 127 ∧ (∀ p ∈ pal, p.length = cp) ∧
      (∀ r ∈ runs, r.1 < pal.length ∧ 1 ≤ r.2) ∧ (runs.map (·.2)).sum = tw * th

def zRowWire (w th : Nat) : Nat → List ZTile → Bytes
  | _, [] => []
  | c, t :: ts => t.wire (min 64 (w - 64 * c)) th ++ zRowWire w th (c + 1) ts

def zRowPaint (pad : Bool) (x w ty th : Nat) : Nat → List ZTile → List Out
  | _, [] => []
  | c, t :: ts => t.paint pad (x + 64 * c) ty (min 64 (w - 64 * c)) th :: zRowPaint pad x w ty th (c + 1) ts

def zRowWF (cp w th : Nat) : Nat → List ZTile → Prop
  | _, [] => True
  | c, t :: ts => t.WF cp (min 64 (w - 64 * c)) th ∧ zRowWF cp w th (c + 1) ts

def zRowsWire (w h : Nat) : Nat → List (List ZTile) → Bytes
  | _, [] => []
  | r, row :: rows => zRowWire w (min 64 (h - 64 * r)) 0 row ++ zRowsWire w h (r + 1) rows

def zRowsPaint (pad : Bool) (x y w h : Nat) : Nat → List (List ZTile) → List Out
  | _, [] => []
  | r, row :: rows => zRowPaint pad x w (y + 64 * r) (min 64 (h - 64 * r)) 0 row ++ zRowsPaint pad x y w h (r + 1) rows

def zRowsWF (cp w h : Nat) : Nat → List (List ZTile) → Prop
  | _, [] => True
  | r, row :: rows => zRowWF cp w (min 64 (h - 64 * r)) 0 row ∧ zRowsWF cp w h (r + 1) rows

/-- the tiling of a `w×h` rectangle: `⌈h/64⌉` rows of `⌈w/64⌉` tiles -/
def ZTiling (w h : Nat) (rows : List (List ZTile)) : Prop :=
  0 < w ∧ 0 < h ∧ 64 * (rows.length - 1) < h ∧ h ≤ 64 * rows.length ∧
  ∀ row ∈ rows, 64 * (row.length - 1) < w ∧ w ≤ 64 * row.length

end Vnc.Spec
