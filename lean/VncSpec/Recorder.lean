import VncModel.Proxy
/-!
# C16 / C17 — what a viewer sends (RFC 6143 §7.1, §7.5 + the QEMU extended key event) and what vnclog writes

`VMsg` is one client-to-server message with arbitrary field values; `wire` its RFC byte layout; `events` what the
recorder has to see of it.  `VHandshake` is what a viewer sends before its first message under each protocol
version and security type the proxy supports.
-/
namespace Vnc.Spec
open Vnc

inductive VMsg
  | setPixelFormat (pf : Bytes)                -- 16 bytes
  | setEncodings (encs : List Bytes)           -- each 4 bytes
  | updateRequest (body : Bytes)               -- incremental, x, y, w, h: 9 bytes
  | key (keysym : Nat) (downByte : UInt8)      -- any non-zero down byte means "pressed"
  | pointer (x y mask : Nat)
  | cutText (t : Bytes)
  | qemuKey (downFlag : Nat) (keysym keycode : Nat)

def VMsg.wire : VMsg → Bytes
  | .setPixelFormat pf => [0, 0, 0, 0] ++ pf
  | .setEncodings encs => [2, 0] ++ enc16 encs.length ++ encs.flatten
  | .updateRequest body => [3] ++ body
  | .key k d => [4, d, 0, 0] ++ enc32 k
  | .pointer x y m => [5, byteOf m] ++ enc16 x ++ enc16 y
  | .cutText t => [6, 0, 0, 0] ++ enc32 t.length ++ t
  | .qemuKey d k c => [255, 0] ++ enc16 d ++ enc32 k ++ enc32 c

def VMsg.WF : VMsg → Prop
  | .setPixelFormat pf => pf.length = 16
  | .setEncodings encs => encs.length < 65536 ∧ ∀ e ∈ encs, e.length = 4
  | .updateRequest body => body.length = 9
  | .key k _ => k < 4294967296
  | .pointer x y m => x < 65536 ∧ y < 65536 ∧ m < 256
  | .cutText t => t.length < 4294967296
  | .qemuKey d k c => d < 65536 ∧ k < 4294967296 ∧ c < 4294967296

/-- the keys vnclog can write down -/
def VMsg.Recordable : VMsg → Prop
  | .key k _ => keyRecordable k = true
  | .qemuKey _ k _ => keyRecordable k = true
  | _ => True

/-- what the recorder has to see -/
def VMsg.events : VMsg → List PEvent
  | .setPixelFormat pf => [.setPixelFormat pf]
  | .setEncodings encs => [.setEncodings encs.length]
  | .updateRequest _ => [.updateRequest]
  | .key k d => [.key k (d != 0)]
  | .pointer x y m => [.pointer x y m]
  | .cutText t => [.cutText t]
  | .qemuKey d k _ => [.key k (d != 0)]

inductive VHandshake
  /-- RFB 3.3 (minor 003 or 005): security is chosen by the server; the 16-byte response follows iff a password is required -/
  | v33 (minor5 : Bool) (response : Option Bytes) (shared : UInt8)
  /-- RFB 3.7 / 3.8: the viewer names a security type; type 2 (VNC authentication) is followed by the 16-byte response -/
  | v37 (eight : Bool) (sectype : UInt8) (response : Option Bytes) (shared : UInt8)

def VHandshake.wire : VHandshake → Bytes
  | .v33 m5 resp sh => [82, 70, 66, 32, 48, 48, 51, 46, 48, 48, if m5 then 53 else 51, 10] ++ resp.getD [] ++ [sh]
  | .v37 e t resp sh => [82, 70, 66, 32, 48, 48, 51, 46, 48, 48, if e then 56 else 55, 10] ++ [t] ++ resp.getD [] ++ [sh]

/-- consistent with `--password-required` and the selected security type -/
def VHandshake.WF (passwordRequired : Bool) : VHandshake → Prop
  | .v33 _ resp _ => (passwordRequired = true → ∃ r, resp = some r ∧ r.length = 16) ∧ (passwordRequired = false → resp = none)
  | .v37 _ t resp _ => (t = 2 → ∃ r, resp = some r ∧ r.length = 16) ∧ (t ≠ 2 → resp = none)

end Vnc.Spec
