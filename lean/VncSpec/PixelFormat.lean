import VncModel.Types
/-!
# C13 — RFC 6143 §7.4: what the bits of a pixel mean

A pixel is `bypp` bytes assembled in the format's endianness; each channel is
`(value >> shift) & max`, shown on a 0..255 scale as `c * 255 / max`.
-/
namespace Vnc.Spec

/-- the pixel value of `p` (bypp bytes) in the given byte order -/
def assemble (bigendian : Bool) (p : Bytes) : Nat := if bigendian then beNat p else leNat p

def channel (v shift max : Nat) : Nat := (v / 2 ^ shift) % (max + 1)

/-- the colour a pixel value stands for, on the 0..255 scale (`max` is `2^k - 1`) -/
def channels (pf : PF) (v : Nat) : Nat × Nat × Nat :=
  (channel v pf.rshift pf.rmax * 255 / pf.rmax, channel v pf.gshift pf.gmax * 255 / pf.gmax,
   channel v pf.bshift pf.bmax * 255 / pf.bmax)

/-- the encodings the client advertises: its preferred real encoding first, then exactly the pseudo-encodings
    its options ask for -/
def advertised (pref : Int) (cursor desktop lastRect qemu : Bool) : List Int :=
  [pref] ++ (if cursor then [-239] else []) ++ (if desktop then [-223] else []) ++
  (if lastRect then [-224] else []) ++ (if qemu then [-258] else [])

end Vnc.Spec
