import VncModel.Rfb
/-!
# C02 — RFC 6143 §7.6.1 / §7.7 / §7.8: what a conforming encoder may send for a rectangle, its byte layout and
its meaning

Written from the RFC.  `Body` is the encoder's *decision* for a `w×h` rectangle at `(x, y)`; `wire` is the RFC's
byte layout after the 12-byte rectangle header; `paint` is the RFC's meaning as a list of paint instructions
(in the vocabulary of the client's application callbacks: put these pixels there, fill that box with that colour,
copy from there, new cursor shape, new desktop size).  Colours are pixel values of `bypp` bytes in the format in
force (their RGB meaning is property C13).
-/
namespace Vnc.Spec
open Vnc

structure Rct where
  x : Nat
  y : Nat
  w : Nat
  h : Nat

/-- a sub-rectangle: colour, position relative to the rectangle, size -/
structure Sub where
  col : Bytes
  x : Nat
  y : Nat
  w : Nat
  h : Nat

inductive Body
  | raw (px : Bytes)                          -- w*h pixels, row-major
  | copyRect (sx sy : Nat)
  | rre (bg : Bytes) (subs : List Sub)
  | corre (bg : Bytes) (subs : List Sub)      -- like RRE with 8-bit coordinates
  | cursor (px mask : Bytes)                  -- pseudo-encoding: pixels + 1-bit mask, (x, y) is the hotspot
  | desktopSize                               -- pseudo-encoding: (w, h) is the new size
  | qemuExtKey                                -- pseudo-encoding: a marker, no pixels

def Body.enc : Body → Int
  | .raw _ => 0 | .copyRect .. => 1 | .rre .. => 2 | .corre .. => 4
  | .cursor .. => -239 | .desktopSize => -223 | .qemuExtKey => -258

def Sub.wire16 (s : Sub) : Bytes := s.col ++ enc16 s.x ++ enc16 s.y ++ enc16 s.w ++ enc16 s.h
def Sub.wire8 (s : Sub) : Bytes := s.col ++ [byteOf s.x, byteOf s.y, byteOf s.w, byteOf s.h]

/-- the bytes after the rectangle header -/
def Body.wire : Body → Bytes
  | .raw px => px
  | .copyRect sx sy => enc16 sx ++ enc16 sy
  | .rre bg subs => enc32 subs.length ++ bg ++ subs.flatMap Sub.wire16
  | .corre bg subs => enc32 subs.length ++ bg ++ subs.flatMap Sub.wire8
  | .cursor px mask => px ++ mask
  | .desktopSize => []
  | .qemuExtKey => []

/-- well-formedness for a `w×h` rectangle with `bypp`-byte pixels -/
def Body.WF (bypp : Nat) (r : Rct) : Body → Prop
  | .raw px => px.length = r.w * r.h * bypp
  | .copyRect sx sy => sx < 65536 ∧ sy < 65536
  | .rre bg subs => bg.length = bypp ∧ subs.length < 4294967296 ∧
      ∀ s ∈ subs, s.col.length = bypp ∧ s.x < 65536 ∧ s.y < 65536 ∧ s.w < 65536 ∧ s.h < 65536
  | .corre bg subs => bg.length = bypp ∧ subs.length < 4294967296 ∧
      ∀ s ∈ subs, s.col.length = bypp ∧ s.x < 256 ∧ s.y < 256 ∧ s.w < 256 ∧ s.h < 256
  | .cursor px mask => px.length = r.w * r.h * bypp ∧ mask.length = ((r.w + 7) / 8) * r.h
  | .desktopSize => True
  | .qemuExtKey => True

/-- the meaning of the rectangle -/
def Body.paint (r : Rct) : Body → List Out
  | .raw px => [.update r.x r.y r.w r.h px]
  | .copyRect sx sy => [.copy sx sy r.x r.y r.w r.h]
  | .rre bg subs => .fill r.x r.y r.w r.h (some bg) ::
      subs.map fun s => .fill ((r.x + s.x : Nat) : Int) ((r.y + s.y : Nat) : Int) s.w s.h (some s.col)
  | .corre bg subs => .fill r.x r.y r.w r.h (some bg) ::
      subs.map fun s => .fill ((r.x + s.x : Nat) : Int) ((r.y + s.y : Nat) : Int) s.w s.h (some s.col)
  | .cursor px mask => [.cursor r.x r.y r.w r.h px mask]
  | .desktopSize => [.desktop r.w r.h]
  | .qemuExtKey => []

/-- does the rectangle count as an updated area (reported to the application at the end of the update) -/
def Body.positional : Body → Bool
  | .qemuExtKey => false
  | _ => true

/-- the 12-byte rectangle header -/
def rectHeader (r : Rct) (enc : Int) : Bytes := enc16 r.x ++ enc16 r.y ++ enc16 r.w ++ enc16 r.h ++ encS32 enc

def Rct.WF (r : Rct) : Prop := r.x < 65536 ∧ r.y < 65536 ∧ r.w < 65536 ∧ r.h < 65536

/-- one FramebufferUpdate message: type 0, padding, the rectangle count, then the rectangles -/
def wireUpdate (rects : List (Rct × Body)) : Bytes :=
  [0, 0] ++ enc16 rects.length ++ rects.flatMap fun rb => rectHeader rb.1 rb.2.enc ++ rb.2.wire

/-- the same update terminated by a LastRect marker instead of an exact count (`count` ≥ number sent + 1) -/
def wireUpdateLast (count : Nat) (rects : List (Rct × Body)) : Bytes :=
  [0, 0] ++ enc16 count ++ (rects.flatMap fun rb => rectHeader rb.1 rb.2.enc ++ rb.2.wire) ++
  rectHeader ⟨0, 0, 0, 0⟩ (-224)

def updatedAreas (rects : List (Rct × Body)) : List Rect :=
  (rects.filter fun rb => rb.2.positional).map fun rb => (rb.1.x, rb.1.y, rb.1.w, rb.1.h)

/-- the meaning of an update: begin, every rectangle's paint instructions in order, then the commit with the
    updated areas (none if nothing positional was sent) -/
def paintUpdate (rects : List (Rct × Body)) : List Out :=
  [.begin] ++ rects.flatMap (fun rb => rb.2.paint rb.1) ++
  (if updatedAreas rects = [] then [] else [.commit (updatedAreas rects)])

end Vnc.Spec
