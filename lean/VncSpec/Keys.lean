import VncModel.Types
/-!
# C04 — what key commands mean

* the X11 keysym of every key name vncdotool offers (values from X11 `keysymdef.h`; names are vncdotool's own,
  so the name→key association is part of this file: it is the obvious one; the one entry where the code's
  intent is not obvious, `slash`, is taken from the code (backslash) and flagged);
* a character stands for its code point (RFC 6143 §7.5.4: Latin-1 keysyms equal the character code; the tool
  documents "alphanumeric = the character" for everything else);
* a chord presses left to right and releases in reverse; `keydown`/`keyup` send only presses / releases;
* typing a text is one press+release per character, in order;
* forced caps wraps exactly upper-case letters and the US shifted symbols in a Shift_L press/release.
-/
namespace Vnc.Spec

def XK_BackSpace := 0xff08
def XK_Tab := 0xff09
def XK_Return := 0xff0d
def XK_Pause := 0xff13
def XK_Scroll_Lock := 0xff14
def XK_Sys_Req := 0xff15
def XK_Escape := 0xff1b
def XK_Delete := 0xffff
def XK_Home := 0xff50
def XK_Left := 0xff51
def XK_Up := 0xff52
def XK_Right := 0xff53
def XK_Down := 0xff54
def XK_Page_Up := 0xff55
def XK_Page_Down := 0xff56
def XK_End := 0xff57
def XK_Insert := 0xff63
def XK_Num_Lock := 0xff7f
def XK_KP_Enter := 0xff8d
def XK_KP_0 := 0xffb0
def XK_F1 := 0xffbe
def XK_Shift_L := 0xffe1
def XK_Shift_R := 0xffe2
def XK_Control_L := 0xffe3
def XK_Control_R := 0xffe4
def XK_Caps_Lock := 0xffe5
def XK_Meta_L := 0xffe7
def XK_Meta_R := 0xffe8
def XK_Alt_L := 0xffe9
def XK_Alt_R := 0xffea
def XK_Super_L := 0xffeb
def XK_Super_R := 0xffec
def XK_Hyper_L := 0xffed
def XK_Hyper_R := 0xffee

/-- vncdotool key name ↦ X11 keysym -/
def x11 : List (String × Nat) := [
  ("bsp", XK_BackSpace), ("tab", XK_Tab), ("return", XK_Return), ("enter", XK_Return), ("esc", XK_Escape),
  ("ins", XK_Insert), ("delete", XK_Delete), ("del", XK_Delete), ("home", XK_Home), ("end", XK_End),
  ("pgup", XK_Page_Up), ("pgdn", XK_Page_Down), ("left", XK_Left), ("up", XK_Up), ("right", XK_Right),
  ("down", XK_Down),
  ("slash", 0x5c),      -- NOT independently specified: the code maps `slash` to backslash
  ("bslash", 0x5c), ("fslash", 0x2f), ("spacebar", 0x20), ("space", 0x20), ("sb", 0x20),
  ("f1", XK_F1), ("f2", XK_F1 + 1), ("f3", XK_F1 + 2), ("f4", XK_F1 + 3), ("f5", XK_F1 + 4), ("f6", XK_F1 + 5),
  ("f7", XK_F1 + 6), ("f8", XK_F1 + 7), ("f9", XK_F1 + 8), ("f10", XK_F1 + 9), ("f11", XK_F1 + 10),
  ("f12", XK_F1 + 11), ("f13", XK_F1 + 12), ("f14", XK_F1 + 13), ("f15", XK_F1 + 14), ("f16", XK_F1 + 15),
  ("f17", XK_F1 + 16), ("f18", XK_F1 + 17), ("f19", XK_F1 + 18), ("f20", XK_F1 + 19),
  ("lshift", XK_Shift_L), ("shift", XK_Shift_L), ("rshift", XK_Shift_R),
  ("lctrl", XK_Control_L), ("ctrl", XK_Control_L), ("rctrl", XK_Control_R),
  ("lmeta", XK_Meta_L), ("meta", XK_Meta_L), ("rmeta", XK_Meta_R),
  ("lalt", XK_Alt_L), ("alt", XK_Alt_L), ("ralt", XK_Alt_R),
  ("scrlk", XK_Scroll_Lock), ("sysrq", XK_Sys_Req), ("numlk", XK_Num_Lock), ("caplk", XK_Caps_Lock),
  ("pause", XK_Pause),
  ("lsuper", XK_Super_L), ("super", XK_Super_L), ("rsuper", XK_Super_R),
  ("lhyper", XK_Hyper_L), ("hyper", XK_Hyper_L), ("rhyper", XK_Hyper_R),
  ("kp0", XK_KP_0), ("kp1", XK_KP_0 + 1), ("kp2", XK_KP_0 + 2), ("kp3", XK_KP_0 + 3), ("kp4", XK_KP_0 + 4),
  ("kp5", XK_KP_0 + 5), ("kp6", XK_KP_0 + 6), ("kp7", XK_KP_0 + 7), ("kp8", XK_KP_0 + 8), ("kp9", XK_KP_0 + 9),
  ("kpenter", XK_KP_Enter)]

/-- the US shifted symbols -/
def shiftedUS : List Char := "~!@#$%^&*()_+{}|:\"<>?".toList

/-- one element of a chord: a key name or a single character -/
inductive KeyElem
  | name (n : String)
  | char (c : Char)
deriving DecidableEq, Repr

def KeyElem.keysym : KeyElem → Option Nat
  | .name n => (x11.find? (·.1 == n)).map (·.2)
  | .char c => some c.toNat

def KeyElem.text : KeyElem → List Char
  | .name n => n.toList
  | .char c => [c]

/-- (keysym, down) events of pressing a chord -/
def pressEvents (ks : List Nat) : List (Nat × Bool) := ks.map (·, true) ++ ks.reverse.map (·, false)
def downEvents (ks : List Nat) : List (Nat × Bool) := ks.map (·, true)
def upEvents (ks : List Nat) : List (Nat × Bool) := ks.map (·, false)

/-- typing a text: press+release per character, in order -/
def typeEvents (text : List Char) : List (Nat × Bool) :=
  text.flatMap fun c => [(c.toNat, true), (c.toNat, false)]

/-- forced caps: an upper-case letter or shifted symbol is wrapped in Shift_L -/
def capsKeys (isUpper : Bool) (c : Char) : List Nat :=
  if isUpper || shiftedUS.contains c then [XK_Shift_L, c.toNat] else [c.toNat]

/-- RFC 6143 §7.5.4 KeyEvent: 8 bytes -/
def keyEventBytes (e : Nat × Bool) : Bytes := [4, if e.2 then 1 else 0, 0, 0] ++ enc32 e.1

end Vnc.Spec
