import VncSpec.Encodings
/-!
# C02 — Hextile (RFC 6143 §7.7.4)

The rectangle is split into 16×16 tiles, left to right, top to bottom; the right-most and bottom-most tiles are
smaller when the size is not a multiple of 16.  Tiles are given as *rows of tiles* so that neither the
specification nor the proofs need division: row `r`, column `c` covers `(x + 16c, y + 16r)` with size
`min 16 (remaining)`.  Background and foreground colours persist from tile to tile.
-/
namespace Vnc.Spec
open Vnc

/-- a sub-rectangle inside a tile: position 0..15, size 1..16, own colour when the tile is "coloured" -/
structure HexSub where
  col : Bytes
  x : Nat
  y : Nat
  w : Nat
  h : Nat

inductive HexTile
  /-- raw pixels, `tw*th` of them -/
  | raw (px : Bytes)
  /-- background (optionally re-specified), foreground (optionally re-specified), no sub-rectangles -/
  | plain (bg fg : Option Bytes)
  /-- background / foreground as above, then sub-rectangles, each with its own colour iff `coloured` -/
  | subs (bg fg : Option Bytes) (coloured : Bool) (rects : List HexSub)

def HexSub.wire (coloured : Bool) (s : HexSub) : Bytes :=
  (if coloured then s.col else []) ++ [byteOf (s.x * 16 + s.y), byteOf ((s.w - 1) * 16 + (s.h - 1))]

def flagsOf (bg fg : Option Bytes) (any coloured : Bool) : Nat :=
  (if bg.isSome then 2 else 0) + (if fg.isSome then 4 else 0) + (if any then 8 else 0) + (if coloured then 16 else 0)

def HexTile.wire : HexTile → Bytes
  | .raw px => [1] ++ px
  | .plain bg fg => [byteOf (flagsOf bg fg false false)] ++ bg.getD [] ++ fg.getD []
  | .subs bg fg coloured rects =>
    [byteOf (flagsOf bg fg true coloured)] ++ bg.getD [] ++ fg.getD [] ++ [byteOf rects.length] ++
      rects.flatMap (HexSub.wire coloured)

/-- the colours carried from tile to tile -/
structure HexCarry where
  bg : Option Bytes := none
  fg : Option Bytes := none

/-- the paint instructions of one tile at `(tx, ty)` of size `tw×th`, and the colours carried on -/
def HexTile.paint (tx ty tw th : Nat) (k : HexCarry) : HexTile → List Out × HexCarry
  | .raw px => ([.update tx ty tw th px], k)
  | .plain bg fg =>
    let bg' := bg.orElse fun _ => k.bg
    let fg' := fg.orElse fun _ => k.fg
    ([.fill tx ty tw th bg'], ⟨bg', fg'⟩)
  | .subs bg fg coloured rects =>
    let bg' := bg.orElse fun _ => k.bg
    let fg' := fg.orElse fun _ => k.fg
    (.fill tx ty tw th bg' :: rects.map fun s =>
        .fill ((tx + s.x : Nat) : Int) ((ty + s.y : Nat) : Int) s.w s.h (if coloured then some s.col else fg'),
     -- after a coloured tile the foreground is whatever the last sub-rectangle used (the RFC leaves it undefined;
     -- a well-formed encoder re-specifies it before using it)
     ⟨bg', if coloured then (rects.getLast?.map (·.col)).orElse (fun _ => fg') else fg'⟩)

/-- well-formed tile of size `tw×th`, given the colours carried in: lengths, bounds, and every colour it uses is defined -/
def HexTile.WF (bypp tw th : Nat) (k : HexCarry) : HexTile → Prop
  | .raw px => px.length = tw * th * bypp
  | .plain bg fg => (∀ b, bg = some b → b.length = bypp) ∧ (∀ f, fg = some f → f.length = bypp) ∧
      (bg.isSome ∨ k.bg.isSome)
  | .subs bg fg coloured rects => (∀ b, bg = some b → b.length = bypp) ∧ (∀ f, fg = some f → f.length = bypp) ∧
      (bg.isSome ∨ k.bg.isSome) ∧ rects ≠ [] ∧ rects.length < 256 ∧
      (coloured = false → fg.isSome ∨ k.fg.isSome) ∧
      ∀ s ∈ rects, s.x < 16 ∧ s.y < 16 ∧ 1 ≤ s.w ∧ s.w ≤ 16 ∧ 1 ≤ s.h ∧ s.h ≤ 16 ∧ (coloured = true → s.col.length = bypp)

/-- one row of tiles: column index `c`, remaining width handled by `min` -/
def rowWire : List HexTile → Bytes
  | [] => []
  | t :: ts => t.wire ++ rowWire ts

def rowPaint (x w ty th : Nat) : Nat → HexCarry → List HexTile → List Out × HexCarry
  | _, k, [] => ([], k)
  | c, k, t :: ts =>
    let r := t.paint (x + 16 * c) ty (min 16 (w - 16 * c)) th k
    let r' := rowPaint x w ty th (c + 1) r.2 ts
    (r.1 ++ r'.1, r'.2)

def rowWF (bypp w th : Nat) : Nat → HexCarry → List HexTile → Prop
  | _, _, [] => True
  | c, k, t :: ts =>
    t.WF bypp (min 16 (w - 16 * c)) th k ∧
    rowWF bypp w th (c + 1) (t.paint 0 0 (min 16 (w - 16 * c)) th k).2 ts

def rowsWire : List (List HexTile) → Bytes
  | [] => []
  | r :: rs => rowWire r ++ rowsWire rs

def rowsPaint (x y w h : Nat) : Nat → HexCarry → List (List HexTile) → List Out × HexCarry
  | _, k, [] => ([], k)
  | r, k, row :: rows =>
    let p := rowPaint x w (y + 16 * r) (min 16 (h - 16 * r)) 0 k row
    let p' := rowsPaint x y w h (r + 1) p.2 rows
    (p.1 ++ p'.1, p'.2)

def rowsWF (bypp w h : Nat) : Nat → HexCarry → List (List HexTile) → Prop
  | _, _, [] => True
  | r, k, row :: rows =>
    rowWF bypp w (min 16 (h - 16 * r)) 0 k row ∧
    rowsWF bypp w h (r + 1) (rowPaint 0 w 0 (min 16 (h - 16 * r)) 0 k row).2 rows

/-- the tiling of a `w×h` rectangle: `⌈h/16⌉` rows of `⌈w/16⌉` tiles -/
def Tiling (w h : Nat) (rows : List (List HexTile)) : Prop :=
  0 < w ∧ 0 < h ∧ 16 * (rows.length - 1) < h ∧ h ≤ 16 * rows.length ∧
  ∀ row ∈ rows, 16 * (row.length - 1) < w ∧ w ≤ 16 * row.length

end Vnc.Spec
