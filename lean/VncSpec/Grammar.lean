import VncModel.Script
/-!
# C10 — the vncdo command grammar

One rule per documented command and alias with its arity and argument types (from the `--help` text of
command.py and docs), plus: a word that is not a command word and is an existing file stands for its
shell-style tokenised contents.  A word that is neither, or a capture file whose extension is not a supported
image format, has no parse.  `int` arguments are what Python's `int` accepts (`pyInt`), float arguments what
`float` accepts (`fs.isFloat`).
-/
namespace Vnc

def commandWords : List String :=
  ["key", "kdown", "keydown", "kup", "keyup", "move", "mousemove", "click", "mdown", "mousedown", "mup", "mouseup",
   "type", "typefile", "pastefile", "capture", "expect", "rcapture", "rexpect", "pause", "sleep", "drag"]

def isCommandWord (x : Word) : Bool := commandWords.any fun c => c.toList == x

/-- with a `--delay`, a pause separates a command from whatever follows it -/
def sep (delay : Bool) (rest : List Word) : List Cmd := if delay ∧ rest ≠ [] then [Cmd.pauseDelay] else []

inductive Parses (fs : FS) (delay : Bool) : List Word → List Cmd → Prop
  | done : Parses fs delay [] []
  | key (k rest cs) : Parses fs delay rest cs → Parses fs delay (w "key" :: k :: rest) (.keyPress k :: sep delay rest ++ cs)
  | keydown (c k rest cs) : (c = w "kdown" ∨ c = w "keydown") → Parses fs delay rest cs →
      Parses fs delay (c :: k :: rest) (.keyDown k :: sep delay rest ++ cs)
  | keyup (c k rest cs) : (c = w "kup" ∨ c = w "keyup") → Parses fs delay rest cs →
      Parses fs delay (c :: k :: rest) (.keyUp k :: sep delay rest ++ cs)
  | move (c xs ys x y rest cs) : (c = w "move" ∨ c = w "mousemove") → pyInt xs = some x → pyInt ys = some y →
      Parses fs delay rest cs → Parses fs delay (c :: xs :: ys :: rest) (.mouseMove x y :: sep delay rest ++ cs)
  | click (bs b rest cs) : pyInt bs = some b → Parses fs delay rest cs →
      Parses fs delay (w "click" :: bs :: rest) (.mousePress b :: sep delay rest ++ cs)
  | mousedown (c bs b rest cs) : (c = w "mdown" ∨ c = w "mousedown") → pyInt bs = some b → Parses fs delay rest cs →
      Parses fs delay (c :: bs :: rest) (.mouseDown b :: sep delay rest ++ cs)
  | mouseup (c bs b rest cs) : (c = w "mup" ∨ c = w "mouseup") → pyInt bs = some b → Parses fs delay rest cs →
      Parses fs delay (c :: bs :: rest) (.mouseUp b :: sep delay rest ++ cs)
  | type (t rest cs) : Parses fs delay rest cs →
      Parses fs delay (w "type" :: t :: rest)
        (t.flatMap (fun ch => Cmd.keyPress [ch] :: (if delay then [Cmd.pauseDelay] else [])) ++ sep delay rest ++ cs)
  | typefile (f content rest cs) : fs.read f = some content → Parses fs delay rest cs →
      Parses fs delay (w "typefile" :: f :: rest) (typefileCmds delay content ++ sep delay rest ++ cs)
  | pastefile (f content rest cs) : fs.read f = some content → Parses fs delay rest cs →
      Parses fs delay (w "pastefile" :: f :: rest) (.paste (crlf content) :: sep delay rest ++ cs)
  | capture (f rest cs) : supportedFormat (extOf f) = true → Parses fs delay rest cs →
      Parses fs delay (w "capture" :: f :: rest) (.captureScreen f :: sep delay rest ++ cs)
  | expect (f r rest cs) : fs.isFloat r = true → Parses fs delay rest cs →
      Parses fs delay (w "expect" :: f :: r :: rest) (.expectScreen f r :: sep delay rest ++ cs)
  | rcapture (f xs ys ws hs x y wd h rest cs) : pyInt xs = some x → pyInt ys = some y → pyInt ws = some wd →
      pyInt hs = some h → supportedFormat (extOf f) = true → Parses fs delay rest cs →
      Parses fs delay (w "rcapture" :: f :: xs :: ys :: ws :: hs :: rest) (.captureRegion f x y wd h :: sep delay rest ++ cs)
  | rexpect (f xs ys r x y rest cs) : pyInt xs = some x → pyInt ys = some y → fs.isFloat r = true →
      Parses fs delay rest cs →
      Parses fs delay (w "rexpect" :: f :: xs :: ys :: r :: rest) (.expectRegion f x y r :: sep delay rest ++ cs)
  | pause (c d rest cs) : (c = w "pause" ∨ c = w "sleep") → fs.isFloat d = true → Parses fs delay rest cs →
      Parses fs delay (c :: d :: rest) (.pauseArg d :: sep delay rest ++ cs)
  | drag (xs ys x y rest cs) : pyInt xs = some x → pyInt ys = some y → Parses fs delay rest cs →
      Parses fs delay (w "drag" :: xs :: ys :: rest) (.mouseDrag x y :: sep delay rest ++ cs)
  /-- naming a script file is writing its tokenised contents in its place -/
  | file (f rest cs) : isCommandWord f = false → fs.isFile f = true → Parses fs delay (fs.tokens f ++ rest) cs →
      Parses fs delay (f :: rest) (sep delay (fs.tokens f ++ rest) ++ cs)

end Vnc
