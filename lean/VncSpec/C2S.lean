import VncModel.Types
/-!
# RFC 6143 §7.5 — client to server messages, as a server's parser sees them

An independent recursive-descent parser of the client byte stream, written from the RFC's message layouts:
SetPixelFormat 20 bytes, SetEncodings 4+4n, FramebufferUpdateRequest 10, KeyEvent 8, PointerEvent 6,
ClientCutText 8+n.  It does not mention how the client produces the bytes.
-/
namespace Vnc

inductive C2SMsg
  | setPixelFormat (pf : Bytes)                       -- the 16-byte PIXEL_FORMAT
  | setEncodings (encs : List Int)
  | updateRequest (inc : Nat) (x y w h : Nat)
  | keyEvent (down : Nat) (key : Nat)
  | pointerEvent (mask x y : Nat)
  | cutText (text : Bytes)
deriving DecidableEq, Repr

/-- read `n` big-endian s32 values -/
def readS32s : Nat → Bytes → Option (List Int × Bytes)
  | 0, bs => some ([], bs)
  | n+1, a :: b :: c :: d :: rest => do
    let (es, r) ← readS32s n rest
    pure (s32 (be32 a b c d) :: es, r)
  | _, _ => none

/-- one message from the front of the stream -/
def parseOne (bs : Bytes) : Option (C2SMsg × Bytes) :=
  match bs with
  | 0 :: _ :: _ :: _ :: rest =>
    if rest.length ≥ 16 then some (.setPixelFormat (rest.take 16), rest.drop 16) else none
  | 2 :: _ :: n1 :: n2 :: rest => do
    let (es, r) ← readS32s (be16 n1 n2) rest
    pure (.setEncodings es, r)
  | 3 :: inc :: x1 :: x2 :: y1 :: y2 :: w1 :: w2 :: h1 :: h2 :: rest =>
    some (.updateRequest inc.toNat (be16 x1 x2) (be16 y1 y2) (be16 w1 w2) (be16 h1 h2), rest)
  | 4 :: down :: _ :: _ :: k1 :: k2 :: k3 :: k4 :: rest =>
    some (.keyEvent down.toNat (be32 k1 k2 k3 k4), rest)
  | 5 :: mask :: x1 :: x2 :: y1 :: y2 :: rest =>
    some (.pointerEvent mask.toNat (be16 x1 x2) (be16 y1 y2), rest)
  | 6 :: _ :: _ :: _ :: l1 :: l2 :: l3 :: l4 :: rest =>
    let n := be32 l1 l2 l3 l4
    if rest.length ≥ n then some (.cutText (rest.take n), rest.drop n) else none
  | _ => none

/-- the whole stream; `none` if the server's parser loses framing or the stream ends inside a message -/
def parseC2S : Nat → Bytes → Option (List C2SMsg)
  | _, [] => some []
  | 0, _ => none
  | fuel+1, bs => do
    let (m, rest) ← parseOne bs
    let ms ← parseC2S fuel rest
    pure (m :: ms)

/-- the stream parser with enough fuel for any stream (every message is at least 4 bytes) -/
def parseStream (bs : Bytes) : Option (List C2SMsg) := parseC2S (bs.length + 1) bs

/-- RFC 6143 §7.5 byte layout of one message (an encoder for the same grammar, used to state round trips) -/
def encodeC2S : C2SMsg → Bytes
  | .setPixelFormat pf => [0, 0, 0, 0] ++ pf
  | .setEncodings es => [2, 0] ++ enc16 es.length ++ es.flatMap encS32
  | .updateRequest inc x y w h => [3, byteOf inc] ++ enc16 x ++ enc16 y ++ enc16 w ++ enc16 h
  | .keyEvent down key => [4, byteOf down, 0, 0] ++ enc32 key
  | .pointerEvent mask x y => [5, byteOf mask] ++ enc16 x ++ enc16 y
  | .cutText t => [6, 0, 0, 0] ++ enc32 t.length ++ t

/-- field ranges of a well-formed message -/
def C2SMsg.WF : C2SMsg → Prop
  | .setPixelFormat pf => pf.length = 16
  | .setEncodings es => es.length < 65536 ∧ ∀ e ∈ es, -2147483648 ≤ e ∧ e < 2147483648
  | .updateRequest inc x y w h => inc < 256 ∧ x < 65536 ∧ y < 65536 ∧ w < 65536 ∧ h < 65536
  | .keyEvent down key => down < 256 ∧ key < 4294967296
  | .pointerEvent mask x y => mask < 256 ∧ x < 65536 ∧ y < 65536
  | .cutText t => t.length < 4294967296

end Vnc
