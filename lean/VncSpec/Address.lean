import VncModel.Address
/-!
# C20 — the documented address grammar  `ADDRESS[:DISPLAY|::PORT]`

Written from the option help (`connect to VNC server at ADDRESS[:DISPLAY|::PORT]`) and the property:
`host` is port 5900, `host:N` is port 5900+N, `host::P` is port P, an empty host is 127.0.0.1,
a bracketed host is an IPv6 literal.  Numbers are what Python's `int` accepts (`pyInt`).
-/
namespace Vnc

/-- the part after the host -/
inductive AddrSuffix : List Char → Int → Prop
  | default : AddrSuffix [] 5900
  | display (n : List Char) (N : Int) : ':' ∉ n → pyInt n = some N → AddrSuffix (':' :: n) (5900 + N)
  | port (p : List Char) (P : Int) : ':' ∉ p → pyInt p = some P → AddrSuffix (':' :: ':' :: p) P

def hostOf (h : List Char) : List Char := if h = [] then defaultHost else h

inductive AddrGrammar (env : AddrEnv) : List Char → AddrResult → Prop
  /-- host name / IPv4 address / socket path / nothing: no colon inside, does not open a bracket -/
  | plain (h suf : List Char) (p : Int) :
      h.head? ≠ some '[' → ':' ∉ h → (h = [] → suf.head? ≠ some '[') → AddrSuffix suf p →
      AddrGrammar env (h ++ suf) (famOf env (hostOf h), hostOf h, p)
  /-- bracketed IPv6 literal: the host is exactly what is between the brackets -/
  | v6 (a suf : List Char) (p : Int) :
      ']' ∉ a → env.isV6 a = true → AddrSuffix suf p →
      AddrGrammar env ('[' :: a ++ ']' :: suf) (.inet6, a, p)

end Vnc
