import VncSpec.Encodings
import VncSpec.Hextile
import VncSpec.Zrle
/-!
# A whole FramebufferUpdate in which every rectangle may use any supported encoding

`Body` (Encodings.lean) covers Raw, CopyRect, RRE, CoRRE and the pseudo-encodings; Hextile and ZRLE have their own tile
level specifications.  `AnyBody` puts them side by side so that C02 can be stated once, for a complete message with an
arbitrary mix of encodings (RFC 6143 §7.6.1: "number-of-rectangles", each with its own encoding-type).
-/
namespace Vnc.Spec
open Vnc

inductive AnyBody
  | plain (b : Body)
  /-- Hextile: the tiles, row by row -/
  | hextile (rows : List (List HexTile))
  /-- ZRLE: the tiles, row by row, and the compressed bytes on the wire (any zlib stream that inflates to the tile data) -/
  | zrle (rows : List (List ZTile)) (comp : Bytes)

def AnyBody.enc : AnyBody → Int
  | .plain b => b.enc
  | .hextile _ => 5
  | .zrle .. => 16

/-- the bytes after the rectangle header -/
def AnyBody.wire : AnyBody → Bytes
  | .plain b => b.wire
  | .hextile rows => rowsWire rows
  | .zrle _ comp => enc32 comp.length ++ comp

/-- the CPIXEL size of ZRLE for a pixel format -/
def cpixelSize (pf : PF) : Nat := if pf.bpp == 32 && decide (pf.depth ≤ 24) then 3 else pf.bypp

def AnyBody.WF (pf : PF) (r : Rct) : AnyBody → Prop
  | .plain b => b.WF pf.bypp r
  | .hextile rows => Tiling r.w r.h rows ∧ rowsWF pf.bypp r.w r.h 0 {} rows
  | .zrle rows comp => ZTiling r.w r.h rows ∧ zRowsWF (cpixelSize pf) r.w r.h 0 rows ∧ comp.length < 4294967296

/-- the meaning of the rectangle: paint instructions in order -/
def AnyBody.paint (pf : PF) (r : Rct) : AnyBody → List Out
  | .plain b => b.paint r
  | .hextile rows => (rowsPaint r.x r.y r.w r.h 0 {} rows).1
  | .zrle rows _ => zRowsPaint (pf.bpp == 32 && decide (pf.depth ≤ 24)) r.x r.y r.w r.h 0 rows

def AnyBody.positional : AnyBody → Bool
  | .plain b => b.positional
  | _ => true

/-- what zlib has to inflate, in order, for the ZRLE rectangles of an update (the zlib stream is one per connection) -/
def inflates : List (Rct × AnyBody) → List (Option Bytes)
  | [] => []
  | (r, .zrle rows _) :: rest => some (zRowsWire r.w r.h 0 rows) :: inflates rest
  | _ :: rest => inflates rest

def wireUpdateAny (rects : List (Rct × AnyBody)) : Bytes :=
  [0, 0] ++ enc16 rects.length ++ rects.flatMap fun rb => rectHeader rb.1 rb.2.enc ++ rb.2.wire

def updatedAreasAny (rects : List (Rct × AnyBody)) : List Rect :=
  (rects.filter fun rb => rb.2.positional).map fun rb => (rb.1.x, rb.1.y, rb.1.w, rb.1.h)

def paintUpdateAny (pf : PF) (rects : List (Rct × AnyBody)) : List Out :=
  [.begin] ++ rects.flatMap (fun rb => rb.2.paint pf rb.1) ++
  (if updatedAreasAny rects = [] then [] else [.commit (updatedAreasAny rects)])

end Vnc.Spec
