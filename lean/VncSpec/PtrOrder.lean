/-!
# C05 - consistency of the pointer events on the wire, as a checker over a list of (x, y, button mask)

Stated here (not in the proof file) because the driver evaluates it on event lists observed on the implementation
(`ptrcons` op); `VncProofs/C05Sys.lean` proves it of every run of the model.
-/
namespace Vnc

/-- `q` may follow `p` -/
def ptrFollows (p q : Nat × Nat × Nat) : Bool :=
  (q.2.2 == p.2.2) ||
  (q.1 == p.1 && q.2.1 == p.2.1 && (List.range 8).any fun b => q.2.2 == p.2.2 ^^^ (1 <<< b))

def consistentFrom : Nat × Nat × Nat → List (Nat × Nat × Nat) → Bool
  | _, [] => true
  | p, q :: r => ptrFollows p q && consistentFrom q r

end Vnc
