import VncModel.Basic
namespace Vnc.Drv

def strOfHex (h : String) : Option String := do
  let bs ← bytesOfHex h
  String.fromUTF8? (ByteArray.mk bs.toArray)

def hexOfStr (s : String) : String := showHex s.toUTF8.toList

def parseNat? (s : String) : Option Nat := s.toNat?
def parseInt? (s : String) : Option Int := s.toInt?
def parseBool? (s : String) : Option Bool :=
  if s = "1" then some true else if s = "0" then some false else none

end Vnc.Drv
