/-!
# `api.ThreadedVNCClientProxy` as a labelled transition system  (api.py:48-122)

Two threads per process: the application thread(s) and the reactor thread.  Every API client has its own
Deferred chain (`factory.deferred`), its own result queue (`self.queue`) and is driven by one application thread
which blocks in `queue.get` until its call has produced a result.  All clients share the reactor's
`callFromThread` inbox (FIFO).

Atomic steps (labels): the application issues a call (`callFromThread(...)`, then blocks); the reactor takes the
next inbox item (`deferred.addCallbacks(threaded_call, errback_not_connected)`, which runs it at once if the chain
is idle); a running operation finishes (`result_callback`: put the result on the queue, the chain value becomes the
protocol again); the connection is established / fails; the blocked application thread gets its result.
Timed-out calls are excluded (as documented).  Scheduling is arbitrary: every interleaving of the enabled steps.
-/
namespace Vnc.Api

inductive Outcome
  | ok (v : Nat)
  | err (e : Nat)
deriving DecidableEq, Repr

inductive Chain
  | pending                 -- factory.deferred has not fired yet
  | protocol                -- fired, current value is the connected client
  | failure (e : Nat)       -- connection failed: current value is that Failure
deriving DecidableEq, Repr

structure Client where
  chain : Chain := .pending
  queued : List Nat := []          -- calls whose callbacks are registered but could not run yet
  running : Option Nat := none     -- the operation in progress (chain paused on its Deferred)
  resultQ : List (Nat × Outcome) := []   -- queue.Queue (tagged with the call it came from, for the statements only)
  waiting : Option Nat := none     -- the call the application thread is blocked on
  nextCall : Nat := 0
  started : List Nat := []         -- history
  finished : List Nat := []
  returned : List (Nat × Outcome) := []
deriving Repr

structure Sys where
  clients : Nat → Client := fun _ => {}
  inbox : List (Nat × Nat) := []          -- reactor.callFromThread FIFO: (client, call)

inductive Label
  | appCall (c : Nat)
  | reactorTake
  | opFinish (c : Nat)
  | connectOk (c : Nat)
  | connectFail (c : Nat) (e : Nat)
  | appGet (c : Nat)
deriving DecidableEq, Repr

/-- run the callbacks registered for call `k` on a chain that can run: start the operation on a connected client,
    or (`errback_not_connected`) report the connection failure -/
def runCall (cl : Client) (k : Nat) : Client :=
  match cl.chain with
  | .protocol => { cl with running := some k, started := cl.started ++ [k] }
  | .failure e => { cl with resultQ := cl.resultQ ++ [(k, .err e)] }
  | .pending => { cl with queued := cl.queued ++ [k] }

/-- run queued callbacks in order until one starts an operation (which pauses the chain) -/
def drainQueued : Nat → Client → Client
  | 0, cl => cl
  | fuel+1, cl =>
    match cl.running, cl.queued with
    | none, k :: rest => drainQueued fuel (runCall { cl with queued := rest } k)
    | _, _ => cl

def setClient (s : Sys) (c : Nat) (cl : Client) : Sys :=
  { s with clients := fun i => if i = c then cl else s.clients i }

/-- `outcome c k`: what operation `k` of client `c` produces when it runs on the connected client -/
def step (outcome : Nat → Nat → Outcome) (s : Sys) : Label → Option Sys
  | .appCall c =>
    let cl := s.clients c
    match cl.waiting with
    | some _ => none                                 -- the application thread is blocked in queue.get
    | none =>
      some { setClient s c { cl with waiting := some cl.nextCall, nextCall := cl.nextCall + 1 } with
             inbox := s.inbox ++ [(c, cl.nextCall)] }
  | .reactorTake =>
    match s.inbox with
    | [] => none
    | (c, k) :: rest =>
      let cl := s.clients c
      let cl' :=
        if cl.chain = .pending ∨ cl.running.isSome ∨ cl.queued ≠ [] then { cl with queued := cl.queued ++ [k] }
        else runCall cl k
      some { setClient s c cl' with inbox := rest }
  | .opFinish c =>
    let cl := s.clients c
    match cl.running with
    | none => none
    | some k =>
      -- result_callback: queue.put(result); return protocol
      let cl1 := { cl with running := none, finished := cl.finished ++ [k], resultQ := cl.resultQ ++ [(k, outcome c k)],
                           chain := .protocol }
      some (setClient s c (drainQueued (cl1.queued.length + 1) cl1))
  | .connectOk c =>
    let cl := s.clients c
    if cl.chain = .pending then
      let cl1 := { cl with chain := .protocol }
      some (setClient s c (drainQueued (cl1.queued.length + 1) cl1))
    else none
  | .connectFail c e =>
    let cl := s.clients c
    if cl.chain = .pending then
      let cl1 := { cl with chain := .failure e }
      some (setClient s c (drainQueued (cl1.queued.length + 1) cl1))
    else none
  | .appGet c =>
    let cl := s.clients c
    match cl.waiting, cl.resultQ with
    | some k, (_, o) :: rest =>
      -- the application thread returns whatever is at the head of its queue
      some (setClient s c { cl with waiting := none, resultQ := rest, returned := cl.returned ++ [(k, o)] })
    | _, _ => none

/-- a run: a sequence of labels, each enabled -/
def run (outcome : Nat → Nat → Outcome) (s : Sys) : List Label → Option Sys
  | [] => some s
  | l :: ls => (step outcome s l).bind fun s' => run outcome s' ls

end Vnc.Api
