import VncModel.Expect
import VncModel.Wire
/-!
# `RFBClient` as an instance of the buffering machine  (rfb.py:488-1245)

One constructor of `Phase` per `expect(handler, n, args…)` shape in rfb.py, carrying the handler's arguments.
`need` is the `n`, `step` is the handler.  Outputs are the bytes written, `close` (transport.loseConnection),
`raise` (an exception escaping the handler) and the application callbacks with their arguments.

Differences from the Python text, all observationally neutral and stated here:
* `_handleInitial` looks at whatever prefix of the 12 header bytes has arrived and closes as soon as a visible byte
  is inconsistent; the model reads the header one byte at a time, which closes at exactly the same byte.
  (After such a close the Python handler would close again on every later chunk; the transport delivers none.)
* a Diffie-Hellman key length of 0 would be two zero-length expectations in a row followed by `ValueError`
  (`pow(g, s, 0)`); the model raises in the `dhAuth` step directly.
* `zlib` is a parameter: the inflated output of the k-th `decompress` call is the k-th entry of `zq`
  (`none` = `zlib.error`); theorems hold for every queue.
* the VNC-auth response and the ARD reply are parameters of the configuration (their values are property C14).
-/
namespace Vnc

inductive ClientKind | base | lib | cli
deriving DecidableEq, Repr

/-- constant per connection: the client class and the factory options -/
structure Cfg where
  kind : ClientKind
  hasPassword : Bool
  shared : Bool
  encoding : Int
  pseudocursor : Bool
  nocursor : Bool
  pseudodesktop : Bool
  lastRect : Bool
  qemuExt : Bool
  authResponse : Bytes
  ardReply : Bytes

abbrev Rect := Nat × Nat × Nat × Nat

inductive Out
  | write (b : Bytes)
  | close
  | raise (cls : String)
  | authFailed (reason : Bytes)                 -- vncAuthFailed
  | connFailed                                  -- factory.clientConnectionFailed (library client, no password)
  | made                                        -- vncConnectionMade completed (factory.clientConnectionMade for lib/cli)
  | begin                                       -- beginUpdate
  | commit (rects : List Rect)                  -- commitUpdate
  | update (x y w h : Int) (data : Bytes)       -- updateRectangle
  | fill (x y w h : Int) (colour : Option Bytes) -- fillRectangle (None colour: hextile without background)
  | copy (sx sy x y w h : Nat)                  -- copyRectangle
  | cursor (x y w h : Nat) (image mask : Bytes) -- updateCursor
  | desktop (w h : Nat)                         -- updateDesktopSize
  | bell
  | cutText (t : Bytes)                         -- copy_text (Latin-1 bytes)
  | colourMap (first : Nat) (cols : List (Nat × Nat × Nat))
deriving DecidableEq, Repr

/-- persistent attributes of the protocol object -/
structure Core where
  cfg : Cfg
  version : Nat × Nat := (0, 0)
  versionServer : Nat × Nat := (0, 0)
  pf : PF := Tables.DEFAULT_PF
  imageMode : String := Tables.DEFAULT_IMAGE_MODE
  width : Nat := 0
  height : Nat := 0
  rectangles : Nat := 0
  rectPos : List Rect := []
  keyLen : Nat := 0
  generator : Nat := 0
  modulus : Bytes := []
  zq : List (Option Bytes) := []
  qemuNegotiated : Bool := false
  sized : Bool := false            -- `self.width` / `self.height` exist (ServerInit was handled)

inductive Phase
  | banner (seen : Bytes)
  | numSecTypes
  | secTypes (n : Nat)
  | auth33
  | connFailed
  | connMessage (n : Nat)
  | vncAuth
  | dhAuth
  | dhKey
  | dhCert
  | authResult
  | authFailedLen
  | authFailedMsg (n : Nat)
  | serverInit
  | serverName (n : Nat)
  | connection
  | fbUpdate
  | rectangle
  | raw (x y w h : Nat)
  | copyrect (x y w h : Nat)
  | rre (x y w h : Nat)
  | rreSubs (n x y : Nat)
  | corre (x y w h : Nat)
  | correSubs (n x y : Nat)
  | hextile (bg fg : Option Bytes) (x y w h tx ty : Nat)
  | hextileRaw (bg fg : Option Bytes) (x y w h tx ty tw th : Nat)
  | hextileSub (sub : Nat) (numbytes : Nat) (bg fg : Option Bytes) (x y w h tx ty tw th : Nat)
  | hextileColoured (bg fg : Option Bytes) (n x y w h tx ty : Nat)
  | hextileFG (bg fg : Option Bytes) (n x y w h tx ty : Nat)
  | zrle (x y w h : Nat)
  | zrleData (n x y w h : Nat)
  | cursor (x y w h : Nat)
  | colourMap
  | colourMapVals (first n : Nat)
  | cutText
  | cutTextVal (n : Nat)
  | dead                      -- no pending expectation: closed by a handler, or crashed

structure RSt where
  core : Core
  ph : Phase

def lexLt (a b : Nat × Nat) : Bool := a.1 < b.1 || (a.1 == b.1 && a.2 < b.2)
def lexLe (a b : Nat × Nat) : Bool := a.1 < b.1 || (a.1 == b.1 && a.2 ≤ b.2)

/-- `max(v for v in SUPPORTED_SERVER_VERSIONS if v <= version_server)`; `none` = ValueError (empty) -/
def maxSupported (vs : Nat × Nat) : Option (Nat × Nat) :=
  (Tables.SUPPORTED_SERVER_VERSIONS.filter fun v => lexLe v vs).foldl
    (fun acc v => match acc with
      | none => some v
      | some a => if lexLt a v then some v else some a) none

/-- the version the client answers with -/
def selectVersion (vs : Nat × Nat) : Option (Nat × Nat) :=
  (maxSupported vs).map fun v => if lexLt Tables.MAX_CLIENT_VERSION v then Tables.MAX_CLIENT_VERSION else v

def digit3 (n : Nat) : Bytes :=
  [UInt8.ofNat (48 + n / 100 % 10), UInt8.ofNat (48 + n / 10 % 10), UInt8.ofNat (48 + n % 10)]

/-- `b"RFB %03d.%03d\n" % version` (both < 1000) -/
def versionReply (v : Nat × Nat) : Bytes := [82, 70, 66, 32] ++ digit3 v.1 ++ [46] ++ digit3 v.2 ++ [10]

def isDigitB (b : UInt8) : Bool := 48 ≤ b && b ≤ 57

/-- byte `i` of a header is consistent with `RFB 000.000\n` after mapping digits to `0` -/
def headerByteOk (i : Nat) (b : UInt8) : Bool :=
  match Tables.HEADER[i]? with
  | some p => if p == 48 then isDigitB b else b == p
  | none => false

def dec3 (a b c : UInt8) : Nat := (a.toNat - 48) * 100 + (b.toNat - 48) * 10 + (c.toNat - 48)

def go (c : Core) (ph : Phase) (outs : List Out) : RSt × List Out := (⟨c, ph⟩, outs)

/-- `_doClientInitialization` -/
def clientInit (c : Core) (pre : List Out) : RSt × List Out :=
  go c .serverInit (pre ++ [.write [if c.cfg.shared then 1 else 0]])

/-- `_doConnection` -/
def doConnection (c : Core) (pre : List Out) : RSt × List Out :=
  if c.rectangles ≠ 0 then go c .rectangle pre
  else if c.rectPos ≠ [] then go c .connection (pre ++ [.commit c.rectPos])
  else go c .connection pre

/-- `_doNextHextileSubrect` -/
def nextHextile (c : Core) (bg fg : Option Bytes) (x y w h : Nat) (t : Option (Nat × Nat)) (pre : List Out) :
    RSt × List Out :=
  let (tx, ty) := match t with
    | some (tx, ty) => if tx + 16 ≥ x + w then (x, ty + 16) else (tx + 16, ty)
    | none => (x, y)
  if ty ≥ y + h then doConnection c pre
  else go c (.hextile bg fg x y w h tx ty) pre

/-- `vncRequestPassword` of the three client classes -/
def requestPassword (c : Core) : List Out :=
  match c.cfg.kind with
  | .base => if c.cfg.hasPassword then [.write c.cfg.authResponse] else [.close]
  | .lib => if c.cfg.hasPassword then [.write c.cfg.authResponse] else [.close, .connFailed]
  | .cli => [.write c.cfg.authResponse]          -- prompts with getpass when no password was given

/-- `setEncodings` as `transport.write` calls: the header, then one write per encoding
    (the configured encodings are within s32, so `struct.pack` cannot fail here) -/
def setEncodingsOuts (es : List Int) : List Out :=
  (([2, 0] ++ enc16 es.length) :: es.map encS32).map Out.write

/-- `vncConnectionMade`: base class does nothing; the library/CLI client picks the image mode, possibly
    switches the pixel format, and advertises its encodings (client.py:382-419) -/
def connectionMade (c : Core) : Core × List Out :=
  match c.cfg.kind with
  | .base => (c, [.made])
  | _ =>
    let (c1, o1) :=
      match Tables.PF2IM.find? (fun (e : PF × String) => e.1 == c.pf) with
      | some e => ({ c with imageMode := e.2 }, [])
      | none =>
        let pf' := if c.versionServer == (3, 889) then Tables.BGR16 else Tables.RGB32
        let mode := match Tables.PF2IM.find? (fun (e : PF × String) => e.1 == pf') with
          | some e => e.2
          | none => ""
        ({ c with pf := pf', imageMode := mode }, [Out.write (wSetPixelFormat pf')])
    let encs := [c.cfg.encoding]
      ++ (if c.cfg.pseudocursor || c.cfg.nocursor then [Tables.ENC_PSEUDO_CURSOR] else [])
      ++ (if c.cfg.pseudodesktop then [Tables.ENC_PSEUDO_DESKTOP_SIZE] else [])
      ++ (if c.cfg.lastRect then [Tables.ENC_PSEUDO_LAST_RECT] else [])
      ++ (if c.cfg.qemuExt then [Tables.ENC_PSEUDO_QEMU_EXTENDED_KEY_EVENT] else [])
    (c1, o1 ++ setEncodingsOuts encs ++ [Out.made])

/-- split a block into records of `sz` bytes (`while pos < end`; a short tail is passed on as it is) -/
def chunksOf (sz : Nat) : Nat → Bytes → List Bytes
  | 0, _ => []
  | fuel+1, bs => if bs.isEmpty then [] else bs.take sz :: chunksOf sz fuel (bs.drop sz)

/-- RRE sub-rectangles: `unpack(f"!{bypp}sHHHH")` per record -/
def rreFills (bypp topx topy : Nat) (block : Bytes) : List Out :=
  (chunksOf (bypp + 8) block.length block).map fun r =>
    let col := r.take bypp
    let f := r.drop bypp
    .fill (topx + beNat (f.take 2)) (topy + beNat ((f.drop 2).take 2)) (beNat ((f.drop 4).take 2))
          (beNat ((f.drop 6).take 2)) (some col)

def correFills (bypp topx topy : Nat) (block : Bytes) : List Out :=
  (chunksOf (bypp + 4) block.length block).map fun r =>
    let col := r.take bypp
    let f := r.drop bypp
    .fill (topx + (f.getD 0 0).toNat) (topy + (f.getD 1 0).toNat) (f.getD 2 0).toNat (f.getD 3 0).toNat (some col)

/-- hextile sub-rectangles with their own colour: returns the fills and the last colour seen -/
def hexColoured (bypp tx ty : Nat) (block : Bytes) (fg : Option Bytes) : List Out × Option Bytes :=
  (chunksOf (bypp + 2) block.length block).foldl (fun (acc : List Out × Option Bytes) r =>
    let col := r.take bypp
    let xy := (r.getD bypp 0).toNat
    let wh := (r.getD (bypp + 1) 0).toNat
    (acc.1 ++ [Out.fill (tx + xy / 16) (ty + xy % 16) (wh / 16 + 1) (wh % 16 + 1) (some col)], some col)) ([], fg)

def hexFG (tx ty : Nat) (block : Bytes) (fg : Option Bytes) : List Out :=
  (chunksOf 2 block.length block).map fun r =>
    let xy := (r.getD 0 0).toNat
    let wh := (r.getD 1 0).toNat
    .fill (tx + xy / 16) (ty + xy % 16) (wh / 16 + 1) (wh % 16 + 1) fg

/-! ## ZRLE (rfb.py `_handleDecodeZRLEdata`) -/

abbrev ZRes := Except String

/-- `next(it)` -/
def zNext (d : Bytes) : ZRes (UInt8 × Bytes) :=
  match d with
  | [] => .error "stop"
  | b :: r => .ok (b, r)

/-- `cpixel(it)`: `n` bytes from the stream (+ 0xFF when `pad`) -/
def zCpixel (n : Nat) (pad : Bool) (d : Bytes) : ZRes (Bytes × Bytes) :=
  if d.length < n then .error "stop"
  else .ok (d.take n ++ (if pad then [255] else []), d.drop n)

def zPalette (n : Nat) (pad : Bool) : Nat → Bytes → ZRes (List Bytes × Bytes)
  | 0, d => .ok ([], d)
  | k+1, d => do
    let (p, d1) ← zCpixel n pad d
    let (ps, d2) ← zPalette n pad k d1
    pure (p :: ps, d2)

/-- `do_rle`: run length = 1 + sum of the bytes up to and including the first that is not 255 -/
def zRunLen : Nat → Nat → Bytes → ZRes (Nat × Bytes)
  | 0, _, _ => .error "stop"
  | fuel+1, acc, d => do
    let (b, r) ← zNext d
    if b == 255 then zRunLen fuel (acc + 255) r else pure (acc + b.toNat + 1, r)

def repeatBytes (p : Bytes) (n : Nat) : Bytes := (List.replicate n p).flatten

/-- plain RLE: `while num_pixels < pixels_in_tile` -/
def zPlainRle (cp : Nat) (pad : Bool) (pit : Int) : Nat → Nat → Bytes → Bytes → ZRes (Bytes × Bytes)
  | 0, _, _, _ => .error "stop"
  | fuel+1, num, acc, d =>
    if (num : Int) < pit then do
      let (col, d1) ← zCpixel cp pad d
      let (n, d2) ← zRunLen (d1.length + 1) 0 d1
      zPlainRle cp pad pit fuel (num + n) (acc ++ repeatBytes col n) d2
    else if (num : Int) ≠ pit then .error "value" else pure (acc, d)

/-- palette RLE -/
def zPalRle (pal : List Bytes) (pit : Int) : Nat → Nat → Bytes → Bytes → ZRes (Bytes × Bytes)
  | 0, _, _, _ => .error "stop"
  | fuel+1, num, acc, d =>
    if (num : Int) < pit then do
      let (i, d1) ← zNext d
      if i.toNat ≥ 128 then
        match pal[i.toNat - 128]? with
        | none =>
          -- `palette[palette_index]` is evaluated before do_rle reads the run length
          .error "index"
        | some col => do
          let (n, d2) ← zRunLen (d1.length + 1) 0 d1
          zPalRle pal pit fuel (num + n) (acc ++ repeatBytes col n) d2
      else
        match pal[i.toNat]? with
        | none => .error "index"
        | some col => zPalRle pal pit fuel (num + 1) (acc ++ col) d1
    else if (num : Int) ≠ pit then .error "value" else pure (acc, d)

def zRaw (cp : Nat) (pad : Bool) : Nat → Bytes → Bytes → ZRes (Bytes × Bytes)
  | 0, acc, d => .ok (acc, d)
  | k+1, acc, d => do
    let (p, d1) ← zCpixel cp pad d
    zRaw cp pad k (acc ++ p) d1

/-- `_zrle_next_bit/dibit/nibble`: packed palette indices, `bits` per pixel, rows padded to whole bytes.
    The generator yields one index per pixel until `num == pit`; it starts by reading a byte even if `pit ≤ 0`. -/
def zPacked (pal : List Bytes) (bits : Nat) (pit : Int) (tw : Int) :
    Nat → Nat → Bytes → Bytes → ZRes (Bytes × Bytes)
  | 0, _, _, _ => .error "stop"
  | fuel+1, num, acc, d =>
    match d with
    | [] => .error "stop"              -- StopIteration inside the generator (RuntimeError, PEP 479)
    | b :: rest =>
      -- inner `for n in range(0, 8, bits)`
      let rec inner : Nat → Nat → Nat → Bytes → ZRes (Option (Bytes) × Nat × Bytes)
        | 0, num, _, acc => .ok (none, num, acc)
        | k+1, num, n, acc =>
          let idx := (b.toNat >>> (8 - bits - n)) % (2 ^ bits)
          match pal[idx]? with
          | none => .error "index"
          | some col =>
            let acc := acc ++ col
            let num := num + 1
            if (num : Int) == pit then .ok (some acc, num, acc)
            else if tw == 0 then .error "zerodiv"
            else if (num : Int) % tw == 0 then .ok (none, num, acc)
            else inner k num (n + bits) acc
      match inner (8 / bits) num 0 acc with
      | .error e => .error e
      | .ok (some done, _, _) => .ok (done, rest)
      | .ok (none, num', acc') => zPacked pal bits pit tw fuel num' acc' rest

/-- the tile loop `for subencoding in it` -/
def zTiles (cp : Nat) (pad : Bool) (x y w h : Nat) : Nat → Int → Int → Bytes → List Out → List Out × Option String
  | 0, _, _, _, outs => (outs, some "stop")
  | fuel+1, tx, ty, d, outs =>
    match d with
    | [] => (outs, none)
    | sub :: d0 =>
      let tw : Int := if (x : Int) + w - tx < 64 then (x : Int) + w - tx else 64
      let th : Int := if (y : Int) + h - ty < 64 then (y : Int) + h - ty else 64
      let pit : Int := tw * th
      let psize := sub.toNat % 128
      let r : ZRes (List Out × Bytes) :=
        if sub.toNat ≥ 128 then
          if psize == 0 then do
            let (px, d1) ← zPlainRle cp pad pit (d0.length + 2) 0 [] d0
            pure ([Out.update tx ty tw th px], d1)
          else do
            let (pal, d1) ← zPalette cp pad psize d0
            let (px, d2) ← zPalRle pal pit (d1.length + 2) 0 [] d1
            pure ([Out.update tx ty tw th px], d2)
        else if psize == 0 then do
          let (px, d1) ← zRaw cp pad pit.toNat [] d0
          pure ([Out.update tx ty tw th px], d1)
        else if psize == 1 then do
          let (col, d1) ← zCpixel cp pad d0
          pure ([Out.fill tx ty tw th (some col)], d1)
        else if psize > 16 then .error "value"
        else do
          let (pal, d1) ← zPalette cp pad psize d0
          let bits := if psize == 2 then 1 else if psize ≤ 4 then 2 else 4
          let (px, d2) ← zPacked pal bits pit tw (d1.length + 2) 0 [] d1
          pure ([Out.update tx ty tw th px], d2)
      match r with
      | .error e => (outs, some e)
      | .ok (o, d') =>
        let (tx', ty') := if tx + 64 ≥ (x : Int) + w then ((x : Int), ty + 64) else (tx + 64, ty)
        zTiles cp pad x y w h fuel tx' ty' d' (outs ++ o)

/-! ## the machine -/

def need (s : RSt) : Nat :=
  let bypp := s.core.pf.bypp
  match s.ph with
  | .banner _ => 1
  | .numSecTypes => 1
  | .secTypes n => n
  | .auth33 => 4
  | .connFailed => 4
  | .connMessage n => n
  | .vncAuth => 16
  | .dhAuth => 4
  | .dhKey => s.core.keyLen
  | .dhCert => s.core.keyLen
  | .authResult => 4
  | .authFailedLen => 4
  | .authFailedMsg n => n
  | .serverInit => 24
  | .serverName n => n
  | .connection => 1
  | .fbUpdate => 3
  | .rectangle => 12
  | .raw _ _ w h => w * h * bypp
  | .copyrect .. => 4
  | .rre .. => 4 + bypp
  | .rreSubs n _ _ => (8 + bypp) * n
  | .corre .. => 4 + bypp
  | .correSubs n _ _ => (4 + bypp) * n
  | .hextile .. => 1
  | .hextileRaw _ _ _ _ _ _ _ _ tw th => tw * th * bypp
  | .hextileSub _ nb .. => nb
  | .hextileColoured _ _ n .. => (bypp + 2) * n
  | .hextileFG _ _ n .. => 2 * n
  | .zrle .. => 4
  | .zrleData n .. => n
  | .cursor _ _ w h => w * h * bypp + ((w + 7) / 8) * h
  | .colourMap => 5
  | .colourMapVals _ n => 6 * n
  | .cutText => 7
  | .cutTextVal n => n
  | .dead => 0

def halted (s : RSt) : Bool :=
  match s.ph with
  | .dead => true
  | _ => false

def dead (c : Core) (outs : List Out) : RSt × List Out := go c .dead outs

def testFlag (sub flag : Nat) : Bool := (sub / flag) % 2 == 1

def stepCore (s : RSt) (b : Bytes) : RSt × List Out :=
  let c := s.core
  let bypp := c.pf.bypp
  match s.ph with
  | .dead => dead c []
  | .banner seen =>
    let byte := b.getD 0 0
    let i := seen.length
    if !headerByteOk i byte then dead c [.close]
    else if i + 1 < 12 then go c (.banner (seen ++ [byte])) []
    else
      let hd := seen ++ [byte]
      let vs := (dec3 (hd.getD 4 0) (hd.getD 5 0) (hd.getD 6 0), dec3 (hd.getD 8 0) (hd.getD 9 0) (hd.getD 10 0))
      match selectVersion vs with
      | none => dead c [.raise "value"]
      | some v =>
        let c := { c with version := v, versionServer := vs }
        go c (if lexLt v (3, 7) then .auth33 else .numSecTypes) [.write (versionReply v)]
  | .numSecTypes =>
    let n := (b.getD 0 0).toNat
    if n ≠ 0 then go c (.secTypes n) [] else go c .connFailed []
  | .secTypes _ =>
    let valid := b.filter fun t => Tables.SUPPORTED_AUTHS.contains t.toNat
    match valid.foldl (fun (m : Option Nat) t => match m with
        | none => some t.toNat
        | some a => some (max a t.toNat)) none with
    | none => dead c [.close]
    | some sec =>
      let w := [Out.write [UInt8.ofNat sec]]
      if sec == Tables.AUTH_NONE then
        if lexLt c.version (3, 8) then clientInit c w else go c .authResult w
      else if sec == Tables.AUTH_VNC_AUTHENTICATION then go c .vncAuth w
      else if sec == Tables.AUTH_DIFFIE_HELLMAN then go c .dhAuth w
      else dead c w
  | .auth33 =>
    let a := beNat b
    if a == Tables.AUTH_INVALID then go c .connFailed []
    else if a == Tables.AUTH_NONE then clientInit c []
    else if a == Tables.AUTH_VNC_AUTHENTICATION then go c .vncAuth []
    else dead c [.close]
  | .connFailed => go c (.connMessage (beNat b)) []
  | .connMessage _ => dead c [.close]
  | .vncAuth => go c .authResult (requestPassword c)
  | .dhAuth =>
    let g := beNat (b.take 2)
    let kl := beNat (b.drop 2)
    if kl == 0 then dead { c with generator := g, keyLen := 0 } [.raise "value"]
    else go { c with generator := g, keyLen := kl } .dhKey []
  | .dhKey => if c.keyLen == 0 then dead c [.raise "value"] else go { c with modulus := b } .dhCert []
  | .dhCert =>
    if beNat c.modulus == 0 then dead c [.raise "value"]        -- pow(g, s, 0)
    else go c .authResult [.write c.cfg.ardReply]
  | .authResult =>
    let r := beNat b
    if r == 0 then clientInit c []
    else if r == 1 then
      if lexLt c.version (3, 8) then dead c [.authFailed "authentication failed".toUTF8.toList, .close]
      else go c .authFailedLen []
    else if r == 2 then
      if lexLt c.version (3, 8) then dead c [.authFailed "too many tries to log in".toUTF8.toList, .close]
      else go c .authFailedLen []
    else dead c [.close]
  | .authFailedLen => go c (.authFailedMsg (beNat b)) []
  | .authFailedMsg _ => dead c [.authFailed b, .close]
  | .serverInit =>
    match PF.ofBytes ((b.drop 4).take 16) with
    | none => dead c [.raise "struct"]
    | some pf =>
      go { c with width := beNat (b.take 2), height := beNat ((b.drop 2).take 2), pf := pf, sized := true }
        (.serverName (beNat (b.drop 20))) []
  | .serverName _ =>
    let (c', outs) := connectionMade c
    go c' .connection outs
  | .connection =>
    let m := (b.getD 0 0).toNat
    if m == Tables.S2C_FRAMEBUFFER_UPDATE then go c .fbUpdate []
    else if m == Tables.S2C_SET_COLOUR_MAP_ENTRIES then go c .colourMap []
    else if m == Tables.S2C_BELL then go c .connection [.bell]
    else if m == Tables.S2C_SERVER_CUT_TEXT then go c .cutText []
    else dead c [.close]
  | .fbUpdate =>
    doConnection { c with rectangles := beNat (b.drop 1), rectPos := [] } [.begin]
  | .rectangle =>
    let x := beNat (b.take 2)
    let y := beNat ((b.drop 2).take 2)
    let w := beNat ((b.drop 4).take 2)
    let h := beNat ((b.drop 6).take 2)
    let enc := s32 (beNat (b.drop 8))
    let c := if enc == Tables.ENC_PSEUDO_LAST_RECT then { c with rectangles := 0 } else c
    if c.rectangles ≠ 0 then
      let c := { c with rectangles := c.rectangles - 1, rectPos := c.rectPos ++ [(x, y, w, h)] }
      if enc == Tables.ENC_COPY_RECTANGLE then go c (.copyrect x y w h) []
      else if enc == Tables.ENC_RAW then go c (.raw x y w h) []
      else if enc == Tables.ENC_HEXTILE then nextHextile c none none x y w h none []
      else if enc == Tables.ENC_CORRE then go c (.corre x y w h) []
      else if enc == Tables.ENC_RRE then go c (.rre x y w h) []
      else if enc == Tables.ENC_ZRLE then go c (.zrle x y w h) []
      else if enc == Tables.ENC_PSEUDO_CURSOR then go c (.cursor x y w h) []
      else if enc == Tables.ENC_PSEUDO_DESKTOP_SIZE then
        doConnection { c with width := w, height := h } [.desktop w h]
      else if enc == Tables.ENC_PSEUDO_QEMU_EXTENDED_KEY_EVENT then
        doConnection { c with qemuNegotiated := true, rectPos := c.rectPos.dropLast } []
      else dead c [.close]
    else doConnection c []
  | .raw x y w h => doConnection c [.update x y w h b]
  | .copyrect x y w h => doConnection c [.copy (beNat (b.take 2)) (beNat (b.drop 2)) x y w h]
  | .rre x y w h =>
    let n := beNat (b.take 4)
    let f := [Out.fill x y w h (some (b.drop 4))]
    if n ≠ 0 then go c (.rreSubs n x y) f else doConnection c f
  | .rreSubs _ x y => doConnection c (rreFills bypp x y b)
  | .corre x y w h =>
    let n := beNat (b.take 4)
    let f := [Out.fill x y w h (some (b.drop 4))]
    if n ≠ 0 then go c (.correSubs n x y) f else doConnection c f
  | .correSubs _ x y => doConnection c (correFills bypp x y b)
  | .hextile bg fg x y w h tx ty =>
    let sub := (b.getD 0 0).toNat
    let tw := if x + w - tx < 16 then x + w - tx else 16
    let th := if y + h - ty < 16 then y + h - ty else 16
    if testFlag sub Tables.HEX_RAW then go c (.hextileRaw bg fg x y w h tx ty tw th) []
    else
      let nb := (if testFlag sub Tables.HEX_BACKGROUND_SPECIFIED then bypp else 0)
        + (if testFlag sub Tables.HEX_FOREGROUND_SPECIFIED then bypp else 0)
        + (if testFlag sub Tables.HEX_ANY_SUBRECTS then 1 else 0)
      if nb ≠ 0 then go c (.hextileSub sub nb bg fg x y w h tx ty tw th) []
      else nextHextile c bg fg x y w h (some (tx, ty)) [.fill tx ty tw th bg]
  | .hextileRaw bg fg x y w h tx ty tw th =>
    nextHextile c bg fg x y w h (some (tx, ty)) [.update tx ty tw th b]
  | .hextileSub sub _ bg fg x y w h tx ty tw th =>
    let hasBg := testFlag sub Tables.HEX_BACKGROUND_SPECIFIED
    let bg := if hasBg then some (b.take bypp) else bg
    let pos := if hasBg then bypp else 0
    let hasFg := testFlag sub Tables.HEX_FOREGROUND_SPECIFIED
    let fg := if hasFg then some ((b.drop pos).take bypp) else fg
    let pos := if hasFg then pos + bypp else pos
    let n := if testFlag sub Tables.HEX_ANY_SUBRECTS then (b.getD pos 0).toNat else 0
    let f := [Out.fill tx ty tw th bg]
    if n ≠ 0 then
      if testFlag sub Tables.HEX_SUBRECTS_COLORED then go c (.hextileColoured bg fg n x y w h tx ty) f
      else go c (.hextileFG bg fg n x y w h tx ty) f
    else nextHextile c bg fg x y w h (some (tx, ty)) f
  | .hextileColoured bg fg _ x y w h tx ty =>
    let (fills, last) := hexColoured bypp tx ty b fg
    nextHextile c bg last x y w h (some (tx, ty)) fills
  | .hextileFG bg fg _ x y w h tx ty =>
    nextHextile c bg fg x y w h (some (tx, ty)) (hexFG tx ty b fg)
  | .zrle x y w h => go c (.zrleData (beNat b) x y w h) []
  | .zrleData _ x y w h =>
    match c.zq with
    | [] => dead c [.raise "zlib"]            -- (driver protocol error: no oracle entry)
    | none :: zq => dead { c with zq := zq } [.raise "zlib"]
    | some data :: zq =>
      let c := { c with zq := zq }
      let pad := c.pf.bpp == 32 && c.pf.depth ≤ 24
      let cp := if pad then 3 else bypp
      match zTiles cp pad x y w h (data.length + 1) x y data [] with
      | (outs, some e) => dead c (outs ++ [.raise e])
      | (outs, none) => doConnection c outs
  | .cursor x y w h =>
    let split := w * h * bypp
    doConnection c [.cursor x y w h (b.take split) (b.drop split)]
  | .colourMap => go c (.colourMapVals (beNat ((b.drop 1).take 2)) (beNat (b.drop 3))) []
  | .colourMapVals first _ =>
    go c .connection [.colourMap first ((chunksOf 6 b.length b).map fun r =>
      (beNat (r.take 2), beNat ((r.drop 2).take 2), beNat ((r.drop 4).take 2)))]
  | .cutText => go c (.cutTextVal (beNat (b.drop 3))) []
  | .cutTextVal _ => go c .connection [.cutText b]

/-- `fillRectangle(…, None)` - a hextile tile that uses a background/foreground nobody specified - raises
    TypeError in `color * width * height`: the callback is entered, nothing after it happens -/
def cutAtNoneFill : List Out → Option (List Out)
  | [] => none
  | .fill x y w h none :: _ => some [.fill x y w h none, .raise "type"]
  | o :: rest => (cutAtNoneFill rest).map (o :: ·)

/-- one handler invocation -/
def step (s : RSt) (b : Bytes) : RSt × List Out :=
  let r := stepCore s b
  match cutAtNoneFill r.2 with
  | some outs => (⟨r.1.core, .dead⟩, outs)
  | none => r

def rfbMachine : Machine RSt Out := { need := need, step := step, halted := halted }

/-! ## `VMWareClient.dataReceived` (client.py:517-529) -/

/-- the byte-pattern test of the workaround: a 20-byte chunk that looks like a 1x1 raw update of pixel (0,0) -/
def vmMatches (chunk : Bytes) : Bool :=
  chunk.length == 20 && chunk.head? == Tables.VMWARE_PATTERN.head? &&
  (chunk.drop 2).take 14 == (Tables.VMWARE_PATTERN.drop 2).take 14

/-- a matching chunk is dropped and answered with a full refresh request (`framebufferUpdateRequest()` then
    `self._handler()` with no new data); anything else goes to `RFBClient.dataReceived` -/
def vmFeed (st : St RSt) (chunk : Bytes) : St RSt × List Out × Bool :=
  if vmMatches chunk then
    if st.s.core.sized then
      match wUpdateRequest false 0 0 st.s.core.width st.s.core.height with
      | some req =>
        let r := feed rfbMachine st []
        (r.1, Out.write req :: r.2.1, r.2.2)
      | none => (⟨⟨st.s.core, .dead⟩, st.buf⟩, [.raise "struct"], true)
    else (⟨⟨st.s.core, .dead⟩, st.buf⟩, [.raise "attr"], true)       -- no self.width yet
  else feed rfbMachine st chunk

def vmFeedAll (st : St RSt) : List Bytes → St RSt × List Out × Bool
  | [] => (st, [], true)
  | c :: cs =>
    let r := vmFeed st c
    let r' := vmFeedAll r.1 cs
    (r'.1, r.2.1 ++ r'.2.1, r.2.2 && r'.2.2)

def RSt.init (cfg : Cfg) (zq : List (Option Bytes)) : RSt := ⟨{ cfg := cfg, zq := zq }, .banner []⟩

end Vnc
