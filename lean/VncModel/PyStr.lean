import VncModel.Basic
/-! Models of the CPython string primitives the code relies on (trusted base: CPython semantics). -/
namespace Vnc

/-- `s.split(c)` for a one-character separator: always at least one part. -/
def splitOnC (c : Char) : List Char → List (List Char)
  | [] => [[]]
  | x :: xs =>
    if x = c then [] :: splitOnC c xs
    else match splitOnC c xs with
      | [] => [[x]]
      | h :: t => (x :: h) :: t

/-- characters ignored around the number by `int()` (ASCII range; checked against CPython 3.12: 0x1c-0x1f are NOT skipped) -/
def isPySpace (c : Char) : Bool :=
  c = ' ' || c = '\t' || c = '\n' || c = '\x0b' || c = '\x0c' || c = '\r'

def pyStrip (s : List Char) : List Char :=
  ((s.dropWhile isPySpace).reverse.dropWhile isPySpace).reverse

def isAsciiDigit (c : Char) : Bool := '0' ≤ c && c ≤ '9'
def digitVal (c : Char) : Nat := c.toNat - 48

inductive DState | start | digit | us

/-- digits with single underscores between digits (PEP 515) -/
def pyDigits : DState → Nat → List Char → Option Nat
  | .digit, acc, [] => some acc
  | _, _, [] => none
  | st, acc, c :: cs =>
    if isAsciiDigit c then pyDigits .digit (acc * 10 + digitVal c) cs
    else if c = '_' then
      match st with
      | .digit => pyDigits .us acc cs
      | _ => none
    else none

/-- `int(s)` for ASCII `s`: surrounding whitespace, optional sign, decimal digits with underscores.
    `none` is `ValueError`. (Non-ASCII digits/spaces, which Python also accepts, are outside the model.) -/
def pyInt (s : List Char) : Option Int :=
  match pyStrip s with
  | '-' :: ds => (pyDigits .start 0 ds).map fun n => - (n : Int)
  | '+' :: ds => (pyDigits .start 0 ds).map fun n => (n : Int)
  | ds => (pyDigits .start 0 ds).map fun n => (n : Int)

/-- one octet of `ipaddress.IPv4Address` (CPython >= 3.9.5: no leading zeros) -/
def isOctet (o : List Char) : Bool :=
  !o.isEmpty && o.all isAsciiDigit && decide (o.length ≤ 3) &&
  (o == ['0'] || o.head? != some '0') &&
  decide ((o.foldl (fun a c => a * 10 + digitVal c) 0) ≤ 255)

/-- `ipaddress.IPv4Address(s)` does not raise -/
def isV4 (h : List Char) : Bool :=
  match splitOnC '.' h with
  | [a, b, c, d] => isOctet a && isOctet b && isOctet c && isOctet d
  | _ => false

end Vnc
