import VncModel.Basic
/-!
# The buffering machine  (rfb.py `dataReceived` / `_handleExpected` / `expect`; loggingproxy.py `RFBServer.dataReceived`)

Python state: `_packet` (the buffer), the pending expectation `(_expected_handler, _expected_len, args)`.
`dataReceived` appends the chunk and then, while the buffer holds at least `_expected_len` bytes, removes exactly
that many bytes and calls the handler with them; the handler registers the next expectation with `expect`.
A handler which registers nothing (it closed the connection) or raised leaves the machine `halted`.
-/
namespace Vnc

structure Machine (σ Out : Type) where
  /-- `_expected_len` of the pending expectation -/
  need : σ → Nat
  /-- run the pending handler on exactly `need` bytes: new state and what it emitted -/
  step : σ → Bytes → σ × List Out
  /-- no pending expectation: closed by a handler / crashed -/
  halted : σ → Bool

variable {σ Out : Type}

structure Res (σ Out : Type) where
  s : σ
  buf : Bytes
  out : List Out
  /-- `true` iff the loop ended because it was blocked (not because the fuel ran out) -/
  ok : Bool

def Machine.blocked (m : Machine σ Out) (s : σ) (buf : Bytes) : Bool :=
  m.halted s || decide (buf.length < m.need s)

/-- `buf.length < n`, looking at no more than `n` elements (the executable driver runs on buffers of several hundred
    kilobytes; `List.length` in every iteration made the loop quadratic) -/
def shorterThan : Bytes → Nat → Bool
  | _, 0 => false
  | [], _ + 1 => true
  | _ :: t, n + 1 => shorterThan t n

theorem shorterThan_eq (b : Bytes) (n : Nat) : shorterThan b n = decide (b.length < n) := by
  induction b generalizing n with
  | nil => cases n <;> simp [shorterThan]
  | cons x t ih => cases n <;> simp [shorterThan, ih]

def Machine.blockedFast (m : Machine σ Out) (s : σ) (buf : Bytes) : Bool :=
  m.halted s || shorterThan buf (m.need s)

/-- compiled code uses the short-circuiting test; the theorems are about `Machine.blocked` -/
@[csimp] theorem Machine.blocked_eq_fast : @Machine.blocked = @Machine.blockedFast := by
  funext σ Out m s buf
  simp [Machine.blocked, Machine.blockedFast, shorterThan_eq]

/-- the dispatch loop, fuelled -/
def drain (m : Machine σ Out) : Nat → σ → Bytes → Res σ Out
  | 0, s, buf => ⟨s, buf, [], m.blocked s buf⟩
  | fuel+1, s, buf =>
    if m.blocked s buf then ⟨s, buf, [], true⟩
    else
      let r := m.step s (buf.take (m.need s))
      let r' := drain m fuel r.1 (buf.drop (m.need s))
      ⟨r'.s, r'.buf, r.2 ++ r'.out, r'.ok⟩

/-- number of handler invocations performed by `drain` -/
def drainSteps (m : Machine σ Out) : Nat → σ → Bytes → Nat
  | 0, _, _ => 0
  | fuel+1, s, buf =>
    if m.blocked s buf then 0
    else 1 + drainSteps m fuel (m.step s (buf.take (m.need s))).1 (buf.drop (m.need s))

/-- connection state between two chunks -/
structure St (σ : Type) where
  s : σ
  buf : Bytes

def feedFuel (st : St σ) (chunk : Bytes) : Nat := 2 * (st.buf.length + chunk.length) + 2

/-- `dataReceived(chunk)` -/
def feed (m : Machine σ Out) (st : St σ) (chunk : Bytes) : St σ × List Out × Bool :=
  let r := drain m (feedFuel st chunk) st.s (st.buf ++ chunk)
  (⟨r.s, r.buf⟩, r.out, r.ok)

/-- a sequence of `dataReceived` calls -/
def feedAll (m : Machine σ Out) (st : St σ) : List Bytes → St σ × List Out × Bool
  | [] => (st, [], true)
  | c :: cs =>
    let r := feed m st c
    let r' := feedAll m r.1 cs
    (r'.1, r.2.1 ++ r'.2.1, r.2.2 && r'.2.2)

end Vnc
