import VncModel.Rfb
/-!
# From the `vncdo` command line to the factory flags (command.py:498-516, client.py:532-547)

`vncdo()` builds a `VNCDoCLIFactory` (class attributes: the defaults extracted into `Tables.FACTORY_*`) and then sets
`pseudocursor` for `--localcursor`, clears `pseudodesktop` for `--disable-desktop-resizing`, sets `nocursor` for
`--nocursor` and `force_caps` for `--force-caps` - each independently of the others.
-/
namespace Vnc

structure CliOpts where
  localcursor : Bool := false
  nocursor : Bool := false
  disableDesktopResizing : Bool := false
  forceCaps : Bool := false
  hasPassword : Bool := false

/-- the configuration of the CLI client for a command line -/
def cliCfg (o : CliOpts) : Cfg :=
  { kind := .cli, hasPassword := o.hasPassword, shared := Tables.FACTORY_shared, encoding := Tables.DEFAULT_ENCODING,
    pseudocursor := Tables.FACTORY_pseudocursor || o.localcursor,
    nocursor := Tables.FACTORY_nocursor || o.nocursor,
    pseudodesktop := Tables.FACTORY_pseudodesktop && !o.disableDesktopResizing,
    lastRect := Tables.FACTORY_last_rect, qemuExt := Tables.FACTORY_qemu_extended_key,
    authResponse := [], ardReply := [] }

def cliForceCaps (o : CliOpts) : Bool := Tables.FACTORY_force_caps || o.forceCaps

end Vnc
