import VncModel.Expect
import VncModel.Generated.Tables
import VncModel.Wire
/-!
# The logging proxy  (loggingproxy.py)

## `RFBServer` as an instance of the buffering machine (loggingproxy.py:85-215)

`_handler = (fn, n)` is literally `(step, need)`.  One difference from the Python text, observationally neutral:
`_handle_protocol` is entered with one byte available, looks the message length up and *returns without consuming*
until the whole message has arrived; the model consumes the type byte and then waits for the remaining
`TYPE_LEN[type] - 1` bytes.  The events are produced at exactly the same moment (when the last byte of the message
is available).

Outputs are the recorder-relevant *events* (time independent); the recorder (`recStep`) attaches the time.

## The recorder (`handle_keyEvent`, `handle_pointerEvent`) and `shlex`
-/
namespace Vnc

inductive PEvent
  | startLogging                       -- ClientInit seen: the logging client is attached to the server side
  | setPixelFormat (pf : Bytes)
  | setEncodings (n : Nat)
  | updateRequest
  | key (keysym : Nat) (down : Bool)
  | pointer (x y mask : Nat)
  | cutText (t : Bytes)
  | closeViewer                        -- transport.loseConnection() on a bad version line
  | raise (cls : String)               -- exception inside the parser: recording stops (the relay goes on)
deriving DecidableEq, Repr

inductive PPhase
  | version
  | security
  | authResponse
  | clientInit
  | proto                              -- waiting for a message type byte
  | body (ptype : Nat) (n : Nat)       -- waiting for the remaining n bytes of the fixed part
  | encodings (n : Nat)                -- SetEncodings: 4n bytes
  | cutText (n : Nat)
  | qemuKey                            -- 10 bytes: down-flag u16, keysym u32, keycode u32
  | dead
deriving DecidableEq, Repr

structure PSt where
  passwordRequired : Bool
  ph : PPhase

def typeLen (t : Nat) : Nat := ((Tables.TYPE_LEN.find? fun e => e.1 == t).map (·.2)).getD 0

def pNeed (s : PSt) : Nat :=
  match s.ph with
  | .version => 12
  | .security => 1
  | .authResponse => 16
  | .clientInit => 1
  | .proto => 1
  | .body _ n => n
  | .encodings n => 4 * n
  | .cutText n => n
  | .qemuKey => 10
  | .dead => 0

def pHalted (s : PSt) : Bool := s.ph == .dead

def pgo (s : PSt) (ph : PPhase) (o : List PEvent) : PSt × List PEvent := ({ s with ph := ph }, o)

/-- `chr(key)` is defined (`handle_keyEvent` raises ValueError otherwise, unless the key has a name) -/
def keyRecordable (k : Nat) : Bool :=
  (Tables.REVERSE_MAP.any fun e => e.1 == k && !e.2.isEmpty) || k < 1114112

/-- a decoded KeyEvent: handed to the recorder; if the recorder cannot write the key the exception ends the
    recording (the parser is not called again) -/
def keyOut (s : PSt) (k : Nat) (down : Bool) : PSt × List PEvent :=
  if keyRecordable k then pgo s .proto [.key k down] else pgo s .dead [.key k down, .raise "value"]

/-- `msg.startswith(b"RFB 003.")` -/
def startsRFB3 (m : Bytes) : Bool := m.take 8 == [82, 70, 66, 32, 48, 48, 51, 46]

def pStep (s : PSt) (b : Bytes) : PSt × List PEvent :=
  match s.ph with
  | .dead => pgo s .dead []
  | .version =>
    -- `if not msg.startswith(b"RFB 003.") and msg.endswith(b"\n"): loseConnection()`
    let close := if !startsRFB3 b && b.getLast? == some 10 then [PEvent.closeViewer] else []
    let v := (b.drop 8).take 3
    if v == [48, 48, 51] || v == [48, 48, 53] then
      pgo s (if s.passwordRequired then .authResponse else .clientInit) close
    else if v == [48, 48, 55] || v == [48, 48, 56] then pgo s .security close
    else pgo s .version close
  | .security =>
    if (b.getD 0 0).toNat == Tables.AUTH_VNC_AUTHENTICATION then pgo s .authResponse [] else pgo s .clientInit []
  | .authResponse => pgo s .clientInit []
  | .clientInit => pgo s .proto [.startLogging]
  | .proto =>
    let t := (b.getD 0 0).toNat
    let n := typeLen t
    if n == 0 then pgo s .dead [.raise "protocol"]            -- ProtocolError(ptype): unknown message type
    else pgo s (.body t (n - 1)) []
  | .body t _ =>
    if t == Tables.C2S_SET_PIXEL_FORMAT then pgo s .proto [.setPixelFormat (b.drop 3)]
    else if t == Tables.C2S_SET_ENCODING then pgo s (.encodings (beNat (b.drop 1))) []
    else if t == Tables.C2S_FRAMEBUFFER_UPDATE_REQUEST then pgo s .proto [.updateRequest]
    else if t == Tables.C2S_KEY_EVENT then keyOut s (beNat (b.drop 3)) ((b.getD 0 0) != 0)
    else if t == Tables.C2S_POINTER_EVENT then
      pgo s .proto [.pointer (beNat ((b.drop 1).take 2)) (beNat (b.drop 3)) (b.getD 0 0).toNat]
    else if t == Tables.C2S_CLIENT_CUT_TEXT then pgo s (.cutText (beNat (b.drop 3))) []
    else if t == Tables.C2S_QEMU_CLIENT_MESSAGE then
      if (b.getD 0 0) == 0 then pgo s .qemuKey [] else pgo s .dead [.raise "protocol"]
    else pgo s .dead [.raise "protocol"]
  | .encodings n => pgo s .proto [.setEncodings n]
  | .cutText _ => pgo s .proto [.cutText b]
  | .qemuKey => keyOut s (beNat ((b.drop 2).take 4)) (beNat (b.take 2) != 0)

def proxyMachine : Machine PSt PEvent := { need := pNeed, step := pStep, halted := pHalted }

def PSt.init (pw : Bool) : PSt := ⟨pw, .version⟩

/-! ## the recorder -/

/-- recorder state: time of the last recorded event (ticks of 1/10000 s), last recorded pointer position -/
structure RecSt where
  last : Nat
  mouse : Option (Nat × Nat) := none
  recording : Bool := true

def pad4 (n : Nat) : List Char :=
  let d := (toString n).toList
  List.replicate (4 - d.length) '0' ++ d

/-- `"%.4f" % (k / 10000)` -/
def fmtTicks (k : Nat) : List Char := (toString (k / 10000)).toList ++ ['.'] ++ pad4 (k % 10000)

def reverseMapGet (k : Nat) : Option String := (Tables.REVERSE_MAP.find? fun e => e.1 == k).map (·.2)

/-- characters `shlex.quote` leaves alone: ASCII letters, digits and `_ @ % + = : , . / -` (dash) -/
def isSafeChar (c : Char) : Bool :=
  c.isAlphanum || c == '_' || c == '@' || c == '%' || c == '+' || c == '=' || c == ':' || c == ',' || c == '.' ||
  c == '/' || c == '-'

/-- `s.replace("'", "'\"'\"'")` -/
def escQ : List Char → List Char
  | [] => []
  | c :: cs => if c == '\'' then ['\'', '"', '\'', '"', '\''] ++ escQ cs else c :: escQ cs

/-- `shlex.quote(s)` -/
def shlexQuote (s : List Char) : List Char :=
  if s.isEmpty then ['\'', '\'']
  else if s.all isSafeChar then s
  else '\'' :: (escQ s ++ ['\''])

/-- the key token: `REVERSE_MAP.get(key) or shlex.quote(chr(key))`; `none` = chr raises ValueError
    (keysym above 0x10FFFF) -/
def keyToken (k : Nat) : Option (List Char) :=
  match reverseMapGet k with
  | some n => if n.isEmpty then none else some n.toList
  | none => if k < 1114112 then some (shlexQuote [Char.ofNat k]) else none

def joinSp (ws : List (List Char)) : List Char := (ws.map (· ++ [' '])).flatten.dropLast

/-- the buttons recorded as clicks: one per set bit, buttons 1..8 -/
def clickWords (mask : Nat) : List (List Char) :=
  (List.range 8).filterMap fun i => if mask.testBit i then some ("click ".toList ++ (toString (i + 1)).toList) else none

/-- one recorder call: the text handed to `self.recorder` (`" ".join(cmds)`, `cmds` ending in `"\n"`) -/
def recStep (r : RecSt) (now : Nat) : PEvent → RecSt × Option (List Char)
  | .key k down =>
    match keyToken k with
    | none => ({ r with recording := false }, none)       -- ValueError: recording stops
    | some tok =>
      let words := ["pause".toList, fmtTicks (now - r.last), (if down then "keydown" else "keyup").toList, tok, ['\n']]
      ({ r with last := now }, some (joinSp words))
  | .pointer x y mask =>
    let mv := if r.mouse != some (x, y) then ["move ".toList ++ (toString x).toList ++ [' '] ++ (toString y).toList] else []
    let words := ["pause".toList, fmtTicks (now - r.last)] ++ mv ++ clickWords mask ++ [['\n']]
    ({ r with last := now, mouse := some (x, y) }, some (joinSp words))
  | .raise _ => ({ r with recording := false }, none)
  | _ => (r, none)

end Vnc
