import VncModel.Client
/-!
# The whole client: protocol machine + screen + application, as ONE buffering machine

`vncdo` is three layers that the other model files describe one by one:

* `rfbMachine` (Rfb.lean): `dataReceived` / `expect` and the message handlers; it emits the application callbacks `Out`;
* `Canvas` (Canvas.lean): what `VNCDoToolClient` does to `self.screen` in `updateRectangle`, `updateCursor`, ...;
* `App` (Client.lean): the waiter fired by `commitUpdate`, the script chain started by `vncConnectionMade`, timers.

In the implementation these are one object: a handler of rfb.py calls `self.updateRectangle(...)`, `self.commitUpdate(...)`
synchronously, and the application's reaction (a capture being saved, the next command being written) happens inside that
call, before the handler goes on.  `sysStep` is exactly that: one handler invocation of the protocol machine, followed - in
callback order - by the screen's and the application's reaction to each callback, with the attributes of the protocol
object (`width`, `height`, image mode) as they are when the handler is done (the handlers of rfb.py assign these before
they call any callback that reads them: `_handleServerInit`, the DesktopSize pseudo-encoding).

Because `sysMachine` is a `Machine`, everything proved for machines applies to the whole client: `feedAll_flatten`
(VncProofs/Expect.lean) gives chunking independence of the complete behaviour - screen, saved images, bytes written by the
script, order of everything - not only of the callback trace.
-/
namespace Vnc

/-- one observable event of the whole client, in order: an application callback of the protocol layer (this includes the
    protocol layer's own writes and closes), or an action of the application layer -/
inductive Ev
  | out (o : Out)
  | act (a : Act)

structure SysSt where
  rfb : RSt
  cv : Canvas
  app : App

/-- `self.x` / `self.y` of the client are what `drawCursor` uses -/
def syncPtr (cv : Canvas) (a : App) : Canvas := { cv with ptrX := a.ptr.x, ptrY := a.ptr.y }

/-- the application's reaction to one callback -/
def appReact (core : Core) (screen : Option Img) (a : App) : Out → App × List Act
  | .made => onConnected core screen a
  | .commit _ => onCommit core screen a
  | _ => (a, [])

/-- the screen's, then the application's reaction to one callback -/
def reactOne (core : Core) (acc : Canvas × App × List Ev) (o : Out) : Canvas × App × List Ev :=
  let cv := applyOut core.imageMode acc.1 o
  let r := appReact core cv.screen acc.2.1 o
  (syncPtr cv r.1, r.1, acc.2.2 ++ [Ev.out o] ++ r.2.map Ev.act)

/-- one handler invocation of the whole client -/
def sysStep (s : SysSt) (b : Bytes) : SysSt × List Ev :=
  let r := step s.rfb b
  let acc := r.2.foldl (reactOne r.1.core) (s.cv, s.app, [])
  (⟨r.1, acc.1, acc.2.1⟩, acc.2.2)

def sysMachine : Machine SysSt Ev :=
  { need := fun s => need s.rfb, step := sysStep, halted := fun s => halted s.rfb }

/-! ## events other than received data: timers -/

/-- the delayed call Twisted runs next: earliest due time, creation order among equals -/
def earliestTimer (a : App) : Option (Nat × Nat) :=
  a.timers.foldl (fun (best : Option (Nat × Nat)) t => match best with
    | none => some t
    | some b => if t.2 < b.2 then some t else some b) none

/-- the reactor runs the next delayed call (the clock jumps to its due time) -/
def sysFire (st : St SysSt) : St SysSt × List Ev :=
  match earliestTimer st.s.app with
  | none => (st, [])
  | some (id, due) =>
    let a := { st.s.app with now := max st.s.app.now due }
    let r := onTimer st.s.rfb.core st.s.cv.screen a id
    (⟨⟨st.s.rfb, syncPtr st.s.cv r.1, r.1⟩, st.buf⟩, r.2.map Ev.act)

/-- what can happen to a connected client -/
inductive SysIn
  | recv (chunk : Bytes)
  | fire

def sysIn (st : St SysSt) : SysIn → St SysSt × List Ev
  | .recv c => let r := feed sysMachine st c; (r.1, r.2.1)
  | .fire => sysFire st

def sysRun (st : St SysSt) : List SysIn → St SysSt × List Ev
  | [] => (st, [])
  | i :: is =>
    let r := sysIn st i
    let r' := sysRun r.1 is
    (r'.1, r.2 ++ r'.2)

/-- projections of the event history -/
def evOuts (evs : List Ev) : List Out := evs.filterMap fun e => match e with | .out o => some o | .act _ => none
def evActs (evs : List Ev) : List Act := evs.filterMap fun e => match e with | .act a => some a | .out _ => none

/-- every image saved by a capture directly follows - with nothing but other actions of the application in between - a
    completed update (`commitUpdate`) in the event history.  `inReaction`: the events since the last callback were all
    application actions and that callback was a commit. -/
def savesFollowCommit : Bool → List Ev → Bool
  | _, [] => true
  | _, .out (.commit _) :: rest => savesFollowCommit true rest
  | _, .out _ :: rest => savesFollowCommit false rest
  | inReaction, .act (.save ..) :: rest => inReaction && savesFollowCommit inReaction rest
  | inReaction, .act _ :: rest => savesFollowCommit inReaction rest

/-! ## the vncdo process: the whole client plus the exit status (command.py:59-77, 509-513) -/

structure Proc where
  st : St SysSt
  exit : ExitSt := {}
  /-- the transport has not reported the loss of the connection yet -/
  up : Bool := true

/-- everything that can happen to a vncdo process once the TCP connection exists -/
inductive ProcIn
  | recv (chunk : Bytes)
  | fire                          -- the next delayed call of the script (pause, drag step)
  | lost (clean : Bool)           -- clientConnectionLost: ConnectionDone (clean) or anything else
  | timeout                       -- the --timeout timer
deriving DecidableEq

def procStep (p : Proc) : ProcIn → Proc × List Ev
  | .recv c => if p.up then (let r := feed sysMachine p.st c; ({ p with st := r.1 }, r.2.1)) else (p, [])
  | .fire => let r := sysFire p.st; ({ p with st := r.1 }, r.2)
  | .lost clean =>
    if p.up then ({ p with up := false, exit := exitStep p.st.s.app.completed p.exit p.st.s.app.now (.lost clean) }, [])
    else (p, [])
  | .timeout => ({ p with exit := exitStep p.st.s.app.completed p.exit p.st.s.app.now .timeout }, [])

def procRun (p : Proc) : List ProcIn → Proc × List Ev
  | [] => (p, [])
  | i :: is =>
    let r := procStep p i
    let r' := procRun r.1 is
    (r'.1, r.2 ++ r'.2)

/-- a freshly connected vncdo: nothing received, script not started, status 1 -/
def Proc.start (cfg : Cfg) (zq : List (Option Bytes)) (cv : Canvas) (env : Env) (cmds : List Cmd) : Proc :=
  { st := ⟨⟨RSt.init cfg zq, cv, { env := env, cmds := cmds }⟩, []⟩ }

end Vnc
