import VncModel.Rfb
/-!
# The client's screen (client.py:431-500 `updateRectangle`, `updateCursor`, `drawCursor`, `updateDesktopSize`)

An image is its size and a pixel function (Pillow images are modelled as exact pixel functions; trusted base:
`Image.frombytes(..., "raw", mode)`, `Image.new`, `Image.paste` incl. clipping and 1-bit masks, `Image.crop`).
-/
namespace Vnc

abbrev RGB := Nat × Nat × Nat

structure Img where
  w : Nat
  h : Nat
  get : Nat → Nat → RGB        -- meaningful for x < w, y < h

def black : RGB := (0, 0, 0)

/-- `Image.new("RGB", (w, h), "black")` -/
def Img.new (w h : Nat) : Img := ⟨w, h, fun _ _ => black⟩

/-- `dst.paste(src, (ox, oy))`: pixels of `src` that fall inside `dst`; the rest of `dst` is untouched -/
def Img.paste (dst src : Img) (ox oy : Int) : Img :=
  ⟨dst.w, dst.h, fun x y =>
    if ox ≤ x ∧ (x : Int) < ox + src.w ∧ oy ≤ y ∧ (y : Int) < oy + src.h
    then src.get ((x : Int) - ox).toNat ((y : Int) - oy).toNat else dst.get x y⟩

/-- `dst.paste(src, (ox, oy), mask)` with a 1-bit mask of the size of `src` -/
def Img.pasteMask (dst src : Img) (mask : Nat → Nat → Bool) (ox oy : Int) : Img :=
  ⟨dst.w, dst.h, fun x y =>
    if ox ≤ x ∧ (x : Int) < ox + src.w ∧ oy ≤ y ∧ (y : Int) < oy + src.h ∧
       mask ((x : Int) - ox).toNat ((y : Int) - oy).toNat
    then src.get ((x : Int) - ox).toNat ((y : Int) - oy).toNat else dst.get x y⟩

/-- `img.crop((x0, y0, x1, y1))`: outside the image Pillow yields black -/
def Img.crop (i : Img) (x0 y0 x1 y1 : Int) : Img :=
  ⟨(x1 - x0).toNat, (y1 - y0).toNat, fun x y =>
    let sx := x0 + x
    let sy := y0 + y
    if 0 ≤ sx ∧ sx < i.w ∧ 0 ≤ sy ∧ sy < i.h then i.get sx.toNat sy.toNat else black⟩

/-- one pixel in a raw mode: `frombytes("RGB", size, data, "raw", mode)` (Pillow's unpackers).
    `BGR;16`: little-endian 16 bit, blue in bits 0-4, green 5-10, red 11-15, each scaled `v*255 // max`. -/
def decodePixel (mode : String) (p : Bytes) : RGB :=
  let b (i : Nat) : Nat := (p.getD i 0).toNat
  if mode = "RGB" ∨ mode = "RGBX" then (b 0, b 1, b 2)
  else if mode = "BGR" ∨ mode = "BGRX" then (b 2, b 1, b 0)
  else if mode = "BGR;16" then
    let v := b 0 + 256 * b 1
    ((v / 2048 % 32) * 255 / 31, (v / 32 % 64) * 255 / 63, (v % 32) * 255 / 31)
  else black

def modeBypp (mode : String) : Nat :=
  if mode = "RGB" ∨ mode = "BGR" then 3 else if mode = "RGBX" ∨ mode = "BGRX" then 4 else if mode = "BGR;16" then 2 else 0

/-- `Image.frombytes("RGB", (w, h), data, "raw", mode)` -/
def decodeImage (mode : String) (w h : Nat) (data : Bytes) : Img :=
  ⟨w, h, fun x y => decodePixel mode ((data.drop ((y * w + x) * modeBypp mode)).take (modeBypp mode))⟩

/-- `Image.frombytes("1", (w, h), mask)`: rows padded to whole bytes, most significant bit first -/
def decodeMask (w : Nat) (mask : Bytes) : Nat → Nat → Bool :=
  fun x y => ((mask.getD (y * ((w + 7) / 8) + x / 8) 0).toNat / 2 ^ (7 - x % 8)) % 2 == 1

structure Canvas where
  screen : Option Img := none
  cursor : Option (Img × (Nat → Nat → Bool)) := none
  cfocus : Nat × Nat := (0, 0)
  ptrX : Int := 0
  ptrY : Int := 0
  nocursor : Bool := false

/-- `drawCursor` -/
def drawCursor (cv : Canvas) : Canvas :=
  match cv.cursor, cv.screen with
  | some (img, m), some scr =>
    { cv with screen := some (scr.pasteMask img m (cv.ptrX - cv.cfocus.1) (cv.ptrY - cv.cfocus.2)) }
  | _, _ => cv

/-- `updateRectangle(x, y, w, h, data)` -/
def updateRect (cv : Canvas) (mode : String) (x y w h : Nat) (data : Bytes) : Canvas :=
  if data.isEmpty then cv
  else
    let upd := decodeImage mode w h data
    let scr := match cv.screen with
      | none => if x ≠ 0 ∨ y ≠ 0 then (Img.new (x + w) (y + h)).paste upd x y else upd
      | some s =>
        if s.w < x + w ∨ s.h < y + h then
          ((Img.new (max (x + w) s.w) (max (y + h) s.h)).paste s 0 0).paste upd x y
        else s.paste upd x y
    drawCursor { cv with screen := some scr }

/-- `updateDesktopSize(w, h)` (sizes from the wire are below MAX_DESKTOP_SIZE) -/
def resizeDesktop (cv : Canvas) (w h : Nat) : Canvas :=
  let n := Img.new w h
  { cv with screen := some (match cv.screen with
      | some s => n.paste s 0 0
      | none => n) }

/-- `updateCursor(x, y, w, h, image, mask)` -/
def updateCursor (cv : Canvas) (mode : String) (x y w h : Nat) (image mask : Bytes) : Canvas :=
  if cv.nocursor then cv
  else drawCursor { cv with cursor := some (decodeImage mode w h image, decodeMask w mask), cfocus := (x, y) }

/-- the library client's reaction to one application callback of the protocol machine -/
def applyOut (mode : String) (cv : Canvas) : Out → Canvas
  | .update x y w h data => updateRect cv mode x.toNat y.toNat w.toNat h.toNat data
  | .fill x y w h (some col) =>
    updateRect cv mode x.toNat y.toNat w.toNat h.toNat (repeatBytes col (w.toNat * h.toNat))
  | .cursor x y w h image mask => updateCursor cv mode x y w h image mask
  | .desktop w h => resizeDesktop cv w h
  | _ => cv

def applyOuts (mode : String) (cv : Canvas) (outs : List Out) : Canvas := outs.foldl (applyOut mode) cv

end Vnc
