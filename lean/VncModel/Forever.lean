import VncModel.Proxy
/-!
# `vnclog --forever DIR`: one factory, any number of viewers, one script file per connection
(loggingproxy.py `VNCLoggingServerFactory.getRecorder` / `clientConnectionLost`, `VNCLoggingServerProxy.connectionMade` /
`dataReceived`)

`getRecorder` opens `DIR/<yymmdd-HHMMSS>.vdo` (with `-2`, `-3`, ... appended while the name exists), remembers it in
`self._out` and hands its `write` to the connection; `clientConnectionLost(client)` closes the file THAT client writes to.
A connection whose file has been closed under it gets `ValueError` from `write`; the guard in `dataReceived` then stops the
recording of that connection (the relay goes on).

Time is in ticks of 0.1 ms as everywhere in the proxy model; a file name is (second, suffix), suffix 1 = no suffix.
-/
namespace Vnc

structure FFile where
  sec : Nat
  suffix : Nat
  text : List Char := []
  closed : Bool := false

structure Conn where
  px : St PSt
  rcd : RecSt
  file : Nat                      -- index of the file this connection's recorder writes to

structure Factory where
  pw : Bool
  files : List FFile := []
  conns : List (Nat × Conn) := []
  out : Option Nat := none        -- `_out`

inductive FEv
  | connect (c : Nat) (now : Nat)
  | recv (c : Nat) (now : Nat) (chunk : Bytes)
  | lose (c : Nat)

def nameTaken (files : List FFile) (sec n : Nat) : Bool := files.any fun f => f.sec == sec && f.suffix == n

/-- the first free suffix, searching 1, 2, ... (at most `files.length + 1` candidates are needed) -/
def freeSuffix (files : List FFile) (sec : Nat) : Nat → Nat → Nat
  | 0, n => n
  | fuel + 1, n => if nameTaken files sec n then freeSuffix files sec fuel (n + 1) else n

def Factory.conn? (f : Factory) (c : Nat) : Option Conn := (f.conns.find? fun e => e.1 == c).map (·.2)

def Factory.setConn (f : Factory) (c : Nat) (k : Conn) : Factory :=
  { f with conns := f.conns.map fun e => if e.1 == c then (c, k) else e }

def appendTo (files : List FFile) (i : Nat) (t : List Char) : List FFile :=
  files.mapIdx fun j fl => if j == i then { fl with text := fl.text ++ t } else fl

def closeFile (files : List FFile) (i : Nat) : List FFile :=
  files.mapIdx fun j fl => if j == i then { fl with closed := true } else fl

/-- the recorder over the events of one chunk: entries are written one by one; writing to a closed file raises, which
    ends the recording (what was written stays) -/
def recordInto (files : List FFile) (i : Nat) (r : RecSt) (now : Nat) : List PEvent → List FFile × RecSt
  | [] => (files, r)
  | ev :: evs =>
    if !r.recording then (files, r)
    else
      let (r1, txt) := recStep r now ev
      match txt with
      | none => recordInto files i r1 now evs
      | some t =>
        if ((files[i]?).map (·.closed)).getD true then (files, { r with recording := false })
        else recordInto (appendTo files i t) i r1 now evs

def fstep (f : Factory) : FEv → Factory
  | .connect c now =>
    let sec := now / 10000
    let n := freeSuffix f.files sec (f.files.length + 1) 1
    let idx := f.files.length
    { f with files := f.files ++ [{ sec := sec, suffix := n }],
             conns := (f.conns.filter fun e => e.1 != c) ++ [(c, { px := ⟨PSt.init f.pw, []⟩, rcd := { last := now }, file := idx })],
             out := some idx }
  | .recv c now chunk =>
    match f.conn? c with
    | none => f
    | some k =>
      if !k.rcd.recording then f
      else
        let r := feed proxyMachine k.px chunk
        let (files', rcd') := recordInto f.files k.file k.rcd now r.2.1
        ({ f with files := files' }).setConn c { k with px := r.1, rcd := rcd' }
  | .lose c =>
    match f.conn? c with
    | none => f
    | some k =>
      { f with files := closeFile f.files k.file,
               conns := f.conns.filter fun e => e.1 != c,
               out := if f.out == some k.file then none else f.out }

def frun (f : Factory) (evs : List FEv) : Factory := evs.foldl fstep f

/-- one viewer alone: the script a single-connection proxy writes for the same chunks at the same times -/
def soloScript : St PSt → RecSt → List (Nat × Bytes) → List Char
  | _, _, [] => []
  | st, r, (now, chunk) :: rest =>
    if !r.recording then []
    else
      let res := feed proxyMachine st chunk
      let out := res.2.1.foldl (fun (acc : RecSt × List Char) ev =>
        if !acc.1.recording then acc
        else
          let (r1, txt) := recStep acc.1 now ev
          (r1, acc.2 ++ (txt.getD []))) (r, [])
      out.2 ++ soloScript res.1 out.1 rest

end Vnc
