import VncModel.Basic
/-!
# `shlex.shlex(stream, posix=True)` with `whitespace_split = True`  (CPython `shlex.read_token`)

As used by `build_command_list` for script files and by `build_tool` for stdin.  Modes: between tokens / in a
word / single-quoted / double-quoted / escape in a word / escape in double quotes / comment.
`#` starts a comment between tokens *and in the middle of a word*; inside double quotes a backslash is dropped
only before `"` and `\`; an empty quoted string is a token; end of input inside quotes or after a backslash is
ValueError.
-/
namespace Vnc

def isShWs (c : Char) : Bool := c == ' ' || c == '\t' || c == '\r' || c == '\n'

inductive ShMode | ws | word | sq | dq | escW | escD | cmt
deriving DecidableEq, Repr

def shEmit (tok : List Char) (q : Bool) (r : Except String (List (List Char))) :
    Except String (List (List Char)) :=
  if tok ≠ [] || q then (tok :: ·) <$> r else r

/-- `tok` is the token so far, `q` whether quotes were seen in it (an empty quoted token counts) -/
def shGo : ShMode → List Char → Bool → List Char → Except String (List (List Char))
  | .ws, _, _, [] => .ok []
  | .cmt, _, _, [] => .ok []
  | .cmt, _, _, c :: cs => if c == '\n' then shGo .ws [] false cs else shGo .cmt [] false cs
  | .word, tok, q, [] => shEmit tok q (.ok [])
  | .sq, _, _, [] => .error "No closing quotation"
  | .dq, _, _, [] => .error "No closing quotation"
  | .escW, _, _, [] => .error "No escaped character"
  | .escD, _, _, [] => .error "No escaped character"
  | .ws, _, _, c :: cs =>
    if isShWs c then shGo .ws [] false cs
    else if c == '#' then shGo .cmt [] false cs
    else if c == '\\' then shGo .escW [] false cs
    else if c == '\'' then shGo .sq [] true cs
    else if c == '"' then shGo .dq [] true cs
    else shGo .word [c] false cs
  | .word, tok, q, c :: cs =>
    if isShWs c then shEmit tok q (shGo .ws [] false cs)
    else if c == '#' then shEmit tok q (shGo .cmt [] false cs)
    else if c == '\'' then shGo .sq tok true cs
    else if c == '"' then shGo .dq tok true cs
    else if c == '\\' then shGo .escW tok q cs
    else shGo .word (tok ++ [c]) q cs
  | .sq, tok, q, c :: cs =>
    if c == '\'' then shGo .word tok q cs else shGo .sq (tok ++ [c]) q cs
  | .dq, tok, q, c :: cs =>
    if c == '"' then shGo .word tok q cs
    else if c == '\\' then shGo .escD tok q cs
    else shGo .dq (tok ++ [c]) q cs
  | .escW, tok, q, c :: cs => shGo .word (tok ++ [c]) q cs
  | .escD, tok, q, c :: cs =>
    if c != '\\' && c != '"' then shGo .dq (tok ++ ['\\', c]) q cs else shGo .dq (tok ++ [c]) q cs

/-- `list(lex)`; `.error` = ValueError -/
def shlexSplit (s : List Char) : Except String (List (List Char)) := shGo .ws [] false s

end Vnc
