/-! Shared byte-level helpers of the model (core Lean only). -/
namespace Vnc

abbrev Bytes := List UInt8

/-- big-endian value of a byte string (Python: `int.from_bytes(b, "big")`, struct `!B/!H/!I`). -/
def beNat : Bytes → Nat
  | bs => bs.foldl (fun acc b => acc * 256 + b.toNat) 0

/-- little-endian value of a byte string. -/
def leNat : Bytes → Nat
  | [] => 0
  | b :: bs => b.toNat + 256 * leNat bs

def byteOf (n : Nat) : UInt8 := UInt8.ofNat (n % 256)

/-- `struct.pack("!B", n)` for n < 256 -/
def enc8 (n : Nat) : Bytes := [byteOf n]
/-- `struct.pack("!H", n)` for n < 65536 -/
def enc16 (n : Nat) : Bytes := [byteOf (n / 256), byteOf n]
/-- `struct.pack("!I", n)` for n < 2^32 -/
def enc32 (n : Nat) : Bytes := [byteOf (n / 16777216), byteOf (n / 65536), byteOf (n / 256), byteOf n]

/-- two's complement: `struct.unpack("!i")` of a u32 value -/
def s32 (n : Nat) : Int := if n ≥ 2147483648 then (n : Int) - 4294967296 else (n : Int)
/-- `struct.pack("!i", v)` for -2^31 ≤ v < 2^31 -/
def encS32 (v : Int) : Bytes := enc32 (if v < 0 then (v + 4294967296).toNat else v.toNat)

def be16 (a b : UInt8) : Nat := a.toNat * 256 + b.toNat
def be32 (a b c d : UInt8) : Nat := ((a.toNat * 256 + b.toNat) * 256 + c.toNat) * 256 + d.toNat

theorem byteOf_toNat (n : Nat) : (byteOf n).toNat = n % 256 := by
  simp [byteOf, UInt8.toNat_ofNat']

theorem beNat_enc16 (n : Nat) (h : n < 65536) : beNat (enc16 n) = n := by
  simp [enc16, beNat, byteOf_toNat]; omega

theorem beNat_enc32 (n : Nat) (h : n < 4294967296) : beNat (enc32 n) = n := by
  simp [enc32, beNat, byteOf_toNat]; omega

theorem enc16_length (n : Nat) : (enc16 n).length = 2 := rfl
theorem enc32_length (n : Nat) : (enc32 n).length = 4 := rfl

def hexDigit (n : Nat) : Char :=
  if n < 10 then Char.ofNat (48 + n) else Char.ofNat (87 + n)

def hexOfBytes (bs : Bytes) : String :=
  String.ofList (bs.flatMap fun b => [hexDigit (b.toNat / 16), hexDigit (b.toNat % 16)])

def hexVal (c : Char) : Option Nat :=
  if '0' ≤ c ∧ c ≤ '9' then some (c.toNat - 48)
  else if 'a' ≤ c ∧ c ≤ 'f' then some (c.toNat - 87)
  else if 'A' ≤ c ∧ c ≤ 'F' then some (c.toNat - 55)
  else none

def bytesOfHexChars : List Char → Option Bytes
  | [] => some []
  | [_] => none
  | a :: b :: rest => do
    let x ← hexVal a
    let y ← hexVal b
    let r ← bytesOfHexChars rest
    pure (UInt8.ofNat (x * 16 + y) :: r)

/-- "-" stands for the empty byte string on the wire protocol -/
def bytesOfHex (s : String) : Option Bytes :=
  if s = "-" then some [] else bytesOfHexChars s.toList

def showHex (bs : Bytes) : String := if bs.isEmpty then "-" else hexOfBytes bs

end Vnc
