import VncModel.Basic
/-! Types shared by the generated tables and the model. -/
namespace Vnc

/-- rfb.py `PixelFormat` (RFC 6143 7.4) -/
structure PF where
  bpp : Nat
  depth : Nat
  bigendian : Bool
  truecolor : Bool
  rmax : Nat
  gmax : Nat
  bmax : Nat
  rshift : Nat
  gshift : Nat
  bshift : Nat
deriving DecidableEq, Repr, Inhabited

/-- `PixelFormat.bypp` -/
def PF.bypp (p : PF) : Nat := (7 + p.bpp) / 8

end Vnc
