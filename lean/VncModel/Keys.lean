import VncModel.Wire
import VncModel.PyStr
/-!
# Key operations  (client.py:176-221 `_decodeKey`, `keyPress`, `keyDown`, `keyUp`; command.py:157-174 `type`, `typefile`)
-/
namespace Vnc

/-- `KEYMAP.get(k)` -/
def keymapGet (k : List Char) : Option Nat :=
  (Tables.KEYMAP.find? fun e => e.1.toList == k).map (·.2)

/-- `needle in hay` for strings -/
def isInfixOf (needle hay : List Char) : Bool :=
  match hay with
  | [] => needle.isEmpty
  | _ :: t => needle.isPrefixOf hay || isInfixOf needle t

/-- `ord(k)`: `none` is TypeError (not a single character) -/
def pyOrd (k : List Char) : Option Nat :=
  match k with
  | [c] => some c.toNat
  | _ => none

/-- `KEYMAP.get(k) or ord(k)` -/
def keysymOf (k : List Char) : Option Nat :=
  match keymapGet k with
  | some v => if v ≠ 0 then some v else pyOrd k
  | none => pyOrd k

/-- `_decodeKey(key)`; `upper` is the value of `key.isupper()`. `none` is TypeError. -/
def decodeKey (forceCaps upper : Bool) (key : List Char) : Option (List Nat) := do
  let key :=
    match key with
    | [c] =>                                        -- `force_caps and len(key) == 1`
      if forceCaps && (upper || isInfixOf [c] Tables.SPECIAL_KEYS_US.toList) then
        "shift-".toList ++ [c]                      -- "shift-%c" % key
      else key
    | _ => key
  let keys := if key.length = 1 then [key] else splitOnC '-' key
  keys.mapM keysymOf

/-- a key event on the wire: (keysym, down) -/
abbrev KeyEv := Nat × Bool

def keyPressEvs (ks : List Nat) : List KeyEv := ks.map (·, true) ++ ks.reverse.map (·, false)
def keyDownEvs (ks : List Nat) : List KeyEv := ks.map (·, true)
def keyUpEvs (ks : List Nat) : List KeyEv := ks.map (·, false)

inductive KeyOp | press | down | up
deriving DecidableEq, Repr

def keyOpEvs : KeyOp → List Nat → List KeyEv
  | .press => keyPressEvs | .down => keyDownEvs | .up => keyUpEvs

/-- bytes written by one key operation (one `transport.write` per event); `none` = the operation raises before writing -/
def keyOpWrites (op : KeyOp) (forceCaps upper : Bool) (key : List Char) : Option (List Bytes) := do
  let ks ← decodeKey forceCaps upper key
  (keyOpEvs op ks).mapM fun e => wKeyEvent e.1 e.2

/-- `typefile` character mapping: `\r` dropped, `\n` → enter, `\t` → tab -/
def typefileKeys (content : List Char) : List (List Char) :=
  (content.filter (· ≠ '\r')).map fun c =>
    if c = '\n' then "enter".toList else if c = '\t' then "tab".toList else [c]

/-- `type TEXT`: one keyPress per character -/
def typeKeys (text : List Char) : List (List Char) := text.map fun c => [c]

end Vnc
