import VncModel.Basic
/-!
# Authentication arithmetic of rfb.py: `_vnc_des` (1387-1399) and `_encryptArd` (586-603)

DES itself, AES and MD5 are the Cryptodome library: `des`, `aes`, `md5` are parameters here.
-/
namespace Vnc

/-- `sum((128 >> i) if (k & (1 << i)) else 0 for i in range(8))` -/
def pyMirror (k : UInt8) : UInt8 :=
  UInt8.ofNat ((List.range 8).foldl (fun acc i => acc + (if k.toNat.testBit i then 128 >>> i else 0)) 0)

/-- `_vnc_des(password)`: `f"{password:\0<8.8}"` (pad with NUL to 8 characters, cut to 8 characters), ASCII-encode
    (`none` = UnicodeEncodeError), mirror every byte -/
def vncDesKey (password : List Char) : Option Bytes :=
  let pw := (password ++ List.replicate (8 - password.length) '\x00').take 8
  pw.mapM fun c => if c.toNat < 128 then some (pyMirror (UInt8.ofNat c.toNat)) else none

/-- `sendPassword`: `DES.new(key, ECB).encrypt(challenge)` -/
def vncResponse (des : Bytes → Bytes → Bytes) (password : List Char) (challenge : Bytes) : Option Bytes :=
  (vncDesKey password).map fun key => des key challenge

/-- minimal big-endian bytes of a positive integer (`[]` for 0) -/
def minBE : Nat → Nat → Bytes
  | 0, _ => []
  | fuel+1, n => if n = 0 then [] else minBE fuel (n / 256) ++ [UInt8.ofNat (n % 256)]

/-- `Cryptodome.Util.number.long_to_bytes(n, blocksize)` -/
def longToBytes (n blocksize : Nat) : Bytes :=
  let b := minBE (n + 1) n
  if blocksize = 0 then (if b.isEmpty then [0] else b)
  else
    let blocks := max 1 ((b.length + blocksize - 1) / blocksize)
    List.replicate (blocks * blocksize - b.length) 0 ++ b

/-- `pow(b, e, m)` by square-and-multiply (the model must be executable for 4096-bit exponents) -/
def powMod (b : Nat) : Nat → Nat → Nat → Nat
  | 0, _, m => 1 % m
  | fuel+1, e, m =>
    if e = 0 then 1 % m
    else
      let h := powMod b fuel (e / 2) m
      if e % 2 = 0 then h * h % m else h * h % m * (b % m) % m

def pyPow (b e m : Nat) : Nat := powMod b (e + 1) e m

/-- `x.ljust(64, b"\0")` -/
def ljust64 (x : Bytes) : Bytes := x ++ List.replicate (64 - x.length) 0

/-- `_encryptArd`: `secret` is `bytes_to_long(os.urandom(512))`, `user`/`pass` the UTF-8 bytes of the credentials -/
def ardReply (md5 : Bytes → Bytes) (aes : Bytes → Bytes → Bytes)
    (generator keyLen modulus serverKey secret : Nat) (user pass : Bytes) : Bytes :=
  let pub := longToBytes (pyPow generator secret modulus) keyLen
  let shared := longToBytes (pyPow serverKey secret modulus) keyLen
  aes (md5 shared) (ljust64 user ++ ljust64 pass) ++ pub

end Vnc
