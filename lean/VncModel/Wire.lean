import VncModel.Types
import VncModel.Generated.Tables
/-!
# Client → server serialisers  (rfb.py:1251-1293)

Each function is the byte string one call of the Python method writes (through `struct.pack`).
`none` means `struct.error` / `UnicodeEncodeError`: the argument is out of range for its field and *nothing* is
written (`pack` is evaluated completely before `transport.write`).
-/
namespace Vnc

/-- `pack("!B", n)`: raises unless `0 ≤ n < 256` -/
def packB (n : Int) : Option Bytes := if 0 ≤ n ∧ n < 256 then some (enc8 n.toNat) else none
/-- `pack("!H", n)` -/
def packH (n : Int) : Option Bytes := if 0 ≤ n ∧ n < 65536 then some (enc16 n.toNat) else none
/-- `pack("!I", n)` -/
def packI (n : Int) : Option Bytes := if 0 ≤ n ∧ n < 4294967296 then some (enc32 n.toNat) else none
/-- `pack("!i", n)` -/
def packi (n : Int) : Option Bytes :=
  if -2147483648 ≤ n ∧ n < 2147483648 then some (encS32 n) else none

/-- `PixelFormat.to_bytes`: `Struct("!BB??HHHBBBxxx").pack(*astuple(self))` (fields in range) -/
def PF.toBytes (p : PF) : Bytes :=
  enc8 p.bpp ++ enc8 p.depth ++ [if p.bigendian then 1 else 0] ++ [if p.truecolor then 1 else 0] ++
  enc16 p.rmax ++ enc16 p.gmax ++ enc16 p.bmax ++ enc8 p.rshift ++ enc8 p.gshift ++ enc8 p.bshift ++ [0, 0, 0]

/-- `PixelFormat.from_bytes` on a 16-byte block (`?` is true for any non-zero byte; padding ignored) -/
def PF.ofBytes (b : Bytes) : Option PF :=
  match b with
  | [bpp, depth, be, tc, r1, r2, g1, g2, b1, b2, rs, gs, bs, _, _, _] =>
    some { bpp := bpp.toNat, depth := depth.toNat, bigendian := be != 0, truecolor := tc != 0,
           rmax := be16 r1 r2, gmax := be16 g1 g2, bmax := be16 b1 b2,
           rshift := rs.toNat, gshift := gs.toNat, bshift := bs.toNat }
  | _ => none

/-- `setPixelFormat`: `pack("!Bxxx16s", 0, pixformat)` -/
def wSetPixelFormat (p : PF) : Bytes := [0, 0, 0, 0] ++ p.toBytes

/-- `setEncodings`: the header write followed by one write per encoding (1 + n `transport.write` calls) -/
def wSetEncodings (encs : List Int) : Option (List Bytes) := do
  let n ← packH encs.length
  let es ← encs.mapM packi
  pure (([2, 0] ++ n) :: es)

/-- `framebufferUpdateRequest(x, y, w, h, incremental)`: `pack("!BBHHHH", 3, incremental, x, y, w, h)` -/
def wUpdateRequest (inc : Bool) (x y w h : Int) : Option Bytes := do
  let x ← packH x; let y ← packH y; let w ← packH w; let h ← packH h
  pure ([3, if inc then 1 else 0] ++ x ++ y ++ w ++ h)

/-- `keyEvent(key, down)`: `pack("!BBxxI", 4, down, key)` -/
def wKeyEvent (key : Int) (down : Bool) : Option Bytes := do
  let k ← packI key
  pure ([4, if down then 1 else 0, 0, 0] ++ k)

/-- `pointerEvent(x, y, mask)`: `pack("!BBHH", 5, mask, x, y)` -/
def wPointerEvent (x y mask : Int) : Option Bytes := do
  let m ← packB mask; let x ← packH x; let y ← packH y
  pure ([5] ++ m ++ x ++ y)

/-- `clientCutText(message)`: Latin-1 encode (`none` = UnicodeEncodeError), `pack("!BxxxI", 6, len) + data` -/
def latin1 (s : List Char) : Option Bytes :=
  s.mapM fun c => if c.toNat < 256 then some (UInt8.ofNat c.toNat) else none

def wClientCutText (s : List Char) : Option Bytes := do
  let d ← latin1 s
  let n ← packI d.length
  pure ([6, 0, 0, 0] ++ n ++ d)

end Vnc
