import VncModel.PyStr
/-! Model of `command.parse_server` (command.py:317-355). -/
namespace Vnc

inductive Family | inet | inet6 | unix | unspec
deriving DecidableEq, Repr

/-- what the model takes from outside: validity of an IPv6 literal (`ipaddress.IPv6Address`)
    and `os.path.exists` -/
structure AddrEnv where
  isV6 : List Char → Bool
  pathExists : List Char → Bool

abbrev AddrResult := Family × List Char × Int

/-- the three `len(split)` cases -/
def portOf (split : List (List Char)) : Option Int :=
  match split with
  | [_] => some 5900
  | [_, d] => (pyInt d).map (· + 5900)
  | [_, m, p] => if m ≠ [] then none else pyInt p
  | _ => none

def defaultHost : List Char := "127.0.0.1".toList

def famOf (env : AddrEnv) (host : List Char) : Family :=
  if env.pathExists host then .unix else if isV4 host then .inet else .unspec

/-- `parse_server(s)`; `none` is `ValueError` -/
def parseServer (env : AddrEnv) (s : List Char) : Option AddrResult :=
  match s with
  | '[' :: rest =>
    match rest.span (· ≠ ']') with
    | (_, []) => none                       -- no closing bracket
    | (host, _ :: srv) =>
      if !env.isV6 host then none
      else
        let split := splitOnC ':' srv
        if split.head? != some [] then none   -- something between ']' and ':'
        else (portOf split).map fun p => (.inet6, host, p)
  | _ =>
    let split := splitOnC ':' s
    let h0 := split.headD []
    let host := if h0 = [] then defaultHost else h0
    (portOf split).map fun p => (famOf env host, host, p)

end Vnc
