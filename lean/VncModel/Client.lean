import VncModel.Canvas
import VncModel.Script
import VncModel.Keys
import VncModel.Pointer
/-!
# The client application on top of the protocol machine: waiter, capture / expect, the script chain, exit status
(client.py:188-191, 256-380, 459-463; command.py:59-77, 228-252)

`self.deferred` (the *waiter*) is what `commitUpdate` fires.  The script of vncdo is the callback chain of
`factory.deferred`: a callback that returns a Deferred suspends the chain until that Deferred fires (Twisted's
semantics: trusted, exercised by the correspondence).  Time is virtual: timers are `(due, what)` pairs in ticks.

Parameters from outside: the expected-image table (`Image.open(f)`: size and histogram, or failure), the duration of
a pause argument in ticks, and whether a maxrms text is met by a sum of squared histogram differences.
-/
namespace Vnc

structure Env where
  /-- `Image.open(file)`: `(w, h, histogram)`; `none` = the file cannot be opened -/
  image : Word → Option (Nat × Nat × List Nat)
  /-- `float(text) / warp` in ticks -/
  pauseTicks : Word → Nat
  /-- the `--delay` in ticks -/
  delayTicks : Nat
  /-- `math.sqrt(sum / len) <= float(text)` for a histogram of `len` bins -/
  within : Word → Nat → Nat → Bool
  /-- `key.isupper()` (forced caps only) -/
  isUpper : Word → Bool
  forceCaps : Bool
  incremental : Bool        -- `--incremental-refreshes`

/-- what `self.deferred` will do when `commitUpdate` fires -/
inductive Waiter
  | capture (file : Word) (box : Option (Int × Int × Int × Int))
  | expect (box : Int × Int × Int × Int) (rms : Word) (expected : List Nat)
  | plain                                   -- refreshScreen() from the API: nothing chained
deriving Repr

inductive ChainSt
  | notStarted
  | running                                 -- between callbacks (transient inside `advance`)
  | waitTimer (id : Nat)
  | waitDrag (id : Nat) (pts : List (Int × Int)) (tx ty : Int)   -- mouseDrag: remaining intermediate points, target
  | waitCommit
  | finished                                -- all commands done, connection closed by vncdo
  | failed (cls : String)                   -- a callback raised: the remaining callbacks are skipped
deriving Repr

/-- observable actions of the application layer -/
inductive Act
  | write (b : Bytes)
  | save (file : Word) (w h : Nat) (px : List RGB)      -- image written by capture
  | start (i : Nat)                                       -- command i starts
  | finish (i : Nat)                                      -- command i has finished
  | close                                                 -- client.transport.loseConnection()
  | chainFailed (cls : String)

structure App where
  env : Env
  cmds : List Cmd := []            -- remaining commands
  idx : Nat := 0                   -- index of the command being executed / next to execute
  chain : ChainSt := .notStarted
  waiter : Option Waiter := none
  ptr : PtrSt := PtrSt.init
  now : Nat := 0
  timers : List (Nat × Nat) := []  -- (id, due)
  nextTimer : Nat := 0
  completed : Bool := false        -- VNCDoCLIFactory.completed

/-- row-major pixels of an image -/
def Img.pixels (i : Img) : List RGB :=
  (List.range i.h).flatMap fun y => (List.range i.w).map fun x => i.get x y

/-- `Image.histogram()` of an RGB image: 256 red bins, 256 green, 256 blue -/
def histogram (i : Img) : List Nat :=
  let px := i.pixels
  (List.range 256).map (fun v => (px.filter fun p => p.1 == v).length) ++
  (List.range 256).map (fun v => (px.filter fun p => p.2.1 == v).length) ++
  (List.range 256).map (fun v => (px.filter fun p => p.2.2 == v).length)

/-- `sum((h - e) ** 2 for h, e in zip(hist, expected))` -/
def sqDiff (a b : List Nat) : Nat :=
  (List.zipWith (fun (x y : Nat) => (max x y - min x y) ^ 2) a b).foldl (· + ·) 0

/-- `framebufferUpdateRequest(incremental=inc)` for the whole desktop as announced -/
def requestAll (core : Core) (inc : Bool) : List Act :=
  match wUpdateRequest inc 0 0 core.width core.height with
  | some b => [.write b]
  | none => []

def addTimer (a : App) (dur : Nat) : App × Nat :=
  ({ a with timers := a.timers ++ [(a.nextTimer, a.now + dur)], nextTimer := a.nextTimer + 1 }, a.nextTimer)

/-- `_expectCompare`: does the screen match now? otherwise re-arm the waiter and ask for another update -/
def expectCompare (a : App) (core : Core) (screen : Option Img) (box : Int × Int × Int × Int) (rms : Word)
    (expected : List Nat) : App × List Act × Bool :=
  let matched : Bool :=
    match screen with
    | none => false
    | some s =>
      let hist := histogram (s.crop box.1 box.2.1 box.2.2.1 box.2.2.2)
      hist.length == expected.length && a.env.within rms (sqDiff hist expected) hist.length
  if matched then (a, [], true)
  else ({ a with waiter := some (.expect box rms expected) }, requestAll core screen.isSome, false)

/-- the result of starting one command: continue at once, or suspend -/
inductive Susp
  | cont
  | timer (id : Nat)
  | drag (id : Nat) (pts : List (Int × Int)) (tx ty : Int)
  | commit
  | fail (cls : String)

def keyActs (a : App) (op : KeyOp) (k : Word) : Option (List Act) :=
  (keyOpWrites op a.env.forceCaps (a.env.isUpper k) k).map fun ws => ws.map Act.write

def ptrActs (a : App) (op : PtrOp) : Option (App × List Act) :=
  let r := ptrStep a.ptr op
  (r.2.mapM ptrEvBytes).map fun ws => ({ a with ptr := r.1 }, ws.map Act.write)

/-- run one callback of the chain -/
def startCmd (a : App) (core : Core) (screen : Option Img) : Cmd → App × List Act × Susp
  | .keyPress k => match keyActs a .press k with | some w => (a, w, .cont) | none => (a, [], .fail "type")
  | .keyDown k => match keyActs a .down k with | some w => (a, w, .cont) | none => (a, [], .fail "type")
  | .keyUp k => match keyActs a .up k with | some w => (a, w, .cont) | none => (a, [], .fail "type")
  | .mouseMove x y => match ptrActs a (.move x y) with | some (a', w) => (a', w, .cont) | none => ({ a with ptr := { a.ptr with x := x, y := y } }, [], .fail "struct")
  | .mousePress b =>
    if b ≤ 0 then (a, [], .fail "value")
    else match ptrActs a (.click b.toNat) with | some (a', w) => (a', w, .cont) | none => (a, [], .fail "struct")
  | .mouseDown b =>
    if b ≤ 0 then (a, [], .fail "value")
    else match ptrActs a (.down b.toNat) with | some (a', w) => (a', w, .cont) | none => (a, [], .fail "struct")
  | .mouseUp b =>
    if b ≤ 0 then (a, [], .fail "value")
    else match ptrActs a (.up b.toNat) with | some (a', w) => (a', w, .cont) | none => (a, [], .fail "struct")
  | .mouseDrag x y =>
    match dragPoints a.ptr.x a.ptr.y x y 1 with
    | [] => match ptrActs a (.move x y) with | some (a', w) => (a', w, .cont) | none => (a, [], .fail "struct")
    | p :: rest =>
      match ptrActs a (.move p.1 p.2) with
      | none => (a, [], .fail "struct")
      | some (a', w) => let (a'', id) := addTimer a' 8192; (a'', w, .drag id rest x y)     -- pause(0.2)
  | .pauseArg d => let (a', id) := addTimer a (a.env.pauseTicks d); (a', [], .timer id)
  | .pauseDelay => let (a', id) := addTimer a a.env.delayTicks; (a', [], .timer id)
  | .paste t => match wClientCutText t with | some b => (a, [.write b], .cont) | none => (a, [], .fail "unicode")
  | .captureScreen f => ({ a with waiter := some (.capture f none) }, requestAll core a.env.incremental, .commit)
  | .captureRegion f x y wd h =>
    ({ a with waiter := some (.capture f (some (x, y, x + wd, y + h))) }, requestAll core false, .commit)
  | .expectScreen f rms =>
    match a.env.image f with
    | none => (a, [], .fail "os")
    | some (wd, h, hist) =>
      let r := expectCompare a core screen (0, 0, wd, h) rms hist
      (r.1, r.2.1, if r.2.2 then .cont else .commit)
  | .expectRegion f x y rms =>
    match a.env.image f with
    | none => (a, [], .fail "os")
    | some (wd, h, hist) =>
      let r := expectCompare a core screen (x, y, x + wd, y + h) rms hist
      (r.1, r.2.1, if r.2.2 then .cont else .commit)

/-- run callbacks until one suspends, fails, or the list is exhausted (then vncdo closes the connection) -/
def advance (core : Core) (screen : Option Img) : Nat → App → App × List Act
  | 0, a => (a, [])
  | fuel+1, a =>
    match a.cmds with
    | [] => ({ a with chain := .finished, completed := true }, [.close])
    | c :: rest =>
      let r := startCmd { a with cmds := rest } core screen c
      let a1 := r.1
      match r.2.2 with
      | .cont =>
        let r' := advance core screen fuel { a1 with idx := a.idx + 1, chain := .running }
        (r'.1, [Act.start a.idx] ++ r.2.1 ++ [Act.finish a.idx] ++ r'.2)
      | .timer id => ({ a1 with chain := .waitTimer id }, [Act.start a.idx] ++ r.2.1)
      | .drag id pts tx ty => ({ a1 with chain := .waitDrag id pts tx ty }, [Act.start a.idx] ++ r.2.1)
      | .commit => ({ a1 with chain := .waitCommit }, [Act.start a.idx] ++ r.2.1)
      | .fail cls => ({ a1 with chain := .failed cls }, [Act.start a.idx] ++ r.2.1 ++ [Act.chainFailed cls])

/-- the current command has finished: continue with the rest of the chain -/
def resume (core : Core) (screen : Option Img) (a : App) : App × List Act :=
  let r := advance core screen (a.cmds.length + 1) { a with idx := a.idx + 1, chain := .running }
  (r.1, [Act.finish a.idx] ++ r.2)

/-- `vncConnectionMade` -> `factory.clientConnectionMade` -> `deferred.callback(protocol)`: the chain starts -/
def onConnected (core : Core) (screen : Option Img) (a : App) : App × List Act :=
  match a.chain with
  | .notStarted => advance core screen (a.cmds.length + 1) { a with chain := .running }
  | _ => (a, [])

/-- `commitUpdate`: fire the waiter (if any) -/
def onCommit (core : Core) (screen : Option Img) (a : App) : App × List Act :=
  match a.waiter with
  | none => (a, [])
  | some w =>
    let a := { a with waiter := none }
    match w with
    | .plain => (a, [])
    | .capture f box =>
      match screen with
      | none =>
        -- the completed update carried no pixel data (only a cursor shape, say): nothing to save yet;
        -- `_captureSave` waits for the next update (`refreshScreen()`: a full, non-incremental request)
        ({ a with waiter := some (.capture f box) }, requestAll core false)
      | some s =>
        let img := match box with
          | none => s
          | some (x0, y0, x1, y1) => s.crop x0 y0 x1 y1
        let sv := [Act.save f img.w img.h img.pixels]
        match a.chain with
        | .waitCommit => let r := resume core screen a; (r.1, sv ++ r.2)
        | _ => (a, sv)
    | .expect box rms expected =>
      let r := expectCompare a core screen box rms expected
      if r.2.2 then
        match a.chain with
        | .waitCommit => let r' := resume core screen r.1; (r'.1, r.2.1 ++ r'.2)
        | _ => (r.1, r.2.1)
      else (r.1, r.2.1)

/-- a timer fires (`reactor.callLater` callback) -/
def onTimer (core : Core) (screen : Option Img) (a : App) (id : Nat) : App × List Act :=
  let a := { a with timers := a.timers.filter fun t => t.1 ≠ id }
  match a.chain with
  | .waitTimer i => if i = id then resume core screen a else (a, [])
  | .waitDrag i pts tx ty =>
    if i ≠ id then (a, [])
    else
      match pts with
      | p :: rest =>
        match ptrActs a (.move p.1 p.2) with
        | none => ({ a with chain := .failed "struct" }, [.chainFailed "struct"])
        | some (a', w) => let (a'', id') := addTimer a' 8192; ({ a'' with chain := .waitDrag id' rest tx ty }, w)
      | [] =>
        match ptrActs a (.move tx ty) with
        | none => ({ a with chain := .failed "struct" }, [.chainFailed "struct"])
        | some (a', w) => let r := resume core screen a'; (r.1, w ++ r.2)
  | _ => (a, [])

/-! ## exit status of vncdo (command.py:59-77, 509-513) -/

inductive ExitEv
  | connectFailed                 -- clientConnectionFailed
  | lost (clean : Bool)           -- clientConnectionLost: ConnectionDone or anything else
  | timeout                       -- the --timeout timer
deriving DecidableEq, Repr

structure ExitSt where
  status : Nat := 1               -- reactor.exit_status (1 until something is decided)
  stopAt : Option Nat := none     -- time at which the first reactor.stop fires (now + 0.1 s)
deriving Repr

/-- `done(code)`: last writer wins; the first call schedules `reactor.stop` 0.1 s later -/
def exitDone (e : ExitSt) (now code : Nat) : ExitSt :=
  { status := code, stopAt := some (match e.stopAt with | some t => t | none => now + 4096) }

def exitStep (completed : Bool) (e : ExitSt) (now : Nat) : ExitEv → ExitSt
  | .connectFailed => exitDone e now 10
  | .lost clean => if clean && completed then exitDone e now 0 else exitDone e now 10
  | .timeout => exitDone e now 10

end Vnc
