import VncModel.Keys
import VncModel.Pointer
/-!
# Every library operation that writes to the server (client.py / rfb.py), as one state machine

State: the pointer state and the desktop geometry (`self.width`, `self.height`) that
`framebufferUpdateRequest()` defaults to.  `libStep` returns the `transport.write` calls of one operation;
`none` = the operation raises (struct.error / TypeError / UnicodeEncodeError).
-/
namespace Vnc

inductive LibOp
  | key (op : KeyOp) (forceCaps upper : Bool) (key : List Char)     -- keyPress / keyDown / keyUp
  | ptr (op : PtrOp)                                                  -- mouseMove / Down / Up / Press / Drag
  | paste (text : List Char)                                          -- paste -> clientCutText
  | refresh (inc : Bool)                      -- refreshScreen / captureScreen / expect: whole-desktop request
  | updateRequest (x y w h : Nat) (inc : Bool)                        -- framebufferUpdateRequest(x, y, w, h, inc)
  | setPixelFormat (pf : PF)
  | setEncodings (encs : List Int)
  | keyEvent (key : Nat) (down : Bool)
  | pointerEvent (x y mask : Nat)

structure LibSt where
  ptr : PtrSt
  width : Nat
  height : Nat

def libStep (st : LibSt) : LibOp → Option (LibSt × List Bytes)
  | .key op fc up k => (keyOpWrites op fc up k).map fun ws => (st, ws)
  | .ptr op =>
    let r := ptrStep st.ptr op
    (r.2.mapM ptrEvBytes).map fun ws => ({ st with ptr := r.1 }, ws)
  | .paste t => (wClientCutText t).map fun w => (st, [w])
  | .refresh inc => (wUpdateRequest inc 0 0 st.width st.height).map fun w => (st, [w])
  | .updateRequest x y w h inc => (wUpdateRequest inc x y w h).map fun b => (st, [b])
  | .setPixelFormat pf => some (st, [wSetPixelFormat pf])
  | .setEncodings es => (wSetEncodings es).map fun ws => (st, ws)
  | .keyEvent k d => (wKeyEvent k d).map fun w => (st, [w])
  | .pointerEvent x y m => (wPointerEvent x y m).map fun w => (st, [w])

/-- a history of operations: all writes in order; stops at the first operation that raises -/
def libRun (st : LibSt) : List LibOp → LibSt × List Bytes × Bool
  | [] => (st, [], true)
  | op :: ops =>
    match libStep st op with
    | none => (st, [], false)
    | some (st', ws) =>
      let r := libRun st' ops
      (r.1, ws ++ r.2.1, r.2.2)

end Vnc
