import VncModel.Wire
/-!
# Pointer operations (client.py:223-254 `mousePress/mouseDown/mouseUp`, 360-380 `mouseMove/mouseDrag`; rfb.py `pointerEvent`)

State: `x`, `y`, `buttons` (class attributes, initially 0).  An event is `(x, y, buttonmask)` as handed to
`pointerEvent`.  `mouseDrag` pauses 0.2 s after every intermediate point (timing is part of the `Client` engine).
-/
namespace Vnc

structure PtrSt where
  x : Int
  y : Int
  buttons : Nat
deriving DecidableEq, Repr

def PtrSt.init : PtrSt := ⟨0, 0, 0⟩

abbrev PtrEv := Int × Int × Nat

/-- `buttons | (1 << (button - 1))` -/
def setBtn (m : Nat) (button : Nat) : Nat := m ||| (1 <<< (button - 1))
/-- `buttons & ~(1 << (button - 1))` on a non-negative int -/
def clearBtn (m : Nat) (button : Nat) : Nat := (m ||| (1 <<< (button - 1))) ^^^ (1 <<< (button - 1))

inductive PtrOp
  | move (x y : Int)
  | down (b : Nat)
  | up (b : Nat)
  | click (b : Nat)
  | drag (x y : Int) (step : Nat)
deriving DecidableEq, Repr

/-- `range(0, dmax, step)` for `step ≥ 1` -/
def pyRange (dmax step : Nat) : List Nat := (List.range ((dmax + step - 1) / step)).map (· * step)

/-- the intermediate points of `mouseDrag(x, y, step)` started at `(ox, oy)`; Python `//` is floor division,
    which for the positive divisor `dmax` is Lean's `Int./` -/
def dragPoints (ox oy x y : Int) (step : Nat) : List (Int × Int) :=
  let dx := x - ox
  let dy := y - oy
  let dmax := max dx.natAbs dy.natAbs
  (pyRange dmax step).map fun (s : Nat) => (ox + dx * (s : Int) / (dmax : Int), oy + dy * (s : Int) / (dmax : Int))

def moveTo (st : PtrSt) (x y : Int) : PtrSt × List PtrEv :=
  ({ st with x := x, y := y }, [(x, y, st.buttons)])

/-- one operation: new state and the events it sends, in order (buttons 1.., step ≥ 1) -/
def ptrStep (st : PtrSt) : PtrOp → PtrSt × List PtrEv
  | .move x y => moveTo st x y
  | .down b => let m := setBtn st.buttons b; ({ st with buttons := m }, [(st.x, st.y, m)])
  | .up b => let m := clearBtn st.buttons b; ({ st with buttons := m }, [(st.x, st.y, m)])
  | .click b =>
    let m1 := setBtn st.buttons b
    let m2 := clearBtn m1 b
    ({ st with buttons := m2 }, [(st.x, st.y, m1), (st.x, st.y, m2)])
  | .drag x y step =>
    let pts := dragPoints st.x st.y x y step
    ({ st with x := x, y := y }, (pts.map fun p => (p.1, p.2, st.buttons)) ++ [(x, y, st.buttons)])

def ptrRun (st : PtrSt) : List PtrOp → PtrSt × List PtrEv
  | [] => (st, [])
  | op :: ops =>
    let r := ptrStep st op
    let r' := ptrRun r.1 ops
    (r'.1, r.2 ++ r'.2)

/-- bytes of one event; `none` = struct.error -/
def ptrEvBytes (e : PtrEv) : Option Bytes := wPointerEvent e.1 e.2.1 e.2.2

end Vnc
