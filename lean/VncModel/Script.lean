import VncModel.PyStr
import VncModel.Generated.Tables
/-!
# `build_command_list` (command.py:122-225)

`compile` walks the argument list exactly as the `while args:` loop does: the `elif` chain in source order,
`args.pop(0)` on an empty list is IndexError, `int()`/`float()` failures are ValueError, an unknown word that is
an existing file is replaced by its shell-style tokens, anything else is CommandParseError.

Outside the model (parameters): the file system (`os.path.isfile`, the tokens `shlex` yields for a script file,
the text `open(f).read()` returns, whether `open` fails) and `float()` (which strings it accepts).
-/
namespace Vnc

abbrev Word := List Char

structure FS where
  isFile : Word → Bool
  tokens : Word → List Word          -- list(shlex(open(f), posix=True, whitespace_split=True))
  read : Word → Option (List Char)   -- open(f).read(); none = OSError
  isFloat : Word → Bool              -- float(w) does not raise

inductive PErr | index | value | parse | os | fuel
deriving DecidableEq, Repr

/-- one operation registered on the factory Deferred: the client method and its arguments.
    Float arguments are kept as their source text (the value is `float(text)`, divided by warp for pauses). -/
inductive Cmd
  | keyPress (k : Word)
  | keyDown (k : Word)
  | keyUp (k : Word)
  | mouseMove (x y : Int)
  | mousePress (b : Int)
  | mouseDown (b : Int)
  | mouseUp (b : Int)
  | mouseDrag (x y : Int)
  | pauseArg (secs : Word)            -- client.pause(float(secs) / warp)
  | pauseDelay                        -- client.pause(delay)   (the --delay option, between commands)
  | paste (content : List Char)
  | captureScreen (file : Word)
  | captureRegion (file : Word) (x y w h : Int)
  | expectScreen (file : Word) (rms : Word)
  | expectRegion (file : Word) (x y : Int) (rms : Word)
deriving DecidableEq, Repr

/-- `os.path.splitext(p)[1][1:]` -/
def extOf (p : Word) : Word :=
  let base := (p.reverse.takeWhile (· ≠ '/')).reverse      -- after the last '/'
  let stripped := base.dropWhile (· = '.')                   -- leading dots do not start an extension
  if stripped.contains '.' then (stripped.reverse.takeWhile (· ≠ '.')).reverse else []

def supportedFormat (ext : Word) : Bool := Tables.SUPPORTED_FORMATS.any fun f => f.toList == ext

def popInt (args : List Word) : Except PErr (Int × List Word) :=
  match args with
  | [] => .error .index
  | a :: rest => match pyInt a with
    | some v => .ok (v, rest)
    | none => .error .value

def popFloat (fs : FS) (args : List Word) : Except PErr (Word × List Word) :=
  match args with
  | [] => .error .index
  | a :: rest => if fs.isFloat a then .ok (a, rest) else .error .value

def popWord (args : List Word) : Except PErr (Word × List Word) :=
  match args with
  | [] => .error .index
  | a :: rest => .ok (a, rest)

/-- `typefile` content -/
def typefileCmds (delay : Bool) (content : List Char) : List Cmd :=
  (content.filter (· ≠ '\r')).flatMap fun c =>
    let k : Word := if c = '\n' then "enter".toList else if c = '\t' then "tab".toList else [c]
    Cmd.keyPress k :: (if delay then [Cmd.pauseDelay] else [])

/-- `s.replace("\r\n", "\n")` -/
def crlf : List Char → List Char
  | '\r' :: '\n' :: rest => '\n' :: crlf rest
  | c :: rest => c :: crlf rest
  | [] => []

def w (s : String) : Word := s.toList

/-- one iteration of the `while args:` loop after `cmd = args.pop(0)`:
    the commands it registers and the remaining arguments; `inr` = the word is a script file (tokens prepended) -/
def compileOne (fs : FS) (delay : Bool) (cmd : Word) (args : List Word) :
    Except PErr (List Cmd × List Word) :=
  if cmd = w "key" then do
    let (k, a) ← popWord args; pure ([.keyPress k], a)
  else if cmd = w "kdown" ∨ cmd = w "keydown" then do
    let (k, a) ← popWord args; pure ([.keyDown k], a)
  else if cmd = w "kup" ∨ cmd = w "keyup" then do
    let (k, a) ← popWord args; pure ([.keyUp k], a)
  else if cmd = w "move" ∨ cmd = w "mousemove" then do
    let (x, a) ← popInt args; let (y, a) ← popInt a; pure ([.mouseMove x y], a)
  else if cmd = w "click" then do
    let (b, a) ← popInt args; pure ([.mousePress b], a)
  else if cmd = w "mdown" ∨ cmd = w "mousedown" then do
    let (b, a) ← popInt args; pure ([.mouseDown b], a)
  else if cmd = w "mup" ∨ cmd = w "mouseup" then do
    let (b, a) ← popInt args; pure ([.mouseUp b], a)
  else if cmd = w "type" then do
    let (t, a) ← popWord args
    pure (t.flatMap (fun c => Cmd.keyPress [c] :: (if delay then [Cmd.pauseDelay] else [])), a)
  else if cmd = w "typefile" then do
    let (f, a) ← popWord args
    match fs.read f with
    | none => .error .os
    | some content => pure (typefileCmds delay content, a)
  else if cmd = w "pastefile" then do
    let (f, a) ← popWord args
    match fs.read f with
    | none => .error .os
    | some content => pure ([.paste (crlf content)], a)
  else if cmd = w "capture" then do
    let (f, a) ← popWord args
    if supportedFormat (extOf f) then pure ([.captureScreen f], a) else .error .parse
  else if cmd = w "expect" then do
    let (f, a) ← popWord args; let (r, a) ← popFloat fs a; pure ([.expectScreen f r], a)
  else if cmd = w "rcapture" then do
    let (f, a) ← popWord args
    let (x, a) ← popInt a; let (y, a) ← popInt a; let (wd, a) ← popInt a; let (h, a) ← popInt a
    if supportedFormat (extOf f) then pure ([.captureRegion f x y wd h], a) else .error .parse
  else if cmd = w "rexpect" then do
    let (f, a) ← popWord args
    let (x, a) ← popInt a; let (y, a) ← popInt a; let (r, a) ← popFloat fs a
    pure ([.expectRegion f x y r], a)
  else if cmd = w "pause" ∨ cmd = w "sleep" then do
    let (d, a) ← popFloat fs args; pure ([.pauseArg d], a)
  else if cmd = w "drag" then do
    let (x, a) ← popInt args; let (y, a) ← popInt a; pure ([.mouseDrag x y], a)
  else if fs.isFile cmd then pure ([], fs.tokens cmd ++ args)
  else .error .parse

/-- `build_command_list(factory, args, delay, warp)`; `delay` = a non-zero `--delay` was given.
    Fuel bounds the number of loop iterations (a script file that includes itself loops forever in Python). -/
def compile (fs : FS) (delay : Bool) : Nat → List Word → Except PErr (List Cmd)
  | _, [] => .ok []
  | 0, _ :: _ => .error .fuel
  | fuel+1, cmd :: args => do
    let (cs, rest) ← compileOne fs delay cmd args
    let tail ← compile fs delay fuel rest
    pure (cs ++ (if delay ∧ rest ≠ [] then [Cmd.pauseDelay] else []) ++ tail)

end Vnc
