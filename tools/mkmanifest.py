#!/usr/bin/env python3
"""Regenerate MANIFEST.json from the table below (one entry per claimed property)."""
import json, os, subprocess
HERE = os.path.dirname(os.path.abspath(__file__))
VERIF = os.path.dirname(HERE)
props = [json.loads(l) for l in open(os.path.join(VERIF, "properties.jsonl"))]

CLAIMED = {
 "C20": dict(engine="Script", design_ref="DESIGN.md section 8 C20",
   technique="Lean 4 proof: parser = grammar (accepts/sound/rejects/unique) + differential correspondence of the Lean model with parse_server",
   text="Lean theorems C20_accepts / C20_sound / C20_rejects / C20_unique: the model of parse_server accepts exactly the documented grammar ADDRESS[:DISPLAY|::PORT] with exactly the documented host, port and family, for all strings and all values of the IPv6-validity and path-existence predicates. The model is tied to command.parse_server on every run by a differential run (generated + mutated strings, all strings of length <= 5 over {a,1,:,[,],.}) and the implementation is also compared directly with an independent recogniser of the grammar (the search).",
   note="Trusted: Lean kernel + standard axioms; CPython str/int/ipaddress semantics as modelled in VncModel/PyStr.lean (int(): ASCII only); correspondence reach is bounded by its generators."),
 "C04": dict(engine="Client", design_ref="DESIGN.md section 8 C04",
   technique="Lean 4 proof over the model of _decodeKey/keyPress/keyDown/keyUp with the key table regenerated from source (decide in the kernel) + differential correspondence + Lean Spec evaluated against the implementation",
   text="Lean theorems: the key table extracted from the source on this run equals the X11 keysym table of the Spec (C04_keymap, decide); every name / every character / every chord decodes to the keysyms of its elements left to right (C04_name, C04_char, C04_decode_chord, for all chords); press = presses then releases in reverse, keydown/keyup only presses/releases, each event the exact 8-byte KeyEvent a server parses back (C04_op_writes, C04_wire); forced caps wraps exactly upper-case letters and the shifted symbols (C04_forcecaps); type/typefile expansions (C04_type, C04_typefile). The model is tied to client.py by a differential run on one long-lived client and the implementation is compared with the Lean Spec itself (vncdrv speckey).",
   note="Trusted: Lean kernel + standard axioms; str.isupper is a parameter; str.split/dict.get/ord/struct.pack as modelled; `slash`=backslash is taken from the code."),
 "C05": dict(engine="Client", design_ref="DESIGN.md section 8 C05",
   technique="Lean 4 proof: refinement of the pointer model to a position + held-set spec for all histories, integer lemmas for the drag path + differential correspondence and a direct property oracle on a Deferred chain with a virtual clock",
   text="Lean theorems: for every history of move/down/up/click/drag the model sends exactly the events of the abstract position + held-button-set semantics (C05_invariant, by induction over the history through C05_step); a click is one press and one release (C05_click); a drag ends exactly on the target with the mask unchanged (C05_drag_last, C05_drag_mask), its points are floors of the exact segment points, inside the bounding box, monotone, in range (C05_drag_on_segment, C05_drag_in_box, C05_drag_monotone, C05_in_range), zero-length drags send one event (C05_drag_zero); the 6-byte PointerEvent parses back (C05_wire). Correspondence: histories executed through a real Deferred chain with task.Clock are compared byte for byte with the model, and checked directly against the property (incl. 0.2 s spacing and that no later operation starts before a drag has finished).",
   note="Trusted: Lean kernel + standard axioms; Python int bit operations and floor division as modelled; Twisted Deferred/inlineCallbacks/callLater exercised under task.Clock, not proved. Hypotheses: positions 0..65535, buttons 1..8, step >= 1."),
 "C19": dict(engine="Client", design_ref="DESIGN.md section 8 C19",
   technique="Lean 4 proof: every history of writing operations serialises to a stream that the RFC 6143 client-message parser parses back to exactly the operations' messages (induction over histories) + byte-exact differential correspondence",
   text="Lean theorems: C19_stream - for every history of library operations with in-range arguments (keys, pointer incl. drag, paste, refresh/capture requests, explicit update requests, setPixelFormat, setEncodings, raw key/pointer events) the concatenated writes parse, with the independent RFC 6143 7.5 parser of VncSpec/C2S.lean, to exactly the messages the operations stand for (no framing loss anywhere in the stream); C19_parse_stream/C19_parse_encode (RFC round trip), C19_paste (Latin-1 bytes behind the exact length), C19_setencodings_split, C19_sizes, C19_pf_roundtrip. Correspondence: random histories on the real client, every transport.write compared with the model; the stream is also parsed by a Python transcription of the RFC parser and compared with the operations' arguments.",
   note="Trusted: Lean kernel + standard axioms; struct.pack / str.encode semantics as modelled (VncModel/Wire.lean); hypotheses: in-range arguments (setEncodings with an encoding outside s32 is not atomic - outside the property)."),
 "C01": dict(engine="Rfb", design_ref="DESIGN.md section 8 C01",
   technique="Lean 4 proof: generic segmentation theorem for the buffering machine (feedAll_flatten) instantiated with the model of every RFBClient state (rfb_progress) + differential correspondence over chunkings, exhaustive chunking enumeration in the thorough tier",
   text="Lean theorems: feedAll_flatten (for EVERY buffering machine that makes progress, any chunking of a stream yields the same final state, residual buffer and outputs as the unsplit stream - all 2^(n-1) chunkings at once, by induction), rfb_progress (the model of RFBClient with all its _handle* states is such a machine), hence C01_seg_indep / C01_chunkings / C01_observable for every configuration, every inflate behaviour and every byte stream, valid or not; VMware variant: C01_vmware_no_match, C01_vmware_match, C01_vmware_pattern state the documented workaround exactly. The model is tied to rfb.py/client.py by a differential run (sessions x chunking families x 4 client classes, callbacks with arguments, writes, close, exceptions) and the implementation is checked directly: trace and screen of every chunking equal those of the unsplit run.",
   note="Trusted: Lean kernel + standard axioms; zlib as a parameter (inflate outputs replayed); Twisted transport rule (nothing delivered after loseConnection / an escaping exception); Pillow. The correspondence sees what its generators produce (distribution in the evidence)."),
 "C15": dict(engine="Rfb", design_ref="DESIGN.md section 8 C15",
   technique="Lean 4 proof: Progress of the RFBClient model => the dispatch loop terminates with at most 2*bytes+1 handler calls for every byte string and chunking; total Lean functions for handler-internal loops + budgeted differential correspondence on hostile streams",
   text="Lean theorems: rfb_progress (every zero-length expectation - empty reason, empty name, empty clipboard text, zero colours, zero-area rectangles, zero sub-rectangles, empty compressed block, zero-size cursor - is followed by a halt or a state that needs at least one byte), C15_no_spin / C15_no_spin_all (no fuel exhaustion for any state, chunk, chunk list), C15_steps_linear (<= 2*bytes+1 handler invocations per dataReceived), C15_dead_stays (nothing is parsed after a close) and the named zero-length corollaries; handler-internal loops are total structural recursions in the model. Correspondence: grammar-derived streams with length/count fields set to 0/1/max, truncations, mutations, random tails and hostile ZRLE blocks run on the real clients under a call-count budget (sys.setprofile) and a wall-clock alarm; a spin or super-linear call count is a violation with the stream as replay.",
   note="Trusted: Lean kernel + standard axioms; zlib expansion and Pillow canvas allocation are outside the property (MemoryError cases are counted and skipped)."),
 "C03": dict(engine="Rfb", design_ref="DESIGN.md section 8 C03",
   technique="Lean 4 proof: version selection for all banners, security-type choice, step invariants (success only after security succeeded; close is final) and whole-conversation theorems through the dispatch loop (big-step Runs) + reactive scripted-server correspondence, all 10^6 banners exhaustively in the thorough tier",
   text="Lean theorems over the handshake states of the RFBClient model with the version/auth tables regenerated from source: C03_version (for every banner the reply is the highest of 3.3/3.7/3.8 not above the server's, nothing below 3.3), C03_sectype/C03_sectype_chosen (only an offered and supported type, the largest; else close with nothing written), C03_clientinit_sources and C03_made_only_after_serverinit (ClientInit and 'established' only after security succeeded under the version's rules), C03_close_final (every failure ends the session), C03_result (every SecurityResult code x version), C03_reason (any reason length incl. zero), C03_no_password (three client classes), and whole conversations through the real dispatch loop for symbolic reasons: C03_refused_33, C03_failed_38, C03_none_37, C03_none_38; chunking independence from C01_seg_indep. Correspondence: a scripted RFC 6143 server (reactive and pre-concatenated) against the three real client classes; the client's transcript is compared with the RFC transcript and with the model.",
   note="Trusted: Lean kernel + standard axioms; DES response / ARD reply are parameters (C14); prompts patched. Hypothesis: reactive server for the no-password path (named exactly by C03_close_final)."),
 "C12": dict(engine="Client", design_ref="DESIGN.md section 8 C12",
   technique="Lean 4 proof: refinement of the screen model (Pillow images as exact pixel functions) to a reference canvas, by induction over arbitrary callback histories + pixel-exact differential correspondence with the real client and Pillow",
   text="Lean theorems: C12_refines - after any history of rectangle updates and desktop-size changes (and cursor-shape updates under the no-cursor option) the model's screen has the size and, at every position, the pixel of the reference canvas (latest write wins, never-sent pixels black, a resize sets the size exactly and forgets what no longer fits); the property's clauses separately: C12_update_pixels (nothing outside the rectangle changes), C12_growth (growing preserves earlier content, new area black), C12_first (first rectangle anywhere), C12_resize, C12_nocursor. Correspondence: random callback histories on a real VNCDoToolClient in each of the five image modes and the three cursor options; size and all pixels compared with the reference canvas and with the Lean model.",
   note="Trusted: Lean kernel + standard axioms; Pillow (frombytes raw modes, new, paste with clipping and 1-bit masks) modelled as exact pixel functions; canvas allocation (memory) not modelled. C12_refines assumes no cursor shape is being composited (the local-cursor feature is covered by the model correspondence only)."),
 "C13": dict(engine="Rfb", design_ref="DESIGN.md section 8 C13",
   technique="Lean 4 proof over tables regenerated from source: bit-level channel mapping of every accepted format, accept-or-announce for every pixel-format block, advertised encodings for all option combinations + differential correspondence with rendered probe pixels",
   text="Lean theorems with PF2IM / RGB32 / BGR16 / SUPPORTED_ENCODINGS / factory defaults extracted from the source on this run: C13_modes (for every accepted format and every pixel value the raw mode the client renders with yields exactly the RFC's red/green/blue channels), C13_mode_size (rendering and framing use the same pixel size), C13_accept_or_set and C13_in_force (any native format the client can render is kept, anything else is replaced by an announced RGB32 / BGR16-for-3.889, and the format the client interprets data in changes only together with the SetPixelFormat it writes), C13_pf_stable (no later state changes it), C13_encodings / C13_only_supported / C13_numbers / C13_defaults (the advertised list is exactly preferred + the pseudo-encodings the options ask for, all decodable). Correspondence: random 16-byte blocks x versions x 32 option combinations x preferred encodings on the real library/CLI clients, writes after ServerInit and rendered probe pixels compared with the RFC and the model; BGR16 exhaustively (65536 values) in the thorough tier.",
   note="Trusted: Lean kernel + standard axioms; Pillow raw modes as exact pixel functions (compared on probes). Hypothesis: the preferred encoding is a real encoding with a decoder."),
 "C10": dict(engine="Script", design_ref="DESIGN.md section 8 C10",
   technique="Lean 4 proof: the model of build_command_list accepts exactly the sentences of the command grammar with exactly their operations (soundness, completeness, uniqueness, include, reject) + differential correspondence and an independent grammar recogniser against the implementation",
   text="Lean theorems: C10_sound and C10_complete (compile = ok cs iff the word list is a sentence of the grammar of VncSpec/Grammar.lean with exactly the operations cs, in order - all commands and aliases, arities and argument types, script files standing for their tokenised contents, to any nesting depth), C10_unique, C10_include, C10_reject / C10_reject_general / C10_no_parse (a word that is neither a command nor an existing file: no operation list at all), C10_capture_ext with SUPPORTED_FORMATS re-extracted from the source (C10_formats), C10_command_words (only the exact command words are commands). Correspondence: generated scripts (all commands, aliases, bad arities/types, near-miss words, nested script files written to a temp dir with quoting and comments, capture extensions, delay/warp settings) through the real build_command_list; registered (method, args) lists and exception classes compared with the model and with an independent recogniser; build_tool is checked to attempt no connection on any error and to read '-' from stdin.",
   note="Trusted: Lean kernel + standard axioms; parameters: os.path.isfile, shlex token lists of files (shlex is modelled for C18), file contents, float(); int() and os.path.splitext as modelled. Hypothesis: acyclic script-file includes (a self-including file loops forever before connecting; compile is fuelled)."),
 "C02": dict(engine="Rfb", design_ref="DESIGN.md section 8 C02",
   technique="Lean 4 proof: for every well-formed encoder decision the decoder model consumes exactly the RFC byte layout and emits exactly the RFC's paint instructions (big-step Runs over the dispatch loop, induction over rectangles / sub-rectangles), composed with the canvas refinement (C12) and the channel mapping (C13) + pixel-exact differential correspondence against an independent conforming encoder",
   text="Lean theorems (part A, proved): C02_rect - for Raw, CopyRect, RRE, CoRRE (any number of sub-rectangles), cursor, DesktopSize and the QEMU marker, any rectangle and pixel size, the model of the client consumes exactly header+body and emits exactly the specified paint instructions (CopyRect with the exact source and destination); C02_update / C02_update_lastrect - a whole FramebufferUpdate (exact count or LastRect) yields begin, all paint instructions in order, commit with the updated areas, and leaves the following bytes for the next message; C02_bell_after (the property's probe), C02_pf_kept, C02_desktop_geometry; pixels on the screen then follow from C12_refines and C13_modes. Hextile and ZRLE: specified in VncSpec (Hextile.lean), proofs in progress - until they are checked these two encodings rest on the correspondence only (level_note). Correspondence: an independent conforming encoder (harness/rfbgen.py: every encoding and sub-encoding, sizes around 16/64 multiples, palettes 2..127, runs around 255/256/510, all five pixel formats, LastRect/DesktopSize/QEMU) drives the real client; after every update the callback trace and every screen pixel are compared with what the encoder encoded and with the Lean model.",
   note="Trusted: Lean kernel + standard axioms; zlib as a parameter; Pillow as exact pixel functions. PARTIAL: Hextile/ZRLE decoding is covered by the correspondence and the pixel oracle, their Lean theorems are not yet part of the audited set."),
}

def main():
    fixes = subprocess.run(["git", "-C", os.environ.get("VERIF_REPO", "/repo"), "log", "--format=%h %s", "5de2a17..HEAD"],
                           stdout=subprocess.PIPE, text=True).stdout.strip().split("\n")
    checks = []
    for p in props:
        c = CLAIMED.get(p["id"])
        if not c:
            continue
        checks.append({
            "property_id": p["id"],
            "quick_cmd": "./check %s quick" % p["id"],
            "thorough_cmd": "./check %s thorough" % p["id"],
            "evidence_file": "evidence/%s.json" % p["id"],
            "replay_cmd_template": "./check --replay {path}",
            "engine": c["engine"],
            "level_claimed": {"category": "proof", "text": c["text"], "design_ref": c["design_ref"]},
            "level_note": c["note"],
            "technique": c["technique"],
        })
    m = {
        "version": 1,
        "setup_cmd": "cd lean && lake build VncSpec VncModel VncProofs vncdrv",
        "hooks": {
            "guard": "SIBSON_VNCDOTOOL_VERIF",
            "enable": "no source hooks are needed: the harness drives the real classes in-process (in-memory transport, subclassing, patching of reactor/time/os.urandom); the guard variable is set by the harness but nothing in /repo reads it",
            "baseline_off_cmd": "cd /repo && /venv/bin/python -m pytest -ra -q -p no:cacheprovider --timeout=900 --continue-on-collection-errors",
            "source_commits": [f for f in fixes if f],
            "add_only": False,
        },
        "engines": [
            {"name": "Expect", "path": "lean/VncModel/Expect.lean", "serves_properties": ["C01", "C15", "C16", "C17"], "kind_free_text": "generic buffering machine + segmentation theorems (Lean)"},
            {"name": "Script", "path": "lean/VncModel/Address.lean", "serves_properties": ["C10", "C20"], "kind_free_text": "pure functions of command.py (Lean model + theorems)"},
            {"name": "Rfb", "path": "lean/VncModel/Rfb.lean", "serves_properties": ["C01", "C02", "C03", "C13", "C15"], "kind_free_text": "RFBClient receive path: every _handle* state as an instance of the buffering machine (Lean model + theorems)"},
            {"name": "Client", "path": "lean/VncModel/Keys.lean", "serves_properties": ["C04", "C05", "C12", "C19"], "kind_free_text": "VNCDoToolClient key / pointer operations and serialisers (Lean model + theorems)"},
            {"name": "harness", "path": "harness/", "serves_properties": sorted(CLAIMED), "kind_free_text": "Python: implementation drivers, generators, correspondence with the Lean driver (lean/Driver/Main.lean), spec oracles"},
        ],
        "checks": checks,
        "notes": "Machine-checked proof in Lean 4 over a hand-written model, tied to /repo on every run by regenerated tables (tools/extract_tables.py) and a differential correspondence run; see DESIGN.md. source_commits are the fix: commits (genuine defects repaired, see known_findings.txt); there are no hook commits.",
        "not_applicable": [{"property_id": p["id"], "reason": "check not built yet (build in progress, DESIGN.md section 11); to be claimed at level proof"}
                           for p in props if p["id"] not in CLAIMED],
    }
    json.dump(m, open(os.path.join(VERIF, "MANIFEST.json"), "w"), indent=1)
    print("claimed:", sorted(CLAIMED))

if __name__ == "__main__":
    main()
