#!/usr/bin/env python3
"""Regenerate MANIFEST.json from the table below (one entry per claimed property)."""
import json, os, subprocess
HERE = os.path.dirname(os.path.abspath(__file__))
VERIF = os.path.dirname(HERE)
props = [json.loads(l) for l in open(os.path.join(VERIF, "properties.jsonl"))]

CLAIMED = {
 "C20": dict(engine="Script", design_ref="DESIGN.md section 8 C20",
   technique="Lean 4 proof: parser = grammar (accepts/sound/rejects/unique) + differential correspondence of the Lean model with parse_server",
   text="Lean theorems C20_accepts / C20_sound / C20_rejects / C20_unique: the model of parse_server accepts exactly the documented grammar ADDRESS[:DISPLAY|::PORT] with exactly the documented host, port and family, for all strings and all values of the IPv6-validity and path-existence predicates. The model is tied to command.parse_server on every run by a differential run (generated + mutated strings, all strings of length <= 5 over {a,1,:,[,],.}) and the implementation is also compared directly with an independent recogniser of the grammar (the search).",
   note="Trusted: Lean kernel + standard axioms; CPython str/int/ipaddress semantics as modelled in VncModel/PyStr.lean (int(): ASCII only); correspondence reach is bounded by its generators."),
}

def main():
    fixes = subprocess.run(["git", "-C", os.environ.get("VERIF_REPO", "/repo"), "log", "--format=%h %s", "5de2a17..HEAD"],
                           stdout=subprocess.PIPE, text=True).stdout.strip().split("\n")
    checks = []
    for p in props:
        c = CLAIMED.get(p["id"])
        if not c:
            continue
        checks.append({
            "property_id": p["id"],
            "quick_cmd": "./check %s quick" % p["id"],
            "thorough_cmd": "./check %s thorough" % p["id"],
            "evidence_file": "evidence/%s.json" % p["id"],
            "replay_cmd_template": "./check --replay {path}",
            "engine": c["engine"],
            "level_claimed": {"category": "proof", "text": c["text"], "design_ref": c["design_ref"]},
            "level_note": c["note"],
            "technique": c["technique"],
        })
    m = {
        "version": 1,
        "setup_cmd": "cd lean && lake build VncSpec VncModel VncProofs vncdrv",
        "hooks": {
            "guard": "SIBSON_VNCDOTOOL_VERIF",
            "enable": "no source hooks are needed: the harness drives the real classes in-process (in-memory transport, subclassing, patching of reactor/time/os.urandom); the guard variable is set by the harness but nothing in /repo reads it",
            "baseline_off_cmd": "cd /repo && /venv/bin/python -m pytest -ra -q -p no:cacheprovider --timeout=900 --continue-on-collection-errors",
            "source_commits": [f for f in fixes if f],
            "add_only": False,
        },
        "engines": [
            {"name": "Expect", "path": "lean/VncModel/Expect.lean", "serves_properties": ["C01", "C15", "C16", "C17"], "kind_free_text": "generic buffering machine + segmentation theorems (Lean)"},
            {"name": "Script", "path": "lean/VncModel/Address.lean", "serves_properties": ["C20"], "kind_free_text": "pure functions of command.py (Lean model + theorems)"},
            {"name": "harness", "path": "harness/", "serves_properties": sorted(CLAIMED), "kind_free_text": "Python: implementation drivers, generators, correspondence with the Lean driver (lean/Driver/Main.lean), spec oracles"},
        ],
        "checks": checks,
        "notes": "Machine-checked proof in Lean 4 over a hand-written model, tied to /repo on every run by regenerated tables (tools/extract_tables.py) and a differential correspondence run; see DESIGN.md. source_commits are the fix: commits (genuine defects repaired, see known_findings.txt); there are no hook commits.",
        "not_applicable": [{"property_id": p["id"], "reason": "check not built yet (build in progress, DESIGN.md section 11); to be claimed at level proof"}
                           for p in props if p["id"] not in CLAIMED],
    }
    json.dump(m, open(os.path.join(VERIF, "MANIFEST.json"), "w"), indent=1)
    print("claimed:", sorted(CLAIMED))

if __name__ == "__main__":
    main()
