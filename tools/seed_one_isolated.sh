#!/bin/sh
# seed_one_isolated.sh <seed-dir-name> [tier]: run one seeded change against its property's check in a private copy of
# /verif and a private clone of /repo (so several can run in parallel and /repo itself is never touched); prints one line.
d=$1; T=${2:-quick}
SRC=$(cd "$(dirname "$0")/.." && pwd)
P=${CHECKPROP:-$(echo $d | cut -c1-3)}
W=/tmp/mx/$d-$P-$$
rm -rf $W; mkdir -p $W
git clone -q ${VERIF_REPO:-/repo} $W/repo
cp -r $SRC $W/verif
(cd $W/repo && git apply $W/verif/seeded/$d/patch.diff) || { echo "$d apply-failed"; rm -rf $W; exit 0; }
(cd $W/verif && VERIF_REPO=$W/repo timeout 2400 ./check $P $T > $W/log 2>&1); rc=$?
kind=$(grep -c "no-failing-input-found" $W/log)
nv=$(grep -c "^VIOLATION" $W/log)
case $d in *n|*n2|*n3|*n4) want=0;; *) want=1;; esac
[ $rc -eq $want ] && verdict=as-expected || verdict=UNEXPECTED
echo "$d check=$P rc=$rc (want $want) violations=$nv without_input=$kind $verdict"
mkdir -p /tmp/mxlogs; cp $W/log /tmp/mxlogs/$d-$P-${VERIF_SEED:-0}.log
[ $rc -ne $want ] && { mkdir -p /tmp/mxlogs/$d.replays; cp -r $W/verif/replays/. /tmp/mxlogs/$d.replays/ 2>/dev/null; }
rm -rf $W
