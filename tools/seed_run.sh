#!/bin/sh
# seed_run.sh <seeded-dir-name> [PROP] [tier]: apply the seeded change to /repo, run ./check, undo it straight afterwards.
N=$1; P=${2:-$(echo $N | cut -c1-3)}; T=${3:-quick}
cd /repo && git apply /verif/seeded/$N/patch.diff || { echo "apply failed"; exit 2; }
cd /verif && timeout 1800 ./check $P $T > /tmp/seed_run.log 2>&1; rc=$?; tail -3 /tmp/seed_run.log
git -C /repo checkout -- . 
echo "seed=$N check=$P rc=$rc"
