#!/bin/sh
# seed_import2.sh <PROP> <c|d|e|n>: verify a second-wave sub-agent result in its scratch clone and copy it to /verif/seeded/<PROP><v>/
# (n = harmless refactoring: tests pass and every demo of that property still passes)
set -u
P=$1; V=$2
R=${SEEDROOT:-/tmp/seed2}; WT=$R/wt-$P; OUT=$R/out/$P; DST=/verif/seeded/$P$V
cd $WT || exit 2
git checkout -q -- . ; git clean -qfd
[ -f $OUT/patch_$V.diff ] || { echo "$P$V: no patch"; exit 1; }
if [ $V = n ] || [ $V = n2 ] || [ $V = n3 ] || [ $V = n4 ]; then
  git apply $OUT/patch_$V.diff || { echo "$P$V: patch does not apply"; exit 1; }
  t=$(/venv/bin/python -m pytest -q -p no:cacheprovider tests/unit 2>&1 | tail -1)
  bad=""
  # OWN_DEMO_ONLY=1: only the author's own demonstration has to pass (used for import-style restructurings, under which the
  # demonstrations of the first campaign fail because THEY patch module attributes such as client.reactor / loggingproxy.time)
  OLD="/verif/seeded/${P}a/demo.py /verif/seeded/${P}b/demo.py"; [ -n "${OWN_DEMO_ONLY:-}" ] && OLD=""
  for d in $OUT/demo_*.py $OLD; do
    [ -f $d ] || continue
    timeout 300 /venv/bin/python $d >/dev/null 2>&1 || bad="$bad $(basename $(dirname $d))/$(basename $d)"
  done
  git checkout -q -- . ; git clean -qfd
  echo "$P$V: tests: $t ; demos failing under the refactoring: ${bad:-none}"
  case "$t" in *"67 passed"*) ;; *) echo "$P$V: tests do not pass"; exit 1;; esac
  [ -z "$bad" ] || { echo "$P$V: not behaviour preserving"; exit 1; }
  mkdir -p $DST && cp $OUT/patch_$V.diff $DST/patch.diff
  kind=neutral
else
  timeout 300 /venv/bin/python $OUT/demo_$V.py >$R/clean_$P$V.log 2>&1; c=$?
  git apply $OUT/patch_$V.diff || { echo "$P$V: patch does not apply"; exit 1; }
  t=$(/venv/bin/python -m pytest -q -p no:cacheprovider tests/unit 2>&1 | tail -1)
  timeout 300 /venv/bin/python $OUT/demo_$V.py >$R/mut_$P$V.log 2>&1; m=$?
  git checkout -q -- . ; git clean -qfd
  echo "$P$V: clean-demo-rc=$c mutated-demo-rc=$m tests: $t"
  case "$t" in *"67 passed"*) ;; *) echo "$P$V: tests do not pass"; exit 1;; esac
  [ $c -eq 0 ] && [ $m -ne 0 ] || { echo "$P$V: demo does not discriminate"; exit 1; }
  mkdir -p $DST && cp $OUT/patch_$V.diff $DST/patch.diff && cp $OUT/demo_$V.py $DST/demo.py
  kind=breaking
fi
/venv/bin/python - "$P" "$V" "$t" "$kind" <<'PY'
import json,sys,os
P,V,t,kind=sys.argv[1:5]
try: m=json.load(open(os.environ.get("SEEDROOT","/tmp/seed2")+f"/out/{P}/meta_{V}.json"))
except Exception: m={}
m["property"]=P; m["kind"]=kind
if kind=="breaking":
    m["verified"]={"unit_tests_with_patch":t.strip(),"demo_on_clean_tree":"exit 0 (PASS)","demo_with_patch":"exit non-zero (FAIL)",
      "how":"tools/seed_import2.sh: scratch clone of /repo HEAD, git apply patch, pytest tests/unit, demo.py; reverted afterwards"}
else:
    m["verified"]={"unit_tests_with_patch":t.strip(),"demos_with_patch":"all demonstrations of this property's seeded changes still PASS",
      "how":"tools/seed_import2.sh"}
    m["expect"]="the property still holds: the check must PASS (exit 0, no VIOLATION) with this patch applied"
m["origin"]="written by an independent sub-agent (second wave) that saw only the property text and a scratch clone"
json.dump(m,open(f"/verif/seeded/{P}{V}/meta.json","w"),indent=1)
PY
