#!/bin/sh
# seed_import.sh <PROP> <a|b>: verify a sub-agent's seeded change in its scratch worktree and copy it to /verif/seeded/<PROP><ab>/
set -u
P=$1; V=$2
WT=/tmp/seed/wt-$P; OUT=/tmp/seed/out/$P; DST=/verif/seeded/$P$V
cd $WT || exit 2
git checkout -q -- . ; git clean -qfd
/venv/bin/python $OUT/demo_$V.py >/tmp/seed/clean_$P$V.log 2>&1; c=$?
git apply $OUT/patch_$V.diff || { echo "$P$V: patch does not apply"; exit 1; }
t=$(/venv/bin/python -m pytest -q -p no:cacheprovider tests/unit 2>&1 | tail -1)
/venv/bin/python $OUT/demo_$V.py >/tmp/seed/mut_$P$V.log 2>&1; m=$?
git checkout -q -- . ; git clean -qfd
echo "$P$V: clean-demo-rc=$c mutated-demo-rc=$m tests: $t"
case "$t" in *"67 passed"*) ;; *) echo "$P$V: tests do not pass"; exit 1;; esac
[ $c -eq 0 ] && [ $m -ne 0 ] || { echo "$P$V: demo does not discriminate"; exit 1; }
mkdir -p $DST && cp $OUT/patch_$V.diff $DST/patch.diff && cp $OUT/demo_$V.py $DST/demo.py
/venv/bin/python - "$P" "$V" "$t" <<'PY'
import json,sys
P,V,t=sys.argv[1:4]
m=json.load(open(f"/tmp/seed/out/{P}/meta_{V}.json"))
m["property"]=P
m["verified"]={"unit_tests_with_patch":t.strip(),"demo_on_clean_tree":"exit 0 (PASS)","demo_with_patch":"exit non-zero (FAIL)",
  "how":"tools/seed_import.sh: scratch worktree of /repo HEAD, git apply patch, pytest tests/unit, demo.py; reverted afterwards"}
m["origin"]="written by an independent sub-agent that saw only the property text and a scratch worktree"
json.dump(m,open(f"/verif/seeded/{P}{V}/meta.json","w"),indent=1)
PY
