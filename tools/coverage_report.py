#!/venv/bin/python
"""coverage_report.py [IDs...]: which lines of /repo/vncdotool do the correspondence runs (quick tier) execute?
Not a check: a measurement used in DESIGN.md to say which parts of the code the model is tied to by execution and which
are only read.  Uses sys.settrace (stdlib); writes /verif/coverage.json and prints a per-function summary."""
import ast, importlib, json, os, sys, threading
HERE = os.path.dirname(os.path.abspath(__file__))
VERIF = os.path.dirname(HERE)
sys.path.insert(0, os.path.join(VERIF, "harness")); sys.path.insert(0, os.path.join(VERIF, "harness", "props"))
import framework  # noqa
REPO = framework.REPO
PKG = os.path.join(REPO, "vncdotool")
hit = {}


def tracer(frame, event, arg):
    fn = frame.f_code.co_filename
    if not fn.startswith(PKG):
        return None
    s = hit.setdefault(fn, set())

    def local(frame, event, arg):
        if event == "line":
            s.add(frame.f_lineno)
        return local
    s.add(frame.f_lineno)
    return local


ids = sys.argv[1:] or ["C%02d" % i for i in range(1, 21)]
per = {}
for pid in ids:
    before = {k: set(v) for k, v in hit.items()}
    ctx = framework.Ctx(pid, "quick", 0)
    mod = importlib.import_module(pid.lower())
    ctx.extract()
    sys.settrace(tracer); threading.settrace(tracer)
    try:
        mod.run(ctx)
    except BaseException as e:  # noqa
        print(pid, "run failed:", type(e).__name__, e)
    finally:
        sys.settrace(None); threading.settrace(None)
    per[pid] = {os.path.basename(k): len(v - before.get(k, set())) for k, v in hit.items()}
    print(pid, "done", file=sys.stderr)

report = {}
for fn in sorted(os.listdir(PKG)):
    if not fn.endswith(".py"):
        continue
    path = os.path.join(PKG, fn)
    tree = ast.parse(open(path).read())
    lines = hit.get(path, set())
    funcs = []
    for node in ast.walk(tree):
        if isinstance(node, (ast.FunctionDef, ast.AsyncFunctionDef)):
            body = set()
            for st in node.body:
                for sub in ast.walk(st):
                    if hasattr(sub, "lineno") and isinstance(sub, ast.stmt):
                        body.add(sub.lineno)
            # skip docstring-only
            got = len(body & lines)
            funcs.append({"name": node.name, "line": node.lineno, "stmts": len(body), "hit": got})
    tot = sum(f["stmts"] for f in funcs); got = sum(f["hit"] for f in funcs)
    report[fn] = {"statements_in_functions": tot, "executed": got, "functions": funcs}
    print("%-18s %4d / %4d statements inside functions executed (%.0f%%)" % (fn, got, tot, 100.0 * got / max(1, tot)))
    for f in funcs:
        if f["stmts"] and f["hit"] == 0:
            print("      never entered: %s (line %d, %d statements)" % (f["name"], f["line"], f["stmts"]))
        elif f["stmts"] and f["hit"] < f["stmts"]:
            print("      partly:        %s (line %d) %d/%d" % (f["name"], f["line"], f["hit"], f["stmts"]))
json.dump({"per_check_new_lines": per, "files": report}, open(os.path.join(VERIF, "coverage.json"), "w"), indent=1)
