#!/bin/sh
# seed_matrix_par.sh <jobs> [names...]: the seed matrix, in parallel, each seed in an isolated copy (see seed_one_isolated.sh)
J=$1; shift
cd "$(dirname "$0")/.."
ls seeded | { if [ $# -gt 0 ]; then for n in "$@"; do echo $n; done; else cat; fi; } | xargs -P $J -I{} tools/seed_one_isolated.sh {}
