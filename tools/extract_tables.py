#!/venv/bin/python
"""Transcribe the *data* vncdotool is driven by into Lean literals.

Imports the package from the working tree of VERIF_REPO (default /repo) and writes
lean/VncModel/Generated/Tables.lean.  Live objects rather than ast: only the content of
a table matters, not how it is written.  The file is rewritten only when its content
changes, so that an unchanged tree leaves lake's build a no-op.
"""
import os, sys, json
REPO = os.environ.get("VERIF_REPO", "/repo")
sys.path.insert(0, REPO)
import logging
logging.disable(logging.CRITICAL)
import vncdotool
assert os.path.realpath(os.path.dirname(vncdotool.__file__)) == os.path.realpath(os.path.join(REPO, "vncdotool"))
from vncdotool import rfb, client, command, loggingproxy

HERE = os.path.dirname(os.path.abspath(__file__))
OUT = os.path.join(HERE, "..", "lean", "VncModel", "Generated", "Tables.lean")


def lstr(s):
    out = '"'
    for ch in s:
        o = ord(ch)
        if ch == '"':
            out += '\\"'
        elif ch == '\\':
            out += '\\\\'
        elif 32 <= o < 127:
            out += ch
        else:
            out += "\\u{%x}" % o
    return out + '"'


def lbool(b):
    return "true" if b else "false"


def lpf(p):
    return ("{ bpp := %d, depth := %d, bigendian := %s, truecolor := %s, rmax := %d, gmax := %d, bmax := %d, "
            "rshift := %d, gshift := %d, bshift := %d }" % (
                p.bpp, p.depth, lbool(p.bigendian), lbool(p.truecolor), p.redmax, p.greenmax, p.bluemax,
                p.redshift, p.greenshift, p.blueshift))


def lint(i):
    return "(%d)" % i if i < 0 else "%d" % i


def llist(items, per_line=4):
    if not items:
        return "[]"
    lines = []
    for i in range(0, len(items), per_line):
        lines.append("  " + ", ".join(items[i:i + per_line]))
    return "[\n" + ",\n".join(lines) + "]"


def tables():
    """All extracted values as plain Python data (also echoed by the driver for cross-checking)."""
    F = client.VNCDoToolFactory
    LF = loggingproxy.VNCLoggingServerFactory
    C = client.VNCDoToolClient
    t = {}
    t["KEYMAP"] = [(k, int(v)) for k, v in client.KEYMAP.items()]
    t["REVERSE_MAP"] = [(int(k), v) for k, v in loggingproxy.REVERSE_MAP.items()]
    t["SPECIAL_KEYS_US"] = C.SPECIAL_KEYS_US
    t["MAX_DESKTOP_SIZE"] = C.MAX_DESKTOP_SIZE
    t["SUPPORTED_SERVER_VERSIONS"] = sorted(tuple(v) for v in rfb.RFBClient.SUPPORTED_SERVER_VERSIONS)
    t["MAX_CLIENT_VERSION"] = tuple(rfb.RFBClient.MAX_CLIENT_VERSION)
    t["SUPPORTED_AUTHS"] = sorted(int(a) for a in rfb.RFBClient.SUPPORTED_AUTHS)
    t["SUPPORTED_ENCODINGS"] = sorted(int(e) for e in rfb.RFBClient.SUPPORTED_ENCODINGS)
    t["PF2IM"] = [(p, m) for p, m in client.PF2IM.items()]
    t["RGB32"] = client.RGB32
    t["RGB24"] = client.RGB24
    t["BGR16"] = client.BGR16
    t["DEFAULT_PF"] = rfb.PixelFormat()
    t["DEFAULT_IMAGE_MODE"] = C.image_mode
    t["PF_STRUCT"] = rfb.PixelFormat.STRUCT.format
    t["TYPE_LEN"] = sorted((int(k), int(v)) for k, v in loggingproxy.TYPE_LEN.items())
    # framing constants read off the source text: every `self.expect(self._handleX, <integer literal>, ...)` in rfb.py
    # (handler name, length).  Only literal lengths are listed: a length that is computed is the business of the
    # correspondence run.  A handler expected with two different literals is listed twice (the theorem then fails).
    import ast
    sites = set()
    for node in ast.walk(ast.parse(open(rfb.__file__.replace(".pyc", ".py")).read())):
        if (isinstance(node, ast.Call) and isinstance(node.func, ast.Attribute) and node.func.attr == "expect" and len(node.args) >= 2
                and isinstance(node.args[0], ast.Attribute) and isinstance(node.args[1], ast.Constant) and isinstance(node.args[1].value, int)):
            sites.add((node.args[0].attr, int(node.args[1].value)))
    t["EXPECT_CONST"] = sorted(sites)
    t["SUPPORTED_FORMATS"] = list(command.SUPPORTED_FORMATS)
    t["VMWARE_PATTERN"] = bytes(client.VMWareClient.SINGLE_PIXEL_UPDATE)
    t["HEADER"] = bytes(rfb.RFBClient._HEADER)
    t["DEFAULT_ENCODING"] = int(C.encoding)
    for cls, pre in ((F, "FACTORY"), (LF, "LOGFACTORY")):
        for opt in ("shared", "pseudocursor", "nocursor", "pseudodesktop", "qemu_extended_key", "last_rect", "force_caps"):
            t[f"{pre}_{opt}"] = bool(getattr(cls, opt))
    t["LOGFACTORY_password_required"] = bool(LF.password_required)
    E = rfb.Encoding
    t["ENC"] = {n: int(getattr(E, n)) for n in (
        "RAW", "COPY_RECTANGLE", "RRE", "CORRE", "HEXTILE", "ZRLE", "PSEUDO_CURSOR", "PSEUDO_DESKTOP_SIZE",
        "PSEUDO_LAST_RECT", "PSEUDO_QEMU_EXTENDED_KEY_EVENT")}
    A = rfb.AuthTypes
    t["AUTH"] = {n: int(getattr(A, n)) for n in ("INVALID", "NONE", "VNC_AUTHENTICATION", "DIFFIE_HELLMAN")}
    M = rfb.MsgS2C
    t["S2C"] = {n: int(getattr(M, n)) for n in ("FRAMEBUFFER_UPDATE", "SET_COLOUR_MAP_ENTRIES", "BELL", "SERVER_CUT_TEXT")}
    H = rfb.HextileEncoding
    t["HEX"] = {n: int(getattr(H, n)) for n in ("RAW", "BACKGROUND_SPECIFIED", "FOREGROUND_SPECIFIED", "ANY_SUBRECTS", "SUBRECTS_COLORED")}
    C2 = loggingproxy.MsgC2S
    t["C2S"] = {n: int(getattr(C2, n)) for n in ("SET_PIXEL_FORMAT", "SET_ENCODING", "FRAMEBUFFER_UPDATE_REQUEST", "KEY_EVENT",
                                                 "POINTER_EVENT", "CLIENT_CUT_TEXT", "QEMU_CLIENT_MESSAGE")}
    t["KEY_CONSTS"] = sorted((n, int(v)) for n, v in vars(rfb).items() if n.startswith("KEY_") and isinstance(v, int))
    return t


def render(t):
    o = []
    w = o.append
    w("import VncModel.Types")
    w("/-! GENERATED by tools/extract_tables.py from the working tree of the repository -- do not edit. -/")
    w("namespace Vnc.Tables\n")
    w("def KEYMAP : List (String × Nat) := " + llist(["(%s, %d)" % (lstr(k), v) for k, v in t["KEYMAP"]]) + "\n")
    w("def REVERSE_MAP : List (Nat × String) := " + llist(["(%d, %s)" % (k, lstr(v)) for k, v in t["REVERSE_MAP"]]) + "\n")
    w("def KEY_CONSTS : List (String × Nat) := " + llist(["(%s, %d)" % (lstr(k), v) for k, v in t["KEY_CONSTS"]]) + "\n")
    w("def SPECIAL_KEYS_US : String := " + lstr(t["SPECIAL_KEYS_US"]))
    w("def MAX_DESKTOP_SIZE : Nat := %d" % t["MAX_DESKTOP_SIZE"])
    w("def SUPPORTED_SERVER_VERSIONS : List (Nat × Nat) := " + llist(["(%d, %d)" % v for v in t["SUPPORTED_SERVER_VERSIONS"]], 8))
    w("def MAX_CLIENT_VERSION : Nat × Nat := (%d, %d)" % t["MAX_CLIENT_VERSION"])
    w("def SUPPORTED_AUTHS : List Nat := " + llist(["%d" % a for a in t["SUPPORTED_AUTHS"]], 16))
    w("def SUPPORTED_ENCODINGS : List Int := " + llist([lint(e) for e in t["SUPPORTED_ENCODINGS"]], 16))
    w("def PF2IM : List (PF × String) := " + llist(["(%s, %s)" % (lpf(p), lstr(m)) for p, m in t["PF2IM"]], 1))
    for n in ("RGB32", "RGB24", "BGR16", "DEFAULT_PF"):
        w("def %s : PF := %s" % (n, lpf(t[n])))
    w("def DEFAULT_IMAGE_MODE : String := " + lstr(t["DEFAULT_IMAGE_MODE"]))
    w("def PF_STRUCT : String := " + lstr(t["PF_STRUCT"]))
    w("def TYPE_LEN : List (Nat × Nat) := " + llist(["(%d, %d)" % kv for kv in t["TYPE_LEN"]], 8))
    w("def EXPECT_CONST : List (String × Nat) := " + llist(["(%s, %d)" % (lstr(k), v) for k, v in t["EXPECT_CONST"]], 4))
    w("def SUPPORTED_FORMATS : List String := " + llist([lstr(s) for s in t["SUPPORTED_FORMATS"]], 8))
    w("def VMWARE_PATTERN : List UInt8 := " + llist(["%d" % b for b in t["VMWARE_PATTERN"]], 20))
    w("def HEADER : List UInt8 := " + llist(["%d" % b for b in t["HEADER"]], 20))
    w("def DEFAULT_ENCODING : Int := " + lint(t["DEFAULT_ENCODING"]))
    for k in sorted(t):
        if k.startswith("FACTORY_") or k.startswith("LOGFACTORY_"):
            w("def %s : Bool := %s" % (k, lbool(t[k])))
    for grp, typ in (("ENC", "Int"), ("AUTH", "Nat"), ("S2C", "Nat"), ("HEX", "Nat"), ("C2S", "Nat")):
        for n, v in t[grp].items():
            w("def %s_%s : %s := %s" % (grp, n, typ, lint(v)))
    w("\nend Vnc.Tables")
    return "\n".join(o) + "\n"


def main():
    try:
        text = render(tables())
    except Exception as e:  # an object the tables need has disappeared
        print("EXTRACT-FAILED %s: %s" % (type(e).__name__, e))
        return 3
    os.makedirs(os.path.dirname(OUT), exist_ok=True)
    old = open(OUT).read() if os.path.exists(OUT) else None
    if old != text:
        open(OUT, "w").write(text)
        print("tables: rewritten")
    else:
        print("tables: unchanged")
    return 0


if __name__ == "__main__":
    sys.exit(main())
