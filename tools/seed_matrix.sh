#!/bin/sh
# seed_matrix.sh [names...]: run each seeded change against the check of its own property; prints one line per seed
cd /verif
for d in ${@:-$(ls seeded)}; do
  P=$(echo $d | cut -c1-3)
  (cd /repo && git apply /verif/seeded/$d/patch.diff) || { echo "$d apply-failed"; continue; }
  timeout 1800 ./check $P quick > /tmp/seed_$d.log 2>&1; rc=$?
  (cd /repo && git checkout -- .)
  kind=$(grep -c "no-failing-input-found" /tmp/seed_$d.log)
  nv=$(grep -c "^VIOLATION" /tmp/seed_$d.log)
  case $d in *n|*n2|*n3|*n4) want=0;; *) want=1;; esac
  [ $rc -eq $want ] && verdict=as-expected || verdict=UNEXPECTED
  echo "$d check=$P rc=$rc (want $want) violations=$nv without_input=$kind $verdict"
done
