#!/bin/sh
# check_isolated.sh <PROP> <tier> [seed]: run a check on the unchanged tree in a private copy of /verif and clone of /repo
P=$1; T=${2:-quick}; S=${3:-0}
SRC=$(cd "$(dirname "$0")/.." && pwd)
W=/tmp/iso/$P-$T-$S
rm -rf $W; mkdir -p $W
git clone -q ${VERIF_REPO:-/repo} $W/repo
cp -r $SRC $W/verif
s=$(date +%s)
(cd $W/verif && VERIF_SEED=$S VERIF_REPO=$W/repo timeout 7200 ./check $P $T > $W/log 2>&1); rc=$?
mkdir -p /tmp/isologs; cp $W/log /tmp/isologs/$P-$T-$S.log; cp $W/verif/evidence/$P.json /tmp/isologs/$P-$T-$S.evidence.json 2>/dev/null
echo "$P $T seed=$S rc=$rc $(( $(date +%s) - s ))s: $(grep -v '^KNOWN-FINDING' $W/log | tail -1)"
[ $rc -ne 0 ] && { mkdir -p /tmp/isologs/$P-$T-$S.replays; cp -r $W/verif/replays/. /tmp/isologs/$P-$T-$S.replays/ 2>/dev/null; }
rm -rf $W
